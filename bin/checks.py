"""Static table: harness groups (how to build) and checks (how to run)."""

ROOT_CORE = [("harness/core", "zzverif/core")]

GROUPS = {
    "cl": {"pkg": "./zzverif/cl", "graft": ROOT_CORE + [("harness/cl", "zzverif/cl")]},
}

A_ASSUME = [
    "handlers are driven through the application's MsgServiceRouter with an infinite gas meter, in the default exec mode",
    "state cloning by CacheContext is exact (cosmos-sdk store semantics trusted)",
    "IAVL/commit and CometBFT are outside the explored system",
]

CHECKS = {
    "C07": {
        "group": "cl",
        "quick": {"deadline": 240},
        "thorough": {"deadline": 1500},
        "require_vacuity": ["empty_pool_states", "price_in_empty_gap"],
        "rule": "explicit-state DFS over all operation sequences of the CL alphabet up to the depth bound, from the initial and "
                "three composed seed states, per configuration; states deduplicated by SHA-256 of the full content of every "
                "store the handlers can write; invariants evaluated in every distinct state",
        "assumptions": A_ASSUME,
    },
    "C01": {
        "group": "cl",
        "quick": {"deadline": 300},
        "thorough": {"deadline": 1800},
        "require_vacuity": ["exit_orders_executed", "states_with_claimable_spread", "states_with_claimable_incentives"],
        "rule": "same exploration as C07; in every distinct state all positions claim and fully withdraw on discarded branches "
                "in every order (<=3 positions: all permutations; more: rotations + reverse), now and after the largest uptime",
        "assumptions": A_ASSUME,
    },
}

A_NOTE = ("Trusted: cosmos-sdk store/CacheContext semantics, bank module, Go runtime. Bounds: the alphabet, depth, seeds and "
          "configurations recorded in the evidence file; handlers run with an infinite gas meter.")

MANIFEST_TEXT = {
    "C07": {"engine": "A ledger explorer", "technique": "explicit-state model checking of the implementation (bounded DFS over operation histories, state-hash dedup, invariant in every state)",
            "text": "Every operation sequence of the CL alphabet up to the depth bound, from the initial state and three composed mid-life seeds, in each configuration, is executed on the real application; after every transition the pool's liquidity, tick set, tick gross/net and price/tick agreement are recomputed from a ledger built from responses only and compared. Coverage is complete within the stated bounds, silent outside.",
            "note": A_NOTE},
    "C01": {"engine": "A ledger explorer", "technique": "explicit-state model checking of the implementation (bounded DFS over operation histories; exit-in-every-order probe on discarded branches in every state)",
            "text": "Same exploration as C07; in every distinct state all holders claim and fully withdraw on discarded branches in every order, now and after the largest uptime, and the reward accounts are compared with the summed claimables.",
            "note": A_NOTE},
}
