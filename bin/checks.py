"""Loads the check table from bin/checks.d/*.json.

Each fragment: {"groups": {name: {...}}, "checks": {Cxx: {...}}, "manifest": {Cxx: {...}}}

group:   pkg (go package path relative to moddir), moddir (default "."), kind ("build"|"test"),
         graft: [[path under /verif, virtual path under /repo], ...]  (directories or single files)
check:   group, quick/thorough: {deadline, shards, args}, require_vacuity, rule, assumptions, engine
manifest: engine, technique, text, note
"""
import glob
import json
import os

_D = os.path.join(os.path.dirname(os.path.abspath(__file__)), "checks.d")
GROUPS, CHECKS, MANIFEST_TEXT = {}, {}, {}
for _f in sorted(glob.glob(os.path.join(_D, "*.json"))):
    with open(_f) as _fh:
        _j = json.load(_fh)
    for _k, _v in _j.get("groups", {}).items():
        if _k in GROUPS:
            raise SystemExit("duplicate group %s in %s" % (_k, _f))
        GROUPS[_k] = _v
    for _k, _v in _j.get("checks", {}).items():
        if _k in CHECKS:
            raise SystemExit("duplicate check %s in %s" % (_k, _f))
        CHECKS[_k] = _v
    MANIFEST_TEXT.update(_j.get("manifest", {}))
