package main

import (
	"crypto/sha256"
	"fmt"
	"math/big"
	"sort"
	"strings"
	"time"

	sdkmath "cosmossdk.io/math"
	sdk "github.com/cosmos/cosmos-sdk/types"
	banktypes "github.com/cosmos/cosmos-sdk/x/bank/types"
	stakingtypes "github.com/cosmos/cosmos-sdk/x/staking/types"
	"github.com/cosmos/gogoproto/proto"

	"github.com/osmosis-labs/osmosis/osmomath"
	"github.com/osmosis-labs/osmosis/v31/app"
	"github.com/osmosis-labs/osmosis/v31/x/gamm/pool-models/balancer"
	gammtypes "github.com/osmosis-labs/osmosis/v31/x/gamm/types"
	lockuptypes "github.com/osmosis-labs/osmosis/v31/x/lockup/types"
	minttypes "github.com/osmosis-labs/osmosis/v31/x/mint/types"
	pmtypes "github.com/osmosis-labs/osmosis/v31/x/poolmanager/types"
	sftypes "github.com/osmosis-labs/osmosis/v31/x/superfluid/types"
	epochstypes "github.com/osmosis-labs/osmosis/x/epochs/types"

	"github.com/osmosis-labs/osmosis/v31/zzverif/core"
)

// Config is the (single-point) configuration of the superfluid scenario; it is copied into every
// replay artefact.
type Config struct {
	EpochSeconds     int64     `json:"epoch_seconds"`     // duration of the epoch the superfluid module follows
	UnbondingSeconds int64     `json:"unbonding_seconds"` // staking unbonding time = synthetic lock duration
	PoolOsmo         string    `json:"pool_bond_denom"`
	PoolFoo          string    `json:"pool_foo"`
	SwapFee          string    `json:"swap_fee"`
	MintPerEpoch     int64     `json:"mint_per_epoch"`
	Amounts          [2]string `json:"lock_amounts"` // per owner A, B
	TopUp            string    `json:"topup_amount"`
	SwapOsmoIn       string    `json:"swap_bond_denom_in"`
	SwapFooIn        string    `json:"swap_foo_in"`
	StartHeight      int64     `json:"seed_height"` // every seed ends at this height (the lockup sweep runs when height%120==0)
}

func DefaultConfig() Config {
	return Config{
		EpochSeconds: 3600, UnbondingSeconds: 3 * 3600,
		PoolOsmo: "20000000123", PoolFoo: "40000000000", SwapFee: "0.01", MintPerEpoch: 1000000,
		Amounts: [2]string{"1234567890123456789", "777777777777777777"}, TopUp: "333333333333333333",
		SwapOsmoIn: "3000000077", SwapFooIn: "7000000000", StartHeight: 119,
	}
}

const (
	FooDenom  = "foo"
	EpochName = "week" // the identifier x/incentives (and therefore x/superfluid) and x/mint use by default
)

var owners = []string{"A", "B"}

// Op is one symbol of the alphabet.
type Op struct {
	K string `json:"k"`           // lockdel lock del undel unbond undelunbond beginunlock swap tick epoch jump ff
	A string `json:"a,omitempty"` // owner
	V int    `json:"v,omitempty"` // validator index
	P int    `json:"p,omitempty"` // index into the ledger's live locks (creation order)
	X int64  `json:"x,omitempty"` // numerator / direction / target height
	Y int64  `json:"y,omitempty"` // denominator
}

func (o Op) String() string {
	switch o.K {
	case "lockdel":
		return fmt.Sprintf("LockAndSuperfluidDelegate(%s,val%d)", o.A, o.V)
	case "lock":
		return fmt.Sprintf("LockTokens(%s,topup-amount,unbonding-duration)", o.A)
	case "del":
		return fmt.Sprintf("SuperfluidDelegate(lock#%d,val%d)", o.P, o.V)
	case "undel":
		return fmt.Sprintf("SuperfluidUndelegate(lock#%d)", o.P)
	case "unbond":
		return fmt.Sprintf("SuperfluidUnbondLock(lock#%d)", o.P)
	case "undelunbond":
		return fmt.Sprintf("SuperfluidUndelegateAndUnbondLock(lock#%d,%d/%d)", o.P, o.X, o.Y)
	case "beginunlock":
		return fmt.Sprintf("BeginUnlocking(lock#%d)", o.P)
	case "unlockall":
		return fmt.Sprintf("BeginUnlockingAll(%s)", o.A)
	case "swap":
		if o.X == 0 {
			return "Swap(bond denom in)"
		}
		return "Swap(foo in)"
	case "ff":
		return fmt.Sprintf("FastForward(1s blocks to height %d)", o.X)
	}
	return o.K
}

const (
	sfPlain = iota
	sfDelegated
	sfUndelegating
)

// LockRec is the harness's own record of a lock, built from requests and responses.
type LockRec struct {
	ID        uint64
	Owner     string
	Amt       sdkmath.Int
	Dur       time.Duration
	SF        int // sfPlain / sfDelegated / sfUndelegating
	Val       int
	UndelAt   time.Time // block time of the accepted undelegation
	Unlocking bool
	End       time.Time // unlock start + duration
	WasSF     bool      // has been superfluid-undelegated at some point (vacuity only)
}

// Ledger is the reference state.
type Ledger struct {
	Locks      []LockRec
	NextLockID uint64
	Acct       [2]bool  // intermediary account (share denom, val i) has been created
	Mult       *big.Int // osmo-equivalent multiplier, 18 decimals, as refreshed at the last epoch
	PoolOsmo   sdkmath.Int
	Supply0    sdkmath.Int
	Minted     sdkmath.Int
	// model of the epoch timer (x/epochs documented rule: tick when block time is after start+duration,
	// one tick per block, start advances by exactly one duration)
	EpStarted bool
	EpStart   time.Time
	EpNum     int64
	Now       time.Time
	Height    int64
	// JustRefreshed: this state is the one immediately after a block boundary at which the epoch ticked
	JustRefreshed bool
	LastOp        string
	Withdrawn     int
	// StakeOps counts, per intermediary account, the stake-changing steps (a delegation, an undelegation, a
	// top-up; a partial undelegate-and-unbond is two) since the last epoch refresh
	StakeOps [2]int
}

func (l *Ledger) Clone() *Ledger {
	n := *l
	n.Locks = append([]LockRec{}, l.Locks...)
	n.Mult = new(big.Int).Set(l.Mult)
	return &n
}

func (l *Ledger) digest() []byte {
	var b strings.Builder
	for _, k := range l.Locks {
		fmt.Fprintf(&b, "%d/%s/%s/%d/%d/%d/%d/%v/%d;", k.ID, k.Owner, k.Amt, k.Dur, k.SF, k.Val, k.UndelAt.UnixNano(), k.Unlocking, k.End.UnixNano())
	}
	fmt.Fprintf(&b, "|%d|%v|%s|%s|%s|%v|%d|%d|%d|%d|%v", l.NextLockID, l.Acct, l.Mult, l.PoolOsmo, l.Minted, l.EpStarted, l.EpStart.UnixNano(), l.EpNum, l.Now.UnixNano(), l.Height, l.JustRefreshed)
	fmt.Fprintf(&b, "|%v", l.StakeOps)
	h := sha256.Sum256([]byte(b.String()))
	return h[:16]
}

// World is one application instance with the pool, the superfluid asset and the funded owners.
type World struct {
	Env         *core.Env
	App         *app.OsmosisApp
	Cfg         Config
	PoolID      uint64
	PoolAddr    sdk.AccAddress
	ShareDenom  string
	BondDenom   string
	TotalShares sdkmath.Int
	Funds       map[string]sdkmath.Int // shares each owner was given
	E, U        time.Duration
	Risk        *big.Int // MinimumRiskFactor, 18 decimals
	Mint        sdkmath.Int
	Mult0       *big.Int
	Supply0     sdkmath.Int
	Vac         map[string]int64
	Extra       map[string]interface{}
}

func mustInt(s string) sdkmath.Int {
	x, ok := sdkmath.NewIntFromString(s)
	if !ok {
		panic("bad int " + s)
	}
	return x
}

func mustUnmarshal(res *sdk.Result, m proto.Message) {
	if len(res.MsgResponses) > 0 {
		if err := proto.Unmarshal(res.MsgResponses[0].Value, m); err != nil {
			panic(err)
		}
		return
	}
	if err := proto.Unmarshal(res.Data, m); err != nil {
		panic(err)
	}
}

// errClass maps an error to a short stable class (numbers stripped).
func errClass(err error) string {
	if err == nil {
		return "ok"
	}
	m := []rune(err.Error())
	out := make([]rune, 0, 60)
	for _, c := range m {
		if c >= '0' && c <= '9' {
			continue
		}
		out = append(out, c)
		if len(out) >= 60 {
			break
		}
	}
	return "rejected:" + strings.TrimSpace(string(out))
}

// NewWorld builds the application: 2 validators, a balancer pool uosmo/foo created by message, its
// share denom registered as a superfluid asset, shares handed to the owners.
func NewWorld(cfg Config) *World {
	E := time.Duration(cfg.EpochSeconds) * time.Second
	U := time.Duration(cfg.UnbondingSeconds) * time.Second
	// the bond denom of the deterministic genesis (sdk.DefaultBondDenom) plays the role of OSMO: it is what
	// x/staking bonds, x/mint mints and x/superfluid values shares in; "uosmo" only pays the pool creation fee
	fund := core.Coins("uosmo", "1000000000000000", sdk.DefaultBondDenom, "1000000000000000", FooDenom, "1000000000000000")
	env := core.NewEnv(core.GenesisOpts{
		NumValidators: 2,
		Balances:      map[string]sdk.Coins{"A": core.Coins("uosmo", 1000000), "B": core.Coins("uosmo", 1000000), "P": fund, "T": fund},
		Mutate: func(a *app.OsmosisApp, gs app.GenesisState) {
			cdc := a.AppCodec()
			// the epoch the superfluid module follows, shortened
			var eg epochstypes.GenesisState
			cdc.MustUnmarshalJSON(gs[epochstypes.ModuleName], &eg)
			found := false
			for i := range eg.Epochs {
				if eg.Epochs[i].Identifier == EpochName {
					eg.Epochs[i].Duration = E
					found = true
				}
			}
			if !found {
				panic("harness: no epoch " + EpochName)
			}
			gs[epochstypes.ModuleName] = cdc.MustMarshalJSON(&eg)
			// staking unbonding time (one of x/incentives' default lockable durations, so that the
			// intermediary account's gauge can be created)
			var sg stakingtypes.GenesisState
			cdc.MustUnmarshalJSON(gs[stakingtypes.ModuleName], &sg)
			sg.Params.UnbondingTime = U
			gs[stakingtypes.ModuleName] = cdc.MustMarshalJSON(&sg)
			// mint: a known constant provision per epoch, all of it to staking (no developer-vesting
			// path), as the repository's own superfluid test-suite configures it
			var mg minttypes.GenesisState
			cdc.MustUnmarshalJSON(gs[minttypes.ModuleName], &mg)
			mg.Params.EpochIdentifier = EpochName
			mg.Params.GenesisEpochProvisions = osmomath.NewDec(cfg.MintPerEpoch)
			mg.Params.DistributionProportions = minttypes.DistributionProportions{
				Staking: osmomath.OneDec(), PoolIncentives: osmomath.ZeroDec(), DeveloperRewards: osmomath.ZeroDec(), CommunityPool: osmomath.ZeroDec(),
			}
			mg.Params.MintingRewardsDistributionStartEpoch = 0
			mg.Minter = minttypes.InitialMinter()
			mg.ReductionStartedEpoch = 0
			if err := minttypes.ValidateGenesis(mg); err != nil {
				panic(err)
			}
			gs[minttypes.ModuleName] = cdc.MustMarshalJSON(&mg)
		},
	})
	a, ctx := env.App, env.Ctx
	w := &World{Env: env, App: a, Cfg: cfg, E: E, U: U, Funds: map[string]sdkmath.Int{}, Vac: map[string]int64{}, Extra: map[string]interface{}{}}
	if len(env.Vals) != 2 {
		panic("harness: expected 2 validators")
	}
	bd, err := a.StakingKeeper.BondDenom(ctx)
	if err != nil {
		panic(err)
	}
	w.BondDenom = bd
	if bd != sdk.DefaultBondDenom || a.MintKeeper.GetParams(ctx).MintDenom != bd {
		panic("harness: bond denom is " + bd + ", mint denom " + a.MintKeeper.GetParams(ctx).MintDenom)
	}
	if a.IncentivesKeeper.GetParams(ctx).DistrEpochIdentifier != EpochName || a.MintKeeper.GetParams(ctx).EpochIdentifier != EpochName {
		panic("harness: epoch identifiers differ from the assumed one")
	}
	if ut, _ := a.StakingKeeper.UnbondingTime(ctx); ut != U {
		panic("harness: unbonding time not applied")
	}
	w.Mint = a.MintKeeper.GetMinter(ctx).EpochProvisions.TruncateInt()
	if !w.Mint.Equal(sdkmath.NewInt(cfg.MintPerEpoch)) {
		panic("harness: mint provision not applied: " + w.Mint.String())
	}
	w.Risk = a.SuperfluidKeeper.GetParams(ctx).MinimumRiskFactor.BigInt()

	// the pool, by message
	pa := []balancer.PoolAsset{
		{Weight: sdkmath.NewInt(100), Token: sdk.NewCoin(bd, mustInt(cfg.PoolOsmo))},
		{Weight: sdkmath.NewInt(100), Token: sdk.NewCoin(FooDenom, mustInt(cfg.PoolFoo))},
	}
	cm := balancer.NewMsgCreateBalancerPool(core.Acc("P"), balancer.PoolParams{SwapFee: osmomath.MustNewDecFromStr(cfg.SwapFee), ExitFee: osmomath.ZeroDec()}, pa, "")
	r := core.Deliver(a, ctx, &cm)
	if !r.OK() {
		panic(fmt.Sprintf("harness: pool creation failed: %v", r.Err))
	}
	var resp balancer.MsgCreateBalancerPoolResponse
	mustUnmarshal(r.Res, &resp)
	w.PoolID = resp.PoolID
	w.ShareDenom = gammtypes.GetPoolShareDenom(w.PoolID)
	pool, err := a.GAMMKeeper.GetPoolAndPoke(ctx, w.PoolID)
	if err != nil {
		panic(err)
	}
	w.PoolAddr = pool.GetAddress()
	w.TotalShares = a.BankKeeper.GetBalance(ctx, core.Acc("P"), w.ShareDenom).Amount
	if !w.TotalShares.Equal(a.BankKeeper.GetSupply(ctx, w.ShareDenom).Amount) || !w.TotalShares.IsPositive() {
		panic("harness: pool creator does not hold all shares")
	}
	// shares to the owners
	give := mustInt("30000000000000000001")
	for _, o := range owners {
		rr := core.Deliver(a, ctx, &banktypes.MsgSend{FromAddress: core.Acc("P").String(), ToAddress: core.Acc(o).String(), Amount: sdk.NewCoins(sdk.NewCoin(w.ShareDenom, give))})
		if !rr.OK() {
			panic(fmt.Sprintf("harness: share transfer failed: %v", rr.Err))
		}
		w.Funds[o] = give
	}
	// superfluid asset registration (what the governance proposal handler calls)
	if err := a.SuperfluidKeeper.AddNewSuperfluidAsset(ctx, sftypes.SuperfluidAsset{Denom: w.ShareDenom, AssetType: sftypes.SuperfluidAssetTypeLPShare}); err != nil {
		panic(err)
	}
	w.Mult0 = multiplierOf(mustInt(cfg.PoolOsmo), w.TotalShares)
	if got := a.SuperfluidKeeper.GetOsmoEquivalentMultiplier(ctx, w.ShareDenom).BigInt(); got.Cmp(w.Mult0) != 0 {
		panic(fmt.Sprintf("harness: reference multiplier %s differs from the registered one %s at setup", w.Mult0, got))
	}
	w.Supply0 = a.BankKeeper.GetSupplyWithOffset(ctx, bd).Amount
	return w
}

var (
	e18 = new(big.Int).Exp(big.NewInt(10), big.NewInt(18), nil)
	e36 = new(big.Int).Mul(e18, e18)
)

// roundHalfEven returns num/den rounded to the nearest integer, ties to even (num >= 0, den > 0):
// the documented rounding of the 18-decimal fixed-point type (Mul, Quo, RoundInt).
func roundHalfEven(num, den *big.Int) *big.Int {
	q, r := new(big.Int).QuoRem(num, den, new(big.Int))
	c := new(big.Int).Lsh(r, 1).Cmp(den)
	if c > 0 || (c == 0 && q.Bit(0) == 1) {
		q.Add(q, big.NewInt(1))
	}
	return q
}

// multiplierOf is the documented osmo-equivalent multiplier of an LP share: OSMO in the pool divided
// by the share supply, as an 18-decimal fixed-point quotient (the quotient is truncated at 36
// decimals and then rounded half-even to 18, which is what the decimal type's Quo does).
func multiplierOf(osmo, shares sdkmath.Int) *big.Int {
	q := new(big.Int).Mul(osmo.BigInt(), e36)
	q.Quo(q, shares.BigInt())
	return roundHalfEven(q, e18)
}

// Value is the documented risk-adjusted OSMO value of amt shares:
// x = round(multiplier * amt); value = x - round(x * riskFactor).
func (w *World) Value(mult *big.Int, amt sdkmath.Int) sdkmath.Int {
	x := roundHalfEven(new(big.Int).Mul(mult, amt.BigInt()), e18)
	rk := roundHalfEven(new(big.Int).Mul(x, w.Risk), e18)
	return sdkmath.NewIntFromBigInt(new(big.Int).Sub(x, rk))
}

func (w *World) NewLedger() *Ledger {
	ctx := w.Env.Ctx
	ei := w.App.EpochsKeeper.GetEpochInfo(ctx, EpochName)
	if ei.Duration != w.E {
		panic("harness: epoch duration not applied")
	}
	return &Ledger{
		NextLockID: w.App.LockupKeeper.GetLastLockID(ctx) + 1,
		Mult:       new(big.Int).Set(w.Mult0),
		PoolOsmo:   mustInt(w.Cfg.PoolOsmo),
		Supply0:    w.Supply0, Minted: sdkmath.ZeroInt(),
		EpStarted: ei.EpochCountingStarted, EpStart: ei.StartTime, EpNum: ei.CurrentEpoch,
		Now: ctx.BlockTime(), Height: ctx.BlockHeight(),
	}
}

func (w *World) shareCoin(amt sdkmath.Int) sdk.Coin { return sdk.NewCoin(w.ShareDenom, amt) }

func (w *World) ownerAmount(o string) sdkmath.Int {
	if o == "A" {
		return mustInt(w.Cfg.Amounts[0])
	}
	return mustInt(w.Cfg.Amounts[1])
}

func (l *Ledger) find(id uint64) int {
	for i := range l.Locks {
		if l.Locks[i].ID == id {
			return i
		}
	}
	return -1
}

func (l *Ledger) connected(val int) (n int, sum sdkmath.Int) {
	sum = sdkmath.ZeroInt()
	for _, k := range l.Locks {
		if k.SF == sfDelegated && k.Val == val {
			n++
			sum = sum.Add(k.Amt)
		}
	}
	return
}

// Apply executes one op on the real application and updates the ledger from request and response.
func (w *World) Apply(ctx sdk.Context, l *Ledger, op Op, fail func(a, s, d string)) (sdk.Context, string) {
	a := w.App
	fail = classSig(fail)
	l.LastOp = op.K
	switch op.K {
	case "tick":
		return w.boundary(ctx, l, 5*time.Second, fail)
	case "epoch":
		return w.boundary(ctx, l, w.E+time.Second, fail)
	case "jump":
		return w.boundary(ctx, l, w.U+time.Second, fail)
	case "ff":
		out := "ok"
		for l.Height < op.X && out == "ok" {
			ctx, out = w.boundary(ctx, l, time.Second, fail)
		}
		return ctx, out
	}
	l.JustRefreshed = false
	switch op.K {
	case "lockdel":
		amt := w.ownerAmount(op.A)
		msg := sftypes.NewMsgLockAndSuperfluidDelegate(core.Acc(op.A), sdk.NewCoins(w.shareCoin(amt)), w.Env.Vals[op.V])
		r := core.Deliver(a, ctx, msg)
		if !r.OK() {
			return ctx, errClass(r.Err)
		}
		var resp sftypes.MsgLockAndSuperfluidDelegateResponse
		mustUnmarshal(r.Res, &resp)
		if i := l.find(resp.ID); i >= 0 {
			// the lockup message server adds to an existing not-unlocking lock of the same owner/denom/duration
			k := &l.Locks[i]
			if k.Owner != op.A || k.Unlocking || k.Dur != w.U {
				fail("lockdel.response-names-foreign-lock", "", fmt.Sprintf("response id %d is lock %+v", resp.ID, *k))
			}
			k.Amt = k.Amt.Add(amt)
			k.SF, k.Val = sfDelegated, op.V
		} else {
			if resp.ID != l.NextLockID {
				fail("lock.ids-are-consecutive", "", fmt.Sprintf("response id %d, expected %d", resp.ID, l.NextLockID))
			}
			l.NextLockID = resp.ID + 1
			l.Locks = append(l.Locks, LockRec{ID: resp.ID, Owner: op.A, Amt: amt, Dur: w.U, SF: sfDelegated, Val: op.V})
		}
		l.Acct[op.V] = true
		l.StakeOps[op.V]++
		w.Vac[fmt.Sprintf("validator%d_used", op.V)]++
	case "lock":
		amt := mustInt(w.Cfg.TopUp)
		r := core.Deliver(a, ctx, &lockuptypes.MsgLockTokens{Owner: core.Acc(op.A).String(), Duration: w.U, Coins: sdk.NewCoins(w.shareCoin(amt))})
		if !r.OK() {
			return ctx, errClass(r.Err)
		}
		var resp lockuptypes.MsgLockTokensResponse
		mustUnmarshal(r.Res, &resp)
		if i := l.find(resp.ID); i >= 0 {
			k := &l.Locks[i]
			if k.Owner != op.A || k.Unlocking || k.Dur != w.U {
				fail("lock.response-names-foreign-lock", "", fmt.Sprintf("response id %d is lock %+v", resp.ID, *k))
			}
			k.Amt = k.Amt.Add(amt)
			switch k.SF {
			case sfDelegated:
				l.StakeOps[k.Val]++
				w.Vac["topup_of_delegated_lock"]++
			case sfUndelegating:
				w.Vac["topup_of_undelegating_lock"]++
			}
		} else {
			if resp.ID != l.NextLockID {
				fail("lock.ids-are-consecutive", "", fmt.Sprintf("response id %d, expected %d", resp.ID, l.NextLockID))
			}
			l.NextLockID = resp.ID + 1
			l.Locks = append(l.Locks, LockRec{ID: resp.ID, Owner: op.A, Amt: amt, Dur: w.U})
		}
	case "del":
		if op.P >= len(l.Locks) {
			return ctx, "rejected:no-such-lock"
		}
		k := &l.Locks[op.P]
		r := core.Deliver(a, ctx, sftypes.NewMsgSuperfluidDelegate(core.Acc(k.Owner), k.ID, w.Env.Vals[op.V]))
		if !r.OK() {
			return ctx, errClass(r.Err)
		}
		if k.SF != sfPlain || k.Unlocking {
			// "every delegated lock has exactly one staking marker": a second delegation of a lock that is
			// delegated / undelegating / unlocking must not be accepted
			fail("delegate.accepted-on-ineligible-lock", fmt.Sprintf("sf=%d unlocking=%v", k.SF, k.Unlocking), fmt.Sprintf("lock %+v", *k))
		}
		k.SF, k.Val = sfDelegated, op.V
		l.Acct[op.V] = true
		l.StakeOps[op.V]++
		w.Vac[fmt.Sprintf("validator%d_used", op.V)]++
		w.Vac["delegate_existing_lock"]++
	case "undel":
		if op.P >= len(l.Locks) {
			return ctx, "rejected:no-such-lock"
		}
		k := &l.Locks[op.P]
		r := core.Deliver(a, ctx, sftypes.NewMsgSuperfluidUndelegate(core.Acc(k.Owner), k.ID))
		if !r.OK() {
			if k.SF == sfDelegated {
				w.Vac["undelegate_of_delegated_lock_refused"]++
				if _, ok := w.Extra["undelegate_refused_sample"]; !ok {
					w.Extra["undelegate_refused_sample"] = fmt.Sprintf("lock %d amount %s: %v", k.ID, k.Amt, r.Err)
				}
			}
			return ctx, errClass(r.Err)
		}
		if k.SF != sfDelegated {
			fail("undelegate.accepted-on-undelegated-lock", fmt.Sprintf("sf=%d", k.SF), fmt.Sprintf("lock %+v", *k))
		}
		k.SF, k.UndelAt, k.WasSF = sfUndelegating, l.Now, true
		l.StakeOps[k.Val]++
		w.Vac["undelegate"]++
	case "unbond":
		if op.P >= len(l.Locks) {
			return ctx, "rejected:no-such-lock"
		}
		k := &l.Locks[op.P]
		r := core.Deliver(a, ctx, sftypes.NewMsgSuperfluidUnbondLock(core.Acc(k.Owner), k.ID))
		if !r.OK() {
			if k.SF == sfDelegated {
				w.Vac["unbond_rejected_on_delegated_lock"]++
			}
			return ctx, errClass(r.Err)
		}
		if k.SF == sfDelegated {
			fail("unlock.started-while-delegated", "SuperfluidUnbondLock", fmt.Sprintf("MsgSuperfluidUnbondLock accepted on delegated lock %+v", *k))
		}
		k.Unlocking, k.End = true, l.Now.Add(k.Dur)
		w.Vac["unbond_lock"]++
	case "undelunbond":
		if op.P >= len(l.Locks) {
			return ctx, "rejected:no-such-lock"
		}
		k := &l.Locks[op.P]
		part := k.Amt.MulRaw(op.X).QuoRaw(op.Y)
		r := core.Deliver(a, ctx, sftypes.NewMsgSuperfluidUndelegateAndUnbondLock(core.Acc(k.Owner), k.ID, w.shareCoin(part)))
		if !r.OK() {
			if k.SF == sfDelegated {
				w.Vac["undelegate_of_delegated_lock_refused"]++
			}
			return ctx, errClass(r.Err)
		}
		var resp sftypes.MsgSuperfluidUndelegateAndUnbondLockResponse
		mustUnmarshal(r.Res, &resp)
		if k.SF != sfDelegated {
			fail("undelegate.accepted-on-undelegated-lock", fmt.Sprintf("sf=%d", k.SF), fmt.Sprintf("lock %+v", *k))
		}
		l.StakeOps[k.Val]++
		if part.Equal(k.Amt) {
			if resp.LockId != k.ID {
				fail("undelunbond.full-keeps-lock-id", "", fmt.Sprintf("response id %d, lock %d", resp.LockId, k.ID))
			}
			k.SF, k.UndelAt, k.WasSF = sfUndelegating, l.Now, true
			k.Unlocking, k.End = true, l.Now.Add(k.Dur)
			w.Vac["full_undelegate_and_unbond"]++
		} else {
			if resp.LockId != l.NextLockID {
				fail("lock.ids-are-consecutive", "", fmt.Sprintf("response id %d, expected %d", resp.LockId, l.NextLockID))
			}
			l.NextLockID = resp.LockId + 1
			l.StakeOps[k.Val]++
			k.Amt = k.Amt.Sub(part)
			nl := LockRec{ID: resp.LockId, Owner: k.Owner, Amt: part, Dur: k.Dur, SF: sfUndelegating, Val: k.Val, UndelAt: l.Now, WasSF: true, Unlocking: true, End: l.Now.Add(k.Dur)}
			l.Locks = append(l.Locks, nl)
			w.Vac["partial_undelegate_and_unbond"]++
		}
	case "beginunlock":
		if op.P >= len(l.Locks) {
			return ctx, "rejected:no-such-lock"
		}
		k := &l.Locks[op.P]
		r := core.Deliver(a, ctx, &lockuptypes.MsgBeginUnlocking{Owner: core.Acc(k.Owner).String(), ID: k.ID})
		if !r.OK() {
			if k.SF == sfDelegated {
				w.Vac["beginunlocking_rejected_on_delegated_lock"]++
			}
			return ctx, errClass(r.Err)
		}
		if k.SF == sfDelegated {
			fail("unlock.started-while-delegated", "BeginUnlocking", fmt.Sprintf("MsgBeginUnlocking accepted on delegated lock %+v", *k))
		}
		var resp lockuptypes.MsgBeginUnlockingResponse
		mustUnmarshal(r.Res, &resp)
		if resp.UnlockingLockID != k.ID {
			fail("beginunlock.whole-lock-keeps-id", "", fmt.Sprintf("response id %d, lock %d", resp.UnlockingLockID, k.ID))
		}
		k.Unlocking, k.End = true, l.Now.Add(k.Dur)
	case "unlockall":
		// the bulk form of begin-unlock: it walks every not-unlocking lock of the owner, so it is a third way
		// a delegated lock could start unlocking
		r := core.Deliver(a, ctx, &lockuptypes.MsgBeginUnlockingAll{Owner: core.Acc(op.A).String()})
		if !r.OK() {
			for _, k := range l.Locks {
				if k.Owner == op.A && k.SF == sfDelegated {
					w.Vac["beginunlockingall_rejected_with_delegated_lock"]++
					break
				}
			}
			return ctx, errClass(r.Err)
		}
		// (the response of this message is empty by design; the ledger is updated from the request alone)
		n := 0
		for i := range l.Locks {
			k := &l.Locks[i]
			if k.Owner != op.A || k.Unlocking {
				continue
			}
			if k.SF == sfDelegated {
				fail("unlock.started-while-delegated", "BeginUnlockingAll", fmt.Sprintf("MsgBeginUnlockingAll accepted while the owner holds delegated lock %+v", *k))
			}
			k.Unlocking, k.End = true, l.Now.Add(k.Dur)
			n++
		}
		if n > 0 {
			w.Vac["beginunlockingall_accepted"]++
		}
	case "swap":
		in, out, amt := w.BondDenom, FooDenom, mustInt(w.Cfg.SwapOsmoIn)
		if op.X == 1 {
			in, out, amt = FooDenom, w.BondDenom, mustInt(w.Cfg.SwapFooIn)
		}
		r := core.Deliver(a, ctx, &pmtypes.MsgSwapExactAmountIn{Sender: core.Acc("T").String(), Routes: []pmtypes.SwapAmountInRoute{{PoolId: w.PoolID, TokenOutDenom: out}},
			TokenIn: sdk.NewCoin(in, amt), TokenOutMinAmount: sdkmath.OneInt()})
		if !r.OK() {
			return ctx, errClass(r.Err)
		}
		var resp pmtypes.MsgSwapExactAmountInResponse
		mustUnmarshal(r.Res, &resp)
		if op.X == 0 {
			l.PoolOsmo = l.PoolOsmo.Add(amt)
		} else {
			l.PoolOsmo = l.PoolOsmo.Sub(resp.TokenOutAmount)
		}
		w.Vac["swap"]++
	default:
		panic("unknown op " + op.K)
	}
	return ctx, "ok"
}

// boundary is one block boundary dt later, followed by the ledger's bookkeeping: the epoch timer
// model, the multiplier refresh from the ledger's own pool balance, and the observation of which
// locks / unstaking markers the lockup sweep released (legality is judged, liveness is not).
func (w *World) boundary(ctx sdk.Context, l *Ledger, dt time.Duration, fail func(a, s, d string)) (sdk.Context, string) {
	tEnd := l.Now // block time of the block whose EndBlocker runs
	next, err := core.NextBlock(w.App, ctx, dt)
	if err != nil {
		fail("block.boundary-succeeds", "", err.Error())
		return ctx, "rejected:block"
	}
	ctx = next
	l.Height++
	l.Now = l.Now.Add(dt)
	l.JustRefreshed = false
	tick := !l.EpStarted || l.Now.After(l.EpStart.Add(w.E))
	if tick {
		if !l.EpStarted {
			l.EpStarted, l.EpNum = true, 1
		} else {
			l.EpNum++
			l.EpStart = l.EpStart.Add(w.E)
			l.Minted = l.Minted.Add(w.Mint)
			w.Vac["mint_epochs"]++
		}
		nm := multiplierOf(l.PoolOsmo, w.TotalShares)
		delegated := false
		for _, k := range l.Locks {
			delegated = delegated || k.SF == sfDelegated
		}
		if nm.Cmp(l.Mult) != 0 && delegated {
			w.Vac["epoch_refresh_after_price_move"]++
		}
		l.Mult = nm
		l.JustRefreshed = true
		l.StakeOps = [2]int{}
		w.Vac["epoch_refresh"]++
	}
	// the timer model is an assumption about x/epochs (C17's subject), not part of this property: a
	// disagreement is a harness error
	ei := w.App.EpochsKeeper.GetEpochInfo(ctx, EpochName)
	if ei.CurrentEpoch != l.EpNum || (ei.CurrentEpochStartHeight == ctx.BlockHeight()) != tick || ctx.BlockHeight() != l.Height || !ctx.BlockTime().Equal(l.Now) {
		panic(fmt.Sprintf("harness: epoch/clock model diverged: app epoch %d start height %d height %d time %s; model epoch %d tick %v height %d time %s",
			ei.CurrentEpoch, ei.CurrentEpochStartHeight, ctx.BlockHeight(), ctx.BlockTime(), l.EpNum, tick, l.Height, l.Now))
	}
	// what did the EndBlocker release?
	kept := l.Locks[:0:0]
	for _, k := range l.Locks {
		matured := k.SF != sfUndelegating || !k.UndelAt.Add(w.U).After(tEnd)
		lk, err := w.App.LockupKeeper.GetLockByID(ctx, k.ID)
		if err != nil || lk == nil {
			switch {
			case k.SF == sfDelegated:
				fail("withdraw.not-while-delegated", "", fmt.Sprintf("lock %+v disappeared at the boundary ending block time %s", k, tEnd))
			case !matured:
				fail("withdraw.not-before-undelegation-matured", "", fmt.Sprintf("lock %+v disappeared at %s, undelegation matures %s", k, tEnd, k.UndelAt.Add(w.U)))
			case !k.Unlocking || k.End.After(tEnd):
				fail("withdraw.not-before-unlock-end", "", fmt.Sprintf("lock %+v disappeared at %s", k, tEnd))
			default:
				w.Vac["lock_withdrawn"]++
				if k.WasSF {
					w.Vac["matured_undelegation_then_lock_unlocked"]++
				}
			}
			l.Withdrawn++
			continue
		}
		if k.SF == sfUndelegating && matured {
			if _, found, _ := w.App.LockupKeeper.GetSyntheticLockupByUnderlyingLockId(ctx, k.ID); !found {
				k.SF = sfPlain
				w.Vac["unstaking_marker_expired"]++
			}
		}
		kept = append(kept, k)
	}
	l.Locks = kept
	return ctx, "ok"
}

// Alphabet selects the symbols.
type Alphabet struct {
	MaxLocks  int  `json:"max_locks"` // lock-creating symbols are disabled beyond this many live locks
	FullUndel bool `json:"full_undelegate_and_unbond"`
	Probes    bool `json:"extra_rejection_probes"` // delegate an already delegated lock, unbond a delegated lock, begin-unlock an undelegating lock
}

func (w *World) Enabled(al *Alphabet) func(ctx sdk.Context, l *Ledger, depth int) []Op {
	return func(ctx sdk.Context, l *Ledger, depth int) []Op {
		var ops []Op
		for i, k := range l.Locks {
			switch {
			case k.SF == sfDelegated:
				// beginunlock and unbond on a delegated lock are the two ways a lock could "start unlocking while
				// superfluid-delegated": both must be refused
				ops = append(ops, Op{K: "undel", P: i}, Op{K: "undelunbond", P: i, X: 1, Y: 3}, Op{K: "beginunlock", P: i}, Op{K: "unbond", P: i})
				if al.FullUndel {
					ops = append(ops, Op{K: "undelunbond", P: i, X: 1, Y: 1})
				}
				if al.Probes {
					ops = append(ops, Op{K: "del", P: i, V: 1 - k.Val})
				}
			case k.SF == sfUndelegating && !k.Unlocking:
				ops = append(ops, Op{K: "unbond", P: i})
				if al.Probes {
					ops = append(ops, Op{K: "beginunlock", P: i}, Op{K: "undel", P: i})
				}
			case k.SF == sfPlain && !k.Unlocking:
				ops = append(ops, Op{K: "del", P: i, V: 0}, Op{K: "del", P: i, V: 1}, Op{K: "beginunlock", P: i})
			}
		}
		for _, o := range owners {
			// MsgLockTokens: tops up the owner's not-unlocking lock if there is one, else creates a plain lock
			has := false
			for _, k := range l.Locks {
				has = has || (k.Owner == o && !k.Unlocking)
			}
			if has || len(l.Locks) < al.MaxLocks {
				ops = append(ops, Op{K: "lock", A: o})
			}
			if has {
				ops = append(ops, Op{K: "unlockall", A: o})
			}
			if len(l.Locks) < al.MaxLocks || has {
				ops = append(ops, Op{K: "lockdel", A: o, V: 0}, Op{K: "lockdel", A: o, V: 1})
			}
		}
		ops = append(ops, Op{K: "swap", X: 0}, Op{K: "swap", X: 1}, Op{K: "tick"}, Op{K: "epoch"}, Op{K: "jump"})
		return ops
	}
}

func sortedKeys(m map[uint64]string) []uint64 {
	ks := make([]uint64, 0, len(m))
	for k := range m {
		ks = append(ks, k)
	}
	sort.Slice(ks, func(i, j int) bool { return ks[i] < ks[j] })
	return ks
}
