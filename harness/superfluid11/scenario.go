package main

import (
	"crypto/sha256"
	"fmt"
	"math/big"
	"sort"
	"strings"
	"time"

	sdkmath "cosmossdk.io/math"
	sdk "github.com/cosmos/cosmos-sdk/types"
	banktypes "github.com/cosmos/cosmos-sdk/x/bank/types"
	stakingtypes "github.com/cosmos/cosmos-sdk/x/staking/types"
	"github.com/cosmos/gogoproto/proto"

	"github.com/osmosis-labs/osmosis/osmomath"
	"github.com/osmosis-labs/osmosis/v31/app"
	clmath "github.com/osmosis-labs/osmosis/v31/x/concentrated-liquidity/math"
	clmodel "github.com/osmosis-labs/osmosis/v31/x/concentrated-liquidity/model"
	cltypes "github.com/osmosis-labs/osmosis/v31/x/concentrated-liquidity/types"
	"github.com/osmosis-labs/osmosis/v31/x/gamm/pool-models/balancer"
	gammtypes "github.com/osmosis-labs/osmosis/v31/x/gamm/types"
	lockuptypes "github.com/osmosis-labs/osmosis/v31/x/lockup/types"
	minttypes "github.com/osmosis-labs/osmosis/v31/x/mint/types"
	pmtypes "github.com/osmosis-labs/osmosis/v31/x/poolmanager/types"
	sftypes "github.com/osmosis-labs/osmosis/v31/x/superfluid/types"
	epochstypes "github.com/osmosis-labs/osmosis/x/epochs/types"

	"github.com/osmosis-labs/osmosis/v31/zzverif/core"
)

// Config is the (single-point) configuration of the superfluid scenario; it is copied into every
// replay artefact.
type Config struct {
	EpochSeconds     int64     `json:"epoch_seconds"`     // duration of the epoch the superfluid module follows
	UnbondingSeconds int64     `json:"unbonding_seconds"` // staking unbonding time = synthetic lock duration
	PoolOsmo         string    `json:"pool_bond_denom"`
	PoolFoo          string    `json:"pool_foo"`
	SwapFee          string    `json:"swap_fee"`
	MintPerEpoch     int64     `json:"mint_per_epoch"`
	Amounts          [2]string `json:"lock_amounts"` // per owner A, B
	TopUp            string    `json:"topup_amount"`
	SwapOsmoIn       string    `json:"swap_bond_denom_in"`
	SwapFooIn        string    `json:"swap_foo_in"`
	StartHeight      int64     `json:"seed_height"` // every seed ends at this height (the lockup sweep runs when height%120==0)
	// the concentrated pool foo/bond-denom whose full-range share denom cl/pool/N is the second superfluid asset
	CLPoolFoo    string       `json:"cl_pool_foo"` // the pool creator's unlocked full-range position
	CLPoolOsmo   string       `json:"cl_pool_bond_denom"`
	CLSpread     string       `json:"cl_spread_factor"`
	CLAmounts    [2][2]string `json:"cl_position_amounts"` // per owner A, B: {foo, bond denom} offered to CreateFullRangePositionAndSuperfluidDelegate
	CLAdd        [2]string    `json:"cl_add_amounts"`      // {foo, bond denom} offered to AddToConcentratedLiquiditySuperfluidPosition
	CLSwapOsmoIn string       `json:"cl_swap_bond_denom_in"`
	CLSwapFooIn  string       `json:"cl_swap_foo_in"`
	UCSLiquid    string       `json:"convert_liquid_shares"` // liquid balancer shares handed to UnbondConvertAndStake with lock id 0
}

func DefaultConfig() Config {
	return Config{
		EpochSeconds: 3600, UnbondingSeconds: 3 * 3600,
		PoolOsmo: "20000000123", PoolFoo: "40000000000", SwapFee: "0.01", MintPerEpoch: 1000000,
		Amounts: [2]string{"1234567890123456789", "777777777777777777"}, TopUp: "333333333333333333",
		SwapOsmoIn: "3000000077", SwapFooIn: "7000000000", StartHeight: 119,
		CLPoolFoo: "25000000000", CLPoolOsmo: "10000000123", CLSpread: "0.003",
		CLAmounts: [2][2]string{{"10000000", "4000003"}, {"7777777", "3111113"}}, CLAdd: [2]string{"2500000", "1000001"},
		CLSwapOsmoIn: "1500000077", CLSwapFooIn: "4000000000", UCSLiquid: "555555555555555555",
	}
}

const (
	FooDenom  = "foo"
	EpochName = "week" // the identifier x/incentives (and therefore x/superfluid) and x/mint use by default
)

var owners = []string{"A", "B"}

// Op is one symbol of the alphabet.
type Op struct {
	K string `json:"k"`           // lockdel lock del undel unbond undelunbond beginunlock unlockall swap tick epoch jump ff clcreate cladd clwithdraw clswap ucs ucsliq
	A string `json:"a,omitempty"` // owner
	V int    `json:"v,omitempty"` // validator index
	P int    `json:"p,omitempty"` // index into the ledger's live locks (creation order); clwithdraw: index into the ledger's live positions
	X int64  `json:"x,omitempty"` // numerator / direction / target height
	Y int64  `json:"y,omitempty"` // denominator
}

func (o Op) String() string {
	switch o.K {
	case "lockdel":
		return fmt.Sprintf("LockAndSuperfluidDelegate(%s,val%d)", o.A, o.V)
	case "lock":
		if o.X > 1 {
			return fmt.Sprintf("LockTokens(%s,topup-amount,%dx unbonding-duration)", o.A, o.X)
		}
		return fmt.Sprintf("LockTokens(%s,topup-amount,unbonding-duration)", o.A)
	case "del":
		return fmt.Sprintf("SuperfluidDelegate(lock#%d,val%d)", o.P, o.V)
	case "undel":
		return fmt.Sprintf("SuperfluidUndelegate(lock#%d)", o.P)
	case "unbond":
		return fmt.Sprintf("SuperfluidUnbondLock(lock#%d)", o.P)
	case "undelunbond":
		return fmt.Sprintf("SuperfluidUndelegateAndUnbondLock(lock#%d,%d/%d)", o.P, o.X, o.Y)
	case "beginunlock":
		return fmt.Sprintf("BeginUnlocking(lock#%d)", o.P)
	case "unlockall":
		return fmt.Sprintf("BeginUnlockingAll(%s)", o.A)
	case "swap":
		if o.X == 0 {
			return "Swap(bond denom in)"
		}
		return "Swap(foo in)"
	case "ff":
		return fmt.Sprintf("FastForward(1s blocks to height %d)", o.X)
	case "unpool":
		return fmt.Sprintf("UnPoolWhitelistedPool(%s)", o.A)
	case "clcreate":
		return fmt.Sprintf("CreateFullRangePositionAndSuperfluidDelegate(%s,val%d)", o.A, o.V)
	case "cladd":
		return fmt.Sprintf("AddToConcentratedLiquiditySuperfluidPosition(position of lock#%d)", o.P)
	case "clwithdraw":
		return fmt.Sprintf("WithdrawPosition(position#%d, all)", o.P)
	case "clswap":
		if o.X == 0 {
			return "SwapOnConcentratedPool(bond denom in)"
		}
		return "SwapOnConcentratedPool(foo in)"
	case "ucs":
		return fmt.Sprintf("UnbondConvertAndStake(lock#%d,val%d)", o.P, o.V)
	case "ucsliq":
		return fmt.Sprintf("UnbondConvertAndStake(%s,liquid shares,val%d)", o.A, o.V)
	}
	return o.K
}

const (
	sfPlain = iota
	sfDelegated
	sfUndelegating
)

// LockRec is the harness's own record of a lock, built from requests and responses.
type LockRec struct {
	ID        uint64
	Owner     string
	Amt       sdkmath.Int
	Dur       time.Duration
	SF        int // sfPlain / sfDelegated / sfUndelegating
	Val       int
	UndelAt   time.Time // block time of the accepted undelegation
	Unlocking bool
	End       time.Time // unlock start + duration
	WasSF     bool      // has been superfluid-undelegated at some point (vacuity only)
	D         int       // denomination: 0 = balancer share, 1 = concentrated full-range share, 2 = a pool asset re-locked by unpooling (Denom)
	Denom     string    // D == 2 only
	Pos       uint64    // concentrated position this lock was created for (0: none / a split-off lock)
}

// PosRec is the harness's record of an owner's full-range position in the concentrated pool.
type PosRec struct {
	ID    uint64
	Owner string
	Liq   *big.Int // liquidity, 18 decimals (never modified in place)
	Lock  uint64   // the lock created with the position while that lock is live, else 0
}

// Ledger is the reference state.
type Ledger struct {
	Locks      []LockRec
	NextLockID uint64
	Acct       [2][2]bool // intermediary account (denomination d, val i) has been created
	Mult       *big.Int   // osmo-equivalent multiplier of the balancer share, 18 decimals, as refreshed at the last epoch
	PoolOsmo   sdkmath.Int
	Shares     sdkmath.Int // balancer share supply (changes only when UnbondConvertAndStake exits the pool)
	// concentrated side: the owners' live full-range positions; the full-range liquidity of the pool as the
	// code documents it (sum over the full-range positions that exist: CLLive); the multiplier derived from it
	// at the last epoch. CLEver / MultCLImpl model the RECORDED defect of the liquidity counter (it is only ever
	// increased: sum over every full-range position ever written); they are used for one thing only: to give a
	// violation that this recorded defect explains completely its own signature. Nothing is loosened by them.
	Positions  []PosRec
	NextPosID  uint64
	CLLive     *big.Int
	CLEver     *big.Int
	MultCL     *big.Int
	MultCLImpl *big.Int
	// UnbondConvertAndStake: balancer shares each owner has converted, native delegation owner x validator
	Conv    [2]sdkmath.Int
	Native  [2][2]sdkmath.Int
	Supply0 sdkmath.Int
	Minted  sdkmath.Int
	// model of the epoch timer (x/epochs documented rule: tick when block time is after start+duration,
	// one tick per block, start advances by exactly one duration)
	EpStarted bool
	EpStart   time.Time
	EpNum     int64
	Now       time.Time
	Height    int64
	// JustRefreshed: this state is the one immediately after a block boundary at which the epoch ticked
	JustRefreshed bool
	LastOp        string
	Withdrawn     int
	// StakeOps counts, per intermediary account, the stake-changing steps (a delegation, an undelegation, a
	// top-up; a partial undelegate-and-unbond is two; an add-to-position is two; a conversion of a delegated
	// lock is one) since the last epoch refresh
	StakeOps [2][2]int
}

func (l *Ledger) Clone() *Ledger {
	n := *l
	n.Locks = append([]LockRec{}, l.Locks...)
	n.Positions = append([]PosRec{}, l.Positions...)
	n.Mult = new(big.Int).Set(l.Mult)
	n.CLLive, n.CLEver = new(big.Int).Set(l.CLLive), new(big.Int).Set(l.CLEver)
	n.MultCL, n.MultCLImpl = new(big.Int).Set(l.MultCL), new(big.Int).Set(l.MultCLImpl)
	return &n
}

func (l *Ledger) digest() []byte {
	var b strings.Builder
	for _, k := range l.Locks {
		fmt.Fprintf(&b, "%d/%s/%s/%d/%d/%d/%d/%v/%d/%d/%d;", k.ID, k.Owner, k.Amt, k.Dur, k.SF, k.Val, k.UndelAt.UnixNano(), k.Unlocking, k.End.UnixNano(), k.D, k.Pos)
		b.WriteString(k.Denom + ";")
	}
	for _, p := range l.Positions {
		fmt.Fprintf(&b, "P%d/%s/%s/%d;", p.ID, p.Owner, p.Liq, p.Lock)
	}
	fmt.Fprintf(&b, "|%d|%v|%s|%s|%s|%v|%d|%d|%d|%d|%v", l.NextLockID, l.Acct, l.Mult, l.PoolOsmo, l.Minted, l.EpStarted, l.EpStart.UnixNano(), l.EpNum, l.Now.UnixNano(), l.Height, l.JustRefreshed)
	fmt.Fprintf(&b, "|%v", l.StakeOps)
	fmt.Fprintf(&b, "|%s|%d|%s|%s|%s|%s|%v|%v", l.Shares, l.NextPosID, l.CLLive, l.CLEver, l.MultCL, l.MultCLImpl, l.Conv, l.Native)
	h := sha256.Sum256([]byte(b.String()))
	return h[:16]
}

// World is one application instance with the pool, the superfluid asset and the funded owners.
type World struct {
	Env         *core.Env
	App         *app.OsmosisApp
	Cfg         Config
	PoolID      uint64
	PoolAddr    sdk.AccAddress
	ShareDenom  string
	Denoms      [2]string // the two superfluid denominations: balancer share, concentrated full-range share
	CLPoolID    uint64
	CLPoolAddr  sdk.AccAddress
	CLBaseLiq   *big.Int // liquidity of the pool creator's unlocked full-range position
	SqrtMin     *big.Int // sqrt price of the lowest initialised tick, 36 decimals
	MultCL0     *big.Int
	NextPos0    uint64
	BondDenom   string
	TotalShares sdkmath.Int
	Funds       map[string]sdkmath.Int // shares each owner was given
	E, U        time.Duration
	Risk        *big.Int // MinimumRiskFactor, 18 decimals
	Mint        sdkmath.Int
	Mult0       *big.Int
	Supply0     sdkmath.Int
	Vac         map[string]int64
	Extra       map[string]interface{}
}

func mustInt(s string) sdkmath.Int {
	x, ok := sdkmath.NewIntFromString(s)
	if !ok {
		panic("bad int " + s)
	}
	return x
}

func mustUnmarshal(res *sdk.Result, m proto.Message) {
	if len(res.MsgResponses) > 0 {
		if err := proto.Unmarshal(res.MsgResponses[0].Value, m); err != nil {
			panic(err)
		}
		return
	}
	if err := proto.Unmarshal(res.Data, m); err != nil {
		panic(err)
	}
}

// errClass maps an error to a short stable class (numbers stripped).
func errClass(err error) string {
	if err == nil {
		return "ok"
	}
	m := []rune(err.Error())
	out := make([]rune, 0, 60)
	for _, c := range m {
		if c >= '0' && c <= '9' {
			continue
		}
		out = append(out, c)
		if len(out) >= 60 {
			break
		}
	}
	return "rejected:" + strings.TrimSpace(string(out))
}

// NewWorld builds the application: 2 validators, a balancer pool uosmo/foo created by message, its
// share denom registered as a superfluid asset, shares handed to the owners.
func NewWorld(cfg Config) *World {
	E := time.Duration(cfg.EpochSeconds) * time.Second
	U := time.Duration(cfg.UnbondingSeconds) * time.Second
	// the bond denom of the deterministic genesis (sdk.DefaultBondDenom) plays the role of OSMO: it is what
	// x/staking bonds, x/mint mints and x/superfluid values shares in; "uosmo" only pays the pool creation fee
	fund := core.Coins("uosmo", "1000000000000000", sdk.DefaultBondDenom, "1000000000000000", FooDenom, "1000000000000000")
	env := core.NewEnv(core.GenesisOpts{
		NumValidators: 2,
		// the owners' bond-denom and foo balances are only ever spent on concentrated positions
		Balances: map[string]sdk.Coins{"A": core.Coins("uosmo", 1000000, sdk.DefaultBondDenom, 1000000000, FooDenom, 1000000000),
			"B": core.Coins("uosmo", 1000000, sdk.DefaultBondDenom, 1000000000, FooDenom, 1000000000), "P": fund, "T": fund},
		Mutate: func(a *app.OsmosisApp, gs app.GenesisState) {
			cdc := a.AppCodec()
			// the epoch the superfluid module follows, shortened
			var eg epochstypes.GenesisState
			cdc.MustUnmarshalJSON(gs[epochstypes.ModuleName], &eg)
			found := false
			for i := range eg.Epochs {
				if eg.Epochs[i].Identifier == EpochName {
					eg.Epochs[i].Duration = E
					found = true
				}
			}
			if !found {
				panic("harness: no epoch " + EpochName)
			}
			gs[epochstypes.ModuleName] = cdc.MustMarshalJSON(&eg)
			// staking unbonding time (one of x/incentives' default lockable durations, so that the
			// intermediary account's gauge can be created)
			var sg stakingtypes.GenesisState
			cdc.MustUnmarshalJSON(gs[stakingtypes.ModuleName], &sg)
			sg.Params.UnbondingTime = U
			gs[stakingtypes.ModuleName] = cdc.MustMarshalJSON(&sg)
			// mint: a known constant provision per epoch, all of it to staking (no developer-vesting
			// path), as the repository's own superfluid test-suite configures it
			var mg minttypes.GenesisState
			cdc.MustUnmarshalJSON(gs[minttypes.ModuleName], &mg)
			mg.Params.EpochIdentifier = EpochName
			mg.Params.GenesisEpochProvisions = osmomath.NewDec(cfg.MintPerEpoch)
			mg.Params.DistributionProportions = minttypes.DistributionProportions{
				Staking: osmomath.OneDec(), PoolIncentives: osmomath.ZeroDec(), DeveloperRewards: osmomath.ZeroDec(), CommunityPool: osmomath.ZeroDec(),
			}
			mg.Params.MintingRewardsDistributionStartEpoch = 0
			mg.Minter = minttypes.InitialMinter()
			mg.ReductionStartedEpoch = 0
			if err := minttypes.ValidateGenesis(mg); err != nil {
				panic(err)
			}
			gs[minttypes.ModuleName] = cdc.MustMarshalJSON(&mg)
		},
	})
	a, ctx := env.App, env.Ctx
	w := &World{Env: env, App: a, Cfg: cfg, E: E, U: U, Funds: map[string]sdkmath.Int{}, Vac: map[string]int64{}, Extra: map[string]interface{}{}}
	if len(env.Vals) != 2 {
		panic("harness: expected 2 validators")
	}
	bd, err := a.StakingKeeper.BondDenom(ctx)
	if err != nil {
		panic(err)
	}
	w.BondDenom = bd
	if bd != sdk.DefaultBondDenom || a.MintKeeper.GetParams(ctx).MintDenom != bd {
		panic("harness: bond denom is " + bd + ", mint denom " + a.MintKeeper.GetParams(ctx).MintDenom)
	}
	if a.IncentivesKeeper.GetParams(ctx).DistrEpochIdentifier != EpochName || a.MintKeeper.GetParams(ctx).EpochIdentifier != EpochName {
		panic("harness: epoch identifiers differ from the assumed one")
	}
	if ut, _ := a.StakingKeeper.UnbondingTime(ctx); ut != U {
		panic("harness: unbonding time not applied")
	}
	w.Mint = a.MintKeeper.GetMinter(ctx).EpochProvisions.TruncateInt()
	if !w.Mint.Equal(sdkmath.NewInt(cfg.MintPerEpoch)) {
		panic("harness: mint provision not applied: " + w.Mint.String())
	}
	w.Risk = a.SuperfluidKeeper.GetParams(ctx).MinimumRiskFactor.BigInt()

	// the pool, by message
	pa := []balancer.PoolAsset{
		{Weight: sdkmath.NewInt(100), Token: sdk.NewCoin(bd, mustInt(cfg.PoolOsmo))},
		{Weight: sdkmath.NewInt(100), Token: sdk.NewCoin(FooDenom, mustInt(cfg.PoolFoo))},
	}
	cm := balancer.NewMsgCreateBalancerPool(core.Acc("P"), balancer.PoolParams{SwapFee: osmomath.MustNewDecFromStr(cfg.SwapFee), ExitFee: osmomath.ZeroDec()}, pa, "")
	r := core.Deliver(a, ctx, &cm)
	if !r.OK() {
		panic(fmt.Sprintf("harness: pool creation failed: %v", r.Err))
	}
	var resp balancer.MsgCreateBalancerPoolResponse
	mustUnmarshal(r.Res, &resp)
	w.PoolID = resp.PoolID
	w.ShareDenom = gammtypes.GetPoolShareDenom(w.PoolID)
	pool, err := a.GAMMKeeper.GetPoolAndPoke(ctx, w.PoolID)
	if err != nil {
		panic(err)
	}
	w.PoolAddr = pool.GetAddress()
	w.TotalShares = a.BankKeeper.GetBalance(ctx, core.Acc("P"), w.ShareDenom).Amount
	if !w.TotalShares.Equal(a.BankKeeper.GetSupply(ctx, w.ShareDenom).Amount) || !w.TotalShares.IsPositive() {
		panic("harness: pool creator does not hold all shares")
	}
	// shares to the owners
	give := mustInt("30000000000000000001")
	for _, o := range owners {
		rr := core.Deliver(a, ctx, &banktypes.MsgSend{FromAddress: core.Acc("P").String(), ToAddress: core.Acc(o).String(), Amount: sdk.NewCoins(sdk.NewCoin(w.ShareDenom, give))})
		if !rr.OK() {
			panic(fmt.Sprintf("harness: share transfer failed: %v", rr.Err))
		}
		w.Funds[o] = give
	}
	// superfluid asset registration (what the governance proposal handler calls)
	if err := a.SuperfluidKeeper.AddNewSuperfluidAsset(ctx, sftypes.SuperfluidAsset{Denom: w.ShareDenom, AssetType: sftypes.SuperfluidAssetTypeLPShare}); err != nil {
		panic(err)
	}
	w.Mult0 = multiplierOf(mustInt(cfg.PoolOsmo), w.TotalShares)
	if got := a.SuperfluidKeeper.GetOsmoEquivalentMultiplier(ctx, w.ShareDenom).BigInt(); got.Cmp(w.Mult0) != 0 {
		panic(fmt.Sprintf("harness: reference multiplier %s differs from the registered one %s at setup", w.Mult0, got))
	}
	w.Denoms[0] = w.ShareDenom
	// governance-level: the balancer pool may be unpooled (MsgUnPoolWhitelistedPool)
	a.SuperfluidKeeper.SetUnpoolAllowedPools(ctx, []uint64{w.PoolID})
	w.setupConcentrated(cfg)
	w.Supply0 = a.BankKeeper.GetSupplyWithOffset(ctx, bd).Amount
	return w
}

// setupConcentrated creates the concentrated pool foo/bond-denom by message (the bond denom is token1, the
// quote asset), gives it an unlocked full-range position of the pool creator (so that an owner's position is
// never the last one in the pool) and registers its full-range share denom as the second superfluid asset.
func (w *World) setupConcentrated(cfg Config) {
	a, ctx, bd := w.App, w.Env.Ctx, w.BondDenom
	// governance-level settings: who may create pools, which denoms may be quote assets
	p := a.ConcentratedLiquidityKeeper.GetParams(ctx)
	p.IsPermissionlessPoolCreationEnabled = true
	a.ConcentratedLiquidityKeeper.SetParams(ctx, p)
	a.PoolManagerKeeper.SetParam(ctx, pmtypes.KeyAuthorizedQuoteDenoms, append(pmtypes.DefaultParams().AuthorizedQuoteDenoms, bd))
	cm := clmodel.NewMsgCreateConcentratedPool(core.Acc("P"), FooDenom, bd, 100, osmomath.MustNewDecFromStr(cfg.CLSpread))
	r := core.Deliver(a, ctx, &cm)
	if !r.OK() {
		panic(fmt.Sprintf("harness: concentrated pool creation failed: %v", r.Err))
	}
	var resp clmodel.MsgCreateConcentratedPoolResponse
	mustUnmarshal(r.Res, &resp)
	w.CLPoolID = resp.PoolID
	w.Denoms[1] = cltypes.GetConcentratedLockupDenomFromPoolId(w.CLPoolID)
	pool, err := a.ConcentratedLiquidityKeeper.GetConcentratedPoolById(ctx, w.CLPoolID)
	if err != nil {
		panic(err)
	}
	if pool.GetToken0() != FooDenom || pool.GetToken1() != bd {
		panic("harness: concentrated pool token order")
	}
	w.CLPoolAddr = pool.GetAddress()
	r = core.Deliver(a, ctx, &cltypes.MsgCreatePosition{PoolId: w.CLPoolID, Sender: core.Acc("P").String(), LowerTick: cltypes.MinInitializedTick, UpperTick: cltypes.MaxTick,
		TokensProvided: sdk.NewCoins(sdk.NewCoin(FooDenom, mustInt(cfg.CLPoolFoo)), sdk.NewCoin(bd, mustInt(cfg.CLPoolOsmo))), TokenMinAmount0: sdkmath.ZeroInt(), TokenMinAmount1: sdkmath.ZeroInt()})
	if !r.OK() {
		panic(fmt.Sprintf("harness: base position failed: %v", r.Err))
	}
	var pr cltypes.MsgCreatePositionResponse
	mustUnmarshal(r.Res, &pr)
	w.CLBaseLiq = pr.LiquidityCreated.BigInt()
	w.NextPos0 = pr.PositionId + 1
	// sqrt price of the lowest initialised tick: price 10^-12, so 10^-6 exactly (36 decimals: 10^30)
	w.SqrtMin = new(big.Int).Exp(big.NewInt(10), big.NewInt(30), nil)
	if sm, err := clmath.TickToSqrtPrice(cltypes.MinInitializedTick); err != nil || sm.BigInt().Cmp(w.SqrtMin) != 0 {
		panic(fmt.Sprintf("harness: sqrt price of the lowest tick is %v (%v), assumed 1e-6", sm, err))
	}
	if err := a.SuperfluidKeeper.AddNewSuperfluidAsset(ctx, sftypes.SuperfluidAsset{Denom: w.Denoms[1], AssetType: sftypes.SuperfluidAssetTypeConcentratedShare}); err != nil {
		panic(err)
	}
	w.MultCL0 = w.clMultiplier(w.CLBaseLiq, w.sqrtPrice(ctx))
	if got := a.SuperfluidKeeper.GetOsmoEquivalentMultiplier(ctx, w.Denoms[1]).BigInt(); got.Cmp(w.MultCL0) != 0 {
		panic(fmt.Sprintf("harness: reference multiplier %s of the concentrated share differs from the registered one %s at setup", w.MultCL0, got))
	}
}

// sqrtPrice is the concentrated pool's current sqrt price (36 decimals). The pool's swap arithmetic is C01's
// subject; here the pool is an observer that tells the reference the price in force.
func (w *World) sqrtPrice(ctx sdk.Context) *big.Int {
	pool, err := w.App.ConcentratedLiquidityKeeper.GetConcentratedPoolById(ctx, w.CLPoolID)
	if err != nil {
		panic("harness: concentrated pool missing: " + err.Error())
	}
	return pool.GetCurrentSqrtPrice().BigInt()
}

// clMultiplier is the documented osmo-equivalent multiplier of a concentrated full-range share:
// "OSMO amount in the pool / share supply", where the supply is the pool's full-range liquidity L (18
// decimals) and the OSMO amount is the bond-denom (token1) amount underlying a full-range position of
// liquidity L at the current price, rounded up: ceil(L * (sqrtP - sqrtPmin)), the product first rounded
// half-even at 36 decimals as the 36-decimal type's Mul does; the quotient is the 18-decimal type's Quo.
func (w *World) clMultiplier(liq, sqrtP *big.Int) *big.Int {
	if liq.Sign() <= 0 {
		return new(big.Int)
	}
	diff := new(big.Int).Sub(sqrtP, w.SqrtMin)
	diff.Abs(diff)
	prod := roundHalfEven(new(big.Int).Mul(diff, liq), e18) // 36 decimals
	amt, rem := new(big.Int).QuoRem(prod, e36, new(big.Int))
	if rem.Sign() > 0 {
		amt.Add(amt, big.NewInt(1))
	}
	// Dec(amt).Quo(L): (amt*10^18) * 10^36 / L truncated, then rounded half-even to 18 decimals
	q := new(big.Int).Mul(amt, e18)
	q.Mul(q, e36)
	q.Quo(q, liq)
	return roundHalfEven(q, e18)
}

var (
	e18 = new(big.Int).Exp(big.NewInt(10), big.NewInt(18), nil)
	e36 = new(big.Int).Mul(e18, e18)
)

// roundHalfEven returns num/den rounded to the nearest integer, ties to even (num >= 0, den > 0):
// the documented rounding of the 18-decimal fixed-point type (Mul, Quo, RoundInt).
func roundHalfEven(num, den *big.Int) *big.Int {
	q, r := new(big.Int).QuoRem(num, den, new(big.Int))
	c := new(big.Int).Lsh(r, 1).Cmp(den)
	if c > 0 || (c == 0 && q.Bit(0) == 1) {
		q.Add(q, big.NewInt(1))
	}
	return q
}

// multiplierOf is the documented osmo-equivalent multiplier of an LP share: OSMO in the pool divided
// by the share supply, as an 18-decimal fixed-point quotient (the quotient is truncated at 36
// decimals and then rounded half-even to 18, which is what the decimal type's Quo does).
func multiplierOf(osmo, shares sdkmath.Int) *big.Int {
	q := new(big.Int).Mul(osmo.BigInt(), e36)
	q.Quo(q, shares.BigInt())
	return roundHalfEven(q, e18)
}

// Value is the documented risk-adjusted OSMO value of amt shares:
// x = round(multiplier * amt); value = x - round(x * riskFactor).
func (w *World) Value(mult *big.Int, amt sdkmath.Int) sdkmath.Int {
	x := roundHalfEven(new(big.Int).Mul(mult, amt.BigInt()), e18)
	rk := roundHalfEven(new(big.Int).Mul(x, w.Risk), e18)
	return sdkmath.NewIntFromBigInt(new(big.Int).Sub(x, rk))
}

func (w *World) NewLedger() *Ledger {
	ctx := w.Env.Ctx
	ei := w.App.EpochsKeeper.GetEpochInfo(ctx, EpochName)
	if ei.Duration != w.E {
		panic("harness: epoch duration not applied")
	}
	return &Ledger{
		NextLockID: w.App.LockupKeeper.GetLastLockID(ctx) + 1,
		Mult:       new(big.Int).Set(w.Mult0),
		PoolOsmo:   mustInt(w.Cfg.PoolOsmo),
		Shares:     w.TotalShares,
		NextPosID:  w.NextPos0,
		CLLive:     new(big.Int).Set(w.CLBaseLiq), CLEver: new(big.Int).Set(w.CLBaseLiq),
		MultCL: new(big.Int).Set(w.MultCL0), MultCLImpl: new(big.Int).Set(w.MultCL0),
		Conv:    [2]sdkmath.Int{sdkmath.ZeroInt(), sdkmath.ZeroInt()},
		Native:  [2][2]sdkmath.Int{{sdkmath.ZeroInt(), sdkmath.ZeroInt()}, {sdkmath.ZeroInt(), sdkmath.ZeroInt()}},
		Supply0: w.Supply0, Minted: sdkmath.ZeroInt(),
		EpStarted: ei.EpochCountingStarted, EpStart: ei.StartTime, EpNum: ei.CurrentEpoch,
		Now: ctx.BlockTime(), Height: ctx.BlockHeight(),
	}
}

func (w *World) shareCoin(amt sdkmath.Int) sdk.Coin { return sdk.NewCoin(w.ShareDenom, amt) }

func (w *World) ownerAmount(o string) sdkmath.Int {
	if o == "A" {
		return mustInt(w.Cfg.Amounts[0])
	}
	return mustInt(w.Cfg.Amounts[1])
}

func (l *Ledger) find(id uint64) int {
	for i := range l.Locks {
		if l.Locks[i].ID == id {
			return i
		}
	}
	return -1
}

func (l *Ledger) findPos(id uint64) int {
	for i := range l.Positions {
		if l.Positions[i].ID == id {
			return i
		}
	}
	return -1
}

func ownerIdx(o string) int {
	if o == "A" {
		return 0
	}
	return 1
}

func (l *Ledger) removeLock(i int) {
	l.Locks = append(append([]LockRec{}, l.Locks[:i]...), l.Locks[i+1:]...)
}

func (l *Ledger) connected(d, val int) (n int, sum sdkmath.Int) {
	sum = sdkmath.ZeroInt()
	for _, k := range l.Locks {
		if k.SF == sfDelegated && k.Val == val && k.D == d {
			n++
			sum = sum.Add(k.Amt)
		}
	}
	return
}

// Apply executes one op on the real application and updates the ledger from request and response.
func (w *World) Apply(ctx sdk.Context, l *Ledger, op Op, fail func(a, s, d string)) (sdk.Context, string) {
	a := w.App
	fail = classSig(fail)
	l.LastOp = op.K
	switch op.K {
	case "tick":
		return w.boundary(ctx, l, 5*time.Second, fail)
	case "epoch":
		return w.boundary(ctx, l, w.E+time.Second, fail)
	case "jump":
		if op.X == 1 {
			// exactly one unbonding period: an undelegation made in the current block matures at the new block time to
			// the nanosecond (the tie between "matures at" and "block time")
			return w.boundary(ctx, l, w.U, fail)
		}
		return w.boundary(ctx, l, w.U+time.Second, fail)
	case "ff":
		out := "ok"
		for l.Height < op.X && out == "ok" {
			ctx, out = w.boundary(ctx, l, time.Second, fail)
		}
		return ctx, out
	}
	l.JustRefreshed = false
	switch op.K {
	case "lockdel":
		amt := w.ownerAmount(op.A)
		msg := sftypes.NewMsgLockAndSuperfluidDelegate(core.Acc(op.A), sdk.NewCoins(w.shareCoin(amt)), w.Env.Vals[op.V])
		r := core.Deliver(a, ctx, msg)
		if !r.OK() {
			return ctx, errClass(r.Err)
		}
		var resp sftypes.MsgLockAndSuperfluidDelegateResponse
		mustUnmarshal(r.Res, &resp)
		if i := l.find(resp.ID); i >= 0 {
			// the lockup message server adds to an existing not-unlocking lock of the same owner/denom/duration
			k := &l.Locks[i]
			if k.Owner != op.A || k.Unlocking || k.Dur != w.U || k.D != 0 {
				fail("lockdel.response-names-foreign-lock", "", fmt.Sprintf("response id %d is lock %+v", resp.ID, *k))
			}
			k.Amt = k.Amt.Add(amt)
			k.SF, k.Val = sfDelegated, op.V
		} else {
			if resp.ID != l.NextLockID {
				fail("lock.ids-are-consecutive", "", fmt.Sprintf("response id %d, expected %d", resp.ID, l.NextLockID))
			}
			l.NextLockID = resp.ID + 1
			l.Locks = append(l.Locks, LockRec{ID: resp.ID, Owner: op.A, Amt: amt, Dur: w.U, SF: sfDelegated, Val: op.V})
		}
		l.Acct[0][op.V] = true
		l.StakeOps[0][op.V]++
		w.Vac[fmt.Sprintf("validator%d_used", op.V)]++
	case "lock":
		amt := mustInt(w.Cfg.TopUp)
		// X > 1: a lock X times as long as the unbonding period (superfluid accepts any duration >= the unbonding
		// period; an undelegation's unstaking marker must still last the unbonding period, not the lock's duration)
		dur := w.U
		if op.X > 1 {
			dur = time.Duration(op.X) * w.U
		}
		r := core.Deliver(a, ctx, &lockuptypes.MsgLockTokens{Owner: core.Acc(op.A).String(), Duration: dur, Coins: sdk.NewCoins(w.shareCoin(amt))})
		if !r.OK() {
			return ctx, errClass(r.Err)
		}
		var resp lockuptypes.MsgLockTokensResponse
		mustUnmarshal(r.Res, &resp)
		if i := l.find(resp.ID); i >= 0 {
			k := &l.Locks[i]
			if k.Owner != op.A || k.Unlocking || k.Dur != dur || k.D != 0 {
				fail("lock.response-names-foreign-lock", "", fmt.Sprintf("response id %d is lock %+v", resp.ID, *k))
			}
			k.Amt = k.Amt.Add(amt)
			switch k.SF {
			case sfDelegated:
				l.StakeOps[k.D][k.Val]++
				w.Vac["topup_of_delegated_lock"]++
			case sfUndelegating:
				w.Vac["topup_of_undelegating_lock"]++
			}
		} else {
			if resp.ID != l.NextLockID {
				fail("lock.ids-are-consecutive", "", fmt.Sprintf("response id %d, expected %d", resp.ID, l.NextLockID))
			}
			l.NextLockID = resp.ID + 1
			l.Locks = append(l.Locks, LockRec{ID: resp.ID, Owner: op.A, Amt: amt, Dur: dur})
			if op.X > 1 {
				w.Vac["lock_longer_than_unbonding_period"]++
			}
		}
	case "del":
		if op.P >= len(l.Locks) {
			return ctx, "rejected:no-such-lock"
		}
		k := &l.Locks[op.P]
		r := core.Deliver(a, ctx, sftypes.NewMsgSuperfluidDelegate(core.Acc(k.Owner), k.ID, w.Env.Vals[op.V]))
		if !r.OK() {
			return ctx, errClass(r.Err)
		}
		if k.SF != sfPlain || k.Unlocking {
			// "every delegated lock has exactly one staking marker": a second delegation of a lock that is
			// delegated / undelegating / unlocking must not be accepted
			fail("delegate.accepted-on-ineligible-lock", fmt.Sprintf("sf=%d unlocking=%v", k.SF, k.Unlocking), fmt.Sprintf("lock %+v", *k))
		}
		k.SF, k.Val = sfDelegated, op.V
		l.Acct[k.D][op.V] = true
		l.StakeOps[k.D][op.V]++
		w.Vac[fmt.Sprintf("validator%d_used", op.V)]++
		w.Vac["delegate_existing_lock"]++
		if k.D == 1 {
			w.Vac["cl_delegate_existing_lock"]++
		}
	case "undel":
		if op.P >= len(l.Locks) {
			return ctx, "rejected:no-such-lock"
		}
		k := &l.Locks[op.P]
		r := core.Deliver(a, ctx, sftypes.NewMsgSuperfluidUndelegate(core.Acc(k.Owner), k.ID))
		if !r.OK() {
			if k.SF == sfDelegated {
				w.Vac["undelegate_of_delegated_lock_refused"]++
				if _, ok := w.Extra["undelegate_refused_sample"]; !ok {
					w.Extra["undelegate_refused_sample"] = fmt.Sprintf("lock %d amount %s: %v", k.ID, k.Amt, r.Err)
				}
			}
			return ctx, errClass(r.Err)
		}
		if k.SF != sfDelegated {
			fail("undelegate.accepted-on-undelegated-lock", fmt.Sprintf("sf=%d", k.SF), fmt.Sprintf("lock %+v", *k))
		}
		k.SF, k.UndelAt, k.WasSF = sfUndelegating, l.Now, true
		l.StakeOps[k.D][k.Val]++
		w.Vac["undelegate"]++
		if k.D == 1 {
			w.Vac["cl_undelegate"]++
		}
	case "unbond":
		if op.P >= len(l.Locks) {
			return ctx, "rejected:no-such-lock"
		}
		k := &l.Locks[op.P]
		r := core.Deliver(a, ctx, sftypes.NewMsgSuperfluidUnbondLock(core.Acc(k.Owner), k.ID))
		if !r.OK() {
			if k.SF == sfDelegated {
				w.Vac["unbond_rejected_on_delegated_lock"]++
			}
			return ctx, errClass(r.Err)
		}
		if k.SF == sfDelegated {
			fail("unlock.started-while-delegated", "SuperfluidUnbondLock", fmt.Sprintf("MsgSuperfluidUnbondLock accepted on delegated lock %+v", *k))
		}
		k.Unlocking, k.End = true, l.Now.Add(k.Dur)
		w.Vac["unbond_lock"]++
	case "undelunbond":
		if op.P >= len(l.Locks) {
			return ctx, "rejected:no-such-lock"
		}
		k := &l.Locks[op.P]
		part := k.Amt.MulRaw(op.X).QuoRaw(op.Y)
		r := core.Deliver(a, ctx, sftypes.NewMsgSuperfluidUndelegateAndUnbondLock(core.Acc(k.Owner), k.ID, sdk.NewCoin(w.Denoms[k.D], part)))
		if !r.OK() {
			if k.SF == sfDelegated {
				w.Vac["undelegate_of_delegated_lock_refused"]++
			}
			return ctx, errClass(r.Err)
		}
		var resp sftypes.MsgSuperfluidUndelegateAndUnbondLockResponse
		mustUnmarshal(r.Res, &resp)
		if k.SF != sfDelegated {
			fail("undelegate.accepted-on-undelegated-lock", fmt.Sprintf("sf=%d", k.SF), fmt.Sprintf("lock %+v", *k))
		}
		l.StakeOps[k.D][k.Val]++
		if part.Equal(k.Amt) {
			if resp.LockId != k.ID {
				fail("undelunbond.full-keeps-lock-id", "", fmt.Sprintf("response id %d, lock %d", resp.LockId, k.ID))
			}
			k.SF, k.UndelAt, k.WasSF = sfUndelegating, l.Now, true
			k.Unlocking, k.End = true, l.Now.Add(k.Dur)
			w.Vac["full_undelegate_and_unbond"]++
			if k.D == 1 {
				w.Vac["cl_undelegate"]++
			}
		} else {
			if resp.LockId != l.NextLockID {
				fail("lock.ids-are-consecutive", "", fmt.Sprintf("response id %d, expected %d", resp.LockId, l.NextLockID))
			}
			l.NextLockID = resp.LockId + 1
			l.StakeOps[k.D][k.Val]++
			k.Amt = k.Amt.Sub(part)
			nl := LockRec{ID: resp.LockId, Owner: k.Owner, Amt: part, Dur: k.Dur, SF: sfUndelegating, Val: k.Val, UndelAt: l.Now, WasSF: true, Unlocking: true, End: l.Now.Add(k.Dur), D: k.D}
			if k.D == 1 {
				w.Vac["cl_partial_undelegate_and_unbond"]++
			}
			l.Locks = append(l.Locks, nl)
			w.Vac["partial_undelegate_and_unbond"]++
		}
	case "beginunlock":
		if op.P >= len(l.Locks) {
			return ctx, "rejected:no-such-lock"
		}
		k := &l.Locks[op.P]
		r := core.Deliver(a, ctx, &lockuptypes.MsgBeginUnlocking{Owner: core.Acc(k.Owner).String(), ID: k.ID})
		if !r.OK() {
			if k.SF == sfDelegated {
				w.Vac["beginunlocking_rejected_on_delegated_lock"]++
			}
			return ctx, errClass(r.Err)
		}
		if k.SF == sfDelegated {
			fail("unlock.started-while-delegated", "BeginUnlocking", fmt.Sprintf("MsgBeginUnlocking accepted on delegated lock %+v", *k))
		}
		var resp lockuptypes.MsgBeginUnlockingResponse
		mustUnmarshal(r.Res, &resp)
		if resp.UnlockingLockID != k.ID {
			fail("beginunlock.whole-lock-keeps-id", "", fmt.Sprintf("response id %d, lock %d", resp.UnlockingLockID, k.ID))
		}
		k.Unlocking, k.End = true, l.Now.Add(k.Dur)
	case "unlockall":
		// the bulk form of begin-unlock: it walks every not-unlocking lock of the owner, so it is a third way
		// a delegated lock could start unlocking
		r := core.Deliver(a, ctx, &lockuptypes.MsgBeginUnlockingAll{Owner: core.Acc(op.A).String()})
		if !r.OK() {
			for _, k := range l.Locks {
				if k.Owner == op.A && k.SF == sfDelegated {
					w.Vac["beginunlockingall_rejected_with_delegated_lock"]++
					break
				}
			}
			return ctx, errClass(r.Err)
		}
		// (the response of this message is empty by design; the ledger is updated from the request alone)
		n := 0
		for i := range l.Locks {
			k := &l.Locks[i]
			if k.Owner != op.A || k.Unlocking {
				continue
			}
			if k.SF == sfDelegated {
				fail("unlock.started-while-delegated", "BeginUnlockingAll", fmt.Sprintf("MsgBeginUnlockingAll accepted while the owner holds delegated lock %+v", *k))
			}
			k.Unlocking, k.End = true, l.Now.Add(k.Dur)
			n++
		}
		if n > 0 {
			w.Vac["beginunlockingall_accepted"]++
		}
	case "swap":
		in, out, amt := w.BondDenom, FooDenom, mustInt(w.Cfg.SwapOsmoIn)
		if op.X == 1 {
			in, out, amt = FooDenom, w.BondDenom, mustInt(w.Cfg.SwapFooIn)
		}
		r := core.Deliver(a, ctx, &pmtypes.MsgSwapExactAmountIn{Sender: core.Acc("T").String(), Routes: []pmtypes.SwapAmountInRoute{{PoolId: w.PoolID, TokenOutDenom: out}},
			TokenIn: sdk.NewCoin(in, amt), TokenOutMinAmount: sdkmath.OneInt()})
		if !r.OK() {
			return ctx, errClass(r.Err)
		}
		var resp pmtypes.MsgSwapExactAmountInResponse
		mustUnmarshal(r.Res, &resp)
		if op.X == 0 {
			l.PoolOsmo = l.PoolOsmo.Add(amt)
		} else {
			l.PoolOsmo = l.PoolOsmo.Sub(resp.TokenOutAmount)
		}
		w.Vac["swap"]++
	case "clcreate":
		// a full-range position in the concentrated pool, locked for the unbonding period and delegated, in one message
		fo, bo := mustInt(w.Cfg.CLAmounts[ownerIdx(op.A)][0]), mustInt(w.Cfg.CLAmounts[ownerIdx(op.A)][1])
		r := core.Deliver(a, ctx, &sftypes.MsgCreateFullRangePositionAndSuperfluidDelegate{Sender: core.Acc(op.A).String(),
			Coins: sdk.NewCoins(sdk.NewCoin(FooDenom, fo), sdk.NewCoin(w.BondDenom, bo)), ValAddr: w.Env.Vals[op.V].String(), PoolId: w.CLPoolID})
		if !r.OK() {
			return ctx, errClass(r.Err)
		}
		var resp sftypes.MsgCreateFullRangePositionAndSuperfluidDelegateResponse
		mustUnmarshal(r.Res, &resp)
		if resp.LockID != l.NextLockID || l.find(resp.LockID) >= 0 {
			fail("lock.ids-are-consecutive", "", fmt.Sprintf("response lock id %d, expected %d", resp.LockID, l.NextLockID))
		}
		if resp.PositionID != l.NextPosID {
			fail("clcreate.position-ids-are-consecutive", "", fmt.Sprintf("response position id %d, expected %d", resp.PositionID, l.NextPosID))
		}
		l.NextLockID, l.NextPosID = resp.LockID+1, resp.PositionID+1
		// the response does not carry the liquidity: the concentrated-liquidity module (an observer here) is asked
		pos, err := a.ConcentratedLiquidityKeeper.GetPosition(ctx, resp.PositionID)
		if err != nil || pos.Address != core.Acc(op.A).String() || !pos.Liquidity.IsPositive() {
			fail("clcreate.position-of-the-response-exists", "", fmt.Sprintf("position %d of the response: %+v (%v)", resp.PositionID, pos, err))
			return ctx, "ok"
		}
		liq := pos.Liquidity.BigInt()
		l.Locks = append(l.Locks, LockRec{ID: resp.LockID, Owner: op.A, Amt: pos.Liquidity.TruncateInt(), Dur: w.U, SF: sfDelegated, Val: op.V, D: 1, Pos: resp.PositionID})
		l.Positions = append(l.Positions, PosRec{ID: resp.PositionID, Owner: op.A, Liq: liq, Lock: resp.LockID})
		l.CLLive, l.CLEver = new(big.Int).Add(l.CLLive, liq), new(big.Int).Add(l.CLEver, liq)
		l.Acct[1][op.V] = true
		l.StakeOps[1][op.V]++
		w.Vac[fmt.Sprintf("validator%d_used", op.V)]++
		w.Vac["cl_create_position_and_delegate"]++
	case "cladd":
		// documented: the delegation is ended, the old lock and position are removed, a new position holding
		// the old tokens plus the added ones is created, locked and delegated to the same validator
		if op.P >= len(l.Locks) || l.Locks[op.P].D != 1 || l.Locks[op.P].Pos == 0 || l.findPos(l.Locks[op.P].Pos) < 0 {
			return ctx, "rejected:no-such-position"
		}
		k := l.Locks[op.P]
		r := core.Deliver(a, ctx, &sftypes.MsgAddToConcentratedLiquiditySuperfluidPosition{PositionId: k.Pos, Sender: core.Acc(k.Owner).String(),
			TokenDesired0: sdk.NewCoin(FooDenom, mustInt(w.Cfg.CLAdd[0])), TokenDesired1: sdk.NewCoin(w.BondDenom, mustInt(w.Cfg.CLAdd[1]))})
		if !r.OK() {
			if k.SF == sfDelegated && !k.Unlocking {
				w.Vac["cl_add_refused_on_delegated_position"]++
			}
			return ctx, errClass(r.Err)
		}
		var resp sftypes.MsgAddToConcentratedLiquiditySuperfluidPositionResponse
		mustUnmarshal(r.Res, &resp)
		if k.SF != sfDelegated || k.Unlocking {
			fail("cladd.accepted-on-position-that-is-not-delegated", fmt.Sprintf("sf=%d unlocking=%v", k.SF, k.Unlocking), fmt.Sprintf("lock %+v", k))
		}
		if resp.LockId != l.NextLockID || l.find(resp.LockId) >= 0 {
			fail("lock.ids-are-consecutive", "", fmt.Sprintf("response lock id %d, expected %d", resp.LockId, l.NextLockID))
		}
		if resp.PositionId != l.NextPosID {
			fail("clcreate.position-ids-are-consecutive", "", fmt.Sprintf("response position id %d, expected %d", resp.PositionId, l.NextPosID))
		}
		l.NextLockID, l.NextPosID = resp.LockId+1, resp.PositionId+1
		pi := l.findPos(k.Pos)
		oldLiq, newLiq := l.Positions[pi].Liq, resp.NewLiquidity.BigInt()
		l.removeLock(op.P)
		l.Locks = append(l.Locks, LockRec{ID: resp.LockId, Owner: k.Owner, Amt: resp.NewLiquidity.TruncateInt(), Dur: w.U, SF: sfDelegated, Val: k.Val, D: 1, Pos: resp.PositionId})
		l.Positions = append(append([]PosRec{}, l.Positions[:pi]...), l.Positions[pi+1:]...)
		l.Positions = append(l.Positions, PosRec{ID: resp.PositionId, Owner: k.Owner, Liq: newLiq, Lock: resp.LockId})
		l.CLLive = new(big.Int).Add(new(big.Int).Sub(l.CLLive, oldLiq), newLiq)
		l.CLEver = new(big.Int).Add(l.CLEver, newLiq)
		l.StakeOps[1][k.Val] += 2
		w.Vac["cl_add_to_position"]++
	case "clwithdraw":
		if op.P >= len(l.Positions) {
			return ctx, "rejected:no-such-position"
		}
		p := l.Positions[op.P]
		bonded, lockState := false, "no live lock"
		if i := l.find(p.Lock); p.Lock != 0 && i >= 0 {
			k := l.Locks[i]
			bonded = !k.Unlocking || k.End.After(l.Now)
			lockState = fmt.Sprintf("sf=%d unlocking=%v", k.SF, k.Unlocking)
		}
		r := core.Deliver(a, ctx, &cltypes.MsgWithdrawPosition{PositionId: p.ID, Sender: core.Acc(p.Owner).String(), LiquidityAmount: osmomath.NewDecFromBigIntWithPrec(p.Liq, 18)})
		if !r.OK() {
			if bonded {
				w.Vac["cl_withdraw_refused_while_lock_bonded"]++
			}
			return ctx, errClass(r.Err)
		}
		if bonded {
			fail("clwithdraw.accepted-while-lock-bonded", lockState, fmt.Sprintf("MsgWithdrawPosition of position %d accepted at %s while its lock %d is %s (%+v)", p.ID, l.Now, p.Lock, lockState, l.Locks[l.find(p.Lock)]))
		}
		if i := l.find(p.Lock); p.Lock != 0 && i >= 0 {
			l.Locks[i].Pos = 0
		}
		l.Positions = append(append([]PosRec{}, l.Positions[:op.P]...), l.Positions[op.P+1:]...)
		l.CLLive = new(big.Int).Sub(l.CLLive, p.Liq)
		w.Vac["cl_withdraw_accepted_after_lock_matured"]++
	case "clswap":
		in, out, amt := w.BondDenom, FooDenom, mustInt(w.Cfg.CLSwapOsmoIn)
		if op.X == 1 {
			in, out, amt = FooDenom, w.BondDenom, mustInt(w.Cfg.CLSwapFooIn)
		}
		r := core.Deliver(a, ctx, &pmtypes.MsgSwapExactAmountIn{Sender: core.Acc("T").String(), Routes: []pmtypes.SwapAmountInRoute{{PoolId: w.CLPoolID, TokenOutDenom: out}},
			TokenIn: sdk.NewCoin(in, amt), TokenOutMinAmount: sdkmath.OneInt()})
		if !r.OK() {
			return ctx, errClass(r.Err)
		}
		w.Vac["cl_swap"]++
	case "ucs", "ucsliq":
		// UnbondConvertAndStake: the lock (or liquid shares) leaves the pool, the foo part is swapped to the bond
		// denom in the same pool, the whole is delegated natively by the owner
		owner, lockID, conv, state := op.A, uint64(0), mustInt(w.Cfg.UCSLiquid), "liquid"
		var k LockRec
		if op.K == "ucs" {
			if op.P >= len(l.Locks) {
				return ctx, "rejected:no-such-lock"
			}
			k = l.Locks[op.P]
			owner, lockID, conv = k.Owner, k.ID, k.Amt
			state = []string{"plain", "delegated", "undelegating"}[k.SF]
			if k.Unlocking {
				state += "_unlocking"
			}
			if k.D == 1 {
				state = "concentrated_" + state
			}
		}
		shares := sdk.NewCoin(w.ShareDenom, sdkmath.ZeroInt())
		if op.K == "ucsliq" {
			shares = w.shareCoin(conv)
		}
		before := a.BankKeeper.GetBalance(ctx, w.PoolAddr, w.BondDenom).Amount
		r := core.Deliver(a, ctx, &sftypes.MsgUnbondConvertAndStake{LockId: lockID, Sender: core.Acc(owner).String(), ValAddr: w.Env.Vals[op.V].String(),
			MinAmtToStake: sdkmath.ZeroInt(), SharesToConvert: shares})
		if !r.OK() {
			w.Vac["ucs_refused_"+state]++
			return ctx, errClass(r.Err)
		}
		var resp sftypes.MsgUnbondConvertAndStakeResponse
		mustUnmarshal(r.Res, &resp)
		if op.K == "ucs" && k.D == 1 {
			// documented: only balancer shares can be converted
			fail("ucs.accepted-on-concentrated-lock", state, fmt.Sprintf("lock %+v", k))
			return ctx, "ok"
		}
		after := a.BankKeeper.GetBalance(ctx, w.PoolAddr, w.BondDenom).Amount
		if !before.Sub(after).Equal(resp.TotalAmtStaked) || !resp.TotalAmtStaked.IsPositive() {
			fail("ucs.staked-amount-is-what-left-the-pool", state, fmt.Sprintf("response says %s staked, the pool's bond-denom balance went from %s to %s", resp.TotalAmtStaked, before, after))
		}
		if op.K == "ucs" {
			if k.SF == sfDelegated {
				l.StakeOps[k.D][k.Val]++
			}
			l.removeLock(op.P)
		}
		oi := ownerIdx(owner)
		l.Conv[oi] = l.Conv[oi].Add(conv)
		l.Shares = l.Shares.Sub(conv)
		l.PoolOsmo = l.PoolOsmo.Sub(resp.TotalAmtStaked)
		l.Native[oi][op.V] = l.Native[oi][op.V].Add(resp.TotalAmtStaked)
		w.Vac["ucs_"+state]++
	case "unpool":
		// documented: every lock of the sender holding this pool's shares is undelegated if delegated, broken, exited
		// from the pool, and each exit coin is re-locked in a new lock that unlocks over the old lock's remaining time
		before := a.BankKeeper.GetBalance(ctx, w.PoolAddr, w.BondDenom).Amount
		r := core.Deliver(a, ctx, &sftypes.MsgUnPoolWhitelistedPool{Sender: core.Acc(op.A).String(), PoolId: w.PoolID})
		if !r.OK() {
			return ctx, errClass(r.Err)
		}
		var resp sftypes.MsgUnPoolWhitelistedPoolResponse
		mustUnmarshal(r.Res, &resp)
		var gone []LockRec
		kept := l.Locks[:0:0]
		for _, k := range l.Locks {
			if k.Owner == op.A && k.D == 0 {
				gone = append(gone, k)
			} else {
				kept = append(kept, k)
			}
		}
		l.Locks = kept
		if len(resp.ExitedLockIds) != 2*len(gone) {
			fail("unpool.two-new-locks-per-unpooled-lock", "", fmt.Sprintf("%d share locks of %s, response names %d new locks %v", len(gone), op.A, len(resp.ExitedLockIds), resp.ExitedLockIds))
		}
		wantRemaining := map[time.Duration]int{}
		oi := ownerIdx(op.A)
		for _, k := range gone {
			state := []string{"plain", "delegated", "undelegating"}[k.SF]
			rem := k.Dur
			if k.Unlocking {
				state += "_unlocking"
				rem = k.End.Sub(l.Now)
			}
			wantRemaining[rem] += 2
			if k.SF == sfDelegated {
				l.StakeOps[0][k.Val]++
			}
			l.Conv[oi] = l.Conv[oi].Add(k.Amt)
			l.Shares = l.Shares.Sub(k.Amt)
			w.Vac["unpool_"+state]++
			if k.SF == sfUndelegating && l.Now.Add(rem).Before(k.UndelAt.Add(w.U)) {
				// the re-locked coins would be free before the undelegation has matured
				fail("withdraw.unlock-end-not-before-undelegation-end", "unpool", fmt.Sprintf("lock %+v unpooled at %s: the new locks end %s, the undelegation matures %s", k, l.Now, l.Now.Add(rem), k.UndelAt.Add(w.U)))
			}
		}
		relockedBond := sdkmath.ZeroInt()
		for _, id := range resp.ExitedLockIds {
			if id != l.NextLockID {
				fail("lock.ids-are-consecutive", "", fmt.Sprintf("response id %d, expected %d", id, l.NextLockID))
			}
			l.NextLockID = id + 1
			// the response does not carry the amounts: the lockup module is asked what the new lock holds
			lk, err := a.LockupKeeper.GetLockByID(ctx, id)
			if err != nil || len(lk.Coins) != 1 || (lk.Coins[0].Denom != w.BondDenom && lk.Coins[0].Denom != FooDenom) {
				fail("unpool.new-lock-holds-one-pool-asset", "", fmt.Sprintf("new lock %d: %v (%v)", id, lk, err))
				continue
			}
			if wantRemaining[lk.Duration] == 0 || !lk.IsUnlocking() || !lk.EndTime.Equal(l.Now.Add(lk.Duration)) {
				fail("unpool.new-locks-unlock-over-the-remaining-time", "", fmt.Sprintf("new lock %d: duration %s end %s at %s; remaining times of the unpooled locks: %v", id, lk.Duration, lk.EndTime, l.Now, wantRemaining))
			} else {
				wantRemaining[lk.Duration]--
			}
			if lk.Coins[0].Denom == w.BondDenom {
				relockedBond = relockedBond.Add(lk.Coins[0].Amount)
			}
			l.Locks = append(l.Locks, LockRec{ID: id, Owner: op.A, Amt: lk.Coins[0].Amount, Dur: lk.Duration, Unlocking: true, End: lk.EndTime, D: 2, Denom: lk.Coins[0].Denom})
		}
		after := a.BankKeeper.GetBalance(ctx, w.PoolAddr, w.BondDenom).Amount
		if !before.Sub(after).Equal(relockedBond) {
			fail("unpool.exit-coins-are-all-relocked", "", fmt.Sprintf("the pool paid out %s bond denom, the new locks hold %s", before.Sub(after), relockedBond))
		}
		l.PoolOsmo = l.PoolOsmo.Sub(before.Sub(after))
		if len(gone) > 0 {
			w.Vac["unpool"]++
		}
	default:
		panic("unknown op " + op.K)
	}
	return ctx, "ok"
}

// denomOf is the denomination a lock of the ledger holds.
func (w *World) denomOf(k LockRec) string {
	if k.D == 2 {
		return k.Denom
	}
	return w.Denoms[k.D]
}

// boundary is one block boundary dt later, followed by the ledger's bookkeeping: the epoch timer
// model, the multiplier refresh from the ledger's own pool balance, and the observation of which
// locks / unstaking markers the lockup sweep released (legality is judged, liveness is not).
func (w *World) boundary(ctx sdk.Context, l *Ledger, dt time.Duration, fail func(a, s, d string)) (sdk.Context, string) {
	tEnd := l.Now // block time of the block whose EndBlocker runs
	next, err := core.NextBlock(w.App, ctx, dt)
	if err != nil {
		fail("block.boundary-succeeds", "", err.Error())
		return ctx, "rejected:block"
	}
	ctx = next
	l.Height++
	l.Now = l.Now.Add(dt)
	l.JustRefreshed = false
	tick := !l.EpStarted || l.Now.After(l.EpStart.Add(w.E))
	if tick {
		if !l.EpStarted {
			l.EpStarted, l.EpNum = true, 1
		} else {
			l.EpNum++
			l.EpStart = l.EpStart.Add(w.E)
			l.Minted = l.Minted.Add(w.Mint)
			w.Vac["mint_epochs"]++
		}
		nm := multiplierOf(l.PoolOsmo, l.Shares)
		delegated, delegatedCL := false, false
		for _, k := range l.Locks {
			delegated = delegated || (k.SF == sfDelegated && k.D == 0)
			delegatedCL = delegatedCL || (k.SF == sfDelegated && k.D == 1)
		}
		if nm.Cmp(l.Mult) != 0 && delegated {
			w.Vac["epoch_refresh_after_price_move"]++
		}
		l.Mult = nm
		// the concentrated share: the price in force at this block's begin (nothing has touched the pool since)
		sp := w.sqrtPrice(ctx)
		nc := w.clMultiplier(l.CLLive, sp)
		if nc.Cmp(l.MultCL) != 0 && delegatedCL {
			w.Vac["cl_epoch_refresh_after_price_or_liquidity_move"]++
		}
		l.MultCL, l.MultCLImpl = nc, w.clMultiplier(l.CLEver, sp)
		l.JustRefreshed = true
		l.StakeOps = [2][2]int{}
		w.Vac["epoch_refresh"]++
	}
	// the timer model is an assumption about x/epochs (C17's subject), not part of this property: a
	// disagreement is a harness error
	ei := w.App.EpochsKeeper.GetEpochInfo(ctx, EpochName)
	if ei.CurrentEpoch != l.EpNum || (ei.CurrentEpochStartHeight == ctx.BlockHeight()) != tick || ctx.BlockHeight() != l.Height || !ctx.BlockTime().Equal(l.Now) {
		panic(fmt.Sprintf("harness: epoch/clock model diverged: app epoch %d start height %d height %d time %s; model epoch %d tick %v height %d time %s",
			ei.CurrentEpoch, ei.CurrentEpochStartHeight, ctx.BlockHeight(), ctx.BlockTime(), l.EpNum, tick, l.Height, l.Now))
	}
	// what did the EndBlocker release?
	kept := l.Locks[:0:0]
	for _, k := range l.Locks {
		matured := k.SF != sfUndelegating || !k.UndelAt.Add(w.U).After(tEnd)
		lk, err := w.App.LockupKeeper.GetLockByID(ctx, k.ID)
		if err != nil || lk == nil {
			switch {
			case k.SF == sfDelegated:
				fail("withdraw.not-while-delegated", "", fmt.Sprintf("lock %+v disappeared at the boundary ending block time %s", k, tEnd))
			case !matured:
				fail("withdraw.not-before-undelegation-matured", "", fmt.Sprintf("lock %+v disappeared at %s, undelegation matures %s", k, tEnd, k.UndelAt.Add(w.U)))
			case !k.Unlocking || k.End.After(tEnd):
				fail("withdraw.not-before-unlock-end", "", fmt.Sprintf("lock %+v disappeared at %s", k, tEnd))
			default:
				w.Vac["lock_withdrawn"]++
				if k.WasSF {
					w.Vac["matured_undelegation_then_lock_unlocked"]++
				}
			}
			l.Withdrawn++
			if pi := l.findPos(k.Pos); k.Pos != 0 && pi >= 0 && l.Positions[pi].Lock == k.ID {
				l.Positions[pi].Lock = 0
				w.Vac["cl_lock_matured_and_burnt_position_free"]++
			}
			continue
		}
		if k.SF == sfUndelegating && matured {
			if _, found, _ := w.App.LockupKeeper.GetSyntheticLockupByUnderlyingLockId(ctx, k.ID); !found {
				k.SF = sfPlain
				w.Vac["unstaking_marker_expired"]++
			}
		}
		kept = append(kept, k)
	}
	l.Locks = kept
	return ctx, "ok"
}

// Alphabet selects the symbols.
type Alphabet struct {
	MaxLocks  int  `json:"max_locks"` // lock-creating symbols are disabled beyond this many live locks
	FullUndel bool `json:"full_undelegate_and_unbond"`
	Probes    bool `json:"extra_rejection_probes"` // delegate an already delegated lock, unbond a delegated lock, begin-unlock an undelegating lock
	// NoShareLocks disables the owner-level balancer-share symbols (LockTokens, LockAndSuperfluidDelegate, BeginUnlockingAll)
	NoShareLocks bool `json:"no_owner_level_share_lock_symbols,omitempty"`
	CL           bool `json:"concentrated_positions,omitempty"`          // CreateFullRangePositionAndSuperfluidDelegate, AddTo..., WithdrawPosition, swaps on the concentrated pool
	CLPartial    bool `json:"concentrated_partial_undelegate,omitempty"` // also UndelegateAndUnbond 1/3 of a concentrated lock (split)
	UCS          bool `json:"unbond_convert_and_stake,omitempty"`        // UnbondConvertAndStake on every lock and on liquid shares
	UCSBothVals  bool `json:"convert_to_both_validators,omitempty"`
	Unpool       int  `json:"unpool_whitelisted_pool_owners,omitempty"` // UnPoolWhitelistedPool for the first n owners
}

func (w *World) Enabled(al *Alphabet) func(ctx sdk.Context, l *Ledger, depth int) []Op {
	return func(ctx sdk.Context, l *Ledger, depth int) []Op {
		var ops []Op
		for i, k := range l.Locks {
			switch {
			case k.SF == sfDelegated && k.D == 1:
				// a concentrated lock: the whole-lock undelegate-and-unbond is the way to a withdrawable position
				ops = append(ops, Op{K: "undel", P: i}, Op{K: "undelunbond", P: i, X: 1, Y: 1}, Op{K: "beginunlock", P: i}, Op{K: "unbond", P: i})
				if k.Pos != 0 {
					ops = append(ops, Op{K: "cladd", P: i})
				}
				if al.CLPartial {
					ops = append(ops, Op{K: "undelunbond", P: i, X: 1, Y: 3})
				}
				if al.Probes {
					ops = append(ops, Op{K: "del", P: i, V: 1 - k.Val})
				}
			case k.SF == sfDelegated:
				// beginunlock and unbond on a delegated lock are the two ways a lock could "start unlocking while
				// superfluid-delegated": both must be refused
				ops = append(ops, Op{K: "undel", P: i}, Op{K: "undelunbond", P: i, X: 1, Y: 3}, Op{K: "beginunlock", P: i}, Op{K: "unbond", P: i})
				if al.FullUndel {
					ops = append(ops, Op{K: "undelunbond", P: i, X: 1, Y: 1})
				}
				if al.Probes {
					ops = append(ops, Op{K: "del", P: i, V: 1 - k.Val})
				}
			case k.SF == sfUndelegating && !k.Unlocking:
				ops = append(ops, Op{K: "unbond", P: i})
				if al.Probes {
					ops = append(ops, Op{K: "beginunlock", P: i}, Op{K: "undel", P: i})
				}
			case k.SF == sfPlain && !k.Unlocking:
				ops = append(ops, Op{K: "del", P: i, V: 0}, Op{K: "del", P: i, V: 1}, Op{K: "beginunlock", P: i})
			case k.SF == sfPlain && k.Unlocking:
				// a lock that began unlocking through the plain lockup message is offered for delegation (in the same block:
				// its remaining time still equals its duration): must be refused
				ops = append(ops, Op{K: "del", P: i, V: 0})
			}
			if al.UCS && (k.D == 0 || (k.D == 1 && al.Probes)) {
				// conversion to native stake, whatever the state of the lock (a concentrated lock must be refused)
				v := 0
				if k.SF != sfPlain {
					v = k.Val
				}
				ops = append(ops, Op{K: "ucs", P: i, V: v})
				if al.UCSBothVals {
					ops = append(ops, Op{K: "ucs", P: i, V: 1 - v})
				}
			}
		}
		if al.CL {
			for i := range l.Positions {
				// must be refused while the position's lock is bonded
				ops = append(ops, Op{K: "clwithdraw", P: i})
			}
			for _, o := range owners {
				has := false
				for _, p := range l.Positions {
					has = has || p.Owner == o
				}
				if !has && len(l.Locks) < al.MaxLocks {
					ops = append(ops, Op{K: "clcreate", A: o, V: 0}, Op{K: "clcreate", A: o, V: 1})
				}
			}
		}
		for i := 0; i < al.Unpool; i++ {
			has := false
			for _, k := range l.Locks {
				has = has || (k.Owner == owners[i] && k.D == 0)
			}
			if has {
				ops = append(ops, Op{K: "unpool", A: owners[i]})
			}
		}
		if al.UCS {
			ops = append(ops, Op{K: "ucsliq", A: "A", V: 0})
			if al.UCSBothVals {
				ops = append(ops, Op{K: "ucsliq", A: "B", V: 1})
			}
		}
		for _, o := range owners {
			// MsgLockTokens: tops up the owner's not-unlocking share lock if there is one, else creates a plain lock
			has, hasAny := false, false
			for _, k := range l.Locks {
				has = has || (k.Owner == o && !k.Unlocking && k.D == 0)
				hasAny = hasAny || (k.Owner == o && !k.Unlocking)
			}
			if (has || len(l.Locks) < al.MaxLocks) && !al.NoShareLocks {
				ops = append(ops, Op{K: "lock", A: o})
			}
			if hasAny {
				ops = append(ops, Op{K: "unlockall", A: o})
			}
			if (len(l.Locks) < al.MaxLocks || has) && !al.NoShareLocks {
				ops = append(ops, Op{K: "lockdel", A: o, V: 0}, Op{K: "lockdel", A: o, V: 1})
			}
		}
		ops = append(ops, Op{K: "swap", X: 0}, Op{K: "swap", X: 1})
		if al.CL {
			ops = append(ops, Op{K: "clswap", X: 0}, Op{K: "clswap", X: 1})
		}
		ops = append(ops, Op{K: "tick"}, Op{K: "epoch"}, Op{K: "jump"}, Op{K: "jump", X: 1})
		return ops
	}
}

func sortedKeys(m map[uint64]string) []uint64 {
	ks := make([]uint64, 0, len(m))
	for k := range m {
		ks = append(ks, k)
	}
	sort.Slice(ks, func(i, j int) bool { return ks[i] < ks[j] })
	return ks
}
