package main

import (
	"fmt"
	"math/big"
	"strings"
	"time"

	sdkmath "cosmossdk.io/math"
	sdk "github.com/cosmos/cosmos-sdk/types"

	sftypes "github.com/osmosis-labs/osmosis/v31/x/superfluid/types"

	"github.com/osmosis-labs/osmosis/v31/zzverif/core"
)

func (w *World) intermediary(d, val int) sdk.AccAddress {
	return sftypes.GetSuperfluidIntermediaryAccountAddr(w.Denoms[d], w.Env.Vals[val].String())
}

// knownCLSig is the signature of every violation that the RECORDED defect of the concentrated pool's full-range
// liquidity counter (it is increased by every full-range position ever written and never decreased:
// known_findings C19-cl-full-range-liquidity-counter-not-exported-and-overcounted) explains completely: the
// observed value differs from the reference (liquidity = sum over the live full-range positions) and equals
// the value the same reference formula gives for the over-counted liquidity. Anything else keeps its own signature.
const knownCLSig = "cl-multiplier-from-overcounted-full-range-liquidity"

// delegated returns the tokens the intermediary account of validator val has staked:
// delegation shares -> validator.TokensFromShares, truncated.
func (w *World) delegated(ctx sdk.Context, d, val int) (sdkmath.Int, string) {
	v, err := w.App.StakingKeeper.GetValidator(ctx, w.Env.Vals[val])
	if err != nil {
		return sdkmath.ZeroInt(), "validator missing: " + err.Error()
	}
	return w.delegationOf(ctx, w.intermediary(d, val), val, v), ""
}

func (w *World) delegationOf(ctx sdk.Context, who sdk.AccAddress, val int, v interface {
	TokensFromShares(sdkmath.LegacyDec) sdkmath.LegacyDec
}) sdkmath.Int {
	dl, err := w.App.StakingKeeper.GetDelegation(ctx, who, w.Env.Vals[val])
	if err != nil {
		return sdkmath.ZeroInt() // no delegation
	}
	return v.TokensFromShares(dl.Shares).TruncateInt()
}

type stakeFinding struct{ a, s, d string }

// stakeOracle evaluates the three stake assertions of one intermediary account under a given multiplier.
func (w *World) stakeOracle(l *Ledger, d, v int, mult *big.Int, staked sdkmath.Int, n int, sum sdkmath.Int) (out []stakeFinding, diff sdkmath.Int) {
	exp := w.Value(mult, sum)
	diff = staked.Sub(exp)
	sig := fmt.Sprintf("locks=%d stake %s value", n, signOf(diff))
	what := fmt.Sprintf("val%d", v)
	if d == 1 {
		sig, what = "concentrated "+sig, fmt.Sprintf("val%d (concentrated share)", v)
	}
	if l.JustRefreshed {
		if !diff.IsZero() {
			out = append(out, stakeFinding{"stake.exact-after-epoch-refresh", sig,
				fmt.Sprintf("%s: intermediary account stakes %s, risk-adjusted value of its %d connected locks (sum %s shares, multiplier %s e-18, risk %s e-18) is %s; difference %s in the state right after the epoch refresh", what, staked, n, sum, mult, w.Risk, exp, diff)})
		}
		return
	}
	if absInt(diff).GT(sdkmath.NewInt(int64(n))) {
		out = append(out, stakeFinding{"stake.within-one-unit-per-lock-between-epochs", sig,
			fmt.Sprintf("%s: intermediary account stakes %s, risk-adjusted value of its %d connected locks (sum %s shares, multiplier %s e-18, risk %s e-18) is %s; difference %s exceeds %d (%d stake-changing steps on this account since the last epoch refresh; last op %s)", what, staked, n, sum, mult, w.Risk, exp, diff, n, l.StakeOps[d][v], l.LastOp)})
	}
	// Every stake-changing step adds or removes the value of ONE lock amount, computed with two
	// half-even roundings, while the expectation is the value of the SUM: each step can move the
	// difference by at most 2 units. Anything beyond that budget is not rounding.
	if budget := int64(2 * l.StakeOps[d][v]); absInt(diff).GT(sdkmath.NewInt(budget)) {
		out = append(out, stakeFinding{"stake.difference-is-rounding-only-between-epochs", sig,
			fmt.Sprintf("%s: intermediary account stakes %s, risk-adjusted value of its %d connected locks (sum %s shares, multiplier %s e-18) is %s; difference %s exceeds the rounding budget %d of %d stake-changing steps since the last epoch refresh", what, staked, n, sum, mult, exp, diff, budget, l.StakeOps[d][v])})
	}
	return
}

func absInt(x sdkmath.Int) sdkmath.Int {
	if x.IsNegative() {
		return x.Neg()
	}
	return x
}

func signOf(x sdkmath.Int) string {
	switch {
	case x.IsNegative():
		return "below"
	case x.IsPositive():
		return "above"
	}
	return "equal"
}

// Check evaluates every invariant of the property in one state.
func (w *World) Check(ctx sdk.Context, l *Ledger, fail func(a, s, d string)) {
	fail = classSig(fail)
	err := core.Try(func() error { w.check(ctx, l, fail); return nil })
	if err != nil {
		if strings.Contains(err.Error(), "harness:") {
			panic(err)
		}
		fail("queries.do-not-panic", "", err.Error())
	}
}

func (w *World) check(ctx sdk.Context, l *Ledger, fail func(a, s, d string)) {
	a := w.App
	now := ctx.BlockTime()

	// (1) connection table == ledger
	want := map[uint64]string{}
	for _, k := range l.Locks {
		if k.SF == sfDelegated {
			want[k.ID] = w.intermediary(k.D, k.Val).String()
		}
	}
	got := map[uint64]string{}
	for _, c := range a.SuperfluidKeeper.GetAllLockIdIntermediaryAccountConnections(ctx) {
		got[c.LockId] = c.IntermediaryAccount
	}
	for _, id := range sortedKeys(want) {
		if got[id] != want[id] {
			i := l.find(id)
			fail("connections.delegated-lock-is-connected", "delegated", fmt.Sprintf("lock %d delegated to val%d: connection %q, expected %q", id, l.Locks[i].Val, got[id], want[id]))
		}
	}
	for _, id := range sortedKeys(got) {
		if _, ok := want[id]; !ok {
			st := "unknown lock"
			if i := l.find(id); i >= 0 {
				st = fmt.Sprintf("sf=%d", l.Locks[i].SF)
			}
			fail("connections.only-delegated-locks-are-connected", st, fmt.Sprintf("lock %d (%s) is connected to %s but is not delegated according to the history", id, st, got[id]))
		}
	}
	// intermediary accounts: one per (denom, validator) ever delegated through
	accs := a.SuperfluidKeeper.GetAllIntermediaryAccounts(ctx)
	seenAcc := [2][2]bool{}
	for _, ac := range accs {
		ok := false
		for d := range w.Denoms {
			for v := range w.Env.Vals {
				if ac.Denom == w.Denoms[d] && ac.ValAddr == w.Env.Vals[v].String() && l.Acct[d][v] {
					ok, seenAcc[d][v] = true, true
				}
			}
		}
		if !ok {
			fail("accounts.only-for-used-pairs", "", fmt.Sprintf("intermediary account %s/%s without any accepted delegation", ac.Denom, ac.ValAddr))
		}
	}
	for d := range l.Acct {
		for v := range l.Acct[d] {
			if l.Acct[d][v] && !seenAcc[d][v] {
				fail("accounts.exist-for-used-pairs", "", fmt.Sprintf("no intermediary account for %s/val%d", w.Denoms[d], v))
			}
		}
	}

	// (2) synthetic locks == ledger
	type syn struct {
		denom string
		end   time.Time
		dur   time.Duration
	}
	synths := map[uint64][]syn{}
	for _, s := range a.LockupKeeper.GetAllSyntheticLockups(ctx) {
		synths[s.UnderlyingLockId] = append(synths[s.UnderlyingLockId], syn{s.SynthDenom, s.EndTime, s.Duration})
	}
	for _, k := range l.Locks {
		ss := synths[k.ID]
		delete(synths, k.ID)
		val := w.Env.Vals[k.Val].String()
		switch k.SF {
		case sfPlain:
			if len(ss) != 0 {
				fail("markers.none-on-undelegated-lock", "plain", fmt.Sprintf("lock %d is not superfluid-staked but has synthetic locks %v", k.ID, ss))
			}
		case sfDelegated:
			if len(ss) != 1 || ss[0].denom != w.Denoms[k.D]+"/superbonding/"+val || !ss[0].end.IsZero() {
				fail("markers.delegated-lock-has-exactly-one-staking-marker", fmt.Sprintf("n=%d", len(ss)), fmt.Sprintf("lock %d delegated to val%d has synthetic locks %v", k.ID, k.Val, ss))
			}
		case sfUndelegating:
			wantEnd := k.UndelAt.Add(w.U)
			if len(ss) != 1 || ss[0].denom != w.Denoms[k.D]+"/superunbonding/"+val {
				fail("markers.undelegating-lock-has-exactly-one-unstaking-marker", fmt.Sprintf("n=%d", len(ss)), fmt.Sprintf("lock %d undelegating from val%d since %s has synthetic locks %v", k.ID, k.Val, k.UndelAt, ss))
			} else if !ss[0].end.Equal(wantEnd) {
				fail("markers.unstaking-marker-lasts-the-unbonding-period", fmt.Sprintf("off=%s", ss[0].end.Sub(wantEnd)), fmt.Sprintf("lock %d undelegated at %s: unstaking marker ends %s, expected %s (unbonding period %s)", k.ID, k.UndelAt, ss[0].end, wantEnd, w.U))
			}
			if now.Before(wantEnd) {
				w.Vac["states_with_immature_undelegation"]++
			} else {
				w.Vac["states_with_matured_unswept_undelegation"]++
			}
		}
	}
	rest := map[uint64]string{}
	for id, ss := range synths {
		rest[id] = fmt.Sprint(ss)
	}
	for _, id := range sortedKeys(rest) {
		fail("markers.no-marker-without-lock", "dangling", fmt.Sprintf("synthetic locks %s on lock %d which the history does not know as live", rest[id], id))
	}

	// (3) stake of each intermediary account vs the risk-adjusted value of the connected locks
	for d := range w.Denoms {
		cl, mult := "", l.Mult
		if d == 1 {
			cl, mult = "cl_", l.MultCL
		}
		for v := range w.Env.Vals {
			staked, problem := w.delegated(ctx, d, v)
			if problem != "" {
				fail("stake.validator-exists", "", problem)
				continue
			}
			n, sum := l.connected(d, v)
			fs, diff := w.stakeOracle(l, d, v, mult, staked, n, sum)
			if n >= 2 {
				w.Vac[cl+"states_with_two_locks_on_one_account"]++
			}
			if l.JustRefreshed {
				if n > 0 {
					w.Vac[cl+"states_checked_exactly_after_refresh"]++
				}
			} else {
				if !diff.IsZero() {
					w.Vac[cl+"states_with_rounding_drift_between_epochs"]++
					if m, _ := w.Extra["max_drift"].(float64); float64(absInt(diff).Int64()) > m {
						w.Extra["max_drift"] = float64(absInt(diff).Int64())
					}
				}
				if absInt(diff).GT(sdkmath.NewInt(int64(n))) {
					w.Vac[cl+"states_with_drift_beyond_one_unit_per_lock"]++
				}
			}
			if d == 1 && len(fs) > 0 && l.MultCL.Cmp(l.MultCLImpl) != 0 {
				// classification only (see knownCLSig): which of these does the recorded counter defect explain?
				impl, _ := w.stakeOracle(l, d, v, l.MultCLImpl, staked, n, sum)
				for i := range fs {
					explained := true
					for _, g := range impl {
						explained = explained && g.a != fs[i].a
					}
					if explained {
						fs[i].s = knownCLSig
						fs[i].d += fmt.Sprintf(" [the assertion holds for the multiplier %s e-18 that the same formula gives for the over-counted full-range liquidity %s e-18 (live positions: %s e-18)]", l.MultCLImpl, l.CLEver, l.CLLive)
					}
				}
			}
			for _, f := range fs {
				fail(f.a, f.s, f.d)
			}
		}
	}
	// the stored multiplier is the one the ledger derived from the pool at the last epoch
	if m := a.SuperfluidKeeper.GetOsmoEquivalentMultiplier(ctx, w.ShareDenom).BigInt(); m.Cmp(l.Mult) != 0 {
		fail("multiplier.refreshed-from-pool-at-epoch", fmt.Sprintf("refreshed=%v", l.JustRefreshed), fmt.Sprintf("stored multiplier %s e-18, pool had %s uosmo for %s shares at the last epoch => %s e-18", m, l.PoolOsmo, l.Shares, l.Mult))
	}
	// the same for the concentrated share: bond-denom amount underlying the pool's full-range liquidity / that liquidity
	if m := a.SuperfluidKeeper.GetOsmoEquivalentMultiplier(ctx, w.Denoms[1]).BigInt(); m.Cmp(l.MultCL) != 0 {
		sig, note := fmt.Sprintf("refreshed=%v", l.JustRefreshed), ""
		if m.Cmp(l.MultCLImpl) == 0 {
			sig = knownCLSig
			note = fmt.Sprintf(" [it is the multiplier the same formula gives for the over-counted liquidity %s e-18 = every full-range position ever written]", l.CLEver)
			w.Vac["cl_multiplier_from_overcounted_liquidity_observed"]++
		}
		fail("multiplier.concentrated-refreshed-from-live-full-range-liquidity-at-epoch", sig,
			fmt.Sprintf("stored multiplier of %s is %s e-18; the full-range positions existing at the last epoch sum to liquidity %s e-18, which at the price then in force gives %s e-18%s", w.Denoms[1], m, l.CLLive, l.MultCL, note))
	}
	// harness sanity: the ledger's pool balance is the pool's (gamm is not under test here)
	if pb := a.BankKeeper.GetBalance(ctx, w.PoolAddr, w.BondDenom).Amount; !pb.Equal(l.PoolOsmo) {
		panic(fmt.Sprintf("harness: ledger pool balance %s, bank says %s", l.PoolOsmo, pb))
	}

	// (4) reported OSMO supply is untouched by superfluid minting and burning
	sup := a.BankKeeper.GetSupplyWithOffset(ctx, w.BondDenom).Amount
	if expS := l.Supply0.Add(l.Minted); !sup.Equal(expS) {
		fail("supply.reported-supply-is-neutral", fmt.Sprintf("reported %s expected", signOf(sup.Sub(expS))),
			fmt.Sprintf("supply with offset %s, expected genesis %s + mint provisions %s = %s (difference %s)", sup, l.Supply0, l.Minted, expS, sup.Sub(expS)))
	}

	// (5) the locks themselves: owner, amount, duration, unlock end; nothing else is locked; owners'
	// shares are either liquid or in their locks (so nothing was paid out early)
	locked, lockedCL := map[string]sdkmath.Int{}, map[string]sdkmath.Int{}
	for _, o := range owners {
		locked[o], lockedCL[o] = sdkmath.ZeroInt(), sdkmath.ZeroInt()
	}
	for _, k := range l.Locks {
		lk, err := a.LockupKeeper.GetLockByID(ctx, k.ID)
		if err != nil {
			fail("locks.live-lock-resolves", "", fmt.Sprintf("lock %d: %v", k.ID, err))
			continue
		}
		end := time.Time{}
		if k.Unlocking {
			end = k.End
		}
		if lk.Owner != core.Acc(k.Owner).String() || len(lk.Coins) != 1 || lk.Coins[0].Denom != w.denomOf(k) || !lk.Coins[0].Amount.Equal(k.Amt) || lk.Duration != k.Dur || !lk.EndTime.Equal(end) {
			fail("locks.record-matches-history", "record", fmt.Sprintf("lock %d is %s owner=%s duration=%s end=%s; history says amount %s owner %s duration %s end %s", k.ID, lk.Coins, lk.Owner, lk.Duration, lk.EndTime, k.Amt, k.Owner, k.Dur, end))
		}
		switch k.D {
		case 1:
			lockedCL[k.Owner] = lockedCL[k.Owner].Add(k.Amt)
		case 0:
			locked[k.Owner] = locked[k.Owner].Add(k.Amt)
		}
		if k.SF != sfPlain && k.Unlocking && lk.EndTime.Before(k.UndelAt.Add(w.U)) {
			// unlock end precedes the end of the undelegation: the coins could leave early
			fail("withdraw.unlock-end-not-before-undelegation-end", "", fmt.Sprintf("lock %d unlocks at %s, undelegation matures at %s", k.ID, lk.EndTime, k.UndelAt.Add(w.U)))
		}
	}
	if all, err := a.LockupKeeper.GetPeriodLocks(ctx); err != nil || len(all) != len(l.Locks) {
		fail("locks.no-unknown-locks", "", fmt.Sprintf("%d locks in the module, %d in the history (%v)", len(all), len(l.Locks), err))
	}
	for _, o := range owners {
		bal := a.BankKeeper.GetBalance(ctx, core.Acc(o), w.ShareDenom).Amount
		if conv := l.Conv[ownerIdx(o)]; !bal.Add(locked[o]).Add(conv).Equal(w.Funds[o]) {
			fail("withdraw.owner-shares-liquid-plus-locked-constant", "owner "+o, fmt.Sprintf("owner %s: liquid %s + locked %s + converted to stake %s != %s", o, bal, locked[o], conv, w.Funds[o]))
		}
		// concentrated shares exist only inside locks
		if cb := a.BankKeeper.GetBalance(ctx, core.Acc(o), w.Denoms[1]).Amount; !cb.IsZero() {
			fail("locks.concentrated-shares-are-never-liquid", "owner "+o, fmt.Sprintf("owner %s holds %s liquid %s", o, cb, w.Denoms[1]))
		}
	}
	if mb := a.BankKeeper.GetBalance(ctx, a.AccountKeeper.GetModuleAddress("lockup"), w.Denoms[1]).Amount; !mb.Equal(lockedCL["A"].Add(lockedCL["B"])) {
		fail("locks.module-holds-exactly-the-locked-shares", "concentrated", fmt.Sprintf("lockup module holds %s %s, live locks sum %s", mb, w.Denoms[1], lockedCL["A"].Add(lockedCL["B"])))
	}
	if mb := a.BankKeeper.GetBalance(ctx, a.AccountKeeper.GetModuleAddress("lockup"), w.ShareDenom).Amount; !mb.Equal(locked["A"].Add(locked["B"])) {
		fail("locks.module-holds-exactly-the-locked-shares", "", fmt.Sprintf("lockup module holds %s, live locks sum %s", mb, locked["A"].Add(locked["B"])))
	}

	// (6) the owners' concentrated positions: exactly the ledger's, each with the recorded liquidity; a position
	// whose lock is live points to that lock
	for _, p := range l.Positions {
		pos, err := a.ConcentratedLiquidityKeeper.GetPosition(ctx, p.ID)
		if err != nil || pos.Address != core.Acc(p.Owner).String() || pos.Liquidity.BigInt().Cmp(p.Liq) != 0 {
			fail("positions.record-matches-history", "record", fmt.Sprintf("position %d: %+v (%v); history says owner %s liquidity %s e-18", p.ID, pos, err, p.Owner, p.Liq))
			continue
		}
		if i := l.find(p.Lock); p.Lock != 0 && i >= 0 {
			if id, err := a.ConcentratedLiquidityKeeper.GetLockIdFromPositionId(ctx, p.ID); err != nil || id != p.Lock {
				fail("positions.locked-position-points-to-its-lock", "", fmt.Sprintf("position %d was created with lock %d (live); the module says lock %d (%v)", p.ID, p.Lock, id, err))
			}
		}
	}
	for _, o := range owners {
		n := 0
		for _, p := range l.Positions {
			if p.Owner == o {
				n++
			}
		}
		if ps, err := a.ConcentratedLiquidityKeeper.GetUserPositions(ctx, core.Acc(o), w.CLPoolID); err != nil || len(ps) != n {
			fail("positions.no-unknown-positions", "owner "+o, fmt.Sprintf("owner %s has %d positions in the pool, %d in the history (%v)", o, len(ps), n, err))
		}
	}

	// (7) UnbondConvertAndStake: each owner's native delegation is exactly the OSMO the conversions reported
	for oi, o := range owners {
		for v := range w.Env.Vals {
			val, err := a.StakingKeeper.GetValidator(ctx, w.Env.Vals[v])
			if err != nil {
				continue // reported under (3)
			}
			if got := w.delegationOf(ctx, core.Acc(o), v, val); !got.Equal(l.Native[oi][v]) {
				fail("convert.owner-native-delegation-is-the-converted-osmo", "owner "+o, fmt.Sprintf("owner %s delegates %s to val%d natively; the accepted conversions reported %s", o, got, v, l.Native[oi][v]))
			}
		}
	}
}

func describe(l *Ledger) string {
	var b strings.Builder
	for _, k := range l.Locks {
		st := []string{"plain", "delegated", "undelegating"}[k.SF]
		if k.D == 1 {
			st = fmt.Sprintf("concentrated(position %d) %s", k.Pos, st)
		}
		if k.D == 2 {
			st = k.Denom + " (unpooled) " + st
		}
		fmt.Fprintf(&b, " [lock %d %s %s %s val%d", k.ID, k.Owner, k.Amt, st, k.Val)
		if k.SF == sfUndelegating {
			fmt.Fprintf(&b, " undel@%s", k.UndelAt.Format("15:04:05"))
		}
		if k.Unlocking {
			fmt.Fprintf(&b, " unlocking->%s", k.End.Format("15:04:05"))
		}
		b.WriteString("]")
	}
	for _, p := range l.Positions {
		fmt.Fprintf(&b, " [position %d %s liquidity %s e-18 lock %d]", p.ID, p.Owner, p.Liq, p.Lock)
	}
	return fmt.Sprintf("h=%d t=%s epoch=%d mult=%s mult(concentrated)=%s minted=%s refreshed=%v%s", l.Height, l.Now.Format("15:04:05"), l.EpNum, l.Mult, l.MultCL, l.Minted, l.JustRefreshed, b.String())
}

// classSig gives every violation a class signature: the explorer's default (seed + op list) would make
// every failing path a distinct finding and let one root cause fill the per-shard violation list.
func classSig(fail func(a, s, d string)) func(a, s, d string) {
	return func(a, s, d string) {
		if s == "" {
			s = "any"
		}
		fail(a, s, d)
	}
}
