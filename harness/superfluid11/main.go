// Command superfluid11 is the ledger explorer for property C11 (superfluid staking: stake tracks
// locks, supply is neutral, locks stay bonded). See DESIGN.md §5 C11.
package main

import (
	"encoding/json"
	"flag"
	"fmt"
	"os"
	"strings"

	sdk "github.com/cosmos/cosmos-sdk/types"

	"github.com/osmosis-labs/osmosis/v31/zzverif/core"
)

type seedPlan struct {
	Name  string `json:"seed"`
	Depth int    `json:"depth"`
	// Alpha, when set, replaces the plan's alphabet for this seed (the seeds added for the concentrated
	// positions and UnbondConvertAndStake; the four original runs keep the original alphabet, so their counts
	// are what they were)
	Alpha *Alphabet `json:"alphabet,omitempty"`
}

type plan struct {
	Alpha Alphabet
	Seeds []seedPlan
}

func planFor(tier string) plan {
	if tier == "thorough" {
		return plan{Alpha: Alphabet{MaxLocks: 4, FullUndel: true, Probes: true},
			Seeds: []seedPlan{{"mixed", 4, nil}, {"undelegating", 4, nil}, {"init", 5, nil}, {"delegated", 5, nil}, {"long", 4, nil},
				{"cl-delegated", 4, &Alphabet{MaxLocks: 3, FullUndel: true, Probes: true, NoShareLocks: true, CL: true, CLPartial: true}},
				{"mixed-cl", 3, &Alphabet{MaxLocks: 6, FullUndel: true, Probes: true, CL: true, CLPartial: true, UCS: true, UCSBothVals: true, Unpool: 2}},
				{"converted", 5, &Alphabet{MaxLocks: 4, NoShareLocks: true, UCS: true, UCSBothVals: true, Unpool: 2}}}}
	}
	return plan{Alpha: Alphabet{MaxLocks: 3, FullUndel: false, Probes: false},
		Seeds: []seedPlan{{"init", 4, nil}, {"delegated", 3, nil}, {"undelegating", 3, nil}, {"mixed", 3, nil}, {"long", 2, nil},
			{"cl-delegated", 3, &Alphabet{MaxLocks: 3, NoShareLocks: true, CL: true}},
			{"mixed-cl", 3, &Alphabet{MaxLocks: 5, NoShareLocks: true, CL: true, UCS: true, Unpool: 1}}}}
}

// seedOps drives the world from genesis to a named mid-life state through the same Apply path as the
// explorer, so seeds are real reachable states. Every seed ends at cfg.StartHeight (119): the first
// explored block boundary ends block 119 (no lockup sweep), the second ends block 120 (sweep).
// init / delegated / undelegating / mixed are the original runs (original alphabet, unchanged counts);
// cl-delegated / mixed-cl / converted were added for the other ways x/superfluid creates, changes and ends
// delegations: concentrated full-range positions, UnbondConvertAndStake, UnPoolWhitelistedPool.
func seedOps(name string, cfg Config) []Op {
	h := cfg.StartHeight
	switch name {
	case "init":
		return []Op{{K: "ff", X: h}}
	case "delegated":
		// (S1) A delegated to val0 in one message, B locked then delegated to val1, a price move, one epoch
		return []Op{{K: "lockdel", A: "A", V: 0}, {K: "lock", A: "B"}, {K: "del", P: 1, V: 1}, {K: "swap", X: 0}, {K: "ff", X: h - 1}, {K: "epoch"}}
	case "undelegating":
		// (S2) B's lock undelegating (unstaking marker present, one third of the unbonding period elapsed)
		return []Op{{K: "lockdel", A: "A", V: 0}, {K: "lockdel", A: "B", V: 1}, {K: "swap", X: 1}, {K: "ff", X: h - 1}, {K: "undel", P: 1}, {K: "epoch"}}
	case "mixed":
		// (S3) two owners on one intermediary account, a split-off lock undelegating and unlocking
		return []Op{{K: "lockdel", A: "A", V: 0}, {K: "lockdel", A: "B", V: 0}, {K: "undelunbond", P: 0, X: 1, Y: 3}, {K: "ff", X: h - 1}, {K: "swap", X: 0}, {K: "epoch"}}
	case "long":
		// (S7) B's lock is twice as long as the unbonding period and delegated to val1, A's ordinary lock to val0; one epoch
		return []Op{{K: "lockdel", A: "A", V: 0}, {K: "lock", A: "B", X: 2}, {K: "del", P: 1, V: 1}, {K: "ff", X: h - 1}, {K: "epoch"}}
	case "cl-delegated":
		// (S4) concentrated shares only: A's full-range position delegated to val0, B's to val1, a price move on the
		// concentrated pool, one epoch
		return []Op{{K: "clcreate", A: "A", V: 0}, {K: "clcreate", A: "B", V: 1}, {K: "clswap", X: 0}, {K: "ff", X: h - 1}, {K: "epoch"}}
	case "mixed-cl":
		// (S5) both denominations on val0: A's balancer lock delegated with a split-off part undelegating and
		// unlocking, B's balancer lock plain, B's concentrated position delegated; price moves on both pools, one epoch
		return []Op{{K: "lockdel", A: "A", V: 0}, {K: "lock", A: "B"}, {K: "undelunbond", P: 0, X: 1, Y: 3}, {K: "clcreate", A: "B", V: 0},
			{K: "ff", X: h - 1}, {K: "swap", X: 0}, {K: "clswap", X: 1}, {K: "epoch"}}
	case "converted":
		// (S6) a conversion has already happened: B's delegated lock was converted to native stake with val0 while A's
		// lock stays delegated through the same intermediary account; A also holds an undelegating lock
		return []Op{{K: "lockdel", A: "A", V: 0}, {K: "lockdel", A: "B", V: 0}, {K: "ff", X: h - 1}, {K: "swap", X: 1}, {K: "epoch"}, {K: "ucs", P: 1, V: 0}}
	}
	panic("unknown seed " + name)
}

func buildSeed(w *World, name string) (sdk.Context, *Ledger, error) {
	ctx, _ := w.Env.Ctx.CacheContext()
	l := w.NewLedger()
	var ferr error
	for _, op := range seedOps(name, w.Cfg) {
		var out string
		ctx, out = w.Apply(ctx, l, op, func(a, s, d string) {
			if ferr == nil {
				ferr = fmt.Errorf("%s: %s", a, d)
			}
		})
		if out != "ok" {
			return ctx, l, fmt.Errorf("seed %s: op %s: %s", name, op, out)
		}
	}
	if l.Height != w.Cfg.StartHeight {
		return ctx, l, fmt.Errorf("seed %s ends at height %d", name, l.Height)
	}
	return ctx, l, ferr
}

type replayCfg struct {
	Config Config `json:"config"`
	Seed   string `json:"seed_state"`
	Ops    []Op   `json:"ops"`
}

func runReplay(f *core.Flags, r *core.Result) {
	var rp replayCfg
	rp.Config = DefaultConfig() // artefacts written before the concentrated pool existed carry no settings for it
	core.ReadReplay(f.Replay, &rp)
	w := NewWorld(rp.Config)
	w.Vac, w.Extra = r.Vacuity, r.Extra
	defer w.Env.Close()
	fail := func(a, s, d string) {
		r.AddViolation(core.Violation{Property: f.Prop, Assertion: a, Signature: s, Detail: d, Replay: rp})
	}
	ctx, l, err := buildSeed(w, rp.Seed)
	if err != nil {
		// a seed that itself violates the property (mutants) is reported as such
		fail("seed.builds-cleanly", rp.Seed, err.Error())
	}
	fmt.Printf("seed %s: %s\n", rp.Seed, describe(l))
	w.Check(ctx, l, fail)
	r.States++
	for i, op := range rp.Ops {
		var out string
		ctx, out = w.Apply(ctx, l, op, fail)
		fmt.Printf("step %d %s -> %s\n   %s\n", i, op, out, describe(l))
		for v := range w.Env.Vals {
			d, _ := w.delegated(ctx, 0, v)
			n, sum := l.connected(0, v)
			fmt.Printf("   val%d: staked %s, %d connected locks sum %s, value %s\n", v, d, n, sum, w.Value(l.Mult, sum))
			if l.Acct[1][v] {
				d, _ := w.delegated(ctx, 1, v)
				n, sum := l.connected(1, v)
				fmt.Printf("   val%d concentrated: staked %s, %d connected locks sum %s, value %s (multiplier %s; for the over-counted liquidity %s: value %s)\n", v, d, n, sum, w.Value(l.MultCL, sum), l.MultCL, l.MultCLImpl, w.Value(l.MultCLImpl, sum))
			}
		}
		fmt.Printf("   supply with offset %s\n", w.App.BankKeeper.GetSupplyWithOffset(ctx, w.BondDenom).Amount)
		w.Check(ctx, l, fail)
		r.Transitions++
		r.States++
	}
}

func addExtra(r *core.Result, key string, n int64) {
	v, _ := r.Extra[key].(float64)
	r.Extra[key] = v + float64(n)
}

func main() {
	depth := flag.Int("d", 0, "override the depth of every seed (development aid)")
	only := flag.String("seeds", "", "comma-separated subset of seeds (development aid)")
	f := core.ParseFlags()
	r := core.NewResult(f.Prop)
	r.Extra["max_drift"] = float64(0)
	if f.Replay != "" {
		runReplay(f, r)
		core.Finish(f, r)
		return
	}
	pl := planFor(f.Tier)
	cfg := DefaultConfig()
	w := NewWorld(cfg)
	w.Vac, w.Extra = r.Vacuity, r.Extra
	defer w.Env.Close()
	scenarioFor := func(al *Alphabet) *core.Scenario[Op, *Ledger] {
		return &core.Scenario[Op, *Ledger]{
			App: w.App, Stores: nil, Config: cfg,
			Enabled:   w.Enabled(al),
			Apply:     w.Apply,
			Check:     w.Check,
			LedgerKey: func(l *Ledger) []byte { return l.digest() },
		}
	}
	allSeen := core.NewSeen()
	runs := map[string]interface{}{}
	minDepth := 0
	// pass 0 explores every seed to depth 2 only, so that a violation is first met (and therefore
	// reported) with its shortest history; pass 1 is the run proper
	for pass := 0; pass < 2; pass++ {
		for si, sp := range pl.Seeds {
			if *only != "" && !strings.Contains(","+*only+",", ","+sp.Name+",") {
				continue
			}
			if *depth > 0 {
				sp.Depth = *depth
			}
			if pass == 0 {
				if sp.Depth <= 2 {
					continue
				}
				sp.Depth = 2
			}
			ctx, l, err := buildSeed(w, sp.Name)
			if err != nil {
				// on the unchanged tree every seed builds; under a mutant a seed may already break the property
				r.AddViolation(core.Violation{Property: f.Prop, Assertion: "seed.builds-cleanly", Signature: sp.Name, Detail: err.Error(),
					Replay: replayCfg{Config: cfg, Seed: sp.Name}})
				continue
			}
			al := &pl.Alpha
			if sp.Alpha != nil {
				al = sp.Alpha
			}
			ex := core.NewExplorer(scenarioFor(al), f, r)
			before, beforeS, beforeT := r.Transitions, r.States, r.Traces
			ex.Run(sp.Name, ctx, l, sp.Depth)
			// per-seed totals over both passes (bin/run adds the shards up)
			addExtra(r, "sum_transitions_"+sp.Name, r.Transitions-before)
			addExtra(r, "sum_states_"+sp.Name, r.States-beforeS)
			addExtra(r, "sum_traces_"+sp.Name, r.Traces-beforeT)
			if pass == 0 {
				continue
			}
			if minDepth == 0 || sp.Depth < minDepth {
				minDepth = sp.Depth
			}
			abz, _ := json.Marshal(al)
			runs[fmt.Sprintf("%s/depth%d", sp.Name, sp.Depth)] = map[string]interface{}{"seed_ops": fmt.Sprint(seedOps(sp.Name, cfg)), "seed_state": describe(l), "alphabet": string(abz), "transitions_this_shard": r.Transitions - before, "completed_this_shard": r.Exhaustive}
			for k := range ex.Seen {
				var h [32]byte
				copy(h[:], k[:])
				h[31] ^= byte(si + 1)
				allSeen.Add(h)
			}
		}
	}
	if r.Exhaustive {
		r.DepthCompleted = minDepth
	}
	allSeen.Dump(f.HashOut)
	bz, _ := json.Marshal(pl.Alpha)
	r.Extra["alphabet"] = string(bz)
	r.Extra["config"] = cfg
	if f.Shard == 0 {
		r.Extra["runs"] = runs
	}
	r.Outcomes = int64(len(r.Rejected) + 1)
	if os.Getenv("VERIF_DEBUG") != "" {
		fmt.Fprintf(os.Stderr, "vacuity: %v\n", r.Vacuity)
	}
	core.Finish(f, r)
}
