package main

import (
	"errors"
	"fmt"
	"math/big"
	"sort"
	"strings"
	"time"

	sdk "github.com/cosmos/cosmos-sdk/types"

	"github.com/osmosis-labs/osmosis/osmomath"
	twapclient "github.com/osmosis-labs/osmosis/v31/x/twap/client"
	"github.com/osmosis-labs/osmosis/v31/x/twap/client/queryproto"
	twaptypes "github.com/osmosis-labs/osmosis/v31/x/twap/types"

	"github.com/osmosis-labs/osmosis/v31/zzverif/core"
)

// ---------------------------------------------------------------------------------------------
// Tolerances (all derived from the Dec operations of x/twap; see the manifest text)
//
// Arithmetic: the recorded prices are Dec values; accumulator += price * dt_ms (Dec.MulInt64, exact),
// sums exact, interpolation exact, difference exact; one Dec.QuoInt64 (truncation towards zero) at
// the end. Hence  impl == floor(10^18 * sum(p_i dt_i) / sum dt) / 10^18  EXACTLY; the oracle demands
// equality (so 0 <= ref - impl < 1e-18; the ratio (ref-impl)/1e-18 is reported).
//
// Geometric: per record log2(p) = Dec(LogBase2(p)): documented |error| <= 1e-32, then truncation to
// 18 decimals (< 1e-18); products with dt and sums exact; mean by QuoInt64 (< 1e-18): the exponent is
// off by < 2e-18 + 1e-32, i.e. the power by a factor within 1 +- ln2*(2e-18+1e-32) = 1 +- 1.3863e-18;
// Exp2: documented factor 1 +- 1e-18; together < 2.4e-18 relative (relGeo). Then optionally 1/x at 36
// decimals (<= 1e-36 absolute, < 1e-30 for the moderate prices used), truncation to Dec (< 1e-18):
// absGeo = 1e-18 + 1e-30. Finally SigFigRound(., 10^8): to the grid 10^-(8+k) (k leading zeros after
// the decimal point): half a unit. The oracle computes y = 2^mean(log2 p) with 720-bit floats and
// requires  refSigFig(floor(y(1-relGeo)-absGeo)) <= impl <= refSigFig(ceil(y(1+relGeo)+absGeo));
// when both ends round to the same grid point this is an equality test. Reported: the share of
// equality tests and max |impl-y| / (unit/2 + y*relGeo + absGeo).
// ---------------------------------------------------------------------------------------------

var (
	relGeo = func() *big.Float { f, _ := newF().SetString("2.4e-18"); return f }()
	absGeo = func() *big.Float { f, _ := newF().SetString("1.000000000001e-18"); return f }()
)

const flagMsg = "twap: error in pool spot price occurred"

type qres struct {
	Class string   // ok | flag | too-old | future | start-after-end | other | panic
	Val   *big.Int // scaled 1e18; set for ok / flag
	Msg   string
}

func (q qres) answered() bool { return q.Class == "ok" || q.Class == "flag" }
func (q qres) String() string {
	if q.Val != nil {
		return fmt.Sprintf("%s:%s", q.Class, dec18(q.Val))
	}
	return fmt.Sprintf("%s(%s)", q.Class, q.Msg)
}

func dec18(i *big.Int) string {
	if i == nil {
		return "nil"
	}
	return osmomath.NewDecFromBigIntWithPrec(i, 18).String()
}

func classify(v osmomath.Dec, err error, perr error) qres {
	if perr != nil {
		return qres{Class: "panic", Msg: perr.Error()}
	}
	val := func() *big.Int {
		if v.IsNil() {
			return nil
		}
		return new(big.Int).Set(v.BigInt())
	}
	if err == nil {
		return qres{Class: "ok", Val: val()}
	}
	var fut twaptypes.EndTimeInFutureError
	var sae twaptypes.StartTimeAfterEndTimeError
	switch {
	case strings.HasPrefix(err.Error(), flagMsg):
		return qres{Class: "flag", Val: val(), Msg: "spot price error flag"}
	case errors.As(err, &fut):
		return qres{Class: "future", Msg: "end time in future"}
	case errors.As(err, &sae):
		return qres{Class: "start-after-end", Msg: "start after end"}
	case strings.Contains(err.Error(), "too old"):
		return qres{Class: "too-old", Msg: "time too old"}
	}
	return qres{Class: "other", Msg: err.Error()}
}

func (w *World) pair(pi, d int) (base, quote string) {
	p := w.Pairs[pi]
	if d == 0 {
		return p.A1, p.A0
	}
	return p.A0, p.A1
}

// qt maps a canonical millisecond m of the reference to the query time handed to the module. Block (and
// therefore record) times carry a sub-millisecond part; the module looks records up by exact time but
// measures durations in whole milliseconds (CanonicalTimeMs). A query "at millisecond m" is therefore placed
// at the END of that millisecond (m + 999999 ns), so that every record whose canonical time is <= m is at or
// before it; the current millisecond is represented by the block time itself (anything later is in the future).
func qt(ctx sdk.Context, m int64) time.Time {
	now := ctx.BlockTime()
	if m == ms(now) {
		return now
	}
	return tms(m).Add(time.Millisecond - time.Nanosecond)
}

// query evaluates one public keeper query. geo: geometric; d: quote = canonical asset d.
func (w *World) query(ctx sdk.Context, geo bool, pi, d int, s, e int64) qres {
	base, quote := w.pair(pi, d)
	var v osmomath.Dec
	var err error
	perr := core.Try(func() error {
		if geo {
			v, err = w.App.TwapKeeper.GetGeometricTwap(ctx, w.pid(pi), base, quote, qt(ctx, s), qt(ctx, e))
		} else {
			v, err = w.App.TwapKeeper.GetArithmeticTwap(ctx, w.pid(pi), base, quote, qt(ctx, s), qt(ctx, e))
		}
		return nil
	})
	return classify(v, err, perr)
}

// queryNowGRPC evaluates the to-now query through the gRPC query wrapper on the live branch.
func (w *World) queryNowGRPC(ctx sdk.Context, geo bool, pi, d int, s int64, viaEndNil bool) qres {
	base, quote := w.pair(pi, d)
	q := twapclient.Querier{K: *w.App.TwapKeeper}
	var v osmomath.Dec
	var err error
	perr := core.Try(func() error {
		switch {
		case geo && viaEndNil:
			r, e := q.GeometricTwap(ctx, queryproto.GeometricTwapRequest{PoolId: w.pid(pi), BaseAsset: base, QuoteAsset: quote, StartTime: qt(ctx, s)})
			if r != nil {
				v = r.GeometricTwap
			}
			err = e
		case geo:
			r, e := q.GeometricTwapToNow(ctx, queryproto.GeometricTwapToNowRequest{PoolId: w.pid(pi), BaseAsset: base, QuoteAsset: quote, StartTime: qt(ctx, s)})
			if r != nil {
				v = r.GeometricTwap
			}
			err = e
		case viaEndNil:
			r, e := q.ArithmeticTwap(ctx, queryproto.ArithmeticTwapRequest{PoolId: w.pid(pi), BaseAsset: base, QuoteAsset: quote, StartTime: qt(ctx, s)})
			if r != nil {
				v = r.ArithmeticTwap
			}
			err = e
		default:
			r, e := q.ArithmeticTwapToNow(ctx, queryproto.ArithmeticTwapToNowRequest{PoolId: w.pid(pi), BaseAsset: base, QuoteAsset: quote, StartTime: qt(ctx, s)})
			if r != nil {
				v = r.ArithmeticTwap
			}
			err = e
		}
		return nil
	})
	return classify(v, err, perr)
}

// points returns the query times for a pool: observation times, +-1 ms, midpoints, around now and
// the pruning cut-off, and one well before the first observation.
func points(l *Ledger, pi int, now int64) []int64 {
	set := map[int64]struct{}{}
	add := func(t int64) { set[t] = struct{}{} }
	segs := l.H[pi].Segs
	for i, s := range segs {
		add(s.T - 1)
		add(s.T)
		add(s.T + 1)
		if i+1 < len(segs) {
			add((s.T + segs[i+1].T) / 2)
		}
	}
	add((segs[len(segs)-1].T + now) / 2)
	add(now - 1)
	add(now)
	add(now + 1)
	if l.L > 0 {
		add(l.L - 1)
		add(l.L)
		add(l.L + 1)
	}
	out := make([]int64, 0, len(set))
	for t := range set {
		out = append(out, t)
	}
	sort.Slice(out, func(i, j int) bool { return out[i] < out[j] })
	return out
}

// refAns is what the statement requires of one interval.
type refAns struct {
	Refuse   string // "" | start-after-end | future | before-first
	Required bool   // start is at or after every pruning cut-off so far: must be answered
	InWindow bool   // start >= now - keep period (the statement's retention window)
	Flagged  bool   // an error observation is in force somewhere in [s, e]
	N        int    // observations in force
	Between  bool   // s is strictly between observations
	First    bool   // the observation in force at s is the pool's first one (creation block)
	T0       int64  // time of the observation in force at s
	Zero     bool
	Sum      [2]*big.Int // sum p_i * overlap_i (scaled 1e18)
	Dur      int64
	Min, Max [2]*big.Int
	E        [2]*big.Float // time-weighted mean of log2 P[d]
	Rho      *big.Rat      // max |P0*P1 - 1| over the observations in force
}

func (w *World) reference(l *Ledger, pi int, s, e, now int64, values bool) refAns {
	segs := l.H[pi].Segs
	var r refAns
	switch {
	case s > e:
		r.Refuse = "start-after-end"
		return r
	case e > now:
		r.Refuse = "future"
		return r
	case s < segs[0].T:
		r.Refuse = "before-first"
		return r
	}
	r.Required = s >= l.L
	r.InWindow = s >= now-w.Cfg.KeepMs
	r.Zero = s == e
	r.Dur = e - s
	i0 := sort.Search(len(segs), func(i int) bool { return segs[i].T > s }) - 1
	r.Between = segs[i0].T != s
	r.First = i0 == 0
	r.T0 = segs[i0].T
	// closed interval for the flag
	for i := i0; i < len(segs) && segs[i].T <= e; i++ {
		if segs[i].Err {
			r.Flagged = true
		}
	}
	r.Rho = new(big.Rat)
	for d := 0; d < 2; d++ {
		r.Sum[d] = new(big.Int)
	}
	var esum [2]*big.Float
	if values {
		esum = [2]*big.Float{newF(), newF()}
	}
	one36 := new(big.Int).Mul(ten18, ten18)
	for i := i0; i < len(segs); i++ {
		from, to := segs[i].T, now+1
		if i+1 < len(segs) {
			to = segs[i+1].T
		}
		if from < s {
			from = s
		}
		if to > e {
			to = e
		}
		if i > i0 && segs[i].T >= e {
			break
		}
		ov := to - from
		if r.Zero {
			ov = 0
		}
		r.N++
		for d := 0; d < 2; d++ {
			p := segs[i].P[d]
			r.Sum[d].Add(r.Sum[d], new(big.Int).Mul(p, big.NewInt(ov)))
			if r.Min[d] == nil || p.Cmp(r.Min[d]) < 0 {
				r.Min[d] = p
			}
			if r.Max[d] == nil || p.Cmp(r.Max[d]) > 0 {
				r.Max[d] = p
			}
			if values && !r.Flagged && p.Sign() > 0 && ov > 0 {
				esum[d].Add(esum[d], fMul(refLog2Price(p), fInt(ov)))
			}
		}
		if !segs[i].Err {
			prod := new(big.Int).Mul(segs[i].P[0], segs[i].P[1])
			rho := new(big.Rat).SetFrac(new(big.Int).Abs(prod.Sub(prod, one36)), one36)
			if rho.Cmp(r.Rho) > 0 {
				r.Rho = rho
			}
		}
	}
	if values && !r.Flagged && !r.Zero {
		for d := 0; d < 2; d++ {
			r.E[d] = fQuo(esum[d], fInt(r.Dur))
		}
	}
	return r
}

// geoBracket returns the admissible range (scaled 1e18, after significant-figure rounding) for a
// geometric twap whose exact value is y, with an extra relative allowance.
func geoBracket(y *big.Float, extra *big.Float) (lo, hi *big.Int) {
	rel := fAdd(relGeo, extra)
	l := fSub(fMul(y, fSub(fInt(1), rel)), absGeo)
	h := fAdd(fMul(y, fAdd(fInt(1), rel)), absGeo)
	lo18 := new(big.Int)
	if l.Sign() > 0 {
		lo18 = floorF(fMul(l, ten18Flt))
	}
	hi18 := ceilF(fMul(h, ten18Flt))
	return refSigFig(lo18, -1), refSigFig(hi18, +1)
}

func geoRatio(v *big.Int, y *big.Float, extra *big.Float) float64 {
	vf := fQuo(fBig(v), ten18Flt)
	diff := fSub(vf, y)
	diff.Abs(diff)
	u, _ := new(big.Float).SetPrec(refPrec).SetRat(sigUnit(v)).Float64()
	yf, _ := y.Float64()
	ex, _ := extra.Float64()
	bound := u/2 + yf*(2.4e-18+ex) + 1.000000000001e-18
	df, _ := diff.Float64()
	return df / bound
}

func (w *World) maxExtra(key string, v float64) {
	cur, _ := w.R.Extra[key].(float64)
	if v > cur {
		w.R.Extra[key] = v
	}
}

func (w *World) sumExtra(key string, v float64) {
	cur, _ := w.R.Extra[key].(float64)
	w.R.Extra[key] = cur + v
}

func (w *World) describe(l *Ledger, pi int, now int64) string {
	var b strings.Builder
	g := ms(core.GenesisTime)
	pp := w.Pairs[pi]
	kind := w.Pools[pp.Pool].Kind
	if n := w.Pools[pp.Pool].NPairs; n > 1 {
		kind = fmt.Sprintf("%s, assets %s, pair %d of %d in the module's order", kind, strings.Join(w.Pools[pp.Pool].Denoms, ","), pp.Ord+1, n)
	}
	fmt.Fprintf(&b, "pool %d (%s) %s/%s; end-of-block observations [ms since genesis: P0 (quote %s), P1 (quote %s)]:", w.pid(pi), kind, pp.A0, pp.A1, pp.A0, pp.A1)
	for _, s := range l.H[pi].Segs {
		if s.Err {
			fmt.Fprintf(&b, " [%d: ERROR]", s.T-g)
		} else {
			fmt.Fprintf(&b, " [%d: %s, %s]", s.T-g, dec18(s.P[0]), dec18(s.P[1]))
		}
	}
	fmt.Fprintf(&b, "; now=%d", now-g)
	if l.L > 0 {
		fmt.Fprintf(&b, "; pruning cut-off=%d (keep %d ms, %d records/block)", l.L-g, w.Cfg.KeepMs, w.Cfg.PruneLimit)
	}
	return b.String()
}

func posClass(l *Ledger, pi int, t, now int64) string {
	segs := l.H[pi].Segs
	switch {
	case t > now:
		return "future"
	case t == now:
		return "now"
	case t < segs[0].T:
		return "before-first"
	}
	for _, s := range segs {
		if s.T == t {
			return "on-record"
		}
	}
	if t > segs[len(segs)-1].T {
		return "after-last"
	}
	return "between"
}

// Check is the state oracle.
func (w *World) Check(ctx sdk.Context, l *Ledger, fail func(a, s, d string)) {
	now := ms(ctx.BlockTime())
	g := ms(core.GenesisTime)
	vac := w.R.Vacuity
	key := w.App.GetKVStoreKey()[twaptypes.StoreKey]
	fctx := flatContext(ctx, key)

	// pruning differential: the same queries immediately before and after one pruning step (this
	// block has no pool changes yet, so the module's EndBlock here is exactly one pruning step)
	var pctx sdk.Context
	pruning := w.App.TwapKeeper.GetPruningState(ctx).IsPruning
	if pruning {
		c1, _ := ctx.CacheContext()
		before := w.countRecords(c1)
		w.App.TwapKeeper.EndBlock(c1)
		after := w.countRecords(c1)
		pctx = flatContext(c1, key)
		vac["prune_differential_states"]++
		if after < before {
			vac["prune_differential_states_with_deletion"]++
		}
		if after < before && l.PassBlocks >= 1 {
			vac["prune_differential_on_resumed_pass"]++
		}
	}

	for pi := range w.Pairs {
		pts := points(l, pi, now)
		kind := w.Pairs[pi].Label
		nonFirst := w.nonFirstOfMulti(pi)
		type pr struct{ s, e int64 }
		var pairs []pr
		for i, s := range pts {
			for _, e := range pts[i:] {
				pairs = append(pairs, pr{s, e})
			}
			if i > 0 {
				pairs = append(pairs, pr{s, pts[i-1]}) // start after end
			}
		}
		for _, p := range pairs {
			s, e := p.s, p.e
			ref := w.reference(l, pi, s, e, now, true)
			sc, ec := posClass(l, pi, s, now), posClass(l, pi, e, now)
			iv := fmt.Sprintf("[%d,%d]", s-g, e-g)
			var res [2][2]qres // [geo][d]
			for gi := 0; gi < 2; gi++ {
				for d := 0; d < 2; d++ {
					res[gi][d] = w.query(fctx, gi == 1, pi, d, s, e)
				}
			}
			w.sumExtra("sum_queries", 4)
			for gi := 0; gi < 2; gi++ {
				kname := []string{"arithmetic", "geometric"}[gi]
				for d := 0; d < 2; d++ {
					q := res[gi][d]
					sig := fmt.Sprintf("%s/%s/quote%d/start:%s/end:%s", kind, kname, d, sc, ec)
					det := func(msg string) string {
						return fmt.Sprintf("%s %s twap (quote=asset%d) over %s: %s; got %s. %s", kind, kname, d, iv, msg, q, w.describe(l, pi, now))
					}
					if q.Class == "panic" || q.Class == "other" {
						if ref.Refuse == "" && !ref.Required {
							// older than a pruning cut-off: the statement allows a refusal there and says nothing about its form
							vac["older_than_cutoff_"+q.Class+"(not covered by the statement)"]++
							if _, ok := w.R.Extra["sample_panic_outside_window"]; !ok && q.Class == "panic" {
								w.R.Extra["sample_panic_outside_window"] = det("interval older than the pruning cut-off: the keeper panics instead of refusing (pruning interrupted, an older record survives)")
							}
							continue
						}
						fail("query.no-panic-no-unknown-error", sig, det("unexpected failure"))
						continue
					}
					if ref.Refuse != "" {
						if q.answered() {
							fail("refuse."+ref.Refuse, sig, det("must be refused ("+ref.Refuse+")"))
						} else {
							vac["refused_"+ref.Refuse]++
						}
						continue
					}
					if !ref.Required {
						// older than a pruning cut-off: may be refused; an answer is not covered by the statement
						if !q.answered() {
							vac["refused_older_than_cutoff"]++
						} else if w.matches(q, ref, gi, d) {
							vac["older_than_cutoff_answered_correctly"]++
						} else {
							vac["older_than_cutoff_answered_differently(not covered by the statement)"]++
							if _, ok := w.R.Extra["sample_stale_answer_outside_window"]; !ok && gi == 0 && !ref.Flagged && q.Class == "ok" {
								w.R.Extra["sample_stale_answer_outside_window"] = det("interval older than the pruning cut-off answered from an older surviving record (pruning interrupted)")
							}
						}
						continue
					}
					if !q.answered() {
						fail("answer.inside-kept-history", sig, det("interval starts at or after every pruning cut-off and after the first record, must be answered"))
						continue
					}
					if l.L > 0 {
						vac["answered_after_pruning_started"]++
						if ref.InWindow {
							vac["answered_in_retention_window_after_pruning_started"]++
						}
						if nonFirst && ref.InWindow {
							vac["multi_asset_pool_non_first_pair_queried_after_prune"]++
							// the case "keep the newest record older than the cut-off" exists for: the interval starts inside
							// the window, the price in force at its start was recorded before the cut-off
							if ref.T0 < l.L {
								vac["multi_asset_pool_non_first_pair_answered_from_newest_record_older_than_cutoff"]++
								if !pruning {
									vac["multi_asset_pool_non_first_pair_answered_from_newest_record_older_than_cutoff_after_completed_pass"]++
								}
							}
						}
					}
					// error flag
					if ref.Flagged && q.Class != "flag" {
						fail("flag.missing", sig, det("an error observation is in force inside the interval but the answer is not flagged"))
						continue
					}
					if !ref.Flagged && q.Class == "flag" {
						if w.Cfg.SameBlockFund && w.Pairs[pi].Pool == 1 && ref.First {
							// The statement only says error => flagged. Observed and reported, not a violation: the record
							// written when the pool was created (before its first position, same block) saw an error; the
							// end-of-block rewrite keeps LastErrorTime == record time, which getInterpolatedRecord reads as
							// "this record is an error record".
							vac["flagged_without_end_of_block_error_after_same_block_creation(not covered by the statement)"]++
							if _, ok := w.R.Extra["sample_flag_without_end_of_block_error"]; !ok {
								w.R.Extra["sample_flag_without_end_of_block_error"] = det("flagged although no end-of-block spot price errored (CL pool created and funded in the same block)")
							}
						} else {
							fail("flag.spurious", sig, det("no error observation is in force inside the interval but the answer is flagged"))
							continue
						}
					}
					if ref.Flagged {
						vac["error_interval_flagged"]++
						continue
					}
					vac["clean_interval_not_flagged"]++
					if q.Val == nil {
						fail("answer.has-value", sig, det("no value"))
						continue
					}
					vac[kind+"_intervals_value_checked"]++
					if ref.N >= 3 {
						vac["interval_spanning_3_or_more_records"]++
					}
					if ref.Between {
						vac["start_strictly_between_records"]++
					}
					if ref.Zero {
						if q.Val.Cmp(ref.Min[d]) != 0 {
							fail("value.zero-length-is-price-in-force", sig, det("expected "+dec18(ref.Min[d])))
						}
						continue
					}
					if gi == 0 {
						want := new(big.Int).Quo(ref.Sum[d], big.NewInt(ref.Dur))
						if q.Val.Cmp(want) != 0 {
							exact := new(big.Rat).SetFrac(ref.Sum[d], new(big.Int).Mul(big.NewInt(ref.Dur), ten18))
							fail("arith.equals-time-weighted-mean", sig, det(fmt.Sprintf("expected floor18(%s) = %s (n=%d observations in force)", exact.FloatString(24), dec18(want), ref.N)))
							continue
						}
						rem := new(big.Int).Rem(ref.Sum[d], big.NewInt(ref.Dur))
						w.maxExtra("max_arith_err_over_1e-18", ratF(new(big.Rat).SetFrac(rem, big.NewInt(ref.Dur))))
						lo := new(big.Int).Sub(ref.Min[d], bigOne)
						if q.Val.Cmp(lo) < 0 || q.Val.Cmp(ref.Max[d]) > 0 {
							fail("arith.between-min-and-max", sig, det(fmt.Sprintf("min %s max %s", dec18(ref.Min[d]), dec18(ref.Max[d]))))
						}
						continue
					}
					// geometric
					y0 := refExp2(ref.E[0]) // 2^mean log2 P0
					zero := newF()
					var y *big.Float
					if d == 0 {
						y = y0
					} else {
						y = fQuo(fInt(1), y0) // what reciprocity of the two directions requires
					}
					lo, hi := geoBracket(y, zero)
					if q.Val.Cmp(lo) < 0 || q.Val.Cmp(hi) > 0 {
						asr := "geo.equals-two-to-mean-log2"
						sg := sig
						if ref.E[0].Sign() == 0 && q.Val.Sign() == 0 {
							sg = "geometric twap is 0 when the time-weighted mean of log2(price) is exactly 0 (all prices in force are 1)"
						}
						fail(asr, sg, det(fmt.Sprintf("expected %s (admissible [%s, %s]; n=%d observations in force)", y.Text('f', 24), dec18(lo), dec18(hi), ref.N)))
						continue
					}
					if lo.Cmp(hi) == 0 {
						w.sumExtra("sum_geo_checks_decided_as_equality", 1)
					}
					w.sumExtra("sum_geo_checks", 1)
					w.maxExtra("max_geo_err_over_bound", geoRatio(q.Val, y, zero))
					if d == 1 {
						// the statement's own reference for this direction: the recorded reverse prices
						rho := newF().SetRat(ref.Rho)
						rho = fMul(rho, newF().SetFloat64(1.000001))
						ys := refExp2(ref.E[1])
						lo2, hi2 := geoBracket(ys, rho)
						if q.Val.Cmp(lo2) < 0 || q.Val.Cmp(hi2) > 0 {
							fail("geo.reverse-direction-equals-mean-of-recorded-reverse-prices", sig, det(fmt.Sprintf("expected %s within the recorded prices' own reciprocity defect %s (admissible [%s, %s])", ys.Text('f', 24), ref.Rho.FloatString(24), dec18(lo2), dec18(hi2))))
							continue
						}
						w.maxExtra("max_geo_reverse_err_over_bound", geoRatio(q.Val, ys, rho))
					}
					// between min and max of the prices in force
					// (the same float-conversion margin on the reciprocity defect as in the reverse-direction check above: with a
					// single observation in force the answer 1/P0 sits exactly at the edge of the defect)
					rho := fMul(newF().SetRat(ref.Rho), newF().SetFloat64(1.000001))
					if d == 0 {
						rho = zero
					}
					mlo, _ := geoBracket(fQuo(fBig(ref.Min[d]), ten18Flt), rho)
					_, mhi := geoBracket(fQuo(fBig(ref.Max[d]), ten18Flt), rho)
					if q.Val.Cmp(mlo) < 0 || q.Val.Cmp(mhi) > 0 {
						fail("geo.between-min-and-max", sig, det(fmt.Sprintf("min %s max %s", dec18(ref.Min[d]), dec18(ref.Max[d]))))
					}
				}
			}
			// reciprocity of the two geometric directions
			if ref.Refuse == "" && ref.Required && !ref.Flagged && !ref.Zero && res[1][0].Class == "ok" && res[1][1].Class == "ok" &&
				res[1][0].Val != nil && res[1][1].Val != nil && res[1][0].Val.Sign() > 0 && res[1][1].Val.Sign() > 0 {
				g0, g1 := ratOf18(res[1][0].Val), ratOf18(res[1][1].Val)
				slack := func(v *big.Int, gv *big.Rat) *big.Rat {
					// (unit/2 + 1e-18) / (g - unit/2 - 1e-18)
					a := new(big.Rat).Add(new(big.Rat).Quo(sigUnit(v), big.NewRat(2, 1)), new(big.Rat).SetFrac(bigOne, ten18))
					den := new(big.Rat).Sub(gv, a)
					if den.Sign() <= 0 {
						return big.NewRat(1, 1)
					}
					return a.Quo(a, den)
				}
				a, b := slack(res[1][0].Val, g0), slack(res[1][1].Val, g1)
				bound := new(big.Rat).Add(new(big.Rat).Add(a, b), new(big.Rat).Mul(a, b))
				dev := ratAbs(new(big.Rat).Sub(new(big.Rat).Mul(g0, g1), big.NewRat(1, 1)))
				w.maxExtra("max_reciprocity_dev_over_bound", ratF(new(big.Rat).Quo(dev, bound)))
				vac["reciprocity_checked"]++
				if dev.Cmp(bound) > 0 {
					fail("geo.directions-reciprocal", fmt.Sprintf("%s/start:%s/end:%s", kind, sc, ec),
						fmt.Sprintf("%s geometric twaps over %s: quote0 %s * quote1 %s - 1 = %s > bound %s. %s", kind, iv, dec18(res[1][0].Val), dec18(res[1][1].Val), dev.FloatString(24), bound.FloatString(24), w.describe(l, pi, now)))
				}
			}
			// pruning step differential (only where the module has promised an answer)
			if pruning && ref.Refuse == "" && ref.Required {
				for gi := 0; gi < 2; gi++ {
					for d := 0; d < 2; d++ {
						q2 := w.query(pctx, gi == 1, pi, d, s, e)
						q1 := res[gi][d]
						vac["prune_differential_queries"]++
						if nonFirst {
							vac["prune_differential_queries_multi_asset_pool_non_first_pair"]++
							if ref.T0 < l.L {
								vac["prune_differential_queries_multi_asset_pool_non_first_pair_from_record_older_than_cutoff"]++
							}
						}
						same := q1.Class == q2.Class && (q1.Val == nil) == (q2.Val == nil) && (q1.Val == nil || q1.Val.Cmp(q2.Val) == 0)
						if !same {
							fail("prune.step-does-not-change-answers", fmt.Sprintf("%s/%s/quote%d/start:%s/end:%s", kind, []string{"arithmetic", "geometric"}[gi], d, sc, ec),
								fmt.Sprintf("%s twap over %s: before the pruning step %s, after it %s. %s", kind, iv, q1, q2, w.describe(l, pi, now)))
						}
					}
				}
			}
		}
		// to-now queries through the gRPC wrapper on the live branch (also cross-checks the store copy)
		live, _ := ctx.CacheContext()
		// an interval that lies inside ONE millisecond (start = the whole millisecond of the block time, end = the
		// block time with its sub-millisecond part): its canonical length is zero, so the answer is the price in
		// force, exactly as for start = end
		if ctx.BlockTime().Nanosecond()%int(time.Millisecond) != 0 {
			for gi := 0; gi < 2; gi++ {
				for d := 0; d < 2; d++ {
					want := w.query(fctx, gi == 1, pi, d, now, now)
					base, quote := w.pair(pi, d)
					var v osmomath.Dec
					var err error
					perr := core.Try(func() error {
						if gi == 1 {
							v, err = w.App.TwapKeeper.GetGeometricTwapToNow(live, w.pid(pi), base, quote, tms(now))
						} else {
							v, err = w.App.TwapKeeper.GetArithmeticTwapToNow(live, w.pid(pi), base, quote, tms(now))
						}
						return nil
					})
					got := classify(v, err, perr)
					vac["intervals_inside_one_millisecond_queried"]++
					if !(want.Class == got.Class && (want.Val == nil) == (got.Val == nil) && (want.Val == nil || want.Val.Cmp(got.Val) == 0)) {
						fail("subms.interval-inside-one-millisecond-answers-like-zero-length", fmt.Sprintf("%s/%d/%d", kind, gi, d),
							fmt.Sprintf("to-now twap from %s (block time %s, same canonical millisecond): %s; the zero-length interval at the block time answers %s. %s",
								tms(now).Format(time.RFC3339Nano), ctx.BlockTime().Format(time.RFC3339Nano), got, want, w.describe(l, pi, now)))
					}
				}
			}
		}
		for _, s := range pts {
			for gi := 0; gi < 2; gi++ {
				for d := 0; d < 2; d++ {
					want := w.query(fctx, gi == 1, pi, d, s, now)
					for _, viaNil := range []bool{false, true} {
						if viaNil && d == 1 {
							continue // the end-time-omitted form is exercised for one direction
						}
						got := w.queryNowGRPC(live, gi == 1, pi, d, s, viaNil)
						vac["grpc_to_now_queries"]++
						wv, gv := want, got
						// the gRPC wrapper drops nothing: value and error are both returned to the caller
						same := wv.Class == gv.Class && (wv.Val == nil) == (gv.Val == nil) && (wv.Val == nil || wv.Val.Cmp(gv.Val) == 0)
						if s > now {
							// keeper API with end=now and start>now: start-after-end on both paths
							same = !wv.answered() && !gv.answered()
						}
						if !same {
							fail("grpc.to-now-equals-keeper-query", fmt.Sprintf("%s/%d/%d/%v", kind, gi, d, viaNil),
								fmt.Sprintf("start %d: keeper on store copy %s, gRPC wrapper on live branch %s. %s", s-g, wv, gv, w.describe(l, pi, now)))
						}
					}
				}
			}
		}
	}
}

// matches: does an answer agree with the reference (used only for the not-required region)?
func (w *World) matches(q qres, ref refAns, gi, d int) bool {
	if ref.Flagged != (q.Class == "flag") {
		return false
	}
	if ref.Flagged {
		return true
	}
	if q.Val == nil {
		return false
	}
	if ref.Zero {
		return q.Val.Cmp(ref.Min[d]) == 0
	}
	if gi == 0 {
		return q.Val.Cmp(new(big.Int).Quo(ref.Sum[d], big.NewInt(ref.Dur))) == 0
	}
	y := refExp2(ref.E[0])
	if d == 1 {
		y = fQuo(fInt(1), y)
	}
	lo, hi := geoBracket(y, newF())
	return q.Val.Cmp(lo) >= 0 && q.Val.Cmp(hi) <= 0
}
