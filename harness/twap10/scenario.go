package main

import (
	"crypto/sha256"
	"encoding/binary"
	"fmt"
	"math/big"
	"sort"
	"strings"
	"time"

	sdkmath "cosmossdk.io/math"
	sdk "github.com/cosmos/cosmos-sdk/types"
	"github.com/cosmos/gogoproto/proto"

	"github.com/osmosis-labs/osmosis/osmomath"
	"github.com/osmosis-labs/osmosis/v31/app"
	clmodel "github.com/osmosis-labs/osmosis/v31/x/concentrated-liquidity/model"
	cltypes "github.com/osmosis-labs/osmosis/v31/x/concentrated-liquidity/types"
	"github.com/osmosis-labs/osmosis/v31/x/gamm/pool-models/balancer"
	gammtypes "github.com/osmosis-labs/osmosis/v31/x/gamm/types"
	"github.com/osmosis-labs/osmosis/v31/x/gamm/pool-models/stableswap"
	pmtypes "github.com/osmosis-labs/osmosis/v31/x/poolmanager/types"
	"github.com/osmosis-labs/osmosis/v31/x/twap"
	twaptypes "github.com/osmosis-labs/osmosis/v31/x/twap/types"

	"github.com/osmosis-labs/osmosis/v31/zzverif/core"
)

// Config is one point of the configuration space.
type Config struct {
	Name string `json:"name"`
	// balancer pool (pool id 1): two assets, created by MsgCreateBalancerPool
	BalDenomA string `json:"bal_denom_a"`
	BalDenomB string `json:"bal_denom_b"`
	BalAmtA   int64  `json:"bal_amt_a"`
	BalAmtB   int64  `json:"bal_amt_b"`
	BalWA     int64  `json:"bal_w_a"`
	BalWB     int64  `json:"bal_w_b"`
	BalFee    string `json:"bal_fee"`
	// concentrated pool (pool id 2); Token0/Token1 in the pool's own order, which need not be the
	// lexicographic order the twap records use
	CLToken0 string `json:"cl_token0"`
	CLToken1 string `json:"cl_token1"`
	CLAmt0   int64  `json:"cl_amt0"`
	CLAmt1   int64  `json:"cl_amt1"`
	CLSpread string `json:"cl_spread"`
	CLTickSp uint64 `json:"cl_tick_spacing"`
	// twap module: RecordHistoryKeepPeriod (ms) and the per-block pruning limit
	KeepMs     int64 `json:"keep_ms"`
	PruneLimit int   `json:"prune_limit"`
	// SameBlockFund: the CL pool receives its first position in the block that creates it (the record
	// written at creation sees a spot-price error, the end of that block does not)
	SameBlockFund bool `json:"same_block_fund,omitempty"`
	// BalExtra: further assets of pool 1 (a pool of k assets has k(k-1)/2 asset pairs, each with its own twap
	// records; the module walks them in the order of types.GetAllUniqueDenomPairs: denoms sorted, (i,j) with i<j)
	BalExtra []Asset `json:"bal_extra,omitempty"`
	// BalObserve: the pairs of pool 1 the harness keeps a reference history for and queries (default: all);
	// swaps name a pair by its index in this list (Op.Q)
	BalObserve [][2]string `json:"bal_observe,omitempty"`
	// BalStable: pool 1 is a stableswap pool (created by MsgCreateStableswapPool, unit scaling factors) instead
	// of a balancer pool; weights are ignored
	BalStable bool `json:"bal_stable,omitempty"`
}

type Asset struct {
	Denom string `json:"denom"`
	Amt   int64  `json:"amt"`
	W     int64  `json:"w"`
}

// Op is one symbol: an action executed in the current block followed by the block boundary
// (EndBlocker, +Dt, BeginBlocker). Dt = 0: no boundary (only used inside seeds).
type Op struct {
	A  string `json:"a"`            // idle | swap | join1 / exit1 (single-asset join / exit of X of asset D) | join / exit (proportional, X e12 shares) | toggle (drain / refill the CL pool) | prune (prune-epoch hook at the start of the block)
	P  int    `json:"p,omitempty"`  // pool index: 0 balancer, 1 concentrated
	Q  int    `json:"q,omitempty"`  // swap: index of the pool's observed asset pair the swap goes along (pools with 3+ assets)
	D  int    `json:"d,omitempty"`  // swap direction: 0 = canonical asset0 in, 1 = canonical asset1 in
	X  int64  `json:"x,omitempty"`  // amount in
	Dt int64  `json:"dt"`           // milliseconds to the next block
	Ns int64  `json:"ns,omitempty"` // sub-millisecond part (0..999999 ns) of the NEXT block's time: real block times carry nanoseconds; records and queries are canonicalised to whole milliseconds by the module, so the reference works on floor(t/1ms) and the phase must be unobservable
}

func (o Op) String() string {
	switch o.A {
	case "join1", "exit1", "join", "exit":
		return fmt.Sprintf("%s(pool%d,pair%d,asset%d,%d)+%dms%s", o.A, o.P, o.Q, o.D, o.X, o.Dt, phase(o.Ns))
	case "swap":
		if o.Q != 0 {
			return fmt.Sprintf("swap(pool%d,pair%d,dir%d,%d)+%dms%s", o.P, o.Q, o.D, o.X, o.Dt, phase(o.Ns))
		}
		return fmt.Sprintf("swap(pool%d,dir%d,%d)+%dms%s", o.P, o.D, o.X, o.Dt, phase(o.Ns))
	}
	return fmt.Sprintf("%s+%dms%s", o.A, o.Dt, phase(o.Ns))
}

// Seg is one end-of-block observation of a pool, in force from T until the next Seg.
// P[0] = RouteCalculateSpotPrice(quote = canonical asset0, base = asset1), P[1] the other order -
// the two calls x/twap/logic.go getSpotPrices makes. Values are integers scaled by 10^18: the
// router's BigDec answers of both pool types are multiples of 10^-18 (gamm rounds to 8 significant
// figures of a Dec, CL converts through Dec); Apply asserts that, so the truncation to Dec that
// getSpotPrices applies loses nothing and the ledger holds exactly what the router reported.
type Seg struct {
	T       int64 // unix ms of the block whose end was observed
	P       [2]*big.Int
	Err     bool // the router returned an error for at least one order
	Touched bool // the harness delivered an accepted pool-changing message in that block
}

type Hist struct {
	Segs []Seg
}

// Ledger is the reference state: built only from the harness's own requests and the router's
// answers; nothing is read back from x/twap.
type Ledger struct {
	H       []Hist // one history per observed asset pair (World.Pairs)
	PosID   uint64 // the only CL position (0: pool drained)
	PosLiq  osmomath.Dec
	Refills int
	// L: the newest cut-off (unix ms) of any pruning pass that has started; 0 = none yet. Everything
	// at or after L is the part of history the module has promised to keep answering.
	L          int64
	DayStart   int64  // start of the running "day" epoch (the module's real prune trigger)
	PassDel    int    // records deleted so far by the running pass
	PassBlocks int    // blocks of the running pass that deleted something
	Touch      []bool // per pool
}

func (l *Ledger) Clone() *Ledger {
	n := *l
	n.H = make([]Hist, len(l.H))
	for i := range l.H {
		n.H[i].Segs = append([]Seg{}, l.H[i].Segs...)
	}
	n.Touch = append([]bool{}, l.Touch...)
	return &n
}

func (l *Ledger) digest() []byte {
	h := sha256.New()
	var b [8]byte
	w := func(x int64) { binary.BigEndian.PutUint64(b[:], uint64(x)); h.Write(b[:]) }
	for i := range l.H {
		w(int64(len(l.H[i].Segs)))
		for _, s := range l.H[i].Segs {
			w(s.T)
			for d := 0; d < 2; d++ {
				if s.P[d] != nil {
					h.Write(s.P[d].Bytes())
				}
				h.Write([]byte{0xff})
			}
			if s.Err {
				h.Write([]byte{1})
			}
			if s.Touched {
				h.Write([]byte{2})
			}
		}
	}
	w(int64(l.PosID))
	w(l.L)
	w(l.DayStart)
	w(int64(l.PassDel))
	w(int64(l.PassBlocks))
	return h.Sum(nil)
}

type PoolInfo struct {
	ID     uint64
	Kind   string
	Denoms []string // sorted
	NPairs int      // all asset pairs of the pool, observed or not: k(k-1)/2 record series in x/twap
	Pairs  []int    // indices into World.Pairs of the observed pairs, in the module's order
}

// PairInfo is one observed asset pair: the unit the statement quantifies over ("every pool and asset pair").
type PairInfo struct {
	Pool   int
	A0, A1 string // canonical (lexicographic) order, as x/twap keys its records
	Ord    int    // position of the pair in the module's iteration order over the pool's pairs (0 = first)
	Label  string // stable name used in signatures and counters: the pool kind for two-asset pools
}

type World struct {
	Env   *core.Env
	App   *app.OsmosisApp
	Cfg   Config
	Pools []PoolInfo // 0: balancer / stableswap (pool id 1), 1: concentrated (pool id 2)
	Pairs []PairInfo
	R     *core.Result
}

func (w *World) pid(pi int) uint64 { return w.Pools[w.Pairs[pi].Pool].ID }

// multi: the pair belongs to a pool with more than one pair and is not the first one the module visits
func (w *World) nonFirstOfMulti(pi int) bool {
	return w.Pools[w.Pairs[pi].Pool].NPairs > 1 && w.Pairs[pi].Ord > 0
}

const pruneEpoch = "day"
const dayMs = int64(24 * 3600 * 1000)

func phase(ns int64) string {
	if ns == 0 {
		return ""
	}
	return fmt.Sprintf("@.%06dns", ns)
}

func ms(t time.Time) int64       { return t.UnixMilli() }
func tms(m int64) time.Time      { return time.UnixMilli(m).UTC() }
func sdkInt(n int64) sdkmath.Int { return sdkmath.NewInt(n) }

func order(a, b string) (string, string) {
	if a > b {
		return b, a
	}
	return a, b
}

func mustUnmarshal(res *sdk.Result, m proto.Message) {
	if len(res.MsgResponses) > 0 {
		if err := proto.Unmarshal(res.MsgResponses[0].Value, m); err != nil {
			panic(err)
		}
		return
	}
	if err := proto.Unmarshal(res.Data, m); err != nil {
		panic(err)
	}
}

// NewWorld builds the application: block 1 (genesis time) creates the balancer pool (id 1) and the
// concentrated pool (id 2, no position yet, so its end-of-block price is an error); the ledger gets
// the two end-of-block observations and block 2 begins 1 s later. Everything after that - including
// the first position of the CL pool - is done by operations of the alphabet (seed "init" applies
// the first toggle).
func NewWorld(cfg Config, r *core.Result) (*World, sdk.Context, *Ledger) {
	assets := append([]Asset{{cfg.BalDenomA, cfg.BalAmtA, cfg.BalWA}, {cfg.BalDenomB, cfg.BalAmtB, cfg.BalWB}}, cfg.BalExtra...)
	fund := core.Coins("uosmo", "100000000000")
	for _, as := range assets {
		fund = fund.Add(core.Coins(as.Denom, "1000000000000000000")...)
	}
	fund = fund.Add(core.Coins(cfg.CLToken0, "1000000000000000000", cfg.CLToken1, "1000000000000000000")...)
	env := core.NewEnv(core.GenesisOpts{Balances: map[string]sdk.Coins{"A": fund, "T": fund}})
	a, ctx := env.App, env.Ctx
	w := &World{Env: env, App: a, Cfg: cfg, R: r}

	p := cltypes.DefaultParams()
	p.IsPermissionlessPoolCreationEnabled = true
	a.ConcentratedLiquidityKeeper.SetParams(ctx, p)
	qd := append(pmtypes.DefaultParams().AuthorizedQuoteDenoms, cfg.CLToken1)
	a.PoolManagerKeeper.SetParam(ctx, pmtypes.KeyAuthorizedQuoteDenoms, qd)

	a.TwapKeeper.SetParams(ctx, twaptypes.NewParams(pruneEpoch, time.Duration(cfg.KeepMs)*time.Millisecond))
	twap.NumRecordsToPrunePerBlock = uint16(cfg.PruneLimit)

	var balID uint64
	balKind := "balancer"
	if cfg.BalStable {
		balKind = "stableswap"
		liq := sdk.NewCoins()
		sf := make([]uint64, len(assets))
		for i, as := range assets {
			liq = liq.Add(sdk.NewCoin(as.Denom, sdkInt(as.Amt)))
			sf[i] = 1
		}
		sm := stableswap.NewMsgCreateStableswapPool(core.Acc("A"),
			stableswap.PoolParams{SwapFee: osmomath.MustNewDecFromStr(cfg.BalFee), ExitFee: osmomath.ZeroDec()}, liq, sf, "")
		rs := core.Deliver(a, ctx, &sm)
		if !rs.OK() {
			panic(fmt.Sprintf("harness: stableswap pool creation failed: %v", rs.Err))
		}
		var sresp stableswap.MsgCreateStableswapPoolResponse
		mustUnmarshal(rs.Res, &sresp)
		balID = sresp.PoolID
	} else {
		bm := &balancer.MsgCreateBalancerPool{Sender: core.Acc("A").String(),
			PoolParams: &balancer.PoolParams{SwapFee: osmomath.MustNewDecFromStr(cfg.BalFee), ExitFee: osmomath.ZeroDec()}}
		for _, as := range assets {
			bm.PoolAssets = append(bm.PoolAssets, balancer.PoolAsset{Token: sdk.NewCoin(as.Denom, sdkInt(as.Amt)), Weight: sdkInt(as.W)})
		}
		rb := core.Deliver(a, ctx, bm)
		if !rb.OK() {
			panic(fmt.Sprintf("harness: balancer pool creation failed: %v", rb.Err))
		}
		var bresp balancer.MsgCreateBalancerPoolResponse
		mustUnmarshal(rb.Res, &bresp)
		balID = bresp.PoolID
	}
	cm := clmodel.NewMsgCreateConcentratedPool(core.Acc("A"), cfg.CLToken0, cfg.CLToken1, cfg.CLTickSp, osmomath.MustNewDecFromStr(cfg.CLSpread))
	rc := core.Deliver(a, ctx, &cm)
	if !rc.OK() {
		panic(fmt.Sprintf("harness: CL pool creation failed: %v", rc.Err))
	}
	var cresp clmodel.MsgCreateConcentratedPoolResponse
	mustUnmarshal(rc.Res, &cresp)

	// pool 0: every asset pair in the order x/twap walks them (types.GetAllUniqueDenomPairs: denoms sorted
	// ascending, (i,j) for i<j, j inner) - written down here independently of the module
	denoms := make([]string, len(assets))
	for i, as := range assets {
		denoms[i] = as.Denom
	}
	sort.Strings(denoms)
	bp := PoolInfo{ID: balID, Kind: balKind, Denoms: denoms, NPairs: len(denoms) * (len(denoms) - 1) / 2}
	observed := func(a0, a1 string) bool {
		if len(cfg.BalObserve) == 0 {
			return true
		}
		for _, o := range cfg.BalObserve {
			o0, o1 := order(o[0], o[1])
			if o0 == a0 && o1 == a1 {
				return true
			}
		}
		return false
	}
	ord := 0
	for i := 0; i < len(denoms); i++ {
		for j := i + 1; j < len(denoms); j++ {
			if observed(denoms[i], denoms[j]) {
				label := balKind
				if bp.NPairs > 1 {
					label = fmt.Sprintf("%s%d.pair%d", balKind, len(denoms), ord)
				}
				bp.Pairs = append(bp.Pairs, len(w.Pairs))
				w.Pairs = append(w.Pairs, PairInfo{Pool: 0, A0: denoms[i], A1: denoms[j], Ord: ord, Label: label})
			}
			ord++
		}
	}
	if len(cfg.BalObserve) != 0 && len(bp.Pairs) != len(cfg.BalObserve) {
		panic("harness: an observed pair is not a pair of pool 1")
	}
	c0, c1 := order(cfg.CLToken0, cfg.CLToken1)
	cp := PoolInfo{ID: cresp.PoolID, Kind: "concentrated", Denoms: []string{c0, c1}, NPairs: 1, Pairs: []int{len(w.Pairs)}}
	w.Pairs = append(w.Pairs, PairInfo{Pool: 1, A0: c0, A1: c1, Ord: 0, Label: "concentrated"})
	w.Pools = []PoolInfo{bp, cp}
	if w.Pools[0].ID != 1 || w.Pools[1].ID != 2 {
		panic("harness: unexpected pool ids")
	}

	work, _ := ctx.CacheContext()
	l := &Ledger{DayStart: ms(core.GenesisTime), PosLiq: osmomath.ZeroDec(), H: make([]Hist, len(w.Pairs))}
	l.Touch = []bool{true, true} // creation
	if cfg.SameBlockFund {
		if _, out := w.Apply(work, l, Op{A: "toggle"}, func(a, s, d string) { panic("harness: setup: " + a + ": " + d) }); out != "ok" {
			panic("harness: setup: first position refused: " + out)
		}
	}
	work = w.boundary(work, l, 1000, 0, func(a, s, d string) { panic("harness: setup: " + a + ": " + d) })
	return w, work, l
}

// spot asks the router for both orders, exactly as getSpotPrices does.
func (w *World) spot(ctx sdk.Context, pi int) (p [2]*big.Int, errd bool) {
	pool := w.Pairs[pi]
	id := w.pid(pi)
	q := func(quote, base string) *big.Int {
		var v osmomath.BigDec
		var err error
		perr := core.Try(func() error {
			v, err = w.App.PoolManagerKeeper.RouteCalculateSpotPrice(ctx, id, quote, base)
			return nil
		})
		if perr != nil || err != nil {
			errd = true
			return new(big.Int)
		}
		bi := v.BigInt()
		q, r := new(big.Int).QuoRem(bi, ten18, new(big.Int))
		if r.Sign() != 0 {
			// see Seg: the ledger relies on the router's prices being multiples of 1e-18
			panic(fmt.Sprintf("harness: router price %s of pool %d has more than 18 decimals", v, id))
		}
		return q
	}
	p[0] = q(pool.A0, pool.A1)
	p[1] = q(pool.A1, pool.A0)
	if errd {
		p[0], p[1] = new(big.Int), new(big.Int)
	}
	return p, errd
}

func (w *World) countRecords(ctx sdk.Context) int {
	n := 0
	for _, p := range w.Pools {
		rs, err := w.App.TwapKeeper.GetAllHistoricalPoolIndexedTWAPsForPoolId(ctx, p.ID)
		if err != nil {
			panic(err)
		}
		n += len(rs)
	}
	return n
}

// boundary observes the end-of-block prices, ends the block and begins the next one dt ms later.
func (w *World) boundary(ctx sdk.Context, l *Ledger, dt, ns int64, fail func(a, s, d string)) sdk.Context {
	now := ms(ctx.BlockTime())
	written := 0
	for qi, pool := range w.Pools {
		if l.Touch[qi] && len(l.H[pool.Pairs[0]].Segs) > 0 {
			// a touched pool gets one new historical record for EVERY one of its asset pairs, observed or not
			// (the creation block rewrites the creation records)
			written += pool.NPairs
		}
	}
	for pi := range w.Pairs {
		touched := l.Touch[w.Pairs[pi].Pool]
		p, e := w.spot(ctx, pi)
		h := &l.H[pi]
		changed := len(h.Segs) == 0
		if !changed {
			last := h.Segs[len(h.Segs)-1]
			changed = last.Err != e || last.P[0].Cmp(p[0]) != 0 || last.P[1].Cmp(p[1]) != 0
		}
		if touched && !changed && w.Pools[w.Pairs[pi].Pool].NPairs > 1 {
			// e.g. four assets, swap along bar/foo: baz/foobar gets a new record with the old prices
			w.R.Vacuity["multi_asset_pool_record_written_for_pair_with_unchanged_price"]++
		}
		if changed || touched {
			if n := len(h.Segs); n > 0 && h.Segs[n-1].T == now {
				h.Segs[n-1] = Seg{T: now, P: p, Err: e, Touched: true}
			} else {
				h.Segs = append(h.Segs, Seg{T: now, P: p, Err: e, Touched: touched})
			}
		}
	}
	for qi := range l.Touch {
		l.Touch[qi] = false
	}
	before := w.countRecords(ctx)
	stBefore := w.App.TwapKeeper.GetPruningState(ctx)
	// the next block time is (floor(now/1ms) + dt) ms + ns: the canonical millisecond advances by exactly dt
	// whatever the two sub-millisecond phases are (dt >= 1 ms, so the step stays positive)
	curPhase := int64(ctx.BlockTime().Nanosecond()) % int64(time.Millisecond)
	if ns != curPhase {
		w.R.Vacuity["block_times_with_submillisecond_phase_change"]++
		if ns < curPhase {
			w.R.Vacuity["block_times_with_decreasing_submillisecond_phase"]++
		}
	}
	next, err := core.NextBlock(w.App, ctx, time.Duration(dt)*time.Millisecond+time.Duration(ns-curPhase))
	if err != nil {
		fail("block.boundary-succeeds", "block-boundary-error", err.Error())
		return ctx
	}
	ctx = next
	// progress of the pruning pass (vacuity only)
	stMid := stBefore // state during the EndBlocker that just ran
	after := w.countRecords(ctx)
	deleted := before + written - after
	if stMid.IsPruning {
		if deleted > 0 {
			l.PassDel += deleted
			l.PassBlocks++
			w.R.Vacuity["prune_step_deleted_records"]++
			if l.PassBlocks >= 2 {
				w.R.Vacuity["prune_resumed_in_later_block_and_deleted"]++
			}
			// a pass always starts at the highest pool id (2): LastSeenPoolId == 1 during a step means an earlier step
			// hit the per-block limit inside pool 1, whose pairs are re-walked from the first one
			if w.Pools[0].NPairs > 1 && stMid.LastSeenPoolId == w.Pools[0].ID {
				w.R.Vacuity["prune_resumed_inside_multi_asset_pool_and_deleted"]++
			}
		}
	} else if deleted != 0 {
		// not an assertion of the property (answers are what counts); kept visible in the evidence
		w.sumExtra("sum_blocks_with_unexpected_record_count_outside_pruning", 1)
	}
	// the real trigger: the "day" epoch ends in the BeginBlocker of the first block later than start+24h
	nowNew := ms(ctx.BlockTime())
	if nowNew > l.DayStart+dayMs {
		l.DayStart += dayMs
		l.startPass(nowNew - w.Cfg.KeepMs)
		w.R.Vacuity["prune_started_by_real_epoch"]++
		if w.Pools[0].NPairs > 1 {
			w.R.Vacuity["prune_started_by_real_epoch_with_multi_asset_pool"]++
		}
	}
	st := w.App.TwapKeeper.GetPruningState(ctx)
	if stMid.IsPruning && st.IsPruning && deleted > 0 && w.Pools[0].NPairs > 1 && st.LastSeenPoolId == w.Pools[0].ID {
		w.R.Vacuity["prune_limit_hit_inside_multi_asset_pool"]++
	}
	if stMid.IsPruning && !st.IsPruning {
		if w.Pools[0].NPairs > 1 {
			w.R.Vacuity["prune_pass_completed_with_multi_asset_pool"]++
			if l.PassBlocks >= 2 {
				w.R.Vacuity["prune_pass_completed_after_resume_with_multi_asset_pool"]++
			}
		}
		w.R.Vacuity["prune_pass_completed"]++
		if l.PassBlocks >= 2 {
			w.R.Vacuity["prune_pass_completed_after_resume"]++
		}
	}
	if st.IsPruning && ms(st.LastKeptTime) != l.L {
		panic(fmt.Sprintf("harness: ledger cut-off %d out of step with the module's pruning state %d", l.L, ms(st.LastKeptTime)))
	}
	return ctx
}

func (l *Ledger) startPass(cut int64) {
	if cut > l.L {
		l.L = cut
	}
	l.PassDel, l.PassBlocks = 0, 0
}

func errClass(err error) string {
	if err == nil {
		return "ok"
	}
	s := fmt.Sprintf("%T", err)
	if strings.HasPrefix(s, "*errors.") || strings.HasPrefix(s, "*fmt.") {
		m := []rune(err.Error())
		out := make([]rune, 0, 48)
		for _, c := range m {
			if c >= '0' && c <= '9' || c == '(' || c == '{' {
				break
			}
			out = append(out, c)
			if len(out) >= 48 {
				break
			}
		}
		return "rejected:" + strings.TrimSpace(string(out))
	}
	return "rejected:" + s
}

// refillAmounts: successive refills re-initialise the pool at different prices.
func (w *World) refillAmounts(n int) (int64, int64) {
	a0, a1 := w.Cfg.CLAmt0, w.Cfg.CLAmt1
	switch n % 3 {
	case 1:
		return a0, a1 * 3 / 2
	case 2:
		return a0 * 5 / 4, a1
	}
	return a0, a1
}

// Apply executes one symbol on the real application and updates the ledger.
func (w *World) Apply(ctx sdk.Context, l *Ledger, op Op, fail func(a, s, d string)) (sdk.Context, string) {
	a := w.App
	out := "ok"
	pre := w.midBlock(ctx, l)
	switch op.A {
	case "idle":
	case "prune":
		// what x/epochs does in its BeginBlocker when the prune epoch ends in this block
		if err := a.TwapKeeper.EpochHooks().AfterEpochEnd(ctx, pruneEpoch, 1); err != nil {
			fail("prune.hook-succeeds", "prune-hook-error", err.Error())
		}
		l.startPass(ms(ctx.BlockTime()) - w.Cfg.KeepMs)
		w.R.Vacuity["prune_started_by_hook"]++
	case "swap":
		pool := w.Pools[op.P]
		if op.Q < 0 || op.Q >= len(pool.Pairs) {
			panic(fmt.Sprintf("harness: op %s names pair %d of a pool with %d observed pairs", op, op.Q, len(pool.Pairs)))
		}
		pair := w.Pairs[pool.Pairs[op.Q]]
		in, outD := pair.A0, pair.A1
		if op.D == 1 {
			in, outD = pair.A1, pair.A0
		}
		r := core.Deliver(a, ctx, &pmtypes.MsgSwapExactAmountIn{Sender: core.Acc("T").String(),
			Routes:  []pmtypes.SwapAmountInRoute{{PoolId: pool.ID, TokenOutDenom: outD}},
			TokenIn: sdk.NewCoin(in, sdkInt(op.X)), TokenOutMinAmount: sdkmath.OneInt()})
		if !r.OK() {
			out = errClass(r.Err)
		} else {
			l.Touch[op.P] = true
		}
	case "join1", "exit1", "join", "exit":
		// liquidity operations on the classic pool (index 0): single-asset joins and exits move the price like a swap,
		// proportional ones only by rounding; each of them must reach the end-of-block record
		pool := w.Pools[op.P]
		pair := w.Pairs[pool.Pairs[op.Q]]
		den := pair.A0
		if op.D == 1 {
			den = pair.A1
		}
		var msg sdk.Msg
		switch op.A {
		case "join1":
			msg = &gammtypes.MsgJoinSwapExternAmountIn{Sender: core.Acc("T").String(), PoolId: pool.ID, TokenIn: sdk.NewCoin(den, sdkInt(op.X)), ShareOutMinAmount: sdkmath.OneInt()}
		case "exit1":
			msg = &gammtypes.MsgExitSwapExternAmountOut{Sender: core.Acc("A").String(), PoolId: pool.ID, TokenOut: sdk.NewCoin(den, sdkInt(op.X)), ShareInMaxAmount: sdkmath.NewIntWithDecimal(1, 30)}
		case "join":
			msg = &gammtypes.MsgJoinPool{Sender: core.Acc("T").String(), PoolId: pool.ID, ShareOutAmount: sdkmath.NewIntWithDecimal(op.X, 12), TokenInMaxs: sdk.Coins{}}
		case "exit":
			msg = &gammtypes.MsgExitPool{Sender: core.Acc("A").String(), PoolId: pool.ID, ShareInAmount: sdkmath.NewIntWithDecimal(op.X, 12), TokenOutMins: sdk.Coins{}}
		}
		r := core.Deliver(a, ctx, msg)
		if !r.OK() {
			out = errClass(r.Err)
		} else {
			l.Touch[op.P] = true
			w.R.Vacuity[op.A+"_accepted"]++
		}
	case "toggle":
		if l.PosID != 0 {
			r := core.Deliver(a, ctx, &cltypes.MsgWithdrawPosition{PositionId: l.PosID, Sender: core.Acc("A").String(), LiquidityAmount: l.PosLiq})
			if !r.OK() {
				out = errClass(r.Err)
			} else {
				l.PosID = 0
				l.Touch[1] = true
				w.R.Vacuity["cl_pool_drained"]++
			}
		} else {
			a0, a1 := w.refillAmounts(l.Refills)
			r := core.Deliver(a, ctx, &cltypes.MsgCreatePosition{PoolId: w.Pools[1].ID, Sender: core.Acc("A").String(),
				LowerTick: cltypes.MinInitializedTick, UpperTick: cltypes.MaxTick,
				TokensProvided:  sdk.NewCoins(sdk.NewCoin(w.Cfg.CLToken0, sdkInt(a0)), sdk.NewCoin(w.Cfg.CLToken1, sdkInt(a1))),
				TokenMinAmount0: sdkmath.ZeroInt(), TokenMinAmount1: sdkmath.ZeroInt()})
			if !r.OK() {
				out = errClass(r.Err)
			} else {
				var resp cltypes.MsgCreatePositionResponse
				mustUnmarshal(r.Res, &resp)
				l.PosID, l.PosLiq = resp.PositionId, resp.LiquidityCreated
				l.Refills++
				l.Touch[1] = true
				w.R.Vacuity["cl_pool_refilled"]++
			}
		}
	default:
		panic("unknown op " + op.A)
	}
	// the twap is built from END-of-block prices: nothing an action does may show in an answer before the
	// block has ended (to-now queries from every observation time, both kinds, both directions)
	if post := w.midBlock(ctx, l); post != pre {
		fail("midblock.answers-unchanged-before-end-of-block", "action:"+op.A, fmt.Sprintf("to-now answers before the action: %s; after it, same block: %s", pre, post))
	} else if pre != "" {
		w.R.Vacuity["midblock_answer_sets_compared"]++
	}
	if op.Dt > 0 {
		ctx = w.boundary(ctx, l, op.Dt, op.Ns, fail)
	}
	return ctx, out
}

// midBlock renders the to-now answers of both pools (on a throw-away branch of the live context).
func (w *World) midBlock(ctx sdk.Context, l *Ledger) string {
	var b strings.Builder
	c, _ := ctx.CacheContext()
	now := ms(ctx.BlockTime())
	for pi := range w.Pairs {
		for _, sg := range l.H[pi].Segs {
			for gi := 0; gi < 2; gi++ {
				for d := 0; d < 2; d++ {
					q := w.query(c, gi == 1, pi, d, sg.T, now)
					fmt.Fprintf(&b, "%d/%d/%d/%d=%s;", pi, sg.T-ms(core.GenesisTime), gi, d, q)
				}
			}
		}
	}
	return b.String()
}

// Alphabet: the list of symbols; swaps on the CL pool are only enabled while it has liquidity (a
// refused swap is an idle block, which the alphabet has anyway).
func (w *World) Enabled(alpha []Op) func(ctx sdk.Context, l *Ledger, depth int) []Op {
	return func(ctx sdk.Context, l *Ledger, depth int) []Op {
		ops := make([]Op, 0, len(alpha))
		for _, o := range alpha {
			if o.A == "swap" && o.P == 1 && l.PosID == 0 {
				continue
			}
			ops = append(ops, o)
		}
		return ops
	}
}
