package main

import (
	"math/big"
)

// Numeric reference for C10. Nothing here calls into /repo: exact integer / rational arithmetic for
// the arithmetic mean, and an own 720-bit big.Float log2 / exp2 (argument reduction + series) for
// the geometric mean. Prices are carried as integers scaled by 10^18 (the resolution of the
// recorded prices: see the comment on Seg).

const refPrec = 720

var (
	bigOne   = big.NewInt(1)
	bigTen   = big.NewInt(10)
	ten18    = new(big.Int).Exp(bigTen, big.NewInt(18), nil)
	ten17    = new(big.Int).Exp(bigTen, big.NewInt(17), nil)
	ten10    = new(big.Int).Exp(bigTen, big.NewInt(10), nil)
	ten8     = new(big.Int).Exp(bigTen, big.NewInt(8), nil)
	ten18Flt = new(big.Float).SetPrec(refPrec).SetInt(ten18)
)

func newF() *big.Float                { return new(big.Float).SetPrec(refPrec) }
func fInt(i int64) *big.Float         { return newF().SetInt64(i) }
func fBig(i *big.Int) *big.Float      { return newF().SetInt(i) }
func fMul(a, b *big.Float) *big.Float { return newF().Mul(a, b) }
func fQuo(a, b *big.Float) *big.Float { return newF().Quo(a, b) }
func fAdd(a, b *big.Float) *big.Float { return newF().Add(a, b) }
func fSub(a, b *big.Float) *big.Float { return newF().Sub(a, b) }

// atanhSeries returns atanh(z) = z + z^3/3 + z^5/5 + ... for |z| <= 0.35, to ~refPrec bits.
func atanhSeries(z *big.Float) *big.Float {
	z2 := fMul(z, z)
	term := newF().Set(z)
	sum := newF().Set(z)
	for k := int64(3); k < 2000; k += 2 {
		term = fMul(term, z2)
		t := fQuo(term, fInt(k))
		if t.Sign() == 0 || t.MantExp(nil)-sum.MantExp(nil) < -(refPrec+8) {
			break
		}
		sum = fAdd(sum, t)
	}
	return sum
}

var ln2Ref = func() *big.Float {
	// ln 2 = 2 atanh(1/3)
	return fMul(fInt(2), atanhSeries(fQuo(fInt(1), fInt(3))))
}()

// refLn returns ln(x), x > 0.
func refLn(x *big.Float) *big.Float {
	// x = m * 2^k with m in [0.5, 1); shift to m in [0.70.., 1.41..)
	m := newF()
	k := x.MantExp(m)
	sqrtHalf := newF().SetFloat64(0.7071067811865476)
	if m.Cmp(sqrtHalf) < 0 {
		m = fMul(m, fInt(2))
		k--
	}
	z := fQuo(fSub(m, fInt(1)), fAdd(m, fInt(1))) // |z| <= 0.1716
	lnm := fMul(fInt(2), atanhSeries(z))
	return fAdd(lnm, fMul(fInt(int64(k)), ln2Ref))
}

// refLog2 returns log2(x), x > 0.
func refLog2(x *big.Float) *big.Float { return fQuo(refLn(x), ln2Ref) }

var invFact = func() []*big.Float {
	out := make([]*big.Float, 64)
	f := fInt(1)
	out[0] = fInt(1)
	for i := 1; i < len(out); i++ {
		f = fMul(f, fInt(int64(i)))
		out[i] = fQuo(fInt(1), f)
	}
	return out
}()

// refExp2 returns 2^y for any real y (|y| < 2^20).
func refExp2(y *big.Float) *big.Float {
	// y = n + f, n integer, f in [0,1)
	n, _ := y.Int(nil) // truncation towards zero
	f := fSub(y, fBig(n))
	if f.Sign() < 0 {
		f = fAdd(f, fInt(1))
		n.Sub(n, bigOne)
	}
	// 2^f = exp(f ln2); reduce by 2^-32, Taylor, square 32 times
	const red = 32
	x := fMul(f, ln2Ref)
	x.SetMantExp(x, -red)
	sum := fInt(1)
	pw := fInt(1)
	for k := 1; k < len(invFact); k++ {
		pw = fMul(pw, x)
		t := fMul(pw, invFact[k])
		if t.Sign() == 0 || t.MantExp(nil) < -(refPrec+8) {
			break
		}
		sum = fAdd(sum, t)
	}
	for i := 0; i < red; i++ {
		sum = fMul(sum, sum)
	}
	return newF().SetMantExp(sum, int(n.Int64()))
}

// log2 of a price given as integer scaled by 1e18; cached (pure function of its argument).
var log2Cache = map[string]*big.Float{}

func refLog2Price(p18 *big.Int) *big.Float {
	k := string(p18.Bytes())
	if v, ok := log2Cache[k]; ok {
		return v
	}
	v := refLog2(fQuo(fBig(p18), ten18Flt))
	if len(log2Cache) > 200000 {
		log2Cache = map[string]*big.Float{}
	}
	log2Cache[k] = v
	return v
}

// floorF / ceilF convert a non-negative big.Float to an integer.
func floorF(x *big.Float) *big.Int {
	i, acc := x.Int(nil)
	if acc == big.Above { // truncated value is above x: only for negative x
		i.Sub(i, bigOne)
	}
	return i
}

func ceilF(x *big.Float) *big.Int {
	i, _ := x.Int(nil)
	if fBig(i).Cmp(x) < 0 {
		i.Add(i, bigOne)
	}
	return i
}

// sigUnit18 returns, for a positive value d (scaled 1e18), the spacing (scaled 1e18, as a rational
// because it can drop below 1e-18) of the grid that rounding to 8 significant-figure digits after
// normalisation to [0.1, 1) produces: 1e-8 for d >= 0.1, 1e-(8+k) for 10^-(k+1) <= d < 10^-k.
func sigK(d18 *big.Int) int {
	k := 0
	x := new(big.Int).Set(d18)
	for x.Cmp(ten17) < 0 {
		x.Mul(x, bigTen)
		k++
		if k > 40 {
			break
		}
	}
	return k
}

func sigUnit(d18 *big.Int) *big.Rat {
	k := sigK(d18)
	den := new(big.Int).Exp(bigTen, big.NewInt(int64(8+k)), nil)
	return new(big.Rat).SetFrac(bigOne, den) // in natural units (not scaled)
}

// refSigFig rounds a positive 18-decimal value to the module's "8 significant figures" grid
// (round(d*10^k*10^8) / (10^8*10^k), k minimal with d*10^k >= 0.1; final division truncates to 18
// decimals). ties: -1 down, 0 half-even, +1 up (used to bracket the implementation's choice).
func refSigFig(d18 *big.Int, ties int) *big.Int {
	if d18.Sign() == 0 {
		return new(big.Int)
	}
	k := sigK(d18)
	// num = round(d18 * 10^k / 10^10)
	x := new(big.Int).Mul(d18, new(big.Int).Exp(bigTen, big.NewInt(int64(k)), nil))
	q, r := new(big.Int).QuoRem(x, ten10, new(big.Int))
	twice := new(big.Int).Lsh(r, 1)
	switch c := twice.Cmp(ten10); {
	case c > 0:
		q.Add(q, bigOne)
	case c == 0:
		if ties > 0 || (ties == 0 && q.Bit(0) == 1) {
			q.Add(q, bigOne)
		}
	}
	// result18 = q * 10^18 / 10^(8+k)
	num := new(big.Int).Mul(q, ten18)
	den := new(big.Int).Exp(bigTen, big.NewInt(int64(8+k)), nil)
	return num.Quo(num, den)
}

func ratOf18(i *big.Int) *big.Rat { return new(big.Rat).SetFrac(i, ten18) }

func ratAbs(r *big.Rat) *big.Rat { return new(big.Rat).Abs(r) }

func ratF(r *big.Rat) float64 { f, _ := r.Float64(); return f }
