package main

import (
	"bytes"
	"io"
	"sort"

	"cosmossdk.io/store/cachekv"
	storetypes "cosmossdk.io/store/types"
	sdk "github.com/cosmos/cosmos-sdk/types"
)

// The interval oracle asks a few thousand twap queries per state, each of which opens two reverse
// iterators. On the explored branch an iterator walks the whole stack of cachekv layers down to the
// IAVL base. The bulk of the queries is therefore evaluated - by the same keeper code - on a
// byte-exact read-only copy of the twap store taken with the store's own full iterator (the
// primitive the canonical state hash uses). The to-now queries are repeated on the live branch
// through the gRPC query wrapper and compared, so a copy that differed from the live view would be
// noticed at once. A write through the copy panics: queries must not write.

type flatKV struct {
	keys [][]byte
	vals [][]byte
}

func snapshotStore(src storetypes.KVStore) *flatKV {
	f := &flatKV{}
	it := src.Iterator(nil, nil)
	defer it.Close()
	for ; it.Valid(); it.Next() {
		f.keys = append(f.keys, append([]byte{}, it.Key()...))
		f.vals = append(f.vals, append([]byte{}, it.Value()...))
	}
	return f
}

func (f *flatKV) lower(k []byte) int {
	if k == nil {
		return 0
	}
	return sort.Search(len(f.keys), func(i int) bool { return bytes.Compare(f.keys[i], k) >= 0 })
}

func (f *flatKV) GetStoreType() storetypes.StoreType { return storetypes.StoreTypeMemory }
func (f *flatKV) CacheWrap() storetypes.CacheWrap    { return cachekv.NewStore(f) }
func (f *flatKV) CacheWrapWithTrace(io.Writer, storetypes.TraceContext) storetypes.CacheWrap {
	return cachekv.NewStore(f)
}

func (f *flatKV) Get(key []byte) []byte {
	i := f.lower(key)
	if i < len(f.keys) && bytes.Equal(f.keys[i], key) {
		return f.vals[i]
	}
	return nil
}
func (f *flatKV) Has(key []byte) bool   { return f.Get(key) != nil }
func (f *flatKV) Set(key, value []byte) { panic("harness: a twap query wrote to the store") }
func (f *flatKV) Delete(key []byte)     { panic("harness: a twap query deleted from the store") }

func (f *flatKV) bounds(start, end []byte) (int, int) {
	lo := f.lower(start)
	hi := len(f.keys)
	if end != nil {
		hi = f.lower(end)
	}
	if hi < lo {
		hi = lo
	}
	return lo, hi
}

func (f *flatKV) Iterator(start, end []byte) storetypes.Iterator {
	lo, hi := f.bounds(start, end)
	return &flatIter{f: f, lo: lo, hi: hi, cur: lo, step: 1, start: start, end: end}
}

func (f *flatKV) ReverseIterator(start, end []byte) storetypes.Iterator {
	lo, hi := f.bounds(start, end)
	return &flatIter{f: f, lo: lo, hi: hi, cur: hi - 1, step: -1, start: start, end: end}
}

type flatIter struct {
	f          *flatKV
	lo, hi     int
	cur, step  int
	start, end []byte
}

func (it *flatIter) Domain() ([]byte, []byte) { return it.start, it.end }
func (it *flatIter) Valid() bool              { return it.cur >= it.lo && it.cur < it.hi }
func (it *flatIter) Next() {
	if !it.Valid() {
		panic("harness: Next on invalid iterator")
	}
	it.cur += it.step
}
func (it *flatIter) Key() []byte {
	if !it.Valid() {
		panic("harness: Key on invalid iterator")
	}
	return it.f.keys[it.cur]
}
func (it *flatIter) Value() []byte {
	if !it.Valid() {
		panic("harness: Value on invalid iterator")
	}
	return it.f.vals[it.cur]
}
func (it *flatIter) Error() error { return nil }
func (it *flatIter) Close() error { return nil }

type overrideMS struct {
	storetypes.MultiStore
	key storetypes.StoreKey
	kv  storetypes.KVStore
}

func (m overrideMS) GetKVStore(k storetypes.StoreKey) storetypes.KVStore {
	if k == m.key {
		return m.kv
	}
	return m.MultiStore.GetKVStore(k)
}

func (m overrideMS) GetStore(k storetypes.StoreKey) storetypes.Store {
	if k == m.key {
		return m.kv
	}
	return m.MultiStore.GetStore(k)
}

// flatContext returns a context whose twap store is the read-only copy; every other store is the
// parent's (the twap query path reads the twap store only).
func flatContext(ctx sdk.Context, key storetypes.StoreKey) sdk.Context {
	f := snapshotStore(ctx.MultiStore().GetKVStore(key))
	return ctx.WithMultiStore(overrideMS{MultiStore: ctx.MultiStore(), key: key, kv: f})
}
