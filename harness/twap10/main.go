// Command twap10 is the ledger explorer for C10 (TWAP = time-weighted mean of the recorded spot
// prices). See DESIGN.md §5 C10 and bin/checks.d/c10.json.
package main

import (
	"fmt"
	"os"
	"runtime/debug"
	"runtime/pprof"
	"strings"
	"syscall"
	"time"

	sdk "github.com/cosmos/cosmos-sdk/types"

	"github.com/osmosis-labs/osmosis/v31/zzverif/core"
)

const (
	msec = int64(1)
	sec  = int64(1000)
	hour = int64(3600 * 1000)
)

var configs = map[string]Config{
	// moderate prices, CL pool in lexicographic token order
	"moderate": {Name: "moderate", BalDenomA: "bar", BalDenomB: "foo", BalAmtA: 1000000000, BalAmtB: 2500000000, BalWA: 1, BalWB: 1, BalFee: "0.003",
		CLToken0: "eth", CLToken1: "usdc", CLAmt0: 1000000000, CLAmt1: 5000000000, CLSpread: "0.001", CLTickSp: 100, KeepMs: 8000, PruneLimit: 2},
	// weighted balancer pool; CL pool whose token0 sorts AFTER token1 (twap's canonical order is the reverse of the pool's);
	// prices below 0.1 in one direction (significant-figure grid finer than 1e-8)
	"reversed": {Name: "reversed", BalDenomA: "bar", BalDenomB: "foo", BalAmtA: 4000000000, BalAmtB: 150000000, BalWA: 3, BalWB: 1, BalFee: "0.01",
		CLToken0: "zen", CLToken1: "usdc", CLAmt0: 2000000000, CLAmt1: 700000000, CLSpread: "0.0005", CLTickSp: 1, KeepMs: 2000, PruneLimit: 1},
	// as "moderate", but the CL pool is created and funded in the same block
	"sameblock": {Name: "sameblock", BalDenomA: "bar", BalDenomB: "foo", BalAmtA: 1000000000, BalAmtB: 2500000000, BalWA: 1, BalWB: 1, BalFee: "0.003",
		CLToken0: "eth", CLToken1: "usdc", CLAmt0: 1000000000, CLAmt1: 5000000000, CLSpread: "0.001", CLTickSp: 100, KeepMs: 8000, PruneLimit: 2, SameBlockFund: true},
	// both pools start at a price of exactly 1
	"unit": {Name: "unit", BalDenomA: "bar", BalDenomB: "foo", BalAmtA: 1000000000, BalAmtB: 1000000000, BalWA: 1, BalWB: 1, BalFee: "0.003",
		CLToken0: "eth", CLToken1: "usdc", CLAmt0: 1000000000, CLAmt1: 1000000000, CLSpread: "0.001", CLTickSp: 100, KeepMs: 8000, PruneLimit: 2},
	// pool 1 has THREE assets, i.e. three asset pairs (module order: bar/baz, bar/foo, baz/foo), all observed. A pruning pass
	// has 4-5 records per pair to delete; 5 per block: the limit falls inside the pool, the next step re-walks its pairs
	"multi3": {Name: "multi3", BalDenomA: "bar", BalDenomB: "foo", BalAmtA: 1000000000, BalAmtB: 2500000000, BalWA: 1, BalWB: 1, BalFee: "0.003",
		BalExtra: []Asset{{"baz", 1600000000, 2}},
		CLToken0: "eth", CLToken1: "usdc", CLAmt0: 1000000000, CLAmt1: 5000000000, CLSpread: "0.001", CLTickSp: 100, KeepMs: 8000, PruneLimit: 5},
	// FOUR assets, six pairs (bar/baz, bar/foo, bar/foobar, baz/foo, baz/foobar, foo/foobar); observed: the 2nd, 5th and 6th. A swap
	// along bar/foo leaves the price of baz/foobar unchanged (the module still writes a record for it) and vice versa. The fourth
	// denom is called foobar on purpose: "foo" is a byte prefix of it, so the store keys of the pairs (baz,foo) and (baz,foobar)
	// differ only behind a common prefix (as gamm/pool/1 and gamm/pool/10 do)
	"multi4": {Name: "multi4", BalDenomA: "bar", BalDenomB: "foo", BalAmtA: 1000000000, BalAmtB: 2500000000, BalWA: 1, BalWB: 1, BalFee: "0.003",
		BalExtra: []Asset{{"baz", 1600000000, 2}, {"foobar", 700000000, 3}}, BalObserve: [][2]string{{"bar", "foo"}, {"baz", "foobar"}, {"foo", "foobar"}},
		CLToken0: "eth", CLToken1: "usdc", CLAmt0: 1000000000, CLAmt1: 5000000000, CLSpread: "0.001", CLTickSp: 100, KeepMs: 8000, PruneLimit: 9},
	// three-asset STABLESWAP pool (unit scaling factors), all three pairs observed
	"stable3": {Name: "stable3", BalDenomA: "bar", BalDenomB: "foo", BalAmtA: 1000000000, BalAmtB: 1300000000, BalWA: 1, BalWB: 1, BalFee: "0.003",
		BalExtra: []Asset{{"baz", 1150000000, 1}}, BalStable: true,
		CLToken0: "eth", CLToken1: "usdc", CLAmt0: 1000000000, CLAmt1: 5000000000, CLSpread: "0.001", CLTickSp: 100, KeepMs: 8000, PruneLimit: 4},
}

const (
	S = int64(1000000)
	M = int64(30000000)
	L = int64(300000000)
)

var alphabets = map[string][]Op{
	"wide": {
		// three symbols put the next block at a non-zero sub-millisecond phase (all others at phase 0), so
		// increasing and decreasing phases between consecutive records / query times both occur
		{A: "idle", Dt: sec, Ns: 900000}, {A: "idle", Dt: msec}, {A: "idle", Dt: 7 * sec}, {A: "idle", Dt: hour},
		{A: "swap", P: 0, D: 0, X: M, Dt: sec}, {A: "swap", P: 0, D: 1, X: L, Dt: 7 * sec, Ns: 100000}, {A: "swap", P: 0, D: 0, X: S, Dt: msec},
		{A: "swap", P: 1, D: 0, X: L, Dt: sec}, {A: "swap", P: 1, D: 1, X: M, Dt: 7 * sec, Ns: 500000}, {A: "swap", P: 1, D: 1, X: S, Dt: hour},
		{A: "toggle", Dt: sec}, {A: "toggle", Dt: 7 * sec},
		{A: "prune", Dt: sec}, {A: "prune", Dt: msec},
	},
	"narrow": {
		{A: "swap", P: 0, D: 0, X: M, Dt: sec, Ns: 900000}, {A: "swap", P: 0, D: 1, X: L, Dt: 7 * sec},
		{A: "swap", P: 1, D: 1, X: M, Dt: msec}, {A: "swap", P: 1, D: 0, X: L, Dt: 7 * sec, Ns: 100000},
		{A: "toggle", Dt: sec}, {A: "prune", Dt: sec},
	},
	// liquidity operations on the classic pool between swaps and idle blocks: a single-asset join or exit moves the price
	// without any swap message (amounts of the order of a large swap)
	"lp": {
		{A: "exit1", P: 0, D: 0, X: L, Dt: sec}, {A: "join1", P: 0, D: 1, X: L, Dt: 7 * sec, Ns: 300000},
		{A: "exit", P: 0, X: 20000000, Dt: sec}, {A: "join", P: 0, X: 10000000, Dt: msec},
		{A: "swap", P: 0, D: 0, X: M, Dt: sec}, {A: "idle", Dt: 7 * sec}, {A: "idle", Dt: msec},
	},
	// configurations whose pool 1 has three observed pairs: swaps along each of them (Q = index of the observed pair), in
	// both directions, so that the three price series move at different times and by different amounts
	"multi": {
		{A: "swap", P: 0, Q: 0, D: 0, X: M, Dt: sec, Ns: 900000}, {A: "swap", P: 0, Q: 2, D: 1, X: L, Dt: 7 * sec},
		{A: "swap", P: 0, Q: 1, D: 0, X: S, Dt: msec}, {A: "swap", P: 1, D: 1, X: M, Dt: sec, Ns: 100000},
		{A: "idle", Dt: 7 * sec}, {A: "prune", Dt: sec}, {A: "prune", Dt: msec},
	},
}

// seeds are reached from the state NewWorld returns (block 2; balancer pool live, CL pool created
// but never funded) through the same Apply path as the explorer.
func seedOps(name string) []Op {
	init := []Op{{A: "toggle", Dt: sec}}
	aged := append(append([]Op{}, init...),
		Op{A: "swap", P: 0, D: 0, X: M, Dt: sec, Ns: 700000}, Op{A: "swap", P: 1, D: 1, X: M, Dt: sec, Ns: 300000},
		Op{A: "swap", P: 0, D: 1, X: L, Dt: 7 * sec}, Op{A: "swap", P: 1, D: 0, X: L, Dt: msec},
		Op{A: "swap", P: 0, D: 0, X: S, Dt: sec}, Op{A: "swap", P: 1, D: 1, X: S, Dt: 7 * sec})
	switch name {
	case "genesis":
		return nil
	case "init":
		return init
	case "aged":
		return aged
	case "pruning":
		// a pass was started one block ago and has been interrupted by the per-block limit
		return append(aged, Op{A: "prune", Dt: sec})
	case "drained":
		return append(append([]Op{}, init...), Op{A: "swap", P: 1, D: 0, X: M, Dt: sec}, Op{A: "toggle", Dt: 7 * sec}, Op{A: "swap", P: 0, D: 0, X: M, Dt: sec})
	case "epoch":
		// the module's real trigger: the "day" epoch ends in the BeginBlocker of the block after the 25 h step
		return append(aged, Op{A: "idle", Dt: 25 * hour})
	}
	// seeds for the configurations with three observed pairs of pool 1
	aged3 := append(append([]Op{}, init...),
		Op{A: "swap", P: 0, Q: 0, D: 0, X: M, Dt: sec, Ns: 700000}, Op{A: "swap", P: 0, Q: 2, D: 1, X: M, Dt: sec, Ns: 300000},
		Op{A: "swap", P: 0, Q: 1, D: 1, X: L, Dt: 7 * sec}, Op{A: "swap", P: 1, D: 0, X: L, Dt: msec},
		Op{A: "swap", P: 0, Q: 2, D: 0, X: S, Dt: sec}, Op{A: "swap", P: 0, Q: 0, D: 1, X: S, Dt: 7 * sec, Ns: 400000})
	switch name {
	case "aged3":
		return aged3
	case "pruning3":
		// the cut-off (now - 8 s) falls strictly between two records of pool 1: the newest record older than it is what
		// answers the first second of the window; the pass was started one block ago and interrupted by the limit
		return append(aged3, Op{A: "idle", Dt: msec}, Op{A: "prune", Dt: sec})
	case "epoch3":
		return append(aged3, Op{A: "idle", Dt: 25 * hour})
	}
	panic("unknown seed " + name)
}

type run struct {
	Cfg   string `json:"config"`
	Seed  string `json:"seed"`
	Alpha string `json:"alphabet"`
	Depth int    `json:"depth"`
}

// planFor: the runs on two-asset pools, followed by the runs on pools with three and four assets.
func planFor(tier string) []run {
	return append(planTwoAsset(tier), planMultiAsset(tier)...)
}

// shardRotation: the explorer gives the root and the first level of every run to shard 0; the multi-asset runs are dealt to
// the shards rotated by a few places so that they start elsewhere. Which shard executes an item has no influence on
// what is executed (the merged counts are those of any other assignment).
func shardRotation(tier string, ri int) int {
	n := len(planTwoAsset(tier))
	if ri < n {
		return 0
	}
	return 1 + 3*(ri-n)
}

func planMultiAsset(tier string) []run {
	if tier == "thorough" {
		return []run{
			{"multi3", "init", "multi", 3}, {"multi3", "aged3", "multi", 3}, {"multi3", "pruning3", "multi", 3}, {"multi3", "epoch3", "multi", 3},
			{"multi4", "aged3", "multi", 2}, {"multi4", "pruning3", "multi", 3}, {"multi4", "epoch3", "multi", 2},
			{"stable3", "init", "multi", 2}, {"stable3", "pruning3", "multi", 2}, {"stable3", "epoch3", "multi", 2},
		}
	}
	return []run{
		{"multi3", "init", "multi", 2}, {"multi3", "aged3", "multi", 2}, {"multi3", "pruning3", "multi", 2}, {"multi3", "epoch3", "multi", 2},
		{"multi4", "pruning3", "multi", 2},
	}
}

func planTwoAsset(tier string) []run {
	if tier == "thorough" {
		return []run{
			{"moderate", "genesis", "wide", 3}, {"moderate", "init", "wide", 4}, {"moderate", "init", "narrow", 5},
			{"moderate", "aged", "wide", 2}, {"moderate", "aged", "narrow", 3}, {"moderate", "pruning", "wide", 3},
			{"moderate", "drained", "wide", 3}, {"moderate", "epoch", "wide", 2},
			{"reversed", "init", "wide", 3}, {"reversed", "init", "narrow", 4}, {"reversed", "aged", "narrow", 2},
			{"reversed", "pruning", "wide", 2}, {"reversed", "drained", "wide", 2},
			{"sameblock", "genesis", "wide", 2}, {"sameblock", "genesis", "narrow", 3},
			{"unit", "init", "narrow", 2}, {"unit", "aged", "narrow", 1},
			{"moderate", "init", "lp", 4}, {"moderate", "aged", "lp", 3}, {"reversed", "init", "lp", 3},
		}
	}
	return []run{
		{"moderate", "genesis", "wide", 2}, {"moderate", "init", "wide", 3},
		{"moderate", "aged", "narrow", 2}, {"moderate", "pruning", "wide", 2}, {"moderate", "drained", "wide", 2}, {"moderate", "epoch", "narrow", 1},
		{"reversed", "init", "narrow", 3}, {"reversed", "pruning", "narrow", 2},
		{"sameblock", "genesis", "narrow", 2},
		{"unit", "init", "narrow", 1},
		{"moderate", "init", "lp", 3},
	}
}

func buildSeed(w *World, ctx sdk.Context, l *Ledger, name string) (sdk.Context, *Ledger, error) {
	ctx, _ = ctx.CacheContext()
	l = l.Clone()
	var ferr error
	for _, op := range seedOps(name) {
		var out string
		ctx, out = w.Apply(ctx, l, op, func(a, s, d string) { ferr = fmt.Errorf("%s: %s", a, d) })
		if out != "ok" {
			return ctx, l, fmt.Errorf("seed %s: op %s: %s", name, op, out)
		}
	}
	return ctx, l, ferr
}

type replayCfg struct {
	Config Config `json:"config"`
	Seed   string `json:"seed_state"`
	Ops    []Op   `json:"ops"`
}

func runReplay(f *core.Flags, r *core.Result) {
	var rp replayCfg
	core.ReadReplay(f.Replay, &rp)
	w, ctx0, l0 := NewWorld(rp.Config, r)
	defer w.Env.Close()
	ctx, l, err := buildSeed(w, ctx0, l0, rp.Seed)
	if err != nil {
		fmt.Fprintln(os.Stderr, "harness: seed failed during replay:", err)
		os.Exit(2)
	}
	fail := func(a, s, d string) {
		r.AddViolation(core.Violation{Property: f.Prop, Assertion: a, Signature: s, Detail: d, Replay: rp})
	}
	w.Check(ctx, l, fail)
	r.States++
	for i, op := range rp.Ops {
		var out string
		ctx, out = w.Apply(ctx, l, op, fail)
		fmt.Printf("step %d %s -> %s\n", i, op, out)
		for pi := range w.Pairs {
			fmt.Printf("   %s\n", w.describe(l, pi, ms(ctx.BlockTime())))
		}
		w.Check(ctx, l, fail)
		r.Transitions++
		r.States++
	}
}

func main() {
	f := core.ParseFlags()
	r := core.NewResult(f.Prop)
	// the work is dominated by short-lived big.Int garbage of the code under test (LogBase2 in every interpolation)
	debug.SetGCPercent(300)
	if f.Prop != "C10" {
		fmt.Fprintln(os.Stderr, "twap10: unknown property", f.Prop)
		os.Exit(2)
	}
	if f.Replay != "" {
		runReplay(f, r)
		core.Finish(f, r)
		return
	}
	if pf := os.Getenv("VERIF_CPUPROFILE"); pf != "" {
		fh, err := os.Create(pf)
		if err == nil {
			_ = pprof.StartCPUProfile(fh)
			defer pprof.StopCPUProfile()
		}
	}
	plan := planFor(f.Tier)
	planIdx := map[run]int{}
	for i, rn := range plan {
		planIdx[rn] = i
	}
	if only := os.Getenv("VERIF_ONLY_RUN"); only != "" {
		var sel []run
		// development aid: comma-separated run names config/seed/alphabet; a trailing * matches any rest
		for _, rn := range plan {
			name := fmt.Sprintf("%s/%s/%s", rn.Cfg, rn.Seed, rn.Alpha)
			for _, o := range strings.Split(only, ",") {
				if name == o || (strings.HasSuffix(o, "*") && strings.HasPrefix(name, strings.TrimSuffix(o, "*"))) {
					sel = append(sel, rn)
					break
				}
			}
		}
		plan = sel
	}
	allSeen := core.NewSeen()
	worlds := map[string]*World{}
	type base struct {
		ctx sdk.Context
		l   *Ledger
	}
	bases := map[string]base{}
	dbg := os.Getenv("VERIF_DEBUG") != ""
	var runInfo []interface{}
	completed := map[string]interface{}{}
	for ri, rn := range plan {
		cfg := configs[rn.Cfg]
		w := worlds[rn.Cfg]
		if w == nil {
			var c sdk.Context
			var l *Ledger
			w, c, l = NewWorld(cfg, r)
			worlds[rn.Cfg] = w
			bases[rn.Cfg] = base{c, l}
		}
		b := bases[rn.Cfg]
		ctx, l, err := buildSeed(w, b.ctx, b.l, rn.Seed)
		if err != nil {
			fmt.Fprintln(os.Stderr, "harness: seed cannot be built:", err)
			os.Exit(2)
		}
		alpha := alphabets[rn.Alpha]
		var nChecks int
		var tChecks time.Duration
		sc := &core.Scenario[Op, *Ledger]{
			App: w.App, Stores: stores, Config: cfg,
			Enabled: w.Enabled(alpha),
			Apply:   w.Apply,
			Check: func(ctx sdk.Context, l *Ledger, fail func(a, s, d string)) {
				t0 := time.Now()
				w.Check(ctx, l, fail)
				nChecks++
				tChecks += time.Since(t0)
			},
			LedgerKey: func(l *Ledger) []byte { return l.digest() },
		}
		fr := *f
		fr.Shard = (f.Shard + shardRotation(f.Tier, planIdx[rn])) % f.NShards
		ex := core.NewExplorer(sc, &fr, r)
		t0 := time.Now()
		st0 := r.States
		ex.Run(rn.Seed, ctx, l, rn.Depth)
		name := fmt.Sprintf("%s/%s/%s/d%d", rn.Cfg, rn.Seed, rn.Alpha, rn.Depth)
		if dbg {
			fmt.Fprintf(os.Stderr, "run %s: states=%d checks=%d check-time=%s wall=%s\n", name, r.States-st0, nChecks, tChecks, time.Since(t0))
		}
		if r.Exhaustive {
			completed["sum_run_completed:"+name] = float64(1)
		}
		runInfo = append(runInfo, map[string]interface{}{"run": name, "config": cfg, "seed_ops": seedOps(rn.Seed), "alphabet": rn.Alpha, "depth": rn.Depth})
		for k := range ex.Seen {
			var h [32]byte
			copy(h[:], k[:])
			h[31] ^= byte(ri + 1)
			allSeen.Add(h)
		}
		if f.Expired() {
			r.Exhaustive = false
			break
		}
	}
	for _, w := range worlds {
		w.Env.Close()
	}
	for k, v := range completed {
		r.Extra[k] = v
	}
	allSeen.Dump(f.HashOut)
	var ru syscall.Rusage
	if syscall.Getrusage(syscall.RUSAGE_SELF, &ru) == nil {
		r.Extra["sum_cpu_s"] = float64(ru.Utime.Sec+ru.Stime.Sec) + float64(ru.Utime.Usec+ru.Stime.Usec)/1e6
	}
	r.Extra["runs"] = runInfo
	r.Extra["alphabets"] = alphabets
	r.Outcomes = int64(len(r.Rejected) + 1)
	core.Finish(f, r)
}

// stores hashed for state identity: everything the scenario's handlers, hooks and the twap
// EndBlocker can write or read.
var stores = []string{"twap", "gamm", "concentratedliquidity", "poolmanager", "bank", "acc", "epochs", "params"}
