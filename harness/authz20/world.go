package main

import (
	"fmt"
	"sort"
	"strings"
	"time"

	sdkmath "cosmossdk.io/math"
	sdk "github.com/cosmos/cosmos-sdk/types"
	authtypes "github.com/cosmos/cosmos-sdk/x/auth/types"
	govtypes "github.com/cosmos/cosmos-sdk/x/gov/types"
	"github.com/cosmos/gogoproto/proto"

	"github.com/osmosis-labs/osmosis/osmomath"
	"github.com/osmosis-labs/osmosis/v31/app"
	clmodel "github.com/osmosis-labs/osmosis/v31/x/concentrated-liquidity/model"
	cltypes "github.com/osmosis-labs/osmosis/v31/x/concentrated-liquidity/types"
	"github.com/osmosis-labs/osmosis/v31/x/gamm/pool-models/balancer"
	gammtypes "github.com/osmosis-labs/osmosis/v31/x/gamm/types"
	lockuptypes "github.com/osmosis-labs/osmosis/v31/x/lockup/types"
	pmtypes "github.com/osmosis-labs/osmosis/v31/x/poolmanager/types"
	sftypes "github.com/osmosis-labs/osmosis/v31/x/superfluid/types"
	tftypes "github.com/osmosis-labs/osmosis/v31/x/tokenfactory/types"

	"github.com/osmosis-labs/osmosis/v31/zzverif/core"
)

const (
	Quote = "usdc"
)

// Users are the named key-holding accounts. A creates everything, B receives transfers / becomes admin,
// C is unrelated, F is the one address on the lockup force-unlock allow-list.
var Users = []string{"A", "B", "C", "F"}

// SenderModules are the module accounts used as senders (assignment list). concentratedliquidity has no
// registered module account in this application: its derived address is used as sender all the same.
var SenderModules = []string{"gamm", "lockup", "superfluid", "concentratedliquidity", "tokenfactory", govtypes.ModuleName, authtypes.FeeCollectorName}

// ProtectedModules are the module accounts used as mint / burn / force-transfer targets. All are registered
// in the application's module-account permission table (checked at start-up; a miss is a harness error).
var ProtectedModules = []string{"gamm", "lockup", "superfluid", "tokenfactory", govtypes.ModuleName, authtypes.FeeCollectorName, "distribution", "mint", "bonded_tokens_pool", "incentives", "poolmanager", "txfees", "protorev"}

// Config is the (single) configuration; it is copied into every replay artefact.
type Config struct {
	Scenario string `json:"scenario"`
}

// Op is one symbol of the life-cycle alphabet. Every op is sent by the object's CURRENT owner / admin per
// the ledger (except "govtransfer"), so that accepted ops are legitimate hand-overs.
type Op struct {
	K  string `json:"k"`            // transfer govtransfer withdrawall chadmin renounce createdenom unlock setrecv sfundelegate sfunbond
	I  int    `json:"i"`            // index into the ledger's positions / locks / denoms
	To string `json:"to,omitempty"` // recipient / new admin / new receiver (account name)
}

func (o Op) String() string { return fmt.Sprintf("%s(%d,%s)", o.K, o.I, o.To) }

// Pos, Lock, Denom are the harness's own records, built from requests and responses only.
type Pos struct {
	ID     uint64
	Owner  string
	Prev   []string
	LockID uint64 // underlying lock (superfluid full-range position)
	Gone   bool
	// NoClaims: born after the fee-paying swaps and the incentive's first minute - nothing has accrued to it. A handler
	// that returns early when there is nothing to claim must still have checked the sender before.
	NoClaims bool
}

type Lock struct {
	ID        uint64
	Owner     string
	Denom     string
	Amt       int64
	Dur       time.Duration
	Unlocking bool
	Receiver  string // "" = owner
	SF        string // "" bonded undelegating unbonding
	PosID     uint64
	Gone      bool
}

type Denom struct {
	Sub     string
	Name    string
	Creator string
	Admin   string // account name; "" = nobody
	Prev    []string
	Exists  bool
}

type Ledger struct {
	Pos    []Pos
	Locks  []Lock
	Denoms []Denom
}

func (l *Ledger) Clone() *Ledger {
	n := &Ledger{Pos: append([]Pos{}, l.Pos...), Locks: append([]Lock{}, l.Locks...), Denoms: append([]Denom{}, l.Denoms...)}
	for i := range n.Pos {
		n.Pos[i].Prev = append([]string{}, l.Pos[i].Prev...)
	}
	for i := range n.Denoms {
		n.Denoms[i].Prev = append([]string{}, l.Denoms[i].Prev...)
	}
	return n
}

func has(xs []string, x string) bool {
	for _, y := range xs {
		if y == x {
			return true
		}
	}
	return false
}

func (p Pos) Variant() string {
	switch {
	case p.Gone:
		return "pos:withdrawn"
	case p.LockID != 0:
		return "pos:sf-locked"
	case len(p.Prev) == 0 && p.NoClaims:
		return "pos:fresh-nothing-to-claim"
	case len(p.Prev) == 0:
		return "pos:fresh"
	case has(p.Prev, p.Owner):
		return "pos:transferred-back"
	}
	return "pos:transferred"
}

func (k Lock) Variant() string {
	s := "lock:plain"
	switch {
	case k.Gone:
		s = "lock:gone"
	case k.SF != "":
		s = "lock:sf-" + k.SF
	case k.Unlocking:
		s = "lock:unlocking"
	}
	if k.PosID != 0 {
		s += "+position"
	}
	if k.Receiver != "" {
		s += "+receiver-redirected"
	}
	if k.Owner == "F" {
		s += "+allowlisted-owner"
	}
	if strings.HasPrefix(k.Denom, "factory/") {
		s += "+factory-denom"
	}
	return s
}

func (d Denom) Variant() string {
	switch {
	case !d.Exists:
		return "denom:nonexistent"
	case d.Admin == "":
		return "denom:renounced"
	case len(d.Prev) == 0:
		return "denom:admin-creator"
	case d.Admin == d.Creator:
		return "denom:admin-back-to-creator"
	}
	return "denom:admin-changed"
}

// World is one application instance with the base scenario built.
type World struct {
	Env        *core.Env
	App        *app.OsmosisApp
	Ctx        sdk.Context // base state of the scenario
	Base       *Ledger
	PoolID     uint64 // concentrated pool
	GammID     uint64 // balancer pool whose shares are locked
	Bond       string
	Val        string
	PoolAddr   string
	GammDenom  string
	Log        []string
	Unroutable []string
}

func (w *World) Addr(name string) string {
	switch {
	case name == "":
		return ""
	case name == "pool":
		return w.PoolAddr
	case strings.HasPrefix(name, "mod:"):
		return authtypes.NewModuleAddress(name[4:]).String()
	}
	return core.Acc(name).String()
}

func mustUnmarshal(res *sdk.Result, m proto.Message) {
	if len(res.MsgResponses) > 0 {
		if err := proto.Unmarshal(res.MsgResponses[0].Value, m); err != nil {
			panic(err)
		}
		return
	}
	if err := proto.Unmarshal(res.Data, m); err != nil {
		panic(err)
	}
}

func (w *World) must(ctx sdk.Context, what string, msg sdk.Msg) *sdk.Result {
	r := core.Deliver(w.App, ctx, msg)
	if !r.OK() {
		if authErr.MatchString(r.Err.Error()) && setupRefused != nil {
			// every scenario step is sent by the rightful owner / admin: an authorisation refusal here is a finding
			setupRefused(what, fmt.Sprintf("scenario step %q, sent by the rightful owner/admin, was refused with an authorisation error: %v; msg=%s", what, r.Err, msg))
		}
		panic(fmt.Sprintf("harness: scenario step %q failed: %v", what, r.Err))
	}
	w.Log = append(w.Log, what)
	return r.Res
}

// setupRefused is installed by main: it reports a violation found while building the scenario and ends the run.
var setupRefused func(what, detail string)

func dec(n int64) osmomath.Dec { return osmomath.NewDec(n) }
func sint(n int64) sdkmath.Int { return sdkmath.NewInt(n) }

const (
	day = 24 * time.Hour
)

// NewWorld builds the application and the base scenario. Everything that has a message goes through the
// message server; the three governance-only settings (superfluid assets, force-unlock allow-list, CL
// permissionless pool creation / quote denoms) and the incentive record are set through the keepers, and the
// renounced denom comes from genesis (MsgChangeAdmin cannot express an empty admin, see table.go).
func NewWorld() *World {
	big := "1000000000000000000"
	fund := core.Coins("uosmo", big, "stake", big, Quote, big, "eth", big)
	bal := map[string]sdk.Coins{}
	for _, u := range Users {
		bal[u] = fund
	}
	bal["I"] = fund
	renounced := ""
	env := core.NewEnv(core.GenesisOpts{Balances: bal, Mutate: func(a *app.OsmosisApp, gs app.GenesisState) {
		var tf tftypes.GenesisState
		a.AppCodec().MustUnmarshalJSON(gs[tftypes.ModuleName], &tf)
		renounced = "factory/" + core.Acc("A").String() + "/ren"
		tf.FactoryDenoms = append(tf.FactoryDenoms, tftypes.GenesisDenom{Denom: renounced, AuthorityMetadata: tftypes.DenomAuthorityMetadata{Admin: ""}})
		gs[tftypes.ModuleName] = a.AppCodec().MustMarshalJSON(&tf)
	}})
	a, ctx := env.App, env.Ctx
	w := &World{Env: env, App: a}
	bond, err := a.StakingKeeper.BondDenom(ctx)
	if err != nil {
		panic(err)
	}
	w.Bond = bond
	w.Val = env.Vals[0].String()
	A, B, C, F := core.Acc("A"), core.Acc("B"), core.Acc("C"), core.Acc("F")

	// governance-level settings
	p := cltypes.DefaultParams()
	p.IsPermissionlessPoolCreationEnabled = true
	a.ConcentratedLiquidityKeeper.SetParams(ctx, p)
	qd := append(pmtypes.DefaultParams().AuthorizedQuoteDenoms, Quote, bond)
	a.PoolManagerKeeper.SetParam(ctx, pmtypes.KeyAuthorizedQuoteDenoms, qd)
	lp := a.LockupKeeper.GetParams(ctx)
	lp.ForceUnlockAllowedAddresses = []string{F.String()}
	a.LockupKeeper.SetParams(ctx, lp)

	l := &Ledger{}

	// pool 1: concentrated bond/usdc
	cm := clmodel.NewMsgCreateConcentratedPool(A, bond, Quote, 100, osmomath.MustNewDecFromStr("0.003"))
	var cpr clmodel.MsgCreateConcentratedPoolResponse
	mustUnmarshal(w.must(ctx, "create concentrated pool", &cm), &cpr)
	w.PoolID = cpr.PoolID
	pool, err := a.ConcentratedLiquidityKeeper.GetConcentratedPoolById(ctx, w.PoolID)
	if err != nil {
		panic(err)
	}
	w.PoolAddr = pool.GetAddress().String()

	createPos := func(owner string, lo, hi int64, amt int64) uint64 {
		var r cltypes.MsgCreatePositionResponse
		mustUnmarshal(w.must(ctx, "create position "+owner, &cltypes.MsgCreatePosition{PoolId: w.PoolID, Sender: core.Acc(owner).String(), LowerTick: lo, UpperTick: hi,
			TokensProvided: core.Coins(pool.GetToken0(), amt, pool.GetToken1(), amt), TokenMinAmount0: sdkmath.ZeroInt(), TokenMinAmount1: sdkmath.ZeroInt()}), &r)
		return r.PositionId
	}
	// a full-range position first: it sets the price to 1 and gives the pool full-range liquidity, which the
	// superfluid multiplier of cl/pool/1 is computed from
	full := createPos("C", cltypes.MinInitializedTick, cltypes.MaxTick, 100000000)
	_ = full
	l.Pos = append(l.Pos, Pos{ID: createPos("A", -10000, 10000, 10000000), Owner: "A"}) // 0 fresh
	l.Pos = append(l.Pos, Pos{ID: createPos("A", -20000, 20000, 10000000), Owner: "A"}) // 1 to be transferred A->B
	l.Pos = append(l.Pos, Pos{ID: createPos("B", -5000, 30000, 10000000), Owner: "B"})  // 2 B's own

	// pool 2: balancer bond/usdc, shares are the lockable superfluid asset
	bm := balancer.NewMsgCreateBalancerPool(A, balancer.PoolParams{SwapFee: osmomath.MustNewDecFromStr("0.003"), ExitFee: osmomath.ZeroDec()},
		[]balancer.PoolAsset{{Token: sdk.NewCoin(bond, sint(1000000000)), Weight: sint(1)}, {Token: sdk.NewCoin(Quote, sint(1000000000)), Weight: sint(1)}}, "")
	var bpr balancer.MsgCreateBalancerPoolResponse
	mustUnmarshal(w.must(ctx, "create balancer pool", &bm), &bpr)
	w.GammID = bpr.PoolID
	w.GammDenom = gammtypes.GetPoolShareDenom(w.GammID)
	shares := a.BankKeeper.GetBalance(ctx, A, w.GammDenom).Amount
	part := shares.QuoRaw(10)
	for _, to := range []sdk.AccAddress{B, C, F} {
		if err := a.BankKeeper.SendCoins(ctx, A, to, sdk.NewCoins(sdk.NewCoin(w.GammDenom, part))); err != nil {
			panic(err)
		}
	}

	// superfluid assets (a governance proposal on a live chain)
	for _, as := range []sftypes.SuperfluidAsset{{Denom: w.GammDenom, AssetType: sftypes.SuperfluidAssetTypeLPShare},
		{Denom: cltypes.GetConcentratedLockupDenomFromPoolId(w.PoolID), AssetType: sftypes.SuperfluidAssetTypeConcentratedShare}} {
		if err := a.SuperfluidKeeper.AddNewSuperfluidAsset(ctx, as); err != nil {
			panic(fmt.Sprintf("harness: superfluid asset %s: %v", as.Denom, err))
		}
		if a.SuperfluidKeeper.GetOsmoEquivalentMultiplier(ctx, as.Denom).IsZero() {
			panic("harness: zero superfluid multiplier for " + as.Denom)
		}
	}
	sp, err := a.StakingKeeper.GetParams(ctx)
	if err != nil {
		panic(err)
	}
	unb := sp.UnbondingTime
	// the superfluid gauge of an intermediary account needs the unbonding time among the lockable durations
	// (as on a live chain)
	a.IncentivesKeeper.SetLockableDurations(ctx, append(a.IncentivesKeeper.GetLockableDurations(ctx), unb))

	// tokenfactory denoms in A's namespace
	mkDenom := func(sub string) string {
		var r tftypes.MsgCreateDenomResponse
		mustUnmarshal(w.must(ctx, "create denom "+sub, tftypes.NewMsgCreateDenom(A.String(), sub)), &r)
		return r.NewTokenDenom
	}
	tok := mkDenom("tok")
	chg := mkDenom("chg")
	for _, d := range []string{tok, chg} {
		for _, to := range []sdk.AccAddress{A, B, C} {
			w.must(ctx, "mint "+d, &tftypes.MsgMint{Sender: A.String(), Amount: sdk.NewCoin(d, sint(1000000)), MintToAddress: to.String()})
		}
	}
	l.Denoms = append(l.Denoms, Denom{Sub: "tok", Name: tok, Creator: "A", Admin: "A", Exists: true})
	l.Denoms = append(l.Denoms, Denom{Sub: "chg", Name: chg, Creator: "A", Admin: "A", Exists: true})
	l.Denoms = append(l.Denoms, Denom{Sub: "ren", Name: renounced, Creator: "A", Admin: "", Prev: []string{"A"}, Exists: true})
	l.Denoms = append(l.Denoms, Denom{Sub: "none", Name: "factory/" + A.String() + "/none", Creator: "A", Admin: "", Exists: false})

	// locks
	lock := func(owner string, denom string, amt int64, dur time.Duration) uint64 {
		var r lockuptypes.MsgLockTokensResponse
		mustUnmarshal(w.must(ctx, "lock "+owner, &lockuptypes.MsgLockTokens{Owner: core.Acc(owner).String(), Duration: dur, Coins: sdk.NewCoins(sdk.NewCoin(denom, sint(amt)))}), &r)
		return r.ID
	}
	amt := part.QuoRaw(20).Int64()
	l.Locks = append(l.Locks, Lock{ID: lock("A", w.GammDenom, amt, unb+day), Owner: "A", Denom: w.GammDenom, Amt: amt, Dur: unb + day})         // 0 plain, superfluid-eligible
	l.Locks = append(l.Locks, Lock{ID: lock("A", w.GammDenom, amt, time.Hour), Owner: "A", Denom: w.GammDenom, Amt: amt, Dur: time.Hour})       // 1 -> unlocking
	l.Locks = append(l.Locks, Lock{ID: lock("A", w.GammDenom, amt, 2*time.Hour), Owner: "A", Denom: w.GammDenom, Amt: amt, Dur: 2 * time.Hour}) // 2 -> receiver B
	l.Locks = append(l.Locks, Lock{ID: lock("B", w.GammDenom, amt, unb+day), Owner: "B", Denom: w.GammDenom, Amt: amt, Dur: unb + day})         // 3 B's own
	l.Locks = append(l.Locks, Lock{ID: lock("F", w.GammDenom, amt, time.Hour), Owner: "F", Denom: w.GammDenom, Amt: amt, Dur: time.Hour})       // 4 allow-listed owner
	l.Locks = append(l.Locks, Lock{ID: lock("C", tok, 1000, time.Hour), Owner: "C", Denom: tok, Amt: 1000, Dur: time.Hour})                     // 5 factory denom held by the lockup module account
	// 6: lock + superfluid delegate in one message
	var lsr sftypes.MsgLockAndSuperfluidDelegateResponse
	mustUnmarshal(w.must(ctx, "lock and superfluid delegate", &sftypes.MsgLockAndSuperfluidDelegate{Sender: A.String(), Coins: sdk.NewCoins(sdk.NewCoin(w.GammDenom, sint(amt))), ValAddr: w.Val}), &lsr)
	l.Locks = append(l.Locks, Lock{ID: lsr.ID, Owner: "A", Denom: w.GammDenom, Amt: amt, Dur: unb, SF: "bonded"})
	// 7: delegated, then undelegated
	id7 := lock("A", w.GammDenom, amt, unb+2*day)
	w.must(ctx, "superfluid delegate", &sftypes.MsgSuperfluidDelegate{Sender: A.String(), LockId: id7, ValAddr: w.Val})
	w.must(ctx, "superfluid undelegate", &sftypes.MsgSuperfluidUndelegate{Sender: A.String(), LockId: id7})
	l.Locks = append(l.Locks, Lock{ID: id7, Owner: "A", Denom: w.GammDenom, Amt: amt, Dur: unb + 2*day, SF: "undelegating"})
	// position 3: full range, locked and superfluid delegated in one message
	var fr sftypes.MsgCreateFullRangePositionAndSuperfluidDelegateResponse
	mustUnmarshal(w.must(ctx, "create full range position and superfluid delegate", &sftypes.MsgCreateFullRangePositionAndSuperfluidDelegate{Sender: A.String(),
		Coins: core.Coins(pool.GetToken0(), 10000000, pool.GetToken1(), 10000000), ValAddr: w.Val, PoolId: w.PoolID}), &fr)
	cld := cltypes.GetConcentratedLockupDenomFromPoolId(w.PoolID)
	l.Pos = append(l.Pos, Pos{ID: fr.PositionID, Owner: "A", LockID: fr.LockID})
	l.Locks = append(l.Locks, Lock{ID: fr.LockID, Owner: "A", Denom: cld, Amt: 0, Dur: unb, SF: "bonded", PosID: fr.PositionID}) // 8

	// life-cycle steps of the base scenario, through the same Apply as the explorer
	w.Base = l
	w.Ctx = ctx
	for _, op := range []Op{{K: "transfer", I: 1, To: "B"}, {K: "chadmin", I: 1, To: "B"}, {K: "unlock", I: 1}, {K: "setrecv", I: 2, To: "B"}} {
		var ferr string
		_, out := w.Apply(ctx, l, op, func(a, s, d string) { ferr = a + ": " + d })
		if out != "ok" && authErr.MatchString(out) && setupRefused != nil {
			setupRefused(op.K, fmt.Sprintf("base life-cycle op %s, sent by the current owner/admin per the ledger, was refused with an authorisation error: %s", op, out))
		}
		if out != "ok" || ferr != "" {
			panic(fmt.Sprintf("harness: base op %s: %s %s", op, out, ferr))
		}
	}

	// make the claims non-trivial: an incentive, a swap each way, one minute
	if _, err := a.ConcentratedLiquidityKeeper.CreateIncentive(ctx, w.PoolID, core.Acc("I"), sdk.NewCoin("eth", sint(100000000)), dec(1000), ctx.BlockTime(), time.Nanosecond); err != nil {
		panic(err)
	}
	for _, in := range []string{pool.GetToken0(), pool.GetToken1()} {
		out := pool.GetToken1()
		if in == out {
			out = pool.GetToken0()
		}
		w.must(ctx, "swap", &pmtypes.MsgSwapExactAmountIn{Sender: C.String(), Routes: []pmtypes.SwapAmountInRoute{{PoolId: w.PoolID, TokenOutDenom: out}},
			TokenIn: sdk.NewCoin(in, sint(1000000)), TokenOutMinAmount: sdkmath.OneInt()})
	}
	next, err := core.NextBlock(a, ctx, 61*time.Second)
	if err != nil {
		panic(err)
	}
	w.Ctx = next
	{
		var r cltypes.MsgCreatePositionResponse
		mustUnmarshal(w.must(next, "create position A (nothing to claim)", &cltypes.MsgCreatePosition{PoolId: w.PoolID, Sender: core.Acc("A").String(), LowerTick: -30000, UpperTick: 40000,
			TokensProvided: core.Coins(pool.GetToken0(), 10000000, pool.GetToken1(), 10000000), TokenMinAmount0: sdkmath.ZeroInt(), TokenMinAmount1: sdkmath.ZeroInt()}), &r)
		l.Pos = append(l.Pos, Pos{ID: r.PositionId, Owner: "A", NoClaims: true})
	}

	// the hand-listed protected module accounts must be registered module accounts of the application
	reg := app.ModuleAccountAddrs()
	for _, m := range ProtectedModules {
		if !reg[authtypes.NewModuleAddress(m).String()] {
			panic("harness: " + m + " is not a registered module account")
		}
	}
	return w
}

// errClass maps an error to a short stable class (numbers and addresses stripped).
func errClass(err error) string {
	if err == nil {
		return "ok"
	}
	m := err.Error()
	var out []rune
	skip := false
	for _, c := range m {
		if c >= '0' && c <= '9' {
			continue
		}
		if c == '(' || c == '{' || c == '[' {
			skip = true
			continue
		}
		if c == ')' || c == '}' || c == ']' {
			skip = false
			continue
		}
		if skip {
			continue
		}
		out = append(out, c)
	}
	s := strings.Join(strings.Fields(string(out)), " ")
	// bech32 payloads and factory denoms
	f := strings.Fields(s)
	for i, x := range f {
		if strings.Contains(x, "osmo") && len(x) > 20 {
			f[i] = "<addr>"
		}
	}
	s = strings.Join(f, " ")
	if len(s) > 90 {
		s = s[:90]
	}
	return s
}

// Apply executes one life-cycle op (sent by the current owner/admin per the ledger) and updates the ledger
// from the request and the response.
func (w *World) Apply(ctx sdk.Context, l *Ledger, op Op, fail func(a, s, d string)) (sdk.Context, string) {
	a := w.App
	rej := func(err error) (sdk.Context, string) { return ctx, "rejected:" + op.K + ":" + errClass(err) }
	switch op.K {
	case "transfer", "govtransfer":
		p := &l.Pos[op.I]
		sender := w.Addr(p.Owner)
		if op.K == "govtransfer" {
			sender = w.Addr("mod:gov")
		}
		r := core.Deliver(a, ctx, &cltypes.MsgTransferPositions{PositionIds: []uint64{p.ID}, Sender: sender, NewOwner: w.Addr(op.To)})
		if !r.OK() {
			return rej(r.Err)
		}
		p.Prev = append(p.Prev, p.Owner)
		p.Owner = op.To
	case "withdrawall":
		p := &l.Pos[op.I]
		pos, err := a.ConcentratedLiquidityKeeper.GetPosition(ctx, p.ID)
		if err != nil {
			return rej(err)
		}
		r := core.Deliver(a, ctx, &cltypes.MsgWithdrawPosition{PositionId: p.ID, Sender: w.Addr(p.Owner), LiquidityAmount: pos.Liquidity})
		if !r.OK() {
			return rej(r.Err)
		}
		p.Gone = true
	case "chadmin":
		d := &l.Denoms[op.I]
		r := core.Deliver(a, ctx, tftypes.NewMsgChangeAdmin(w.Addr(d.Admin), d.Name, w.Addr(op.To)))
		if !r.OK() {
			return rej(r.Err)
		}
		d.Prev = append(d.Prev, d.Admin)
		d.Admin = op.To
	case "renounce":
		// MsgChangeAdmin refuses an empty new admin in ValidateBasic, so giving up the admin role is not
		// expressible as a message; the keeper itself (genesis import, wasm bindings' parse step aside)
		// stores "" with the very write below. The message is sent first and must be refused.
		d := &l.Denoms[op.I]
		r := core.Deliver(a, ctx, tftypes.NewMsgChangeAdmin(w.Addr(d.Admin), d.Name, ""))
		if r.OK() {
			fail("renounce.message-unexpectedly-accepted", "", "MsgChangeAdmin with empty new admin accepted")
		}
		bz, err := proto.Marshal(&tftypes.DenomAuthorityMetadata{Admin: ""})
		if err != nil {
			panic(err)
		}
		a.TokenFactoryKeeper.GetDenomPrefixStore(ctx, d.Name).Set([]byte(tftypes.DenomAuthorityMetadataKey), bz)
		d.Prev = append(d.Prev, d.Admin)
		d.Admin = ""
	case "createdenom":
		d := &l.Denoms[op.I]
		r := core.Deliver(a, ctx, tftypes.NewMsgCreateDenom(w.Addr(d.Creator), d.Sub))
		if !r.OK() {
			return rej(r.Err)
		}
		var resp tftypes.MsgCreateDenomResponse
		mustUnmarshal(r.Res, &resp)
		if resp.NewTokenDenom != d.Name {
			fail("createdenom.name", "", resp.NewTokenDenom+" != "+d.Name)
		}
		d.Exists = true
		d.Admin = d.Creator
	case "unlock":
		k := &l.Locks[op.I]
		r := core.Deliver(a, ctx, &lockuptypes.MsgBeginUnlocking{Owner: w.Addr(k.Owner), ID: k.ID})
		if !r.OK() {
			return rej(r.Err)
		}
		k.Unlocking = true
	case "setrecv":
		k := &l.Locks[op.I]
		r := core.Deliver(a, ctx, &lockuptypes.MsgSetRewardReceiverAddress{Owner: w.Addr(k.Owner), LockID: k.ID, RewardReceiver: w.Addr(op.To)})
		if !r.OK() {
			return rej(r.Err)
		}
		k.Receiver = op.To
		if op.To == k.Owner {
			k.Receiver = ""
		}
	case "sfundelegate":
		k := &l.Locks[op.I]
		r := core.Deliver(a, ctx, &sftypes.MsgSuperfluidUndelegate{Sender: w.Addr(k.Owner), LockId: k.ID})
		if !r.OK() {
			return rej(r.Err)
		}
		k.SF = "undelegating"
	case "sfunbond":
		k := &l.Locks[op.I]
		r := core.Deliver(a, ctx, &sftypes.MsgSuperfluidUnbondLock{Sender: w.Addr(k.Owner), LockId: k.ID})
		if !r.OK() {
			return rej(r.Err)
		}
		k.SF = "unbonding"
		k.Unlocking = true
	default:
		panic("unknown op " + op.K)
	}
	return ctx, "ok"
}

// Alphabet: which life-cycle ops are tried in a state (decided from the ledger only).
type Alphabet struct {
	GovTransfer bool
	Withdraw    bool
	Targets     []string
}

func (w *World) Enabled(al *Alphabet) func(ctx sdk.Context, l *Ledger, depth int) []Op {
	return func(ctx sdk.Context, l *Ledger, depth int) []Op {
		var ops []Op
		others := func(cur string) []string {
			var o []string
			for _, t := range al.Targets {
				if t != cur {
					o = append(o, t)
				}
			}
			return o
		}
		for i, p := range l.Pos {
			if p.Gone || p.LockID != 0 || i == 2 {
				continue
			}
			for _, t := range others(p.Owner) {
				ops = append(ops, Op{K: "transfer", I: i, To: t})
			}
			if al.GovTransfer && i == 0 {
				ops = append(ops, Op{K: "govtransfer", I: i, To: others(p.Owner)[0]})
			}
			if al.Withdraw && i == 0 {
				ops = append(ops, Op{K: "withdrawall", I: i})
			}
		}
		for i, d := range l.Denoms {
			switch {
			case !d.Exists:
				ops = append(ops, Op{K: "createdenom", I: i})
			case d.Admin != "":
				for _, t := range others(d.Admin) {
					ops = append(ops, Op{K: "chadmin", I: i, To: t})
				}
				ops = append(ops, Op{K: "renounce", I: i})
			}
		}
		for i, k := range l.Locks {
			if k.Gone || k.Owner == "F" || k.Owner == "C" {
				continue
			}
			switch k.SF {
			case "":
				if !k.Unlocking {
					ops = append(ops, Op{K: "unlock", I: i})
				}
			case "bonded":
				if k.PosID == 0 {
					ops = append(ops, Op{K: "sfundelegate", I: i})
				}
			case "undelegating":
				ops = append(ops, Op{K: "sfunbond", I: i})
			}
			if k.Owner == "A" && k.SF == "" && (i == 0 || i == 2) {
				to := "B"
				if k.Receiver == "B" {
					to = "A"
				}
				ops = append(ops, Op{K: "setrecv", I: i, To: to})
			}
		}
		return ops
	}
}

func sortedKeys(m map[string]int64) []string {
	ks := make([]string, 0, len(m))
	for k := range m {
		ks = append(ks, k)
	}
	sort.Strings(ks)
	return ks
}
