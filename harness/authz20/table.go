package main

import (
	"fmt"
	"os"
	"sort"
	"strings"
	"time"

	sdkmath "cosmossdk.io/math"
	sdk "github.com/cosmos/cosmos-sdk/types"
	banktypes "github.com/cosmos/cosmos-sdk/x/bank/types"

	"github.com/osmosis-labs/osmosis/osmomath"
	clmodel "github.com/osmosis-labs/osmosis/v31/x/concentrated-liquidity/model"
	cltypes "github.com/osmosis-labs/osmosis/v31/x/concentrated-liquidity/types"
	lockuptypes "github.com/osmosis-labs/osmosis/v31/x/lockup/types"
	sftypes "github.com/osmosis-labs/osmosis/v31/x/superfluid/types"
	tftypes "github.com/osmosis-labs/osmosis/v31/x/tokenfactory/types"
)

// The message table. It is keyed by the type URLs the application itself registers: at start-up the
// interface registry is asked for every sdk.Msg implementation whose URL belongs to one of the four modules,
// each must have a handler in the MsgServiceRouter and an annotation below, and every annotation must
// correspond to a registered type. Either mismatch is a harness error (exit 2): a message added to (or
// removed from) those modules cannot be skipped silently.

var modulePrefixes = []string{"/osmosis.concentratedliquidity.", "/osmosis.lockup.", "/osmosis.superfluid.", "/osmosis.tokenfactory."}

// unroutable: types registered as sdk.Msg in the interface registry that have no handler in the router.
var unroutable = map[string]string{
	"/osmosis.concentratedliquidity.v1beta1.MsgFungifyChargedPositions": "legacy type kept in the codec; no rpc in the Msg service, no handler: cannot be executed",
}

// Cell is one point of the (message, sender, object) cube in one state.
type Cell struct {
	Row    string  // short message type (+ [variant])
	ObjVar string  // object variant label from the ledger
	ObjKey string  // which object (for the detail text)
	Sender string  // account name
	Role   string  // sender's role relative to the object, from the ledger
	Auth   bool    // authorised per the ledger
	Msg    sdk.Msg // the message
	Tags   []string
}

type Row struct {
	URL   string
	Short string
	Kind  string // "object": names an owned object; "self": acts on the sender's own funds/objects only
	Field string // which field names the object
	Who   string // who is authorised
	Note  string
	// Gen returns the cells of this row for one sender in one state (object rows).
	Gen func(w *World, l *Ledger, sender string) []Cell
	// Self returns the messages of a self-scoped row for one sender.
	Self func(w *World, l *Ledger, sender string) []sdk.Msg
}

func short(url string) string {
	s := strings.TrimPrefix(url, "/osmosis.")
	s = strings.Replace(s, "concentratedliquidity.poolmodel.concentrated.v1beta1.", "clpool.", 1)
	s = strings.Replace(s, "concentratedliquidity.v1beta1.", "cl.", 1)
	s = strings.Replace(s, "tokenfactory.v1beta1.", "tokenfactory.", 1)
	return s
}

// Senders of the cube.
func (w *World) Senders() []string {
	s := append([]string{}, Users...)
	s = append(s, "pool")
	for _, m := range SenderModules {
		s = append(s, "mod:"+m)
	}
	return append(s, "")
}

func role(sender, owner string, prev []string, ownerWord string) string {
	switch {
	case sender == "":
		return "empty"
	case owner != "" && sender == owner:
		return ownerWord
	case has(prev, sender):
		return "prev-" + ownerWord
	case sender == "pool" || strings.HasPrefix(sender, "mod:"):
		return sender
	}
	return "other-user"
}

func otherThan(w *World, names ...string) string {
	for _, c := range []string{"C", "B", "A"} {
		if !has(names, c) {
			return c
		}
	}
	return "C"
}

// ---- generators -------------------------------------------------------------------------------------

func posCells(short string, govToo bool, mk func(w *World, p Pos, sender string) sdk.Msg) func(*World, *Ledger, string) []Cell {
	return func(w *World, l *Ledger, sender string) []Cell {
		var cs []Cell
		for _, p := range l.Pos {
			owner := p.Owner
			if p.Gone {
				owner = ""
			}
			c := Cell{Row: short, ObjVar: p.Variant(), ObjKey: fmt.Sprintf("position %d (owner %s)", p.ID, p.Owner), Sender: sender,
				Role: role(sender, owner, p.Prev, "owner"), Auth: owner != "" && sender == owner, Msg: mk(w, p, sender)}
			if p.Gone && has(append([]string{p.Owner}, p.Prev...), sender) {
				c.Role = "prev-owner"
			}
			if govToo && sender == "mod:gov" && !p.Gone {
				c.Auth = true
				c.Tags = append(c.Tags, "gov")
			}
			cs = append(cs, c)
		}
		return cs
	}
}

// batchCells: the sender owns the first id but not the second; the whole message must be refused.
func batchCells(short string, mk func(w *World, ids []uint64, sender string) sdk.Msg) func(*World, *Ledger, string) []Cell {
	return func(w *World, l *Ledger, sender string) []Cell {
		var cs []Cell
		for _, p := range l.Pos {
			if p.Gone || p.Owner != sender || p.LockID != 0 {
				continue
			}
			for _, q := range l.Pos {
				if q.Gone || q.Owner == sender || q.LockID != 0 {
					continue
				}
				cs = append(cs, Cell{Row: short + "[own+foreign]", ObjVar: q.Variant(), ObjKey: fmt.Sprintf("positions %d (own) + %d (owner %s)", p.ID, q.ID, q.Owner), Sender: sender,
					Role: role(sender, q.Owner, q.Prev, "owner"), Auth: false, Msg: mk(w, []uint64{p.ID, q.ID}, sender)})
				break
			}
			break
		}
		return cs
	}
}

func join(gs ...func(*World, *Ledger, string) []Cell) func(*World, *Ledger, string) []Cell {
	return func(w *World, l *Ledger, s string) []Cell {
		var cs []Cell
		for _, g := range gs {
			cs = append(cs, g(w, l, s)...)
		}
		return cs
	}
}

func lockCells(short string, auth func(k Lock, sender string) bool, mk func(w *World, k Lock, sender string) sdk.Msg) func(*World, *Ledger, string) []Cell {
	return func(w *World, l *Ledger, sender string) []Cell {
		var cs []Cell
		for _, k := range l.Locks {
			owner := k.Owner
			if k.Gone {
				owner = ""
			}
			c := Cell{Row: short, ObjVar: k.Variant(), ObjKey: fmt.Sprintf("lock %d (owner %s)", k.ID, k.Owner), Sender: sender,
				Role: role(sender, owner, nil, "owner"), Msg: mk(w, k, sender)}
			c.Auth = owner != "" && sender == owner
			if auth != nil && c.Auth {
				c.Auth = auth(k, sender)
				if !c.Auth {
					c.Role = "owner-not-allowlisted"
				}
			}
			cs = append(cs, c)
		}
		return cs
	}
}

func denomCells(short string, mk func(w *World, d Denom, sender string) sdk.Msg) func(*World, *Ledger, string) []Cell {
	return func(w *World, l *Ledger, sender string) []Cell {
		var cs []Cell
		for _, d := range l.Denoms {
			admin := d.Admin
			if !d.Exists {
				admin = ""
			}
			m := mk(w, d, sender)
			if m == nil {
				continue
			}
			cs = append(cs, Cell{Row: short, ObjVar: d.Variant(), ObjKey: fmt.Sprintf("denom %s (admin %q)", d.Sub, d.Admin), Sender: sender,
				Role: role(sender, admin, d.Prev, "admin"), Auth: admin != "" && sender == admin, Msg: m})
		}
		return cs
	}
}

// moduleTargetCells: admin powers aimed at protected module accounts. Nobody is authorised, the legitimate
// admin included. Only sent by the admin (the interesting case) and by C.
func moduleTargetCells(short string, mk func(w *World, d Denom, sender, mod string) sdk.Msg) func(*World, *Ledger, string) []Cell {
	return func(w *World, l *Ledger, sender string) []Cell {
		var cs []Cell
		for _, d := range l.Denoms {
			if !d.Exists || d.Admin == "" || (sender != d.Admin && sender != "C") {
				continue
			}
			for _, m := range ProtectedModules {
				cs = append(cs, Cell{Row: short, ObjVar: d.Variant() + "->mod:" + m, ObjKey: fmt.Sprintf("denom %s (admin %q), module account %s", d.Sub, d.Admin, m), Sender: sender,
					Role: role(sender, d.Admin, d.Prev, "admin"), Auth: false, Msg: mk(w, d, sender, "mod:"+m), Tags: []string{"module-target"}})
			}
		}
		return cs
	}
}

func metadataFor(d string) banktypes.Metadata {
	return banktypes.Metadata{Description: "re-described", DenomUnits: []*banktypes.DenomUnit{{Denom: d, Exponent: 0}, {Denom: "mtok", Exponent: 6}},
		Base: d, Display: "mtok", Name: "Tok", Symbol: "TOK"}
}

func (w *World) buildRows() map[string]*Row {
	rows := map[string]*Row{}
	add := func(r *Row) {
		r.Short = short(r.URL)
		rows[r.URL] = r
	}
	one := sdkmath.OneInt()
	zero := sdkmath.ZeroInt()
	_ = one

	// ---- concentrated liquidity
	add(&Row{URL: "/osmosis.concentratedliquidity.v1beta1.MsgCreatePosition", Kind: "self", Note: "creates a new position owned by the sender from the sender's funds",
		Self: func(w *World, l *Ledger, s string) []sdk.Msg {
			return []sdk.Msg{&cltypes.MsgCreatePosition{PoolId: w.PoolID, Sender: w.Addr(s), LowerTick: -3000, UpperTick: 3000, TokensProvided: sdk.NewCoins(sdk.NewCoin(w.Bond, sdkmath.NewInt(1000)), sdk.NewCoin(Quote, sdkmath.NewInt(1000))), TokenMinAmount0: zero, TokenMinAmount1: zero}}
		}})
	add(&Row{URL: "/osmosis.concentratedliquidity.poolmodel.concentrated.v1beta1.MsgCreateConcentratedPool", Kind: "self", Note: "creates a new pool; names no owned object",
		Self: func(w *World, l *Ledger, s string) []sdk.Msg {
			addr, _ := sdk.AccAddressFromBech32(w.Addr(s))
			m := clmodel.NewMsgCreateConcentratedPool(addr, "eth", Quote, 100, osmomath.MustNewDecFromStr("0.003"))
			if s == "" {
				m.Sender = ""
			}
			return []sdk.Msg{&m}
		}})
	add(&Row{URL: "/osmosis.concentratedliquidity.v1beta1.MsgWithdrawPosition", Kind: "object", Field: "position_id", Who: "position owner",
		Gen: posCells("cl.MsgWithdrawPosition", false, func(w *World, p Pos, s string) sdk.Msg {
			return &cltypes.MsgWithdrawPosition{PositionId: p.ID, Sender: w.Addr(s), LiquidityAmount: osmomath.NewDec(1000)}
		})})
	add(&Row{URL: "/osmosis.concentratedliquidity.v1beta1.MsgAddToPosition", Kind: "object", Field: "position_id", Who: "position owner",
		Gen: posCells("cl.MsgAddToPosition", false, func(w *World, p Pos, s string) sdk.Msg {
			return &cltypes.MsgAddToPosition{PositionId: p.ID, Sender: w.Addr(s), Amount0: sdkmath.NewInt(1000), Amount1: sdkmath.NewInt(1000), TokenMinAmount0: zero, TokenMinAmount1: zero}
		})})
	add(&Row{URL: "/osmosis.concentratedliquidity.v1beta1.MsgCollectSpreadRewards", Kind: "object", Field: "position_ids[]", Who: "owner of every listed position",
		Gen: join(posCells("cl.MsgCollectSpreadRewards", false, func(w *World, p Pos, s string) sdk.Msg {
			return &cltypes.MsgCollectSpreadRewards{PositionIds: []uint64{p.ID}, Sender: w.Addr(s)}
		}), batchCells("cl.MsgCollectSpreadRewards", func(w *World, ids []uint64, s string) sdk.Msg {
			return &cltypes.MsgCollectSpreadRewards{PositionIds: ids, Sender: w.Addr(s)}
		}))})
	add(&Row{URL: "/osmosis.concentratedliquidity.v1beta1.MsgCollectIncentives", Kind: "object", Field: "position_ids[]", Who: "owner of every listed position",
		Gen: join(posCells("cl.MsgCollectIncentives", false, func(w *World, p Pos, s string) sdk.Msg {
			return &cltypes.MsgCollectIncentives{PositionIds: []uint64{p.ID}, Sender: w.Addr(s)}
		}), batchCells("cl.MsgCollectIncentives", func(w *World, ids []uint64, s string) sdk.Msg {
			return &cltypes.MsgCollectIncentives{PositionIds: ids, Sender: w.Addr(s)}
		}))})
	add(&Row{URL: "/osmosis.concentratedliquidity.v1beta1.MsgTransferPositions", Kind: "object", Field: "position_ids[]", Who: "owner of every listed position, or the governance module account (documented in the handler)",
		Gen: join(posCells("cl.MsgTransferPositions", true, func(w *World, p Pos, s string) sdk.Msg {
			// sender == new owner is refused by ValidateBasic, which would mask the owner test: a thief
			// transfers to an accomplice
			to := otherThan(w, p.Owner, s)
			return &cltypes.MsgTransferPositions{PositionIds: []uint64{p.ID}, Sender: w.Addr(s), NewOwner: w.Addr(to)}
		}), batchCells("cl.MsgTransferPositions", func(w *World, ids []uint64, s string) sdk.Msg {
			return &cltypes.MsgTransferPositions{PositionIds: ids, Sender: w.Addr(s), NewOwner: w.Addr(otherThan(w, s))}
		}))})

	// ---- lockup
	add(&Row{URL: "/osmosis.lockup.MsgLockTokens", Kind: "self", Note: "locks the sender's own coins (new lock or top-up of the sender's own lock)",
		Self: func(w *World, l *Ledger, s string) []sdk.Msg {
			return []sdk.Msg{&lockuptypes.MsgLockTokens{Owner: w.Addr(s), Duration: time.Hour, Coins: sdk.NewCoins(sdk.NewCoin(w.GammDenom, sdkmath.NewInt(1000)))}}
		}})
	add(&Row{URL: "/osmosis.lockup.MsgBeginUnlockingAll", Kind: "self", Note: "names no lock: acts on all not-unlocking locks of the sender; checked never to touch anybody else's",
		Self: func(w *World, l *Ledger, s string) []sdk.Msg {
			return []sdk.Msg{&lockuptypes.MsgBeginUnlockingAll{Owner: w.Addr(s)}}
		}})
	add(&Row{URL: "/osmosis.lockup.MsgBeginUnlocking", Kind: "object", Field: "ID", Who: "lock owner",
		Gen: join(lockCells("lockup.MsgBeginUnlocking", nil, func(w *World, k Lock, s string) sdk.Msg {
			return &lockuptypes.MsgBeginUnlocking{Owner: w.Addr(s), ID: k.ID}
		}), lockCells("lockup.MsgBeginUnlocking[partial]", nil, func(w *World, k Lock, s string) sdk.Msg {
			return &lockuptypes.MsgBeginUnlocking{Owner: w.Addr(s), ID: k.ID, Coins: sdk.NewCoins(sdk.NewCoin(k.Denom, sdkmath.NewInt(10)))}
		}))})
	add(&Row{URL: "/osmosis.lockup.MsgExtendLockup", Kind: "object", Field: "ID", Who: "lock owner",
		Gen: lockCells("lockup.MsgExtendLockup", nil, func(w *World, k Lock, s string) sdk.Msg {
			return &lockuptypes.MsgExtendLockup{Owner: w.Addr(s), ID: k.ID, Duration: k.Dur + time.Hour}
		})})
	add(&Row{URL: "/osmosis.lockup.MsgForceUnlock", Kind: "object", Field: "ID", Who: "lock owner, and only if listed in params.ForceUnlockAllowedAddresses",
		Gen: lockCells("lockup.MsgForceUnlock", func(k Lock, s string) bool { return s == "F" }, func(w *World, k Lock, s string) sdk.Msg {
			return &lockuptypes.MsgForceUnlock{Owner: w.Addr(s), ID: k.ID}
		})})
	add(&Row{URL: "/osmosis.lockup.MsgSetRewardReceiverAddress", Kind: "object", Field: "lockID", Who: "lock owner",
		Gen: lockCells("lockup.MsgSetRewardReceiverAddress", nil, func(w *World, k Lock, s string) sdk.Msg {
			to := s // redirect the rewards to oneself
			if s == k.Owner || s == "" || strings.HasPrefix(s, "mod:") || s == "pool" || s == k.Receiver {
				// (the lock's current receiver redirects to a third party: "to oneself" would be refused as a no-op
				// before any authorisation question arises)
				to = otherThan(w, k.Owner, k.Receiver)
			}
			return &lockuptypes.MsgSetRewardReceiverAddress{Owner: w.Addr(s), LockID: k.ID, RewardReceiver: w.Addr(to)}
		})})

	// ---- superfluid
	add(&Row{URL: "/osmosis.superfluid.MsgSuperfluidDelegate", Kind: "object", Field: "lock_id", Who: "lock owner",
		Gen: lockCells("superfluid.MsgSuperfluidDelegate", nil, func(w *World, k Lock, s string) sdk.Msg {
			return &sftypes.MsgSuperfluidDelegate{Sender: w.Addr(s), LockId: k.ID, ValAddr: w.Val}
		})})
	add(&Row{URL: "/osmosis.superfluid.MsgSuperfluidUndelegate", Kind: "object", Field: "lock_id", Who: "lock owner",
		Gen: lockCells("superfluid.MsgSuperfluidUndelegate", nil, func(w *World, k Lock, s string) sdk.Msg {
			return &sftypes.MsgSuperfluidUndelegate{Sender: w.Addr(s), LockId: k.ID}
		})})
	add(&Row{URL: "/osmosis.superfluid.MsgSuperfluidUnbondLock", Kind: "object", Field: "lock_id", Who: "lock owner",
		Gen: lockCells("superfluid.MsgSuperfluidUnbondLock", nil, func(w *World, k Lock, s string) sdk.Msg {
			return &sftypes.MsgSuperfluidUnbondLock{Sender: w.Addr(s), LockId: k.ID}
		})})
	add(&Row{URL: "/osmosis.superfluid.MsgSuperfluidUndelegateAndUnbondLock", Kind: "object", Field: "lock_id", Who: "lock owner",
		Gen: lockCells("superfluid.MsgSuperfluidUndelegateAndUnbondLock", nil, func(w *World, k Lock, s string) sdk.Msg {
			return &sftypes.MsgSuperfluidUndelegateAndUnbondLock{Sender: w.Addr(s), LockId: k.ID, Coin: sdk.NewCoin(k.Denom, sdkmath.NewInt(10))}
		})})
	add(&Row{URL: "/osmosis.superfluid.MsgLockAndSuperfluidDelegate", Kind: "self", Note: "locks the sender's own coins and delegates the resulting lock",
		Self: func(w *World, l *Ledger, s string) []sdk.Msg {
			return []sdk.Msg{&sftypes.MsgLockAndSuperfluidDelegate{Sender: w.Addr(s), Coins: sdk.NewCoins(sdk.NewCoin(w.GammDenom, sdkmath.NewInt(100000))), ValAddr: w.Val}}
		}})
	add(&Row{URL: "/osmosis.superfluid.MsgCreateFullRangePositionAndSuperfluidDelegate", Kind: "self", Note: "creates a new locked position from the sender's funds",
		Self: func(w *World, l *Ledger, s string) []sdk.Msg {
			return []sdk.Msg{&sftypes.MsgCreateFullRangePositionAndSuperfluidDelegate{Sender: w.Addr(s), Coins: sdk.NewCoins(sdk.NewCoin(w.Bond, sdkmath.NewInt(1000000)), sdk.NewCoin(Quote, sdkmath.NewInt(1000000))), ValAddr: w.Val, PoolId: w.PoolID}}
		}})
	add(&Row{URL: "/osmosis.superfluid.MsgUnPoolWhitelistedPool", Kind: "self", Note: "names a pool, acts on the sender's own locks of that pool's shares (no pool is whitelisted in this scenario)",
		Self: func(w *World, l *Ledger, s string) []sdk.Msg {
			return []sdk.Msg{&sftypes.MsgUnPoolWhitelistedPool{Sender: w.Addr(s), PoolId: w.GammID}}
		}})
	add(&Row{URL: "/osmosis.superfluid.MsgUnlockAndMigrateSharesToFullRangeConcentratedPosition", Kind: "object", Field: "lock_id", Who: "lock owner (the handler refuses everybody: 'no longer supported')",
		Gen: lockCells("superfluid.MsgUnlockAndMigrateSharesToFullRangeConcentratedPosition", nil, func(w *World, k Lock, s string) sdk.Msg {
			return &sftypes.MsgUnlockAndMigrateSharesToFullRangeConcentratedPosition{Sender: w.Addr(s), LockId: int64(k.ID), SharesToMigrate: sdk.NewCoin(k.Denom, sdkmath.NewInt(10))}
		})})
	add(&Row{URL: "/osmosis.superfluid.MsgAddToConcentratedLiquiditySuperfluidPosition", Kind: "object", Field: "position_id (and its underlying lock)", Who: "owner of the position and of its lock",
		Gen: posCells("superfluid.MsgAddToConcentratedLiquiditySuperfluidPosition", false, func(w *World, p Pos, s string) sdk.Msg {
			return &sftypes.MsgAddToConcentratedLiquiditySuperfluidPosition{PositionId: p.ID, Sender: w.Addr(s), TokenDesired0: sdk.NewCoin(w.Bond, sdkmath.NewInt(1000)), TokenDesired1: sdk.NewCoin(Quote, sdkmath.NewInt(1000))}
		})})
	add(&Row{URL: "/osmosis.superfluid.MsgUnbondConvertAndStake", Kind: "object", Field: "lock_id", Who: "lock owner (lock_id 0 = the sender's liquid shares, not an owned object)",
		Gen: lockCells("superfluid.MsgUnbondConvertAndStake", nil, func(w *World, k Lock, s string) sdk.Msg {
			return &sftypes.MsgUnbondConvertAndStake{LockId: k.ID, Sender: w.Addr(s), ValAddr: w.Val, MinAmtToStake: zero, SharesToConvert: sdk.NewCoin(k.Denom, sdkmath.NewInt(0))}
		})})

	// ---- tokenfactory
	add(&Row{URL: "/osmosis.tokenfactory.v1beta1.MsgCreateDenom", Kind: "self", Note: "the new denom is factory/{sender}/{subdenom}: the namespace is the signer's address, a foreign namespace is not expressible; probed with subdenoms that try to smuggle a path, and with re-creation of an existing denom (which would reset its admin)",
		Self: func(w *World, l *Ledger, s string) []sdk.Msg {
			ms := []sdk.Msg{tftypes.NewMsgCreateDenom(w.Addr(s), "none"), tftypes.NewMsgCreateDenom(w.Addr(s), "x/../"+"tok"),
				tftypes.NewMsgCreateDenom(w.Addr(s), w.Addr("A")+"/none"), tftypes.NewMsgCreateDenom(w.Addr(s), "/"+"tok")}
			return ms
		}})
	add(&Row{URL: "/osmosis.tokenfactory.v1beta1.MsgMint", Kind: "object", Field: "amount.denom", Who: "denom admin; never towards a module account",
		Gen: join(denomCells("tokenfactory.MsgMint", func(w *World, d Denom, s string) sdk.Msg {
			return &tftypes.MsgMint{Sender: w.Addr(s), Amount: sdk.NewCoin(d.Name, sdkmath.NewInt(77))}
		}), denomCells("tokenfactory.MsgMint[mint_to_address]", func(w *World, d Denom, s string) sdk.Msg {
			return &tftypes.MsgMint{Sender: w.Addr(s), Amount: sdk.NewCoin(d.Name, sdkmath.NewInt(77)), MintToAddress: w.Addr(otherThan(w, s))}
		}), moduleTargetCells("tokenfactory.MsgMint[mint_to_address=module]", func(w *World, d Denom, s, m string) sdk.Msg {
			return &tftypes.MsgMint{Sender: w.Addr(s), Amount: sdk.NewCoin(d.Name, sdkmath.NewInt(77)), MintToAddress: w.Addr(m)}
		}))})
	add(&Row{URL: "/osmosis.tokenfactory.v1beta1.MsgBurn", Kind: "object", Field: "amount.denom", Who: "denom admin; never from a module account",
		Gen: join(denomCells("tokenfactory.MsgBurn", func(w *World, d Denom, s string) sdk.Msg {
			return &tftypes.MsgBurn{Sender: w.Addr(s), Amount: sdk.NewCoin(d.Name, sdkmath.NewInt(5))}
		}), denomCells("tokenfactory.MsgBurn[burn_from_address]", func(w *World, d Denom, s string) sdk.Msg {
			return &tftypes.MsgBurn{Sender: w.Addr(s), Amount: sdk.NewCoin(d.Name, sdkmath.NewInt(5)), BurnFromAddress: w.Addr(otherThan(w, s))}
		}), moduleTargetCells("tokenfactory.MsgBurn[burn_from_address=module]", func(w *World, d Denom, s, m string) sdk.Msg {
			return &tftypes.MsgBurn{Sender: w.Addr(s), Amount: sdk.NewCoin(d.Name, sdkmath.NewInt(5)), BurnFromAddress: w.Addr(m)}
		}))})
	add(&Row{URL: "/osmosis.tokenfactory.v1beta1.MsgForceTransfer", Kind: "object", Field: "amount.denom", Who: "denom admin; never from or to a module account",
		Gen: join(denomCells("tokenfactory.MsgForceTransfer", func(w *World, d Denom, s string) sdk.Msg {
			from := otherThan(w, s)
			to := s
			if s == "" || s == "pool" || strings.HasPrefix(s, "mod:") || s == d.Admin {
				to = otherThan(w, s, from)
			}
			return &tftypes.MsgForceTransfer{Sender: w.Addr(s), Amount: sdk.NewCoin(d.Name, sdkmath.NewInt(5)), TransferFromAddress: w.Addr(from), TransferToAddress: w.Addr(to)}
		}), moduleTargetCells("tokenfactory.MsgForceTransfer[from=module]", func(w *World, d Denom, s, m string) sdk.Msg {
			return &tftypes.MsgForceTransfer{Sender: w.Addr(s), Amount: sdk.NewCoin(d.Name, sdkmath.NewInt(5)), TransferFromAddress: w.Addr(m), TransferToAddress: w.Addr(s)}
		}), moduleTargetCells("tokenfactory.MsgForceTransfer[to=module]", func(w *World, d Denom, s, m string) sdk.Msg {
			return &tftypes.MsgForceTransfer{Sender: w.Addr(s), Amount: sdk.NewCoin(d.Name, sdkmath.NewInt(5)), TransferFromAddress: w.Addr(otherThan(w, s)), TransferToAddress: w.Addr(m)}
		}))})
	add(&Row{URL: "/osmosis.tokenfactory.v1beta1.MsgChangeAdmin", Kind: "object", Field: "denom", Who: "denom admin",
		Gen: denomCells("tokenfactory.MsgChangeAdmin", func(w *World, d Denom, s string) sdk.Msg {
			to := s // make oneself admin
			if s == d.Admin || s == "" {
				to = otherThan(w, s)
			}
			return tftypes.NewMsgChangeAdmin(w.Addr(s), d.Name, w.Addr(to))
		})})
	add(&Row{URL: "/osmosis.tokenfactory.v1beta1.MsgSetDenomMetadata", Kind: "object", Field: "metadata.base", Who: "denom admin",
		Gen: denomCells("tokenfactory.MsgSetDenomMetadata", func(w *World, d Denom, s string) sdk.Msg {
			return tftypes.NewMsgSetDenomMetadata(w.Addr(s), metadataFor(d.Name))
		})})
	add(&Row{URL: "/osmosis.tokenfactory.v1beta1.MsgSetBeforeSendHook", Kind: "object", Field: "denom", Who: "denom admin",
		Gen: join(denomCells("tokenfactory.MsgSetBeforeSendHook[clear]", func(w *World, d Denom, s string) sdk.Msg {
			return tftypes.NewMsgSetBeforeSendHook(w.Addr(s), d.Name, "")
		}), denomCells("tokenfactory.MsgSetBeforeSendHook[set]", func(w *World, d Denom, s string) sdk.Msg {
			return tftypes.NewMsgSetBeforeSendHook(w.Addr(s), d.Name, w.Addr("C"))
		}))})
	return rows
}

// registeredMsgs asks the application which messages of the four modules exist.
func (w *World) registeredMsgs() []string {
	var out []string
	for _, u := range w.App.InterfaceRegistry().ListImplementations(sdk.MsgInterfaceProtoName) {
		for _, p := range modulePrefixes {
			if strings.HasPrefix(u, p) {
				out = append(out, u)
			}
		}
	}
	sort.Strings(out)
	return out
}

// Table reconciles the registered messages with the annotations; any mismatch is a harness error.
func (w *World) Table() []*Row {
	rows := w.buildRows()
	reg := w.registeredMsgs()
	var tab []*Row
	bad := false
	for _, u := range reg {
		if w.App.GetBaseApp().MsgServiceRouter().HandlerByTypeURL(u) == nil {
			// registered as sdk.Msg but not routable: cannot change state through the message server. These are
			// annotated too, so that one of them GAINING a handler is noticed (it would then lack a row).
			if _, ok := unroutable[u]; !ok {
				fmt.Fprintln(os.Stderr, "harness: message registered without handler and not annotated as such:", u)
				bad = true
			}
			if _, ok := rows[u]; ok {
				fmt.Fprintln(os.Stderr, "harness: annotated message has no handler:", u)
				bad = true
			}
			w.Unroutable = append(w.Unroutable, short(u)+": "+unroutable[u])
			continue
		}
		if _, ok := unroutable[u]; ok {
			fmt.Fprintln(os.Stderr, "harness: message annotated as unroutable has a handler now:", u)
			bad = true
		}
		r, ok := rows[u]
		if !ok {
			fmt.Fprintln(os.Stderr, "harness: message registered in the router but missing from the C20 table:", u)
			bad = true
			continue
		}
		tab = append(tab, r)
		delete(rows, u)
	}
	for u := range rows {
		fmt.Fprintln(os.Stderr, "harness: table row without a registered message:", u)
		bad = true
	}
	if bad || len(tab) == 0 {
		os.Exit(2)
	}
	return tab
}
