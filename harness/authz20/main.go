// Command authz20 checks property C20 ("only the owner or admin can move or alter what they own") by
// evaluating the complete (message type, sender, owned object) cube in every state reachable by a bounded
// number of life-cycle operations from a scenario that holds one of each owned object in each of its
// life-cycle variants. See table.go for the message table, cube.go for the oracle.
package main

import (
	"flag"
	"fmt"
	"os"
	"sort"

	sdk "github.com/cosmos/cosmos-sdk/types"

	"github.com/osmosis-labs/osmosis/v31/zzverif/core"
)

type replayCfg struct {
	Config Config `json:"config"`
	Seed   string `json:"seed_state"`
	Ops    []Op   `json:"ops"`
	// Cell is the signature of the failing cube cell; a replay evaluates the whole cube in the final state
	// (the cells are not independent of the order they share a branch in) but reports only this cell.
	Cell      string `json:"cell,omitempty"`
	Assertion string `json:"assertion,omitempty"`
}

var (
	flagFilter = flag.String("filter", "", "debug: only rows whose short name contains this")
	flagDepth  = flag.Int("depth", 0, "override the depth of the tier")
	flagTable  = flag.Bool("table", false, "print the message table and exit")
)

func describe(tab []*Row) []string {
	var out []string
	for _, r := range tab {
		s := r.Short + " : " + r.Kind
		if r.Kind == "object" {
			s += " ; object named by " + r.Field + " ; authorised: " + r.Who
		} else {
			s += " ; " + r.Note
		}
		out = append(out, s)
	}
	sort.Strings(out)
	return out
}

func main() {
	f := core.ParseFlags()
	r := core.NewResult(f.Prop)
	cfg := Config{Scenario: "base"}
	setupRefused = func(what, detail string) {
		r.AddViolation(core.Violation{Property: f.Prop, Assertion: "c20.authorised-sender-not-refused-for-authorisation",
			Signature: "scenario:" + what + "|owner|base|refused-as-unauthorised", Detail: detail, Replay: replayCfg{Config: cfg, Seed: "base", Ops: []Op{}}})
		r.States, r.Transitions = 1, 1
		core.Finish(f, r)
		os.Exit(0)
	}
	w := NewWorld()
	defer w.Env.Close()
	tab := w.Table()
	if *flagTable {
		for _, s := range describe(tab) {
			fmt.Println(s)
		}
		return
	}
	cube := &Cube{W: w, Tab: tab, R: r, Filter: *flagFilter}

	if f.Replay != "" {
		var rp replayCfg
		core.ReadReplay(f.Replay, &rp)
		ctx, _ := w.Ctx.CacheContext()
		l := w.Base.Clone()
		fail := func(a, s, d string) {
			if rp.Cell != "" && (s != rp.Cell || a != rp.Assertion) {
				fmt.Printf("   (other cell also failing: %s %s)\n", a, s)
				return
			}
			r.AddViolation(core.Violation{Property: f.Prop, Assertion: a, Signature: s, Detail: d, Replay: rp})
		}
		for i, op := range rp.Ops {
			var out string
			ctx, out = w.Apply(ctx, l, op, fail)
			fmt.Printf("step %d %s -> %s\n", i, op, out)
			r.Transitions++
		}
		for _, p := range l.Pos {
			fmt.Printf("   position %d owner=%s prev=%v %s\n", p.ID, p.Owner, p.Prev, p.Variant())
		}
		for _, k := range l.Locks {
			fmt.Printf("   lock %d owner=%s %s\n", k.ID, k.Owner, k.Variant())
		}
		for _, d := range l.Denoms {
			fmt.Printf("   denom %s admin=%q prev=%v %s\n", d.Sub, d.Admin, d.Prev, d.Variant())
		}
		cube.Check(ctx, l, fail)
		r.States++
		core.Finish(f, r)
		return
	}

	al := &Alphabet{Targets: []string{"A", "B", "C"}}
	depth := 2
	if f.Tier == "thorough" {
		depth = 3
		al.GovTransfer = true
		al.Withdraw = true
	}
	if *flagDepth > 0 {
		depth = *flagDepth
	}
	sc := &core.Scenario[Op, *Ledger]{
		App: w.App, Stores: nil, Config: cfg,
		Enabled: w.Enabled(al),
		Apply:   w.Apply,
		Check: func(ctx sdk.Context, l *Ledger, fail func(a, s, d string)) {
			cube.Check(ctx, l, func(a, s, d string) {
				n := len(r.Violations)
				fail(a, s, d)
				if len(r.Violations) == n+1 {
					// name the failing cell in the replay artefact
					if tr, ok := r.Violations[n].Replay.(core.Trace[Op]); ok {
						r.Violations[n].Replay = replayCfg{Config: cfg, Seed: tr.Seed, Ops: tr.Ops, Cell: s, Assertion: a}
					}
				}
			})
		},
		LedgerKey: ledgerKey,
	}
	ex := core.NewExplorer(sc, f, r)
	ex.Run("base", w.Ctx, w.Base.Clone(), depth)
	ex.DumpHashes()

	r.Extra["message_table"] = describe(tab)
	r.Extra["registered_without_handler"] = w.Unroutable
	r.Extra["senders"] = w.Senders()
	r.Extra["protected_module_targets"] = ProtectedModules
	r.Extra["alphabet"] = fmt.Sprintf("%+v", *al)
	r.Extra["root_ops"] = fmt.Sprint(w.Enabled(al)(w.Ctx, w.Base, 0))
	r.Extra["scenario_steps"] = w.Log
	r.Outcomes = int64(len(r.Rejected) + 1)
	if os.Getenv("VERIF_DEBUG") != "" {
		for _, k := range sortedKeys(r.Rejected) {
			fmt.Fprintf(os.Stderr, "%6d %s\n", r.Rejected[k], k)
		}
		for _, k := range sortedKeys(r.Vacuity) {
			fmt.Fprintf(os.Stderr, "V %6d %s\n", r.Vacuity[k], k)
		}
	}
	core.Finish(f, r)
}
