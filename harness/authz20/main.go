// Command authz20 checks property C20 ("only the owner or admin can move or alter what they own") by
// evaluating the complete (message type, sender, owned object) cube in every state reachable by a bounded
// number of life-cycle operations from a scenario that holds one of each owned object in each of its
// life-cycle variants. See table.go for the message table, cube.go for the oracle.
package main

import (
	"encoding/binary"
	"flag"
	"fmt"
	"os"
	"sort"
	"strings"

	sdk "github.com/cosmos/cosmos-sdk/types"

	"github.com/osmosis-labs/osmosis/v31/zzverif/core"
)

type replayCfg struct {
	Config Config `json:"config"`
	Seed   string `json:"seed_state"`
	Ops    []Op   `json:"ops"`
	// Cell is the signature of the failing cube cell; a replay evaluates the whole cube in the final state
	// (the cells are not independent of the order they share a branch in) but reports only this cell.
	Cell      string `json:"cell,omitempty"`
	Assertion string `json:"assertion,omitempty"`
}

var (
	flagFilter = flag.String("filter", "", "debug: only rows whose short name contains this")
	flagDepth  = flag.Int("depth", 0, "override the depth of the tier")
	flagTable  = flag.Bool("table", false, "print the message table and exit")
	flagCount  = flag.Bool("countonly", false, "debug: explore without evaluating the cube (state counts)")
)

func describe(tab []*Row) []string {
	var out []string
	for _, r := range tab {
		s := r.Short + " : " + r.Kind
		if r.Kind == "object" {
			s += " ; object named by " + r.Field + " ; authorised: " + r.Who
		} else {
			s += " ; " + r.Note
		}
		out = append(out, s)
	}
	sort.Strings(out)
	return out
}

func main() {
	f := core.ParseFlags()
	r := core.NewResult(f.Prop)
	cfg := Config{Scenario: "base"}
	setupRefused = func(what, detail string) {
		r.AddViolation(core.Violation{Property: f.Prop, Assertion: "c20.authorised-sender-not-refused-for-authorisation",
			Signature: "scenario:" + what + "|owner|base|refused-as-unauthorised", Detail: detail, Replay: replayCfg{Config: cfg, Seed: "base", Ops: []Op{}}})
		r.States, r.Transitions = 1, 1
		core.Finish(f, r)
		os.Exit(0)
	}
	w := NewWorld()
	defer w.Env.Close()
	tab := w.Table()
	if *flagTable {
		for _, s := range describe(tab) {
			fmt.Println(s)
		}
		return
	}
	cube := &Cube{W: w, Tab: tab, R: r, Filter: *flagFilter}

	if f.Replay != "" {
		var rp replayCfg
		core.ReadReplay(f.Replay, &rp)
		ctx, _ := w.Ctx.CacheContext()
		l := w.Base.Clone()
		fail := func(a, s, d string) {
			if rp.Cell != "" && (s != rp.Cell || a != rp.Assertion) {
				fmt.Printf("   (other cell also failing: %s %s)\n", a, s)
				return
			}
			r.AddViolation(core.Violation{Property: f.Prop, Assertion: a, Signature: s, Detail: d, Replay: rp})
		}
		for i, op := range rp.Ops {
			var out string
			ctx, out = w.Apply(ctx, l, op, fail)
			fmt.Printf("step %d %s -> %s\n", i, op, out)
			r.Transitions++
		}
		for _, p := range l.Pos {
			fmt.Printf("   position %d owner=%s prev=%v %s\n", p.ID, p.Owner, p.Prev, p.Variant())
		}
		for _, k := range l.Locks {
			fmt.Printf("   lock %d owner=%s %s\n", k.ID, k.Owner, k.Variant())
		}
		for _, d := range l.Denoms {
			fmt.Printf("   denom %s admin=%q prev=%v %s\n", d.Sub, d.Admin, d.Prev, d.Variant())
		}
		cube.Check(ctx, l, fail)
		r.States++
		core.Finish(f, r)
		return
	}

	al := &Alphabet{Targets: []string{"A", "B", "C"}}
	depths := []int{2}
	if f.Tier == "thorough" {
		// level by level: depth 3 is completed before depth 4 starts (same visited set, nothing is re-checked)
		depths = []int{3, 4}
		al.GovTransfer = true
		al.Withdraw = true
	}
	if *flagDepth > 0 {
		depths = []int{*flagDepth}
	}
	// Work split. The expensive part is the cube (~2400 messages per state), the life-cycle ops are cheap.
	// Every shard therefore walks the WHOLE op tree (the explorer is given a one-shard view) and the distinct
	// states are dealt to the shards by their hash: each distinct state's cube is evaluated exactly once
	// overall, whatever history reaches it first.
	fAll := *f
	fAll.Shard, fAll.NShards = 0, 1
	evaluated := core.NewSeen()
	var opTransitions int64
	sc := &core.Scenario[Op, *Ledger]{
		App: w.App, Stores: nil, Config: cfg,
		Enabled: w.Enabled(al),
		Apply: func(ctx sdk.Context, l *Ledger, op Op, fail func(a, s, d string)) (sdk.Context, string) {
			opTransitions++
			return w.Apply(ctx, l, op, fail)
		},
		Check: func(ctx sdk.Context, l *Ledger, fail func(a, s, d string)) {
			h := core.StateHash(w.App, ctx, nil)
			for i, b := range ledgerKey(l) {
				h[i] ^= b
			}
			if !f.Mine(int(binary.BigEndian.Uint32(h[:4]) >> 1)) {
				return
			}
			if !evaluated.Add(h) || *flagCount {
				return
			}
			cube.Check(ctx, l, func(a, s, d string) {
				n := len(r.Violations)
				fail(a, s, d)
				if len(r.Violations) == n+1 {
					// name the failing cell in the replay artefact
					if tr, ok := r.Violations[n].Replay.(core.Trace[Op]); ok {
						r.Violations[n].Replay = replayCfg{Config: cfg, Seed: tr.Seed, Ops: tr.Ops, Cell: s, Assertion: a}
					}
				}
			})
		},
		LedgerKey: ledgerKey,
	}
	ex := core.NewExplorer(sc, &fAll, r)
	done := 0
	for _, d := range depths {
		ex.Run("base", w.Ctx, w.Base.Clone(), d)
		if !r.Exhaustive {
			break
		}
		done = d
	}
	r.DepthCompleted = done
	evaluated.Dump(f.HashOut)
	// the op tree was walked by every shard: count it once
	r.States = int64(evaluated.Len())
	if f.Shard != 0 {
		r.Transitions -= opTransitions
		r.Traces = 0
		for k := range r.Rejected {
			if strings.HasPrefix(k, "rejected:") {
				delete(r.Rejected, k)
			}
		}
	}
	r.Extra["sum_states_evaluated"] = evaluated.Len()
	r.Extra["depths"] = fmt.Sprint(depths)

	r.Extra["message_table"] = describe(tab)
	r.Extra["registered_without_handler"] = w.Unroutable
	r.Extra["senders"] = w.Senders()
	r.Extra["protected_module_targets"] = ProtectedModules
	r.Extra["alphabet"] = fmt.Sprintf("%+v", *al)
	r.Extra["root_ops"] = fmt.Sprint(w.Enabled(al)(w.Ctx, w.Base, 0))
	r.Extra["scenario_steps"] = w.Log
	r.Outcomes = int64(len(r.Rejected) + 1)
	if os.Getenv("VERIF_DEBUG") != "" {
		for _, k := range sortedKeys(r.Rejected) {
			fmt.Fprintf(os.Stderr, "%6d %s\n", r.Rejected[k], k)
		}
		for _, k := range sortedKeys(r.Vacuity) {
			fmt.Fprintf(os.Stderr, "V %6d %s\n", r.Vacuity[k], k)
		}
	}
	core.Finish(f, r)
}
