package main

import (
	"bytes"
	"crypto/sha256"
	"fmt"
	"regexp"
	"sort"
	"strings"

	sdk "github.com/cosmos/cosmos-sdk/types"
	"github.com/cosmos/gogoproto/proto"

	tftypes "github.com/osmosis-labs/osmosis/v31/x/tokenfactory/types"

	"github.com/osmosis-labs/osmosis/v31/zzverif/core"
)

// authErr recognises refusals whose reason is "you are not the owner / admin".
var authErr = regexp.MustCompile(`(?i)unauthorized|not the owner|not owner|owner mismatch|does not match|not allowed to force unlock|is not the owner`)

// Cube is the per-state oracle.
type Cube struct {
	W      *World
	Tab    []*Row
	R      *core.Result
	Filter string // replay/debug: only rows whose short name contains this
}

func storeDiff(w *World, a, b sdk.Context) string {
	var d []string
	for _, n := range core.StoreNames(w.App) {
		if core.StateHash(w.App, a, []string{n}) != core.StateHash(w.App, b, []string{n}) {
			d = append(d, n)
		}
	}
	return strings.Join(d, ",")
}

func balDiff(w *World, a, b sdk.Context) string {
	var d []string
	names := append(append([]string{}, Users...), "pool")
	for _, m := range ProtectedModules {
		names = append(names, "mod:"+m)
	}
	for _, n := range names {
		ad, _ := sdk.AccAddressFromBech32(w.Addr(n))
		x, y := w.App.BankKeeper.GetAllBalances(a, ad), w.App.BankKeeper.GetAllBalances(b, ad)
		if !x.Equal(y) {
			neg, _ := y.SafeSub(x...)
			d = append(d, fmt.Sprintf("%s:%s", n, neg))
		}
	}
	s := strings.Join(d, " ")
	if len(s) > 500 {
		s = s[:500]
	}
	return s
}

// objects returns a digest per ledger object, read from the chain (used only to detect CHANGE, never to
// decide who is authorised).
func (c *Cube) objects(ctx sdk.Context, l *Ledger) map[string][]byte {
	a := c.W.App
	out := map[string][]byte{}
	put := func(k string, m proto.Message, err error) {
		if err != nil {
			out[k] = []byte("ERR " + errClass(err))
			return
		}
		bz, e := proto.Marshal(m)
		if e != nil {
			panic(e)
		}
		out[k] = append(out[k], bz...)
	}
	for _, p := range l.Pos {
		k := fmt.Sprintf("pos/%d/%s", p.ID, p.Owner)
		pos, err := a.ConcentratedLiquidityKeeper.GetPosition(ctx, p.ID)
		put(k, &pos, err)
		lid, err := a.ConcentratedLiquidityKeeper.GetLockIdFromPositionId(ctx, p.ID)
		out[k] = append(out[k], []byte(fmt.Sprintf("|lock=%d,%v", lid, err != nil))...)
	}
	for _, k := range l.Locks {
		key := fmt.Sprintf("lock/%d/%s", k.ID, k.Owner)
		lk, err := a.LockupKeeper.GetLockByID(ctx, k.ID)
		if err != nil {
			out[key] = []byte("ERR " + errClass(err))
			continue
		}
		put(key, lk, nil)
		syn, _, err := a.LockupKeeper.GetSyntheticLockupByUnderlyingLockId(ctx, k.ID)
		if err == nil {
			bz, _ := proto.Marshal(&syn)
			out[key] = append(out[key], bz...)
		}
	}
	for _, d := range l.Denoms {
		owner := d.Admin
		if !d.Exists {
			owner = d.Creator // a denom that does not exist yet belongs to nobody but can only be created by the namespace's owner
		}
		key := fmt.Sprintf("denom/%s/%s", d.Sub, owner)
		md, err := a.TokenFactoryKeeper.GetAuthorityMetadata(ctx, d.Name)
		put(key, &md, err)
		bm, ok := a.BankKeeper.GetDenomMetaData(ctx, d.Name)
		if ok {
			bz, _ := proto.Marshal(&bm)
			out[key] = append(out[key], bz...)
		}
		out[key] = append(out[key], []byte("|hook="+a.TokenFactoryKeeper.GetBeforeSendHook(ctx, d.Name))...)
		out[key] = append(out[key], []byte("|supply="+a.BankKeeper.GetSupply(ctx, d.Name).String())...)
	}
	return out
}

func ownerOfKey(k string) string { return k[strings.LastIndex(k, "/")+1:] }

// Check evaluates the whole cube in one state.
func (c *Cube) Check(ctx sdk.Context, l *Ledger, fail func(a, s, d string)) {
	w, a, r := c.W, c.W.App, c.R
	senders := w.Senders()
	r.Vacuity["states_checked"]++
	for _, d := range l.Denoms {
		if d.Exists && d.Admin == "" {
			r.Vacuity["state_with_renounced_denom"]++
			break
		}
	}

	// ---- unauthorised cells: all on ONE branch; a refused message must leave it untouched, so the hash of
	// the branch is compared once at the end (and per cell if that ever differs)
	var unauth, auth []Cell
	for _, row := range c.Tab {
		if row.Kind != "object" || (c.Filter != "" && !strings.Contains(row.Short, c.Filter)) {
			continue
		}
		for _, s := range senders {
			for _, cell := range row.Gen(w, l, s) {
				if cell.Auth {
					auth = append(auth, cell)
				} else {
					unauth = append(unauth, cell)
				}
			}
		}
	}
	h0 := core.StateHash(a, ctx, nil)
	ub, _ := ctx.CacheContext()
	for _, cell := range unauth {
		res := core.Deliver(a, ub, cell.Msg)
		r.Transitions++
		if res.OK() {
			sig := cell.Row + "|" + cell.Role + "|" + cell.ObjVar + "|accepted"
			fail("c20.unauthorised-sender-rejected", sig, fmt.Sprintf("%s sent by %s (role %s, NOT authorised per the ledger) on %s [%s] was ACCEPTED; stores changed: %s; balances moved: %s; msg=%s",
				cell.Row, cell.Sender, cell.Role, cell.ObjKey, cell.ObjVar, storeDiff(w, ctx, ub), balDiff(w, ctx, ub), cell.Msg))
			ub, _ = ctx.CacheContext()
			core.ResetCaches(a, ctx)
			continue
		}
		base := strings.SplitN(cell.Row, "[", 2)[0]
		r.Vacuity["unauth_rejected:"+base]++
		cls := "unauth:" + cell.Row + ":" + errClass(res.Err)
		r.Rejected[cls]++
		switch {
		case cell.Role == "prev-owner" && strings.HasPrefix(cell.ObjVar, "pos:transferred"):
			r.Vacuity["prev_owner_rejected_after_transfer"]++
		case cell.Role == "prev-admin" && cell.ObjVar == "denom:admin-changed":
			r.Vacuity["prev_admin_rejected_after_change"]++
		case cell.ObjVar == "denom:renounced":
			r.Vacuity["renounced_denom_sender_rejected"]++
		case cell.ObjVar == "denom:nonexistent":
			r.Vacuity["nonexistent_denom_sender_rejected"]++
		}
		if has(cell.Tags, "module-target") && cell.Role == "admin" {
			r.Vacuity["admin_rejected_on_module_account_target"]++
		}
		if cell.Role == "owner-not-allowlisted" {
			r.Vacuity["force_unlock_owner_not_allowlisted_rejected"]++
		}
		if strings.HasSuffix(cell.Row, "[own+foreign]") {
			r.Vacuity["mixed_batch_rejected"]++
		}
		if cell.Sender == "" {
			r.Vacuity["empty_sender_rejected"]++
		}
	}
	if h1 := core.StateHash(a, ub, nil); h1 != h0 {
		// some refused message wrote through: find it
		for _, cell := range unauth {
			b, _ := ctx.CacheContext()
			res := core.Deliver(a, b, cell.Msg)
			if !res.OK() && core.StateHash(a, b, nil) != h0 {
				fail("c20.rejected-message-leaves-state-unchanged", cell.Row+"|"+cell.Role+"|"+cell.ObjVar+"|rejected-but-state-changed",
					fmt.Sprintf("%s by %s on %s refused (%v) but stores changed: %s", cell.Row, cell.Sender, cell.ObjKey, res.Err, storeDiff(w, ctx, b)))
			}
		}
	}
	r.Vacuity["unauthorised_batches_hash_compared"]++

	// ---- authorised cells: each on its own branch
	for _, cell := range auth {
		b, _ := ctx.CacheContext()
		res := core.Deliver(a, b, cell.Msg)
		r.Transitions++
		base := strings.SplitN(cell.Row, "[", 2)[0]
		if res.OK() {
			r.Vacuity["auth_accepted:"+base]++
			if has(cell.Tags, "gov") {
				r.Vacuity["gov_transfer_accepted"]++
			}
			if cell.Role == "owner" && strings.HasPrefix(cell.ObjVar, "pos:transferred") {
				r.Vacuity["new_owner_accepted_after_transfer"]++
			}
			if cell.Role == "admin" && cell.ObjVar == "denom:admin-changed" {
				r.Vacuity["new_admin_accepted_after_change"]++
			}
			if core.StateHash(a, b, nil) != h0 {
				r.Vacuity["auth_accepted_changed_state"]++
			}
			core.ResetCaches(a, ctx)
			continue
		}
		cls := errClass(res.Err)
		r.Rejected["auth:"+cell.Row+":"+cls]++
		if authErr.MatchString(res.Err.Error()) {
			fail("c20.authorised-sender-not-refused-for-authorisation", cell.Row+"|"+cell.Role+"|"+cell.ObjVar+"|refused-as-unauthorised",
				fmt.Sprintf("%s sent by %s (role %s, authorised per the ledger) on %s [%s] was refused with an authorisation error: %v", cell.Row, cell.Sender, cell.Role, cell.ObjKey, cell.ObjVar, res.Err))
			continue
		}
		if has(cell.Tags, "gov") {
			// governance's right: a refusal must be one the owner meets as well (business refusal)
			var own *Cell
			for i := range auth {
				if auth[i].Row == cell.Row && auth[i].ObjKey == cell.ObjKey && !has(auth[i].Tags, "gov") {
					own = &auth[i]
				}
			}
			if own != nil {
				b2, _ := ctx.CacheContext()
				r2 := core.Deliver(a, b2, own.Msg)
				if r2.OK() || errClass(r2.Err) != cls {
					fail("c20.authorised-sender-not-refused-for-authorisation", cell.Row+"|"+cell.Role+"|"+cell.ObjVar+"|refused-where-owner-is-not",
						fmt.Sprintf("%s by the gov module account on %s refused with %v, while the owner gets %v", cell.Row, cell.ObjKey, res.Err, r2.Err))
				}
				core.ResetCaches(a, ctx)
			}
		}
	}

	// ---- self-scoped rows: whatever happens, nothing owned by somebody else changes
	before := c.objects(ctx, l)
	userBal := map[string]sdk.Coins{}
	for _, u := range Users {
		userBal[u] = a.BankKeeper.GetAllBalances(ctx, core.Acc(u))
	}
	for _, row := range c.Tab {
		if row.Kind != "self" || (c.Filter != "" && !strings.Contains(row.Short, c.Filter)) {
			continue
		}
		for _, s := range senders {
			for vi, m := range row.Self(w, l, s) {
				b, _ := ctx.CacheContext()
				res := core.Deliver(a, b, m)
				r.Transitions++
				if !res.OK() {
					r.Rejected["self:"+row.Short+":"+errClass(res.Err)]++
					r.Vacuity["self_refused:"+row.Short]++
					continue
				}
				r.Vacuity["self_accepted:"+row.Short]++
				after := c.objects(b, l)
				keys := make([]string, 0, len(before))
				for k := range before {
					keys = append(keys, k)
				}
				sort.Strings(keys)
				for _, k := range keys {
					if ownerOfKey(k) == s && s != "" {
						continue
					}
					if !bytes.Equal(before[k], after[k]) {
						fail("c20.self-scoped-message-touches-only-the-senders-objects", fmt.Sprintf("%s#%d|%s|%s|foreign-object-changed", row.Short, vi, roleOfName(s), strings.SplitN(k, "/", 2)[0]),
							fmt.Sprintf("%s sent by %s changed %s (not owned by the sender); msg=%s", row.Short, s, k, m))
					}
				}
				for _, u := range Users {
					if u == s {
						continue
					}
					if nb := a.BankKeeper.GetAllBalances(b, core.Acc(u)); !nb.Equal(userBal[u]) {
						fail("c20.self-scoped-message-touches-only-the-senders-objects", fmt.Sprintf("%s#%d|%s|balance|foreign-balance-changed", row.Short, vi, roleOfName(s)),
							fmt.Sprintf("%s sent by %s moved the balance of %s: %s -> %s", row.Short, s, u, userBal[u], nb))
					}
				}
				if strings.HasSuffix(row.Short, "MsgCreateDenom") {
					var resp tftypes.MsgCreateDenomResponse
					mustUnmarshal(res.Res, &resp)
					creator, _, err := tftypes.DeconstructDenom(resp.NewTokenDenom)
					if err != nil || creator != w.Addr(s) {
						fail("c20.created-denom-lands-in-the-senders-namespace", fmt.Sprintf("%s#%d|%s|namespace|foreign-namespace", row.Short, vi, roleOfName(s)),
							fmt.Sprintf("MsgCreateDenom by %s produced %s (creator segment %q, err %v)", s, resp.NewTokenDenom, creator, err))
					}
					r.Vacuity["created_denom_namespace_checked"]++
				}
				if strings.HasSuffix(row.Short, "MsgBeginUnlockingAll") {
					r.Vacuity["begin_unlocking_all_accepted_others_untouched"]++
				}
				core.ResetCaches(a, ctx)
			}
		}
	}

	// ---- re-creating an existing denom (would hand the admin role back to the creator) must be refused
	if c.Filter == "" || strings.Contains("tokenfactory.MsgCreateDenom", c.Filter) {
		for _, d := range l.Denoms {
			if !d.Exists {
				continue
			}
			b, _ := ctx.CacheContext()
			res := core.Deliver(a, b, tftypes.NewMsgCreateDenom(w.Addr(d.Creator), d.Sub))
			r.Transitions++
			if res.OK() {
				fail("c20.existing-denom-cannot-be-recreated", "tokenfactory.MsgCreateDenom[existing]|"+role(d.Creator, d.Admin, d.Prev, "admin")+"|"+d.Variant()+"|accepted",
					fmt.Sprintf("MsgCreateDenom by the creator for the existing denom %s (admin %q) was accepted", d.Sub, d.Admin))
			} else {
				r.Vacuity["recreate_existing_denom_rejected"]++
			}
		}
	}
	core.ResetCaches(a, ctx)
}

func roleOfName(s string) string {
	switch {
	case s == "":
		return "empty"
	case s == "pool" || strings.HasPrefix(s, "mod:"):
		return s
	}
	return "user-" + s
}

// ledgerKey: the ledger is part of the state identity (who is "previous owner" is history, not store).
func ledgerKey(l *Ledger) []byte {
	h := sha256.New()
	for _, p := range l.Pos {
		fmt.Fprintf(h, "p%d:%s:%v:%v;", p.ID, p.Owner, p.Prev, p.Gone)
	}
	for _, k := range l.Locks {
		fmt.Fprintf(h, "l%d:%s:%v:%s:%s:%v;", k.ID, k.Owner, k.Unlocking, k.Receiver, k.SF, k.Gone)
	}
	for _, d := range l.Denoms {
		fmt.Fprintf(h, "d%s:%s:%v:%v;", d.Sub, d.Admin, d.Prev, d.Exists)
	}
	return h.Sum(nil)[:16]
}
