package main

// Operand lattices. All values are raw scaled integers, ordered simplest-first. The first `core`
// entries of each lattice are the canonical sub-lattice that every shard evaluates completely (so the
// minimal failing operands of a failing class do not depend on the sharding).

import (
	"math/big"
	"strings"
)

type lattice struct {
	vals []*big.Int
	core int // vals[:core] is the canonical core
	seen map[string]bool
}

func (l *lattice) add1(v *big.Int) {
	k := v.String()
	if l.seen[k] {
		return
	}
	l.seen[k] = true
	l.vals = append(l.vals, v)
}

// add appends v and -v.
func (l *lattice) add(v *big.Int) {
	l.add1(new(big.Int).Set(v))
	if v.Sign() != 0 {
		l.add1(new(big.Int).Neg(v))
	}
}

func bi(s string) *big.Int {
	v, ok := new(big.Int).SetString(s, 10)
	if !ok {
		panic("harness: bad literal " + s)
	}
	return v
}

func rep(digit string, n int) *big.Int { return bi(strings.Repeat(digit, n)) }
func mulp(m *big.Int, e int) *big.Int  { return new(big.Int).Mul(m, pow10(e)) }
func addi(a *big.Int, k int64) *big.Int {
	return new(big.Int).Add(a, big.NewInt(k))
}
func pow2(k uint) *big.Int { return new(big.Int).Lsh(big1, k) }

// genLattice builds a lattice for a type with `prec` decimals whose raw values must satisfy fits().
//   - coreVals: explicit canonical values
//   - mants x exps: m * 10^e (e = decimal exponent of the *value*), with +-1 ulp neighbours for the
//     mantissas listed in offs
//   - bounds: explicit boundary values
func genLattice(prec int, fits func(*big.Int) bool, coreVals []*big.Int, mants []*big.Int, exps []int, offs map[string]bool, bounds []*big.Int) *lattice {
	l := &lattice{seen: map[string]bool{}}
	for _, v := range coreVals {
		if !fits(v) {
			panic("harness: core value out of range")
		}
		l.add(v)
	}
	l.core = len(l.vals)
	for _, e := range exps {
		for _, m := range mants {
			if e+prec < 0 {
				continue
			}
			base := mulp(m, e+prec)
			if !fits(base) {
				continue
			}
			l.add(base)
			if offs[m.String()] {
				if p := addi(base, 1); fits(p) {
					l.add(p)
				}
				l.add(addi(base, -1))
			}
		}
	}
	for _, v := range bounds {
		if fits(v) {
			l.add(v)
		}
	}
	return l
}

func setOf(ms ...*big.Int) map[string]bool {
	r := map[string]bool{}
	for _, m := range ms {
		r[m.String()] = true
	}
	return r
}

// ---- 36-decimal lattice -------------------------------------------------------------------------

func bigLattice(tier string) *lattice {
	half := new(big.Int).Quo(p36, big2)
	coreVals := []*big.Int{
		big.NewInt(0),
		p36,                         // 1
		mulp(big2, 36),              // 2
		mulp(big.NewInt(3), 36),     // 3
		big.NewInt(1),               // 1 ulp
		half,                        // 0.5  (ties at the 36th digit against odd/even ulp counts)
		mulp(big.NewInt(15), 35),    // 1.5
		mulp(big.NewInt(25), 35),    // 2.5
		big.NewInt(3),               // 3 ulp
		rep("3", 36),                // 0.333..3 (36 digits)
		addi(mulp(big2, 36), -1),    // 2 - 1ulp: 1ulp/(2-1ulp) is a tie only after truncation at 72 decimals
		mulp(big.NewInt(5), 17),     // 0.5e-18: tie at the 18th digit for the precision conversions
		mulp(big.NewInt(15), 17),    // 1.5e-18
		pow10(155 + 36),             // 1e155: squares beyond the bound
		pow2(1024),                  // first value refused by the 1024-bit decoders
		addi(maxBigRaw, -1),         // one ulp below the largest value
		new(big.Int).Set(maxBigRaw), // largest value
	}
	var mants []*big.Int
	var exps []int
	var offs map[string]bool
	i64 := func(xs ...int64) []*big.Int {
		var r []*big.Int
		for _, x := range xs {
			r = append(r, big.NewInt(x))
		}
		return r
	}
	if tier == "thorough" {
		mants = append(i64(1, 2, 3, 5, 7, 15, 25, 125),
			rep("3", 18), addi(mulp(rep("6", 17), 1), 7), rep("9", 18), addi(pow10(18), 1),
			rep("3", 36), addi(mulp(rep("6", 35), 1), 7), rep("9", 36), addi(pow10(36), 1))
		exps = []int{0, -1, 1, -18, 18, -36, -35, -17, -19, 17, 19, -2, 2, -9, 9, -20, 20, -34, -33, -32, -31, -30, 35, 36, 37, 54, 100, 200, 270, 300, 305, 306, 307, 308}
		offs = setOf(i64(1, 2, 3, 5, 7, 15, 25, 125)...)
	} else {
		mants = append(i64(1, 2, 3, 5, 15, 25), rep("3", 18), rep("9", 36))
		exps = []int{0, -1, 1, -18, 18, -36, -35, -17, -19, 36, 100, 270, 300, 308}
		offs = setOf(big.NewInt(1))
	}
	decMaxAsBig := new(big.Int).Mul(maxDecRaw, p18)
	bounds := []*big.Int{
		pow2(1023), addi(pow2(1024), -1), addi(pow2(1024), 1), pow2(1143), addi(pow2(1143), -1),
		decMaxAsBig, addi(decMaxAsBig, 1), new(big.Int).Add(decMaxAsBig, p18), // around the 18-decimal type's bound
	}
	if tier == "thorough" {
		bounds = append(bounds, pow2(1022), addi(pow2(1023), -1), addi(pow2(1023), 1), addi(pow2(1143), 1), pow2(1142),
			pow2(64), addi(pow2(64), -1), pow2(128), addi(pow2(128), 1), pow2(256), pow2(512), addi(pow2(512), -1),
			addi(maxBigRaw, -2), mulp(pow2(1024), 36) /* 2^1024 as a value */, addi(mulp(pow2(1024), 36), -1),
			mulp(addi(pow2(1024), -1), 36) /* largest integer accepted by the 1024-bit integer type */)
	}
	return genLattice(36, fitsBigDec, coreVals, mants, exps, offs, bounds)
}

// ---- 18-decimal lattice -------------------------------------------------------------------------

func decLattice(tier string) *lattice {
	half := new(big.Int).Quo(p18, big2)
	coreVals := []*big.Int{
		big.NewInt(0),
		p18,
		mulp(big2, 18),
		mulp(big.NewInt(3), 18),
		big.NewInt(1),
		half,
		mulp(big.NewInt(15), 17),
		mulp(big.NewInt(25), 17),
		big.NewInt(3),
		rep("3", 18),
		addi(mulp(big2, 18), -1),
		pow10(39 + 18), // 1e39: squares beyond the bound
		addi(maxDecRaw, -1),
		new(big.Int).Set(maxDecRaw),
	}
	var mants []*big.Int
	var exps []int
	var offs map[string]bool
	i64 := func(xs ...int64) []*big.Int {
		var r []*big.Int
		for _, x := range xs {
			r = append(r, big.NewInt(x))
		}
		return r
	}
	if tier == "thorough" {
		mants = append(i64(1, 2, 3, 5, 7, 15, 25, 125),
			rep("3", 9), addi(mulp(rep("6", 8), 1), 7), rep("9", 9), addi(pow10(9), 1),
			rep("3", 18), addi(mulp(rep("6", 17), 1), 7), rep("9", 18), addi(pow10(18), 1))
		exps = []int{0, -1, 1, -9, 9, -18, -17, -10, -8, 8, 10, -2, 2, -16, -15, -14, -13, 17, 18, 19, 27, 36, 38, 39, 58, 70, 76, 77}
		offs = setOf(i64(1, 2, 3, 5, 7, 15, 25, 125)...)
	} else {
		mants = append(i64(1, 2, 3, 5, 15, 25), rep("3", 9), rep("9", 18))
		exps = []int{0, -1, 1, -9, 9, -18, -17, 18, 38, 58, 76, 77}
		offs = setOf(big.NewInt(1))
	}
	bounds := []*big.Int{
		pow2(255), pow2(256), addi(pow2(256), -1),
		mulp(addi(pow2(256), -1), 18), // largest 256-bit integer as a value
		mulp(pow2(255), 18),
		addi(maxDecRaw, -2),
	}
	return genLattice(18, fitsDec, coreVals, mants, exps, offs, bounds)
}

// ---- integer operand lattices (small; always evaluated completely) -----------------------------------

func symmetric(vs []*big.Int, fits func(*big.Int) bool) []*big.Int {
	l := &lattice{seen: map[string]bool{}}
	for _, v := range vs {
		if fits(v) {
			l.add(v)
		}
	}
	return l.vals
}

// 1024-bit integer type
func bigIntLattice() []*big.Int {
	return symmetric([]*big.Int{big.NewInt(0), big.NewInt(1), big.NewInt(2), big.NewInt(3), big.NewInt(7), big.NewInt(10),
		pow10(18), pow10(36), addi(pow2(63), -1), pow2(64), pow2(255), pow2(256), pow10(100), pow10(300),
		pow2(512), pow2(1023), addi(pow2(1024), -1)}, func(v *big.Int) bool { return v.BitLen() <= 1024 })
}

// 256-bit sdk integer type
func sdkIntLattice() []*big.Int {
	return symmetric([]*big.Int{big.NewInt(0), big.NewInt(1), big.NewInt(2), big.NewInt(3), big.NewInt(7), big.NewInt(10),
		pow10(18), pow10(36), addi(pow2(63), -1), pow2(64), pow10(70), pow2(128), pow2(255), addi(pow2(256), -1)},
		func(v *big.Int) bool { return v.BitLen() <= 256 })
}

func int64Lattice() []*big.Int {
	vs := symmetric([]*big.Int{big.NewInt(0), big.NewInt(1), big.NewInt(2), big.NewInt(3), big.NewInt(5), big.NewInt(7),
		big.NewInt(10), big.NewInt(1000), pow10(9), pow10(18), addi(pow2(63), -2), addi(pow2(63), -1)},
		func(v *big.Int) bool { return v.IsInt64() })
	return append(vs, new(big.Int).Neg(pow2(63))) // MinInt64
}

func uint64Lattice() []*big.Int {
	return []*big.Int{big.NewInt(0), big.NewInt(1), big.NewInt(2), big.NewInt(3), big.NewInt(7), big.NewInt(10),
		pow10(6), pow10(18), addi(pow2(63), -1), pow2(63), addi(pow2(64), -1)}
}
