package main

// The case evaluator: runs one (operation, operands) case on the real code in all its forms and judges
// it against the exact reference.

import (
	"fmt"
	"math/big"
	"strings"

	sdkmath "cosmossdk.io/math"

	"github.com/osmosis-labs/osmosis/osmomath"
	core "github.com/osmosis-labs/osmosis/osmomath/zzverif/res"
)

type kind int

const (
	kNone   kind = iota
	kBig         // osmomath.BigDec, raw = value*10^36
	kDec         // osmomath.Dec (sdkmath.LegacyDec), raw = value*10^18
	kBigInt      // osmomath.BigInt (1024 bit)
	kSdkInt      // osmomath.Int (sdkmath.Int, 256 bit)
	kI64         // int64
	kU64         // uint64
	kRaw         // caller-owned *big.Int handed to a constructor
)

func (k kind) prec() int {
	switch k {
	case kBig:
		return 36
	case kDec:
		return 18
	}
	return 0
}

// result domains
type domain int

const (
	dBig domain = iota
	dDec
	dBigInt
	dSdkInt
	dI64
	dBool
)

func (d domain) prec() int {
	switch d {
	case dBig:
		return 36
	case dDec:
		return 18
	}
	return 0
}

func (d domain) fits(raw *big.Int) bool {
	switch d {
	case dBig:
		return fitsBigDec(raw)
	case dDec:
		return fitsDec(raw)
	case dBigInt:
		return raw.BitLen() <= 1024
	case dSdkInt:
		return raw.BitLen() <= 256
	case dI64:
		return raw.IsInt64()
	}
	return true
}

func (d domain) String() string {
	return [...]string{"BigDec", "Dec", "BigInt", "Int", "int64", "bool"}[d]
}

// operand is one typed operand handed to the code under test, plus a pristine reference copy.
type operand struct {
	k   kind
	raw *big.Int // never handed to the code under test
	big osmomath.BigDec
	dec osmomath.Dec
	bi  osmomath.BigInt
	si  osmomath.Int
	n   int64
	u   uint64
	p   *big.Int
}

func mk(k kind, raw *big.Int) *operand {
	if k == kNone {
		return nil
	}
	o := &operand{k: k, raw: raw}
	switch k {
	case kBig:
		o.big = osmomath.NewBigDecFromBigIntWithPrec(raw, 36) // fresh big.Int, multiplier 10^0
	case kDec:
		o.dec = osmomath.NewDecFromBigIntWithPrec(raw, 18)
	case kBigInt:
		o.bi = osmomath.NewBigIntFromBigInt(new(big.Int).Set(raw))
	case kSdkInt:
		o.si = sdkmath.NewIntFromBigInt(raw) // copies
	case kI64:
		o.n = raw.Int64()
	case kU64:
		o.u = raw.Uint64()
	case kRaw:
		o.p = new(big.Int).Set(raw)
	}
	return o
}

// cur returns the operand's current raw value as the code under test sees it.
func (o *operand) cur() *big.Int {
	switch o.k {
	case kBig:
		return o.big.BigIntMut()
	case kDec:
		return o.dec.BigIntMut()
	case kBigInt:
		return o.bi.BigInt()
	case kSdkInt:
		return o.si.BigIntMut()
	case kRaw:
		return o.p
	}
	return o.raw
}

func (o *operand) unchanged() bool { return o == nil || o.cur().Cmp(o.raw) == 0 }

type callFn func(a, b *operand) *big.Int
type refFn func(a, b *big.Int) (*big.Int, bool) // ok=false: the operation is undefined here and must fail

type opSpec struct {
	name    string // exact name of the non-mutating form incl. parameter, e.g. "ChopPrecision(7)"
	grp     string // name without parameter; assertion prefix
	mutName string // exact name of the mutating twin ("" if none)
	mutGrp  string
	ak, bk  kind
	dom     domain
	mode    roundMode
	call    callFn // non-mutating form (nil if none)
	mut     callFn // mutating form (nil if none)
	ref     refFn
	recv    bool // mutating form must leave the returned value in its receiver (ops named in the statement)
	quo     bool // quotient family (for the negative-inexact-quotient counter)
	tiePrec int  // precision at which half-even ties are counted (36, 18, 0=integer)
}

type replayCase struct {
	Op    string `json:"op"`
	A     string `json:"a"`
	B     string `json:"b,omitempty"`
	Codec string `json:"codec,omitempty"` // for round-trip cases: domain name
	// Assertion restricts the replay to the oracle that failed (one case can fail several oracles)
	Assertion string `json:"assertion,omitempty"`
}

// H is the per-process harness state (single goroutine).
type H struct {
	r        *core.Result
	f        *core.Flags
	canon    bool            // canonical phase: identical in every shard
	countOn  bool            // whether this shard counts the current phase in States/Transitions/vacuity
	canonSet map[string]bool // assertions already reported from the canonical phase
	canonV   []core.Violation
	firstV   map[string]bool // assertions reported from the sharded phase
	shardV   []core.Violation
	failCnt  map[string]int64
	scratch  map[string]bool // per-case dedupe of produced values
	replay   bool
	replayOp string // replay: only failures of this assertion are reported
	// distinct lattice points whose exact result is not representable: a rounding decision was needed /
	// the result lies beyond the bound
	nontrivRounding, nontrivOverflow int64
	codecOn                          bool
}

func newH(f *core.Flags, r *core.Result) *H {
	return &H{r: r, f: f, canonSet: map[string]bool{}, firstV: map[string]bool{}, failCnt: map[string]int64{}, codecOn: true}
}

func (h *H) vac(k string) {
	if h.countOn {
		h.r.Vacuity[k]++
	}
}

func (h *H) fail(assertion, sig, class, detail string, rc replayCase) {
	if h.countOn || !h.canon {
		h.failCnt[assertion]++
	}
	rc.Assertion = assertion
	v := core.Violation{Property: h.f.Prop, Assertion: assertion, Signature: sig, Detail: "class=" + class + " " + detail, Replay: rc}
	if h.replay {
		if h.replayOp == "" || assertion == h.replayOp {
			h.r.AddViolation(v)
		}
		return
	}
	if h.canon {
		if !h.canonSet[assertion] {
			h.canonSet[assertion] = true
			h.canonV = append(h.canonV, v)
		}
		return
	}
	if h.canonSet[assertion] || h.firstV[assertion] {
		return
	}
	h.firstV[assertion] = true
	h.shardV = append(h.shardV, v)
}

// run executes fn, recovering panics.
func run(fn callFn, a, b *operand) (res *big.Int, panicked bool, msg string) {
	defer func() {
		if r := recover(); r != nil {
			panicked = true
			msg = fmt.Sprint(r)
			res = nil
		}
	}()
	out := fn(a, b)
	if out == nil {
		return nil, true, "refused (error return)"
	}
	return new(big.Int).Set(out), false, ""
}

func signs(op *opSpec, ra, rb *big.Int) string {
	if op.bk == kNone {
		return signName(ra)
	}
	return signName(ra) + "," + signName(rb)
}

func (h *H) sig(name string, op *opSpec, ra, rb *big.Int) string {
	s := name + "|" + fmtDec(ra, op.ak.prec()) + "|"
	if op.bk != kNone {
		s += fmtDec(rb, op.bk.prec())
	}
	return s
}

type outcome struct {
	val *big.Int
	pan bool
	msg string
}

func (o outcome) show(prec int) string {
	if o.pan {
		return "panic(" + o.msg + ")"
	}
	return fmtDec(o.val, prec)
}

// judge compares one observed outcome with the reference. form is the exact method name, grp the
// assertion prefix, tag an optional qualifier ("aliased").
func (h *H) judge(op *opSpec, form, grp, tag string, ra, rb, want *big.Int, expectPanic, overflow bool, got outcome) {
	h.r.Traces++
	prec := op.dom.prec()
	kindStr, class := "", ""
	switch {
	case expectPanic && got.pan:
		if overflow {
			h.vac("overflow_panics_observed")
		} else {
			h.vac("undefined_operation_refused")
		}
		return
	case expectPanic && !got.pan:
		if overflow {
			kindStr, class = "nopanic", "overflow-not-refused"
			if got.val.Cmp(want) != 0 {
				kindStr, class = "nopanic-wrong-value", "overflow-wrapped-or-wrong"
			}
		} else {
			kindStr, class = "undefined-not-refused", "undefined-operation-not-refused"
		}
	case got.pan:
		kindStr, class = "panic", "unexpected-failure"
	case got.val.Cmp(want) == 0:
		return
	default:
		diff := new(big.Int).Sub(got.val, want)
		switch {
		case diff.Cmp(big1) == 0:
			kindStr = "plus1ulp"
		case diff.CmpAbs(big1) == 0:
			kindStr = "minus1ulp"
		default:
			kindStr = "wrong"
		}
		switch op.mode {
		case mCeil:
			class = "round-up-direction"
		case mTrunc:
			class = "truncate-direction"
		case mEven:
			class = "nearest-even"
		default:
			class = "exact-result"
		}
	}
	if tag != "" {
		kindStr = tag + "-" + kindStr
		class = "aliased-receiver-argument"
	}
	wantS := ""
	if want != nil {
		wantS = fmtDec(want, prec)
		if expectPanic {
			wantS = "failure (exact result " + wantS + " is outside the " + op.dom.String() + " bound)"
		}
	} else {
		wantS = "failure (operation undefined)"
	}
	detail := fmt.Sprintf("op=%s a=%s b=%s got=%s want=%s direction=%s", form, fmtDec(ra, op.ak.prec()), bstr(op, rb), got.show(prec), wantS, op.mode)
	h.fail(grp+"."+signs(op, ra, rb)+"."+kindStr, h.sig(form, op, ra, rb)+tagSuffix(tag), class, detail,
		replayCase{Op: form + tagSuffix(tag), A: ra.String(), B: braw(op, rb)})
}

func tagSuffix(tag string) string {
	if tag == "" {
		return ""
	}
	return "#" + tag
}

func bstr(op *opSpec, rb *big.Int) string {
	if op.bk == kNone {
		return "-"
	}
	return fmtDec(rb, op.bk.prec())
}

func braw(op *opSpec, rb *big.Int) string {
	if op.bk == kNone {
		return ""
	}
	return rb.String()
}

// evalCase evaluates one lattice point of one operation in every form. alias requests the additional
// a.Op(a) runs (only meaningful when both operands are of the same kind and value).
// evalCase evaluates one lattice point. The calls into the library are wrapped individually (a panic of the library
// is an outcome); a panic that escapes anyway - the library handed back a value the comparison code cannot even
// look at, e.g. a decimal without a number inside - is reported as a violation of that operation, not as a harness
// crash.
func (h *H) evalCase(op *opSpec, ra, rb *big.Int, alias bool) {
	defer func() {
		if r := recover(); r != nil {
			b := ""
			if rb != nil {
				b = rb.String()
			}
			h.fail(op.grp+".unusable-result", op.name+"|unusable|", "unusable-result",
				fmt.Sprintf("op=%s a=%s b=%s: examining the operands/result panicked: %v", op.name, fmtDec(ra, op.ak.prec()), b, r),
				replayCase{Op: op.name, A: ra.String(), B: b})
		}
	}()
	h.evalCaseInner(op, ra, rb, alias)
}

func (h *H) evalCaseInner(op *opSpec, ra, rb *big.Int, alias bool) {
	if h.countOn {
		h.r.States++
	}
	want, ok := op.ref(ra, rb)
	// observations of the reference computation
	if ok && h.countOn {
		if lastTie {
			switch op.tiePrec {
			case 36:
				h.vac("ties_at_36th_digit")
			case 18:
				h.vac("ties_at_18th_digit")
			default:
				h.vac("ties_at_integer")
			}
			if lastTieOnlyAfterTruncation && op.quo {
				h.vac("quo_ties_only_after_truncation_at_double_precision")
			}
		}
		if op.quo && lastInexact && lastNeg {
			h.vac("negative_inexact_quotients")
		}
	}
	inexact := ok && lastInexact
	lastTie, lastTieOnlyAfterTruncation, lastInexact, lastNeg = false, false, false, false
	expectPanic, overflow := !ok, false
	if ok && !op.dom.fits(want) {
		expectPanic, overflow = true, true
	}
	if h.countOn {
		switch {
		case overflow:
			h.nontrivOverflow++
		case inexact && op.mode != mExact:
			h.nontrivRounding++
		}
	}
	if ok && h.countOn && (op.dom == dBig || op.dom == dDec) {
		lim := maxBigRaw
		if op.dom == dDec {
			lim = maxDecRaw
		}
		switch c := new(big.Int).Sub(new(big.Int).Abs(want), lim); {
		case c.Sign() == 0 || c.Cmp(big.NewInt(-1)) == 0:
			h.vac("results_within_one_ulp_below_bound")
		case c.Cmp(big1) == 0:
			h.vac("results_one_ulp_beyond_bound")
		}
	}
	sg := signs(op, ra, rb)
	var produced []*big.Int
	var nm outcome
	haveNM := false
	trans := int64(0)

	if op.call != nil {
		a, b := mk(op.ak, ra), mk(op.bk, rb)
		v, p, m := run(op.call, a, b)
		trans++
		nm, haveNM = outcome{v, p, m}, true
		if h.countOn && rec != nil {
			rec.add(op.name, ra, rb, nm.rec())
		}
		h.judge(op, op.name, op.grp, "", ra, rb, want, expectPanic, overflow, nm)
		if !a.unchanged() || !b.unchanged() {
			h.fail(op.grp+"."+sg+".operand-mutated", h.sig(op.name, op, ra, rb), "operand-mutated-by-non-mutating-form",
				fmt.Sprintf("op=%s a=%s b=%s after the call: a=%s b=%s", op.name, fmtDec(ra, op.ak.prec()), bstr(op, rb), fmtDec(a.cur(), op.ak.prec()), curStr(op, b)),
				replayCase{Op: op.name, A: ra.String(), B: braw(op, rb)})
		}
		if !p {
			produced = append(produced, v)
		}
		if alias {
			x := mk(op.ak, ra)
			v, p, m := run(op.call, x, x)
			trans++
			h.vac("aliased_calls")
			if h.countOn && rec != nil {
				rec.add(op.name+"#aliased", ra, rb, outcome{v, p, m}.rec())
			}
			h.judge(op, op.name, op.grp, "aliased", ra, rb, want, expectPanic, overflow, outcome{v, p, m})
			if !x.unchanged() {
				h.fail(op.grp+"."+sg+".aliased-operand-mutated", h.sig(op.name, op, ra, rb)+"#aliased", "operand-mutated-by-non-mutating-form",
					fmt.Sprintf("op=%s with receiver==argument a=%s after the call: a=%s", op.name, fmtDec(ra, op.ak.prec()), fmtDec(x.cur(), op.ak.prec())),
					replayCase{Op: op.name + "#aliased", A: ra.String(), B: braw(op, rb)})
			}
		}
	}
	if op.mut != nil {
		a, b := mk(op.ak, ra), mk(op.bk, rb)
		v, p, m := run(op.mut, a, b)
		trans++
		mo := outcome{v, p, m}
		if h.countOn && rec != nil {
			rec.add(op.mutName, ra, rb, mo.rec()+" recv="+a.cur().String())
		}
		h.judge(op, op.mutName, op.mutGrp, "", ra, rb, want, expectPanic, overflow, mo)
		if haveNM && (nm.pan != mo.pan || (!nm.pan && nm.val.Cmp(mo.val) != 0)) {
			h.fail(op.mutGrp+"."+sg+".differs-from-"+op.grp, h.sig(op.mutName, op, ra, rb), "mutating-and-non-mutating-forms-disagree",
				fmt.Sprintf("a=%s b=%s %s=%s %s=%s", fmtDec(ra, op.ak.prec()), bstr(op, rb), op.name, nm.show(op.dom.prec()), op.mutName, mo.show(op.dom.prec())),
				replayCase{Op: op.mutName, A: ra.String(), B: braw(op, rb)})
		}
		if !p && op.recv && a.cur().Cmp(v) != 0 {
			h.fail(op.mutGrp+"."+sg+".receiver-not-updated", h.sig(op.mutName, op, ra, rb), "mutating-form-receiver-not-updated",
				fmt.Sprintf("op=%s a=%s b=%s returned %s but the receiver holds %s", op.mutName, fmtDec(ra, op.ak.prec()), bstr(op, rb), fmtDec(v, op.dom.prec()), fmtDec(a.cur(), op.ak.prec())),
				replayCase{Op: op.mutName, A: ra.String(), B: braw(op, rb)})
		}
		if !b.unchanged() {
			h.fail(op.mutGrp+"."+sg+".argument-mutated", h.sig(op.mutName, op, ra, rb), "argument-mutated",
				fmt.Sprintf("op=%s a=%s b=%s after the call b=%s", op.mutName, fmtDec(ra, op.ak.prec()), bstr(op, rb), curStr(op, b)),
				replayCase{Op: op.mutName, A: ra.String(), B: braw(op, rb)})
		}
		if !p {
			produced = append(produced, v)
		}
		if alias {
			x := mk(op.ak, ra)
			v, p, m := run(op.mut, x, x)
			trans++
			h.vac("aliased_calls")
			if h.countOn && rec != nil {
				rec.add(op.mutName+"#aliased", ra, rb, outcome{v, p, m}.rec())
			}
			h.judge(op, op.mutName, op.mutGrp, "aliased", ra, rb, want, expectPanic, overflow, outcome{v, p, m})
		}
	}
	if h.countOn {
		h.r.Transitions += trans
	}
	// every value arithmetic produced must survive every encoding
	if h.codecOn && (op.dom == dBig || op.dom == dDec) {
		for i, v := range produced {
			if i > 0 && v.Cmp(produced[0]) == 0 {
				continue
			}
			if !op.dom.fits(v) {
				continue // already reported as an overflow that was not refused
			}
			h.roundTrip(op.dom, v, false)
		}
	}
}

func curStr(op *opSpec, b *operand) string {
	if b == nil {
		return "-"
	}
	return fmtDec(b.cur(), op.bk.prec())
}

// lookup finds the spec and form for a replay name.
func lookup(tables [][]*opSpec, name string) (*opSpec, bool) {
	base := strings.TrimSuffix(name, "#aliased")
	for _, t := range tables {
		for _, op := range t {
			if op.name == base || (op.mutName != "" && op.mutName == base) {
				return op, strings.HasSuffix(name, "#aliased")
			}
		}
	}
	return nil, false
}
