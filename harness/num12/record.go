package main

// Optional outcome recorder (maintenance aid, not used by bin/run): with -outcomes <file> every outcome
// of every form the evaluator executes is folded into a per-form SHA-256, so that two builds of the code
// under test can be compared outcome by outcome on the same lattice; -dumpforms a,b,c additionally
// writes the outcomes of the named forms as text lines to <file>.dump. -nonneg restricts every lattice
// to its non-negative values.

import (
	"bufio"
	"crypto/sha256"
	"encoding/hex"
	"encoding/json"
	"flag"
	"hash"
	"math/big"
	"os"
	"strings"
)

var (
	flagNonNeg    = flag.Bool("nonneg", false, "restrict every operand lattice to its non-negative values")
	flagOutcomes  = flag.String("outcomes", "", "write per-form outcome hashes to this file")
	flagDumpForms = flag.String("dumpforms", "", "comma separated forms whose outcomes are dumped to <outcomes>.dump")
)

type recorder struct {
	hashes map[string]hash.Hash
	counts map[string]int64
	kinds  map[string]map[string]int64 // per form: outcomes by class (value / FAIL / ok / refused / wrong)
	dump   map[string]bool
	w      *bufio.Writer
	f      *os.File
}

var rec *recorder

func startRecorder() {
	if *flagOutcomes == "" {
		return
	}
	rec = &recorder{hashes: map[string]hash.Hash{}, counts: map[string]int64{}, kinds: map[string]map[string]int64{}, dump: map[string]bool{}}
	for _, f := range strings.Split(*flagDumpForms, ",") {
		if f != "" {
			rec.dump[f] = true
		}
	}
	if len(rec.dump) > 0 {
		f, err := os.Create(*flagOutcomes + ".dump")
		if err != nil {
			panic(err)
		}
		rec.f, rec.w = f, bufio.NewWriterSize(f, 1<<20)
	}
}

func (r *recorder) add(form string, ra, rb *big.Int, out string) {
	if r == nil {
		return
	}
	h := r.hashes[form]
	if h == nil {
		h = sha256.New()
		r.hashes[form] = h
	}
	line := form + "|" + ra.String() + "|"
	if rb != nil {
		line += rb.String()
	}
	line += " => " + out + "\n"
	h.Write([]byte(line))
	r.counts[form]++
	if r.kinds[form] == nil {
		r.kinds[form] = map[string]int64{}
	}
	cls := out
	if i := strings.IndexByte(out, ' '); i > 0 {
		cls = out[:i]
	}
	if cls != "FAIL" && cls != "ok" && cls != "refused" && cls != "wrong" {
		cls = "value"
	}
	r.kinds[form][cls]++
	base := form
	if i := strings.IndexByte(form, '('); i > 0 {
		base = form[:i]
	}
	if r.dump[form] || r.dump[base] || r.dump[strings.TrimSuffix(base, "#aliased")] {
		r.w.WriteString(line)
	}
}

func (r *recorder) finish() {
	if r == nil {
		return
	}
	out := map[string]map[string]interface{}{}
	for k, h := range r.hashes {
		out[k] = map[string]interface{}{"n": r.counts[k], "sha256": hex.EncodeToString(h.Sum(nil)), "kinds": r.kinds[k]}
	}
	bz, _ := json.MarshalIndent(out, "", " ")
	if err := os.WriteFile(*flagOutcomes, bz, 0o644); err != nil {
		panic(err)
	}
	if r.w != nil {
		r.w.Flush()
		r.f.Close()
	}
}

func (o outcome) rec() string {
	if o.pan {
		return "FAIL"
	}
	return o.val.String()
}

func nonNeg(vs []*big.Int) []*big.Int {
	var out []*big.Int
	for _, v := range vs {
		if v.Sign() >= 0 {
			out = append(out, v)
		}
	}
	return out
}

func (l *lattice) nonNeg() {
	core := 0
	for _, v := range l.vals[:l.core] {
		if v.Sign() >= 0 {
			core++
		}
	}
	l.vals, l.core = nonNeg(l.vals), core
}
