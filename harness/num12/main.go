// Command num12 is the bounded-exhaustive enumerator for property C12 (fixed-point arithmetic is
// exactly rounded in the documented direction). It enumerates complete operand lattices of the
// 36-decimal type (osmomath.BigDec), the 18-decimal alias surface (osmomath.Dec / osmomath.Int) and the
// integer helper types, runs every public arithmetic / rounding / conversion / encoding operation of the
// real code on every lattice point (every pair for binary operations) and compares with an exact
// math/big reference. See DESIGN.md section 5, C12.
package main

import (
	"fmt"
	"math/big"
	"os"
	"sort"
	"time"

	core "github.com/osmosis-labs/osmosis/osmomath/zzverif/res"
)

type pass struct {
	name   string
	ops    []*opSpec
	as, bs []*big.Int // operand lattices (bs nil for unary)
	ca, cb int        // canonical core sizes (cb ignored for unary)
	full   bool       // whole pass is canonical (tiny lattices)
	rtDom  domain     // for unary passes: also round-trip every lattice value in this domain
	rt     bool
}

func allPasses(tier string) ([]pass, [][]*opSpec, map[string]int) {
	bl, dl := bigLattice(tier), decLattice(tier)
	bil, sil, i64l, u64l := bigIntLattice(), sdkIntLattice(), int64Lattice(), uint64Lattice()
	if *flagNonNeg {
		bl.nonNeg()
		dl.nonNeg()
		bil, sil, i64l, u64l = nonNeg(bil), nonNeg(sil), nonNeg(i64l), nonNeg(u64l)
	}
	tables := [][]*opSpec{
		bigUnaryOps(), bigBinaryOps(), bigDecMixedOps(), bigBigIntOps(), bigInt64Ops(), // 0..4
		decUnaryOps(), bigFromDecOps(), decBinaryOps(), bigFromDecPairOps(), decSdkIntOps(), decInt64Ops(), // 5..10
		bigFromBigIntOps(), bigFromRawOps(), bigIntOps(), bigFromSdkIntOps(), decFromSdkIntOps(), bigCtorOps(), decCtorOps(), divIntOps(), // 11..18
	}
	setGroups(tables...)
	split := func(t []*opSpec, k kind, binary bool) []*opSpec {
		var out []*opSpec
		for _, op := range t {
			if op.ak == k && (op.bk != kNone) == binary {
				out = append(out, op)
			}
		}
		return out
	}
	cat := func(ts ...[]*opSpec) []*opSpec {
		var out []*opSpec
		for _, t := range ts {
			out = append(out, t...)
		}
		return out
	}
	ps := []pass{
		{name: "BigDec unary+encodings", ops: tables[0], as: bl.vals, ca: bl.core, rt: true, rtDom: dBig},
		{name: "Dec unary+encodings", ops: cat(tables[5], tables[6]), as: dl.vals, ca: dl.core, rt: true, rtDom: dDec},
		{name: "BigInt unary+encodings", ops: cat(tables[11], split(tables[12], kBigInt, false), split(tables[13], kBigInt, false)), as: bil, full: true, rt: true, rtDom: dBigInt},
		{name: "raw big.Int constructors (36 decimals)", ops: split(tables[12], kRaw, false), as: bil, full: true},
		{name: "sdk Int conversions", ops: cat(tables[14], split(tables[15], kSdkInt, false)), as: sil, full: true},
		{name: "raw big.Int constructors (18 decimals)", ops: split(tables[15], kRaw, false), as: sil, full: true},
		{name: "int64 constructors", ops: cat(tables[16], tables[17]), as: i64l, full: true},
		{name: "BigInt x BigInt", ops: split(tables[13], kBigInt, true), as: bil, bs: bil, full: true},
		{name: "Int x uint64 (DivIntByU64ToBigDec)", ops: tables[18], as: sil, bs: u64l, full: true},
		{name: "BigDec x BigDec", ops: tables[1], as: bl.vals, bs: bl.vals, ca: bl.core, cb: bl.core},
		{name: "BigDec x Dec", ops: tables[2], as: bl.vals, bs: dl.vals, ca: bl.core, cb: dl.core},
		{name: "BigDec x BigInt", ops: tables[3], as: bl.vals, bs: bil, ca: bl.core, cb: len(bil)},
		{name: "BigDec x int64", ops: tables[4], as: bl.vals, bs: i64l, ca: bl.core, cb: len(i64l)},
		{name: "Dec x Dec", ops: cat(tables[7], tables[8]), as: dl.vals, bs: dl.vals, ca: dl.core, cb: dl.core},
		{name: "Dec x Int", ops: tables[9], as: dl.vals, bs: sil, ca: dl.core, cb: len(sil)},
		{name: "Dec x int64", ops: tables[10], as: dl.vals, bs: i64l, ca: dl.core, cb: len(i64l)},
	}
	sizes := map[string]int{"lattice_bigdec": len(bl.vals), "lattice_bigdec_core": bl.core, "lattice_dec": len(dl.vals), "lattice_dec_core": dl.core,
		"lattice_bigint": len(bil), "lattice_sdkint": len(sil), "lattice_int64": len(i64l), "lattice_uint64": len(u64l)}
	return ps, tables, sizes
}

func sameLattice(p *pass) bool {
	return p.bs != nil && len(p.as) == len(p.bs) && len(p.as) > 0 && p.as[0] == p.bs[0] && p.ops[0].ak == p.ops[0].bk
}

func (h *H) point(p *pass, i, j int) {
	a := p.as[i]
	if p.bs == nil {
		if p.rt {
			h.roundTrip(p.rtDom, a, true)
			if h.countOn {
				h.r.States++
			}
		}
		for _, op := range p.ops {
			h.evalCase(op, a, nil, false)
		}
		return
	}
	b := p.bs[j]
	alias := sameLattice(p) && i == j
	for _, op := range p.ops {
		h.evalCase(op, a, b, alias && op.ak == op.bk)
	}
}

// canonical phase: identical in every shard, counted once (shard 0)
func (h *H) canonical(ps []pass) {
	h.canon = true
	h.countOn = h.f.Shard == 0
	counting = h.countOn
	for pi := range ps {
		p := &ps[pi]
		na, nb := p.ca, p.cb
		if p.full {
			na, nb = len(p.as), len(p.bs)
		}
		if p.bs == nil {
			for i := 0; i < na; i++ {
				h.point(p, i, 0)
			}
			continue
		}
		// shell order: simplest operand pairs first
		n := na
		if nb > n {
			n = nb
		}
		for s := 0; s < n; s++ {
			for i := 0; i <= s; i++ {
				if i < na && s < nb {
					h.point(p, i, s)
				}
				if i != s && s < na && i < nb {
					h.point(p, s, i)
				}
			}
		}
	}
	h.canon = false
}

// sharded phase: rows dealt to shards; the canonical block is skipped
func (h *H) sharded(ps []pass) {
	h.countOn = true
	counting = true
	item := 0
	for pi := range ps {
		p := &ps[pi]
		if p.full {
			continue
		}
		for i := range p.as {
			item++
			if !h.f.Mine(item) {
				continue
			}
			if h.f.Expired() {
				h.r.Exhaustive = false
				return
			}
			if p.bs == nil {
				if i >= p.ca {
					h.point(p, i, 0)
				}
				continue
			}
			for j := range p.bs {
				if i < p.ca && j < p.cb {
					continue
				}
				h.point(p, i, j)
			}
		}
	}
}

func main() {
	f := core.ParseFlags()
	r := core.NewResult(f.Prop)
	h := newH(f, r)
	tier := f.Tier
	if f.Replay != "" {
		tier = "thorough"
	}
	ps, tables, sizes := allPasses(tier)

	if f.Replay != "" {
		var rc replayCase
		core.ReadReplay(f.Replay, &rc)
		h.replay, h.countOn = true, true
		a, ok := new(big.Int).SetString(rc.A, 10)
		if !ok {
			fmt.Fprintln(os.Stderr, "harness: bad replay operand a")
			os.Exit(2)
		}
		h.replayOp = rc.Assertion
		if rc.Op == "RoundTrip" {
			dom := map[string]domain{"BigDec": dBig, "Dec": dDec, "BigInt": dBigInt}[rc.Codec]
			h.roundTrip(dom, a, true)
		} else {
			op, aliased := lookup(tables, rc.Op)
			if op == nil {
				fmt.Fprintln(os.Stderr, "harness: unknown operation in replay:", rc.Op)
				os.Exit(2)
			}
			b := a
			if op.bk != kNone {
				if b, ok = new(big.Int).SetString(rc.B, 10); !ok {
					fmt.Fprintln(os.Stderr, "harness: bad replay operand b")
					os.Exit(2)
				}
			}
			h.evalCase(op, a, b, aliased)
		}
		finish(f, r)
		return
	}

	startRecorder()
	h.canonical(ps)
	h.sharded(ps)
	rec.finish()

	// canonical violations are the same in every shard: deal them out so that their union is complete
	// whatever the shard count; then the shard's own first-per-assertion violations
	for k, v := range h.canonV {
		if k%f.NShards == f.Shard {
			r.AddViolation(v)
		}
	}
	for _, v := range h.shardV {
		r.AddViolation(v)
	}
	keys := make([]string, 0, len(h.failCnt))
	for k := range h.failCnt {
		keys = append(keys, k)
	}
	sort.Strings(keys)
	for _, k := range keys {
		r.Extra["sum_fail:"+k] = h.failCnt[k]
	}
	for k, v := range sizes {
		r.Extra["max_"+k] = v
	}
	r.Extra["tier_lattice"] = tier
	r.Extra["sum_points_needing_a_rounding_decision"] = h.nontrivRounding
	r.Extra["sum_points_beyond_the_bound"] = h.nontrivOverflow
	r.Extra["sum_obs_quoint_truncation_differs_from_nearest_even"] = obsTruncVsEven
	if f.Shard == 0 {
		for _, s := range samples(tables) {
			r.AddSample(s)
		}
	}
	r.DepthCompleted = 2 // operand arity enumerated completely
	finish(f, r)
}

func finish(f *core.Flags, r *core.Result) {
	r.WallS = time.Since(f.Start).Seconds()
	r.Emit()
}

// samples shows a few literal cases (real code output next to the reference).
func samples(tables [][]*opSpec) []interface{} {
	type sc struct{ op, a, b string }
	cases := []sc{
		{"Mul", "500000000000000000000000000000000000", "1"},  // 0.5 * 1ulp: tie -> 0
		{"Mul", "1500000000000000000000000000000000000", "1"}, // 1.5 * 1ulp: tie -> 2ulp
		{"Quo", "1", "1999999999999999999999999999999999999"}, // 1ulp / (2-1ulp): tie only after truncation at 72 decimals
		{"QuoRoundUp", "1000000000000000000000000000000000000", "3000000000000000000000000000000000000"},
		{"Add", maxBigRaw.String(), "1"},
		{"Dec.Quo", "1", "2000000000000000000"},
	}
	var out []interface{}
	for _, c := range cases {
		op, _ := lookup(tables, c.op)
		if op == nil {
			continue
		}
		a, b := bi(c.a), bi(c.b)
		want, ok := op.ref(a, b)
		v, p, m := run(op.call, mk(op.ak, a), mk(op.bk, b))
		ws := "must fail"
		if ok && op.dom.fits(want) {
			ws = fmtDec(want, op.dom.prec())
		}
		out = append(out, map[string]string{"op": c.op, "a": fmtDec(a, op.ak.prec()), "b": fmtDec(b, op.bk.prec()),
			"real": outcome{v, p, m}.show(op.dom.prec()), "reference": ws})
	}
	return out
}
