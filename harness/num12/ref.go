package main

// Exact reference arithmetic in math/big. Nothing in this file calls the code under test.
//
// Every decimal value is represented by its scaled integer ("raw"): value*10^36 for the 36-decimal
// type, value*10^18 for the 18-decimal type. All reference results are computed on raw integers with
// unbounded precision and rounded exactly once (twice for the unqualified quotient, exactly as the
// property statement prescribes).

import (
	"math/big"
	"strings"
)

var (
	big0  = big.NewInt(0)
	big1  = big.NewInt(1)
	big2  = big.NewInt(2)
	big10 = big.NewInt(10)

	pow10cache = map[int]*big.Int{}

	p18 = pow10(18)
	p36 = pow10(36)

	// arithmetic bound of the 36-decimal type: bit length of the scaled integer <= 1024+120
	bigDecMaxBits = 1144
	maxBigRaw     = new(big.Int).Sub(new(big.Int).Lsh(big1, 1144), big1)
	// arithmetic bound of the 18-decimal type (cosmossdk.io/math v1.5.3): |raw| <= 2^256*10^18 - 1
	maxDecRaw = new(big.Int).Sub(new(big.Int).Mul(new(big.Int).Lsh(big1, 256), p18), big1)
)

func pow10(n int) *big.Int {
	if v, ok := pow10cache[n]; ok {
		return v
	}
	v := new(big.Int).Exp(big10, big.NewInt(int64(n)), nil)
	pow10cache[n] = v
	return v
}

type roundMode int

const (
	mExact roundMode = iota // result is always representable (add, sub, integer multiply, ...)
	mTrunc                  // toward zero
	mCeil                   // toward plus infinity
	mEven                   // nearest, ties to even
)

func (m roundMode) String() string {
	return [...]string{"exact", "toward-zero", "toward-plus-infinity", "nearest-ties-to-even"}[m]
}

// observations of the last rdiv call (single-threaded harness)
var (
	lastInexact bool
	lastTie     bool
	lastNeg     bool // exact quotient negative
)

// rdiv returns num/den rounded to an integer in the given mode. den != 0.
func rdiv(num, den *big.Int, mode roundMode) *big.Int {
	n, d := num, den
	if d.Sign() < 0 {
		n, d = new(big.Int).Neg(num), new(big.Int).Neg(den)
	}
	// floor division with 0 <= r < d
	q, r := new(big.Int).DivMod(n, d, new(big.Int)) // Euclidean; d > 0 so q = floor
	lastInexact = r.Sign() != 0
	lastTie = false
	lastNeg = n.Sign() < 0
	if !lastInexact {
		return q
	}
	switch mode {
	case mTrunc:
		if n.Sign() < 0 {
			q.Add(q, big1)
		}
	case mCeil:
		q.Add(q, big1)
	case mEven:
		twice := new(big.Int).Lsh(r, 1)
		switch twice.Cmp(d) {
		case 1:
			q.Add(q, big1)
		case 0:
			lastTie = true
			if q.Bit(0) == 1 {
				q.Add(q, big1)
			}
		}
	case mExact:
		panic("harness: inexact division in exact mode")
	}
	return q
}

// quoHalfEven is the unqualified quotient exactly as the statement prescribes it: the quotient is first
// truncated (toward zero) at twice the precision (72 decimals for the 36-decimal type, 36 for the
// 18-decimal type), then that value is rounded half-even to the type's precision.
// num/den is the quotient scaled so that its integer part holds 2*prec decimals; unit = 10^prec.
var lastTieOnlyAfterTruncation bool

func quoHalfEven(num, den, unit *big.Int) *big.Int {
	q2 := new(big.Int).Quo(num, den) // truncated toward zero
	exactAt2 := new(big.Int).Mul(q2, den).Cmp(num) == 0
	res := rdiv(q2, unit, mEven)
	lastTieOnlyAfterTruncation = lastTie && !exactAt2
	inex := lastInexact || !exactAt2
	lastInexact = inex
	lastNeg = (num.Sign() < 0) != (den.Sign() < 0) && num.Sign() != 0
	return res
}

func fitsBigDec(raw *big.Int) bool { return raw.BitLen() <= bigDecMaxBits }
func fitsDec(raw *big.Int) bool    { return raw.CmpAbs(maxDecRaw) <= 0 }

// fmtDec renders raw*10^-prec as a plain decimal string without trailing zeros.
func fmtDec(raw *big.Int, prec int) string {
	if prec == 0 {
		return raw.String()
	}
	s := new(big.Int).Abs(raw).String()
	if len(s) <= prec {
		s = strings.Repeat("0", prec-len(s)+1) + s
	}
	ip, fp := s[:len(s)-prec], strings.TrimRight(s[len(s)-prec:], "0")
	out := ip
	if fp != "" {
		out += "." + fp
	}
	if raw.Sign() < 0 {
		out = "-" + out
	}
	return out
}

func signName(x *big.Int) string {
	switch x.Sign() {
	case -1:
		return "neg"
	case 1:
		return "pos"
	}
	return "zero"
}
