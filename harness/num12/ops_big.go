package main

// Operation tables of the 36-decimal type (osmomath.BigDec) and of the helpers around it.
// Direction of each operation is taken from its name / doc comment:
//   *Truncate*, Dec(), DecWithPrecision, ChopPrecision ("truncates")        -> toward zero
//   *RoundUp*, Ceil, QuoRoundUpNextInt                                      -> toward plus infinity
//   Mul, MulDec, Quo, QuoRaw, RoundInt ("bankers")                          -> nearest, ties to even
//   QuoInt, QuoInt64 (name unqualified, doc "quotient"; the package's own RoundDown mode in
//   rounding_direction.go is implemented with QuoInt64)                     -> toward zero (stated assumption)

import (
	"fmt"
	"math/big"

	"github.com/osmosis-labs/osmosis/osmomath"
)

type BD = osmomath.BigDec

func okv(v *big.Int) (*big.Int, bool) { return v, true }

func mulr(a, b *big.Int) *big.Int { return new(big.Int).Mul(a, b) }

// adapters from typed methods to callFn
func bb(f func(BD, BD) BD) callFn {
	return func(a, b *operand) *big.Int { return f(a.big, b.big).BigIntMut() }
}
func bd(f func(BD, osmomath.Dec) BD) callFn {
	return func(a, b *operand) *big.Int { return f(a.big, b.dec).BigIntMut() }
}
func bI(f func(BD, osmomath.BigInt) BD) callFn {
	return func(a, b *operand) *big.Int { return f(a.big, b.bi).BigIntMut() }
}
func b64(f func(BD, int64) BD) callFn {
	return func(a, b *operand) *big.Int { return f(a.big, b.n).BigIntMut() }
}
func b1(f func(BD) BD) callFn {
	return func(a, _ *operand) *big.Int { return f(a.big).BigIntMut() }
}

func refDiv(scale *big.Int, mode roundMode) refFn {
	return func(a, b *big.Int) (*big.Int, bool) {
		if b.Sign() == 0 {
			return nil, false
		}
		return okv(rdiv(mulr(a, scale), b, mode))
	}
}

// obsTruncVsEven counts the lattice points at which an integer-divisor quotient (QuoInt / QuoInt64, name
// without a rounding qualifier, checked as truncation - see the stated assumption) would differ under
// nearest-even. Reported as an observation, not asserted.
var (
	obsTruncVsEven int64
	counting       bool // mirrors H.countOn (the canonical phase is counted by shard 0 only)
)

func refQuoIntTrunc(a, b *big.Int) (*big.Int, bool) {
	if b.Sign() == 0 {
		return nil, false
	}
	if counting && rdiv(a, b, mEven).Cmp(rdiv(a, b, mTrunc)) != 0 {
		obsTruncVsEven++
	}
	return okv(rdiv(a, b, mTrunc))
}

func refMul(unit *big.Int, mode roundMode) refFn {
	return func(a, b *big.Int) (*big.Int, bool) { return okv(rdiv(mulr(a, b), unit, mode)) }
}

// powerRef follows the documented square-and-multiply algorithm with exactly rounded (half-even)
// multiplications; any intermediate beyond the bound means the operation must fail.
func powerRef(unit *big.Int, fits func(*big.Int) bool, power uint64, zeroPowerIsOne bool) refFn {
	return func(a, _ *big.Int) (*big.Int, bool) {
		mul := func(x, y *big.Int) *big.Int { return rdiv(mulr(x, y), unit, mEven) }
		if power == 0 {
			return okv(new(big.Int).Set(unit))
		}
		d := new(big.Int).Set(a)
		tmp := new(big.Int).Set(unit)
		for i := power; i > 1; {
			if i%2 != 0 {
				tmp = mul(tmp, d)
				if !fits(tmp) {
					return tmp, true // out of range: evalCase turns this into "must fail"
				}
			}
			i /= 2
			d = mul(d, d)
			if !fits(d) {
				return d, true
			}
		}
		res := mul(d, tmp)
		lastTie = false // ties inside a power are not counted as tie events of a single rounding
		return okv(res)
	}
}

func bigBinaryOps() []*opSpec {
	return []*opSpec{
		{name: "Add", mutName: "AddMut", ak: kBig, bk: kBig, dom: dBig, mode: mExact, recv: true,
			call: bb(BD.Add), mut: bb(BD.AddMut),
			ref: func(a, b *big.Int) (*big.Int, bool) { return okv(new(big.Int).Add(a, b)) }},
		{name: "Sub", mutName: "SubMut", ak: kBig, bk: kBig, dom: dBig, mode: mExact, recv: true,
			call: bb(BD.Sub), mut: bb(BD.SubMut),
			ref: func(a, b *big.Int) (*big.Int, bool) { return okv(new(big.Int).Sub(a, b)) }},
		{name: "Mul", mutName: "MulMut", ak: kBig, bk: kBig, dom: dBig, mode: mEven, recv: true, tiePrec: 36,
			call: bb(BD.Mul), mut: bb(BD.MulMut), ref: refMul(p36, mEven)},
		{name: "MulTruncate", ak: kBig, bk: kBig, dom: dBig, mode: mTrunc,
			call: bb(BD.MulTruncate), ref: refMul(p36, mTrunc)},
		{name: "MulRoundUp", ak: kBig, bk: kBig, dom: dBig, mode: mCeil,
			call: bb(BD.MulRoundUp), ref: refMul(p36, mCeil)},
		{name: "Quo", mutName: "QuoMut", ak: kBig, bk: kBig, dom: dBig, mode: mEven, recv: true, quo: true, tiePrec: 36,
			call: bb(BD.Quo), mut: bb(BD.QuoMut),
			ref: func(a, b *big.Int) (*big.Int, bool) {
				if b.Sign() == 0 {
					return nil, false
				}
				return okv(quoHalfEven(mulr(mulr(a, p36), p36), b, p36))
			}},
		{name: "QuoTruncate", mutName: "QuoTruncateMut", ak: kBig, bk: kBig, dom: dBig, mode: mTrunc, recv: true, quo: true,
			call: bb(BD.QuoTruncate), mut: bb(BD.QuoTruncateMut), ref: refDiv(p36, mTrunc)},
		{name: "QuoRoundUp", mutName: "QuoRoundUpMut", ak: kBig, bk: kBig, dom: dBig, mode: mCeil, recv: true, quo: true,
			call: bb(BD.QuoRoundUp), mut: bb(BD.QuoRoundUpMut), ref: refDiv(p36, mCeil)},
		{mutName: "QuoRoundUpNextIntMut", ak: kBig, bk: kBig, dom: dBig, mode: mCeil, recv: true, quo: true,
			mut: bb(BD.QuoRoundUpNextIntMut),
			ref: func(a, b *big.Int) (*big.Int, bool) {
				if b.Sign() == 0 {
					return nil, false
				}
				return okv(mulr(rdiv(a, b, mCeil), p36))
			}},
	}
}

func bigDecMixedOps() []*opSpec {
	return []*opSpec{
		{name: "MulDec", mutName: "MulDecMut", ak: kBig, bk: kDec, dom: dBig, mode: mEven, recv: true, tiePrec: 36,
			call: bd(BD.MulDec), mut: bd(BD.MulDecMut), ref: refMul(p18, mEven)},
		{name: "MulTruncateDec", ak: kBig, bk: kDec, dom: dBig, mode: mTrunc,
			call: bd(BD.MulTruncateDec), ref: refMul(p18, mTrunc)},
		{name: "MulRoundUpDec", ak: kBig, bk: kDec, dom: dBig, mode: mCeil,
			call: bd(BD.MulRoundUpDec), ref: refMul(p18, mCeil)},
		{name: "QuoTruncateDec", mutName: "QuoTruncateDecMut", ak: kBig, bk: kDec, dom: dBig, mode: mTrunc, recv: true, quo: true,
			call: bd(BD.QuoTruncateDec), mut: bd(BD.QuoTruncateDecMut), ref: refDiv(p18, mTrunc)},
		{name: "QuoByDecRoundUp", ak: kBig, bk: kDec, dom: dBig, mode: mCeil, quo: true,
			call: bd(BD.QuoByDecRoundUp), ref: refDiv(p18, mCeil)},
	}
}

func bigBigIntOps() []*opSpec {
	return []*opSpec{
		{name: "MulInt", ak: kBig, bk: kBigInt, dom: dBig, mode: mExact,
			call: bI(BD.MulInt), ref: func(a, b *big.Int) (*big.Int, bool) { return okv(mulr(a, b)) }},
		{name: "QuoInt", ak: kBig, bk: kBigInt, dom: dBig, mode: mTrunc, quo: true,
			call: bI(BD.QuoInt), ref: refQuoIntTrunc},
	}
}

func bigInt64Ops() []*opSpec {
	return []*opSpec{
		{name: "MulInt64", ak: kBig, bk: kI64, dom: dBig, mode: mExact,
			call: b64(BD.MulInt64), ref: func(a, b *big.Int) (*big.Int, bool) { return okv(mulr(a, b)) }},
		{name: "QuoInt64", ak: kBig, bk: kI64, dom: dBig, mode: mTrunc, quo: true,
			call: b64(BD.QuoInt64), ref: refQuoIntTrunc},
		{name: "QuoRaw", ak: kBig, bk: kI64, dom: dBig, mode: mEven, quo: true, tiePrec: 36,
			call: b64(BD.QuoRaw),
			ref: func(a, b *big.Int) (*big.Int, bool) {
				if b.Sign() == 0 {
					return nil, false
				}
				return okv(quoHalfEven(mulr(a, p36), b, p36))
			}},
	}
}

func bigUnaryOps() []*opSpec {
	ops := []*opSpec{
		{name: "Ceil", mutName: "CeilMut", ak: kBig, dom: dBig, mode: mCeil, recv: true,
			call: b1(BD.Ceil), mut: b1(BD.CeilMut),
			ref: func(a, _ *big.Int) (*big.Int, bool) { return okv(mulr(rdiv(a, p36, mCeil), p36)) }},
		{name: "TruncateDec", ak: kBig, dom: dBig, mode: mTrunc,
			call: b1(BD.TruncateDec),
			ref:  func(a, _ *big.Int) (*big.Int, bool) { return okv(mulr(rdiv(a, p36, mTrunc), p36)) }},
		{name: "TruncateInt", ak: kBig, dom: dBigInt, mode: mTrunc,
			call: func(a, _ *operand) *big.Int { return a.big.TruncateInt().BigInt() },
			ref:  func(a, _ *big.Int) (*big.Int, bool) { return okv(rdiv(a, p36, mTrunc)) }},
		{name: "TruncateInt64", ak: kBig, dom: dI64, mode: mTrunc,
			call: func(a, _ *operand) *big.Int { return big.NewInt(a.big.TruncateInt64()) },
			ref:  func(a, _ *big.Int) (*big.Int, bool) { return okv(rdiv(a, p36, mTrunc)) }},
		{name: "RoundInt", ak: kBig, dom: dBigInt, mode: mEven,
			call: func(a, _ *operand) *big.Int { return a.big.RoundInt().BigInt() },
			ref:  func(a, _ *big.Int) (*big.Int, bool) { return okv(rdiv(a, p36, mEven)) }},
		{name: "RoundInt64", ak: kBig, dom: dI64, mode: mEven,
			call: func(a, _ *operand) *big.Int { return big.NewInt(a.big.RoundInt64()) },
			ref:  func(a, _ *big.Int) (*big.Int, bool) { return okv(rdiv(a, p36, mEven)) }},
		{name: "Dec", ak: kBig, dom: dDec, mode: mTrunc,
			call: func(a, _ *operand) *big.Int { return a.big.Dec().BigIntMut() },
			ref:  func(a, _ *big.Int) (*big.Int, bool) { return okv(rdiv(a, p18, mTrunc)) }},
		{name: "DecRoundUp", ak: kBig, dom: dDec, mode: mCeil,
			call: func(a, _ *operand) *big.Int { return a.big.DecRoundUp().BigIntMut() },
			ref:  func(a, _ *big.Int) (*big.Int, bool) { return okv(rdiv(a, p18, mCeil)) }},
		{name: "Abs", mutName: "AbsMut", ak: kBig, dom: dBig, mode: mExact, recv: true,
			call: b1(BD.Abs), mut: b1(BD.AbsMut),
			ref: func(a, _ *big.Int) (*big.Int, bool) { return okv(new(big.Int).Abs(a)) }},
		{name: "Neg", mutName: "NegMut", ak: kBig, dom: dBig, mode: mExact, recv: true,
			call: b1(BD.Neg), mut: b1(BD.NegMut),
			ref: func(a, _ *big.Int) (*big.Int, bool) { return okv(new(big.Int).Neg(a)) }},
		{name: "Clone", ak: kBig, dom: dBig, mode: mExact,
			call: b1(BD.Clone),
			ref:  func(a, _ *big.Int) (*big.Int, bool) { return okv(new(big.Int).Set(a)) }},
		{name: "BigInt", ak: kBig, dom: dBig, mode: mExact,
			call: func(a, _ *operand) *big.Int { return a.big.BigInt() },
			ref:  func(a, _ *big.Int) (*big.Int, bool) { return okv(new(big.Int).Set(a)) }},
		{name: "IsInteger", ak: kBig, dom: dBool, mode: mExact,
			call: func(a, _ *operand) *big.Int { return boolInt(a.big.IsInteger()) },
			ref: func(a, _ *big.Int) (*big.Int, bool) {
				return okv(boolInt(new(big.Int).Rem(a, p36).Sign() == 0))
			}},
		{name: "Sign", ak: kBig, dom: dI64, mode: mExact,
			call: func(a, _ *operand) *big.Int {
				s := int64(0)
				if a.big.IsPositive() {
					s++
				}
				if a.big.IsNegative() {
					s--
				}
				if a.big.IsZero() != (s == 0) {
					s = 99
				}
				return big.NewInt(s)
			},
			ref: func(a, _ *big.Int) (*big.Int, bool) { return okv(big.NewInt(int64(a.Sign()))) }},
	}
	for p := 0; p <= 18; p++ {
		p := p
		ops = append(ops, &opSpec{name: fmt.Sprintf("DecWithPrecision(%d)", p), grp: "DecWithPrecision", ak: kBig, dom: dDec, mode: mTrunc,
			call: func(a, _ *operand) *big.Int { return a.big.DecWithPrecision(uint64(p)).BigIntMut() },
			ref: func(a, _ *big.Int) (*big.Int, bool) {
				return okv(mulr(rdiv(a, pow10(36-p), mTrunc), pow10(18-p)))
			}})
	}
	for p := 0; p <= 36; p++ {
		p := p
		ops = append(ops, &opSpec{name: fmt.Sprintf("ChopPrecision(%d)", p), grp: "ChopPrecision",
			mutName: fmt.Sprintf("ChopPrecisionMut(%d)", p), mutGrp: "ChopPrecisionMut", ak: kBig, dom: dBig, mode: mTrunc, recv: true,
			call: func(a, _ *operand) *big.Int { return a.big.ChopPrecision(uint64(p)).BigIntMut() },
			mut:  func(a, _ *operand) *big.Int { return a.big.ChopPrecisionMut(uint64(p)).BigIntMut() },
			ref: func(a, _ *big.Int) (*big.Int, bool) {
				return okv(mulr(rdiv(a, pow10(36-p), mTrunc), pow10(36-p)))
			}})
	}
	for n := uint64(0); n <= 5; n++ {
		n := n
		// PowerInteger is not one of the operation kinds the statement lists; only the clauses that apply
		// to every operation are checked (value per the documented algorithm, forms agree, operand
		// untouched, out-of-range intermediate fails). The receiver-updated check is not applied.
		ops = append(ops, &opSpec{name: fmt.Sprintf("PowerInteger(%d)", n), grp: "PowerInteger",
			mutName: fmt.Sprintf("PowerIntegerMut(%d)", n), mutGrp: "PowerIntegerMut", ak: kBig, dom: dBig, mode: mEven,
			call: func(a, _ *operand) *big.Int { return a.big.PowerInteger(n).BigIntMut() },
			mut:  func(a, _ *operand) *big.Int { return a.big.PowerIntegerMut(n).BigIntMut() },
			ref:  powerRef(p36, fitsBigDec, n, true)})
	}
	return ops
}

func boolInt(b bool) *big.Int {
	if b {
		return big.NewInt(1)
	}
	return big.NewInt(0)
}

// conversions into the 36-decimal type from other operand kinds (unary in the source kind)
func bigFromDecOps() []*opSpec {
	return []*opSpec{
		{name: "BigDecFromDec", mutName: "BigDecFromDecMut", ak: kDec, dom: dBig, mode: mExact,
			call: func(a, _ *operand) *big.Int { return osmomath.BigDecFromDec(a.dec).BigIntMut() },
			mut:  func(a, _ *operand) *big.Int { return osmomath.BigDecFromDecMut(a.dec).BigIntMut() },
			ref:  func(a, _ *big.Int) (*big.Int, bool) { return okv(mulr(a, p18)) }},
		{name: "BigDecFromDecSlice", ak: kDec, dom: dBig, mode: mExact,
			call: func(a, _ *operand) *big.Int {
				return osmomath.BigDecFromDecSlice([]osmomath.Dec{a.dec})[0].BigIntMut()
			},
			ref: func(a, _ *big.Int) (*big.Int, bool) { return okv(mulr(a, p18)) }},
	}
}

func bigFromDecPairOps() []*opSpec {
	return []*opSpec{
		{name: "NewBigDecFromDecMulDec", ak: kDec, bk: kDec, dom: dBig, mode: mExact,
			call: func(a, b *operand) *big.Int { return osmomath.NewBigDecFromDecMulDec(a.dec, b.dec).BigIntMut() },
			ref:  func(a, b *big.Int) (*big.Int, bool) { return okv(mulr(a, b)) }},
	}
}

func bigFromSdkIntOps() []*opSpec {
	return []*opSpec{
		{name: "BigDecFromSDKInt", ak: kSdkInt, dom: dBig, mode: mExact,
			call: func(a, _ *operand) *big.Int { return osmomath.BigDecFromSDKInt(a.si).BigIntMut() },
			ref:  func(a, _ *big.Int) (*big.Int, bool) { return okv(mulr(a, p36)) }},
	}
}

func bigFromBigIntOps() []*opSpec {
	ops := []*opSpec{
		{name: "NewBigDecFromInt", ak: kBigInt, dom: dBig, mode: mExact,
			call: func(a, _ *operand) *big.Int { return osmomath.NewBigDecFromInt(a.bi).BigIntMut() },
			ref:  func(a, _ *big.Int) (*big.Int, bool) { return okv(mulr(a, p36)) }},
		{name: "BigInt.ToDec", ak: kBigInt, dom: dBig, mode: mExact,
			call: func(a, _ *operand) *big.Int { return a.bi.ToDec().BigIntMut() },
			ref:  func(a, _ *big.Int) (*big.Int, bool) { return okv(mulr(a, p36)) }},
	}
	return ops
}

// constructors from a caller-owned *big.Int (kRaw operand): the non-mutating ones must leave it untouched
func bigFromRawOps() []*opSpec {
	ops := []*opSpec{
		{name: "NewBigDecFromBigInt", mutName: "NewBigDecFromBigIntMut", ak: kRaw, dom: dBig, mode: mExact,
			call: func(a, _ *operand) *big.Int { return osmomath.NewBigDecFromBigInt(a.p).BigIntMut() },
			mut:  func(a, _ *operand) *big.Int { return osmomath.NewBigDecFromBigIntMut(a.p).BigIntMut() },
			ref:  func(a, _ *big.Int) (*big.Int, bool) { return okv(mulr(a, p36)) }},
	}
	for p := 0; p <= 36; p += 6 {
		p := p
		ops = append(ops, &opSpec{name: fmt.Sprintf("NewBigDecFromBigIntWithPrec(%d)", p), grp: "NewBigDecFromBigIntWithPrec",
			mutName: fmt.Sprintf("NewBigDecFromBigIntMutWithPrec(%d)", p), mutGrp: "NewBigDecFromBigIntMutWithPrec", ak: kRaw, dom: dBig, mode: mExact,
			call: func(a, _ *operand) *big.Int { return osmomath.NewBigDecFromBigIntWithPrec(a.p, int64(p)).BigIntMut() },
			mut: func(a, _ *operand) *big.Int {
				return osmomath.NewBigDecFromBigIntMutWithPrec(a.p, int64(p)).BigIntMut()
			},
			ref: func(a, _ *big.Int) (*big.Int, bool) { return okv(mulr(a, pow10(36-p))) }},
			&opSpec{name: fmt.Sprintf("NewBigDecFromIntWithPrec(%d)", p), grp: "NewBigDecFromIntWithPrec", ak: kBigInt, dom: dBig, mode: mExact,
				call: func(a, _ *operand) *big.Int { return osmomath.NewBigDecFromIntWithPrec(a.bi, int64(p)).BigIntMut() },
				ref:  func(a, _ *big.Int) (*big.Int, bool) { return okv(mulr(a, pow10(36-p))) }})
	}
	return ops
}

// constructors taking (int64 i, prec): evaluated over int64 lattice x prec 0..36
func bigCtorOps() []*opSpec {
	var ops []*opSpec
	for p := 0; p <= 36; p++ {
		p := p
		ops = append(ops, &opSpec{name: fmt.Sprintf("NewBigDecWithPrec(%d)", p), grp: "NewBigDecWithPrec", ak: kI64, dom: dBig, mode: mExact,
			call: func(a, _ *operand) *big.Int { return osmomath.NewBigDecWithPrec(a.n, int64(p)).BigIntMut() },
			ref:  func(a, _ *big.Int) (*big.Int, bool) { return okv(mulr(a, pow10(36-p))) }})
	}
	ops = append(ops, &opSpec{name: "NewBigDec", ak: kI64, dom: dBig, mode: mExact,
		call: func(a, _ *operand) *big.Int { return osmomath.NewBigDec(a.n).BigIntMut() },
		ref:  func(a, _ *big.Int) (*big.Int, bool) { return okv(mulr(a, p36)) }})
	return ops
}

// DivIntByU64ToBigDec(i Int, u uint64, mode)
func divIntOps() []*opSpec {
	mk := func(name string, dir osmomath.RoundingDirection, mode roundMode) *opSpec {
		return &opSpec{name: "DivIntByU64ToBigDec." + name, ak: kSdkInt, bk: kU64, dom: dBig, mode: mode, quo: true, tiePrec: 36,
			call: func(a, b *operand) *big.Int {
				r, err := osmomath.DivIntByU64ToBigDec(a.si, b.u, dir)
				if err != nil {
					return nil
				}
				return r.BigIntMut()
			},
			ref: func(a, b *big.Int) (*big.Int, bool) {
				if b.Sign() == 0 {
					return nil, false
				}
				if mode == mEven {
					return okv(quoHalfEven(mulr(mulr(a, p36), p36), b, p36))
				}
				return okv(rdiv(mulr(a, p36), b, mode))
			}}
	}
	return []*opSpec{
		mk("RoundUp", osmomath.RoundUp, mCeil),
		mk("RoundDown", osmomath.RoundDown, mTrunc),
		mk("RoundBankers", osmomath.RoundBankers, mEven),
	}
}

// the 1024-bit integer type's own operations
func bigIntOps() []*opSpec {
	type BI = osmomath.BigInt
	ii := func(f func(BI, BI) BI) callFn {
		return func(a, b *operand) *big.Int { return f(a.bi, b.bi).BigInt() }
	}
	return []*opSpec{
		{name: "BigInt.Add", ak: kBigInt, bk: kBigInt, dom: dBigInt, mode: mExact, call: ii(BI.Add),
			ref: func(a, b *big.Int) (*big.Int, bool) { return okv(new(big.Int).Add(a, b)) }},
		{name: "BigInt.Sub", ak: kBigInt, bk: kBigInt, dom: dBigInt, mode: mExact, call: ii(BI.Sub),
			ref: func(a, b *big.Int) (*big.Int, bool) { return okv(new(big.Int).Sub(a, b)) }},
		{name: "BigInt.Mul", ak: kBigInt, bk: kBigInt, dom: dBigInt, mode: mExact, call: ii(BI.Mul),
			ref: func(a, b *big.Int) (*big.Int, bool) { return okv(mulr(a, b)) }},
		{name: "BigInt.Quo", ak: kBigInt, bk: kBigInt, dom: dBigInt, mode: mTrunc, call: ii(BI.Quo), ref: refDiv(big1, mTrunc)},
		{name: "BigInt.Neg", ak: kBigInt, dom: dBigInt, mode: mExact,
			call: func(a, _ *operand) *big.Int { return a.bi.Neg().BigInt() },
			ref:  func(a, _ *big.Int) (*big.Int, bool) { return okv(new(big.Int).Neg(a)) }},
		{name: "BigInt.Abs", ak: kBigInt, dom: dBigInt, mode: mExact,
			call: func(a, _ *operand) *big.Int { return a.bi.Abs().BigInt() },
			ref:  func(a, _ *big.Int) (*big.Int, bool) { return okv(new(big.Int).Abs(a)) }},
	}
}

func setGroups(tables ...[]*opSpec) {
	for _, t := range tables {
		for _, op := range t {
			if op.grp == "" {
				op.grp = op.name
			}
			if op.mutGrp == "" {
				op.mutGrp = op.mutName
			}
			if op.ref == nil || (op.call == nil && op.mut == nil) {
				panic("harness: incomplete op " + op.name + op.mutName)
			}
		}
	}
}
