package main

// Encoding round trips: text (String <-> New...FromStr), JSON (MarshalJSON <-> UnmarshalJSON), binary
// (Marshal / MarshalTo / Size <-> Unmarshal), and for lattice values also Amino and YAML.

import (
	"bytes"
	"fmt"
	"math/big"

	"github.com/osmosis-labs/osmosis/osmomath"
)

type codecResult struct {
	name string
	err  string   // non-empty: decoder refused or encoder inconsistent
	got  *big.Int // decoded raw value (nil if err)
}

func safely(name string, fn func() (*big.Int, error)) (cr codecResult) {
	cr.name = name
	defer func() {
		if r := recover(); r != nil {
			cr.err = "panic: " + fmt.Sprint(r)
			cr.got = nil
		}
	}()
	v, err := fn()
	if err != nil {
		cr.err = err.Error()
		return
	}
	cr.got = v
	return
}

func bigDecCodecs(raw *big.Int, full bool) []codecResult {
	v := osmomath.NewBigDecFromBigIntWithPrec(raw, 36)
	out := []codecResult{
		safely("String", func() (*big.Int, error) {
			s := v.String()
			w, err := osmomath.NewBigDecFromStr(s)
			if err != nil {
				return nil, err
			}
			// the shortest decimal text of the same value must parse to it as well
			if short := fmtDec(raw, 36); full && short != s {
				w2, err := osmomath.NewBigDecFromStr(short)
				if err != nil {
					return nil, fmt.Errorf("short form %q: %v", short, err)
				}
				if w2.BigIntMut().Cmp(w.BigIntMut()) != 0 {
					return w2.BigInt(), nil
				}
			}
			return w.BigInt(), nil
		}),
		safely("JSON", func() (*big.Int, error) {
			bz, err := v.MarshalJSON()
			if err != nil {
				return nil, err
			}
			var w osmomath.BigDec
			if err := w.UnmarshalJSON(bz); err != nil {
				return nil, err
			}
			return w.BigInt(), nil
		}),
		safely("Binary", func() (*big.Int, error) {
			bz, err := v.Marshal()
			if err != nil {
				return nil, err
			}
			n := v.Size()
			buf := make([]byte, n+4)
			m, err := v.MarshalTo(buf)
			if err != nil {
				return nil, err
			}
			if n != len(bz) || m != n || !bytes.Equal(buf[:m], bz) {
				return nil, fmt.Errorf("Marshal/MarshalTo/Size disagree: len(Marshal)=%d Size=%d MarshalTo=%d", len(bz), n, m)
			}
			w := osmomath.ZeroBigDec()
			if err := w.Unmarshal(bz); err != nil {
				return nil, err
			}
			return w.BigInt(), nil
		}),
	}
	if full {
		out = append(out,
			safely("Amino", func() (*big.Int, error) {
				bz, err := v.MarshalAmino()
				if err != nil {
					return nil, err
				}
				w := osmomath.ZeroBigDec()
				if err := w.UnmarshalAmino(bz); err != nil {
					return nil, err
				}
				return w.BigInt(), nil
			}),
			safely("YAML", func() (*big.Int, error) {
				y, err := v.MarshalYAML()
				if err != nil {
					return nil, err
				}
				s, ok := y.(string)
				if !ok {
					return nil, fmt.Errorf("MarshalYAML returned %T", y)
				}
				// the type has no YAML decoder of its own: the YAML form must be the text form, whose
				// round trip is checked above
				if s != v.String() {
					return nil, fmt.Errorf("MarshalYAML %q differs from String %q", s, v.String())
				}
				return new(big.Int).Set(raw), nil
			}))
	}
	out = append(out, safely("EncodersMutate", func() (*big.Int, error) {
		if b := v.BigIntMut(); b == nil || b.Cmp(raw) != 0 {
			return nil, fmt.Errorf("value changed by encoding: %v", b)
		}
		return new(big.Int).Set(raw), nil
	}))
	return out
}

func decCodecs(raw *big.Int, full bool) []codecResult {
	v := osmomath.NewDecFromBigIntWithPrec(raw, 18)
	out := []codecResult{
		safely("String", func() (*big.Int, error) {
			s := v.String()
			w, err := osmomath.NewDecFromStr(s)
			if err != nil {
				return nil, err
			}
			if short := fmtDec(raw, 18); full && short != s {
				w2, err := osmomath.NewDecFromStr(short)
				if err != nil {
					return nil, fmt.Errorf("short form %q: %v", short, err)
				}
				if w2.BigIntMut().Cmp(w.BigIntMut()) != 0 {
					return w2.BigInt(), nil
				}
			}
			return w.BigInt(), nil
		}),
		safely("JSON", func() (*big.Int, error) {
			bz, err := v.MarshalJSON()
			if err != nil {
				return nil, err
			}
			var w osmomath.Dec
			if err := w.UnmarshalJSON(bz); err != nil {
				return nil, err
			}
			return w.BigInt(), nil
		}),
		safely("Binary", func() (*big.Int, error) {
			bz, err := v.Marshal()
			if err != nil {
				return nil, err
			}
			n := v.Size()
			buf := make([]byte, n+4)
			m, err := v.MarshalTo(buf)
			if err != nil {
				return nil, err
			}
			if n != len(bz) || m != n || !bytes.Equal(buf[:m], bz) {
				return nil, fmt.Errorf("Marshal/MarshalTo/Size disagree: len(Marshal)=%d Size=%d MarshalTo=%d", len(bz), n, m)
			}
			w := osmomath.ZeroDec()
			if err := w.Unmarshal(bz); err != nil {
				return nil, err
			}
			return w.BigInt(), nil
		}),
	}
	if full {
		out = append(out,
			safely("Amino", func() (*big.Int, error) {
				bz, err := v.MarshalAmino()
				if err != nil {
					return nil, err
				}
				w := osmomath.ZeroDec()
				if err := w.UnmarshalAmino(bz); err != nil {
					return nil, err
				}
				return w.BigInt(), nil
			}),
			safely("YAML", func() (*big.Int, error) {
				y, err := v.MarshalYAML()
				if err != nil {
					return nil, err
				}
				s, ok := y.(string)
				if !ok {
					return nil, fmt.Errorf("MarshalYAML returned %T", y)
				}
				// the type has no YAML decoder of its own: the YAML form must be the text form, whose
				// round trip is checked above
				if s != v.String() {
					return nil, fmt.Errorf("MarshalYAML %q differs from String %q", s, v.String())
				}
				return new(big.Int).Set(raw), nil
			}))
	}
	if v.BigIntMut().Cmp(raw) != 0 {
		out = append(out, codecResult{name: "EncodersMutate", err: "value changed by encoding: " + fmt.Sprint(v.BigIntMut())})
	}
	return out
}

func bigIntCodecs(raw *big.Int) []codecResult {
	v := osmomath.NewBigIntFromBigInt(new(big.Int).Set(raw))
	return []codecResult{
		safely("String", func() (*big.Int, error) {
			w, ok := osmomath.NewBigIntFromString(v.String())
			if !ok {
				return nil, fmt.Errorf("NewBigIntFromString refused %q", v.String())
			}
			return w.BigInt(), nil
		}),
		safely("JSON", func() (*big.Int, error) {
			bz, err := v.MarshalJSON()
			if err != nil {
				return nil, err
			}
			var w osmomath.BigInt
			if err := w.UnmarshalJSON(bz); err != nil {
				return nil, err
			}
			return w.BigInt(), nil
		}),
		safely("Binary", func() (*big.Int, error) {
			bz, err := v.Marshal()
			if err != nil {
				return nil, err
			}
			n := v.Size()
			buf := make([]byte, n+4)
			m, err := v.MarshalTo(buf)
			if err != nil {
				return nil, err
			}
			if n != len(bz) || m != n || !bytes.Equal(buf[:m], bz) {
				return nil, fmt.Errorf("Marshal/MarshalTo/Size disagree: len(Marshal)=%d Size=%d MarshalTo=%d", len(bz), n, m)
			}
			w := osmomath.ZeroBigInt()
			if err := w.Unmarshal(bz); err != nil {
				return nil, err
			}
			return w.BigInt(), nil
		}),
	}
}

// roundTrip checks every encoding of one value of the given domain. full adds Amino and YAML.
func (h *H) roundTrip(dom domain, raw *big.Int, full bool) {
	var res []codecResult
	switch dom {
	case dBig:
		res = bigDecCodecs(raw, full)
	case dDec:
		res = decCodecs(raw, full)
	case dBigInt:
		res = bigIntCodecs(raw)
	default:
		return
	}
	if h.countOn {
		h.r.Transitions += int64(len(res))
		h.r.Traces += int64(len(res))
		h.vac("encodings_round_tripped")
	}
	bits := "bits<=1024"
	if dom == dBig && raw.BitLen() > 1024 {
		bits = "bits1025-1144"
		h.vac("values_between_1024_and_1144_bits_encoded")
	}
	for _, c := range res {
		if h.countOn && rec != nil {
			o := "ok"
			if c.err != "" {
				o = "refused"
			} else if c.got == nil {
				o = "wrong <nil>"
			} else if c.got.Cmp(raw) != 0 {
				o = "wrong " + c.got.String()
			}
			rec.add("RoundTrip."+dom.String()+"."+c.name+"."+bits, raw, nil, o)
		}
		kindStr, detail := "", ""
		switch {
		case c.err != "":
			kindStr, detail = "refused", "error="+c.err
		case c.got == nil:
			kindStr, detail = "wrong", "decoded=<nil value>"
		case c.got.Cmp(raw) != 0:
			kindStr, detail = "wrong", "decoded="+fmtDec(c.got, dom.prec())
		default:
			continue
		}
		name := "RoundTrip." + dom.String() + "." + c.name
		h.fail(name+"."+signName(raw)+"."+bits+"."+kindStr, name+"|"+fmtDec(raw, dom.prec())+"|", "encoding-round-trip",
			fmt.Sprintf("value=%s bitlen=%d %s", fmtDec(raw, dom.prec()), raw.BitLen(), detail),
			replayCase{Op: "RoundTrip", A: raw.String(), Codec: dom.String()})
	}
}
