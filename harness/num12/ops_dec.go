package main

// Operation tables of the 18-decimal alias surface (osmomath.Dec = sdkmath.LegacyDec, osmomath.Int).

import (
	"fmt"
	"math/big"

	"github.com/osmosis-labs/osmosis/osmomath"
)

type D = osmomath.Dec

func dd(f func(D, D) D) callFn {
	return func(a, b *operand) *big.Int { return f(a.dec, b.dec).BigIntMut() }
}
func dI(f func(D, osmomath.Int) D) callFn {
	return func(a, b *operand) *big.Int { return f(a.dec, b.si).BigIntMut() }
}
func d64(f func(D, int64) D) callFn {
	return func(a, b *operand) *big.Int { return f(a.dec, b.n).BigIntMut() }
}
func d1(f func(D) D) callFn {
	return func(a, _ *operand) *big.Int { return f(a.dec).BigIntMut() }
}

func decBinaryOps() []*opSpec {
	return []*opSpec{
		{name: "Dec.Add", mutName: "Dec.AddMut", ak: kDec, bk: kDec, dom: dDec, mode: mExact, recv: true,
			call: dd(D.Add), mut: dd(D.AddMut),
			ref: func(a, b *big.Int) (*big.Int, bool) { return okv(new(big.Int).Add(a, b)) }},
		{name: "Dec.Sub", mutName: "Dec.SubMut", ak: kDec, bk: kDec, dom: dDec, mode: mExact, recv: true,
			call: dd(D.Sub), mut: dd(D.SubMut),
			ref: func(a, b *big.Int) (*big.Int, bool) { return okv(new(big.Int).Sub(a, b)) }},
		{name: "Dec.Mul", mutName: "Dec.MulMut", ak: kDec, bk: kDec, dom: dDec, mode: mEven, recv: true, tiePrec: 18,
			call: dd(D.Mul), mut: dd(D.MulMut), ref: refMul(p18, mEven)},
		{name: "Dec.MulTruncate", mutName: "Dec.MulTruncateMut", ak: kDec, bk: kDec, dom: dDec, mode: mTrunc, recv: true,
			call: dd(D.MulTruncate), mut: dd(D.MulTruncateMut), ref: refMul(p18, mTrunc)},
		{name: "Dec.MulRoundUp", mutName: "Dec.MulRoundUpMut", ak: kDec, bk: kDec, dom: dDec, mode: mCeil, recv: true,
			call: dd(D.MulRoundUp), mut: dd(D.MulRoundUpMut), ref: refMul(p18, mCeil)},
		{name: "Dec.Quo", mutName: "Dec.QuoMut", ak: kDec, bk: kDec, dom: dDec, mode: mEven, recv: true, quo: true, tiePrec: 18,
			call: dd(D.Quo), mut: dd(D.QuoMut),
			ref: func(a, b *big.Int) (*big.Int, bool) {
				if b.Sign() == 0 {
					return nil, false
				}
				return okv(quoHalfEven(mulr(mulr(a, p18), p18), b, p18))
			}},
		{name: "Dec.QuoTruncate", mutName: "Dec.QuoTruncateMut", ak: kDec, bk: kDec, dom: dDec, mode: mTrunc, recv: true, quo: true,
			call: dd(D.QuoTruncate), mut: dd(D.QuoTruncateMut), ref: refDiv(p18, mTrunc)},
		{name: "Dec.QuoRoundUp", mutName: "Dec.QuoRoundupMut", ak: kDec, bk: kDec, dom: dDec, mode: mCeil, recv: true, quo: true,
			call: dd(D.QuoRoundUp), mut: dd(D.QuoRoundupMut), ref: refDiv(p18, mCeil)},
	}
}

func decSdkIntOps() []*opSpec {
	return []*opSpec{
		{name: "Dec.MulInt", mutName: "Dec.MulIntMut", ak: kDec, bk: kSdkInt, dom: dDec, mode: mExact, recv: true,
			call: dI(D.MulInt), mut: dI(D.MulIntMut),
			ref: func(a, b *big.Int) (*big.Int, bool) { return okv(mulr(a, b)) }},
		{name: "Dec.QuoInt", mutName: "Dec.QuoIntMut", ak: kDec, bk: kSdkInt, dom: dDec, mode: mTrunc, recv: true, quo: true,
			call: dI(D.QuoInt), mut: dI(D.QuoIntMut), ref: refQuoIntTrunc},
	}
}

func decInt64Ops() []*opSpec {
	return []*opSpec{
		{name: "Dec.MulInt64", mutName: "Dec.MulInt64Mut", ak: kDec, bk: kI64, dom: dDec, mode: mExact, recv: true,
			call: d64(D.MulInt64), mut: d64(D.MulInt64Mut),
			ref: func(a, b *big.Int) (*big.Int, bool) { return okv(mulr(a, b)) }},
		{name: "Dec.QuoInt64", mutName: "Dec.QuoInt64Mut", ak: kDec, bk: kI64, dom: dDec, mode: mTrunc, recv: true, quo: true,
			call: d64(D.QuoInt64), mut: d64(D.QuoInt64Mut), ref: refQuoIntTrunc},
	}
}

func decUnaryOps() []*opSpec {
	ops := []*opSpec{
		{name: "Dec.Ceil", ak: kDec, dom: dDec, mode: mCeil,
			call: d1(D.Ceil),
			ref:  func(a, _ *big.Int) (*big.Int, bool) { return okv(mulr(rdiv(a, p18, mCeil), p18)) }},
		{name: "Dec.TruncateDec", ak: kDec, dom: dDec, mode: mTrunc,
			call: d1(D.TruncateDec),
			ref:  func(a, _ *big.Int) (*big.Int, bool) { return okv(mulr(rdiv(a, p18, mTrunc), p18)) }},
		{name: "Dec.TruncateInt", ak: kDec, dom: dSdkInt, mode: mTrunc,
			call: func(a, _ *operand) *big.Int { return a.dec.TruncateInt().BigInt() },
			ref:  func(a, _ *big.Int) (*big.Int, bool) { return okv(rdiv(a, p18, mTrunc)) }},
		{name: "Dec.TruncateInt64", ak: kDec, dom: dI64, mode: mTrunc,
			call: func(a, _ *operand) *big.Int { return big.NewInt(a.dec.TruncateInt64()) },
			ref:  func(a, _ *big.Int) (*big.Int, bool) { return okv(rdiv(a, p18, mTrunc)) }},
		{name: "Dec.RoundInt", ak: kDec, dom: dSdkInt, mode: mEven,
			call: func(a, _ *operand) *big.Int { return a.dec.RoundInt().BigInt() },
			ref:  func(a, _ *big.Int) (*big.Int, bool) { return okv(rdiv(a, p18, mEven)) }},
		{name: "Dec.RoundInt64", ak: kDec, dom: dI64, mode: mEven,
			call: func(a, _ *operand) *big.Int { return big.NewInt(a.dec.RoundInt64()) },
			ref:  func(a, _ *big.Int) (*big.Int, bool) { return okv(rdiv(a, p18, mEven)) }},
		{name: "Dec.Abs", mutName: "Dec.AbsMut", ak: kDec, dom: dDec, mode: mExact, recv: true,
			call: d1(D.Abs), mut: d1(D.AbsMut),
			ref: func(a, _ *big.Int) (*big.Int, bool) { return okv(new(big.Int).Abs(a)) }},
		{name: "Dec.Neg", mutName: "Dec.NegMut", ak: kDec, dom: dDec, mode: mExact, recv: true,
			call: d1(D.Neg), mut: d1(D.NegMut),
			ref: func(a, _ *big.Int) (*big.Int, bool) { return okv(new(big.Int).Neg(a)) }},
		{name: "Dec.Clone", ak: kDec, dom: dDec, mode: mExact,
			call: d1(D.Clone),
			ref:  func(a, _ *big.Int) (*big.Int, bool) { return okv(new(big.Int).Set(a)) }},
		{name: "Dec.IsInteger", ak: kDec, dom: dBool, mode: mExact,
			call: func(a, _ *operand) *big.Int { return boolInt(a.dec.IsInteger()) },
			ref: func(a, _ *big.Int) (*big.Int, bool) {
				return okv(boolInt(new(big.Int).Rem(a, p18).Sign() == 0))
			}},
	}
	for n := uint64(0); n <= 5; n++ {
		n := n
		ops = append(ops, &opSpec{name: fmt.Sprintf("Dec.Power(%d)", n), grp: "Dec.Power",
			mutName: fmt.Sprintf("Dec.PowerMut(%d)", n), mutGrp: "Dec.PowerMut", ak: kDec, dom: dDec, mode: mEven,
			call: func(a, _ *operand) *big.Int { return a.dec.Power(n).BigIntMut() },
			mut:  func(a, _ *operand) *big.Int { return a.dec.PowerMut(n).BigIntMut() },
			ref:  powerRef(p18, fitsDec, n, true)})
	}
	return ops
}

func decFromSdkIntOps() []*opSpec {
	ops := []*opSpec{
		{name: "NewDecFromInt", ak: kSdkInt, dom: dDec, mode: mExact,
			call: func(a, _ *operand) *big.Int { return osmomath.NewDecFromInt(a.si).BigIntMut() },
			ref:  func(a, _ *big.Int) (*big.Int, bool) { return okv(mulr(a, p18)) }},
		{name: "Int.ToLegacyDec", ak: kSdkInt, dom: dDec, mode: mExact,
			call: func(a, _ *operand) *big.Int { return a.si.ToLegacyDec().BigIntMut() },
			ref:  func(a, _ *big.Int) (*big.Int, bool) { return okv(mulr(a, p18)) }},
	}
	for p := 0; p <= 18; p += 3 {
		p := p
		ops = append(ops, &opSpec{name: fmt.Sprintf("NewDecFromIntWithPrec(%d)", p), grp: "NewDecFromIntWithPrec", ak: kSdkInt, dom: dDec, mode: mExact,
			call: func(a, _ *operand) *big.Int { return osmomath.NewDecFromIntWithPrec(a.si, int64(p)).BigIntMut() },
			ref:  func(a, _ *big.Int) (*big.Int, bool) { return okv(mulr(a, pow10(18-p))) }},
			&opSpec{name: fmt.Sprintf("NewDecFromBigIntWithPrec(%d)", p), grp: "NewDecFromBigIntWithPrec", ak: kRaw, dom: dDec, mode: mExact,
				call: func(a, _ *operand) *big.Int { return osmomath.NewDecFromBigIntWithPrec(a.p, int64(p)).BigIntMut() },
				ref:  func(a, _ *big.Int) (*big.Int, bool) { return okv(mulr(a, pow10(18-p))) }})
	}
	ops = append(ops, &opSpec{name: "NewDecFromBigInt", ak: kRaw, dom: dDec, mode: mExact,
		call: func(a, _ *operand) *big.Int { return osmomath.NewDecFromBigInt(a.p).BigIntMut() },
		ref:  func(a, _ *big.Int) (*big.Int, bool) { return okv(mulr(a, p18)) }})
	return ops
}

func decCtorOps() []*opSpec {
	var ops []*opSpec
	for p := 0; p <= 18; p++ {
		p := p
		ops = append(ops, &opSpec{name: fmt.Sprintf("NewDecWithPrec(%d)", p), grp: "NewDecWithPrec", ak: kI64, dom: dDec, mode: mExact,
			call: func(a, _ *operand) *big.Int { return osmomath.NewDecWithPrec(a.n, int64(p)).BigIntMut() },
			ref:  func(a, _ *big.Int) (*big.Int, bool) { return okv(mulr(a, pow10(18-p))) }})
	}
	ops = append(ops, &opSpec{name: "NewDec", ak: kI64, dom: dDec, mode: mExact,
		call: func(a, _ *operand) *big.Int { return osmomath.NewDec(a.n).BigIntMut() },
		ref:  func(a, _ *big.Int) (*big.Int, bool) { return okv(mulr(a, p18)) }})
	return ops
}
