package main

// Part 2 (engine B): all sequences of <= depth operations by one actor on one in-memory pool.

import (
	"crypto/sha256"
	"fmt"
	"math/big"
	"sort"
	"strings"

	sdk "github.com/cosmos/cosmos-sdk/types"

	"github.com/osmosis-labs/osmosis/osmomath"
	"github.com/osmosis-labs/osmosis/v31/x/gamm/pool-models/balancer"
	"github.com/osmosis-labs/osmosis/v31/x/gamm/pool-models/stableswap"

	core "github.com/osmosis-labs/osmosis/v31/zzverif/res04"
)

var seqSeen *core.Seen = allSeen

type seqConfig struct {
	Name     string   `json:"name"`
	Pool     string   `json:"pool"`
	Reserves []string `json:"reserves"`
	Weights  []int64  `json:"weights,omitempty"`
	Scaling  []uint64 `json:"scaling,omitempty"`
	Fee      string   `json:"fee"`
	ExitFee  string   `json:"exit_fee"`
	Depth    int      `json:"depth"`
	// optional: kind names / sizes of the alphabet (default: the eight A/B kinds x three sizes)
	Alphabet   []string `json:"alphabet,omitempty"`
	TradeSizes []string `json:"trade_sizes,omitempty"`
	ExitSizes  []string `json:"exit_sizes,omitempty"`
}

// SeqReplay is the replay payload of part 2.
type SeqReplay struct {
	Part   int       `json:"part"`
	Config seqConfig `json:"config"`
	Ops    []string  `json:"ops"`
}

func seqDepth(thorough bool) int {
	if thorough {
		return 5
	}
	return 4
}

func seqConfigs(thorough bool) []seqConfig {
	d := seqDepth(thorough)
	cs := []seqConfig{
		{Name: "balA", Pool: "bal", Reserves: []string{"1000000001", "3000000"}, Weights: []int64{1, 2}, Fee: "0.003", ExitFee: "0", Depth: d},
		{Name: "balB", Pool: "bal", Reserves: []string{"1000000000000", "1000003"}, Weights: []int64{1, 9}, Fee: "0", ExitFee: "0", Depth: d},
		{Name: "stA", Pool: "stable", Reserves: []string{"1000000000", "1200000007"}, Scaling: []uint64{1, 1}, Fee: "0", ExitFee: "0", Depth: d - 1},
		{Name: "stB", Pool: "stable", Reserves: []string{"1000000000000", "5000003"}, Scaling: []uint64{1000000, 1}, Fee: "0.003", ExitFee: "0", Depth: d - 1},
	}
	// multi-asset pools cycling through three denoms (every ordered denom pair occurs as a swap)
	cyc := []string{"swapInAB", "swapInBC", "swapInCA", "swapInBA", "swapInCB", "swapInAC", "swapOutAC", "swapOutCB", "joinSingleC", "joinAll", "exitSingleC", "exitProp"}
	cs = append(cs,
		seqConfig{Name: "stCyc", Pool: "stable", Reserves: []string{"1000000000", "1200000007", "800000000000"}, Scaling: []uint64{1, 1, 1000}, Fee: "0", ExitFee: "0", Depth: d - 1,
			Alphabet: cyc, TradeSizes: []string{"1e-2", "0.3"}, ExitSizes: []string{"1/2", "all"}},
		seqConfig{Name: "balCyc", Pool: "bal", Reserves: []string{"1000000", "1000000000", "1000000000000"}, Weights: []int64{1, 2, 3}, Fee: "0", ExitFee: "0", Depth: d - 1,
			Alphabet: cyc, TradeSizes: []string{"1e-2", "0.3"}, ExitSizes: []string{"1/2", "all"}},
	)
	if thorough {
		cs = append(cs,
			seqConfig{Name: "balC", Pool: "bal", Reserves: []string{"1000", "777"}, Weights: []int64{2, 1}, Fee: "0", ExitFee: "0.01", Depth: d},
			seqConfig{Name: "balD", Pool: "bal", Reserves: []string{"1000000", "1000000000", "1000000000000"}, Weights: []int64{1, 2, 3}, Fee: "0.0001", ExitFee: "0", Depth: d - 1},
			seqConfig{Name: "stC", Pool: "stable", Reserves: []string{"1000000", "1000000000000", "3000000"}, Scaling: []uint64{1, 1000000, 1}, Fee: "0", ExitFee: "0", Depth: d - 2},
		)
	}
	return cs
}

// ---------------------------------------------------------------------------------------------
// pool handle

type poolH struct {
	cfg *seqConfig
	bal *balancer.Pool
	st  *stableswap.Pool
}

func newPoolH(cfg *seqConfig) (*poolH, error) {
	h := &poolH{cfg: cfg}
	var err error
	if cfg.Pool == "bal" {
		h.bal, err = newBal(ints(cfg.Reserves), cfg.Weights, cfg.Fee, cfg.ExitFee)
	} else {
		h.st, err = newStable(ints(cfg.Reserves), cfg.Scaling, cfg.Fee, cfg.ExitFee)
	}
	return h, err
}

func (h *poolH) clone() *poolH {
	o := &poolH{cfg: h.cfg}
	if h.bal != nil {
		q := *h.bal
		q.PoolAssets = h.bal.GetAllPoolAssets()
		o.bal = &q
	} else {
		q := h.st.Copy()
		o.st = &q
	}
	return o
}

func (h *poolH) snap() balSnap {
	if h.bal != nil {
		return snapBal(h.bal)
	}
	return snapStable(h.st)
}

func (h *poolH) n() int { return len(h.cfg.Reserves) }

// ---------------------------------------------------------------------------------------------
// alphabet

// the first eight kinds are the default alphabet; the others are used by configurations that name them
// (multi-asset pools cycling through three denoms). Letters are denom positions (A = 0, B = 1, ...).
var seqKinds = []string{"swapInAB", "swapInBA", "swapOutAB", "swapOutBA", "joinSingleA", "joinAll", "exitSingleA", "exitProp",
	"swapInAC", "swapInCA", "swapInBC", "swapInCB", "swapOutAC", "swapOutCA", "swapOutBC", "swapOutCB", "joinSingleB", "joinSingleC", "exitSingleB", "exitSingleC"}

const defaultKinds = 8

// kindParts splits a kind name into its base and denom positions.
func kindParts(kind int) (base string, i, j int) {
	name := seqKinds[kind]
	for _, b := range []string{"swapIn", "swapOut"} {
		if strings.HasPrefix(name, b) {
			return b, int(name[len(b)] - 'A'), int(name[len(b)+1] - 'A')
		}
	}
	for _, b := range []string{"joinSingle", "exitSingle"} {
		if strings.HasPrefix(name, b) {
			return b, int(name[len(b)] - 'A'), 0
		}
	}
	return name, 0, 0
}

func isExitKind(kind int) bool { return strings.HasPrefix(seqKinds[kind], "exit") }
func isJoinKind(kind int) bool { return strings.HasPrefix(seqKinds[kind], "join") }
var seqTradeSizes = []string{"1e-6", "1e-2", "0.3"}
var seqExitSizes = []string{"1/3", "1/2", "all"}

type seqOp struct {
	kind int
	size string
}

func (o seqOp) String() string { return seqKinds[o.kind] + ":" + o.size }

// parseSeqOp accepts any size name resolveSize / exitFraction understand (the explorer only uses the
// three alphabet sizes; replays written by hand may use others).
func parseSeqOp(s string) seqOp {
	p := strings.SplitN(s, ":", 2)
	for k, n := range seqKinds {
		if n == p[0] && len(p) == 2 {
			return seqOp{k, p[1]}
		}
	}
	panic("bad op " + s)
}

func seqAlphabet(cfg *seqConfig) []seqOp {
	var kinds []int
	if len(cfg.Alphabet) == 0 {
		for k := 0; k < defaultKinds; k++ {
			kinds = append(kinds, k)
		}
	}
	for _, name := range cfg.Alphabet {
		found := false
		for k, n := range seqKinds {
			if n == name {
				kinds, found = append(kinds, k), true
			}
		}
		if !found {
			panic("unknown kind " + name)
		}
	}
	ts, es := seqTradeSizes, seqExitSizes
	if len(cfg.TradeSizes) > 0 {
		ts = cfg.TradeSizes
	}
	if len(cfg.ExitSizes) > 0 {
		es = cfg.ExitSizes
	}
	var a []seqOp
	for _, k := range kinds {
		sz := ts
		if isExitKind(k) {
			sz = es
		}
		for _, z := range sz {
			a = append(a, seqOp{k, z})
		}
	}
	return a
}

func exitFraction(size string, shares *big.Int) *big.Int {
	switch size {
	case "1/3":
		return new(big.Int).Quo(shares, big.NewInt(3))
	case "1/2":
		return new(big.Int).Quo(shares, big.NewInt(2))
	}
	return new(big.Int).Set(shares)
}

// ---------------------------------------------------------------------------------------------
// actor state

type seqState struct {
	h      *poolH
	shares *big.Int   // actor's LP shares
	g      []*big.Int // net tokens received by the actor so far (negative = paid)
	// accumulated allowed relative per-share fall (exact rational): 2*powPrecision per Pow-bearing part
	// plus explicitly counted user-favourable rounding units
	eps *big.Rat
}

func (s *seqState) clone() *seqState {
	return &seqState{h: s.h.clone(), shares: new(big.Int).Set(s.shares), g: cloneInts(s.g), eps: new(big.Rat).Set(s.eps)}
}

func (s *seqState) hash() [32]byte {
	sn := s.h.snap()
	return sha256.Sum256([]byte(fmt.Sprintf("seq|%s|%v|%s|%s|%v", s.h.cfg.Name, strs(sn.B), sn.S, s.shares, strs(s.g))))
}

type seqRun struct {
	sk      *collector
	cfg     *seqConfig
	init    balSnap
	path    []seqOp
	pending []pendingViol // violations raised by the last apply / closing, before shrinking
	quiet   bool          // shrinking probe: record only
}

type pendingViol struct {
	assertion, detail string
	closing           bool
}

func pathStrings(path []seqOp) []string {
	p := make([]string, len(path))
	for i, o := range path {
		p[i] = o.String()
	}
	return p
}

func (r *seqRun) sigOf(path []seqOp) string {
	return "seq|" + r.cfg.Name + "|" + strings.Join(pathStrings(path), ",")
}

var inClosing bool

func (r *seqRun) viol(assertion, detail string) {
	r.pending = append(r.pending, pendingViol{assertion: assertion, detail: detail, closing: inClosing})
}

// probe replays path on a fresh pool with a scratch collector and reports whether the last operation
// (closing == false) or the closing evaluation (closing == true) raises assertion; every earlier
// operation must be accepted by the real code and pass its oracles.
func (r *seqRun) probe(path []seqOp, assertion string, closing bool) (bool, string) {
	q := &seqRun{sk: &collector{r: core.NewResult(""), max: map[string]float64{}}, cfg: r.cfg, init: r.init, quiet: true}
	s := newSeqState(r.cfg)
	for i, op := range path {
		q.path = path[:i+1]
		q.pending = nil
		class, ok := q.apply(s, op)
		if class != "" {
			return false, ""
		}
		last := i == len(path)-1
		if !ok {
			if last && !closing {
				for _, pv := range q.pending {
					if pv.assertion == assertion {
						return true, pv.detail
					}
				}
			}
			return false, ""
		}
	}
	if !closing {
		return false, ""
	}
	q.path = path
	q.pending = nil
	q.closing(s)
	for _, pv := range q.pending {
		if pv.assertion == assertion {
			return true, pv.detail
		}
	}
	return false, ""
}

// flush shrinks every pending violation to a minimal op list (greedy removal of single operations, front
// first, repeated to a fixpoint) and reports it under that normalised signature.
func (r *seqRun) flush() {
	pend := r.pending
	r.pending = nil
	if r.quiet {
		r.pending = pend
		return
	}
	for _, pv := range pend {
		r.sk.r.Extra["sum_violating_sequences_"+pv.assertion] = asInt(r.sk.r.Extra["sum_violating_sequences_"+pv.assertion]) + 1
		path, detail := r.canonical(r.path, pv)
		r.sk.violation(pv.assertion, r.sigOf(path), r.sigOf(path)+": "+detail, SeqReplay{Part: 2, Config: *r.cfg, Ops: pathStrings(path)})
	}
}

// opRank orders operations as in the alphabet (kind, then size as listed); sizes outside the alphabet
// (hand-written replays) sort after, by name.
func opRank(o seqOp) string {
	sizes := seqTradeSizes
	if isExitKind(o.kind) {
		sizes = seqExitSizes
	}
	idx := 9
	for i, z := range sizes {
		if z == o.size {
			idx = i
		}
	}
	return fmt.Sprintf("%02d%d%s", o.kind, idx, o.size)
}

func pathRank(p []seqOp) string {
	parts := make([]string, len(p))
	for i, o := range p {
		parts[i] = opRank(o)
	}
	return strings.Join(parts, ",")
}

// canonical maps a violating op list to its normal form, a function of the op list alone (independent of
// exploration order, sharding and seed): among all subsequences that reproduce the same assertion (at
// their last operation, which must be the original last operation, or in the closing evaluation), the
// shortest, ties broken by alphabet order. Every earlier operation of a candidate must be accepted by the
// real code and pass its own oracles.
func (r *seqRun) canonical(full []seqOp, pv pendingViol) ([]seqOp, string) {
	n := len(full)
	type cand struct {
		path []seqOp
		rank string
	}
	byLen := map[int][]cand{}
	for mask := 1; mask < 1<<uint(n); mask++ {
		if !pv.closing && mask&(1<<uint(n-1)) == 0 {
			continue
		}
		if mask == 1<<uint(n)-1 {
			continue
		}
		var p []seqOp
		for i := 0; i < n; i++ {
			if mask&(1<<uint(i)) != 0 {
				p = append(p, full[i])
			}
		}
		byLen[len(p)] = append(byLen[len(p)], cand{p, pathRank(p)})
	}
	for l := 1; l < n; l++ {
		cs := byLen[l]
		sort.Slice(cs, func(i, j int) bool { return cs[i].rank < cs[j].rank })
		prev := ""
		for _, c := range cs {
			if c.rank == prev {
				continue
			}
			prev = c.rank
			if hit, d := r.probe(c.path, pv.assertion, pv.closing); hit {
				return c.path, d
			}
		}
	}
	return append([]seqOp{}, full...), pv.detail
}

func newSeqState(cfg *seqConfig) *seqState {
	h, err := newPoolH(cfg)
	if err != nil {
		panic(err)
	}
	s := &seqState{h: h, shares: new(big.Int), g: make([]*big.Int, h.n()), eps: new(big.Rat)}
	for i := range s.g {
		s.g[i] = new(big.Int)
	}
	return s
}

// eps2 = 2*powPrecision
var eps2 = rMul(powPrecDoc, tolC)

// account applies the observed pool delta to the actor and cross-checks the returned amounts.
func (r *seqRun) account(s *seqState, before, after balSnap) {
	for i := range before.B {
		d := new(big.Int).Sub(before.B[i], after.B[i]) // pool lost => actor gained
		s.g[i].Add(s.g[i], d)
	}
	s.shares.Add(s.shares, new(big.Int).Sub(after.S, before.S))
}

// perShare checks the per-operation per-share invariant for balancer (tolerance: parts*2*powPrecision +
// units) and stableswap (exact), and accumulates the allowance.
func (r *seqRun) perShare(s *seqState, before, after balSnap, parts int64, units *big.Rat, what string) bool {
	if r.cfg.Pool == "bal" {
		allow := rMul(eps2, rI64(parts))
		if units != nil {
			allow.Add(allow, units)
		}
		s.eps.Add(s.eps, allow)
		fall := perShareFall(before, after, r.cfg.Weights)
		if fall.Sign() > 0 {
			r.sk.maxExtra("max_seq_pershare_fall_over_powprecision_"+what, f64(nf().Quo(fall, fRat(powPrecDoc))))
		}
		if fall.Cmp(fRat(allow)) > 0 {
			r.viol("bal_pershare_invariant", fmt.Sprintf("%s: (prod B^w)/S fell by %s relative (> %s); before B=%v S=%s after B=%v S=%s",
				what, fall.Text('g', 8), fRat(allow).Text('g', 8), strs(before.B), before.S, strs(after.B), after.S))
			return false
		}
		return true
	}
	cmp, fall := stablePerShareCmp(before, after, r.cfg.Scaling)
	if cmp < 0 {
		if what == "joinSingleA" {
			// stableswap single-asset join: no per-operation claim in the statement; its observed effect is
			// carried into the sequence allowance (its own oracles: share cap here, round trip in part 1)
			up := new(big.Rat).SetFloat64(fall * (1 + 1e-9))
			up.Add(up, big.NewRat(1, 1000000000000000000))
			s.eps.Add(s.eps, up)
			allow := stableSingleJoinAllowance(before.B, r.cfg.Scaling, 0) // position-independent enough for an observation metric
			if a2 := stableSingleJoinAllowance(after.B, r.cfg.Scaling, 0); a2.Cmp(allow) > 0 {
				allow = a2
			}
			r.sk.maxExtra("max_stable_single_join_pershare_fall", fall)
			r.sk.maxExtra("max_stable_single_join_fall_over_unit_allowance", fall/f64(fRat(allow)))
			r.sk.vac("obs_stable_single_join_pershare_fell")
			return true
		}
		r.viol("stable_pershare_invariant", fmt.Sprintf("%s: K^(1/d)/S fell by %.3g: before B=%v S=%s after B=%v S=%s", what, fall, strs(before.B), before.S, strs(after.B), after.S))
		return false
	}
	return true
}

// apply executes one op of the actor on s (mutating it). Returns "" on success, a rejection class when
// the real code refused, and ok=false when an oracle fired (subtree is not explored further).
func (r *seqRun) apply(s *seqState, op seqOp) (class string, ok bool) {
	h := s.h
	cfg := r.cfg
	fee := dec(cfg.Fee)
	exitFee := dec(cfg.ExitFee)
	before := h.snap()
	kind, ki, kj := kindParts(op.kind)
	_ = kj
	ok = true
	swapIn := func(i, j int, amt *big.Int) string {
		var out sdk.Coin
		cl := try(func() (e error) {
			if h.bal != nil {
				out, e = h.bal.SwapOutAmtGivenIn(ctx, sdk.Coins{coin(i, amt)}, denoms[j], fee)
			} else {
				out, e = h.st.SwapOutAmtGivenIn(ctx, sdk.Coins{coin(i, amt)}, denoms[j], fee)
			}
			return
		})
		r.sk.transition()
		if cl != "" {
			return cl
		}
		after := h.snap()
		if new(big.Int).Sub(after.B[i], before.B[i]).Cmp(amt) != 0 || new(big.Int).Sub(before.B[j], after.B[j]).Cmp(out.Amount.BigInt()) != 0 {
			r.viol("returned_amount_matches_pool_delta", fmt.Sprintf("swap in %s out %v: pool %v -> %v", amt, out, strs(before.B), strs(after.B)))
			ok = false
		}
		return ""
	}
	switch kind {
	case "swapIn", "swapOut":
		i, j := ki, kj
		kind := seqKinds[op.kind]
		var cl string
		if strings.HasPrefix(kind, "swapIn") {
			amt := resolveSize(op.size, before.B[i])
			if amt.Sign() == 0 {
				return "skip:zero_amount", true
			}
			cl = swapIn(i, j, amt)
		} else {
			amt := resolveSize(op.size, before.B[j])
			if amt.Sign() == 0 {
				return "skip:zero_amount", true
			}
			var in sdk.Coin
			cl = try(func() (e error) {
				if h.bal != nil {
					in, e = h.bal.SwapInAmtGivenOut(ctx, sdk.Coins{coin(j, amt)}, denoms[i], fee)
				} else {
					in, e = h.st.SwapInAmtGivenOut(ctx, sdk.Coins{coin(j, amt)}, denoms[i], fee)
				}
				return
			})
			r.sk.transition()
			if cl == "" {
				after := h.snap()
				if new(big.Int).Sub(after.B[i], before.B[i]).Cmp(in.Amount.BigInt()) != 0 || new(big.Int).Sub(before.B[j], after.B[j]).Cmp(amt) != 0 {
					r.viol("returned_amount_matches_pool_delta", fmt.Sprintf("swap out %s in %v: pool %v -> %v", amt, in, strs(before.B), strs(after.B)))
					ok = false
				}
			}
		}
		if cl != "" {
			return cl, true
		}
		after := h.snap()
		if after.S.Cmp(before.S) != 0 {
			r.viol("swap_changed_shares", "")
			ok = false
		}
		if cfg.Pool == "stable" {
			kb := fullK(scaledRes(before.B, cfg.Scaling))
			ka := fullK(scaledRes(after.B, cfg.Scaling))
			if ka.Cmp(kb) < 0 {
				r.viol("stable_invariant_decreased", fmt.Sprintf("%s: k fell by %.3g relative: before B=%v after B=%v", kind, f64(fRat(rQuo(rSub(kb, ka), kb))), strs(before.B), strs(after.B)))
				ok = false
			}
			r.sk.vac("stable_binary_search_swaps")
		} else if !r.perShare(s, before, after, 1, nil, kind) {
			ok = false
		}
		r.account(s, before, after)

	case "joinSingle":
		kind := "joinSingleA" // oracle class name (kept for all positions)
		amt := resolveSize(op.size, before.B[ki])
		if amt.Sign() == 0 {
			return "skip:zero_amount", true
		}
		var sh osmomath.Int
		cl := try(func() (e error) {
			if h.bal != nil {
				sh, e = h.bal.JoinPool(ctx, sdk.Coins{coin(ki, amt)}, fee)
			} else {
				sh, e = h.st.JoinPool(ctx, sdk.Coins{coin(ki, amt)}, fee)
			}
			return
		})
		r.sk.transition()
		if cl != "" {
			return cl, true
		}
		after := h.snap()
		if new(big.Int).Sub(after.S, before.S).Cmp(sh.BigInt()) != 0 || new(big.Int).Sub(after.B[ki], before.B[ki]).Cmp(amt) != 0 {
			r.viol("returned_amount_matches_pool_delta", fmt.Sprintf("join %s shares %s: pool %v/%s -> %v/%s", amt, sh, strs(before.B), before.S, strs(after.B), after.S))
			ok = false
		}
		if cfg.Pool == "stable" {
			r.sk.vac("stable_single_join_binary_search")
			if new(big.Int).Mul(sh.BigInt(), before.B[ki]).Cmp(new(big.Int).Mul(amt, before.S)) > 0 {
				r.viol("stable_single_join_exceeds_cap", fmt.Sprintf("shares %s * A %s > in %s * S %s", sh, before.B[ki], amt, before.S))
				ok = false
			}
		}
		if !r.perShare(s, before, after, 1, nil, kind) {
			ok = false
		}
		r.account(s, before, after)
		r.sk.vac("seq_joins")

	case "joinAll":
		tokens := sdk.Coins{}
		offered := make([]*big.Int, len(before.B))
		for i := range before.B {
			amt := resolveSize(op.size, before.B[i])
			if i == 1 {
				amt = new(big.Int).Add(new(big.Int).Lsh(amt, 1), big.NewInt(1))
			}
			if amt.Sign() == 0 {
				return "skip:zero_amount", true
			}
			offered[i] = amt
			tokens = append(tokens, coin(i, amt))
		}
		var sh osmomath.Int
		cl := try(func() (e error) {
			if h.bal != nil {
				sh, e = h.bal.JoinPool(ctx, tokens, fee)
			} else {
				sh, e = h.st.JoinPool(ctx, tokens, fee)
			}
			return
		})
		r.sk.transition()
		if cl != "" {
			return cl, true
		}
		after := h.snap()
		if new(big.Int).Sub(after.S, before.S).Cmp(sh.BigInt()) != 0 {
			r.viol("returned_amount_matches_pool_delta", fmt.Sprintf("joinAll shares %s: S %s -> %s", sh, before.S, after.S))
			ok = false
		}
		for i := range offered {
			taken := new(big.Int).Sub(after.B[i], before.B[i])
			if taken.Cmp(offered[i]) > 0 || taken.Sign() < 0 {
				r.viol("join_takes_more_than_offered", fmt.Sprintf("asset %d taken %s offered %s", i, taken, offered[i]))
				ok = false
			}
		}
		if cfg.Pool == "stable" {
			// purely proportional
			c := Case{Pool: "seq"}
			_ = c
			for i := range before.B {
				taken := new(big.Int).Sub(after.B[i], before.B[i])
				l := new(big.Int).Mul(sh.BigInt(), before.B[i])
				if l.Cmp(new(big.Int).Mul(offered[i], before.S)) > 0 {
					r.viol("prop_join_mints_more_than_min_ratio", fmt.Sprintf("shares %s * B_%d %s > offered %s * S %s", sh, i, before.B[i], offered[i], before.S))
					ok = false
				}
				if new(big.Int).Mul(taken, before.S).Cmp(l) < 0 {
					r.viol("prop_join_takes_less_than_ratio", fmt.Sprintf("asset %d taken %s * S %s < shares %s * B %s", i, taken, before.S, sh, before.B[i]))
					ok = false
				}
			}
		}
		if !r.perShare(s, before, after, int64(len(offered)), nil, kind) {
			ok = false
		}
		r.account(s, before, after)
		r.sk.vac("seq_joins")

	case "exitSingle":
		kind := "exitSingleA"
		if s.shares.Sign() <= 0 {
			return "skip:no_shares", true
		}
		if h.bal != nil {
			// token a out = frac * actorShares * B_a / (S * w_a)
			wa := normW(cfg.Weights, ki)
			num := new(big.Int).Mul(s.shares, before.B[ki])
			q := rQuo(rInt(num), rMul(rInt(before.S), wa))
			switch op.size {
			case "1/3":
				q = rQuo(q, rI64(3))
			case "1/2":
				q = rQuo(q, rI64(2))
			default:
				q = rMul(q, big.NewRat(9, 10))
			}
			out := new(big.Int).Quo(q.Num(), q.Denom())
			if out.Sign() == 0 {
				return "skip:zero_amount", true
			}
			var shIn osmomath.Int
			cl := try(func() (e error) {
				shIn, e = h.bal.ExitSwapExactAmountOut(ctx, coin(ki, out), sdkInt(s.shares))
				return
			})
			r.sk.transition()
			if cl != "" {
				return cl, true
			}
			after := h.snap()
			if new(big.Int).Sub(before.S, after.S).Cmp(shIn.BigInt()) != 0 || new(big.Int).Sub(before.B[ki], after.B[ki]).Cmp(out) != 0 {
				r.viol("returned_amount_matches_pool_delta", fmt.Sprintf("exit out %s shares %s: pool %v/%s -> %v/%s", out, shIn, strs(before.B), before.S, strs(after.B), after.S))
				ok = false
			}
			units := new(big.Rat).SetFrac(big.NewInt(1), after.S)
			if !r.perShare(s, before, after, 1, units, kind) {
				ok = false
			}
			r.account(s, before, after)
		} else {
			// exit a fraction proportionally, swap everything received into a through the pool
			sh := exitFraction(op.size, s.shares)
			if sh.Sign() == 0 {
				return "skip:zero_amount", true
			}
			var coins sdk.Coins
			cl := try(func() (e error) {
				coins, e = h.st.ExitPool(ctx, sdkInt(sh), exitFee)
				return
			})
			r.sk.transition()
			if cl != "" {
				return cl, true
			}
			mid := h.snap()
			if !r.exitChecks(s, before, mid, sh, kind) {
				ok = false
			}
			r.account(s, before, mid)
			for _, cn := range coins {
				if cn.Denom == denoms[ki] {
					continue
				}
				j := 1
				for k, d := range denoms {
					if d == cn.Denom {
						j = k
					}
				}
				b2 := h.snap()
				cl := try(func() (e error) {
					_, e = h.st.SwapOutAmtGivenIn(ctx, sdk.Coins{cn}, denoms[ki], fee)
					return
				})
				r.sk.transition()
				if cl != "" {
					r.sk.reject(cl)
					continue
				}
				a2 := h.snap()
				_ = j
				kb := fullK(scaledRes(b2.B, cfg.Scaling))
				ka := fullK(scaledRes(a2.B, cfg.Scaling))
				if ka.Cmp(kb) < 0 {
					r.viol("stable_invariant_decreased", fmt.Sprintf("%s (swap leg): k fell: before B=%v after B=%v", kind, strs(b2.B), strs(a2.B)))
					ok = false
				}
				r.account(s, b2, a2)
			}
		}
		r.sk.vac("seq_exits")

	case "exitProp":
		if s.shares.Sign() <= 0 {
			return "skip:no_shares", true
		}
		sh := exitFraction(op.size, s.shares)
		if sh.Sign() == 0 {
			return "skip:zero_amount", true
		}
		cl := try(func() (e error) {
			if h.bal != nil {
				_, e = h.bal.ExitPool(ctx, sdkInt(sh), exitFee)
			} else {
				_, e = h.st.ExitPool(ctx, sdkInt(sh), exitFee)
			}
			return
		})
		r.sk.transition()
		if cl != "" {
			return cl, true
		}
		after := h.snap()
		if !r.exitChecks(s, before, after, sh, kind) {
			ok = false
		}
		r.account(s, before, after)
		r.sk.vac("seq_exits")
	}
	return "", ok
}

// exitChecks: proportional exit pays at most floor(sh*B/S) and the per-share invariant does not fall.
func (r *seqRun) exitChecks(s *seqState, before, after balSnap, sh *big.Int, what string) bool {
	ok := true
	if new(big.Int).Sub(before.S, after.S).Cmp(sh) != 0 {
		r.viol("exit_burns_wrong_share_count", fmt.Sprintf("S %s -> %s exiting %s", before.S, after.S, sh))
		ok = false
	}
	for i := range before.B {
		paid := new(big.Int).Sub(before.B[i], after.B[i])
		if new(big.Int).Mul(paid, before.S).Cmp(new(big.Int).Mul(sh, before.B[i])) > 0 || paid.Sign() < 0 {
			r.viol("exit_pays_more_than_proportional", fmt.Sprintf("%s: asset %d paid %s * S %s > shares %s * B %s", what, i, paid, before.S, sh, before.B[i]))
			ok = false
		}
	}
	if !r.perShare(s, before, after, 0, nil, what) {
		ok = false
	}
	return ok
}

// closing: the actor exits all its shares proportionally; then its net token vector must not dominate
// zero and must not be worth more at the pool's initial marginal prices, beyond the accumulated
// allowance.
func (r *seqRun) closing(s0 *seqState) {
	inClosing = true
	defer func() { inClosing = false }()
	s := s0.clone()
	cfg := r.cfg
	if s.shares.Sign() > 0 {
		before := s.h.snap()
		sh := new(big.Int).Set(s.shares)
		cl := try(func() (e error) {
			if s.h.bal != nil {
				_, e = s.h.bal.ExitPool(ctx, sdkInt(sh), dec(cfg.ExitFee))
			} else {
				_, e = s.h.st.ExitPool(ctx, sdkInt(sh), dec(cfg.ExitFee))
			}
			return
		})
		r.sk.transition()
		if cl != "" {
			r.sk.reject("closing:" + cl)
			return
		}
		after := s.h.snap()
		if !r.exitChecks(s, before, after, sh, "closingExit") {
			return
		}
		r.account(s, before, after)
	}
	r.sk.r.Traces++
	hasJoin, hasExit := false, false
	for _, o := range r.path {
		if isJoinKind(o.kind) {
			hasJoin = true
		}
		if isExitKind(o.kind) {
			hasExit = true
		}
	}
	if hasJoin && (hasExit || s0.shares.Sign() > 0) {
		r.sk.vac("sequences_with_join_and_exit")
	}
	// value of the net gain as a fraction of the initial pool value at the pool's initial marginal prices
	var gain, allow *big.Rat
	init := r.init
	if cfg.Pool == "bal" {
		gain = new(big.Rat)
		for i := range s.g {
			gain.Add(gain, rMul(normW(cfg.Weights, i), rQuo(rInt(s.g[i]), rInt(init.B[i]))))
		}
		allow = s.eps
	} else {
		x0 := scaledRes(init.B, cfg.Scaling)
		grad := gradFullK(x0)
		gain = new(big.Rat)
		for i := range s.g {
			gi := new(big.Rat).SetFrac(s.g[i], new(big.Int).SetUint64(cfg.Scaling[i]))
			gain.Add(gain, rMul(grad[i], gi))
		}
		d := int64(len(x0) + 2)
		gain.Quo(gain, rMul(rI64(d), fullK(x0)))
		allow = s.eps
	}
	if gain.Sign() > 0 {
		r.sk.maxExtra("max_seq_gain_fraction_of_pool_value_"+cfg.Pool, f64(fRat(gain)))
	}
	dominates := true
	anyPos := false
	for _, gi := range s.g {
		if gi.Sign() < 0 {
			dominates = false
		}
		if gi.Sign() > 0 {
			anyPos = true
		}
	}
	if gain.Cmp(allow) > 0 {
		a := "seq_value_gain_at_initial_prices"
		if dominates && anyPos {
			a = "seq_final_dominates_initial"
		}
		r.viol(a, fmt.Sprintf("after exiting everything the actor's net token vector is %v; at the pool's initial marginal prices that is +%s of the initial pool value, allowance %s (initial B=%v)",
			strs(s.g), fRat(gain).Text('g', 6), fRat(allow).Text('g', 6), strs(init.B)))
	} else if dominates && anyPos {
		r.sk.vac("obs_dominating_within_allowance")
	}
}

func (r *seqRun) dfs(s *seqState, depth int, alphabet []seqOp, expired func() bool) bool {
	if depth >= r.cfg.Depth {
		return true
	}
	for _, op := range alphabet {
		if expired() {
			return false
		}
		if !r.step(s, op, depth, alphabet, expired, true) {
			return false
		}
	}
	return true
}

// step applies op to a copy of s, evaluates the oracles there (when eval; otherwise the prefix is evaluated
// by another work item and is only re-executed here) and descends.
func (r *seqRun) step(s *seqState, op seqOp, depth int, alphabet []seqOp, expired func() bool, eval bool) bool {
	n := s.clone()
	r.path = append(r.path, op)
	defer func() { r.path = r.path[:len(r.path)-1] }()
	keep := r.sk
	if !eval {
		r.sk = &collector{r: core.NewResult(""), max: map[string]float64{}}
	}
	r.pending = nil
	class, ok := r.apply(n, op)
	if eval {
		r.flush()
	}
	r.pending = nil
	r.sk = keep
	if class != "" {
		if eval {
			r.sk.reject(class)
		}
		return true // a refused op leaves the state unchanged: the sequence equals its shorter form
	}
	if !ok {
		return true // an oracle fired here: futures of a violating state prove nothing
	}
	if eval {
		if seqSeen.Add(n.hash()) {
			r.sk.r.States++
		}
		r.closing(n)
		r.flush()
		if r.sk.r.Traces%4999 == 1 {
			r.sk.r.AddSample(r.sigOf(r.path))
		}
	}
	return r.dfs(n, depth+1, alphabet, expired)
}

func seqItems(thorough bool) []workItem {
	var items []workItem
	for _, cfg := range seqConfigs(thorough) {
		cfg := cfg
		alphabet := seqAlphabet(&cfg)
		for _, op1 := range alphabet {
			for i2, op2 := range alphabet {
				i2, op1, op2 := i2, op1, op2
				items = append(items, workItem{name: fmt.Sprintf("seq/%s/%s/%s", cfg.Name, op1, op2), run: func(sk *collector, expired func() bool) bool {
					s := newSeqState(&cfg)
					r := &seqRun{sk: sk, cfg: &cfg, init: s.h.snap()}
					// the level-1 node [op1] is evaluated by the item with op2 == first letter only; the other
					// items of the same op1 merely re-execute it
					n := s.clone()
					if cfg.Depth < 2 {
						if i2 != 0 {
							return true
						}
						return r.step(s, op1, 0, alphabet, expired, true)
					}
					if i2 == 0 {
						// evaluate [op1] without descending
						r1 := &seqRun{sk: sk, cfg: &seqConfig{Name: cfg.Name, Pool: cfg.Pool, Reserves: cfg.Reserves, Weights: cfg.Weights, Scaling: cfg.Scaling, Fee: cfg.Fee, ExitFee: cfg.ExitFee, Depth: 1}, init: r.init}
						r1.step(s, op1, 0, alphabet, expired, true)
					}
					r.path = []seqOp{op1}
					scratch := &collector{r: core.NewResult(""), max: map[string]float64{}}
					r.sk = scratch
					class, ok := r.apply(n, op1)
					r.pending = nil
					r.sk = sk
					if class != "" || !ok {
						return true
					}
					return r.step(n, op2, 1, alphabet, expired, true)
				}})
			}
		}
	}
	return items
}

func replaySeq(sk *collector, rp SeqReplay) {
	cfg := rp.Config
	s := newSeqState(&cfg)
	r := &seqRun{sk: sk, cfg: &cfg, init: s.h.snap()}
	for _, o := range rp.Ops {
		op := parseSeqOp(o)
		r.path = append(r.path, op)
		r.pending = nil
		class, ok := r.apply(s, op)
		r.flush()
		fmt.Printf("replay: %s -> class=%q ok=%v pool=%v/%s actor shares=%s g=%v\n", o, class, ok, strs(s.h.snap().B), s.h.snap().S, s.shares, strs(s.g))
		if class != "" {
			sk.reject(class)
			r.path = r.path[:len(r.path)-1]
			continue
		}
		sk.r.States++
		if !ok {
			return
		}
	}
	r.closing(s)
	r.flush()
}
