package main

import (
	"fmt"
	"math/big"
	"os"

	sdk "github.com/cosmos/cosmos-sdk/types"

	"github.com/osmosis-labs/osmosis/osmomath"
	"github.com/osmosis-labs/osmosis/v31/x/gamm/pool-models/stableswap"
)

var stableOps = []string{"swapOutGivenIn", "swapInGivenOut", "joinAllNoSwap", "joinAll", "exitProp", "joinSingle"}

func newStable(res []*big.Int, scaling []uint64, fee, exitFee string) (*stableswap.Pool, error) {
	liq := sdk.Coins{}
	for i := range res {
		liq = append(liq, coin(i, res[i]))
	}
	if exitFee == "" {
		exitFee = "0"
	}
	sf := append([]uint64{}, scaling...)
	p, err := stableswap.NewStableswapPool(1, stableswap.PoolParams{SwapFee: dec(fee), ExitFee: dec(exitFee)}, liq, sf, "", "")
	if err != nil {
		return nil, err
	}
	return &p, nil
}

func snapStable(p *stableswap.Pool) balSnap {
	liq := p.GetTotalPoolLiquidity(ctx)
	s := balSnap{S: p.GetTotalShares().BigInt()}
	for i := 0; i < p.NumAssets(); i++ {
		s.B = append(s.B, liq.AmountOf(denoms[i]).BigInt())
	}
	return s
}

// scaled reserves as exact rationals
func scaledRes(B []*big.Int, sf []uint64) []*big.Rat {
	out := make([]*big.Rat, len(B))
	for i := range B {
		out[i] = new(big.Rat).SetFrac(B[i], new(big.Int).SetUint64(sf[i]))
	}
	return out
}

// swapK = x_i x_j (x_i^2 + x_j^2 + w), w = sum of squares of the remaining scaled reserves — the
// invariant the solver preserves for a swap between i and j (the product of the other reserves is a
// constant factor of the full invariant during such a swap).
func swapK(x []*big.Rat, i, j int) *big.Rat {
	sum := new(big.Rat)
	for _, v := range x {
		sum.Add(sum, rMul(v, v))
	}
	return rMul(rMul(x[i], x[j]), sum)
}

// fullK = (prod x)(sum x^2), homogeneous of degree n+2.
func fullK(x []*big.Rat) *big.Rat {
	sum := new(big.Rat)
	prod := big.NewRat(1, 1)
	for _, v := range x {
		sum.Add(sum, rMul(v, v))
		prod.Mul(prod, v)
	}
	return rMul(prod, sum)
}

// gradFullK returns the gradient of fullK at x (the pool's marginal prices up to a common factor).
func gradFullK(x []*big.Rat) []*big.Rat {
	sum := new(big.Rat)
	for _, v := range x {
		sum.Add(sum, rMul(v, v))
	}
	g := make([]*big.Rat, len(x))
	for i := range x {
		prodOthers := big.NewRat(1, 1)
		for j := range x {
			if j != i {
				prodOthers.Mul(prodOthers, x[j])
			}
		}
		// d/dx_i (x_i * P_others * (sum)) = P_others*(sum + 2 x_i^2)
		g[i] = rMul(prodOthers, rAdd(sum, rMul(rI64(2), rMul(x[i], x[i]))))
	}
	return g
}

func ratPowInt(x *big.Int, n int) *big.Int {
	return new(big.Int).Exp(x, big.NewInt(int64(n)), nil)
}

// stablePerShareCmp compares K^(1/d)/S after with before exactly (cmp < 0: it fell) and gives the relative
// fall as a float for reporting.
func stablePerShareCmp(before, after balSnap, sf []uint64) (cmp int, fall float64) {
	d := len(before.B) + 2
	kb, ka := fullK(scaledRes(before.B, sf)), fullK(scaledRes(after.B, sf))
	// ka * Sb^d  vs  kb * Sa^d
	l := rMul(ka, rInt(ratPowInt(before.S, d)))
	r := rMul(kb, rInt(ratPowInt(after.S, d)))
	cmp = l.Cmp(r)
	if cmp < 0 {
		q := fRat(rQuo(l, r)) // (per-share after / before)^d < 1
		root := expF(nf().Quo(lnF(q), fI64(int64(d))))
		fall = f64(nf().Sub(fI64(1), root))
	}
	return
}

// stablePerShareWithin reports whether K^(1/d)/S after >= (1-allow) * before, exactly:
// ka*Sb^d >= (1-allow)^d * kb*Sa^d.
func stablePerShareWithin(before, after balSnap, sf []uint64, allow *big.Rat) bool {
	d := len(before.B) + 2
	kb, ka := fullK(scaledRes(before.B, sf)), fullK(scaledRes(after.B, sf))
	l := rMul(ka, rInt(ratPowInt(before.S, d)))
	r := rMul(kb, rInt(ratPowInt(after.S, d)))
	om := rSub(rOne, allow)
	if om.Sign() <= 0 {
		return true
	}
	f := big.NewRat(1, 1)
	for i := 0; i < d; i++ {
		f.Mul(f, om)
	}
	return l.Cmp(rMul(f, r)) >= 0
}

// stableSingleJoinAllowance: the share count of a stableswap single-asset join of denom a is chosen by
// BinarySearchSingleAssetJoin so that exiting the new shares and swapping everything back yields at most
// the amount joined and at least that amount minus 1 (documented additive tolerance). That estimate
// truncates the exited amount of every asset (< 1 unit each) and the output of every swap leg (< 1 unit of
// a each). Explicitly counted user-favourable rounding per join: 1 unit of every other asset and
// (1 tolerance + 1 exit + (n-1) swap legs) units of a. Returned as a fraction of the pool value
// (grad K . units / (d K)) at the given state.
func stableSingleJoinAllowance(B []*big.Int, sf []uint64, a int) *big.Rat {
	x := scaledRes(B, sf)
	g := gradFullK(x)
	n := len(B)
	sum := new(big.Rat)
	for j := range B {
		units := int64(1)
		if j == a {
			units = int64(2 + (n - 1))
		}
		u := new(big.Rat).SetFrac(big.NewInt(units), new(big.Int).SetUint64(sf[j]))
		sum.Add(sum, rMul(g[j], u))
	}
	return rQuo(sum, rMul(rI64(int64(n+2)), fullK(x)))
}

var debugObs = os.Getenv("C04_DEBUG_OBS") != ""

// evalStable evaluates one stableswap lattice point on a fresh pool.
func evalStable(sk sink, c Case) {
	res := ints(c.Reserves)
	p, err := newStable(res, c.Scaling, c.Fee, c.ExitFee)
	if err != nil {
		sk.reject(errClass("newpool", err))
		return
	}
	sf := c.Scaling
	fee := dec(c.Fee)
	feeR := ratOf(c.Fee)
	before := snapStable(p)
	pi, pj := c.pos()
	A, B, S := before.B[pi], before.B[pj], before.S
	if c.Fee == "0" {
		sk.vac("zero_fee_cases")
	}
	xs := scaledRes(before.B, sf)
	{
		mx, mn := xs[pi], xs[pj]
		if mx.Cmp(mn) < 0 {
			mx, mn = mn, mx
		}
		if rQuo(mx, mn).Cmp(rInt(mustInts("1000000000000000000000000")[0])) >= 0 {
			sk.vac("stable_unbalanced_ge_1e24_evaluated")
		}
	}

	switch c.Op {
	case "swapOutGivenIn":
		in := resolveSize(c.Size, A)
		if in.Sign() == 0 {
			sk.reject("skip:zero_amount")
			return
		}
		// domain limit: amm input (scaled, after fee) >= scaled reserve of the input token
		ammIn := rMul(rQuo(rInt(in), rInt(new(big.Int).SetUint64(sf[pi]))), rSub(rOne, feeR))
		mustFail := ammIn.Cmp(xs[pi]) >= 0
		var calc, out sdk.Coin
		cl1 := try(func() (e error) {
			calc, e = p.CalcOutAmtGivenIn(ctx, sdk.Coins{coin(pi, in)}, denoms[pj], fee)
			return
		})
		sk.transition()
		cl := try(func() (e error) {
			out, e = p.SwapOutAmtGivenIn(ctx, sdk.Coins{coin(pi, in)}, denoms[pj], fee)
			return
		})
		sk.transition()
		if cl != "" {
			sk.reject(cl)
			if mustFail {
				sk.vac("solver_domain_limit_failures")
			}
			return
		}
		if mustFail {
			sk.violation("stable_domain_limit_answered", c.sig(), fmt.Sprintf("%s: input %s (after fee, scaled %s) >= input reserve must fail, answered out=%s", c.sig(), in, ammIn.FloatString(3), out.Amount), c)
			return
		}
		if cl1 != "" || !calc.Amount.Equal(out.Amount) {
			sk.violation("calc_matches_exec", c.sig(), fmt.Sprintf("%s: Calc %v (%s) vs Swap %v", c.sig(), calc, cl1, out), c)
		}
		sk.vac("stable_binary_search_swaps")
		stableSwapCheck(sk, c, before, snapStable(p), sf)

	case "swapInGivenOut":
		out := resolveSize(c.Size, B)
		if out.Sign() == 0 {
			sk.reject("skip:zero_amount")
			return
		}
		mustFail := out.Cmp(B) >= 0
		var calc, in sdk.Coin
		cl1 := try(func() (e error) {
			calc, e = p.CalcInAmtGivenOut(ctx, sdk.Coins{coin(pj, out)}, denoms[pi], fee)
			return
		})
		sk.transition()
		cl := try(func() (e error) {
			in, e = p.SwapInAmtGivenOut(ctx, sdk.Coins{coin(pj, out)}, denoms[pi], fee)
			return
		})
		sk.transition()
		if cl != "" {
			sk.reject(cl)
			if mustFail {
				sk.vac("solver_domain_limit_failures")
			}
			return
		}
		if mustFail {
			sk.violation("stable_domain_limit_answered", c.sig(), fmt.Sprintf("%s: output %s >= output reserve must fail, answered in=%s", c.sig(), out, in.Amount), c)
			return
		}
		if cl1 != "" || !calc.Amount.Equal(in.Amount) {
			sk.violation("calc_matches_exec", c.sig(), fmt.Sprintf("%s: Calc %v (%s) vs Swap %v", c.sig(), calc, cl1, in), c)
		}
		sk.vac("stable_binary_search_swaps")
		stableSwapCheck(sk, c, before, snapStable(p), sf)

	case "joinAllNoSwap", "joinAll":
		tokens := sdk.Coins{}
		offered := make([]*big.Int, len(before.B))
		for i := range before.B {
			amt := resolveSize(c.Size, before.B[i])
			if i == 1 {
				if c.Op == "joinAll" {
					amt = new(big.Int).Add(new(big.Int).Lsh(amt, 1), big.NewInt(1))
				} else {
					amt = new(big.Int).Add(amt, big.NewInt(1))
				}
			}
			if amt.Sign() == 0 {
				sk.reject("skip:zero_amount")
				return
			}
			offered[i] = amt
			tokens = append(tokens, coin(i, amt))
		}
		var shares osmomath.Int
		cl := try(func() (e error) {
			if c.Op == "joinAllNoSwap" {
				shares, e = p.JoinPoolNoSwap(ctx, tokens, fee)
			} else {
				shares, e = p.JoinPool(ctx, tokens, fee)
			}
			return
		})
		sk.transition()
		if cl != "" {
			sk.reject(cl)
			return
		}
		after := snapStable(p)
		propJoinCheck(sk, c, "stable", before.B, before.S, after.B, offered, shares.BigInt())
		if cmp, _ := stablePerShareCmp(before, after, sf); cmp < 0 {
			sk.violation("stable_pershare_invariant", c.sig(), fmt.Sprintf("%s: K^(1/d)/S fell on a proportional join: before %v/%s after %v/%s", c.sig(), strs(before.B), before.S, strs(after.B), after.S), c)
		}

	case "exitProp":
		sh := resolveSize(c.Size, S)
		if sh.Sign() == 0 {
			sk.reject("skip:zero_amount")
			return
		}
		exitFee := dec("0")
		if c.ExitFee != "" {
			exitFee = dec(c.ExitFee)
		}
		var calc, outCoins sdk.Coins
		cl1 := try(func() (e error) {
			calc, e = p.CalcExitPoolCoinsFromShares(ctx, sdkInt(sh), exitFee)
			return
		})
		sk.transition()
		cl := try(func() (e error) {
			outCoins, e = p.ExitPool(ctx, sdkInt(sh), exitFee)
			return
		})
		sk.transition()
		if cl != "" {
			sk.reject(cl)
			if sh.Cmp(S) >= 0 {
				sk.vac("exit_all_shares_refused")
			}
			return
		}
		if sh.Cmp(S) >= 0 {
			sk.violation("exit_ge_total_shares_answered", c.sig(), fmt.Sprintf("%s: exiting %s of %s shares answered %v", c.sig(), sh, S, outCoins), c)
			return
		}
		if cl1 != "" || !calc.Equal(outCoins) {
			sk.violation("calc_matches_exec", c.sig(), fmt.Sprintf("%s: Calc %v (%s) vs Exit %v", c.sig(), calc, cl1, outCoins), c)
		}
		after := snapStable(p)
		propExitCheck(sk, c, before.B, before.S, after.B, after.S, sh)
		if cmp, _ := stablePerShareCmp(before, after, sf); cmp < 0 {
			sk.violation("stable_pershare_invariant", c.sig(), fmt.Sprintf("%s: K^(1/d)/S fell on a proportional exit: before %v/%s after %v/%s", c.sig(), strs(before.B), before.S, strs(after.B), after.S), c)
		}

	case "joinSingle":
		in := resolveSize(c.Size, A)
		if in.Sign() == 0 {
			sk.reject("skip:zero_amount")
			return
		}
		var shares osmomath.Int
		cl := try(func() (e error) {
			shares, e = p.JoinPool(ctx, sdk.Coins{coin(pi, in)}, fee)
			return
		})
		sk.transition()
		if cl != "" {
			sk.reject(cl)
			return
		}
		after := snapStable(p)
		if in.Cmp(big.NewInt(1)) > 0 {
			sk.vac("stable_single_join_binary_search")
		}
		// cap: shares <= S * in / B_a
		if new(big.Int).Mul(shares.BigInt(), A).Cmp(new(big.Int).Mul(in, S)) > 0 {
			sk.violation("stable_single_join_exceeds_cap", c.sig(), fmt.Sprintf("%s: shares %s * A %s > in %s * S %s", c.sig(), shares, A, in, S), c)
		}
		// observation (not asserted: the statement makes no per-operation claim for stableswap joins): movement
		// of K^(1/d)/S, also relative to the explicitly counted rounding units of the share search
		if cmp, fall := stablePerShareCmp(before, after, sf); cmp < 0 {
			allow := stableSingleJoinAllowance(before.B, sf, pi)
			if a2 := stableSingleJoinAllowance(after.B, sf, pi); a2.Cmp(allow) > 0 {
				allow = a2
			}
			sk.maxExtra("max_stable_single_join_pershare_fall", fall)
			sk.maxExtra("max_stable_single_join_fall_over_unit_allowance", fall/f64(fRat(allow)))
			sk.vac("obs_stable_single_join_pershare_fell")
			if debugObs {
				fmt.Fprintf(os.Stderr, "OBS %s fall=%.3g allow=%.3g in=%s shares=%s before=%v/%s after=%v/%s\n", c.sig(), fall, f64(fRat(allow)), in, shares, strs(before.B), before.S, strs(after.B), after.S)
			}
		}
		// round trip: exit the minted shares, swap everything back to a at zero spread factor: must not
		// return more than was paid in
		if shares.IsPositive() {
			q := p.Copy()
			var back *big.Int
			cl := try(func() error {
				coins, e := q.ExitPool(ctx, shares, dec("0"))
				if e != nil {
					return e
				}
				back = coins.AmountOf(denoms[pi]).BigInt()
				for _, cn := range coins {
					if cn.Denom == denoms[pi] {
						continue
					}
					o, e := q.SwapOutAmtGivenIn(ctx, sdk.Coins{cn}, denoms[pi], dec("0"))
					if e != nil {
						// nothing obtainable for this leg: not a gain
						continue
					}
					back = new(big.Int).Add(back, o.Amount.BigInt())
				}
				return nil
			})
			sk.transition()
			if cl == "" && back.Cmp(in) > 0 {
				sk.violation("stable_single_join_round_trip_gain", c.sig(), fmt.Sprintf("%s: joined %s for %s shares; exiting them and swapping back at zero fee returns %s > %s", c.sig(), in, shares, back, in), c)
			}
		}
	case "exitSingleComposite":
		// the keeper's ExitSwapShareAmountIn at pool level: exit proportionally, swap every other asset
		// received into denom pi through the pool
		sh := resolveSize(c.Size, S)
		if sh.Sign() == 0 {
			sk.reject("skip:zero_amount")
			return
		}
		var coins sdk.Coins
		cl := try(func() (e error) {
			coins, e = p.ExitPool(ctx, sdkInt(sh), dec("0"))
			return
		})
		sk.transition()
		if cl != "" {
			sk.reject(cl)
			if sh.Cmp(S) >= 0 {
				sk.vac("exit_all_shares_refused")
			}
			return
		}
		mid := snapStable(p)
		propExitCheck(sk, c, before.B, before.S, mid.B, mid.S, sh)
		for _, cn := range coins {
			if cn.Denom == denoms[pi] {
				continue
			}
			b2 := snapStable(p)
			cl := try(func() (e error) {
				_, e = p.SwapOutAmtGivenIn(ctx, sdk.Coins{cn}, denoms[pi], fee)
				return
			})
			sk.transition()
			if cl != "" {
				sk.reject(cl)
				continue
			}
			a2 := snapStable(p)
			if fullK(scaledRes(a2.B, sf)).Cmp(fullK(scaledRes(b2.B, sf))) < 0 {
				sk.violation("stable_invariant_decreased", c.sig(), fmt.Sprintf("%s: swap leg %s -> %s: k fell: before B=%v after B=%v (scaling %v)", c.sig(), cn.Denom, denoms[pi], strs(b2.B), strs(a2.B), sf), c)
			}
			sk.vac("stable_binary_search_swaps")
		}
	default:
		panic("unknown stableswap op " + c.Op)
	}
}

// stableSwapCheck: exact, no tolerance: k_after >= k_before for k = x y (x^2 + y^2 + w) on reserve/scalingFactor.
func stableSwapCheck(sk sink, c Case, before, after balSnap, sf []uint64) {
	// full multi-asset invariant k = (prod r_i)(sum r_i^2) on reserve/scalingFactor, exact
	kb := fullK(scaledRes(before.B, sf))
	ka := fullK(scaledRes(after.B, sf))
	for t := range before.B {
		pi, pj := c.pos()
		if t != pi && t != pj && before.B[t].Cmp(after.B[t]) != 0 {
			sk.violation("swap_changed_other_reserve", c.sig(), fmt.Sprintf("%s: reserve %d changed %s -> %s", c.sig(), t, before.B[t], after.B[t]), c)
		}
	}
	if ka.Cmp(kb) < 0 {
		rel := f64(fRat(rQuo(rSub(kb, ka), kb)))
		sk.violation("stable_invariant_decreased", c.sig(),
			fmt.Sprintf("%s: k fell by %.3g relative: before B=%v after B=%v (scaling %v)", c.sig(), rel, strs(before.B), strs(after.B), sf), c)
	}
	if after.S.Cmp(before.S) != 0 {
		sk.violation("swap_changed_shares", c.sig(), c.sig(), c)
	}
}
