package main

// Reference arithmetic for C04: 640-bit big.Float exp / ln / pow written here (no dependency on the
// code under test), plus big.Rat helpers. pow(b,e) = exp(e*ln b); ln by argument reduction to
// [1/sqrt2, sqrt2) and the atanh series, exp by reduction modulo ln2, scaling by 2^-16 and the
// Taylor series. Self-tested at start-up (selfTestRef) against identities whose exact value is
// rational; absolute/relative error is far below 2^-550, i.e. > 140 decimal digits below the 1e-8
// precision under test.

import (
	"fmt"
	"math/big"
)

const refPrec = 640

func nf() *big.Float { return new(big.Float).SetPrec(refPrec) }

func fInt(i *big.Int) *big.Float { return nf().SetInt(i) }

func fRat(r *big.Rat) *big.Float { return nf().SetRat(r) }

func fI64(i int64) *big.Float { return nf().SetInt64(i) }

var refLn2 *big.Float

func init() {
	// ln 2 = 2 atanh(1/3)
	third := nf().Quo(fI64(1), fI64(3))
	refLn2 = nf().Mul(fI64(2), atanhSeries(third))
}

// atanhSeries: z + z^3/3 + z^5/5 + ... for |z| <= 1/3.
func atanhSeries(z *big.Float) *big.Float {
	sum := nf().Set(z)
	z2 := nf().Mul(z, z)
	pw := nf().Set(z)
	if z.Sign() == 0 {
		return sum
	}
	for k := int64(3); ; k += 2 {
		pw.Mul(pw, z2)
		t := nf().Quo(pw, fI64(k))
		if t.Sign() == 0 {
			break
		}
		// stop when the term no longer changes the sum at working precision
		if t.MantExp(nil) < sum.MantExp(nil)-refPrec-8 {
			break
		}
		sum.Add(sum, t)
		if k > 5000 {
			panic("atanhSeries: no convergence")
		}
	}
	return sum
}

var sqrtHalf = nf().Sqrt(nf().Quo(fI64(1), fI64(2)))

// lnF returns ln x for x > 0.
func lnF(x *big.Float) *big.Float {
	if x.Sign() <= 0 {
		panic("lnF: non-positive argument")
	}
	m := nf()
	e := x.MantExp(m) // x = m * 2^e, m in [0.5,1)
	if m.Cmp(sqrtHalf) < 0 {
		m.Mul(m, fI64(2))
		e--
	}
	// m in [0.7071, 1.4143): z = (m-1)/(m+1), |z| < 0.1716
	z := nf().Quo(nf().Sub(m, fI64(1)), nf().Add(m, fI64(1)))
	r := nf().Mul(fI64(2), atanhSeries(z))
	if e != 0 {
		r.Add(r, nf().Mul(fI64(int64(e)), refLn2))
	}
	return r
}

// expF returns e^x.
func expF(x *big.Float) *big.Float {
	if x.Sign() == 0 {
		return fI64(1)
	}
	// k = round(x / ln2)
	q := nf().Quo(x, refLn2)
	half := nf().Quo(fI64(1), fI64(2))
	if q.Sign() >= 0 {
		q.Add(q, half)
	} else {
		q.Sub(q, half)
	}
	kBig, _ := q.Int(nil) // truncation toward zero of q±0.5 = round half away from zero
	if !kBig.IsInt64() || kBig.Int64() > 1<<30 || kBig.Int64() < -(1<<30) {
		panic("expF: exponent out of range")
	}
	k := kBig.Int64()
	r := nf().Sub(x, nf().Mul(fI64(k), refLn2))
	const s = 16
	r.SetMantExp(r, -s)
	// Taylor
	sum := fI64(1)
	term := fI64(1)
	for n := int64(1); ; n++ {
		term.Mul(term, r)
		term.Quo(term, fI64(n))
		if term.Sign() == 0 || term.MantExp(nil) < -refPrec-8 {
			break
		}
		sum.Add(sum, term)
		if n > 2000 {
			panic("expF: no convergence")
		}
	}
	for i := 0; i < s; i++ {
		sum.Mul(sum, sum)
	}
	return sum.SetMantExp(sum, int(k))
}

// powRat returns base^exp for positive rational base and rational exponent.
func powRat(base, exp *big.Rat) *big.Float {
	if base.Sign() <= 0 {
		panic("powRat: non-positive base")
	}
	if exp.Sign() == 0 {
		return fI64(1)
	}
	l := lnF(fRat(base))
	return expF(nf().Mul(l, fRat(exp)))
}

func absF(x *big.Float) *big.Float { return nf().Abs(x) }

func f64(x *big.Float) float64 { v, _ := x.Float64(); return v }

// selfTestRef cross-validates the reference functions against identities with rational values.
func selfTestRef() error {
	eps := nf().SetMantExp(fI64(1), -560)
	closeTo := func(a, b *big.Float) bool {
		d := absF(nf().Sub(a, b))
		sc := absF(b)
		if sc.Cmp(fI64(1)) < 0 {
			sc = fI64(1)
		}
		return d.Cmp(nf().Mul(eps, sc)) <= 0
	}
	// ln(exp(x)) = x
	for _, s := range []string{"0.5", "-0.5", "1e-30", "-1e-30", "37.25", "-81.125", "0.000000012345"} {
		x, _, err := big.ParseFloat(s, 10, refPrec, big.ToNearestEven)
		if err != nil {
			return err
		}
		if !closeTo(lnF(expF(x)), x) {
			return fmt.Errorf("ref self-test: ln(exp(%s)) != %s", s, s)
		}
	}
	// (p^(1/q))^q = p
	for _, pq := range [][2]int64{{2, 2}, {3, 3}, {7, 5}, {10, 9}, {1999999, 99}} {
		r := powRat(big.NewRat(pq[0], 1), big.NewRat(1, pq[1]))
		acc := fI64(1)
		for i := int64(0); i < pq[1]; i++ {
			acc.Mul(acc, r)
		}
		if !closeTo(acc, fI64(pq[0])) {
			return fmt.Errorf("ref self-test: (%d^(1/%d))^%d != %d", pq[0], pq[1], pq[1], pq[0])
		}
	}
	// sqrt agreement with big.Float.Sqrt
	for _, p := range []int64{2, 3, 5, 1000003} {
		a := powRat(big.NewRat(p, 7), big.NewRat(1, 2))
		b := nf().Sqrt(fRat(big.NewRat(p, 7)))
		if !closeTo(a, b) {
			return fmt.Errorf("ref self-test: pow(%d/7,1/2) != sqrt", p)
		}
	}
	// integer powers: (3/2)^5 = 243/32 ; (1/1.9)^99 via repeated multiplication
	if !closeTo(powRat(big.NewRat(3, 2), big.NewRat(5, 1)), fRat(big.NewRat(243, 32))) {
		return fmt.Errorf("ref self-test: (3/2)^5")
	}
	b := big.NewRat(10, 19)
	acc := big.NewRat(1, 1)
	for i := 0; i < 99; i++ {
		acc.Mul(acc, b)
	}
	got := powRat(b, big.NewRat(99, 1))
	d := absF(nf().Sub(got, fRat(acc)))
	if d.Cmp(nf().Mul(eps, fRat(acc))) > 0 {
		return fmt.Errorf("ref self-test: (10/19)^99 relative error")
	}
	// ln(1+tiny) ~ tiny - tiny^2/2
	tiny := nf().SetMantExp(fI64(1), -200)
	l := lnF(nf().Add(fI64(1), tiny))
	want := nf().Sub(tiny, nf().Quo(nf().Mul(tiny, tiny), fI64(2)))
	dd := absF(nf().Sub(l, want))
	if dd.Cmp(nf().SetMantExp(fI64(1), -590)) > 0 {
		return fmt.Errorf("ref self-test: ln(1+2^-200)")
	}
	return nil
}
