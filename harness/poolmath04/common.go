package main

import (
	"fmt"
	"math/big"
	"regexp"
	"strings"

	storetypes "cosmossdk.io/store/types"
	sdk "github.com/cosmos/cosmos-sdk/types"

	"github.com/osmosis-labs/osmosis/osmomath"
)

// ---------------------------------------------------------------------------------------------
// lattice generators (ordered simplest-first)

var reserveLattice = mustInts("1", "7", "1000", "1000000", "1000000001", "1000000000000",
	"1000000000000000000", "1000000000000000000000000", "1000000000000000000000000000000")

// weight pairs of the design (1:1,1:2,2:1,1:9,1:99,1:(2^20-1)) plus the mirrored unbalanced pairs so
// that, with the trade always going a->b, both the fractional exponent w/W' and its reciprocal occur.
var weightPairs = [][]int64{{1, 1}, {1, 2}, {2, 1}, {1, 9}, {9, 1}, {1, 99}, {99, 1}, {1, 1<<20 - 1}, {1<<20 - 1, 1}}

// multi-asset weight vectors (thorough); asset a,b are the first two
var weightVectors = [][]int64{{1, 2, 3}, {1, 1, 98}, {5, 4, 3, 2, 1}, {1, 1, 1, 1, 1, 1, 1, 93}, {8, 7, 6, 5, 4, 3, 2, 1}}

// reserves of the additional assets (index 2..7)
var extraReserves = mustInts("1000", "1000000000000", "1000000000000000000000000", "7", "1000000", "1000000000000000000")

var feeLattice = []string{"0", "0.0001", "0.003", "0.1"}

var sizeLattice = []string{"1u", "1e-9", "1e-6", "1e-3", "0.1", "1/3", "0.49", "0.5-1u", "0.5", "0.9", "1", "1.5"}

var scalingLattice = []uint64{1, 10, 1000000, 1000000000000}

func mustInts(ss ...string) []*big.Int {
	out := make([]*big.Int, len(ss))
	for i, s := range ss {
		v, ok := new(big.Int).SetString(s, 10)
		if !ok {
			panic("bad int " + s)
		}
		out[i] = v
	}
	return out
}

// resolveSize turns a named trade size into an amount relative to reserve r.
func resolveSize(name string, r *big.Int) *big.Int {
	mulDiv := func(n, d int64) *big.Int {
		v := new(big.Int).Mul(r, big.NewInt(n))
		return v.Quo(v, big.NewInt(d))
	}
	switch name {
	case "1u":
		return big.NewInt(1)
	case "1e-9":
		return mulDiv(1, 1000000000)
	case "1e-6":
		return mulDiv(1, 1000000)
	case "1e-3":
		return mulDiv(1, 1000)
	case "1e-2":
		return mulDiv(1, 100)
	case "0.1":
		return mulDiv(1, 10)
	case "0.3":
		return mulDiv(3, 10)
	case "1/3":
		return mulDiv(1, 3)
	case "0.49":
		return mulDiv(49, 100)
	case "0.5-1u":
		// largest x with 2x < r
		v := new(big.Int).Add(r, big.NewInt(1))
		v.Quo(v, big.NewInt(2)) // ceil(r/2)
		return v.Sub(v, big.NewInt(1))
	case "0.5":
		// smallest x with 2x >= r
		v := new(big.Int).Add(r, big.NewInt(1))
		return v.Quo(v, big.NewInt(2))
	case "0.9":
		return mulDiv(9, 10)
	case "1":
		return new(big.Int).Set(r)
	case "1.5":
		return mulDiv(3, 2)
	}
	panic("unknown size " + name)
}

// ---------------------------------------------------------------------------------------------
// calling real code

var ctx = sdk.Context{}.WithGasMeter(storetypes.NewInfiniteGasMeter())

var denoms = []string{"aaa", "bbb", "ccc", "ddd", "eee", "fff", "ggg", "hhh"}

var numRe = regexp.MustCompile(`[0-9][0-9.,e+\-]*`)

// errClass normalises an error / panic message into a stable class string.
func errClass(prefix string, v interface{}) string {
	s := fmt.Sprint(v)
	s = numRe.ReplaceAllString(s, "#")
	for _, d := range denoms {
		s = strings.ReplaceAll(s, d, "D")
	}
	if len(s) > 90 {
		s = s[:90]
	}
	return prefix + ":" + s
}

// try runs fn, turning a panic into a distinguished failure. class == "" on success.
func try(fn func() error) (class string) {
	defer func() {
		if r := recover(); r != nil {
			class = errClass("panic", r)
		}
	}()
	if err := fn(); err != nil {
		return errClass("err", err)
	}
	return ""
}

func sdkInt(b *big.Int) osmomath.Int { return osmomath.NewIntFromBigInt(b) }

func coin(i int, amt *big.Int) sdk.Coin { return sdk.Coin{Denom: denoms[i], Amount: sdkInt(amt)} }

func dec(s string) osmomath.Dec { return osmomath.MustNewDecFromStr(s) }

func ratOf(s string) *big.Rat {
	r, ok := new(big.Rat).SetString(s)
	if !ok {
		panic("bad rat " + s)
	}
	return r
}

func rInt(i *big.Int) *big.Rat { return new(big.Rat).SetInt(i) }

func rI64(i int64) *big.Rat { return big.NewRat(i, 1) }

var rOne = big.NewRat(1, 1)

func rSub(a, b *big.Rat) *big.Rat { return new(big.Rat).Sub(a, b) }
func rAdd(a, b *big.Rat) *big.Rat { return new(big.Rat).Add(a, b) }
func rMul(a, b *big.Rat) *big.Rat { return new(big.Rat).Mul(a, b) }
func rQuo(a, b *big.Rat) *big.Rat { return new(big.Rat).Quo(a, b) }

func strs(v []*big.Int) []string {
	out := make([]string, len(v))
	for i, x := range v {
		out[i] = x.String()
	}
	return out
}

func ints(ss []string) []*big.Int { return mustInts(ss...) }

func cloneInts(v []*big.Int) []*big.Int {
	out := make([]*big.Int, len(v))
	for i, x := range v {
		out[i] = new(big.Int).Set(x)
	}
	return out
}

// short decimal rendering for signatures: 10^k as 1e<k>, otherwise literal
func shortInt(x *big.Int) string {
	s := x.String()
	if len(s) > 4 && strings.TrimRight(s, "0") == "1" {
		return fmt.Sprintf("1e%d", len(s)-1)
	}
	return s
}

func shortInts(v []*big.Int) string {
	p := make([]string, len(v))
	for i, x := range v {
		p[i] = shortInt(x)
	}
	return strings.Join(p, ":")
}

func joinI64(v []int64) string {
	p := make([]string, len(v))
	for i, x := range v {
		p[i] = fmt.Sprint(x)
	}
	return strings.Join(p, ":")
}

func joinU64(v []uint64) string {
	p := make([]string, len(v))
	for i, x := range v {
		p[i] = shortInt(new(big.Int).SetUint64(x))
	}
	return strings.Join(p, ":")
}

// ---------------------------------------------------------------------------------------------
// documented precision

// powPrec is osmomath's documented power precision, read from the library at run time
// (osmomath.GetPowPrecision()), so a change of the constant changes the implementation, not the oracle:
// the oracle pins the documented value 1e-8 below and cross-checks it.
var powPrecDoc = big.NewRat(1, 100000000) // "0.00000001" — documented constant

// tolerance multiplier c: one Pow (<= powPrecision) and one further multiplication/division by a
// factor <= 1/(1-0.1) (spread factor) or by an integer power carried exactly
var tolC = big.NewRat(2, 1)
