package main

import (
	"fmt"
	"math/big"
	"time"

	sdk "github.com/cosmos/cosmos-sdk/types"

	"github.com/osmosis-labs/osmosis/osmomath"
	"github.com/osmosis-labs/osmosis/v31/x/gamm/pool-models/balancer"
)

// Case is one lattice point of part 1 (also the replay payload).
type Case struct {
	Part     int      `json:"part"`
	Pool     string   `json:"pool"` // "bal" | "stable"
	Op       string   `json:"op"`
	Reserves []string `json:"reserves"`
	Weights  []int64  `json:"weights,omitempty"`
	Scaling  []uint64 `json:"scaling,omitempty"`
	Fee      string   `json:"fee"`
	ExitFee  string   `json:"exit_fee,omitempty"`
	Size     string   `json:"size"`
	// denom positions the operation acts on: swaps go I -> J, single-asset operations act on I.
	// Both zero means the default (0 -> 1), which keeps the signatures of the two-asset lattice unchanged.
	I int `json:"i,omitempty"`
	J int `json:"j,omitempty"`
	// smooth weight change (LBP): Weights are the initial weights, Target the target weights; the pool is poked
	// at each of Poke (permille of the change duration after its start, ascending) before the operation, which
	// then runs on the weights in force at the last poke.
	Target []int64 `json:"target,omitempty"`
	Poke   []int64 `json:"poke,omitempty"`
}

// pos returns the effective denom positions.
func (c Case) pos() (int, int) {
	if c.I == 0 && c.J == 0 {
		return 0, 1
	}
	return c.I, c.J
}

func isPairOp(op string) bool { return op == "swapOutGivenIn" || op == "swapInGivenOut" }
func isSingleOp(op string) bool {
	switch op {
	case "joinSingleTokenIn", "joinSingleSharesOut", "joinSingleSharesOutTrunc", "exitSingleTokenOut", "joinSingle", "exitSingleComposite":
		return true
	}
	return false
}

func (c Case) sig() string {
	res := shortInts(ints(c.Reserves))
	ws := joinI64(c.Weights)
	if c.Pool == "stable" {
		ws = joinU64(c.Scaling)
	}
	fee := c.Fee
	if c.ExitFee != "" && c.ExitFee != "0" {
		fee += "+x" + c.ExitFee
	}
	if len(c.Target) > 0 {
		ws += "->" + joinI64(c.Target) + "@" + joinI64(c.Poke)
	}
	sig := fmt.Sprintf("%s|%s|%s|%s|%s|%s", c.Pool, c.Op, res, ws, fee, c.Size)
	i, j := c.pos()
	if isPairOp(c.Op) && (i != 0 || j != 1) {
		sig += fmt.Sprintf("|%d>%d", i, j)
	} else if isSingleOp(c.Op) && i != 0 {
		sig += fmt.Sprintf("|@%d", i)
	}
	return sig
}

var balOps = []string{"swapOutGivenIn", "swapInGivenOut", "joinSingleTokenIn", "joinSingleSharesOut",
	"joinSingleSharesOutTrunc", "exitSingleTokenOut", "joinAllNoSwap", "joinAll", "exitProp"}

var fixedTime = time.Unix(1704067200, 0).UTC()

func newBal(res []*big.Int, weights []int64, fee, exitFee string) (*balancer.Pool, error) {
	return newBalLBP(res, weights, nil, fee, exitFee)
}

const lbpDuration = time.Hour

// newBalLBP builds a pool whose weights move linearly from weights to target over lbpDuration starting at
// fixedTime (target == nil: constant weights).
func newBalLBP(res []*big.Int, weights, target []int64, fee, exitFee string) (*balancer.Pool, error) {
	assets := make([]balancer.PoolAsset, len(res))
	for i := range res {
		assets[i] = balancer.PoolAsset{Token: coin(i, res[i]), Weight: osmomath.NewInt(weights[i])}
	}
	if exitFee == "" {
		exitFee = "0"
	}
	var smooth *balancer.SmoothWeightChangeParams
	if target != nil {
		tgt := make([]balancer.PoolAsset, len(res))
		for i := range res {
			tgt[i] = balancer.PoolAsset{Token: coin(i, big.NewInt(0)), Weight: osmomath.NewInt(target[i])}
		}
		smooth = &balancer.SmoothWeightChangeParams{StartTime: fixedTime, Duration: lbpDuration, TargetPoolWeights: tgt}
	}
	p, err := balancer.NewBalancerPool(1, balancer.NewPoolParams(dec(fee), dec(exitFee), smooth), assets, "", fixedTime)
	if err != nil {
		return nil, err
	}
	return &p, nil
}

// lbpWeights is the documented weight schedule, computed independently of the pool: w(t) = initial +
// (target - initial) * elapsed/duration for start < t <= start+duration, target afterwards; the pool keeps
// weights multiplied by 2^30 and the elapsed fraction as an 18-decimal value, so the reference is compared after
// scaling and must agree to within one unit of the scaled weight per asset. Returned weights are scaled by 2^30.
func lbpWeights(initial, target []int64, permille int64) []*big.Rat {
	out := make([]*big.Rat, len(initial))
	scale := new(big.Rat).SetInt(new(big.Int).Lsh(big.NewInt(1), 30))
	frac := big.NewRat(permille, 1000)
	if permille >= 1000 {
		frac = big.NewRat(1, 1)
	}
	if permille <= 0 {
		frac = big.NewRat(0, 1)
	}
	for i := range initial {
		d := new(big.Rat).Sub(big.NewRat(target[i], 1), big.NewRat(initial[i], 1))
		w := new(big.Rat).Add(big.NewRat(initial[i], 1), d.Mul(d, frac))
		out[i] = w.Mul(w, scale)
	}
	return out
}

// balSnap is the observable state of a balancer pool.
type balSnap struct {
	B []*big.Int
	S *big.Int
}

func snapBal(p *balancer.Pool) balSnap {
	liq := p.GetTotalPoolLiquidity(ctx)
	s := balSnap{S: p.GetTotalShares().BigInt()}
	for i := 0; i < p.NumAssets(); i++ {
		s.B = append(s.B, liq.AmountOf(denoms[i]).BigInt())
	}
	return s
}

// perShareFall returns a lower bound of the relative fall of (prod B_i^{w_i/W})/S from before to after
// (negative or zero when it did not fall): with d = ln(before/after), fall = 1-e^{-d} >= d - d^2/2.
func perShareFall(before, after balSnap, w []int64) *big.Float {
	var W int64
	for _, x := range w {
		W += x
	}
	d := nf()
	for i := range before.B {
		if before.B[i].Cmp(after.B[i]) == 0 {
			continue
		}
		if after.B[i].Sign() <= 0 {
			return fI64(1)
		}
		l := lnF(nf().Quo(fInt(before.B[i]), fInt(after.B[i])))
		l.Mul(l, fRat(big.NewRat(w[i], W)))
		d.Add(d, l)
	}
	if before.S.Cmp(after.S) != 0 {
		if after.S.Sign() <= 0 {
			return fI64(1)
		}
		d.Sub(d, lnF(nf().Quo(fInt(before.S), fInt(after.S))))
	}
	if d.Sign() <= 0 {
		return d
	}
	half := nf().Quo(nf().Mul(d, d), fI64(2))
	return nf().Sub(d, half)
}

// sink collects the outcome of evaluating cases.
type sink interface {
	violation(assertion, sig, detail string, replay interface{})
	vac(name string)
	reject(class string)
	maxExtra(key string, v float64)
	transition()
}

func normW(w []int64, i int) *big.Rat {
	var W int64
	for _, x := range w {
		W += x
	}
	return big.NewRat(w[i], W)
}

// formulaCheck compares got with the 640-bit value of the closed formula.
// tol = powPrecision*c*max(reserve, exact) + 1 unit. dirAway tells in which direction value leaves the
// pool (+1: got > exact gives away, -1: got < exact gives away).
func formulaCheck(sk sink, c Case, what string, got *big.Int, exact *big.Float, reserve *big.Int, dirAway int) {
	scale := fInt(reserve)
	if absF(exact).Cmp(scale) > 0 {
		scale = absF(exact)
	}
	unitTol := nf().Mul(scale, fRat(rMul(powPrecDoc, tolC)))
	tol := nf().Add(unitTol, fI64(1))
	diff := nf().Sub(fInt(got), exact)
	ad := absF(diff)
	// observed error beyond the one rounding unit, in units of powPrecision*scale
	over := nf().Sub(ad, fI64(1))
	if over.Sign() > 0 {
		rel := nf().Quo(over, nf().Mul(scale, fRat(powPrecDoc)))
		sk.maxExtra("max_formula_err_over_powprecision_"+c.Op, f64(rel))
	}
	if ad.Cmp(tol) > 0 {
		dir := "against_user"
		if diff.Sign()*dirAway > 0 {
			dir = "gives_value_away"
		}
		sk.violation("bal_formula_"+what, c.sig(),
			fmt.Sprintf("%s: got %s, closed formula %s, |diff| %s > tol %s (=%s*%s*%s+1) direction=%s",
				c.sig(), got, exact.Text('f', 6), ad.Text('g', 8), tol.Text('g', 8), powPrecDoc.FloatString(8), tolC.FloatString(0), scale.Text('g', 6), dir), c)
	}
}

// perShareCheck asserts the weighted product of reserves per share did not fall by more than
// c*powPrecision + the explicitly counted user-favourable rounding units (relUnits).
func perShareCheck(sk sink, c Case, before, after balSnap, w []int64, relUnits *big.Float) {
	fall := perShareFall(before, after, w)
	if fall.Sign() > 0 {
		sk.maxExtra("max_pershare_fall_over_powprecision_"+c.Op, f64(nf().Quo(fall, fRat(powPrecDoc))))
	}
	tol := fRat(rMul(powPrecDoc, tolC))
	if relUnits != nil {
		tol.Add(tol, relUnits)
	}
	if fall.Cmp(tol) > 0 {
		sk.violation("bal_pershare_invariant", c.sig(),
			fmt.Sprintf("%s: (prod B^w)/S fell by %s relative (> %s); before B=%v S=%s after B=%v S=%s",
				c.sig(), fall.Text('g', 8), tol.Text('g', 8), strs(before.B), before.S, strs(after.B), after.S), c)
	}
}

var hugeShares = osmomath.NewIntFromBigInt(new(big.Int).Lsh(big.NewInt(1), 200))

// evalBal evaluates one balancer lattice point on a fresh pool.
func evalBal(sk sink, c Case) {
	res := ints(c.Reserves)
	var tgt []int64
	if len(c.Target) > 0 {
		tgt = c.Target
	}
	p, err := newBalLBP(res, c.Weights, tgt, c.Fee, c.ExitFee)
	if err != nil {
		sk.reject(errClass("newpool", err))
		return
	}
	w := c.Weights
	if tgt != nil {
		// poke the pool along the schedule, then take the weights in force from the independent schedule (rounded
		// to the pool's own 2^30 resolution) - NOT from the pool's bookkeeping, which is what is under test
		last := int64(0)
		for _, pm := range c.Poke {
			cl := try(func() error {
				p.PokePool(fixedTime.Add(time.Duration(pm) * lbpDuration / 1000))
				return nil
			})
			sk.transition()
			if cl != "" {
				sk.violation("lbp_poke_succeeds", c.sig(), fmt.Sprintf("%s: PokePool at %d permille: %s", c.sig(), pm, cl), c)
				return
			}
			last = pm
		}
		ref := lbpWeights(c.Weights, tgt, last)
		w = make([]int64, len(ref))
		for i, r := range ref {
			fl := new(big.Int).Quo(r.Num(), r.Denom())
			w[i] = fl.Int64()
			got, gerr := p.GetTokenWeight(denoms[i])
			if gerr != nil {
				sk.violation("lbp_weight_follows_schedule", c.sig(), fmt.Sprintf("%s: GetTokenWeight(%s): %v", c.sig(), denoms[i], gerr), c)
				return
			}
			diff := new(big.Int).Sub(got.BigInt(), fl)
			if diff.CmpAbs(big.NewInt(1)) > 0 {
				sk.violation("lbp_weight_follows_schedule", c.sig(), fmt.Sprintf("%s: asset %d weight after the pokes %s, documented schedule at %d permille gives %s (x 2^30)", c.sig(), i, got, last, r.FloatString(3)), c)
				return
			}
			w[i] = got.BigInt().Int64() // identical up to the unit just checked; use the pool's own rounding of the schedule
		}
		sk.vac("lbp_cases_evaluated")
		if last > 0 && last < 1000 {
			sk.vac("lbp_cases_mid_change")
		}
		if last >= 1000 {
			sk.vac("lbp_cases_after_change")
		}
	}
	fee := dec(c.Fee)
	feeR := ratOf(c.Fee)
	exitFeeR := big.NewRat(0, 1)
	if c.ExitFee != "" {
		exitFeeR = ratOf(c.ExitFee)
	}
	before := snapBal(p)
	pi, pj := c.pos()
	A, B, S := before.B[pi], before.B[pj], before.S
	if c.Fee == "0" {
		sk.vac("zero_fee_cases")
	}
	mx, mn := A, B
	if mx.Cmp(mn) < 0 {
		mx, mn = mn, mx
	}
	if new(big.Int).Quo(mx, mn).Cmp(mustInts("1000000000000000000000000")[0]) >= 0 {
		sk.vac("unbalanced_ge_1e24_evaluated")
	}
	wa := normW(w, pi)
	// feeRatio for single-asset operations on asset a: 1 - (1-wa)*fee
	fr := rSub(rOne, rMul(rSub(rOne, wa), feeR))

	switch c.Op {
	case "swapOutGivenIn":
		in := resolveSize(c.Size, A)
		if in.Sign() == 0 {
			sk.reject("skip:zero_amount")
			return
		}
		var calc, out sdk.Coin
		cl1 := try(func() (e error) {
			calc, e = p.CalcOutAmtGivenIn(ctx, sdk.Coins{coin(pi, in)}, denoms[pj], fee)
			return
		})
		sk.transition()
		cl := try(func() (e error) {
			out, e = p.SwapOutAmtGivenIn(ctx, sdk.Coins{coin(pi, in)}, denoms[pj], fee)
			return
		})
		sk.transition()
		if cl != "" {
			sk.reject(cl)
			return
		}
		if cl1 != "" || !calc.Amount.Equal(out.Amount) {
			sk.violation("calc_matches_exec", c.sig(), fmt.Sprintf("%s: Calc %v (%s) vs Swap %v", c.sig(), calc, cl1, out), c)
		}
		// exact: B*(1 - (A/(A+in(1-f)))^(wa/wb))
		base := rQuo(rInt(A), rAdd(rInt(A), rMul(rInt(in), rSub(rOne, feeR))))
		pw := powRat(base, big.NewRat(w[pi], w[pj]))
		exact := nf().Mul(fInt(B), nf().Sub(fI64(1), pw))
		formulaCheck(sk, c, "swap_out_given_in", out.Amount.BigInt(), exact, B, +1)
		perShareCheck(sk, c, before, snapBal(p), w, nil)

	case "swapInGivenOut":
		out := resolveSize(c.Size, B)
		if out.Sign() == 0 {
			sk.reject("skip:zero_amount")
			return
		}
		mustFail := new(big.Int).Lsh(out, 1).Cmp(B) >= 0
		var calc, in sdk.Coin
		cl1 := try(func() (e error) {
			calc, e = p.CalcInAmtGivenOut(ctx, sdk.Coins{coin(pj, out)}, denoms[pi], fee)
			return
		})
		sk.transition()
		cl := try(func() (e error) {
			in, e = p.SwapInAmtGivenOut(ctx, sdk.Coins{coin(pj, out)}, denoms[pi], fee)
			return
		})
		sk.transition()
		if cl != "" {
			sk.reject(cl)
			if mustFail {
				sk.vac("solver_domain_limit_failures")
			}
			return
		}
		if mustFail {
			sk.violation("bal_domain_limit_answered", c.sig(), fmt.Sprintf("%s: out %s >= reserve/2 (%s) must fail, answered in=%s", c.sig(), out, B, in.Amount), c)
			return
		}
		if cl1 != "" || !calc.Amount.Equal(in.Amount) {
			sk.violation("calc_matches_exec", c.sig(), fmt.Sprintf("%s: Calc %v (%s) vs Swap %v", c.sig(), calc, cl1, in), c)
		}
		// exact: A*((B/(B-out))^(wb/wa) - 1)/(1-f)
		base := rQuo(rInt(B), rSub(rInt(B), rInt(out)))
		pw := powRat(base, big.NewRat(w[pj], w[pi]))
		exact := nf().Mul(fInt(A), nf().Sub(pw, fI64(1)))
		exact.Quo(exact, fRat(rSub(rOne, feeR)))
		formulaCheck(sk, c, "swap_in_given_out", in.Amount.BigInt(), exact, A, -1)
		perShareCheck(sk, c, before, snapBal(p), w, nil)

	case "joinSingleTokenIn":
		in := resolveSize(c.Size, A)
		if in.Sign() == 0 {
			sk.reject("skip:zero_amount")
			return
		}
		base := rQuo(rAdd(rInt(A), rMul(rInt(in), fr)), rInt(A))
		mustFail := base.Cmp(rI64(2)) >= 0
		var calc, shares osmomath.Int
		cl1 := try(func() (e error) {
			calc, _, e = p.CalcJoinPoolShares(ctx, sdk.Coins{coin(pi, in)}, fee)
			return
		})
		sk.transition()
		cl := try(func() (e error) {
			shares, e = p.JoinPool(ctx, sdk.Coins{coin(pi, in)}, fee)
			return
		})
		sk.transition()
		if cl != "" {
			sk.reject(cl)
			if mustFail {
				sk.vac("solver_domain_limit_failures")
			}
			return
		}
		if mustFail {
			sk.violation("bal_domain_limit_answered", c.sig(), fmt.Sprintf("%s: join base %s >= 2 must fail, answered shares=%s", c.sig(), base.FloatString(6), shares), c)
			return
		}
		if cl1 != "" || !calc.Equal(shares) {
			sk.violation("calc_matches_exec", c.sig(), fmt.Sprintf("%s: Calc %v (%s) vs Join %v", c.sig(), calc, cl1, shares), c)
		}
		after := snapBal(p)
		if shares.IsZero() {
			sk.vac("zero_share_joins")
		}
		pw := powRat(base, wa)
		exact := nf().Mul(fInt(S), nf().Sub(pw, fI64(1)))
		formulaCheck(sk, c, "join_single_shares_out", shares.BigInt(), exact, S, +1)
		perShareCheck(sk, c, before, after, w, nil)

	case "joinSingleSharesOut", "joinSingleSharesOutTrunc":
		sh := resolveSize(c.Size, S)
		if sh.Sign() == 0 {
			sk.reject("skip:zero_amount")
			return
		}
		mustFail := sh.Cmp(S) >= 0
		var tokIn osmomath.Int
		cl := try(func() (e error) {
			if c.Op == "joinSingleSharesOut" {
				tokIn, e = p.CalcTokenInShareAmountOut(ctx, denoms[pi], sdkInt(sh), fee)
				if e == nil {
					p.IncreaseLiquidity(sdkInt(sh), sdk.Coins{sdk.NewCoin(denoms[pi], tokIn)})
				}
			} else {
				tokIn, e = p.JoinPoolTokenInMaxShareAmountOut(ctx, denoms[pi], sdkInt(sh))
				if e == nil {
					p.AddTotalShares(sdkInt(sh))
				}
			}
			return
		})
		sk.transition()
		if cl != "" {
			sk.reject(cl)
			if mustFail {
				sk.vac("solver_domain_limit_failures")
			}
			return
		}
		if mustFail {
			sk.violation("bal_domain_limit_answered", c.sig(), fmt.Sprintf("%s: shares %s >= supply must fail, answered tokenIn=%s", c.sig(), sh, tokIn), c)
			return
		}
		after := snapBal(p)
		// exact: A*(((S+s)/S)^(1/wa) - 1)/fr
		base := rQuo(rAdd(rInt(S), rInt(sh)), rInt(S))
		pw := powRat(base, new(big.Rat).Inv(wa))
		exact := nf().Mul(fInt(A), nf().Sub(pw, fI64(1)))
		exact.Quo(exact, fRat(fr))
		formulaCheck(sk, c, "join_single_token_in", tokIn.BigInt(), exact, A, -1)
		var units *big.Float
		if c.Op == "joinSingleSharesOutTrunc" {
			// this entry point truncates the token amount: one token unit in the user's favour, counted
			// explicitly: relative effect wa * 1/B'_a
			units = nf().Quo(fRat(wa), fInt(after.B[pi]))
		}
		perShareCheck(sk, c, before, after, w, units)

	case "exitSingleTokenOut":
		out := resolveSize(c.Size, A)
		if out.Sign() == 0 {
			sk.reject("skip:zero_amount")
			return
		}
		outFee := rQuo(rInt(out), fr)
		mustFail := outFee.Cmp(rInt(A)) >= 0
		var sharesIn osmomath.Int
		cl := try(func() (e error) {
			sharesIn, e = p.ExitSwapExactAmountOut(ctx, coin(pi, out), hugeShares)
			return
		})
		sk.transition()
		if cl != "" {
			sk.reject(cl)
			if mustFail {
				sk.vac("solver_domain_limit_failures")
			}
			return
		}
		if mustFail {
			sk.violation("bal_domain_limit_answered", c.sig(), fmt.Sprintf("%s: exit of %s (fee-grossed %s) >= reserve must fail, answered shares=%s", c.sig(), out, outFee.FloatString(3), sharesIn), c)
			return
		}
		after := snapBal(p)
		// exact: S*(1 - ((A - out/fr)/A)^wa)/(1-exitFee)
		base := rQuo(rSub(rInt(A), outFee), rInt(A))
		pw := powRat(base, wa)
		exact := nf().Mul(fInt(S), nf().Sub(fI64(1), pw))
		exact.Quo(exact, fRat(rSub(rOne, exitFeeR)))
		formulaCheck(sk, c, "exit_single_shares_in", sharesIn.BigInt(), exact, S, -1)
		// shares in are truncated: one share unit in the user's favour, counted explicitly: 1/S'
		units := nf().Quo(fI64(1), fInt(after.S))
		perShareCheck(sk, c, before, after, w, units)

	case "joinAllNoSwap", "joinAll":
		// tokens offered: size of every reserve, deliberately not in exact ratio (+1 on b, x2+1 for joinAll)
		tokens := sdk.Coins{}
		offered := make([]*big.Int, len(before.B))
		for i := range before.B {
			amt := resolveSize(c.Size, before.B[i])
			if i == 1 {
				if c.Op == "joinAll" {
					amt = new(big.Int).Add(new(big.Int).Lsh(amt, 1), big.NewInt(1))
				} else {
					amt = new(big.Int).Add(amt, big.NewInt(1))
				}
			}
			if amt.Sign() == 0 {
				sk.reject("skip:zero_amount")
				return
			}
			offered[i] = amt
			tokens = append(tokens, coin(i, amt))
		}
		var shares osmomath.Int
		cl := try(func() (e error) {
			if c.Op == "joinAllNoSwap" {
				shares, e = p.JoinPoolNoSwap(ctx, tokens, fee)
			} else {
				shares, e = p.JoinPool(ctx, tokens, fee)
			}
			return
		})
		sk.transition()
		if cl != "" {
			sk.reject(cl)
			return
		}
		after := snapBal(p)
		if c.Op == "joinAllNoSwap" {
			propJoinCheck(sk, c, "bal", before.B, before.S, after.B, offered, shares.BigInt())
			perShareCheck(sk, c, before, after, w, nil)
		} else {
			for i := range offered {
				taken := new(big.Int).Sub(after.B[i], before.B[i])
				if taken.Cmp(offered[i]) > 0 || taken.Sign() < 0 {
					sk.violation("join_takes_more_than_offered", c.sig(), fmt.Sprintf("%s: asset %d taken %s offered %s", c.sig(), i, taken, offered[i]), c)
				}
			}
			// one proportional part plus up to n single-asset parts, each with its own Pow
			perShareCheckN(sk, c, before, after, w, int64(1+len(offered)))
		}

	case "exitProp":
		sh := resolveSize(c.Size, S)
		if sh.Sign() == 0 {
			sk.reject("skip:zero_amount")
			return
		}
		exitFee := dec("0")
		if c.ExitFee != "" {
			exitFee = dec(c.ExitFee)
		}
		var calc, outCoins sdk.Coins
		cl1 := try(func() (e error) {
			calc, e = p.CalcExitPoolCoinsFromShares(ctx, sdkInt(sh), exitFee)
			return
		})
		sk.transition()
		cl := try(func() (e error) {
			outCoins, e = p.ExitPool(ctx, sdkInt(sh), exitFee)
			return
		})
		sk.transition()
		if cl != "" {
			sk.reject(cl)
			if sh.Cmp(S) >= 0 {
				sk.vac("exit_all_shares_refused")
			}
			return
		}
		if sh.Cmp(S) >= 0 {
			sk.violation("exit_ge_total_shares_answered", c.sig(), fmt.Sprintf("%s: exiting %s of %s shares answered %v", c.sig(), sh, S, outCoins), c)
			return
		}
		if cl1 != "" || !calc.Equal(outCoins) {
			sk.violation("calc_matches_exec", c.sig(), fmt.Sprintf("%s: Calc %v (%s) vs Exit %v", c.sig(), calc, cl1, outCoins), c)
		}
		after := snapBal(p)
		propExitCheck(sk, c, before.B, before.S, after.B, after.S, sh)
		perShareCheck(sk, c, before, after, w, nil)
	default:
		panic("unknown balancer op " + c.Op)
	}
}

// perShareCheckN: as perShareCheck with n Pow-bearing parts.
func perShareCheckN(sk sink, c Case, before, after balSnap, w []int64, n int64) {
	fall := perShareFall(before, after, w)
	if fall.Sign() > 0 {
		sk.maxExtra("max_pershare_fall_over_powprecision_"+c.Op, f64(nf().Quo(fall, fRat(powPrecDoc))))
	}
	tol := fRat(rMul(rMul(powPrecDoc, tolC), rI64(n)))
	if fall.Cmp(tol) > 0 {
		sk.violation("bal_pershare_invariant", c.sig(),
			fmt.Sprintf("%s: (prod B^w)/S fell by %s relative (> %s); before B=%v S=%s after B=%v S=%s",
				c.sig(), fall.Text('g', 8), tol.Text('g', 8), strs(before.B), before.S, strs(after.B), after.S), c)
	}
}

// propJoinCheck: shares <= floor(min_i(offered_i/B_i) * S) and taken_i >= ceil(shares/S * B_i), taken_i <= offered_i.
// All comparisons are exact integer cross-multiplications.
func propJoinCheck(sk sink, c Case, pool string, B []*big.Int, S *big.Int, Bafter, offered []*big.Int, shares *big.Int) {
	for i := range B {
		taken := new(big.Int).Sub(Bafter[i], B[i])
		// shares * B_i <= offered_i * S  (for every i  <=>  shares <= min ratio * S, shares integer)
		l := new(big.Int).Mul(shares, B[i])
		if l.Cmp(new(big.Int).Mul(offered[i], S)) > 0 {
			sk.violation("prop_join_mints_more_than_min_ratio", c.sig(),
				fmt.Sprintf("%s: shares %s * B_%d %s > offered %s * S %s", c.sig(), shares, i, B[i], offered[i], S), c)
		}
		// taken_i * S >= shares * B_i
		if new(big.Int).Mul(taken, S).Cmp(l) < 0 {
			sk.violation("prop_join_takes_less_than_ratio", c.sig(),
				fmt.Sprintf("%s: asset %d taken %s * S %s < shares %s * B %s", c.sig(), i, taken, S, shares, B[i]), c)
		}
		if taken.Cmp(offered[i]) > 0 || taken.Sign() < 0 {
			sk.violation("join_takes_more_than_offered", c.sig(), fmt.Sprintf("%s: asset %d taken %s offered %s", c.sig(), i, taken, offered[i]), c)
		}
	}
}

// propExitCheck: paid_i <= floor(shares * B_i / S)  <=>  paid_i * S <= shares * B_i; shares burnt = sh.
func propExitCheck(sk sink, c Case, B []*big.Int, S *big.Int, Bafter []*big.Int, Safter, sh *big.Int) {
	if new(big.Int).Sub(S, Safter).Cmp(sh) != 0 {
		sk.violation("exit_burns_wrong_share_count", c.sig(), fmt.Sprintf("%s: S %s -> %s, exiting %s", c.sig(), S, Safter, sh), c)
	}
	for i := range B {
		paid := new(big.Int).Sub(B[i], Bafter[i])
		if new(big.Int).Mul(paid, S).Cmp(new(big.Int).Mul(sh, B[i])) > 0 || paid.Sign() < 0 {
			sk.violation("exit_pays_more_than_proportional", c.sig(),
				fmt.Sprintf("%s: asset %d paid %s * S %s > shares %s * B %s", c.sig(), i, paid, S, sh, B[i]), c)
		}
	}
}
