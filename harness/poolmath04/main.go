// C04 — balancer and stableswap pool math never gives value away.
//
// Part 1 (engine C): complete enumeration of a finite lattice of (pool, operation, reserves, weights /
// scaling factors, fee, trade size) on pure pool structs against 640-bit / exact rational references.
// Part 2 (engine B): every sequence of <= depth operations of one actor on one in-memory pool.
package main

import (
	"encoding/json"
	"flag"
	"fmt"
	"os"
	"sort"
	"strings"
	"time"

	core "github.com/osmosis-labs/osmosis/v31/zzverif/res04"
)

type collector struct {
	r   *core.Result
	max map[string]float64
}

var violOut = flag.String("violout", "", "debug: append every violation (uncapped) as a JSON line to this file")
var violFile *os.File

func (c *collector) violation(assertion, sig, detail string, replay interface{}) {
	if *violOut != "" && c.r.Property != "" {
		if violFile == nil {
			violFile, _ = os.OpenFile(*violOut, os.O_APPEND|os.O_CREATE|os.O_WRONLY, 0o644)
		}
		bz, _ := json.Marshal(map[string]string{"assertion": assertion, "sig": sig, "detail": detail})
		violFile.Write(append(bz, '\n'))
	}
	c.r.AddViolation(core.Violation{Property: c.r.Property, Assertion: assertion, Signature: sig, Detail: detail, Replay: replay})
}
func (c *collector) vac(name string)     { c.r.Vacuity[name]++ }
func (c *collector) reject(class string) { c.r.Rejected[class]++ }
func (c *collector) transition()         { c.r.Transitions++ }
func (c *collector) maxExtra(key string, v float64) {
	if v > c.max[key] {
		c.max[key] = v
	}
}

func asInt(v interface{}) int64 {
	if v == nil {
		return 0
	}
	return v.(int64)
}

// workItem is an independent unit dealt to shards.
type workItem struct {
	name string
	run  func(sk *collector, expired func() bool) (complete bool)
}

var onlyFlag = flag.String("only", "", "debug: run only work items whose name has this prefix")
var timingFlag = flag.Bool("timing", false, "debug: print per-item wall time of slow items to stderr")

func main() {
	f := core.ParseFlags()
	r := core.NewResult(f.Prop)
	sk := &collector{r: r, max: map[string]float64{}}
	finish := func() {
		for k, v := range sk.max {
			r.Extra[k] = v
		}
		r.WallS = time.Since(f.Start).Seconds()
		r.Emit()
	}
	if err := selfTestRef(); err != nil {
		fmt.Fprintln(os.Stderr, "harness:", err)
		os.Exit(2)
	}
	if f.Replay != "" {
		replay(f, sk)
		finish()
		return
	}
	thorough := f.Tier == "thorough"
	items := buildItems(thorough)
	r.Extra["work_items_total"] = int64(len(items))
	sk.r.Extra["tolerance"] = "formula: powPrecision(1e-8)*2*max(reserve,exact)+1 unit; per-share: 2*powPrecision (+ explicitly counted user-favourable rounding units); stableswap swap invariant: none (exact)"
	for i, it := range items {
		if !f.Mine(i) {
			continue
		}
		if *onlyFlag != "" && !strings.HasPrefix(it.name, *onlyFlag) {
			continue
		}
		t0 := time.Now()
		if f.Expired() {
			r.Exhaustive = false
			break
		}
		if !it.run(sk, f.Expired) {
			r.Exhaustive = false
			break
		}
		if *timingFlag && time.Since(t0) > 500*time.Millisecond {
			fmt.Fprintf(os.Stderr, "slow item %s: %.2fs\n", it.name, time.Since(t0).Seconds())
		}
	}
	allSeen.Dump(f.HashOut)
	r.DepthCompleted = seqDepth(thorough)
	keys := make([]string, 0, len(r.Rejected))
	for k := range r.Rejected {
		keys = append(keys, k)
	}
	sort.Strings(keys)
	r.Outcomes = int64(len(keys)) + 1
	finish()
}

func replay(f *core.Flags, sk *collector) {
	var probe struct {
		Part int `json:"part"`
	}
	core.ReadReplay(f.Replay, &probe)
	if probe.Part == 2 {
		var rp SeqReplay
		core.ReadReplay(f.Replay, &rp)
		replaySeq(sk, rp)
		return
	}
	var c Case
	core.ReadReplay(f.Replay, &c)
	runCase(sk, c)
	fmt.Printf("replay: %s rejected=%v\n", c.sig(), sk.r.Rejected)
}
