package main

import (
	"crypto/sha256"
	"fmt"
	"hash/fnv"
	"math/big"
	"sort"
	"strings"

	core "github.com/osmosis-labs/osmosis/v31/zzverif/res04"
)

// allSeen: distinct states / lattice points in which an oracle was evaluated (dumped for union counting);
// visitedSeen: lattice points visited at all (dedup of coinciding points).
var allSeen = core.NewSeen()
var visitedSeen = core.NewSeen()

var exitFeeLattice = []string{"0", "0.01"}

// third-asset choices for 3-asset stableswap pools: (reserve, scaling factor)
type thirdAsset struct {
	res *big.Int
	sf  uint64
}

func thirdAssets(thorough bool) []thirdAsset {
	l := []thirdAsset{
		{mustInts("1000000")[0], 1},
		{mustInts("1000000000000000000")[0], 1000000},
	}
	if thorough {
		l = append(l,
			thirdAsset{mustInts("1000")[0], 1},
			thirdAsset{mustInts("1000000000000000000000000")[0], 1000000000000},
			thirdAsset{mustInts("1000000000001")[0], 10},
		)
	}
	return l
}

// probeSink records violations instead of reporting them; everything else goes to inner (if any).
type probeSink struct {
	inner   sink
	viols   []probeViol
	skipped bool // the point was not evaluable (zero amount, pool constructor refused the configuration)
}

type probeViol struct {
	assertion, detail string
}

func (p *probeSink) violation(assertion, sig, detail string, replay interface{}) {
	p.viols = append(p.viols, probeViol{assertion, detail})
}
func (p *probeSink) vac(name string) {
	if p.inner != nil {
		p.inner.vac(name)
	}
}
func (p *probeSink) reject(class string) {
	if strings.HasPrefix(class, "skip:") || strings.HasPrefix(class, "newpool:") {
		p.skipped = true
	}
	if p.inner != nil {
		p.inner.reject(class)
	}
}
func (p *probeSink) maxExtra(key string, v float64) {
	if p.inner != nil {
		p.inner.maxExtra(key, v)
	}
}
func (p *probeSink) transition() {
	if p.inner != nil {
		p.inner.transition()
	}
}

func evalCase(sk sink, c Case) {
	if c.Pool == "bal" {
		evalBal(sk, c)
	} else {
		evalStable(sk, c)
	}
}

type shrunkCase struct {
	c      Case
	detail string
}

var caseShrinkMemo = map[string]shrunkCase{}

// shrinkCase normalises a violating lattice point to its minimal form: the first point, in the
// simplest-first order of (fee, exit fee, reserve at position I, reserve at position J), with the same pool type, operation, positions,
// weights / scaling factors, further reserves and trade size that raises the same assertion.
func shrinkCase(c Case, assertion, detail string) shrunkCase {
	pi, pj := c.pos()
	others := append([]string{}, c.Reserves...)
	others[pi], others[pj] = "*", "*"
	key := fmt.Sprintf("%s|%s|%s|%v|%v|%v|%s|%d>%d", assertion, c.Pool, c.Op, c.Weights, c.Scaling, others, c.Size, pi, pj)
	if m, ok := caseShrinkMemo[key]; ok {
		return m
	}
	exitFees := []string{"0"}
	if c.ExitFee != "" && c.ExitFee != "0" {
		exitFees = exitFeeLattice
	}
	// reserves of the positions the operation does not act on: first the simplest value everywhere, then
	// as given
	simplest := append([]string{}, c.Reserves...)
	for k := range simplest {
		if k != pi && k != pj {
			simplest[k] = "1"
		}
	}
	variants := [][]string{simplest, c.Reserves}
	if len(c.Reserves) == 2 {
		variants = variants[1:]
	}
	for _, base := range variants {
		for _, fee := range feeLattice {
			for _, xf := range exitFees {
				for _, ra := range reserveLattice {
					for _, rb := range reserveLattice {
						cand := c
						cand.Fee, cand.ExitFee = fee, xf
						cand.Reserves = append([]string{}, base...)
						cand.Reserves[pi], cand.Reserves[pj] = ra.String(), rb.String()
						ps := &probeSink{}
						evalCase(ps, cand)
						for _, v := range ps.viols {
							if v.assertion == assertion {
								m := shrunkCase{cand, v.detail}
								caseShrinkMemo[key] = m
								return m
							}
						}
					}
				}
			}
		}
	}
	// the point itself (its reserves need not be lattice values on the multi-asset faces)
	m := shrunkCase{c, detail}
	caseShrinkMemo[key] = m
	return m
}

func runCase(sk *collector, c Case) {
	c.Part = 1
	h := sha256.Sum256([]byte(c.sig()))
	if !visitedSeen.Add(h) {
		return
	}
	ps := &probeSink{inner: sk}
	evalCase(ps, c)
	sk.r.Extra["sum_lattice_points_visited"] = asInt(sk.r.Extra["sum_lattice_points_visited"]) + 1
	if ps.skipped {
		return
	}
	allSeen.Add(h)
	sk.r.States++
	for _, v := range ps.viols {
		sk.r.Extra["sum_violating_points_"+v.assertion] = asInt(sk.r.Extra["sum_violating_points_"+v.assertion]) + 1
		m := shrinkCase(c, v.assertion, v.detail)
		sk.violation(v.assertion, m.c.sig(), m.detail, m.c)
	}
	if sk.r.States%997 == 1 {
		sk.r.AddSample(c.sig())
	}
}

// stable single-asset joins run a binary search over share counts whose every probe runs the swap
// solver; the quick tier enumerates them on a stated sub-lattice, the thorough tier on the full one.
func stableJoinSingleSub(thorough bool) (scalings [][]uint64, fees, sizes []string) {
	if thorough {
		for _, a := range scalingLattice {
			for _, b := range scalingLattice {
				scalings = append(scalings, []uint64{a, b})
			}
		}
		return scalings, feeLattice, sizeLattice
	}
	return [][]uint64{{1, 1}, {1, 1000000}, {1000000000000, 10}}, []string{"0", "0.003"}, []string{"1u", "1e-6", "1e-3", "0.1", "0.9", "1.5"}
}

func buildItems(thorough bool) []workItem {
	var items []workItem
	add := func(name string, cases func(emit func(Case))) {
		items = append(items, workItem{name: name, run: func(sk *collector, expired func() bool) bool {
			ok := true
			cases(func(c Case) {
				if !ok {
					return
				}
				if expired() {
					ok = false
					return
				}
				runCase(sk, c)
			})
			return ok
		}})
	}

	// ---- balancer, 2 assets (quick and thorough), multi-asset vectors (thorough)
	type wv struct {
		w     []int64
		extra []*big.Int
	}
	var wvs []wv
	for _, w := range weightPairs {
		wvs = append(wvs, wv{w: w})
	}
	if thorough {
		for _, w := range weightVectors {
			wvs = append(wvs, wv{w: w, extra: extraReserves[:len(w)-2]})
		}
	}
	for _, op := range balOps {
		for _, ra := range reserveLattice {
			for _, rb := range reserveLattice {
				for _, v := range wvs {
					op, ra, rb, v := op, ra, rb, v
					add(fmt.Sprintf("bal/%s/%s/%s/%v", op, ra, rb, v.w), func(emit func(Case)) {
						res := append([]*big.Int{ra, rb}, v.extra...)
						exitFees := []string{"0"}
						if op == "exitProp" || op == "exitSingleTokenOut" {
							exitFees = exitFeeLattice
						}
						for _, fee := range feeLattice {
							for _, xf := range exitFees {
								for _, sz := range sizeLattice {
									emit(Case{Pool: "bal", Op: op, Reserves: strs(res), Weights: v.w, Fee: fee, ExitFee: xf, Size: sz})
								}
							}
						}
					})
				}
			}
		}
	}

	// ---- balancer pools whose weights are changing (LBP): initial -> target weights with equal and with
	// different sums, poked mid-change, after the change and both; every operation of the balancer lattice runs on
	// the weights in force, taken from the documented schedule rather than from the pool's own total
	lbpPairs := [][2][]int64{{{9, 1}, {1, 1}}, {{1, 1}, {1, 4}}, {{1, 9}, {9, 1}}, {{2, 1}, {1, 3}}}
	lbpPokes := [][]int64{{500}, {500, 1100}, {1100}, {250, 750}}
	lbpRes := [][2]string{{"1000000", "1000000"}, {"1000000000000", "1000000000"}}
	lbpSizes := []string{"1e-3", "0.1"}
	if thorough {
		lbpPairs = append(lbpPairs, [2][]int64{{1, 99}, {99, 1}}, [2][]int64{{1, 1}, {1048575, 1}})
		lbpPokes = append(lbpPokes, []int64{1}, []int64{999}, []int64{1000}, []int64{100, 200, 300, 2000})
		lbpSizes = append(lbpSizes, "1u", "0.49")
	}
	for _, op := range balOps {
		for _, pr := range lbpPairs {
			op, pr := op, pr
			add(fmt.Sprintf("bal-lbp/%s/%v", op, pr), func(emit func(Case)) {
				for _, pk := range lbpPokes {
					for _, rs := range lbpRes {
						for _, fee := range []string{"0", "0.003"} {
							for _, sz := range lbpSizes {
								emit(Case{Pool: "bal", Op: op, Reserves: []string{rs[0], rs[1]}, Weights: pr[0], Target: pr[1], Poke: pk, Fee: fee, ExitFee: "0", Size: sz})
							}
						}
					}
				}
			})
		}
	}

	// ---- stableswap, 2 assets and 3 assets
	for _, op := range stableOps {
		if op == "joinSingle" {
			continue
		}
		for _, ra := range reserveLattice {
			for _, rb := range reserveLattice {
				for _, sa := range scalingLattice {
					for _, sb := range scalingLattice {
						op, ra, rb, sa, sb := op, ra, rb, sa, sb
						add(fmt.Sprintf("stable/%s/%s/%s/%d/%d", op, ra, rb, sa, sb), func(emit func(Case)) {
							exitFees := []string{"0"}
							if op == "exitProp" {
								exitFees = exitFeeLattice
							}
							for _, fee := range feeLattice {
								for _, xf := range exitFees {
									for _, sz := range sizeLattice {
										emit(Case{Pool: "stable", Op: op, Reserves: strs([]*big.Int{ra, rb}), Scaling: []uint64{sa, sb}, Fee: fee, ExitFee: xf, Size: sz})
									}
								}
							}
							// three assets
							fees3 := feeLattice
							if !thorough {
								fees3 = []string{"0", "0.003"}
							}
							for _, t := range thirdAssets(thorough) {
								for _, fee := range fees3 {
									for _, sz := range sizeLattice {
										emit(Case{Pool: "stable", Op: op, Reserves: strs([]*big.Int{ra, rb, t.res}), Scaling: []uint64{sa, sb, t.sf}, Fee: fee, Size: sz})
									}
								}
							}
						})
					}
				}
			}
		}
	}
	// stable single-asset join
	scs, fees, sizes := stableJoinSingleSub(thorough)
	for _, ra := range reserveLattice {
		for _, rb := range reserveLattice {
			for _, sc := range scs {
				ra, rb, sc := ra, rb, sc
				add(fmt.Sprintf("stable/joinSingle/%s/%s/%v", ra, rb, sc), func(emit func(Case)) {
					for _, fee := range fees {
						for _, sz := range sizes {
							emit(Case{Pool: "stable", Op: "joinSingle", Reserves: strs([]*big.Int{ra, rb}), Scaling: sc, Fee: fee, Size: sz})
						}
					}
					if thorough || (sc[0] == 1 && sc[1] == 1) {
						t := thirdAssets(false)[0]
						for _, fee := range fees[:1] {
							for _, sz := range sizes {
								emit(Case{Pool: "stable", Op: "joinSingle", Reserves: strs([]*big.Int{ra, rb, t.res}), Scaling: []uint64{sc[0], sc[1], t.sf}, Fee: fee, Size: sz})
							}
						}
					}
				})
			}
		}
	}

	// ---- multi-asset faces: every ordered denom pair / every denom position
	multiItems(thorough, add)

	// ---- part 2: sequences
	items = append(items, seqItems(thorough)...)

	// deterministic interleaving (order by a hash of the item name): every class of work (balancer lattice,
	// stableswap lattice, single-asset joins, sequences) is spread evenly over the shards and over the
	// run, so a deadline cuts all classes proportionally instead of dropping the last ones entirely
	sort.SliceStable(items, func(i, j int) bool {
		hi, hj := fnv.New64a(), fnv.New64a()
		hi.Write([]byte(items[i].name))
		hj.Write([]byte(items[j].name))
		a, b := hi.Sum64(), hj.Sum64()
		if a != b {
			return a < b
		}
		return items[i].name < items[j].name
	})
	return items
}

// ---------------------------------------------------------------------------------------------
// multi-asset faces. The two-asset lattice above walks all 81 reserve pairs; here the reserve axis is
// reduced to a few stated profiles and instead EVERY ordered (tokenIn, tokenOut) denom pair and EVERY
// denom position of 3- and 4-asset pools (thorough: also 5 and 8) is exercised, with scaling-factor
// vectors in which every position takes every lattice value.

var multiSizesQuick = []string{"1u", "1e-6", "1e-3", "0.1", "1/3", "0.9", "1.5"}

func cyc(vals []*big.Int, n, shift int) []*big.Int {
	out := make([]*big.Int, n)
	for i := range out {
		out[i] = vals[(i+shift)%len(vals)]
	}
	return out
}

// scaling-factor vectors: n=3 all vectors over the lattice values (quick {1,10,1e6}, thorough also 1e12);
// n>=4 a covering set (cyclic shifts of the lattice and of its reverse): every position takes every value.
func scalingVectors(n int, thorough bool) [][]uint64 {
	vals := []uint64{1, 10, 1000000}
	if thorough {
		vals = scalingLattice
	}
	var out [][]uint64
	if n == 3 {
		for _, a := range vals {
			for _, b := range vals {
				for _, c := range vals {
					out = append(out, []uint64{a, b, c})
				}
			}
		}
		return out
	}
	base := scalingLattice
	rev := []uint64{base[3], base[2], base[1], base[0]}
	for _, b := range [][]uint64{base, rev} {
		for sh := 0; sh < 4; sh++ {
			v := make([]uint64, n)
			for i := range v {
				v[i] = b[(i+sh)%4]
			}
			out = append(out, v)
		}
	}
	return out
}

// stableswap reserve profiles, given in scaled terms so that every pool is valid: reserve_i = profile_i *
// scalingFactor_i (+ a non-divisible remainder), plus one raw profile (1e12 units everywhere, so the scaled
// reserves differ by the scaling factors themselves).
func stableProfiles(sf []uint64) [][]*big.Int {
	n := len(sf)
	scaled := [][]*big.Int{
		cyc(mustInts("1000000", "3000001", "500000", "2000003"), n, 0),
		cyc(mustInts("1000", "1000000000", "1000000", "10000001"), n, 0),
		cyc(mustInts("1000000000000000000", "1000000000000", "1000000000000000000000000", "1000000000"), n, 0),
	}
	var out [][]*big.Int
	for k, p := range scaled {
		r := make([]*big.Int, n)
		for i := range r {
			r[i] = new(big.Int).Mul(p[i], new(big.Int).SetUint64(sf[i]))
			if k == 0 && sf[i] > 1 {
				r[i].Add(r[i], big.NewInt(3))
			}
		}
		out = append(out, r)
	}
	raw := make([]*big.Int, n)
	for i := range raw {
		raw[i] = mustInts("1000000000000")[0]
	}
	return append(out, raw)
}

var balProfiles = [][]*big.Int{
	mustInts("1000000", "1000000001", "1000000000000", "1000000000000000000", "1000", "1000000000000000000000000", "7", "1000000000000000000000000000000"),
	mustInts("1000000000000000000", "1000", "1000000", "1", "1000000000000000000000000000000", "1000000000000", "1000000001", "7"),
	mustInts("1000000000000", "1000000000000", "1000000000000", "1000000000000", "1000000000000", "1000000000000", "1000000000000", "1000000000000"),
}

func multiItems(thorough bool, add func(name string, cases func(emit func(Case)))) {
	// ---- stableswap
	ns := []int{3, 4}
	if thorough {
		ns = []int{3, 4, 5, 8}
	}
	fees := []string{"0", "0.003"}
	sizes := multiSizesQuick
	jsFees, jsSizes := []string{"0"}, []string{"1e-6", "1e-3", "0.1"}
	if thorough {
		fees, sizes = feeLattice, sizeLattice
		jsFees, jsSizes = []string{"0", "0.003"}, []string{"1u", "1e-6", "1e-3", "0.1", "0.9", "1.5"}
	}
	exSizes := []string{"1e-3", "0.1", "1/3", "0.9", "1"}
	for _, n := range ns {
		for _, sf := range scalingVectors(n, thorough) {
			for pk, prof := range stableProfiles(sf) {
				n, sf, prof := n, sf, prof
				add(fmt.Sprintf("multi/stable/%d/%v/p%d", n, sf, pk), func(emit func(Case)) {
					base := Case{Pool: "stable", Reserves: strs(prof), Scaling: sf}
					for i := 0; i < n; i++ {
						for j := 0; j < n; j++ {
							if i == j {
								continue
							}
							for _, op := range []string{"swapOutGivenIn", "swapInGivenOut"} {
								for _, fee := range fees {
									for _, sz := range sizes {
										c := base
										c.Op, c.Fee, c.Size, c.I, c.J = op, fee, sz, i, j
										emit(c)
									}
								}
							}
						}
						j := (i + 1) % n
						for _, fee := range jsFees {
							for _, sz := range jsSizes {
								c := base
								c.Op, c.Fee, c.Size, c.I, c.J = "joinSingle", fee, sz, i, j
								emit(c)
							}
						}
						for _, fee := range fees[:2] {
							for _, sz := range exSizes {
								c := base
								c.Op, c.Fee, c.Size, c.I, c.J = "exitSingleComposite", fee, sz, i, j
								emit(c)
							}
						}
					}
					for _, op := range []string{"joinAllNoSwap", "exitProp"} {
						for _, sz := range sizes {
							c := base
							c.Op, c.Fee, c.Size = op, "0", sz
							emit(c)
						}
					}
				})
			}
		}
	}
	// ---- balancer
	wvs := [][]int64{{1, 2, 3}, {5, 4, 3, 2}}
	if thorough {
		wvs = append(wvs, weightVectors...)
	}
	for _, w := range wvs {
		for pk, prof := range balProfiles {
			w, prof := w, prof[:len(w)]
			n := len(w)
			add(fmt.Sprintf("multi/bal/%v/p%d", w, pk), func(emit func(Case)) {
				base := Case{Pool: "bal", Reserves: strs(prof), Weights: w}
				for _, fee := range feeLattice {
					for _, sz := range sizeLattice {
						for i := 0; i < n; i++ {
							for j := 0; j < n; j++ {
								if i == j {
									continue
								}
								for _, op := range []string{"swapOutGivenIn", "swapInGivenOut"} {
									c := base
									c.Op, c.Fee, c.Size, c.I, c.J = op, fee, sz, i, j
									emit(c)
								}
							}
							j := (i + 1) % n
							for _, op := range []string{"joinSingleTokenIn", "joinSingleSharesOut", "joinSingleSharesOutTrunc", "exitSingleTokenOut"} {
								xfs := []string{"0"}
								if op == "exitSingleTokenOut" {
									xfs = exitFeeLattice
								}
								for _, xf := range xfs {
									c := base
									c.Op, c.Fee, c.ExitFee, c.Size, c.I, c.J = op, fee, xf, sz, i, j
									emit(c)
								}
							}
						}
						for _, op := range []string{"joinAllNoSwap", "joinAll", "exitProp"} {
							c := base
							c.Op, c.Fee, c.Size = op, fee, sz
							emit(c)
						}
					}
				}
			})
		}
	}
}
