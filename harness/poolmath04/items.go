package main

import (
	"crypto/sha256"
	"fmt"
	"math/big"

	core "github.com/osmosis-labs/osmosis/v31/zzverif/res04"
)

var allSeen = core.NewSeen()

var exitFeeLattice = []string{"0", "0.01"}

// third-asset choices for 3-asset stableswap pools: (reserve, scaling factor)
type thirdAsset struct {
	res *big.Int
	sf  uint64
}

func thirdAssets(thorough bool) []thirdAsset {
	l := []thirdAsset{
		{mustInts("1000000")[0], 1},
		{mustInts("1000000000000000000")[0], 1000000},
	}
	if thorough {
		l = append(l,
			thirdAsset{mustInts("1000")[0], 1},
			thirdAsset{mustInts("1000000000000000000000000")[0], 1000000000000},
			thirdAsset{mustInts("1000000000001")[0], 10},
		)
	}
	return l
}

func runCase(sk *collector, c Case) {
	c.Part = 1
	h := sha256.Sum256([]byte(c.sig()))
	if !allSeen.Add(h) {
		return
	}
	sk.r.States++
	if c.Pool == "bal" {
		evalBal(sk, c)
	} else {
		evalStable(sk, c)
	}
	if sk.r.States%997 == 1 {
		sk.r.AddSample(c.sig())
	}
}

// stable single-asset joins run a binary search over share counts whose every probe runs the swap
// solver; the quick tier enumerates them on a stated sub-lattice, the thorough tier on the full one.
func stableJoinSingleSub(thorough bool) (scalings [][]uint64, fees, sizes []string) {
	if thorough {
		for _, a := range scalingLattice {
			for _, b := range scalingLattice {
				scalings = append(scalings, []uint64{a, b})
			}
		}
		return scalings, feeLattice, sizeLattice
	}
	return [][]uint64{{1, 1}, {1, 1000000}, {1000000000000, 10}}, []string{"0", "0.003"}, []string{"1u", "1e-6", "1e-3", "0.1", "0.9", "1.5"}
}

func buildItems(thorough bool) []workItem {
	var items []workItem
	add := func(name string, cases func(emit func(Case))) {
		items = append(items, workItem{name: name, run: func(sk *collector, expired func() bool) bool {
			ok := true
			cases(func(c Case) {
				if !ok {
					return
				}
				if expired() {
					ok = false
					return
				}
				runCase(sk, c)
			})
			return ok
		}})
	}

	// ---- balancer, 2 assets (quick and thorough), multi-asset vectors (thorough)
	type wv struct {
		w     []int64
		extra []*big.Int
	}
	var wvs []wv
	for _, w := range weightPairs {
		wvs = append(wvs, wv{w: w})
	}
	if thorough {
		for _, w := range weightVectors {
			wvs = append(wvs, wv{w: w, extra: extraReserves[:len(w)-2]})
		}
	}
	for _, op := range balOps {
		for _, ra := range reserveLattice {
			for _, rb := range reserveLattice {
				for _, v := range wvs {
					op, ra, rb, v := op, ra, rb, v
					add(fmt.Sprintf("bal/%s/%s/%s/%v", op, ra, rb, v.w), func(emit func(Case)) {
						res := append([]*big.Int{ra, rb}, v.extra...)
						exitFees := []string{"0"}
						if op == "exitProp" || op == "exitSingleTokenOut" {
							exitFees = exitFeeLattice
						}
						for _, fee := range feeLattice {
							for _, xf := range exitFees {
								for _, sz := range sizeLattice {
									emit(Case{Pool: "bal", Op: op, Reserves: strs(res), Weights: v.w, Fee: fee, ExitFee: xf, Size: sz})
								}
							}
						}
					})
				}
			}
		}
	}

	// ---- stableswap, 2 assets and 3 assets
	for _, op := range stableOps {
		if op == "joinSingle" {
			continue
		}
		for _, ra := range reserveLattice {
			for _, rb := range reserveLattice {
				for _, sa := range scalingLattice {
					for _, sb := range scalingLattice {
						op, ra, rb, sa, sb := op, ra, rb, sa, sb
						add(fmt.Sprintf("stable/%s/%s/%s/%d/%d", op, ra, rb, sa, sb), func(emit func(Case)) {
							exitFees := []string{"0"}
							if op == "exitProp" {
								exitFees = exitFeeLattice
							}
							for _, fee := range feeLattice {
								for _, xf := range exitFees {
									for _, sz := range sizeLattice {
										emit(Case{Pool: "stable", Op: op, Reserves: strs([]*big.Int{ra, rb}), Scaling: []uint64{sa, sb}, Fee: fee, ExitFee: xf, Size: sz})
									}
								}
							}
							// three assets
							fees3 := feeLattice
							if !thorough {
								fees3 = []string{"0", "0.003"}
							}
							for _, t := range thirdAssets(thorough) {
								for _, fee := range fees3 {
									for _, sz := range sizeLattice {
										emit(Case{Pool: "stable", Op: op, Reserves: strs([]*big.Int{ra, rb, t.res}), Scaling: []uint64{sa, sb, t.sf}, Fee: fee, Size: sz})
									}
								}
							}
						})
					}
				}
			}
		}
	}
	// stable single-asset join
	scs, fees, sizes := stableJoinSingleSub(thorough)
	for _, ra := range reserveLattice {
		for _, rb := range reserveLattice {
			for _, sc := range scs {
				ra, rb, sc := ra, rb, sc
				add(fmt.Sprintf("stable/joinSingle/%s/%s/%v", ra, rb, sc), func(emit func(Case)) {
					for _, fee := range fees {
						for _, sz := range sizes {
							emit(Case{Pool: "stable", Op: "joinSingle", Reserves: strs([]*big.Int{ra, rb}), Scaling: sc, Fee: fee, Size: sz})
						}
					}
					if thorough || (sc[0] == 1 && sc[1] == 1) {
						t := thirdAssets(false)[0]
						for _, fee := range fees[:1] {
							for _, sz := range sizes {
								emit(Case{Pool: "stable", Op: "joinSingle", Reserves: strs([]*big.Int{ra, rb, t.res}), Scaling: []uint64{sc[0], sc[1], t.sf}, Fee: fee, Size: sz})
							}
						}
					}
				})
			}
		}
	}

	// ---- part 2: sequences
	items = append(items, seqItems(thorough)...)

	// interleave deterministically so that neighbouring (similarly expensive) items land on different shards
	return items
}
