// Command lockup06 is the ledger explorer for property C06 (lockup: locked funds are safe,
// time-locked and exactly indexed). See DESIGN.md §5 C06.
package main

import (
	"encoding/json"
	"flag"
	"fmt"
	"os"
	"runtime/debug"
	"runtime/pprof"
	"time"

	sdk "github.com/cosmos/cosmos-sdk/types"

	"github.com/osmosis-labs/osmosis/v31/zzverif/core"
)

// Stores hashed into the canonical state. The lockup handlers and the lockup EndBlocker read and write
// lockup, bank and acc (module account creation); the only lockup hook receiver (superfluid) reads its
// own store, and incentives reads lockup at epoch end. `-stores all` hashes all 40 stores instead; it
// is used to confirm that nothing the handlers write is missing from this list (see main).
var restricted = []string{"lockup", "bank", "acc", "superfluid", "incentives"}

// run is one exhaustive exploration: every sequence of at most Depth symbols of Alpha from Seed.
type run struct {
	Seed  string
	Depth int
	Alpha string // name of the alphabet
}

type plan struct {
	Alphabets map[string]*Alphabet
	Runs      []run
}

const (
	hour = int64(time.Hour)
	min  = int64(time.Minute)
)

func planFor(tier string) plan {
	base := &Alphabet{
		Locks: []Op{
			{K: "lock", A: "A", Denom: DenomX, Dur: hour, Amt: 100},
			{K: "lock", A: "B", Denom: DenomX, Dur: hour, Amt: 70},      // shares the accumulation key of the first
			{K: "lock", A: "A", Denom: DenomX, Dur: 2 * hour, Amt: 100}, // where an extended 1 h lock of A lands
			{K: "lock", A: "A", Denom: DenomY, Dur: hour, Amt: 100},
			{K: "lock", A: "B", Denom: DenomY, Dur: 24 * hour, Amt: 50},
		},
		Partial:   []int64{30},
		Dts:       []int64{59 * min, hour, hour + 1, 24 * hour},
		MaxLocks:  4,
		UnlockAll: true,
		SetRR:     true,
	}
	// wide: everything of base plus a zero-length block, a second partial amount, two-step extension,
	// begin-unlock by a non-owner and of a never-issued id, receiver reset, an atomic tx whose second
	// message fails, and one more lock symbol (B on A's 2 h key)
	wide := &Alphabet{
		Locks:      append(append([]Op{}, base.Locks...), Op{K: "lock", A: "B", Denom: DenomX, Dur: 2 * hour, Amt: 70}),
		Partial:    []int64{30, 100},
		Dts:        []int64{0, 59 * min, hour, hour + 1, 24 * hour},
		MaxLocks:   4,
		UnlockAll:  true,
		SetRR:      true,
		ExtendTwo:  true,
		SetRRBack:  true,
		Foreign:    true,
		BadTx:      true,
		GhostProbe: true,
	}
	// narrow: the symbols that decide maturity and index bookkeeping, for the deepest runs
	narrow := &Alphabet{
		Locks: []Op{
			{K: "lock", A: "A", Denom: DenomX, Dur: hour, Amt: 100},
			{K: "lock", A: "B", Denom: DenomX, Dur: hour, Amt: 70},
			{K: "lock", A: "A", Denom: DenomX, Dur: 2 * hour, Amt: 100},
		},
		Partial:  []int64{30},
		Dts:      []int64{59 * min, hour, 24 * hour},
		MaxLocks: 3,
	}
	p := plan{Alphabets: map[string]*Alphabet{"base": base, "wide": wide, "narrow": narrow}}
	if tier == "thorough" {
		p.Runs = []run{
			{"empty@119", 5, "base"},
			{"empty@119", 4, "wide"},
			{"empty@118", 6, "narrow"},
			{"empty@119", 6, "narrow"},
			{"mid@118", 4, "base"},
			{"matured@119", 4, "base"},
			{"spread@119", 3, "narrow"},
			{"clshare@118", 4, "narrow"},
		}
	} else {
		p.Runs = []run{
			{"empty@119", 4, "base"},
			{"mid@118", 3, "base"},
			{"matured@119", 3, "base"},
			{"spread@119", 2, "narrow"},
			{"clshare@118", 3, "narrow"},
		}
	}
	return p
}

// seedDef: start height (reached by real block boundaries) and the ops that lead to the seed state.
func seedDef(name string) (int64, []Op) {
	switch name {
	case "empty@119":
		// the first explored boundary ends block 119 (no sweep), the second ends block 120 (sweep)
		return 119, nil
	case "empty@118":
		return 118, nil
	case "mid@118":
		// three locks: a split parent, a foreign lock on the same accumulation key, an unlocking split child
		return 118, []Op{
			{K: "lock", A: "A", Denom: DenomX, Dur: hour, Amt: 100},
			{K: "lock", A: "B", Denom: DenomX, Dur: hour, Amt: 70},
			{K: "punlock", ID: 1, Amt: 30},
			{K: "tick", Dt: 59 * min},
		}
	case "matured@119":
		// an extended lock, a second lock on the vacated key, everything of A unlocking, one lock matured
		// but not yet swept (block 120 has begun; its end runs the sweep)
		return 119, []Op{
			{K: "lock", A: "A", Denom: DenomX, Dur: hour, Amt: 100},
			{K: "extend", ID: 1, Dur: 2 * hour},
			{K: "lock", A: "A", Denom: DenomX, Dur: hour, Amt: 100},
			{K: "lock", A: "B", Denom: DenomX, Dur: 2 * hour, Amt: 70},
			{K: "unlockall", A: "A"},
			{K: "tick", Dt: hour},
		}
	case "clshare@118":
		// two locks of concentrated-liquidity share tokens (locked full-range positions of A and B; the shares are minted
		// into the lock and burnt at pay-out), A's 59 min into unlocking, and an ordinary lock beside them: the next
		// boundaries mature A's lock (block 119 ends, no sweep) and pay it out (block 120 ends)
		return 118, []Op{
			{K: "cllock", A: "A", Dur: hour, Amt: 1000000},
			{K: "cllock", A: "B", Dur: 2 * hour, Amt: 2500000},
			{K: "lock", A: "B", Denom: DenomX, Dur: hour, Amt: 70},
			{K: "unlock", ID: 1},
			{K: "tick", Dt: 59 * min},
		}
	case "spread@119":
		// thirteen locks of one denom with thirteen distinct durations (1 h, 1 h 1 min, ... 1 h 12 min; owners
		// alternate): lockup's accumulation sum-tree has fan-out 10, so its root has split into two leaves and
		// every later begin-unlock / extend / add updates a multi-node tree; one lock is 59 min into unlocking
		ops := []Op{}
		for i := int64(0); i < 13; i++ {
			a := "A"
			if i%2 == 1 {
				a = "B"
			}
			ops = append(ops, Op{K: "lock", A: a, Denom: DenomX, Dur: hour + i*min, Amt: 100 + i})
		}
		ops = append(ops, Op{K: "unlock", ID: 7}, Op{K: "tick", Dt: 59 * min})
		return 119, ops
	}
	panic("unknown seed " + name)
}

// buildSeed drives the application to the named state through the same Apply path as the explorer.
// A post-condition failing on the way (possible only when the code under test is broken) is reported
// as a violation replayable from the empty state of the same start height.
func buildSeed(w *World, name string, report func(base string, ops []Op, assertion, detail string)) (sdk.Context, *Ledger, bool) {
	h, ops := seedDef(name)
	base := fmt.Sprintf("empty@%d", h)
	ctx, l, err := w.Base(h)
	if err != nil {
		report(base, nil, "block.boundary-succeeds", err.Error())
		return ctx, l, false
	}
	ok := true
	for i, op := range ops {
		var out string
		ctx, out = w.Apply(ctx, l, op, func(a, s, d string) { ok = false; report(base, ops[:i+1], a, d) })
		if out != "ok" {
			ok = false
			report(base, ops[:i+1], "seed.op-accepted", fmt.Sprintf("seed %s: %s -> %s", name, op, out))
		}
		if !ok {
			return ctx, l, false
		}
	}
	return ctx, l, true
}

type config struct {
	Denoms       []string `json:"denoms"`
	InitialFunds int64    `json:"initial_funds_per_owner_and_denom"`
	Stores       string   `json:"hashed_stores"`
}

type replayFile struct {
	Config config `json:"config"`
	Seed   string `json:"seed_state"`
	Ops    []Op   `json:"ops"`
}

// sig is the explorer's default signature form (seed + op list).
func sig(seed string, ops []Op) string {
	bz, _ := json.Marshal(ops)
	return seed + ":" + string(bz)
}

func runReplay(f *core.Flags, r *core.Result) {
	var rp replayFile
	core.ReadReplay(f.Replay, &rp)
	w := NewWorld(r.Vacuity)
	defer w.Env.Close()
	fail := func(a, s, d string) {
		r.AddViolation(core.Violation{Property: f.Prop, Assertion: a, Signature: s, Detail: d, Replay: rp})
	}
	ctx, l, ok := buildSeed(w, rp.Seed, func(base string, ops []Op, a, d string) {
		r.AddViolation(core.Violation{Property: f.Prop, Assertion: a, Detail: d, Signature: sig(base, ops), Replay: replayFile{Config: rp.Config, Seed: base, Ops: ops}})
	})
	if !ok {
		return
	}
	w.Check(ctx, l, fail)
	r.States++
	for i, op := range rp.Ops {
		var out string
		ctx, out = w.Apply(ctx, l, op, fail)
		fmt.Printf("step %d %s -> %s   [h=%d t=%s live=%d]\n", i, op, out, l.Height, l.Now.Format(time.RFC3339Nano), len(l.Locks))
		w.Check(ctx, l, fail)
		r.Transitions++
		r.States++
	}
	for _, k := range l.Locks {
		fmt.Printf("ledger %s\n", short(k.recString()))
	}
}

func main() {
	storesFlag := flag.String("stores", "restricted", "restricted | all : KV stores hashed into the canonical state")
	prof := flag.String("cpuprofile", "", "write a CPU profile (development aid)")
	f := core.ParseFlags()
	debug.SetGCPercent(400)
	if *prof != "" {
		pf, _ := os.Create(*prof)
		pprof.StartCPUProfile(pf)
		defer pprof.StopCPUProfile()
	}
	r := core.NewResult(f.Prop)
	if f.Prop != "C06" {
		fmt.Fprintln(os.Stderr, "lockup06: unknown property", f.Prop)
		os.Exit(2)
	}
	if f.Replay != "" {
		runReplay(f, r)
		core.Finish(f, r)
		return
	}
	pl := planFor(f.Tier)
	stores := restricted
	if *storesFlag == "all" {
		stores = nil
	}
	w := NewWorld(r.Vacuity)
	defer w.Env.Close()
	cfg := config{Denoms: Denoms, InitialFunds: InitialFunds, Stores: *storesFlag}
	check := w.Check
	diff := map[string]int64{}
	if *storesFlag == "diff" {
		// development aid: explore with all stores hashed and name the stores in which two states differ
		// although the restricted hash (and the ledger) merges them
		stores = nil
		first := map[string]map[string][32]byte{}
		check = func(ctx sdk.Context, l *Ledger, fail func(a, s, d string)) {
			w.Check(ctx, l, fail)
			rh := core.StateHash(w.App, ctx, restricted)
			k := string(rh[:]) + string(l.Key())
			vec := map[string][32]byte{}
			for _, n := range core.StoreNames(w.App) {
				vec[n] = core.StateHash(w.App, ctx, []string{n})
			}
			if f0, ok := first[k]; ok {
				for n, h := range vec {
					if f0[n] != h {
						diff[n]++
					}
				}
			} else {
				first[k] = vec
			}
		}
	}
	allSeen := core.NewSeen()
	var runNames []string
	minDepth := 0
	for ri, rn := range pl.Runs {
		name := fmt.Sprintf("%s/depth=%d/alphabet=%s", rn.Seed, rn.Depth, rn.Alpha)
		runNames = append(runNames, name)
		t0, tr0 := time.Now(), r.Transitions
		sc := &core.Scenario[Op, *Ledger]{
			App: w.App, Stores: stores, Config: cfg,
			Enabled:   w.Enabled(pl.Alphabets[rn.Alpha]),
			Apply:     w.Apply,
			Check:     check,
			LedgerKey: func(l *Ledger) []byte { return l.Key() },
		}
		ctx, l, ok := buildSeed(w, rn.Seed, func(base string, ops []Op, a, d string) {
			if f.Shard == 0 {
				r.AddViolation(core.Violation{Property: f.Prop, Assertion: a, Detail: d, Signature: sig(base, ops), Replay: replayFile{Config: cfg, Seed: base, Ops: ops}})
			}
		})
		if !ok {
			continue // never silently: the violation above is reported
		}
		ex := core.NewExplorer(sc, f, r)
		r.DepthCompleted = 0
		ex.Run(rn.Seed, ctx, l, rn.Depth)
		if r.DepthCompleted == rn.Depth {
			r.Extra[fmt.Sprintf("sum_runs_completed[%s]", name)] = 1
		} else {
			r.Extra[fmt.Sprintf("sum_runs_completed[%s]", name)] = 0
		}
		if r.DepthCompleted == rn.Depth && rn.Depth > minDepth {
			minDepth = rn.Depth
		}
		r.Extra[fmt.Sprintf("sum_transitions[%s]", name)] = r.Transitions - tr0
		r.Extra[fmt.Sprintf("sum_wall_s[%s]", name)] = time.Since(t0).Seconds()
		for k := range ex.Seen {
			var h [32]byte
			copy(h[:], k[:])
			h[15] ^= byte(ri + 1) // runs are explored separately; keep their state sets apart in the union
			allSeen.Add(h)
		}
	}
	// depth_completed reports the deepest run that finished; per-run completion is in sum_runs_completed[..]
	// (it must equal the number of shards for a run to have been enumerated completely)
	r.DepthCompleted = minDepth
	allSeen.Dump(f.HashOut)
	used := map[string]*Alphabet{}
	for _, rn := range pl.Runs {
		used[rn.Alpha] = pl.Alphabets[rn.Alpha]
	}
	bz, _ := json.Marshal(used)
	r.Extra["alphabets"] = string(bz)
	r.Extra["runs"] = runNames
	seedOps := map[string]interface{}{}
	for _, rn := range pl.Runs {
		h, ops := seedDef(rn.Seed)
		seedOps[rn.Seed] = map[string]interface{}{"start_height": h, "ops": ops}
	}
	r.Extra["seed_states"] = seedOps
	r.Extra["hashed_stores"] = *storesFlag
	if len(diff) > 0 {
		r.Extra["stores_differing_within_restricted_classes"] = diff
	}
	r.Extra["max_queries_per_state"] = w.maxQueries
	r.Extra["max_accumulation_filed_under_empty_denom_F6"] = w.maxEmptyDenomAcc
	r.Extra["sum_queries_compared"] = w.sumQueries
	r.Outcomes = int64(len(r.Rejected) + 1)
	core.Finish(f, r)
}
