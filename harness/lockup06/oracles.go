package main

import (
	"fmt"
	"math"
	"sort"
	"strings"
	"time"

	sdkmath "cosmossdk.io/math"
	sdk "github.com/cosmos/cosmos-sdk/types"

	lockuptypes "github.com/osmosis-labs/osmosis/v31/x/lockup/types"

	"github.com/osmosis-labs/osmosis/v31/zzverif/core"
)

// canonical text of a stored lock record
func recString(p lockuptypes.PeriodLock) string {
	end := "-"
	if !p.EndTime.Equal(time.Time{}) {
		end = fmt.Sprint(p.EndTime.UnixNano())
	}
	return fmt.Sprintf("#%d|%s|%d|%s|%s|rr=%s", p.ID, p.Owner, int64(p.Duration), end, p.Coins.String(), p.RewardReceiverAddress)
}

// canonical text of a ledger record, in the same shape
func (k Lock) recString() string {
	end := "-"
	if k.Unlocking() {
		end = fmt.Sprint(k.End.UnixNano())
	}
	rr := ""
	if k.Recv != "" {
		rr = core.Acc(k.Recv).String()
	}
	return fmt.Sprintf("#%d|%s|%d|%s|%s|rr=%s", k.ID, core.Acc(k.Owner).String(), int64(k.Dur), end, sdk.NewCoins(sdk.NewCoin(k.Denom, sdkmath.NewInt(k.Amt))).String(), rr)
}

func short(s string) string {
	// addresses make details long; keep them stable but compact
	s = strings.ReplaceAll(s, core.Acc("A").String(), "A")
	s = strings.ReplaceAll(s, core.Acc("B").String(), "B")
	s = strings.ReplaceAll(s, core.Acc("C").String(), "C")
	return s
}

type checker struct {
	w    *World
	l    *Ledger
	q    sdk.Context // throw-away branch: queries must never reach the explored state
	fail func(a, s, d string)
	n    int64
}

// guard runs one query, turning a panic into a violation of the named assertion.
func (c *checker) guard(name, args string, f func()) {
	defer func() {
		if r := recover(); r != nil {
			c.fail("query.panics:"+name, "", short(fmt.Sprintf("%s(%s) panicked: %v", name, args, r)))
		}
	}()
	c.n++
	f()
}

// locks compares a list-valued query with the ledger's locks matching pred (as multisets of full records).
func (c *checker) locks(name, args string, get func() ([]lockuptypes.PeriodLock, error), pred func(Lock) bool) {
	c.guard(name, args, func() {
		got, err := get()
		if err != nil {
			c.fail("query.error:"+name, "", short(fmt.Sprintf("%s(%s): %v", name, args, err)))
			return
		}
		gs := make([]string, 0, len(got))
		for _, p := range got {
			gs = append(gs, recString(p))
		}
		sort.Strings(gs)
		var ws []string
		for _, k := range c.l.Locks {
			if pred(k) {
				ws = append(ws, k.recString())
			}
		}
		sort.Strings(ws)
		if strings.Join(gs, "\n") != strings.Join(ws, "\n") {
			c.fail("query.locks:"+name, "", short(fmt.Sprintf("%s(%s) at t=%s returned [%s], the ledger's matching locks are [%s]", name, args, c.l.Now.Format(time.RFC3339Nano), strings.Join(gs, " ; "), strings.Join(ws, " ; "))))
		}
	})
}

func (c *checker) coins(name, args string, get func() (sdk.Coins, error), pred func(Lock) bool) {
	c.guard(name, args, func() {
		got, err := get()
		if err != nil {
			c.fail("query.error:"+name, "", short(fmt.Sprintf("%s(%s): %v", name, args, err)))
			return
		}
		want := c.l.sum(pred)
		// only the scenario's denoms are compared (the module account holds nothing else anyway)
		for _, dn := range denomsOf(c.l) {
			if !got.AmountOf(dn).Equal(want.AmountOf(dn)) {
				c.fail("query.coins:"+name, "", short(fmt.Sprintf("%s(%s) at t=%s returned %s, the ledger's matching locks sum to %s", name, args, c.l.Now.Format(time.RFC3339Nano), got, want)))
				return
			}
		}
	})
}

func maxDur(a, b time.Duration) time.Duration {
	if a > b {
		return a
	}
	return b
}

// Check is the state oracle of C06, evaluated in every distinct (store, ledger) state.
func (w *World) Check(ctx sdk.Context, l *Ledger, fail func(a, s, d string)) {
	q, _ := ctx.CacheContext()
	c := &checker{w: w, l: l, q: q, fail: fail}
	k := w.App.LockupKeeper
	now := l.Now
	addr := func(o string) string { return core.Acc(o).String() }
	all := func(Lock) bool { return true }

	// ---- funds ---------------------------------------------------------------------------------
	// the module account holds exactly the sum of the live locks
	c.coins("bank.module-account", "", func() (sdk.Coins, error) { return w.App.BankKeeper.GetAllBalances(q, w.ModAddr), nil }, all)
	c.coins("ModuleBalance", "", func() (sdk.Coins, error) {
		r, err := w.Q.ModuleBalance(q, &lockuptypes.ModuleBalanceRequest{})
		if err != nil {
			return nil, err
		}
		return r.Coins, nil
	}, all)
	// documented: "all the tokens not unlocking + tokens that are not finished unlocking"
	c.coins("ModuleLockedAmount", "", func() (sdk.Coins, error) {
		r, err := w.Q.ModuleLockedAmount(q, &lockuptypes.ModuleLockedAmountRequest{})
		if err != nil {
			return nil, err
		}
		return r.Coins, nil
	}, func(x Lock) bool { return !x.Unlocking() || x.End.After(now) })
	// conservation: spendable + own locks = initial
	for _, o := range append([]string{"C"}, Owners...) {
		o := o
		bal := w.App.BankKeeper.GetAllBalances(q, core.Acc(o))
		own := l.sum(func(x Lock) bool { return x.Owner == o })
		for _, dn := range denomsOf(l) {
			if dn == DenomCL {
				// minted into the lock, burnt at pay-out: never spendable by anyone
				if !bal.AmountOf(dn).IsZero() {
					fail("funds.owner-conservation", "", fmt.Sprintf("%s holds %s spendable %s", o, bal.AmountOf(dn), dn))
				}
				continue
			}
			if !bal.AmountOf(dn).Add(own.AmountOf(dn)).Equal(sdkmath.NewInt(InitialFunds)) {
				fail("funds.owner-conservation", "", fmt.Sprintf("%s: spendable %s + locked %s != initial %d of %s", o, bal.AmountOf(dn), own.AmountOf(dn), InitialFunds, dn))
			}
		}
	}

	// ---- by id ---------------------------------------------------------------------------------
	for _, x := range l.Locks {
		x := x
		c.locks("LockedByID", fmt.Sprint(x.ID), func() ([]lockuptypes.PeriodLock, error) {
			r, err := w.Q.LockedByID(q, &lockuptypes.LockedRequest{LockId: x.ID})
			if err != nil {
				return nil, err
			}
			return []lockuptypes.PeriodLock{*r.Lock}, nil
		}, func(y Lock) bool { return y.ID == x.ID })
		c.guard("LockRewardReceiver", fmt.Sprint(x.ID), func() {
			r, err := w.Q.LockRewardReceiver(q, &lockuptypes.LockRewardReceiverRequest{LockId: x.ID})
			want := addr(x.Owner)
			if x.Recv != "" {
				want = addr(x.Recv)
			}
			if err != nil || r.RewardReceiver != want {
				fail("query.reward-receiver", "", short(fmt.Sprintf("lock %d: got %v err=%v, ledger says %s", x.ID, r, err, want)))
			}
		})
	}
	// ids that are not live must not resolve (1 .. two past the largest id ever issued)
	for id := uint64(1); id <= l.MaxID+2; id++ {
		if l.find(id) >= 0 {
			continue
		}
		id := id
		c.guard("LockedByID", fmt.Sprint(id), func() {
			if r, err := w.Q.LockedByID(q, &lockuptypes.LockedRequest{LockId: id}); err == nil {
				fail("query.dead-lock-resolves", "", short(fmt.Sprintf("id %d is not live in the ledger but LockedByID returned %s", id, recString(*r.Lock))))
			}
		})
	}

	// ---- unconditioned listings ----------------------------------------------------------------
	c.locks("GetPeriodLocks", "", func() ([]lockuptypes.PeriodLock, error) { return k.GetPeriodLocks(q) }, all)
	for _, dn := range denomsOf(l) {
		dn := dn
		c.locks("GetLocksDenom", dn, func() ([]lockuptypes.PeriodLock, error) { return k.GetLocksDenom(q, dn), nil },
			func(x Lock) bool { return x.Denom == dn })
	}
	accounts := append([]string{"C"}, Owners...)
	for _, o := range accounts {
		o := o
		own := func(x Lock) bool { return x.Owner == o }
		c.locks("GetAccountPeriodLocks", o, func() ([]lockuptypes.PeriodLock, error) { return k.GetAccountPeriodLocks(q, core.Acc(o)), nil }, own)
		// documented: locked = "can't be withdrawn" = not unlocking + not finished unlocking;
		// unlocking = end time still ahead; unlockable = "not withdrawn yet", end time reached (an end time
		// equal to the block time counts as unlocked, iterator.go)
		c.coins("AccountLockedCoins", o, func() (sdk.Coins, error) {
			r, err := w.Q.AccountLockedCoins(q, &lockuptypes.AccountLockedCoinsRequest{Owner: addr(o)})
			if err != nil {
				return nil, err
			}
			return r.Coins, nil
		}, func(x Lock) bool { return own(x) && (!x.Unlocking() || x.End.After(now)) })
		c.coins("AccountUnlockingCoins", o, func() (sdk.Coins, error) {
			r, err := w.Q.AccountUnlockingCoins(q, &lockuptypes.AccountUnlockingCoinsRequest{Owner: addr(o)})
			if err != nil {
				return nil, err
			}
			return r.Coins, nil
		}, func(x Lock) bool { return own(x) && x.Unlocking() && x.End.After(now) })
		c.coins("AccountUnlockableCoins", o, func() (sdk.Coins, error) {
			r, err := w.Q.AccountUnlockableCoins(q, &lockuptypes.AccountUnlockableCoinsRequest{Owner: addr(o)})
			if err != nil {
				return nil, err
			}
			return r.Coins, nil
		}, func(x Lock) bool { return own(x) && x.Unlocking() && !x.End.After(now) })
	}

	// accumulation totals at the alphabet's own durations and at 0, on the live branch
	for _, dn := range denomsOf(l) {
		for _, d := range append([]time.Duration{0}, latticeDurs(l)...) {
			dn, d := dn, d
			c.coins("LockedDenom", dn+","+d.String()+",live", func() (sdk.Coins, error) {
				r, err := w.Q.LockedDenom(q, &lockuptypes.LockedDenomRequest{Denom: dn, Duration: d})
				if err != nil {
					return nil, err
				}
				return sdk.Coins{sdk.Coin{Denom: dn, Amount: r.Amount}}, nil
			}, func(x Lock) bool { return x.Denom == dn && x.Dur >= d })
		}
	}

	// Everything above ran on a throw-away child of the explored branch. The two lattices below run the
	// same keeper / querier code on a byte-exact copy of the lockup store (flat.go) for speed.
	q = flatContext(q, w.LockupKey)

	// ---- duration lattice ----------------------------------------------------------------------
	// every duration of the alphabet and its two neighbours, 0, 1 ns, and the largest duration
	dset := map[time.Duration]struct{}{0: {}, 1: {}, time.Duration(math.MaxInt64): {}}
	for _, d := range latticeDurs(l) {
		dset[d-1], dset[d], dset[d+1] = struct{}{}, struct{}{}, struct{}{}
	}
	var ds []time.Duration
	for d := range dset {
		ds = append(ds, d)
	}
	sort.Slice(ds, func(i, j int) bool { return ds[i] < ds[j] })
	shared := map[string]int{}
	for _, x := range l.Locks {
		shared[x.Denom+"|"+x.Dur.String()]++
	}
	perDenom := map[string]int{}
	for k := range shared {
		perDenom[strings.SplitN(k, "|", 2)[0]]++
	}
	for _, n := range perDenom {
		if n > 10 {
			w.Vac["states_with_more_than_10_duration_keys_of_one_denom"]++
			break
		}
	}
	for _, n := range shared {
		if n >= 2 {
			w.Vac["states_with_shared_accumulation_key"]++
			break
		}
	}
	for _, d := range ds {
		d := d
		ds := d.String()
		for _, dn := range denomsOf(l) {
			dn := dn
			atLeast := func(x Lock) bool { return x.Denom == dn && x.Dur >= d }
			// "amount locked for at least duration d" = sum over live locks (statement); the accumulation
			// store answers for keys >= d (GetPeriodLocksAccumulation)
			c.coins("LockedDenom", dn+","+ds, func() (sdk.Coins, error) {
				r, err := w.Q.LockedDenom(q, &lockuptypes.LockedDenomRequest{Denom: dn, Duration: d})
				if err != nil {
					return nil, err
				}
				return sdk.Coins{sdk.Coin{Denom: dn, Amount: r.Amount}}, nil
			}, atLeast)
			c.coins("GetPeriodLocksAccumulation", dn+","+ds, func() (sdk.Coins, error) {
				amt := k.GetPeriodLocksAccumulation(q, lockuptypes.QueryCondition{LockQueryType: lockuptypes.ByDuration, Denom: dn, Duration: d})
				return sdk.Coins{sdk.Coin{Denom: dn, Amount: amt}}, nil
			}, atLeast)
			c.locks("GetLocksLongerThanDurationDenom", dn+","+ds, func() ([]lockuptypes.PeriodLock, error) {
				return k.GetLocksLongerThanDurationDenom(q, dn, d), nil
			}, atLeast)
		}
		for _, o := range accounts {
			o := o
			// documented (iterator.go, README): "longer" is inclusive (>=); duration queries ignore whether
			// unlocking has started unless the name says NotUnlockingOnly
			c.locks("AccountLockedLongerDuration", o+","+ds, func() ([]lockuptypes.PeriodLock, error) {
				r, err := w.Q.AccountLockedLongerDuration(q, &lockuptypes.AccountLockedLongerDurationRequest{Owner: addr(o), Duration: d})
				if err != nil {
					return nil, err
				}
				return r.Locks, nil
			}, func(x Lock) bool { return x.Owner == o && x.Dur >= d })
			c.locks("AccountLockedLongerDurationNotUnlockingOnly", o+","+ds, func() ([]lockuptypes.PeriodLock, error) {
				r, err := w.Q.AccountLockedLongerDurationNotUnlockingOnly(q, &lockuptypes.AccountLockedLongerDurationNotUnlockingOnlyRequest{Owner: addr(o), Duration: d})
				if err != nil {
					return nil, err
				}
				return r.Locks, nil
			}, func(x Lock) bool { return x.Owner == o && x.Dur >= d && !x.Unlocking() })
			c.locks("AccountLockedDuration", o+","+ds, func() ([]lockuptypes.PeriodLock, error) {
				r, err := w.Q.AccountLockedDuration(q, &lockuptypes.AccountLockedDurationRequest{Owner: addr(o), Duration: d})
				if err != nil {
					return nil, err
				}
				return r.Locks, nil
			}, func(x Lock) bool { return x.Owner == o && x.Dur == d })
			if o == "C" {
				continue
			}
			for _, dn := range denomsOf(l) {
				dn := dn
				c.locks("AccountLockedLongerDurationDenom", o+","+dn+","+ds, func() ([]lockuptypes.PeriodLock, error) {
					r, err := w.Q.AccountLockedLongerDurationDenom(q, &lockuptypes.AccountLockedLongerDurationDenomRequest{Owner: addr(o), Duration: d, Denom: dn})
					if err != nil {
						return nil, err
					}
					return r.Locks, nil
				}, func(x Lock) bool { return x.Owner == o && x.Denom == dn && x.Dur >= d })
				c.locks("GetAccountLockedLongerDurationDenomNotUnlockingOnly", o+","+dn+","+ds, func() ([]lockuptypes.PeriodLock, error) {
					return k.GetAccountLockedLongerDurationDenomNotUnlockingOnly(q, core.Acc(o), dn, d), nil
				}, func(x Lock) bool { return x.Owner == o && x.Denom == dn && x.Dur >= d && !x.Unlocking() })
				c.locks("GetAccountLockedDurationNotUnlockingOnly", o+","+dn+","+ds, func() ([]lockuptypes.PeriodLock, error) {
					return k.GetAccountLockedDurationNotUnlockingOnly(q, core.Acc(o), dn, d), nil
				}, func(x Lock) bool { return x.Owner == o && x.Denom == dn && x.Dur == d && !x.Unlocking() })
			}
		}
	}

	// ---- time lattice --------------------------------------------------------------------------
	// now, every "now + duration", every live end time, each with both 1 ns neighbours; far past / future
	tset := map[int64]time.Time{}
	addT := func(t time.Time) {
		for _, e := range []time.Duration{-1, 0, 1} {
			tset[t.Add(e).UnixNano()] = t.Add(e)
		}
	}
	addT(now)
	for _, d := range latticeDurs(l) {
		addT(now.Add(d))
	}
	unswept := false
	for _, x := range l.Locks {
		if x.Unlocking() {
			addT(x.End)
			if !x.End.After(now) {
				unswept = true
			}
		}
	}
	if unswept {
		w.Vac["states_with_matured_unswept_lock"]++
	}
	far := 100 * 365 * 24 * time.Hour
	tset[now.Add(-far).UnixNano()] = now.Add(-far)
	tset[now.Add(far).UnixNano()] = now.Add(far)
	var ts []time.Time
	for _, t := range tset {
		ts = append(ts, t)
	}
	sort.Slice(ts, func(i, j int) bool { return ts[i].Before(ts[j]) })
	for _, t := range ts {
		t := t
		tstr := t.Format(time.RFC3339Nano)
		// documented (store.go): "unlockings finish after specific time + not started locks that will finish
		// after the time even though it start now"; an unlocking lock whose end time equals the timestamp
		// counts as unlocked (iterator.go); for a lock that has not started, the duration comparison is the
		// inclusive "longer" one, against max(0, timestamp - block time)
		need := maxDur(0, t.Sub(now))
		past := func(x Lock) bool {
			if x.Unlocking() {
				return x.End.After(t)
			}
			return x.Dur >= need
		}
		// documented: "unlockings finish before specific time + not started locks that can finish before the
		// time if start now" (strictly shorter than timestamp - block time; none if the timestamp is past)
		before := func(x Lock) bool {
			if x.Unlocking() {
				return !x.End.After(t)
			}
			return !t.Before(now) && x.Dur < t.Sub(now)
		}
		for _, dn := range denomsOf(l) {
			dn := dn
			c.locks("GetLocksPastTimeDenom", dn+","+tstr, func() ([]lockuptypes.PeriodLock, error) {
				return k.GetLocksPastTimeDenom(q, dn, t), nil
			}, func(x Lock) bool { return x.Denom == dn && past(x) })
		}
		for _, o := range accounts {
			o := o
			var gotPast, gotBefore []lockuptypes.PeriodLock
			c.locks("AccountLockedPastTime", o+","+tstr, func() ([]lockuptypes.PeriodLock, error) {
				r, err := w.Q.AccountLockedPastTime(q, &lockuptypes.AccountLockedPastTimeRequest{Owner: addr(o), Timestamp: t})
				if err != nil {
					return nil, err
				}
				gotPast = r.Locks
				return r.Locks, nil
			}, func(x Lock) bool { return x.Owner == o && past(x) })
			c.locks("AccountLockedPastTimeNotUnlockingOnly", o+","+tstr, func() ([]lockuptypes.PeriodLock, error) {
				r, err := w.Q.AccountLockedPastTimeNotUnlockingOnly(q, &lockuptypes.AccountLockedPastTimeNotUnlockingOnlyRequest{Owner: addr(o), Timestamp: t})
				if err != nil {
					return nil, err
				}
				return r.Locks, nil
			}, func(x Lock) bool { return x.Owner == o && !x.Unlocking() && past(x) })
			c.locks("AccountUnlockedBeforeTime", o+","+tstr, func() ([]lockuptypes.PeriodLock, error) {
				r, err := w.Q.AccountUnlockedBeforeTime(q, &lockuptypes.AccountUnlockedBeforeTimeRequest{Owner: addr(o), Timestamp: t})
				if err != nil {
					return nil, err
				}
				gotBefore = r.Locks
				return r.Locks, nil
			}, func(x Lock) bool { return x.Owner == o && before(x) })
			// model-free cross-check: past-time and before-time partition the account's locks
			if total := len(l.sumIDs(func(x Lock) bool { return x.Owner == o })); len(gotPast)+len(gotBefore) != total {
				fail("query.past-before-partition", "", fmt.Sprintf("%s at %s: %d locks past + %d before, the account has %d", o, tstr, len(gotPast), len(gotBefore), total))
			}
			if o == "C" {
				continue
			}
			for _, dn := range denomsOf(l) {
				dn := dn
				c.locks("AccountLockedPastTimeDenom", o+","+dn+","+tstr, func() ([]lockuptypes.PeriodLock, error) {
					r, err := w.Q.AccountLockedPastTimeDenom(q, &lockuptypes.AccountLockedPastTimeDenomRequest{Owner: addr(o), Timestamp: t, Denom: dn})
					if err != nil {
						return nil, err
					}
					return r.Locks, nil
				}, func(x Lock) bool { return x.Owner == o && x.Denom == dn && past(x) })
			}
		}
	}
	// Observation only (DESIGN.md §7 F-6): adding to a lock without a synthetic lock also increases the
	// accumulation tree filed under the EMPTY denom. No valid denom's total is affected, the statement
	// quantifies over valid denoms, so this is recorded, never asserted.
	c.guard("GetPeriodLocksAccumulation", "empty denom", func() {
		amt := k.GetPeriodLocksAccumulation(q, lockuptypes.QueryCondition{LockQueryType: lockuptypes.ByDuration, Denom: "", Duration: 0})
		if amt.IsInt64() && amt.Int64() > w.maxEmptyDenomAcc {
			w.maxEmptyDenomAcc = amt.Int64()
		}
	})
	if c.n > w.maxQueries {
		w.maxQueries = c.n
	}
	w.sumQueries += c.n
}

func (l *Ledger) sumIDs(pred func(Lock) bool) []uint64 {
	var ids []uint64
	for _, k := range l.Locks {
		if pred(k) {
			ids = append(ids, k.ID)
		}
	}
	return ids
}
