package main

import (
	"crypto/sha256"
	"encoding/binary"
	"fmt"
	"sort"
	"strings"
	"time"

	sdkmath "cosmossdk.io/math"
	storetypes "cosmossdk.io/store/types"
	sdk "github.com/cosmos/cosmos-sdk/types"
	authtypes "github.com/cosmos/cosmos-sdk/x/auth/types"
	"github.com/cosmos/gogoproto/proto"

	"github.com/osmosis-labs/osmosis/osmomath"
	"github.com/osmosis-labs/osmosis/v31/app"
	clmodel "github.com/osmosis-labs/osmosis/v31/x/concentrated-liquidity/model"
	cltypes "github.com/osmosis-labs/osmosis/v31/x/concentrated-liquidity/types"
	lockupkeeper "github.com/osmosis-labs/osmosis/v31/x/lockup/keeper"
	lockuptypes "github.com/osmosis-labs/osmosis/v31/x/lockup/types"

	"github.com/osmosis-labs/osmosis/v31/zzverif/core"
)

// The two denominations of the scenario. Both are valid denoms; one is a strict prefix of the other
// on purpose (LP-share denoms of pools 1 and 10 are exactly that on the real chain), because every
// secondary index of the module is a byte-prefix range over "<prefix>|<denom>|...".
const (
	DenomX = "gamm/pool/1"
	DenomY = "gamm/pool/10"
)

var Denoms = []string{DenomX, DenomY}

// DenomCL is the share denom of the world's one concentrated-liquidity pool. A lock of it is created by the
// concentrated-liquidity keeper for a locked full-range position (the shares are minted straight into the lock) and
// its coins are BURNT, not returned, when the lock is paid out (x/lockup unlockMaturedLockInternalLogic). Only the
// `clshare` seed creates one; the ledger then widens every per-denom lattice by this denom.
const DenomCL = "cl/pool/1"

func denomsOf(l *Ledger) []string {
	if l.CL {
		return []string{DenomX, DenomY, DenomCL}
	}
	return Denoms
}

// The duration alphabet.
var Durations = []time.Duration{time.Hour, 2 * time.Hour, 24 * time.Hour}

// Owners. C never locks anything: its answers must always be empty.
var Owners = []string{"A", "B"}

const InitialFunds = 1000000

// SweepEvery is the module's sweep period (x/lockup/abci.go: EndBlocker acts when height%120 == 0).
// It is used ONLY to choose start heights and to name vacuity events, never in an oracle.
const SweepEvery = 120

// Op is one symbol of the alphabet. All operands are literal so a replay file is self-contained.
type Op struct {
	K     string `json:"k"`               // lock unlock punlock unlockall extend setrr xunlock badtx tick
	A     string `json:"a,omitempty"`     // acting account (lock, unlockall, xunlock)
	Denom string `json:"denom,omitempty"` // lock
	Dur   int64  `json:"dur,omitempty"`   // lock / extend target, nanoseconds
	Amt   int64  `json:"amt,omitempty"`   // lock / punlock amount
	ID    uint64 `json:"id,omitempty"`    // target lock
	To    string `json:"to,omitempty"`    // setrr: new receiver (account name)
	Dt    int64  `json:"dt,omitempty"`    // tick: nanoseconds added to the block time
}

func (o Op) String() string {
	switch o.K {
	case "lock":
		return fmt.Sprintf("lock{%s %d%s %s}", o.A, o.Amt, o.Denom, time.Duration(o.Dur))
	case "cllock":
		return fmt.Sprintf("cllock{%s %d eth+uosmo full range, %s}", o.A, o.Amt, time.Duration(o.Dur))
	case "unlock":
		return fmt.Sprintf("unlock{id=%d}", o.ID)
	case "punlock":
		return fmt.Sprintf("punlock{id=%d amt=%d}", o.ID, o.Amt)
	case "xunlock":
		return fmt.Sprintf("xunlock{id=%d by=%s}", o.ID, o.A)
	case "unlockall":
		return fmt.Sprintf("unlockall{%s}", o.A)
	case "extend":
		return fmt.Sprintf("extend{id=%d to=%s}", o.ID, time.Duration(o.Dur))
	case "setrr":
		return fmt.Sprintf("setrr{id=%d to=%s}", o.ID, o.To)
	case "badtx":
		return fmt.Sprintf("badtx{%s %d%s %s ; unlock id=%d}", o.A, o.Amt, o.Denom, time.Duration(o.Dur), o.ID)
	case "tick":
		return fmt.Sprintf("tick{+%s}", time.Duration(o.Dt))
	}
	return o.K
}

// Lock is the reference ledger's record of one live lock. Built from requests and responses only.
type Lock struct {
	ID    uint64
	Owner string // account name
	Dur   time.Duration
	End   time.Time // zero: not unlocking
	Denom string
	Amt   int64
	Recv  string // account name of the reward receiver; "" = the owner (the module's documented placeholder)
}

func (l Lock) Unlocking() bool { return !l.End.IsZero() }

// Ledger is the reference model: the live locks, the model's own clock and height.
type Ledger struct {
	Locks  []Lock // ascending id
	Now    time.Time
	Height int64
	MaxID  uint64 // largest id ever reported by a response
	CL     bool   // a lock of DenomCL has existed in this history
}

func (l *Ledger) Clone() *Ledger {
	n := *l
	n.Locks = append([]Lock{}, l.Locks...)
	return &n
}

func (l *Ledger) find(id uint64) int {
	for i := range l.Locks {
		if l.Locks[i].ID == id {
			return i
		}
	}
	return -1
}

func (l *Ledger) insert(k Lock) {
	l.Locks = append(l.Locks, k)
	sort.Slice(l.Locks, func(i, j int) bool { return l.Locks[i].ID < l.Locks[j].ID })
	if k.ID > l.MaxID {
		l.MaxID = k.ID
	}
}

func (l *Ledger) remove(id uint64) {
	i := l.find(id)
	if i >= 0 {
		l.Locks = append(l.Locks[:i:i], l.Locks[i+1:]...)
	}
}

// Key is a digest of the model; it is mixed into the explorer's state key so that two histories
// are merged only when BOTH the stores and the model agree.
func (l *Ledger) Key() []byte {
	h := sha256.New()
	var b [8]byte
	put := func(v uint64) { binary.BigEndian.PutUint64(b[:], v); h.Write(b[:]) }
	put(uint64(l.Now.UnixNano()))
	put(uint64(l.Height))
	put(l.MaxID)
	if l.CL {
		h.Write([]byte("cl"))
	}
	for _, k := range l.Locks {
		put(k.ID)
		h.Write([]byte(k.Owner + "|" + k.Denom + "|" + k.Recv + "|"))
		put(uint64(k.Dur))
		if k.Unlocking() {
			put(uint64(k.End.UnixNano()))
		} else {
			put(0)
		}
		put(uint64(k.Amt))
	}
	return h.Sum(nil)[:16]
}

// sum of the model's locks matching pred, as coins
func (l *Ledger) sum(pred func(Lock) bool) sdk.Coins {
	c := sdk.NewCoins()
	for _, k := range l.Locks {
		if pred(k) && k.Amt > 0 {
			c = c.Add(sdk.NewCoin(k.Denom, sdkmath.NewInt(k.Amt)))
		}
	}
	return c
}

// World is one application instance.
type World struct {
	Env       *core.Env
	App       *app.OsmosisApp
	Q         lockupkeeper.Querier
	ModAddr   sdk.AccAddress
	LockupKey storetypes.StoreKey
	Vac       map[string]int64

	maxQueries, sumQueries int64
	maxEmptyDenomAcc       int64
}

func NewWorld(vac map[string]int64) *World {
	fund := core.Coins(DenomX, InitialFunds, DenomY, InitialFunds, "uosmo", 1000000000, "eth", 1000000000)
	env := core.NewEnv(core.GenesisOpts{Balances: map[string]sdk.Coins{"A": fund, "B": fund, "C": fund}})
	w := &World{Env: env, App: env.App, Vac: vac}
	// one concentrated-liquidity pool (eth/uosmo) so that the `clshare` seed can lock a full-range position
	cp := cltypes.DefaultParams()
	cp.IsPermissionlessPoolCreationEnabled = true
	env.App.ConcentratedLiquidityKeeper.SetParams(env.Ctx, cp)
	cm := clmodel.NewMsgCreateConcentratedPool(core.Acc("C"), "eth", "uosmo", 100, osmomath.MustNewDecFromStr("0.003"))
	if r := core.Deliver(env.App, env.Ctx, &cm); !r.OK() {
		panic(fmt.Sprintf("harness: concentrated pool creation failed: %v", r.Err))
	} else {
		var resp clmodel.MsgCreateConcentratedPoolResponse
		mustUnmarshal(r.Res, &resp)
		if fmt.Sprintf("cl/pool/%d", resp.PoolID) != DenomCL {
			panic("harness: unexpected pool id")
		}
	}
	w.Q = lockupkeeper.NewQuerier(*env.App.LockupKeeper)
	w.ModAddr = authtypes.NewModuleAddress(lockuptypes.ModuleName)
	w.LockupKey = env.App.GetKVStoreKey()[lockuptypes.StoreKey]
	return w
}

// Base returns a private branch of the application advanced to the given height by real block
// boundaries (1 s apart), and the matching empty ledger.
func (w *World) Base(height int64) (sdk.Context, *Ledger, error) {
	ctx, _ := w.Env.Ctx.CacheContext()
	for ctx.BlockHeight() < height {
		next, err := core.NextBlock(w.App, ctx, time.Second)
		if err != nil {
			return ctx, nil, err
		}
		ctx = next
	}
	return ctx, &Ledger{Now: ctx.BlockTime(), Height: ctx.BlockHeight()}, nil
}

func mustUnmarshal(res *sdk.Result, m proto.Message) {
	if len(res.MsgResponses) > 0 {
		if err := proto.Unmarshal(res.MsgResponses[0].Value, m); err != nil {
			panic(err)
		}
		return
	}
	if err := proto.Unmarshal(res.Data, m); err != nil {
		panic(err)
	}
}

// errClass maps an error to a short stable class (numbers, addresses and everything after them dropped).
func errClass(err error) string {
	if err == nil {
		return "ok"
	}
	m := []rune(err.Error())
	out := make([]rune, 0, 56)
	for _, c := range m {
		if c >= '0' && c <= '9' || c == '(' || c == '{' {
			break
		}
		out = append(out, c)
		if len(out) >= 56 {
			break
		}
	}
	return "rejected:" + strings.TrimSpace(string(out))
}

type balances struct {
	acc map[string]sdk.Coins
	mod sdk.Coins
}

func (w *World) snapshot(ctx sdk.Context) balances {
	b := balances{acc: map[string]sdk.Coins{}}
	for _, o := range Owners {
		b.acc[o] = w.App.BankKeeper.GetAllBalances(ctx, core.Acc(o))
	}
	b.mod = w.App.BankKeeper.GetAllBalances(ctx, w.ModAddr)
	return b
}

// delta returns after-before restricted to the scenario's two denoms, as signed amounts.
func delta(before, after sdk.Coins) map[string]int64 {
	d := map[string]int64{}
	for _, dn := range []string{DenomX, DenomY, DenomCL} {
		if dn == DenomCL && after.AmountOf(dn).IsZero() && before.AmountOf(dn).IsZero() {
			continue
		}
		d[dn] = after.AmountOf(dn).Sub(before.AmountOf(dn)).Int64()
	}
	return d
}

func fmtDelta(d map[string]int64) string {
	return fmt.Sprintf("{%s:%+d %s:%+d}", DenomX, d[DenomX], DenomY, d[DenomY])
}

// lockExists asks the module whether a lock id is still stored (an observation, on a throw-away branch).
func (w *World) lockExists(ctx sdk.Context, id uint64) bool {
	q, _ := ctx.CacheContext()
	_, err := w.App.LockupKeeper.GetLockByID(q, id)
	return err == nil
}

// Apply executes one op on the real application and updates the ledger from request + response.
// Post-conditions per transition:
//   - a lock disappears only when it is unlocking and the model's clock has reached its end time;
//   - the module account and each owner's balance move exactly by what the accepted request and
//     the observed releases account for (so coins leave the module only towards the lock's owner).
func (w *World) Apply(ctx sdk.Context, l *Ledger, op Op, fail func(a, s, d string)) (sdk.Context, string) {
	a := w.App
	before := w.snapshot(ctx)
	expAcc := map[string]map[string]int64{"A": {}, "B": {}}
	expMod := map[string]int64{}
	outcome := "ok"
	releaseClock := l.Now // the block time under which anything in this transition executes
	isTick, sweepH := false, false
	held := append([]Lock{}, l.Locks...)

	switch op.K {
	case "lock":
		coin := sdk.NewCoin(op.Denom, sdkmath.NewInt(op.Amt))
		r := core.Deliver(a, ctx, &lockuptypes.MsgLockTokens{Owner: core.Acc(op.A).String(), Duration: time.Duration(op.Dur), Coins: sdk.NewCoins(coin)})
		if !r.OK() {
			outcome = errClass(r.Err)
			break
		}
		var resp lockuptypes.MsgLockTokensResponse
		mustUnmarshal(r.Res, &resp)
		w.modelLock(l, op, resp.ID, fail)
		expAcc[op.A][op.Denom] -= op.Amt
		expMod[op.Denom] += op.Amt
	case "cllock":
		// seed only: a locked full-range position, created the way superfluid migration / the CL message server do it
		var id uint64
		var liq osmomath.Dec
		err := core.Try(func() error {
			pd, lid, e := a.ConcentratedLiquidityKeeper.CreateFullRangePositionLocked(ctx, 1, core.Acc(op.A), sdk.NewCoins(sdk.NewInt64Coin("eth", op.Amt), sdk.NewInt64Coin("uosmo", op.Amt)), time.Duration(op.Dur))
			id, liq = lid, pd.Liquidity
			return e
		})
		if err != nil {
			outcome = errClass(err)
			break
		}
		amt := liq.TruncateInt().Int64()
		if id <= l.MaxID {
			fail("lock.id-not-fresh", "", fmt.Sprintf("request %s answered with id %d which was used before (max id seen %d)", op, id, l.MaxID))
		}
		l.insert(Lock{ID: id, Owner: op.A, Dur: time.Duration(op.Dur), Denom: DenomCL, Amt: amt})
		l.CL = true
		expMod[DenomCL] += amt
		w.Vac["cl_share_lock_created"]++
	case "unlock", "punlock", "xunlock":
		i := l.find(op.ID)
		sender := op.A
		var coins sdk.Coins
		if i >= 0 {
			if op.K != "xunlock" {
				sender = l.Locks[i].Owner
			}
			if op.K == "punlock" {
				coins = sdk.NewCoins(sdk.NewCoin(l.Locks[i].Denom, sdkmath.NewInt(op.Amt)))
			}
		} else if sender == "" {
			sender = "A"
		}
		r := core.Deliver(a, ctx, &lockuptypes.MsgBeginUnlocking{Owner: core.Acc(sender).String(), ID: op.ID, Coins: coins})
		if !r.OK() {
			outcome = errClass(r.Err)
			break
		}
		var resp lockuptypes.MsgBeginUnlockingResponse
		mustUnmarshal(r.Res, &resp)
		if i < 0 {
			fail("unlock.accepted-for-unknown-lock", "", fmt.Sprintf("begin-unlock of id %d accepted, the ledger has no such live lock", op.ID))
			break
		}
		k := l.Locks[i]
		if sender != k.Owner {
			fail("unlock.accepted-from-non-owner", "", fmt.Sprintf("begin-unlock of lock %d (owner %s) sent by %s was accepted", k.ID, k.Owner, sender))
		}
		if k.Unlocking() {
			fail("unlock.accepted-on-unlocking-lock", "", fmt.Sprintf("begin-unlock of lock %d accepted although it is already unlocking (end %s): the time lock would restart or the lock would split", k.ID, k.End))
		}
		switch {
		case resp.UnlockingLockID == k.ID:
			// the whole lock starts unlocking
			if op.K == "punlock" && op.Amt != k.Amt {
				fail("unlock.partial-request-unlocked-whole-lock", "", fmt.Sprintf("lock %d holds %d, partial request for %d answered with the same id", k.ID, k.Amt, op.Amt))
			}
			l.Locks[i].End = l.Now.Add(k.Dur)
			w.Vac["full_unlock"]++
		default:
			// split: the response names the new lock that carries the requested coins
			if op.K != "punlock" {
				fail("unlock.full-request-split-lock", "", fmt.Sprintf("full begin-unlock of lock %d answered with a different id %d", k.ID, resp.UnlockingLockID))
				break
			}
			if l.find(resp.UnlockingLockID) >= 0 || resp.UnlockingLockID <= l.MaxID {
				fail("unlock.split-id-not-fresh", "", fmt.Sprintf("split of lock %d answered with id %d which was already used (max id seen %d)", k.ID, resp.UnlockingLockID, l.MaxID))
				break
			}
			if op.Amt >= k.Amt {
				fail("unlock.split-exceeds-lock", "", fmt.Sprintf("lock %d holds %d by the ledger, a partial begin-unlock of %d was accepted and split it", k.ID, k.Amt, op.Amt))
				break
			}
			l.Locks[i].Amt = k.Amt - op.Amt
			l.insert(Lock{ID: resp.UnlockingLockID, Owner: k.Owner, Dur: k.Dur, End: l.Now.Add(k.Dur), Denom: k.Denom, Amt: op.Amt, Recv: k.Recv})
			w.Vac["partial_unlock_split"]++
		}
	case "unlockall":
		r := core.Deliver(a, ctx, &lockuptypes.MsgBeginUnlockingAll{Owner: core.Acc(op.A).String()})
		if !r.OK() {
			outcome = errClass(r.Err)
			break
		}
		n := 0
		for i := range l.Locks {
			if l.Locks[i].Owner == op.A && !l.Locks[i].Unlocking() {
				l.Locks[i].End = l.Now.Add(l.Locks[i].Dur)
				n++
			}
		}
		if n > 0 {
			w.Vac["unlock_all_nonempty"]++
		}
		if n > 1 {
			w.Vac["unlock_all_several"]++
		}
	case "extend":
		i := l.find(op.ID)
		sender := "A"
		if i >= 0 {
			sender = l.Locks[i].Owner
		}
		r := core.Deliver(a, ctx, &lockuptypes.MsgExtendLockup{Owner: core.Acc(sender).String(), ID: op.ID, Duration: time.Duration(op.Dur)})
		if !r.OK() {
			outcome = errClass(r.Err)
			break
		}
		if i < 0 {
			fail("extend.accepted-for-unknown-lock", "", fmt.Sprintf("extend of id %d accepted, the ledger has no such live lock", op.ID))
			break
		}
		k := l.Locks[i]
		if time.Duration(op.Dur) <= k.Dur {
			// documented: "Provided duration should be greater than the original duration"
			fail("extend.accepted-not-longer", "", fmt.Sprintf("lock %d duration %s, extend to %s accepted", k.ID, k.Dur, time.Duration(op.Dur)))
		}
		if k.Unlocking() {
			fail("extend.accepted-on-unlocking-lock", "", fmt.Sprintf("lock %d is unlocking (end %s), extend accepted", k.ID, k.End))
		}
		l.Locks[i].Dur = time.Duration(op.Dur)
		w.Vac["extend_ok"]++
	case "setrr":
		i := l.find(op.ID)
		sender := "A"
		if i >= 0 {
			sender = l.Locks[i].Owner
		}
		r := core.Deliver(a, ctx, &lockuptypes.MsgSetRewardReceiverAddress{Owner: core.Acc(sender).String(), LockID: op.ID, RewardReceiver: core.Acc(op.To).String()})
		if !r.OK() {
			outcome = errClass(r.Err)
			break
		}
		if i < 0 {
			fail("setrr.accepted-for-unknown-lock", "", fmt.Sprintf("set-reward-receiver of id %d accepted, the ledger has no such live lock", op.ID))
			break
		}
		if op.To == l.Locks[i].Owner {
			l.Locks[i].Recv = ""
		} else {
			l.Locks[i].Recv = op.To
		}
		w.Vac["setrr_ok"]++
	case "badtx":
		// atomic two-message transaction whose second message fails: nothing of the first may remain
		coin := sdk.NewCoin(op.Denom, sdkmath.NewInt(op.Amt))
		rs := core.DeliverTx(a, ctx,
			&lockuptypes.MsgLockTokens{Owner: core.Acc(op.A).String(), Duration: time.Duration(op.Dur), Coins: sdk.NewCoins(coin)},
			&lockuptypes.MsgBeginUnlocking{Owner: core.Acc(op.A).String(), ID: op.ID})
		if len(rs) == 2 && rs[1].OK() {
			fail("badtx.second-message-accepted", "", fmt.Sprintf("begin-unlock of never-issued id %d accepted", op.ID))
		}
		outcome = "rejected:atomic-tx-second-message-failed"
		w.Vac["atomic_tx_reverted"]++
	case "tick":
		sweepHeight := l.Height%SweepEvery == 0
		next, err := core.NextBlock(a, ctx, time.Duration(op.Dt))
		if err != nil {
			fail("block.boundary-succeeds", "", err.Error())
			return ctx, "rejected:block"
		}
		ctx = next
		// Everything the module does on its own at a boundary runs in the EndBlocker of the block that
		// ends, i.e. under the OLD block time (x/lockup has an empty BeginBlocker): releaseClock stays.
		l.Height++
		l.Now = l.Now.Add(time.Duration(op.Dt))
		if ctx.BlockHeight() != l.Height || !ctx.BlockTime().Equal(l.Now) {
			fail("harness.clock", "", fmt.Sprintf("model (h=%d,t=%s) application (h=%d,t=%s)", l.Height, l.Now, ctx.BlockHeight(), ctx.BlockTime()))
		}
		isTick, sweepH = true, sweepHeight
	default:
		panic("unknown op " + op.K)
	}

	// Observation: which of the ledger's locks are gone? A lock may only disappear by being paid out.
	var gone []Lock
	for _, k := range l.Locks {
		if !w.lockExists(ctx, k.ID) {
			gone = append(gone, k)
		}
	}
	for _, k := range gone {
		switch {
		case !k.Unlocking():
			fail("release.lock-not-unlocking", "", fmt.Sprintf("lock %d (%s %d%s %s) disappeared during %s although unlocking never began", k.ID, k.Owner, k.Amt, k.Denom, k.Dur, op))
		case releaseClock.Before(k.End):
			fail("release.before-end-time", "", fmt.Sprintf("lock %d (%s %d%s %s) released during %s at model time %s, before unlock start + duration = %s", k.ID, k.Owner, k.Amt, k.Denom, k.Dur, op, releaseClock.Format(time.RFC3339Nano), k.End.Format(time.RFC3339Nano)))
		}
		if k.Denom != DenomCL { // concentrated-liquidity shares are burnt from the module account, not returned
			expAcc[k.Owner][k.Denom] += k.Amt
		} else {
			w.Vac["cl_share_lock_paid_out"]++
		}
		expMod[k.Denom] -= k.Amt
		l.remove(k.ID)
	}

	if isTick {
		// vacuity only: which kinds of boundary happened
		for _, k := range held {
			if l.find(k.ID) < 0 || !k.Unlocking() {
				continue
			}
			if k.End.After(releaseClock) && sweepH {
				w.Vac["sweep_boundary_kept_immature_lock"]++
			}
			if !k.End.After(releaseClock) && !sweepH {
				w.Vac["nonsweep_boundary_kept_matured_lock"]++
			}
		}
		if len(gone) > 0 {
			w.Vac["sweep_released"]++
		}
	}

	after := w.snapshot(ctx)
	for _, o := range Owners {
		got := delta(before.acc[o], after.acc[o])
		for _, dn := range denomsOf(l) {
			if got[dn] != expAcc[o][dn] {
				fail("transfer.owner-balance-delta", "", fmt.Sprintf("during %s the balance of %s moved by %s, the request and the observed releases account for %s", op, o, fmtDelta(got), fmtDelta(expAcc[o])))
				break
			}
		}
	}
	gotMod := delta(before.mod, after.mod)
	for _, dn := range denomsOf(l) {
		if gotMod[dn] != expMod[dn] {
			fail("transfer.module-balance-delta", "", fmt.Sprintf("during %s the module account moved by %s, the request and the observed releases account for %s", op, fmtDelta(gotMod), fmtDelta(expMod)))
			break
		}
	}
	return ctx, outcome
}

// modelLock applies an accepted MsgLockTokens to the ledger: the response id decides between
// "new lock" and "added to an existing lock".
func (w *World) modelLock(l *Ledger, op Op, id uint64, fail func(a, s, d string)) {
	if i := l.find(id); i >= 0 {
		k := l.Locks[i]
		// documented (msg_server.go LockTokens / keeper AddToExistingLock): tokens are added to a lock of
		// the same owner, denom and duration that has not started unlocking
		if k.Owner != op.A || k.Denom != op.Denom || k.Dur != time.Duration(op.Dur) || k.Unlocking() {
			fail("lock.added-to-wrong-lock", "", fmt.Sprintf("request %s answered with id %d = {%s %d%s %s unlocking=%v}", op, id, k.Owner, k.Amt, k.Denom, k.Dur, k.Unlocking()))
		}
		l.Locks[i].Amt += op.Amt
		w.Vac["add_to_existing_lock"]++
		return
	}
	if id <= l.MaxID {
		fail("lock.id-not-fresh", "", fmt.Sprintf("request %s answered with id %d which was used before (max id seen %d)", op, id, l.MaxID))
	}
	for _, k := range l.Locks {
		if k.Owner == op.A && k.Denom == op.Denom && k.Dur == time.Duration(op.Dur) && !k.Unlocking() {
			w.Vac["new_lock_despite_matching_lock"]++ // not asserted: the statement allows either
		}
		if k.Owner == op.A && k.Denom == op.Denom && k.Dur == time.Duration(op.Dur) && k.Unlocking() {
			w.Vac["new_lock_beside_unlocking_twin"]++
		}
	}
	l.insert(Lock{ID: id, Owner: op.A, Dur: time.Duration(op.Dur), Denom: op.Denom, Amt: op.Amt})
	w.Vac["lock_created"]++
}

// Alphabet is the static part of the operation alphabet; per-lock symbols are added per state.
type Alphabet struct {
	Locks      []Op    `json:"locks"`
	Partial    []int64 `json:"partial_amounts"`
	Dts        []int64 `json:"dts_ns"`
	MaxLocks   int     `json:"max_live_locks_for_new_lock"`
	ExtendTwo  bool    `json:"extend_two_steps"`
	SetRRBack  bool    `json:"setrr_back_to_owner"`
	Foreign    bool    `json:"foreign_begin_unlock"`
	BadTx      bool    `json:"atomic_tx_with_failing_second_msg"`
	UnlockAll  bool    `json:"begin_unlocking_all"`
	SetRR      bool    `json:"set_reward_receiver"`
	GhostProbe bool    `json:"ops_on_never_issued_id"`
}

// latticeDurs is the alphabet's durations plus every duration a live lock of the ledger has (the "spread"
// seed uses 13 distinct durations so that lockup's accumulation sum-tree, fan-out 10, has split).
func latticeDurs(l *Ledger) []time.Duration {
	set := map[time.Duration]struct{}{}
	for _, d := range Durations {
		set[d] = struct{}{}
	}
	for _, x := range l.Locks {
		set[x.Dur] = struct{}{}
	}
	out := make([]time.Duration, 0, len(set))
	for d := range set {
		out = append(out, d)
	}
	sort.Slice(out, func(i, j int) bool { return out[i] < out[j] })
	return out
}

func nextLonger(d time.Duration, steps int) time.Duration {
	// the steps-th alphabet duration strictly longer than d (the longest one if there are fewer)
	for i, x := range Durations {
		if x > d {
			j := i + steps - 1
			if j >= len(Durations) {
				j = len(Durations) - 1
			}
			return Durations[j]
		}
	}
	return Durations[len(Durations)-1]
}

func (w *World) Enabled(al *Alphabet) func(ctx sdk.Context, l *Ledger, depth int) []Op {
	return func(ctx sdk.Context, l *Ledger, depth int) []Op {
		var ops []Op
		for _, lo := range al.Locks {
			if len(l.Locks) < al.MaxLocks {
				ops = append(ops, lo)
				continue
			}
			// at the cap only additions to an existing lock stay enabled
			for _, k := range l.Locks {
				if k.Owner == lo.A && k.Denom == lo.Denom && k.Dur == time.Duration(lo.Dur) && !k.Unlocking() {
					ops = append(ops, lo)
					break
				}
			}
		}
		for _, k := range l.Locks {
			ops = append(ops, Op{K: "unlock", ID: k.ID})
			for _, p := range al.Partial {
				ops = append(ops, Op{K: "punlock", ID: k.ID, Amt: p})
			}
			ops = append(ops, Op{K: "extend", ID: k.ID, Dur: int64(nextLonger(k.Dur, 1))})
			if al.ExtendTwo && nextLonger(k.Dur, 2) != nextLonger(k.Dur, 1) {
				ops = append(ops, Op{K: "extend", ID: k.ID, Dur: int64(nextLonger(k.Dur, 2))})
			}
			other := "B"
			if k.Owner == "B" {
				other = "A"
			}
			if al.SetRR {
				ops = append(ops, Op{K: "setrr", ID: k.ID, To: other})
			}
			if al.SetRRBack {
				ops = append(ops, Op{K: "setrr", ID: k.ID, To: k.Owner})
			}
			if al.Foreign {
				ops = append(ops, Op{K: "xunlock", ID: k.ID, A: other})
			}
		}
		if al.UnlockAll {
			ops = append(ops, Op{K: "unlockall", A: "A"}, Op{K: "unlockall", A: "B"})
		}
		if al.GhostProbe {
			ops = append(ops, Op{K: "unlock", ID: l.MaxID + 1})
		}
		if al.BadTx {
			ops = append(ops, Op{K: "badtx", A: "A", Denom: DenomX, Dur: int64(time.Hour), Amt: 100, ID: 999})
		}
		for _, dt := range al.Dts {
			ops = append(ops, Op{K: "tick", Dt: dt})
		}
		return ops
	}
}
