package main

import (
	"fmt"
	"math/big"
	"regexp"

	"github.com/osmosis-labs/osmosis/v31/zzverif/core"
)

// Failure is one failed assertion of one configuration; only the first failing epoch of every
// assertion is kept (later epochs of the same run repeat the same defect).
type Failure struct {
	Assertion string
	Epoch     int64
	Detail    string
}

type failSet struct {
	list []Failure
	seen map[string]bool
}

func (fs *failSet) add(assertion string, epoch int64, detail string) {
	if fs.seen == nil {
		fs.seen = map[string]bool{}
	}
	if fs.seen[assertion] {
		return
	}
	fs.seen[assertion] = true
	fs.list = append(fs.list, Failure{assertion, epoch, detail})
}

func find(fl []Failure, assertion string) (Failure, bool) {
	for _, f := range fl {
		if f.Assertion == assertion {
			return f, true
		}
	}
	return Failure{}, false
}

var digits = regexp.MustCompile(`[0-9]+`)

func errClass(err error) string {
	s := digits.ReplaceAllString(err.Error(), "N")
	if len(s) > 120 {
		s = s[:120]
	}
	return s
}

// epochDelta is the per-epoch record compared between the two drivers (direct hook calls vs real
// block boundaries): changes of every balance-like component, absolute minter state.
type epochDelta struct {
	names []string
	vals  []*big.Int
}

func deltaOf(before, after *Obs) epochDelta {
	n, vb := before.vector(true)
	_, va := after.vector(true)
	out := epochDelta{names: n}
	for i := range va {
		if i >= len(va)-2 { // provisions, last reduction epoch: absolute
			out.vals = append(out.vals, va[i])
		} else {
			out.vals = append(out.vals, sub(va[i], vb[i]))
		}
	}
	return out
}

func (d epochDelta) diff(o epochDelta) string {
	s := ""
	for i := range d.vals {
		if d.vals[i].Cmp(o.vals[i]) != 0 {
			s += fmt.Sprintf(" %s: hook-driver %s, block-driver %s;", d.names[i], d.vals[i], o.vals[i])
		}
	}
	return s
}

// checkEpoch compares one executed epoch with the reference.
func (w *World) checkEpoch(n int64, before, after *Obs, e *Expect, hookErr error, fs *failSet, vac map[string]int64) {
	errNote := ""
	if hookErr != nil {
		errNote = " [hook failed: " + errClass(hookErr) + "]"
	}
	fail := func(a, format string, args ...interface{}) {
		fs.add(a, n, fmt.Sprintf("epoch %d: ", n)+fmt.Sprintf(format, args...)+errNote)
	}
	d := func(f func(o *Obs) *big.Int) *big.Int { return sub(f(after), f(before)) }

	if !e.Active {
		vac["epoch_before_start_no_effect"]++
		if s := diff(before, after, false); s != "" {
			fail("inactive_epoch_no_effect", "epoch before the start epoch %d changed state:%s", w.Cfg.Start, s)
		}
		if after.Prov.Cmp(decRaw(e.Prov)) != 0 || after.LastRed != e.LastRed {
			fail("provision_schedule", "minter state changed before the start epoch")
		}
		return
	}

	if e.Refused {
		vac["vesting_exhausted_epoch_refused"]++
		if hookErr == nil {
			fail("refusal_reported", "the developer vesting account (%s) does not cover the developer share, yet the hook reported success", before.Vesting)
		}
		if s := diff(before, after, false); s != "" {
			fail("refused_epoch_no_effect", "refused epoch changed state:%s", s)
		}
		return
	}
	if before.Vesting.Cmp(e.P) < 0 && e.D.Sign() > 0 {
		vac["vesting_below_provision_still_mints"]++
	}

	// ---- emission schedule
	if after.Prov.Cmp(decRaw(e.Prov)) != 0 {
		fail("provision_schedule", "Minter.EpochProvisions = %s, reference %s (reduction due at this epoch: %v; before the epoch %s)",
			new(big.Rat).SetFrac(after.Prov, ten18).FloatString(18), decStr(e.Prov), e.Reduced, new(big.Rat).SetFrac(before.Prov, ten18).FloatString(18))
	}
	if after.LastRed != e.LastRed {
		fail("last_reduction_epoch", "stored last reduction epoch = %d, reference %d", after.LastRed, e.LastRed)
	}
	if e.Reduced {
		vac["reduction_applied"]++
		if before.Prov.Cmp(after.Prov) != 0 {
			vac["reduction_changed_provision"]++
		}
	}

	// ---- reported supply
	dSup := d(func(o *Obs) *big.Int { return o.SupplyOff })
	dVest := d(func(o *Obs) *big.Int { return o.Vesting })
	if dSup.Cmp(e.P) != 0 {
		fail("supply_delta", "supply-with-offset grew by %s, floor(provision) = %s (difference %s). raw supply %+d, supply offset %+d; "+
			"developer share D=%s burned from the mint account, developer vesting account balance changed by %s (split %v, truncation remainder D-sum = %s)",
			dSup, e.P, sub(e.P, dSup), d(func(o *Obs) *big.Int { return o.Supply }), d(func(o *Obs) *big.Int { return o.Offset }),
			e.D, dVest, e.Dev, e.R)
	}
	if after.Mint.Sign() != 0 {
		fail("mint_account_empty", "mint module account holds %s after the epoch (before: %s)", after.Mint, before.Mint)
	}

	// ---- shares
	dFee := d(func(o *Obs) *big.Int { return o.FeeCol })
	dPI := d(func(o *Obs) *big.Int { return o.PI })
	dInc := d(func(o *Obs) *big.Int { return o.Inc })
	dDistr := d(func(o *Obs) *big.Int { return o.DistrMod })
	dCommRaw := d(func(o *Obs) *big.Int { return o.Community })
	if dFee.Cmp(e.S) != 0 {
		fail("share_staking", "fee collector received %s, floor(P*staking) = %s (P=%s)", dFee, e.S, e.P)
	}
	piKept := sub(e.I, e.PIToCommunity)
	if new(big.Int).Add(dPI, dInc).Cmp(piKept) != 0 {
		fail("share_pool_incentives", "pool-incentives module %+d plus gauges (incentives module) %+d, expected %s = floor(P*pool)=%s minus %s forwarded to the community pool (P=%s)",
			dPI, dInc, piKept, e.I, e.PIToCommunity, e.P)
	}
	gSum := bi(0)
	for i := range after.Gauges {
		g := sub(after.Gauges[i], before.Gauges[i])
		gSum.Add(gSum, e.Gauges[i])
		if g.Cmp(e.Gauges[i]) != 0 {
			fail("pool_incentives_forwarding", "gauge #%d (record weight %d) received %s, reference %s", i, w.Cfg.Records[i], g, e.Gauges[i])
		}
	}
	if dPI.Cmp(e.PIModule) != 0 || dInc.Cmp(gSum) != 0 {
		fail("pool_incentives_forwarding", "pool-incentives module balance %+d (reference %+d), incentives module %+d (reference %+d)", dPI, e.PIModule, dInc, gSum)
	}
	recvSum := bi(0)
	for i, r := range w.Cfg.Receivers {
		if r.Name == "" {
			if e.Dev[i].Sign() > 0 {
				vac["empty_address_receiver_path"]++
			}
			continue
		}
		g := sub(after.Recv[i], before.Recv[i])
		recvSum.Add(recvSum, g)
		if g.Cmp(e.Dev[i]) != 0 {
			fail("share_developer", "receiver %s (weight %s) received %s, floor(floor(P*dev)*w) = %s (D=%s)", r.Name, r.Weight, g, e.Dev[i], e.D)
		}
	}
	// community pool = FeePool.CommunityPool, which must be backed by the distribution account
	if new(big.Int).Mul(dDistr, ten18).Cmp(dCommRaw) != 0 {
		fail("community_pool_backed", "FeePool.CommunityPool changed by %s e-18 while the distribution module account changed by %s", dCommRaw, dDistr)
	}
	dComm, rem := new(big.Int).QuoRem(dCommRaw, ten18, new(big.Int))
	if rem.Sign() != 0 {
		fail("community_pool_backed", "community pool changed by a fractional amount %s e-18", dCommRaw)
	}
	sum := new(big.Int).Add(dFee, dPI)
	sum.Add(sum, dInc)
	sum.Add(sum, recvSum)
	sum.Add(sum, dComm)
	if sum.Cmp(e.P) != 0 {
		fail("allocation_sum", "fee collector %s + pool incentives %s + gauges %s + developer receivers %s + community pool %s = %s, floor(provision) = %s (missing %s). "+
			"community pool should take the remainder %s; developer split of D=%s is %v, D-sum = %s, developer vesting account changed by %s",
			dFee, dPI, dInc, recvSum, dComm, sum, e.P, sub(e.P, sum), e.Community, e.D, e.Dev, e.R, dVest)
	}

	// ---- events that make the run meaningful
	floorC := share(e.P, parseDec(w.Cfg.Prop[3]))
	own := new(big.Int).Add(e.S, e.I)
	own.Add(own, e.D)
	own.Add(own, floorC)
	if own.Cmp(e.P) < 0 {
		vac["truncation_remainder_seen"]++
	}
	if e.R.Sign() > 0 {
		vac["developer_split_remainder_seen"]++
	}
	if e.PIToCommunity.Sign() > 0 {
		vac["no_distr_records_forward"]++
	}
	if len(w.Cfg.Receivers) == 0 && e.D.Sign() > 0 {
		vac["no_receivers_path"]++
	}
	if len(w.Cfg.Records) > 1 && sub(after.PI, bi(0)).Sign() > 0 {
		vac["pool_incentives_carry_seen"]++
	}
	if e.P.Sign() == 0 {
		vac["zero_provision_epoch"]++
	}
	if e.CPZero {
		vac["community_pool_record_share_truncates_to_zero"]++
	}
	if e.CPPos {
		vac["community_pool_record_share_positive"]++
	}
}

// runHooks drives AfterEpochEnd(mintEpochID, n) for n = 1..upTo on a branch of the base context.
func (w *World) runHooks(upTo int64, vac map[string]int64, trace func(string)) (fails []Failure, deltas []epochDelta, transitions int64) {
	ctx, _ := w.Env.Ctx.CacheContext()
	m := NewModel(w.Cfg)
	fs := &failSet{}
	prev := w.Observe(ctx)
	for n := int64(1); n <= upTo; n++ {
		// a different epoch identifier must be ignored
		err := w.callHook(ctx, otherEpochID, n)
		transitions++
		before := w.Observe(ctx)
		if s := diff(prev, before, false); err != nil || s != "" {
			fs.add("foreign_identifier_noop", n, fmt.Sprintf("epoch %d: hook with identifier %q: err=%v changes:%s", n, otherEpochID, err, s))
		}
		err = w.callHook(ctx, mintEpochID, n)
		transitions++
		after := w.Observe(ctx)
		e := m.Step(n)
		w.checkEpoch(n, before, after, e, err, fs, vac)
		deltas = append(deltas, deltaOf(before, after))
		if trace != nil {
			trace(fmt.Sprintf("epoch %d hook: %s | observed:%s", n, e, diff(before, after, false)))
		}
		prev = after
	}
	return fs.list, deltas, transitions
}

// runBlocks drives the same epochs through real block boundaries: x/epochs' BeginBlocker fires the
// registered hooks. Per-epoch deltas must equal those of runHooks.
func (w *World) runBlocks(upTo int64, ref []epochDelta, trace func(string)) (fails []Failure, transitions int64) {
	ctx, _ := w.Env.Ctx.CacheContext()
	fs := &failSet{}
	var err error
	// first boundary: epoch counting starts (epoch 1 begins, nothing ends)
	b0 := w.Observe(ctx)
	if ctx, err = core.NextBlock(w.App, ctx, blockDt); err != nil {
		panic(fmt.Sprintf("harness: block boundary failed: %v", err))
	}
	transitions++
	if s := diff(b0, w.Observe(ctx), true); s != "" {
		fs.add("seam_conformance", 0, "the block that starts epoch counting changed state:"+s)
	}
	for n := int64(1); n <= upTo; n++ {
		if cur := w.App.EpochsKeeper.GetEpochInfo(ctx, mintEpochID).CurrentEpoch; cur != n {
			panic(fmt.Sprintf("harness: block driver out of step: current epoch %d, expected %d", cur, n))
		}
		before := w.Observe(ctx)
		if ctx, err = core.NextBlock(w.App, ctx, blockDt); err != nil {
			panic(fmt.Sprintf("harness: block boundary failed: %v", err))
		}
		transitions++
		after := w.Observe(ctx)
		got := deltaOf(before, after)
		if s := ref[n-1].diff(got); s != "" {
			fs.add("seam_conformance", n, fmt.Sprintf("epoch %d:%s", n, s))
		}
		if trace != nil {
			trace(fmt.Sprintf("epoch %d block: observed:%s", n, diff(before, after, true)))
		}
	}
	return fs.list, transitions
}
