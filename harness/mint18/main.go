package main

import (
	"fmt"
	"os"
	"reflect"

	"github.com/osmosis-labs/osmosis/v31/zzverif/core"
)

// dimension order in which a failing configuration is simplified (cheapest runs first)
var shrinkOrder = []int{dPer, dStart, dFac, dRec, dProv, dProp, dRecv}

type replayCfg struct {
	Config Config `json:"config"`
	Mode   string `json:"mode"` // "hooks" | "blocks" (hooks + conformance through block boundaries)
}

type runner struct {
	f    *core.Flags
	r    *core.Result
	memo map[string][]Failure // hook-driver failures per configuration (shrinking only)
	sink map[string]int64     // vacuity counters of runs that are not part of the enumeration
}

// evalHooks builds a fresh world and runs the hook driver; invalid configurations yield ok=false.
func evalHooks(c Config, upTo int64, vac map[string]int64) (fails []Failure, deltas []epochDelta, tr int64, w *World, err error) {
	w, err = NewWorld(c)
	if err != nil {
		return nil, nil, 0, nil, err
	}
	fails, deltas, tr = w.runHooks(upTo, vac, nil)
	return fails, deltas, tr, w, nil
}

func (rn *runner) evalMemo(p Point) []Failure {
	c := p.Config()
	k := c.String()
	if fl, ok := rn.memo[k]; ok {
		return fl
	}
	fails, _, _, w, err := evalHooks(c, c.Epochs(), rn.sink)
	if err == nil {
		w.Close()
	}
	rn.memo[k] = fails
	rn.r.Extra["sum_shrink_runs"] = rn.r.Extra["sum_shrink_runs"].(int64) + 1
	return fails
}

// shrink moves a failing lattice point towards the simplest value in every dimension as long as the same
// assertion keeps failing on the real code, and returns the simplest failing point with its failure.
func (rn *runner) shrink(p Point, first Failure) (Point, Failure) {
	cur, curF := p, first
	for changed := true; changed; {
		changed = false
		for _, d := range shrinkOrder {
			for _, v := range simpler[d] {
				if v == cur[d] {
					break // only values simpler than the current one
				}
				cand := cur
				cand[d] = v
				if fl, ok := find(rn.evalMemo(cand), curF.Assertion); ok {
					cur, curF, changed = cand, fl, true
					break
				}
			}
		}
	}
	return cur, curF
}

func signature(assertion string, c Config, epoch int64) string {
	return fmt.Sprintf("%s|%s|epoch=%d", assertion, c.String(), epoch)
}

func (rn *runner) report(c Config, fl Failure, mode string) {
	rn.r.AddViolation(core.Violation{Property: rn.f.Prop, Assertion: fl.Assertion, Signature: signature(fl.Assertion, c, fl.Epoch),
		Detail: c.String() + " -- " + fl.Detail, Replay: replayCfg{Config: c, Mode: mode}})
}

func sameFailures(a, b []Failure) bool {
	if len(a) == 0 && len(b) == 0 {
		return true
	}
	return reflect.DeepEqual(a, b)
}

func (rn *runner) point(p Point) {
	r := rn.r
	c := p.Config()
	fails, deltas, tr, w, err := evalHooks(c, c.Epochs(), r.Vacuity)
	if err != nil {
		r.Rejected["invalid_config:"+errClass(err)]++
		return
	}
	defer w.Close()
	n := c.Epochs()
	r.States += n
	r.Transitions += tr
	r.Traces++
	if cur, _ := r.Extra["max_epochs_per_config"].(int64); n > cur {
		r.Extra["max_epochs_per_config"] = n
	}
	if len(r.Samples) < 3 && len(c.Receivers) == 3 && len(c.Records) == 2 {
		r.AddSample(fmt.Sprintf("%s: %d consecutive epochs, %d failed assertions", c, n, len(fails)))
	}

	if len(fails) > 0 {
		// replay on a fresh application (through the last epoch at which an assertion failed for the
		// first time) before believing anything
		last := int64(0)
		for _, fl := range fails {
			if fl.Epoch > last {
				last = fl.Epoch
			}
		}
		again, _, _, w2, err2 := evalHooks(c, last, rn.sink)
		if err2 == nil {
			w2.Close()
		}
		if err2 != nil || !sameFailures(fails, again) {
			fmt.Fprintf(os.Stderr, "harness: non-reproducible result for %s:\n first  %v\n second %v\n", c, fails, again)
			os.Exit(2)
		}
		rn.memo[c.String()] = fails
		for _, fl := range fails {
			r.Extra["sum_raw_failing_points"] = r.Extra["sum_raw_failing_points"].(int64) + 1
			mp, mf := rn.shrink(p, fl)
			rn.report(mp.Config(), mf, "hooks")
		}
	}

	if conformance(p) {
		bf, btr := w.runBlocks(n, deltas, nil)
		r.Transitions += btr
		r.Traces++
		r.Vacuity["conformance_runs"]++
		if c.Period > 3 {
			r.Vacuity["conformance_runs_long_period"]++
		}
		if len(bf) > 0 {
			bf2, _ := w.runBlocks(n, deltas, nil)
			if !sameFailures(bf, bf2) {
				fmt.Fprintf(os.Stderr, "harness: non-reproducible block-driver result for %s\n", c)
				os.Exit(2)
			}
			for _, fl := range bf {
				rn.report(c, fl, "blocks")
			}
		}
	}
}

func runReplay(f *core.Flags, r *core.Result) {
	var rp replayCfg
	core.ReadReplay(f.Replay, &rp)
	c := rp.Config
	w, err := NewWorld(c)
	if err != nil {
		fmt.Fprintln(os.Stderr, "harness: configuration refused by Params.Validate:", err)
		os.Exit(2)
	}
	defer w.Close()
	fmt.Println("config:", c.String())
	tr := func(s string) { fmt.Println(s) }
	fails, deltas, n := w.runHooks(c.Epochs(), r.Vacuity, tr)
	r.Transitions += n
	r.States += c.Epochs()
	r.Traces++
	if rp.Mode == "blocks" {
		bf, bn := w.runBlocks(c.Epochs(), deltas, tr)
		r.Transitions += bn
		r.Traces++
		fails = append(fails, bf...)
	}
	for _, fl := range fails {
		r.AddViolation(core.Violation{Property: f.Prop, Assertion: fl.Assertion, Signature: signature(fl.Assertion, c, fl.Epoch),
			Detail: c.String() + " -- " + fl.Detail, Replay: rp})
	}
}

func gcd(a, b int) int {
	for b != 0 {
		a, b = b, a%b
	}
	return a
}

func main() {
	f := core.ParseFlags()
	r := core.NewResult(f.Prop)
	if f.Prop != "C18" {
		fmt.Fprintln(os.Stderr, "mint18: unknown property", f.Prop)
		os.Exit(2)
	}
	r.Extra["sum_shrink_runs"] = int64(0)
	r.Extra["sum_raw_failing_points"] = int64(0)
	r.Extra["max_epochs_per_config"] = int64(0)
	if f.Replay != "" {
		runReplay(f, r)
		core.Finish(f, r)
		return
	}
	rn := &runner{f: f, r: r, memo: map[string][]Failure{}, sink: map[string]int64{}}
	lat := latticeFor(f.Tier)
	// Round-robin dealing over the enumeration order balances the shards (see enumOrder); inside a
	// shard the points are visited with a fixed stride, so that a run cut short by the deadline has
	// still seen every value of every dimension instead of a lopsided prefix.
	var mine []Point
	for i, p := range lat {
		if f.Mine(i) {
			mine = append(mine, p)
		}
	}
	stride := 7919
	for len(mine) > 0 && gcd(stride, len(mine)) != 1 {
		stride++
	}
	done := 0
	for k := range mine {
		if f.Expired() {
			r.Exhaustive = false
			break
		}
		rn.point(mine[(k*stride)%len(mine)])
		done++
	}
	r.Extra["sum_configurations_run"] = int64(done)
	r.Extra["lattice_size"] = len(lat)
	r.Extra["lattice"] = map[string]interface{}{
		"proportions(staking,pool,developer,community)": latProp, "reduction_factor": latFac, "reduction_period": latPer,
		"start_epoch": latStart, "genesis_epoch_provisions": latProv, "receivers": latRecv, "distr_record_weights": latRec,
		"tier_rule": map[string]string{
			"quick":    "allocation face (all proportions x provisions x receivers x records at factor 2/3, period 3, start 1) + schedule face (all factors x periods x starts x provision {3, 821917808219.17..} at default proportions, three receivers, two gauges)",
			"thorough": "complete product",
		},
		"epochs_per_config": "start + 3*period + 2",
		"conformance":       "every configuration with period <= 3; period 156 at default proportions, three receivers, two gauges, provision 821917808219.17..",
	}
	r.DepthCompleted = int(r.Extra["max_epochs_per_config"].(int64))
	r.Outcomes = int64(len(r.Vacuity))
	core.Finish(f, r)
}
