// Command mint18 checks property C18 ("Minting follows the emission schedule and every minted
// coin is allocated") by exhaustive enumeration of a configuration lattice x consecutive epochs on
// the real OsmosisApp. See DESIGN.md §5 C18.
package main

import (
	"fmt"
	"strings"
)

// Recv is one weighted developer rewards receiver. Name "" is the empty address (community pool);
// any other name is the harness account core.Acc(Name).
type Recv struct {
	Name   string `json:"name"`
	Weight string `json:"weight"`
}

// Config is one point of the lattice in explicit values, so a replay file can describe any
// configuration (also ones outside the lattice, for minimisation by hand).
type Config struct {
	// Proportions in the order of types.DistributionProportions: staking, pool incentives,
	// developer rewards, community pool.
	Prop      [4]string `json:"proportions"`
	Factor    string    `json:"reduction_factor"`
	Period    int64     `json:"reduction_period"`
	Start     int64     `json:"start_epoch"`
	Provision string    `json:"genesis_epoch_provisions"`
	Receivers []Recv    `json:"receivers"`
	Records   []int64   `json:"distr_record_weights"` // one perpetual gauge per weight; empty = no records
}

// String is the stable configuration string used in signatures.
func (c Config) String() string {
	var rs []string
	for _, r := range c.Receivers {
		n := r.Name
		if n == "" {
			n = "<empty>"
		}
		rs = append(rs, n+":"+r.Weight)
	}
	recv := "none"
	if len(rs) > 0 {
		recv = strings.Join(rs, "+")
	}
	rec := "none"
	if len(c.Records) > 0 {
		var ws []string
		for _, w := range c.Records {
			ws = append(ws, fmt.Sprint(w))
		}
		rec = strings.Join(ws, ":")
	}
	return fmt.Sprintf("prop=%s;f=%s;per=%d;start=%d;prov=%s;recv=%s;rec=%s",
		strings.Join(c.Prop[:], "/"), c.Factor, c.Period, c.Start, c.Provision, recv, rec)
}

// Epochs returns N, the number of consecutive epochs driven in this configuration.
func (c Config) Epochs() int64 {
	n := c.Start + 3*c.Period + 2
	if n > maxEpochs {
		n = maxEpochs
	}
	return n
}

const maxEpochs = 480 // cap on N (never binding inside the lattice: 5 + 3*156 + 2 = 475)

// ---- the lattice -------------------------------------------------------------------------------
// Values in the order of DESIGN.md §5 C18; the order in which a failing point is simplified is
// given by `simpler` below.

const (
	dPer = iota
	dStart
	dFac
	dRec
	dProv
	dProp
	dRecv
	nDims
)

var dimNames = [nDims]string{"period", "start", "factor", "records", "provision", "proportions", "receivers"}

var (
	latProp = [][4]string{
		{"0.4", "0.3", "0.2", "0.1"}, // default
		{"1", "0", "0", "0"},
		{"0", "0", "0", "1"},
		{"0.25", "0.25", "0.25", "0.25"},
		{"0.333333333333333333", "0.333333333333333333", "0.333333333333333334", "0"},
		{"0.999999", "0.000001", "0", "0"},
	}
	latFac   = []string{"0.5", "0.666666666666666667", "1", "0"}
	latPer   = []int64{1, 3, 156}
	latStart = []int64{0, 1, 5}
	// the last value drains the developer vesting account (225e12, pre-minted, never refilled) within a few epochs: the
	// epochs in which its balance is below the whole provision but still covers the developer share must mint; the
	// epochs after that are refused by the module (documented), atomically
	latProv  = []string{"1", "3", "1000001", "821917808219.178082191780821917", "150000000000000.5"}
	latRecv  = [][]Recv{
		nil,
		{{"dev1", "1"}},
		{{"dev1", "0.333333333333333333"}, {"dev2", "0.333333333333333333"}, {"dev3", "0.333333333333333334"}},
		{{"", "1"}},
	}
	// a negative weight is the community-pool record (gauge id 0) with that weight: in {-1, 1e9} its share of the
	// pool-incentives balance truncates to zero for all but the largest provisions
	latRec = [][]int64{nil, {1}, {1, 2}, {-1, 1000000000}}
)

var dimSize = [nDims]int{dPer: len(latPer), dStart: len(latStart), dFac: len(latFac), dRec: len(latRec),
	dProv: len(latProv), dProp: len(latProp), dRecv: len(latRecv)}

// Point is a lattice point by indices.
type Point [nDims]int

func (p Point) Config() Config {
	return Config{Prop: latProp[p[dProp]], Factor: latFac[p[dFac]], Period: latPer[p[dPer]], Start: latStart[p[dStart]],
		Provision: latProv[p[dProv]], Receivers: latRecv[p[dRecv]], Records: latRec[p[dRec]]}
}

// simpler lists, per dimension, the value indices from the simplest to the most complex; a failing
// point is simplified towards the front of these lists. (Identity except for the reduction factor,
// where 1 = "provision never changes" is the simplest.)
var simpler = [nDims][]int{
	dPer: {0, 1, 2}, dStart: {0, 1, 2}, dFac: {2, 0, 1, 3}, dRec: {0, 1, 2, 3}, dProv: {0, 1, 2, 3, 4}, dProp: {0, 1, 2, 3, 4, 5}, dRecv: {0, 1, 2, 3},
}

// enumeration order, outermost first: the two dimensions that decide the cost of a point (receivers:
// failing points are run again and simplified; period: number of epochs) are outermost and the product
// of the others (1080) is near a multiple of the shard count, so round-robin dealing balances the shards.
var enumOrder = [nDims]int{dRecv, dPer, dStart, dFac, dRec, dProv, dProp}

// fullLattice is the complete product, in a fixed order.
func fullLattice() []Point {
	var out []Point
	var p Point
	var rec func(k int)
	rec = func(k int) {
		if k == nDims {
			out = append(out, p)
			return
		}
		d := enumOrder[k]
		for i := 0; i < dimSize[d]; i++ {
			p[d] = i
			rec(k + 1)
		}
	}
	rec(0)
	return out
}

// Quick sub-lattice = union of two faces of the product:
//
//	allocation face: all proportions x all provisions x all receiver lists x all record sets at the
//	                 schedule (factor 2/3, period 3, start 1);
//	schedule face:   all factors x all periods x all start epochs x provision in {3, 821917808219.17...}
//	                 at (default proportions, three receivers, two gauges 1:2).
func inQuick(p Point) bool {
	alloc := p[dFac] == 1 && p[dPer] == 1 && p[dStart] == 1
	sched := p[dProp] == 0 && p[dRecv] == 2 && p[dRec] == 2 && (p[dProv] == 1 || p[dProv] == 3)
	return alloc || sched
}

func latticeFor(tier string) []Point {
	all := fullLattice()
	if tier == "thorough" {
		return all
	}
	var out []Point
	for _, p := range all {
		if inQuick(p) {
			out = append(out, p)
		}
	}
	return out
}

// conformance says whether the configuration is additionally driven through real block
// boundaries. Every configuration with a reduction period <= 3 is (N <= 16 blocks); of the
// period-156 configurations (N = 470..475 blocks) those on the schedule face with the mainnet-like
// provision are.
func conformance(p Point) bool {
	if latPer[p[dPer]] <= 3 {
		return true
	}
	return p[dProp] == 0 && p[dRecv] == 2 && p[dRec] == 2 && p[dProv] == 3
}
