package main

import (
	"fmt"
	"math/big"
	"time"

	storetypes "cosmossdk.io/store/types"
	sdk "github.com/cosmos/cosmos-sdk/types"
	authtypes "github.com/cosmos/cosmos-sdk/x/auth/types"
	distrtypes "github.com/cosmos/cosmos-sdk/x/distribution/types"

	"github.com/osmosis-labs/osmosis/osmomath"
	"github.com/osmosis-labs/osmosis/v31/app"
	incentivestypes "github.com/osmosis-labs/osmosis/v31/x/incentives/types"
	lockuptypes "github.com/osmosis-labs/osmosis/v31/x/lockup/types"
	minttypes "github.com/osmosis-labs/osmosis/v31/x/mint/types"
	poolincentivestypes "github.com/osmosis-labs/osmosis/v31/x/pool-incentives/types"
	"github.com/osmosis-labs/osmosis/v31/zzverif/core"
)

const (
	mintDenom    = "uosmo" // x/incentives only accepts gauge rewards in the base denom (or routed denoms)
	mintEpochID  = "day"
	otherEpochID = "week"
	lockDenom    = "lptoken"
	// what x/mint's InitGenesis mints into the developer vesting account
	developerVestingAmount = 225_000_000_000_000
)

// World is one application instance built for one configuration.
type World struct {
	Env     *core.Env
	App     *app.OsmosisApp
	Cfg     Config
	Params  minttypes.Params
	Gauges  []uint64
	mintKey storetypes.StoreKey
	addr    struct {
		mint, vesting, feeCol, pi, inc, distr sdk.AccAddress
		recv                                  []sdk.AccAddress // nil entry = empty address
	}
}

// MintParams builds the module parameters of a configuration.
func MintParams(c Config) minttypes.Params {
	p := minttypes.DefaultParams()
	p.MintDenom = mintDenom
	p.EpochIdentifier = mintEpochID
	p.GenesisEpochProvisions = osmomath.MustNewDecFromStr(c.Provision)
	p.ReductionFactor = osmomath.MustNewDecFromStr(c.Factor)
	p.ReductionPeriodInEpochs = c.Period
	p.MintingRewardsDistributionStartEpoch = c.Start
	p.DistributionProportions = minttypes.DistributionProportions{
		Staking:          osmomath.MustNewDecFromStr(c.Prop[0]),
		PoolIncentives:   osmomath.MustNewDecFromStr(c.Prop[1]),
		DeveloperRewards: osmomath.MustNewDecFromStr(c.Prop[2]),
		CommunityPool:    osmomath.MustNewDecFromStr(c.Prop[3]),
	}
	p.WeightedDeveloperRewardsReceivers = []minttypes.WeightedAddress{}
	for _, r := range c.Receivers {
		a := ""
		if r.Name != "" {
			a = core.Acc(r.Name).String()
		}
		p.WeightedDeveloperRewardsReceivers = append(p.WeightedDeveloperRewardsReceivers,
			minttypes.WeightedAddress{Address: a, Weight: osmomath.MustNewDecFromStr(r.Weight)})
	}
	return p
}

// NewWorld builds the application for a configuration. A configuration whose parameters the
// module itself refuses (Params.Validate) returns an error and is skipped by the caller.
func NewWorld(c Config) (*World, error) {
	p := MintParams(c)
	if err := p.Validate(); err != nil {
		return nil, err
	}
	env := core.NewEnv(core.GenesisOpts{
		Balances: map[string]sdk.Coins{"owner": core.Coins(lockDenom, 1000000)},
		Mutate: func(a *app.OsmosisApp, gs app.GenesisState) {
			cdc := a.AppCodec()
			var mg minttypes.GenesisState
			cdc.MustUnmarshalJSON(gs[minttypes.ModuleName], &mg)
			mg.Params = p
			mg.Minter = minttypes.InitialMinter() // InitGenesis overwrites it with GenesisEpochProvisions
			mg.ReductionStartedEpoch = 0
			if err := minttypes.ValidateGenesis(mg); err != nil {
				panic(err)
			}
			gs[minttypes.ModuleName] = cdc.MustMarshalJSON(&mg)

			var pg poolincentivestypes.GenesisState
			cdc.MustUnmarshalJSON(gs[poolincentivestypes.ModuleName], &pg)
			pg.Params.MintedDenom = mintDenom
			gs[poolincentivestypes.ModuleName] = cdc.MustMarshalJSON(&pg)
		},
	})
	a, ctx := env.App, env.Ctx
	w := &World{Env: env, App: a, Cfg: c, Params: p, mintKey: a.GetKVStoreKey()[minttypes.StoreKey]}
	if w.mintKey == nil {
		panic("harness: no mint store key")
	}
	if got := a.MintKeeper.ExportGenesis(ctx).ReductionStartedEpoch; got != 0 {
		panic("harness: ReductionStartedEpoch not 0 at genesis")
	}
	w.addr.mint = a.AccountKeeper.GetModuleAddress(minttypes.ModuleName)
	w.addr.vesting = a.AccountKeeper.GetModuleAddress(minttypes.DeveloperVestingModuleAcctName)
	w.addr.feeCol = a.AccountKeeper.GetModuleAddress(authtypes.FeeCollectorName)
	w.addr.pi = a.AccountKeeper.GetModuleAddress(poolincentivestypes.ModuleName)
	w.addr.inc = a.AccountKeeper.GetModuleAddress(incentivestypes.ModuleName)
	w.addr.distr = a.AccountKeeper.GetModuleAddress(distrtypes.ModuleName)
	for _, r := range c.Receivers {
		if r.Name == "" {
			w.addr.recv = append(w.addr.recv, nil)
		} else {
			w.addr.recv = append(w.addr.recv, core.Acc(r.Name))
		}
	}

	// The developer vesting account must be funded exactly as the real genesis does.
	if got := a.BankKeeper.GetBalance(ctx, w.addr.vesting, mintDenom).Amount; !got.Equal(osmomath.NewInt(developerVestingAmount)) {
		panic(fmt.Sprintf("harness: developer vesting account holds %s at genesis", got))
	}
	if got := a.BankKeeper.GetSupplyOffset(ctx, mintDenom); !got.Equal(osmomath.NewInt(developerVestingAmount).Neg()) {
		panic(fmt.Sprintf("harness: supply offset %s at genesis", got))
	}

	// Distribution records: perpetual lock gauges created with the keeper's own constructor, records
	// installed with the function the governance proposal handler runs.
	if len(c.Records) > 0 {
		durs := a.IncentivesKeeper.GetLockableDurations(ctx)
		var recs []poolincentivestypes.DistrRecord
		for _, wgt := range c.Records {
			if wgt < 0 {
				// the community-pool record: gauge id 0, weight |wgt|
				w.Gauges = append(w.Gauges, 0)
				recs = append(recs, poolincentivestypes.DistrRecord{GaugeId: 0, Weight: osmomath.NewInt(-wgt)})
				continue
			}
			id, err := a.IncentivesKeeper.CreateGauge(ctx, true, core.Acc("owner"), sdk.Coins{},
				lockuptypes.QueryCondition{LockQueryType: lockuptypes.ByDuration, Denom: lockDenom, Duration: durs[0]},
				ctx.BlockTime(), 1, 0)
			if err != nil {
				panic(fmt.Sprintf("harness: gauge creation failed: %v", err))
			}
			w.Gauges = append(w.Gauges, id)
			recs = append(recs, poolincentivestypes.DistrRecord{GaugeId: id, Weight: osmomath.NewInt(wgt)})
		}
		if err := a.PoolIncentivesKeeper.ReplaceDistrRecords(ctx, recs...); err != nil {
			panic(fmt.Sprintf("harness: distr records refused: %v", err))
		}
	}
	return w, nil
}

func (w *World) Close() { w.Env.Close() }

// Obs is everything the oracle looks at in one state.
type Obs struct {
	SupplyOff, Supply, Offset                           *big.Int
	Mint, Vesting, FeeCol, PI, Inc, DistrMod, Community *big.Int // Community = FeePool.CommunityPool, 10^18-scaled
	Recv                                                []*big.Int
	Gauges                                              []*big.Int
	Prov                                                *big.Int // Minter.EpochProvisions, 10^18-scaled
	LastRed                                             int64
}

func (w *World) bal(ctx sdk.Context, a sdk.AccAddress) *big.Int {
	return w.App.BankKeeper.GetBalance(ctx, a, mintDenom).Amount.BigInt()
}

func (w *World) Observe(ctx sdk.Context) *Obs {
	a := w.App
	o := &Obs{
		SupplyOff: a.BankKeeper.GetSupplyWithOffset(ctx, mintDenom).Amount.BigInt(),
		Supply:    a.BankKeeper.GetSupply(ctx, mintDenom).Amount.BigInt(),
		Offset:    a.BankKeeper.GetSupplyOffset(ctx, mintDenom).BigInt(),
		Mint:      w.bal(ctx, w.addr.mint), Vesting: w.bal(ctx, w.addr.vesting), FeeCol: w.bal(ctx, w.addr.feeCol),
		PI: w.bal(ctx, w.addr.pi), Inc: w.bal(ctx, w.addr.inc), DistrMod: w.bal(ctx, w.addr.distr),
	}
	fp, err := a.DistrKeeper.FeePool.Get(ctx)
	if err != nil {
		panic(err)
	}
	o.Community = fp.CommunityPool.AmountOf(mintDenom).BigInt()
	for _, r := range w.addr.recv {
		if r == nil {
			o.Recv = append(o.Recv, big.NewInt(0))
		} else {
			o.Recv = append(o.Recv, w.bal(ctx, r))
		}
	}
	for _, id := range w.Gauges {
		if id == 0 {
			o.Gauges = append(o.Gauges, big.NewInt(0)) // community-pool record: nothing to observe here
			continue
		}
		g, err := a.IncentivesKeeper.GetGaugeByID(ctx, id)
		if err != nil {
			panic(err)
		}
		o.Gauges = append(o.Gauges, g.Coins.AmountOf(mintDenom).BigInt())
	}
	o.Prov = a.MintKeeper.GetMinter(ctx).EpochProvisions.BigInt()
	// what ExportGenesis reports as ReductionStartedEpoch (read directly: ExportGenesis decodes the
	// whole parameter set, which dominates the cost of an observation)
	if bz := ctx.KVStore(w.mintKey).Get(minttypes.LastReductionEpochKey); bz != nil {
		o.LastRed = int64(sdk.BigEndianToUint64(bz))
	}
	return o
}

// vector flattens an observation (names fixed) for whole-state comparisons.
func (o *Obs) vector(conformance bool) ([]string, []*big.Int) {
	names := []string{"supply_with_offset", "supply", "offset", "mint", "vesting", "pool_incentives", "incentives"}
	vals := []*big.Int{o.SupplyOff, o.Supply, o.Offset, o.Mint, o.Vesting, o.PI, o.Inc}
	if conformance {
		// the distribution module's BeginBlocker sweeps the fee collector into the distribution
		// account in the same block, so only their sum is comparable between the two drivers
		names = append(names, "fee_collector+distribution")
		vals = append(vals, new(big.Int).Add(o.FeeCol, o.DistrMod))
	} else {
		names = append(names, "fee_collector", "distribution", "community_pool")
		vals = append(vals, o.FeeCol, o.DistrMod, o.Community)
	}
	for i, v := range o.Recv {
		names = append(names, fmt.Sprintf("receiver%d", i))
		vals = append(vals, v)
	}
	for i, v := range o.Gauges {
		names = append(names, fmt.Sprintf("gauge%d", i))
		vals = append(vals, v)
	}
	names = append(names, "provisions", "last_reduction_epoch")
	vals = append(vals, o.Prov, big.NewInt(o.LastRed))
	return names, vals
}

func sub(a, b *big.Int) *big.Int { return new(big.Int).Sub(a, b) }

// diff lists the components in which two observations differ.
func diff(a, b *Obs, conformance bool) string {
	n, va := a.vector(conformance)
	_, vb := b.vector(conformance)
	s := ""
	for i := range va {
		if va[i].Cmp(vb[i]) != 0 {
			s += fmt.Sprintf(" %s:%s->%s", n[i], va[i], vb[i])
		}
	}
	return s
}

// callHook runs the mint module's epoch hook the way x/epochs does: on a child branch that is
// written back only when the hook neither fails nor panics.
func (w *World) callHook(ctx sdk.Context, id string, n int64) (err error) {
	child, write := ctx.CacheContext()
	child = child.WithEventManager(sdk.NewEventManager())
	defer func() {
		if r := recover(); r != nil {
			err = fmt.Errorf("panic: %v", r)
		}
	}()
	if err = w.App.MintKeeper.AfterEpochEnd(child, id, n); err != nil {
		return err
	}
	write()
	return nil
}

var blockDt = 24*time.Hour + time.Second // > duration of the "day" epoch
