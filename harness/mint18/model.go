package main

import (
	"fmt"
	"math/big"
	"strings"
)

// Reference arithmetic: decimals are exact rationals (big.Rat); amounts are big.Int. The only
// roundings are the ones the code under test documents: LegacyDec.Mul / Quo round to 18 places
// half-to-even ("bankers"), TruncateInt floors.

var (
	ten18 = new(big.Int).Exp(big.NewInt(10), big.NewInt(18), nil)
	ten36 = new(big.Int).Mul(ten18, ten18)
	zero  = big.NewInt(0)
)

func bi(x int64) *big.Int { return big.NewInt(x) }

func abs64(x int64) int64 {
	if x < 0 {
		return -x
	}
	return x
}

// parseDec parses a decimal literal with at most 18 fractional digits exactly.
func parseDec(s string) *big.Rat {
	if i := strings.IndexByte(s, '.'); i >= 0 && len(s)-i-1 > 18 {
		panic("harness: more than 18 fractional digits: " + s)
	}
	r, ok := new(big.Rat).SetString(s)
	if !ok {
		panic("harness: bad decimal " + s)
	}
	return r
}

// floorRat returns the integer part of a non-negative rational.
func floorRat(r *big.Rat) *big.Int {
	return new(big.Int).Quo(r.Num(), r.Denom())
}

// round18 rounds a non-negative rational to 18 decimal places half-to-even and returns the
// rounded value as a rational again.
func round18(r *big.Rat) *big.Rat {
	scaled := new(big.Rat).Mul(r, new(big.Rat).SetInt(ten18))
	q, rem := new(big.Int).QuoRem(scaled.Num(), scaled.Denom(), new(big.Int))
	twice := new(big.Int).Lsh(rem, 1)
	switch twice.Cmp(scaled.Denom()) {
	case 1:
		q.Add(q, bi(1))
	case 0:
		if q.Bit(0) == 1 {
			q.Add(q, bi(1))
		}
	}
	return new(big.Rat).SetFrac(q, ten18)
}

// quoDec mirrors LegacyDec.Quo for non-negative operands: the quotient is first truncated at 36
// places and then rounded to 18 half-to-even.
func quoDec(a, b *big.Rat) *big.Rat {
	q := new(big.Rat).Quo(a, b)
	t := new(big.Rat).Mul(q, new(big.Rat).SetInt(ten36))
	tr := new(big.Rat).SetFrac(floorRat(t), ten36)
	return round18(tr)
}

// share = floor(amount * ratio), with the Dec product rounded as LegacyDec.Mul does (exact here,
// because an integer times an 18-place decimal has at most 18 places).
func share(amount *big.Int, ratio *big.Rat) *big.Int {
	return floorRat(round18(new(big.Rat).Mul(new(big.Rat).SetInt(amount), ratio)))
}

// decRaw returns the 10^18-scaled integer of a rational that has at most 18 places.
func decRaw(r *big.Rat) *big.Int {
	s := new(big.Rat).Mul(r, new(big.Rat).SetInt(ten18))
	if !s.IsInt() {
		panic("harness: not an 18-place decimal")
	}
	return new(big.Int).Set(s.Num())
}

func decStr(r *big.Rat) string { return r.FloatString(18) }

// Model is the reference emission schedule and allocation for one configuration.
type Model struct {
	cfg     Config
	prop    [4]*big.Rat
	factor  *big.Rat
	weights []*big.Rat
	recRat  []*big.Rat // weight/total of each distribution record, as the Dec quotient
	prov    *big.Rat   // current epoch provisions
	lastRed int64      // epoch of the last reduction (or the start epoch; 0 at genesis)
	carry   *big.Int   // balance left in the pool-incentives module account
	vest    *big.Int   // balance of the developer vesting account (pre-minted at genesis, never refilled)
}

func NewModel(c Config) *Model {
	m := &Model{cfg: c, factor: parseDec(c.Factor), prov: parseDec(c.Provision), carry: bi(0), vest: bi(developerVestingAmount)}
	for i := range c.Prop {
		m.prop[i] = parseDec(c.Prop[i])
	}
	for _, r := range c.Receivers {
		m.weights = append(m.weights, parseDec(r.Weight))
	}
	var tot int64
	for _, w := range c.Records {
		tot += abs64(w)
	}
	for _, w := range c.Records {
		m.recRat = append(m.recRat, quoDec(new(big.Rat).SetInt64(abs64(w)), new(big.Rat).SetInt64(tot)))
	}
	return m
}

// Expect is what the statement requires of one epoch.
type Expect struct {
	Active  bool // epoch >= start epoch
	// Refused: the developer vesting account (a fixed pre-minted amount) no longer covers this epoch's developer share.
	// The module documents that it refuses the whole epoch then (insufficientDevVestingBalanceError; x/epochs reverts the
	// hook): nothing is minted and no state changes. An epoch is refused ONLY in that case; in particular a vesting
	// balance below the whole provision that still covers the developer share must mint.
	Refused bool
	// the community-pool distribution record (gauge id 0) got a zero / a positive share of the pool-incentives balance
	CPZero, CPPos bool
	Reduced bool // the provision is multiplied by the factor at this epoch
	P       *big.Int
	S, I, D *big.Int
	Dev     []*big.Int // floor(D*w_i) per configured receiver (empty-address entries go to the community pool)
	DevPaid *big.Int   // sum over Dev = what leaves the developer vesting account
	R       *big.Int   // D - DevPaid: truncation remainder of the developer split
	// Pool-incentives forwarding of asset = carry + I.
	Gauges        []*big.Int
	PIToCommunity *big.Int
	PIModule      *big.Int // change of the pool-incentives module balance
	// Community pool: everything that is not a staking / pool-incentives / receiver share.
	Community *big.Int
	Prov      *big.Rat
	LastRed   int64
}

// Step advances the reference by the end of epoch n.
func (m *Model) Step(n int64) *Expect {
	c := m.cfg
	e := &Expect{P: bi(0), S: bi(0), I: bi(0), D: bi(0), DevPaid: bi(0), R: bi(0), PIToCommunity: bi(0), PIModule: bi(0), Community: bi(0)}
	for range c.Receivers {
		e.Dev = append(e.Dev, bi(0))
	}
	for range c.Records {
		e.Gauges = append(e.Gauges, bi(0))
	}
	if n >= c.Start {
		e.Active = true
		savedProv, savedRed := m.prov, m.lastRed
		if n == c.Start {
			m.lastRed = n
		}
		// statement: multiplied by the factor exactly at start + k*period, k >= 1
		if n > c.Start && (n-c.Start)%c.Period == 0 {
			e.Reduced = true
			m.prov = round18(new(big.Rat).Mul(m.prov, m.factor))
			m.lastRed = n
		}
		e.P = floorRat(m.prov)
		e.S = share(e.P, m.prop[0])
		e.I = share(e.P, m.prop[1])
		e.D = share(e.P, m.prop[2])
		if m.vest.Cmp(e.D) < 0 {
			m.prov, m.lastRed = savedProv, savedRed
			z := &Expect{Active: true, Refused: true, P: bi(0), S: bi(0), I: bi(0), D: bi(0), DevPaid: bi(0), R: bi(0), PIToCommunity: bi(0), PIModule: bi(0), Community: bi(0),
				Dev: e.Dev, Gauges: e.Gauges, Prov: new(big.Rat).Set(m.prov), LastRed: m.lastRed}
			return z
		}
		toReceivers := bi(0)
		if len(c.Receivers) == 0 {
			e.DevPaid.Set(e.D) // whole developer share to the community pool
		}
		for i, r := range c.Receivers {
			e.Dev[i] = share(e.D, m.weights[i])
			e.DevPaid.Add(e.DevPaid, e.Dev[i])
			if r.Name != "" {
				toReceivers.Add(toReceivers, e.Dev[i])
			}
		}
		e.R.Sub(e.D, e.DevPaid)
		m.vest = new(big.Int).Sub(m.vest, e.DevPaid)
		// pool incentives: the hook allocates the module's whole balance
		asset := new(big.Int).Add(m.carry, e.I)
		if asset.Sign() > 0 {
			if len(c.Records) == 0 {
				e.PIToCommunity.Set(asset)
			}
			sent := new(big.Int).Set(e.PIToCommunity)
			for i := range c.Records {
				g := share(asset, m.recRat[i])
				if c.Records[i] < 0 {
					e.CPZero, e.CPPos = g.Sign() == 0, g.Sign() > 0
				}
				if g.Sign() > 0 {
					if c.Records[i] < 0 { // the community-pool record (gauge id 0)
						e.PIToCommunity.Add(e.PIToCommunity, g)
					} else {
						e.Gauges[i] = g
					}
					sent.Add(sent, g)
				}
			}
			newCarry := new(big.Int).Sub(asset, sent)
			e.PIModule.Sub(newCarry, m.carry)
			m.carry = newCarry
		}
		// community pool takes everything else (incl. every rounding remainder)
		e.Community.Sub(e.P, e.S)
		e.Community.Sub(e.Community, e.I)
		e.Community.Sub(e.Community, toReceivers)
		e.Community.Add(e.Community, e.PIToCommunity)
	}
	e.Prov = new(big.Rat).Set(m.prov)
	e.LastRed = m.lastRed
	return e
}

func (e *Expect) String() string {
	return fmt.Sprintf("P=%s S=%s I=%s D=%s dev=%v r=%s gauges=%v piToCommunity=%s community=%s reduced=%v",
		e.P, e.S, e.I, e.D, e.Dev, e.R, e.Gauges, e.PIToCommunity, e.Community, e.Reduced)
}
