// Command epochs17 is the deviation-bounded exhaustive explorer for property C17 (epoch timers tick once per
// elapsed period; subscriber failures stay contained; out-of-gas propagates). It drives the real x/epochs
// keeper's BeginBlocker over an in-memory multistore with two harness subscribers whose outcome at every
// signal is the explorer's choice. See DESIGN.md §5 C17.
package main

import (
	"flag"
	"fmt"
	"os"
	"sort"
	"strconv"
	"strings"
	"time"

	storetypes "cosmossdk.io/store/types"
	sdk "github.com/cosmos/cosmos-sdk/types"

	core "github.com/osmosis-labs/osmosis/x/epochs/zzverif/res"
)

// lmax[k] = longest block sequence explored with exactly k deviations placed (non-increasing in k).
var lmaxFlag = flag.String("lmax", "", "override: comma list, lmax[k] = max sequence length with k deviations")

func lmaxFor(tier string) []int {
	if *lmaxFlag != "" {
		var out []int
		for _, s := range strings.Split(*lmaxFlag, ",") {
			n, err := strconv.Atoi(strings.TrimSpace(s))
			if err != nil {
				fmt.Fprintln(os.Stderr, "epochs17: bad -lmax")
				os.Exit(2)
			}
			out = append(out, n)
		}
		return out
	}
	if tier == "thorough" {
		return []int{7, 7, 6, 4}
	}
	return []int{6, 6, 4}
}

const shardLevel = 3 // work items are (node at depth shardLevel-1, next delta)

type node struct {
	ctx    sdk.Context
	m      Model
	depth  int
	deltas []int
	devs   []Dev
}

type Explorer struct {
	f       *core.Flags
	r       *core.Result
	w       *World
	cfg     int
	lmax    []int
	item    int
	expired bool
	execs   int64
	byDevs  [8]int64
	maxPts  int64
	best    map[string]core.Violation // per assertion: the simplest failing schedule seen by this shard
	replay  bool
}

type replayCase struct {
	Config int      `json:"config"`
	Timers string   `json:"timers"`
	Deltas []string `json:"deltas"`
	Devs   []devJS  `json:"devs"`
}

type devJS struct {
	Block   int    `json:"block"`
	Timer   string `json:"timer"`
	Signal  string `json:"signal"`
	Sub     int    `json:"subscriber"`
	Outcome string `json:"outcome"`
}

func (e *Explorer) signature(deltaIdx []int, devs []Dev) (string, replayCase) {
	rc := replayCase{Config: e.cfg, Timers: configNames[e.cfg]}
	var ds []string
	for _, d := range deltaIdx {
		ds = append(ds, deltaNames[d])
	}
	rc.Deltas = ds
	var vs []string
	for _, d := range devs {
		rc.Devs = append(rc.Devs, devJS{d.Block, e.w.Timers[d.Timer].ID, kindNames[d.Kind], d.Sub + 1, outcomeNames[d.Out]})
		vs = append(vs, fmt.Sprintf("(%d,%s,%s,s%d,%s)", d.Block, e.w.Timers[d.Timer].ID, kindNames[d.Kind], d.Sub+1, outcomeNames[d.Out]))
	}
	return fmt.Sprintf("timers=%s;dt=%s;dev=%s", configNames[e.cfg], strings.Join(ds, ","), strings.Join(vs, "")), rc
}

func simpler(a, b core.Violation) bool {
	ra, rb := a.Replay.(replayCase), b.Replay.(replayCase)
	if len(ra.Deltas) != len(rb.Deltas) {
		return len(ra.Deltas) < len(rb.Deltas)
	}
	if len(ra.Devs) != len(rb.Devs) {
		return len(ra.Devs) < len(rb.Devs)
	}
	if ra.Config != rb.Config {
		return ra.Config < rb.Config
	}
	return a.Signature < b.Signature
}

func (e *Explorer) report(deltaIdx []int, devs []Dev, fails []Failure) {
	sig, rc := e.signature(deltaIdx, devs)
	for _, f := range fails {
		v := core.Violation{Property: e.f.Prop, Assertion: f.Assertion, Signature: sig, Detail: sig + " :: " + f.Detail, Replay: rc}
		if e.replay {
			e.r.AddViolation(v)
			continue
		}
		if old, ok := e.best[f.Assertion]; !ok || simpler(v, old) {
			e.best[f.Assertion] = v
		}
	}
}

// step drives one block (delta di, deviations blockDevs in it) from n, checks it, descends, and then
// enumerates every further deviation placement inside the same block.
func (e *Explorer) step(n *node, di int, blockDevs []Dev, owned bool) {
	if e.expired {
		return
	}
	e.execs++
	if e.execs&0xfff == 0 && e.f.Expired() {
		e.expired = true
		return
	}
	block := n.depth + 1
	tOff := n.m.Now + deltas[di]
	res := e.w.RunBlock(n.ctx, block, tOff, blockDevs)
	ex := expect(n.m, e.w.Timers, block, tOff, blockDevs)
	fails := Check(e.w, n.m, &ex, tOff, &res)

	nd := len(n.devs) + len(blockDevs)
	childDeltas := append(append(make([]int, 0, block), n.deltas...), di)
	childDevs := append(append(make([]Dev, 0, nd), n.devs...), blockDevs...)
	if owned {
		e.count(n, &ex, &res, childDeltas, childDevs, nd)
	}
	if len(fails) > 0 {
		e.report(childDeltas, childDevs, fails)
	} else {
		child := &node{ctx: res.Ctx, m: ex.Next, depth: block, deltas: childDeltas, devs: childDevs}
		e.expand(child)
	}

	// further deviations in this block: every point reached after the last deviation already placed here
	if nd+1 >= len(e.lmax) || block > e.lmax[nd+1] {
		return
	}
	start := 0
	if len(blockDevs) > 0 {
		last := blockDevs[len(blockDevs)-1]
		start = len(res.Log)
		for i, g := range res.Log {
			if g.Timer == last.Timer && g.Kind == last.Kind && g.Sub == last.Sub {
				start = i + 1
				break
			}
		}
	}
	for p := start; p < len(res.Log); p++ {
		g := res.Log[p]
		if g.Timer < 0 {
			continue
		}
		for o := 1; o < nOutcomes; o++ {
			bd := append(append(make([]Dev, 0, len(blockDevs)+1), blockDevs...), Dev{Block: block, Timer: g.Timer, Kind: g.Kind, Sub: g.Sub, Out: o})
			e.step(n, di, bd, owned)
		}
	}
}

func (e *Explorer) expand(n *node) {
	if n.depth >= e.lmax[len(n.devs)] {
		return
	}
	for di := range deltas {
		owned := true
		if n.depth+1 < shardLevel {
			owned = e.f.Mine(0) // shallow nodes are driven by every shard, counted by one
		} else if n.depth+1 == shardLevel {
			e.item++
			if !e.f.Mine(e.item) {
				continue
			}
		}
		e.step(n, di, nil, owned)
	}
}

func (e *Explorer) count(n *node, ex *Expect, res *BlockResult, deltaIdx []int, devs []Dev, nd int) {
	r := e.r
	r.Transitions++
	r.Traces++
	r.States++
	e.byDevs[nd]++
	v := r.Vacuity
	if ex.BeforeStart {
		v["block_before_start_time"]++
	}
	if ex.LateStart {
		v["timer_started_late_on_its_start_time"]++
	}
	if ex.ExactStart {
		v["block_exactly_at_start_time"]++
	}
	if ex.Catchup {
		v["gap_caught_up_one_epoch_per_block"]++
	}
	if ex.BoundaryNoTick {
		v["block_exactly_at_epoch_end_no_tick"]++
	}
	if ex.TickAt1ns {
		v["tick_1ns_after_epoch_end"]++
	}
	if ex.Ticked[0] && ex.Ticked[1] {
		v["two_timers_tick_same_block"]++
	}
	if ex.Ticked[0] || ex.Ticked[1] {
		v["ticks"]++
	}
	if n.m.Block > 0 && deltas[deltaIdx[len(deltaIdx)-1]] == 0 && (ex.Ticked[0] || ex.Ticked[1]) {
		v["tick_in_block_with_unchanged_time"]++
	}
	contained, otherOK := false, false
	for i, g := range res.Log {
		switch g.Out {
		case oErr:
			v["dev_error_injected"]++
		case oPanicStr:
			v["dev_panic_string_injected"]++
		case oPanicNil:
			v["dev_panic_nil_deref_injected"]++
		case oPanicIdx:
			v["dev_panic_index_injected"]++
		case oOOG:
			v["dev_out_of_gas_injected"]++
		}
		if g.Out != oOK && g.Out != oOOG {
			contained = true
			// the other subscriber at the same signal
			for j, h := range res.Log {
				if j != i && h.Timer == g.Timer && h.Kind == g.Kind && h.Sub != g.Sub && h.Out == oOK {
					otherOK = true
				}
			}
		}
	}
	if res.Panicked {
		if _, ok := res.PanicVal.(storetypes.ErrorOutOfGas); ok {
			v["out_of_gas_propagated"]++
			if len(r.Samples) < 2 {
				s, _ := e.signature(deltaIdx, devs)
				r.AddSample("out-of-gas propagated, block dropped: " + s)
			}
		}
	} else if contained {
		v["failure_contained_block_completed"]++
		if otherOK {
			v["failure_contained_other_subscriber_written"]++
		}
	}
	if ex.Catchup && nd > 0 && len(r.Samples) < 4 && len(r.Samples) >= 2 {
		s, _ := e.signature(deltaIdx, devs)
		r.AddSample("catch-up tick with deviations: " + s)
	}
	if int64(len(res.Log)) > e.maxPts {
		e.maxPts = int64(len(res.Log))
	}
}

func (e *Explorer) run(cfg int) {
	e.cfg = cfg
	e.w = NewWorld(configs[cfg])
	m := Model{}
	for i := range e.w.Timers {
		m.T[i].Height = 0
	}
	// the imported timers must be what the reference starts from
	ex := Expect{Next: m}
	res := BlockResult{Ctx: e.w.Root}
	if fails := checkGenesis(e.w, &ex, &res); len(fails) > 0 {
		e.report(nil, nil, fails)
		return
	}
	root := &node{ctx: e.w.Root, m: m}
	e.expand(root)
}

// checkGenesis: after InitGenesis no timer has started and each is stored as configured.
func checkGenesis(w *World, ex *Expect, res *BlockResult) []Failure {
	var fails []Failure
	all := w.K.AllEpochInfos(res.Ctx)
	if len(all) != len(w.Timers) {
		return []Failure{{"saved", fmt.Sprintf("genesis: %d epoch infos stored, %d configured", len(all), len(w.Timers))}}
	}
	for i, tc := range w.Timers {
		a := all[i]
		if a.Identifier != tc.ID || a.EpochCountingStarted || a.CurrentEpoch != 0 || !a.StartTime.Equal(at(tc.Start)) || int64(a.Duration) != tc.Dur {
			fails = append(fails, Failure{"saved", "genesis: timer stored as " + infoString(a)})
		}
	}
	return fails
}

func main() {
	f := core.ParseFlags()
	r := core.NewResult(f.Prop)
	if f.Prop != "C17" {
		fmt.Fprintln(os.Stderr, "epochs17: unknown property", f.Prop)
		os.Exit(2)
	}
	if f.Replay != "" {
		doReplay(f, r)
		return
	}
	lmax := lmaxFor(f.Tier)
	e := &Explorer{f: f, r: r, lmax: lmax, best: map[string]core.Violation{}}
	for cfg := range configs {
		e.run(cfg)
	}
	if e.expired {
		r.Exhaustive = false
		r.DepthCompleted = 0
	} else {
		r.DepthCompleted = lmax[0]
	}
	var as []string
	for a := range e.best {
		as = append(as, a)
	}
	sort.Strings(as)
	for _, a := range as {
		r.AddViolation(e.best[a])
	}
	for k := 0; k < len(lmax); k++ {
		r.Extra[fmt.Sprintf("sum_histories_with_%d_deviations", k)] = e.byDevs[k]
	}
	r.Extra["max_subscriber_calls_in_one_block"] = e.maxPts
	r.Extra["sum_blocks_driven_including_shared_prefixes"] = e.execs
	r.Extra["max_sequence_length_by_number_of_deviations"] = fmt.Sprint(lmax)
	r.Extra["delta_alphabet"] = strings.Join(deltaNames, ",")
	r.Extra["timer_configurations"] = strings.Join(configNames, " | ")
	r.Extra["outcome_alphabet"] = strings.Join(outcomeNames, ",")
	if f.Mine(0) {
		r.AddSample("configurations: " + strings.Join(configNames, " | ") + "; t0 = genesis+3s; every sequence over {" + strings.Join(deltaNames, ",") + "}")
	}
	finish(f, r)
}

// finish stamps the wall time and emits (core.Finish lives in explore.go, which needs the whole application).
func finish(f *core.Flags, r *core.Result) {
	r.WallS = time.Since(f.Start).Seconds()
	r.Emit()
}

func index(names []string, s string) int {
	for i, n := range names {
		if n == s {
			return i
		}
	}
	fmt.Fprintln(os.Stderr, "epochs17: bad replay token", s)
	os.Exit(2)
	return -1
}

// doReplay re-executes one schedule linearly, with the oracle after every block.
func doReplay(f *core.Flags, r *core.Result) {
	var rc replayCase
	core.ReadReplay(f.Replay, &rc)
	if rc.Config < 0 || rc.Config >= len(configs) {
		fmt.Fprintln(os.Stderr, "epochs17: bad config in replay")
		os.Exit(2)
	}
	e := &Explorer{f: f, r: r, cfg: rc.Config, replay: true, best: map[string]core.Violation{}}
	e.w = NewWorld(configs[rc.Config])
	var devs []Dev
	for _, d := range rc.Devs {
		ti := -1
		for i, t := range e.w.Timers {
			if t.ID == d.Timer {
				ti = i
			}
		}
		if ti < 0 {
			fmt.Fprintln(os.Stderr, "epochs17: bad timer in replay")
			os.Exit(2)
		}
		devs = append(devs, Dev{Block: d.Block, Timer: ti, Kind: index(kindNames, d.Signal), Sub: d.Sub - 1, Out: index(outcomeNames, d.Outcome)})
	}
	ctx := e.w.Root
	m := Model{}
	var didx []int
	var used []Dev
	for b, dn := range rc.Deltas {
		di := index(deltaNames, dn)
		didx = append(didx, di)
		block := b + 1
		var plan []Dev
		for _, d := range devs {
			if d.Block == block {
				plan = append(plan, d)
			}
		}
		used = append(used, plan...)
		tOff := m.Now + deltas[di]
		res := e.w.RunBlock(ctx, block, tOff, plan)
		ex := expect(m, e.w.Timers, block, tOff, plan)
		fails := Check(e.w, m, &ex, tOff, &res)
		r.Transitions++
		var sigs []string
		for _, g := range res.Log {
			sigs = append(sigs, invString(e.w.Timers, g.Timer, g.Kind, g.Sub, g.Epoch, g.Out))
		}
		fmt.Printf("block %d time %s: signals [%s] propagated=%v", block, offString(tOff), strings.Join(sigs, " "), res.Panicked)
		if !res.Panicked {
			for _, t := range e.w.Timers {
				fmt.Printf(" %s", infoString(e.w.K.GetEpochInfo(res.Ctx, t.ID)))
			}
			fmt.Printf(" store %s", prettyDump(storeDump(res.Ctx, e.w.markKey)))
		}
		fmt.Println()
		if len(fails) > 0 {
			e.report(didx, used, fails)
			break
		}
		ctx, m = res.Ctx, ex.Next
	}
	r.States, r.Traces = r.Transitions, 1
	finish(f, r)
}
