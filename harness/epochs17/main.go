// Command epochs17 is the deviation-bounded exhaustive explorer for property C17 (epoch timers tick once per
// elapsed period; subscriber failures stay contained; out-of-gas propagates). It drives the real x/epochs
// keeper's BeginBlocker over an in-memory multistore with two harness subscribers whose outcome at every
// signal is the explorer's choice. See DESIGN.md §5 C17.
package main

import (
	"flag"
	"fmt"
	"os"
	"runtime/debug"
	"runtime/pprof"
	"sort"
	"strconv"
	"strings"

	storetypes "cosmossdk.io/store/types"

	core "github.com/osmosis-labs/osmosis/x/epochs/zzverif/res"
)

// lmax[k] = longest block sequence explored with exactly k deviations placed (non-increasing in k).
var lmaxFlag = flag.String("lmax", "", "override: comma list, lmax[k] = max sequence length with k deviations")

func lmaxFor(tier string) []int {
	if *lmaxFlag != "" {
		var out []int
		for _, s := range strings.Split(*lmaxFlag, ",") {
			n, err := strconv.Atoi(strings.TrimSpace(s))
			if err != nil {
				fmt.Fprintln(os.Stderr, "epochs17: bad -lmax")
				os.Exit(2)
			}
			out = append(out, n)
		}
		return out
	}
	if tier == "thorough" {
		return []int{7, 6, 5, 4}
	}
	return []int{6, 5, 4}
}

var fastDump = flag.Bool("fastdump", false, "diagnostics: read the subscriber store by point lookups in blocks with deviations")
var dry = flag.Bool("dry", false, "diagnostics: count the executions a bound would need without running anything (result is not a check)")
var cpuProf = flag.String("cpuprofile", "", "write a CPU profile (diagnostics only)")

const shardLevel = 3 // work items are (node at depth shardLevel-1, next delta)

// node is a state of the exploration DAG reached by an all-ok block or by a dropped (out-of-gas) block.
type node struct {
	st     State
	m      Model
	depth  int
	deltas []int
	devs   []Dev   // deviations inside dropped blocks on the path (the only ones the state depends on)
	used   int     // = len(devs)
	poly   []int64 // poly[k] = number of ways to place k contained failures in the committed blocks of the path
}

type Explorer struct {
	f        *core.Flags
	r        *core.Result
	w        *World
	cfg      int
	lmax     []int
	item     int
	expired  bool
	execs    int64
	byDevs   [8]int64
	bySize   [8]int64
	maxPts   int64
	best     map[string]core.Violation // per assertion: the simplest failing schedule seen by this shard
	replay   bool
	nodes    int64
	fullDump bool
}

type replayCase struct {
	Config int      `json:"config"`
	Timers string   `json:"timers"`
	Deltas []string `json:"deltas"`
	Devs   []devJS  `json:"devs"`
}

type devJS struct {
	Block   int    `json:"block"`
	Timer   string `json:"timer"`
	Signal  string `json:"signal"`
	Sub     int    `json:"subscriber"`
	Outcome string `json:"outcome"`
}

func (e *Explorer) signature(deltaIdx []int, devs []Dev) (string, replayCase) {
	rc := replayCase{Config: e.cfg, Timers: configNames[e.cfg]}
	var ds []string
	for _, d := range deltaIdx {
		ds = append(ds, deltaNames[d])
	}
	rc.Deltas = ds
	var vs []string
	for _, d := range devs {
		rc.Devs = append(rc.Devs, devJS{d.Block, e.w.Timers[d.Timer].ID, kindNames[d.Kind], d.Sub + 1, outcomeNames[d.Out]})
		vs = append(vs, fmt.Sprintf("(%d,%s,%s,s%d,%s)", d.Block, e.w.Timers[d.Timer].ID, kindNames[d.Kind], d.Sub+1, outcomeNames[d.Out]))
	}
	return fmt.Sprintf("timers=%s;dt=%s;dev=%s", configNames[e.cfg], strings.Join(ds, ","), strings.Join(vs, "")), rc
}

func simpler(a, b core.Violation) bool {
	ra, rb := a.Replay.(replayCase), b.Replay.(replayCase)
	if len(ra.Deltas) != len(rb.Deltas) {
		return len(ra.Deltas) < len(rb.Deltas)
	}
	if len(ra.Devs) != len(rb.Devs) {
		return len(ra.Devs) < len(rb.Devs)
	}
	if ra.Config != rb.Config {
		return ra.Config < rb.Config
	}
	return a.Signature < b.Signature
}

func (e *Explorer) report(deltaIdx []int, devs []Dev, fails []Failure) {
	sig, rc := e.signature(deltaIdx, devs)
	for _, f := range fails {
		v := core.Violation{Property: e.f.Prop, Assertion: f.Assertion, Signature: sig, Detail: sig + " :: " + f.Detail, Replay: rc}
		if e.replay {
			e.r.AddViolation(v)
			continue
		}
		if old, ok := e.best[f.Assertion]; !ok || simpler(v, old) {
			e.best[f.Assertion] = v
		}
	}
}

// allowed: may a block at position `block` carry a history's k-th deviation?
func (e *Explorer) allowed(block, k int) bool {
	return k < len(e.lmax) && block <= e.lmax[k]
}

// represented = number of complete histories (delta sequence + deviation placement, within the bounds) that
// end with this very execution: the s deviations of this block, the n.used ones in dropped blocks of the
// path, and any k' contained failures in the committed blocks of the path (each of those blocks was driven
// with each such failure set, was checked, and was verified to leave the byte-identical state).
func (e *Explorer) represented(n *node, block, s int) {
	for k1, ways := range n.poly {
		k := n.used + k1 + s
		if ways > 0 && e.allowed(block, k) {
			e.byDevs[k] += ways
			e.r.Traces += ways
		}
	}
}

// step drives block (n, di) with every deviation set the bounds allow: first all-ok, then recursively every
// placement at the subscriber calls reached after the last deviation already placed in the block.
func (e *Explorer) step(n *node, di int, owned bool) {
	if e.expired {
		return
	}
	block := n.depth + 1
	tOff := n.m.Now + deltas[di]
	childDeltas := append(append(make([]int, 0, block), n.deltas...), di)

	res, ex, fails := e.drive(n, block, tOff, nil)
	if owned {
		e.count(n, &ex, &res, childDeltas, n.devs, block, 0)
	}
	if len(fails) > 0 {
		e.report(childDeltas, n.devs, fails)
		return
	}
	var s0 State
	if !*dry {
		s0 = e.w.Snapshot(res.Ctx)
	}
	var ab aborts
	e.variants(n, di, block, tOff, childDeltas, nil, res.Log, s0, owned, &ab)

	// dropped blocks: every out-of-gas placement with the same number of deviations leaves the same state
	// (the parent's content, this block's time and height), so one node stands for all of them
	for s := range ab {
		a := &ab[s]
		if a.ways == 0 {
			continue
		}
		child := &node{st: n.st, m: a.next, depth: block, deltas: childDeltas, devs: a.devs, used: len(a.devs), poly: make([]int64, len(n.poly))}
		for k := range n.poly {
			child.poly[k] = n.poly[k] * a.ways
		}
		e.expand(child, owned)
	}

	// descend along the all-ok block
	p := len(res.Log)
	child := &node{st: s0, m: ex.Next, depth: block, deltas: childDeltas, devs: n.devs, used: n.used, poly: make([]int64, len(n.poly))}
	// poly * sum_j C(p,j) 4^j x^j
	for j, c := 0, int64(1); j <= p && j < len(child.poly); j++ {
		for k := 0; k+j < len(child.poly); k++ {
			child.poly[k+j] += n.poly[k] * c
		}
		c = c * int64(p-j) / int64(j+1) * 4
	}
	e.expand(child, owned)
}

func (e *Explorer) drive(n *node, block int, tOff int64, blockDevs []Dev) (BlockResult, Expect, []Failure) {
	e.execs++
	if e.execs&0x3ff == 0 && e.f.Expired() {
		e.expired = true
	}
	ex := expect(n.m, e.w.Timers, block, tOff, blockDevs)
	if *dry {
		// sizing aid only: no real code is run, the reference stands in for it; nothing is checked
		res := BlockResult{Panicked: ex.Abort}
		for i := 0; i < ex.NInv; i++ {
			v := ex.Invs[i]
			res.Log = append(res.Log, Inv{Timer: v.Timer, Kind: v.Kind, Sub: v.Sub, Epoch: v.Epoch, Out: v.Out})
		}
		if ex.Abort {
			res.PanicVal = storetypes.ErrorOutOfGas{}
		}
		return res, ex, nil
	}
	res := e.w.RunBlock(n.st, block, tOff, blockDevs)
	return res, ex, Check(e.w, n.m, &ex, tOff, &res, e.fullDump || len(blockDevs) == 0)
}

// aborts[s] collects the dropped-block successors produced by deviation sets of size s in one block.
type aborts [8]struct {
	ways int64
	next Model
	devs []Dev // first such set in enumeration order, with the path's: the representative for signatures
}

func (e *Explorer) variants(n *node, di, block int, tOff int64, childDeltas []int, blockDevs []Dev, log []Inv, s0 State, owned bool, ab *aborts) {
	if !e.allowed(block, n.used+len(blockDevs)+1) {
		return
	}
	start := 0
	if len(blockDevs) > 0 {
		last := blockDevs[len(blockDevs)-1]
		start = len(log)
		for i, g := range log {
			if g.Timer == last.Timer && g.Kind == last.Kind && g.Sub == last.Sub {
				start = i + 1
				break
			}
		}
	}
	for p := start; p < len(log); p++ {
		g := log[p]
		if g.Timer < 0 {
			continue
		}
		for o := 1; o < nOutcomes; o++ {
			if e.expired {
				return
			}
			bd := append(append(make([]Dev, 0, len(blockDevs)+1), blockDevs...), Dev{Block: block, Timer: g.Timer, Kind: g.Kind, Sub: g.Sub, Out: o})
			allDevs := append(append(make([]Dev, 0, n.used+len(bd)), n.devs...), bd...)
			res, ex, fails := e.drive(n, block, tOff, bd)
			if owned {
				e.count(n, &ex, &res, childDeltas, allDevs, block, len(bd))
			}
			if len(fails) == 0 && !res.Panicked && !*dry {
				// the epochs store must be exactly what the same block leaves without the failure
				if s := e.w.Snapshot(res.Ctx); s != s0 {
					fails = append(fails, Failure{"saved", fmt.Sprintf("epochs store after the block with contained subscriber failures differs from the store after the same block without them: %q vs %q", s, s0)})
				}
			}
			if len(fails) > 0 {
				e.report(childDeltas, allDevs, fails)
				continue
			}
			if res.Panicked {
				// dropped block: the state is unchanged, time and height moved on
				a := &ab[len(bd)]
				if a.ways == 0 {
					a.next, a.devs = ex.Next, allDevs
				} else if a.next != ex.Next {
					panic("harness: dropped-block successors differ")
				}
				a.ways++
				continue
			}
			e.variants(n, di, block, tOff, childDeltas, bd, res.Log, s0, owned, ab)
		}
	}
}

func (e *Explorer) expand(n *node, owned bool) {
	if owned {
		e.nodes++
	}
	if n.depth >= e.lmax[n.used] {
		return
	}
	for di := range deltas {
		o := owned
		if n.depth+1 < shardLevel {
			o = e.f.Mine(0) // shallow blocks are driven by every shard, counted by one
		} else if n.depth+1 == shardLevel {
			e.item++
			if !e.f.Mine(e.item) {
				continue
			}
			o = true
		}
		e.step(n, di, o)
	}
}

func (e *Explorer) count(n *node, ex *Expect, res *BlockResult, deltaIdx []int, devs []Dev, block, inBlock int) {
	r := e.r
	r.Transitions++
	e.bySize[inBlock]++
	e.represented(n, block, inBlock)
	nd := len(devs)
	v := r.Vacuity
	if ex.BeforeStart {
		v["block_before_start_time"]++
	}
	if ex.LateStart {
		v["timer_started_late_on_its_start_time"]++
	}
	if ex.ExactStart {
		v["block_exactly_at_start_time"]++
	}
	if ex.Catchup {
		v["gap_caught_up_one_epoch_per_block"]++
	}
	if ex.BoundaryNoTick {
		v["block_exactly_at_epoch_end_no_tick"]++
	}
	if ex.TickAt1ns {
		v["tick_1ns_after_epoch_end"]++
	}
	if ex.Ticked[0] && ex.Ticked[1] {
		v["two_timers_tick_same_block"]++
	}
	if ex.Ticked[0] || ex.Ticked[1] {
		v["ticks"]++
	}
	if n.m.Block > 0 && deltas[deltaIdx[len(deltaIdx)-1]] == 0 && (ex.Ticked[0] || ex.Ticked[1]) {
		v["tick_in_block_with_unchanged_time"]++
	}
	contained, otherOK := false, false
	for i, g := range res.Log {
		switch g.Out {
		case oErr:
			v["dev_error_injected"]++
		case oPanicStr:
			v["dev_panic_string_injected"]++
		case oPanicNil:
			v["dev_panic_nil_deref_injected"]++
		case oPanicIdx:
			v["dev_panic_index_injected"]++
		case oOOG:
			v["dev_out_of_gas_injected"]++
		case oGasOvf:
			v["dev_gas_overflow_injected"]++
		}
		if g.Out != oOK && g.Out != oOOG && g.Out != oGasOvf {
			contained = true
			// the other subscriber at the same signal
			for j, h := range res.Log {
				if j != i && h.Timer == g.Timer && h.Kind == g.Kind && h.Sub != g.Sub && h.Out == oOK {
					otherOK = true
				}
			}
		}
	}
	if res.Panicked {
		if _, ok := res.PanicVal.(storetypes.ErrorOutOfGas); ok {
			v["out_of_gas_propagated"]++
			if len(r.Samples) < 2 {
				s, _ := e.signature(deltaIdx, devs)
				r.AddSample("out-of-gas propagated, block dropped: " + s)
			}
		}
	} else if contained {
		v["failure_contained_block_completed"]++
		if otherOK {
			v["failure_contained_other_subscriber_written"]++
		}
	}
	if ex.Catchup && nd > 0 && len(r.Samples) < 4 && len(r.Samples) >= 2 {
		s, _ := e.signature(deltaIdx, devs)
		r.AddSample("catch-up tick with deviations: " + s)
	}
	if int64(len(res.Log)) > e.maxPts {
		e.maxPts = int64(len(res.Log))
	}
}

func (e *Explorer) run(cfg int) {
	e.cfg = cfg
	e.w = NewWorld(configs[cfg])
	m := Model{}
	// the imported timers must be what the reference starts from
	if fails := checkGenesis(e.w); len(fails) > 0 {
		e.report(nil, nil, fails)
		return
	}
	poly := make([]int64, len(e.lmax))
	poly[0] = 1
	root := &node{st: e.w.Genesis, m: m, poly: poly}
	e.expand(root, e.f.Mine(0))
}

// checkGenesis: after InitGenesis no timer has started and each is stored as configured.
func checkGenesis(w *World) []Failure {
	var fails []Failure
	all := w.K.AllEpochInfos(w.Root)
	if len(all) != len(w.Timers) {
		return []Failure{{"saved", fmt.Sprintf("genesis: %d epoch infos stored, %d configured", len(all), len(w.Timers))}}
	}
	for i, tc := range w.Timers {
		a := all[i]
		if a.Identifier != tc.ID || a.EpochCountingStarted || a.CurrentEpoch != 0 || !a.StartTime.Equal(at(tc.Start)) || int64(a.Duration) != tc.Dur {
			fails = append(fails, Failure{"saved", "genesis: timer stored as " + infoString(a)})
		}
	}
	return fails
}

func main() {
	f := core.ParseFlags()
	r := core.NewResult(f.Prop)
	if f.Prop != "C17" {
		fmt.Fprintln(os.Stderr, "epochs17: unknown property", f.Prop)
		os.Exit(2)
	}
	if f.Replay != "" {
		doReplay(f, r)
		return
	}
	lmax := lmaxFor(f.Tier)
	// the live heap is a few MB; collect less often
	debug.SetGCPercent(1000)
	if *cpuProf != "" {
		pf, _ := os.Create(*cpuProf)
		_ = pprof.StartCPUProfile(pf)
		defer pprof.StopCPUProfile()
	}
	e := &Explorer{f: f, r: r, lmax: lmax, best: map[string]core.Violation{}, fullDump: !*fastDump}
	for cfg := range configs {
		if cfg == 2 {
			// the mirrored two-timer configuration: every bound one level shallower (about an eighth of the cost)
			full := e.lmax
			short := make([]int, len(full))
			for i, v := range full {
				short[i] = v - 1
			}
			e.lmax = short
			e.run(cfg)
			e.lmax = full
			continue
		}
		e.run(cfg)
	}
	if e.expired || *dry {
		r.Exhaustive = false
		r.DepthCompleted = 0
	} else {
		r.DepthCompleted = lmax[0]
	}
	var as []string
	for a := range e.best {
		as = append(as, a)
	}
	sort.Strings(as)
	for _, a := range as {
		r.AddViolation(e.best[a])
	}
	r.States = e.nodes
	for k := 0; k < len(lmax); k++ {
		r.Extra[fmt.Sprintf("sum_blocks_driven_with_%d_deviations_inside", k)] = e.bySize[k]
	}
	for k := 0; k < len(lmax); k++ {
		r.Extra[fmt.Sprintf("sum_histories_with_%d_deviations", k)] = e.byDevs[k]
	}
	r.Extra["max_subscriber_calls_in_one_block"] = e.maxPts
	r.Extra["sum_blocks_driven_including_shared_shallow_levels"] = e.execs
	r.Extra["max_sequence_length_by_number_of_deviations"] = fmt.Sprint(lmax)
	r.Extra["delta_alphabet"] = strings.Join(deltaNames, ",")
	r.Extra["timer_configurations"] = strings.Join(configNames, " | ")
	r.Extra["outcome_alphabet"] = strings.Join(outcomeNames, ",")
	if f.Mine(0) {
		r.AddSample("configurations: " + strings.Join(configNames, " | ") + "; t0 = genesis+3s; every sequence over {" + strings.Join(deltaNames, ",") + "}")
	}
	core.Finish(f, r)
}

func index(names []string, s string) int {
	for i, n := range names {
		if n == s {
			return i
		}
	}
	fmt.Fprintln(os.Stderr, "epochs17: bad replay token", s)
	os.Exit(2)
	return -1
}

// doReplay re-executes one schedule linearly, with the oracle after every block.
func doReplay(f *core.Flags, r *core.Result) {
	var rc replayCase
	core.ReadReplay(f.Replay, &rc)
	if rc.Config < 0 || rc.Config >= len(configs) {
		fmt.Fprintln(os.Stderr, "epochs17: bad config in replay")
		os.Exit(2)
	}
	e := &Explorer{f: f, r: r, cfg: rc.Config, replay: true, best: map[string]core.Violation{}}
	e.w = NewWorld(configs[rc.Config])
	var devs []Dev
	for _, d := range rc.Devs {
		ti := -1
		for i, t := range e.w.Timers {
			if t.ID == d.Timer {
				ti = i
			}
		}
		if ti < 0 {
			fmt.Fprintln(os.Stderr, "epochs17: bad timer in replay")
			os.Exit(2)
		}
		devs = append(devs, Dev{Block: d.Block, Timer: ti, Kind: index(kindNames, d.Signal), Sub: d.Sub - 1, Out: index(outcomeNames, d.Outcome)})
	}
	st := e.w.Genesis
	m := Model{}
	var didx []int
	var used []Dev
	for b, dn := range rc.Deltas {
		di := index(deltaNames, dn)
		didx = append(didx, di)
		block := b + 1
		var plan []Dev
		for _, d := range devs {
			if d.Block == block {
				plan = append(plan, d)
			}
		}
		used = append(used, plan...)
		tOff := m.Now + deltas[di]
		res := e.w.RunBlock(st, block, tOff, plan)
		ex := expect(m, e.w.Timers, block, tOff, plan)
		fails := Check(e.w, m, &ex, tOff, &res, true)
		r.Transitions++
		var sigs []string
		for _, g := range res.Log {
			sigs = append(sigs, invString(e.w.Timers, g.Timer, g.Kind, g.Sub, g.Epoch, g.Out))
		}
		fmt.Printf("block %d time %s: signals [%s] propagated=%v", block, offString(tOff), strings.Join(sigs, " "), res.Panicked)
		if !res.Panicked {
			for _, t := range e.w.Timers {
				fmt.Printf(" %s", infoString(e.w.K.GetEpochInfo(res.Ctx, t.ID)))
			}
			fmt.Printf(" store %s", prettyDump(storeDump(res.Ctx, e.w.markKey)))
		}
		fmt.Println()
		if len(fails) > 0 {
			e.report(didx, used, fails)
			break
		}
		if !res.Panicked {
			st = e.w.Snapshot(res.Ctx)
		}
		m = ex.Next
	}
	r.States, r.Traces = r.Transitions, 1
	if fails := checkGenesis(e.w); len(fails) > 0 {
		e.report(nil, nil, fails)
	}
	core.Finish(f, r)
}
