package main

import (
	"encoding/binary"
	"errors"
	"time"

	"cosmossdk.io/log"
	"cosmossdk.io/store"
	"cosmossdk.io/store/metrics"
	storetypes "cosmossdk.io/store/types"
	cmtproto "github.com/cometbft/cometbft/proto/tendermint/types"
	dbm "github.com/cosmos/cosmos-db"
	sdk "github.com/cosmos/cosmos-sdk/types"

	"github.com/osmosis-labs/osmosis/x/epochs/keeper"
	"github.com/osmosis-labs/osmosis/x/epochs/types"
)

// ---------------------------------------------------------------------------------------------
// Alphabet
// ---------------------------------------------------------------------------------------------

// genesisTime is the fixed origin; every other instant is an int64 nanosecond offset from it.
var genesisTime = time.Date(2024, 1, 1, 0, 0, 0, 0, time.UTC)

func at(off int64) time.Time { return genesisTime.Add(time.Duration(off)) }

const sec = int64(time.Second)

// TimerCfg is one epoch timer of a configuration. The slice order of a configuration is the store's key
// order of the identifiers.
type TimerCfg struct {
	ID    string
	Dur   int64 // ns
	Start int64 // ns offset of StartTime from genesisTime
}

// t0 = genesis + 3 s: blocks with accumulated time 0, 1 s, 2 s come before the first start time, 1 s+1 s+1 s
// hits it exactly, 9 s starts it late; the second timer's start (t0 + 7 s = genesis + 10 s) is hit exactly
// by 10 s or 9 s+1 s.
const t0 = 3 * sec

// Identifiers are chosen so that the timer that starts later sorts first in the store: the keeper serves
// timers in key order, and an early exit at a not-yet-started or just-ticked timer must not starve the rest.
var configs = [][]TimerCfg{
	{{ID: "B10", Dur: 10 * sec, Start: t0}},
	{{ID: "A25", Dur: 25 * sec, Start: t0 + 7*sec}, {ID: "B10", Dur: 10 * sec, Start: t0}},
	// the mirror image: the timer that starts later sorts LAST, so the keeper reads a running timer and then a
	// not-yet-started one (state must not leak from one decoded timer into the next). Explored one level shallower.
	{{ID: "B10", Dur: 10 * sec, Start: t0}, {ID: "C25", Dur: 25 * sec, Start: t0 + 7*sec}},
}

var configNames = []string{"B10:10s@t0", "A25:25s@t0+7s,B10:10s@t0", "B10:10s@t0,C25:25s@t0+7s (one level shallower)"}

var deltas = []int64{0, 1 * sec, 9 * sec, 10 * sec, 10*sec + 1, 11 * sec, 25 * sec, 61 * sec}
var deltaNames = []string{"0", "1s", "9s", "10s", "10s+1ns", "11s", "25s", "61s"}

const (
	kEnd   = 0 // AfterEpochEnd
	kStart = 1 // BeforeEpochStart
)

var kindNames = []string{"end", "start"}

// Outcome of one subscriber at one signal.
const (
	oOK       = 0
	oErr      = 1 // write marker, return error
	oPanicStr = 2 // write marker, panic(string)
	oPanicNil = 3 // write marker, nil pointer dereference (runtime.Error)
	oPanicIdx = 4 // write marker, index out of range (runtime.Error)
	oOOG      = 5 // write marker, then a store write under an exhausted gas meter (storetypes.ErrorOutOfGas)
	oGasOvf   = 6 // write marker, then a gas-counter overflow (storetypes.ErrorGasOverflow): the other out-of-gas condition
	nOutcomes = 7
)

var outcomeNames = []string{"ok", "err", "panic_str", "panic_nil", "panic_idx", "oog", "gas_overflow"}

// Dev is one deviation from the all-ok behaviour: at block Block (1-based), when timer Timer sends signal
// Kind, subscriber Sub behaves as Out.
type Dev struct {
	Block int `json:"block"`
	Timer int `json:"timer"`
	Kind  int `json:"signal"`
	Sub   int `json:"sub"`
	Out   int `json:"outcome"`
}

// ---------------------------------------------------------------------------------------------
// World: the real keeper over an in-memory multistore, with two harness subscribers
// ---------------------------------------------------------------------------------------------

// MarkV is the value of a marker key: which block and which epoch number the last surviving write came from.
type MarkV struct {
	Set   bool
	Block int32
	Epoch int64
}

// Inv is one observed subscriber invocation.
type Inv struct {
	Timer, Kind, Sub int
	Epoch            int64
	Out              int
	// what the subscriber saw through the context it was handed
	ViewStarted bool
	ViewEpoch   int64
	ViewStart   time.Time
	SeenOther   MarkV // the other subscriber's marker for the same (timer, signal) at entry
	SeenOwnCnt  int64 // own success counter at entry
}

type World struct {
	K         *keeper.Keeper
	epochsKey *storetypes.KVStoreKey
	markKey   *storetypes.KVStoreKey
	Root      sdk.Context
	Timers    []TimerCfg

	epochKeys [][]byte
	Genesis   State
	cur       State
	haveCur   bool

	reqs  chan sdk.Context
	resps chan blockResp

	// set per block by the driver
	plan  []Dev
	block int
	log   []Inv
}

var (
	markKeys [2][2][2][]byte // [sub][timer][kind]
	cntKeys  [2][]byte
)

func init() {
	for s := 0; s < 2; s++ {
		cntKeys[s] = []byte{'c', '/', byte('0' + s)}
		for t := 0; t < 2; t++ {
			for k := 0; k < 2; k++ {
				markKeys[s][t][k] = []byte{'m', '/', byte('0' + s), '/', byte('0' + t), '/', byte('0' + k)}
			}
		}
	}
}

func encMark(block int, epoch int64) []byte {
	b := make([]byte, 12)
	binary.BigEndian.PutUint32(b, uint32(block))
	binary.BigEndian.PutUint64(b[4:], uint64(epoch))
	return b
}

func decMark(b []byte) MarkV {
	if b == nil {
		return MarkV{}
	}
	if len(b) != 12 {
		return MarkV{Set: true, Block: -1, Epoch: -1}
	}
	return MarkV{Set: true, Block: int32(binary.BigEndian.Uint32(b)), Epoch: int64(binary.BigEndian.Uint64(b[4:]))}
}

func decCnt(b []byte) int64 {
	if len(b) != 8 {
		if b == nil {
			return 0
		}
		return -1
	}
	return int64(binary.BigEndian.Uint64(b))
}

func encCnt(n int64) []byte {
	b := make([]byte, 8)
	binary.BigEndian.PutUint64(b, uint64(n))
	return b
}

type subscriber struct {
	w   *World
	idx int
}

var _ types.EpochHooks = (*subscriber)(nil)

func (s *subscriber) AfterEpochEnd(ctx sdk.Context, id string, n int64) error {
	return s.w.signal(ctx, s.idx, kEnd, id, n)
}

func (s *subscriber) BeforeEpochStart(ctx sdk.Context, id string, n int64) error {
	return s.w.signal(ctx, s.idx, kStart, id, n)
}

func (s *subscriber) GetModuleName() string { return "verifsub" + string(rune('1'+s.idx)) }

var (
	nilInfo    *types.EpochInfo
	emptySlice []int
	sink       int64
)

func (w *World) timerIndex(id string) int {
	for i, t := range w.Timers {
		if t.ID == id {
			return i
		}
	}
	return -1
}

func (w *World) lookup(timer, kind, sub int) int {
	for _, d := range w.plan {
		if d.Timer == timer && d.Kind == kind && d.Sub == sub {
			return d.Out
		}
	}
	return oOK
}

// signal is the body of both subscribers: observe, write a marker and bump a counter through the handed
// context, then behave as the explorer chose for this point.
func (w *World) signal(ctx sdk.Context, sub, kind int, id string, n int64) error {
	ti := w.timerIndex(id)
	inv := Inv{Timer: ti, Kind: kind, Sub: sub, Epoch: n}
	info := w.K.GetEpochInfo(ctx, id)
	inv.ViewStarted, inv.ViewEpoch, inv.ViewStart = info.EpochCountingStarted, info.CurrentEpoch, info.CurrentEpochStartTime
	st := ctx.KVStore(w.markKey)
	if ti >= 0 {
		inv.SeenOther = decMark(st.Get(markKeys[1-sub][ti][kind]))
	}
	inv.SeenOwnCnt = decCnt(st.Get(cntKeys[sub]))
	out := oOK
	if ti >= 0 {
		out = w.lookup(ti, kind, sub)
	}
	inv.Out = out
	w.log = append(w.log, inv)

	// the partial work every outcome performs before it succeeds or fails
	if ti >= 0 {
		st.Set(markKeys[sub][ti][kind], encMark(w.block, n))
	}
	st.Set(cntKeys[sub], encCnt(inv.SeenOwnCnt+1))

	switch out {
	case oErr:
		return errors.New("verif: subscriber failed")
	case oPanicStr:
		panic("verif: subscriber panicked")
	case oPanicNil:
		sink += nilInfo.CurrentEpoch // nil pointer dereference
	case oPanicIdx:
		sink += int64(emptySlice[int(n)+3]) // index out of range
	case oOOG:
		// a genuine out-of-gas from the store layer: one more write, metered by a 1-gas meter
		ctx.WithGasMeter(storetypes.NewGasMeter(1)).KVStore(w.markKey).Set(cntKeys[sub], encCnt(inv.SeenOwnCnt+2))
	case oGasOvf:
		// a genuine overflow of the consumed-gas counter of an (infinite) gas meter
		gm := storetypes.NewInfiniteGasMeter()
		gm.ConsumeGas(^uint64(0), "verif")
		gm.ConsumeGas(2, "verif")
	}
	return nil
}

// NewWorld builds the keeper over an in-memory multistore (two KV stores, dbadapter over MemDB, nop logger)
// the way the module's own tests do (they mount IAVL over the same MemDB; the property only concerns KV
// semantics and a plain DB store keeps state cloning a matter of copying two entries), registers the two
// subscribers through SetHooks(NewMultiEpochHooks(..)) as the application does, and imports the timers
// through InitGenesis at height 0 / genesisTime.
func NewWorld(timers []TimerCfg) *World {
	w := &World{Timers: timers}
	w.epochsKey = storetypes.NewKVStoreKey(types.StoreKey)
	w.markKey = storetypes.NewKVStoreKey("verifmarks")
	db := dbm.NewMemDB()
	cms := store.NewCommitMultiStore(db, log.NewNopLogger(), metrics.NewNoOpMetrics())
	cms.MountStoreWithDB(w.epochsKey, storetypes.StoreTypeDB, nil)
	cms.MountStoreWithDB(w.markKey, storetypes.StoreTypeDB, nil)
	if err := cms.LoadLatestVersion(); err != nil {
		panic(err)
	}
	w.Root = sdk.NewContext(cms, cmtproto.Header{Height: 0, Time: genesisTime, ChainID: "verif-1"}, false, log.NewNopLogger())
	w.K = keeper.NewKeeper(w.epochsKey)
	w.K.SetHooks(types.NewMultiEpochHooks(&subscriber{w, 0}, &subscriber{w, 1}))
	gs := types.GenesisState{}
	for _, t := range timers {
		gs.Epochs = append(gs.Epochs, types.EpochInfo{Identifier: t.ID, StartTime: at(t.Start), Duration: time.Duration(t.Dur)})
		w.epochKeys = append(w.epochKeys, append(append([]byte{}, types.KeyPrefixEpoch...), []byte(t.ID)...))
	}
	if err := gs.Validate(); err != nil {
		panic(err)
	}
	w.K.InitGenesis(w.Root, gs)
	w.Genesis = w.Snapshot(w.Root)
	w.cur, w.haveCur = w.Genesis, true
	return w
}

// State is the literal content of the epochs store: the raw stored record of each configured timer. The
// subscribers' store is empty at the start of every block (the driver never commits it), so State plus the
// block time and height is everything the next block depends on.
type State [2]string

// Snapshot reads the epochs store content through ctx.
func (w *World) Snapshot(ctx sdk.Context) State {
	var s State
	st := ctx.KVStore(w.epochsKey)
	for i, k := range w.epochKeys {
		s[i] = string(st.Get(k))
	}
	return s
}

// SetState makes s the content of the root epochs store.
func (w *World) SetState(s State) {
	if w.haveCur && w.cur == s {
		return
	}
	st := w.Root.KVStore(w.epochsKey)
	for i, k := range w.epochKeys {
		if !w.haveCur || w.cur[i] != s[i] {
			st.Set(k, []byte(s[i]))
		}
	}
	w.cur, w.haveCur = s, true
}

type blockResp struct {
	panicked bool
	val      interface{}
}

func (w *World) worker() {
	for ctx := range w.reqs {
		var rp blockResp
		func() {
			defer func() {
				if r := recover(); r != nil {
					rp.panicked, rp.val = true, r
				}
			}()
			w.K.BeginBlocker(ctx)
		}()
		w.resps <- rp
	}
}

// BlockResult is everything observable about one driven block.
type BlockResult struct {
	Ctx      sdk.Context // the branch the block ran on
	Log      []Inv
	Events   sdk.Events
	Panicked bool
	PanicVal interface{}
}

// RunBlock drives the module's real BeginBlocker for block number `block` at time genesis+tOff on a fresh
// branch of the root store holding state s (the way the application runs it on a branch of the committed
// state). The branch is never written back: the caller reads the outcome from it and, to continue from the
// resulting state, passes its Snapshot to the next RunBlock. If anything propagates out of BeginBlocker
// the block counts as dropped (a block whose BeginBlock panics is never committed) and the next block
// starts from s again.
func (w *World) RunBlock(s State, block int, tOff int64, plan []Dev) BlockResult {
	w.SetState(s)
	child, _ := w.Root.CacheContext()
	child = child.WithBlockHeight(int64(block)).WithBlockTime(at(tOff))
	w.plan, w.block, w.log = plan, block, w.log[:0]
	res := BlockResult{Ctx: child}
	// BeginBlocker runs on a helper goroutine with a shallow stack: the code under test takes a full stack
	// trace (debug.Stack) at every recovered panic, whose cost grows with the explorer's recursion depth.
	if w.reqs == nil {
		w.reqs, w.resps = make(chan sdk.Context), make(chan blockResp)
		go w.worker()
	}
	w.reqs <- child
	rp := <-w.resps
	res.Panicked, res.PanicVal = rp.panicked, rp.val
	res.Log = append([]Inv(nil), w.log...)
	if !res.Panicked {
		res.Events = child.EventManager().Events()
	}
	return res
}
