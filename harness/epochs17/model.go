package main

import (
	"bytes"
	"fmt"
	"strconv"
	"strings"
	"time"

	storetypes "cosmossdk.io/store/types"
	sdk "github.com/cosmos/cosmos-sdk/types"

	"github.com/osmosis-labs/osmosis/x/epochs/types"
)

// ---------------------------------------------------------------------------------------------
// Reference: an arithmetic grid per timer, and the surviving subscriber writes
// ---------------------------------------------------------------------------------------------

type TimerM struct {
	Started  bool
	Cur      int64 // current epoch number (0 before the start)
	CurStart int64 // ns offset of the current epoch's start
	Height   int64 // block at which the current epoch began (the height of AddEpochInfo before the start)
}

type Model struct {
	Now   int64 // time of the last driven block
	Block int
	T     [2]TimerM
}

type ExpInv struct {
	Timer, Kind, Sub int
	Epoch            int64
	Out              int
	SeenOther        MarkV
	SeenOwnCnt       int64
}

type ExpEvent struct {
	Type  string
	Attrs [2][2]string
	N     int
}

type Expect struct {
	Invs   [8]ExpInv
	NInv   int
	Abort  bool // an out-of-gas must propagate out of BeginBlocker
	Events [4]ExpEvent
	NEv    int
	Next   Model
	M      [2][2][2]MarkV // [sub][timer][kind]: surviving marker writes of this block
	C      [2]int64       // per subscriber: number of signals it handled successfully in this block
	// what happened, for the vacuity counters
	Ticked, Initial [2]bool
	BeforeStart     bool
	LateStart       bool
	ExactStart      bool
	Catchup         bool
	BoundaryNoTick  bool
	TickAt1ns       bool
}

func planLookup(plan []Dev, timer, kind, sub int) int {
	for _, d := range plan {
		if d.Timer == timer && d.Kind == kind && d.Sub == sub {
			return d.Out
		}
	}
	return oOK
}

// expect computes, from the reference alone, what block `block` at time tOff must do.
//
// Reading of the statement: a timer starts at the first block whose time is not before its start time, as
// epoch 1 beginning at the start time (grid point 0), signalling start-of-epoch 1; afterwards it advances in
// a block exactly when block time > current epoch start + duration (strictly: "has passed"), by one epoch,
// signalling end-of-epoch n then start-of-epoch n+1, each to every subscriber once. Where the statement is
// silent (no end-of-epoch 0; timers served in identifier order; subscribers served in registration order)
// the code's behaviour is the reference.
func expect(m Model, timers []TimerCfg, block int, tOff int64, plan []Dev) Expect {
	var ex Expect
	work := m
	work.Now, work.Block = tOff, block
	aborted := func() Expect {
		ex.Abort = true
		ex.Next = m
		ex.Next.Now, ex.Next.Block = tOff, block
		return ex
	}
	for ti, tc := range timers {
		tm := work.T[ti]
		var sigs [2][2]int64 // (kind, epoch)
		ns := 0
		var nt TimerM
		if !tm.Started {
			if tOff < tc.Start {
				ex.BeforeStart = true
				continue
			}
			if tOff > tc.Start {
				ex.LateStart = true
			} else {
				ex.ExactStart = true
			}
			nt = TimerM{Started: true, Cur: 1, CurStart: tc.Start, Height: int64(block)}
			sigs[0] = [2]int64{kStart, 1}
			ns = 1
			ex.Initial[ti] = true
		} else if tOff > tm.CurStart+tc.Dur {
			if m.Now > tm.CurStart+tc.Dur {
				ex.Catchup = true // this tick was already owed at the previous block's time
			}
			if tOff == tm.CurStart+tc.Dur+1 {
				ex.TickAt1ns = true
			}
			nt = TimerM{Started: true, Cur: tm.Cur + 1, CurStart: tm.CurStart + tc.Dur, Height: int64(block)}
			sigs[0] = [2]int64{kEnd, tm.Cur}
			sigs[1] = [2]int64{kStart, tm.Cur + 1}
			ns = 2
			ex.Ticked[ti] = true
			e := &ex.Events[ex.NEv]
			ex.NEv++
			e.Type, e.N = types.EventTypeEpochEnd, 1
			e.Attrs[0] = [2]string{types.AttributeEpochNumber, strconv.FormatInt(tm.Cur, 10)}
		} else {
			if tOff == tm.CurStart+tc.Dur {
				ex.BoundaryNoTick = true
			}
			continue
		}
		e := &ex.Events[ex.NEv]
		ex.NEv++
		e.Type, e.N = types.EventTypeEpochStart, 2
		e.Attrs[0] = [2]string{types.AttributeEpochNumber, strconv.FormatInt(nt.Cur, 10)}
		e.Attrs[1] = [2]string{types.AttributeEpochStartTime, strconv.FormatInt(at(nt.CurStart).Unix(), 10)}
		for s := 0; s < ns; s++ {
			kind, epoch := int(sigs[s][0]), sigs[s][1]
			for sub := 0; sub < 2; sub++ {
				out := planLookup(plan, ti, kind, sub)
				ex.Invs[ex.NInv] = ExpInv{Timer: ti, Kind: kind, Sub: sub, Epoch: epoch, Out: out,
					SeenOther: ex.M[1-sub][ti][kind], SeenOwnCnt: ex.C[sub]}
				ex.NInv++
				switch out {
				case oOK:
					ex.M[sub][ti][kind] = MarkV{Set: true, Block: int32(block), Epoch: epoch}
					ex.C[sub]++
				case oOOG, oGasOvf:
					return aborted()
				}
			}
		}
		work.T[ti] = nt
	}
	ex.Next = work
	return ex
}

// grid is the start of epoch n (n >= 1) of a timer.
func grid(tc TimerCfg, n int64) int64 { return tc.Start + (n-1)*tc.Dur }

// ---------------------------------------------------------------------------------------------
// Oracle
// ---------------------------------------------------------------------------------------------

type Failure struct {
	Assertion string
	Detail    string
}

func (m *Expect) marksDump(nTimers int) []byte {
	var b bytes.Buffer
	for s := 0; s < 2; s++ {
		if m.C[s] != 0 {
			b.Write(cntKeys[s])
			b.WriteByte('=')
			b.Write(encCnt(m.C[s]))
			b.WriteByte(';')
		}
	}
	for s := 0; s < 2; s++ {
		for t := 0; t < nTimers; t++ {
			for k := 0; k < 2; k++ {
				if v := m.M[s][t][k]; v.Set {
					b.Write(markKeys[s][t][k])
					b.WriteByte('=')
					b.Write(encMark(int(v.Block), v.Epoch))
					b.WriteByte(';')
				}
			}
		}
	}
	return b.Bytes()
}

func storeDump(ctx sdk.Context, key storetypes.StoreKey) []byte {
	var b bytes.Buffer
	it := ctx.KVStore(key).Iterator(nil, nil)
	defer it.Close()
	for ; it.Valid(); it.Next() {
		b.Write(it.Key())
		b.WriteByte('=')
		b.Write(it.Value())
		b.WriteByte(';')
	}
	return b.Bytes()
}

// pointDump reads the same content by point lookups of every key a subscriber can write.
func pointDump(ctx sdk.Context, key storetypes.StoreKey, nTimers int) []byte {
	var b bytes.Buffer
	st := ctx.KVStore(key)
	put := func(k []byte) {
		if v := st.Get(k); v != nil {
			b.Write(k)
			b.WriteByte('=')
			b.Write(v)
			b.WriteByte(';')
		}
	}
	for s := 0; s < 2; s++ {
		put(cntKeys[s])
	}
	for s := 0; s < 2; s++ {
		for t := 0; t < nTimers; t++ {
			for k := 0; k < 2; k++ {
				put(markKeys[s][t][k])
			}
		}
	}
	return b.Bytes()
}

func prettyDump(d []byte) string {
	var parts []string
	for _, kv := range bytes.Split(d, []byte{';'}) {
		if len(kv) == 0 {
			continue
		}
		i := bytes.IndexByte(kv, '=')
		k, v := string(kv[:i]), kv[i+1:]
		if strings.HasPrefix(k, "c/") {
			parts = append(parts, fmt.Sprintf("%s=%d", k, decCnt(v)))
		} else {
			mv := decMark(v)
			parts = append(parts, fmt.Sprintf("%s=(block %d, epoch %d)", k, mv.Block, mv.Epoch))
		}
	}
	return "{" + strings.Join(parts, " ") + "}"
}

func invString(timers []TimerCfg, t, k, s int, e int64, o int) string {
	id := "?"
	if t >= 0 && t < len(timers) {
		id = timers[t].ID
	}
	return fmt.Sprintf("%s.%s(%d)->s%d:%s", id, kindNames[k], e, s+1, outcomeNames[o])
}

// Check compares one driven block with the reference. prev is the reference state before the block.
func Check(w *World, prev Model, ex *Expect, tOff int64, res *BlockResult, full bool) []Failure {
	var fails []Failure
	fail := func(a, f string, args ...interface{}) {
		fails = append(fails, Failure{a, fmt.Sprintf(f, args...)})
	}
	timers := w.Timers

	// --- propagation -------------------------------------------------------------------------
	if res.Panicked {
		if oog, ok := res.PanicVal.(storetypes.ErrorOutOfGas); ok {
			if !ex.Abort {
				fail("propagation_oog", "BeginBlocker propagated an out-of-gas (%q) although no subscriber ran out of gas", oog.Descriptor)
			}
		} else if ovf, ok := res.PanicVal.(storetypes.ErrorGasOverflow); ok {
			if !ex.Abort {
				fail("propagation_oog", "BeginBlocker propagated a gas overflow (%q) although no subscriber overflowed", ovf.Descriptor)
			}
		} else {
			fail("propagation_other", "BeginBlocker propagated a panic that is not out-of-gas: %T %v", res.PanicVal, res.PanicVal)
		}
	} else if ex.Abort {
		fail("propagation_oog", "a subscriber ran out of gas but BeginBlocker returned normally (out-of-gas swallowed)")
	}
	if len(fails) > 0 {
		return fails
	}

	// --- timers: the statement's clauses, each on its own ---------------------------------------
	if !res.Panicked {
		ctx := res.Ctx
		for ti, tc := range timers {
			p := prev.T[ti]
			act := w.K.GetEpochInfo(ctx, tc.ID)
			if !p.Started {
				should := tOff >= tc.Start
				if act.EpochCountingStarted != should {
					fail("start", "timer %s (start %s): block time %s, counting started = %v", tc.ID, offString(tc.Start), offString(tOff), act.EpochCountingStarted)
				} else if should && (act.CurrentEpoch != 1 || !act.CurrentEpochStartTime.Equal(at(tc.Start))) {
					fail("start", "timer %s started as epoch %d beginning %s; must be epoch 1 beginning at its start time %s", tc.ID, act.CurrentEpoch, timeString(act), offString(tc.Start))
				} else if !should && act.CurrentEpoch != 0 {
					fail("start", "timer %s has epoch %d before its start time", tc.ID, act.CurrentEpoch)
				}
			} else {
				due := tOff > p.CurStart+tc.Dur
				d := act.CurrentEpoch - p.Cur
				if d < 0 || d > 1 {
					fail("tick", "timer %s went from epoch %d to %d in one block", tc.ID, p.Cur, act.CurrentEpoch)
				} else if (d == 1) != due {
					fail("tick", "timer %s: block time %s, current epoch %d ends at %s: advanced=%v, must be %v", tc.ID, offString(tOff), p.Cur, offString(p.CurStart+tc.Dur), d == 1, due)
				}
				if !act.EpochCountingStarted {
					fail("tick", "timer %s lost its counting-started flag", tc.ID)
				}
			}
			if act.EpochCountingStarted && act.CurrentEpoch >= 1 && !act.CurrentEpochStartTime.Equal(at(grid(tc, act.CurrentEpoch))) {
				fail("grid", "timer %s epoch %d starts at %s, grid point is %s", tc.ID, act.CurrentEpoch, timeString(act), offString(grid(tc, act.CurrentEpoch)))
			}
		}
		if len(fails) > 0 {
			return fails // everything below is derived from the reference transition
		}
		if full {
			if all := w.K.AllEpochInfos(ctx); len(all) != len(timers) {
				fail("saved", "%d epoch infos stored, %d timers configured", len(all), len(timers))
			}
		}
		for ti, tc := range timers {
			act := w.K.GetEpochInfo(ctx, tc.ID)
			// complete record against the reference
			n := ex.Next.T[ti]
			wantStart := at(n.CurStart)
			if !n.Started {
				wantStart = time.Time{}
			}
			if act.Identifier != tc.ID || !act.StartTime.Equal(at(tc.Start)) || int64(act.Duration) != tc.Dur ||
				act.EpochCountingStarted != n.Started || act.CurrentEpoch != n.Cur || act.CurrentEpochStartHeight != n.Height ||
				!act.CurrentEpochStartTime.Equal(wantStart) {
				fail("saved", "timer %s stored as %s; reference {started %v epoch %d start %s height %d}", tc.ID, infoString(act), n.Started, n.Cur, offString(n.CurStart), n.Height)
			}
		}
	}

	// --- signal stream -----------------------------------------------------------------------
	// per timer: exactly the expected signals, in order, each to each subscriber once, right arguments
	for ti := range timers {
		same := true
		j := 0
		for i := 0; i < ex.NInv && same; i++ {
			e := ex.Invs[i]
			if e.Timer != ti {
				continue
			}
			for j < len(res.Log) && res.Log[j].Timer != ti {
				j++
			}
			if j >= len(res.Log) {
				same = false
				break
			}
			g := res.Log[j]
			j++
			same = g.Kind == e.Kind && g.Sub == e.Sub && g.Epoch == e.Epoch && g.Out == e.Out
		}
		for ; j < len(res.Log) && same; j++ {
			if res.Log[j].Timer == ti {
				same = false
			}
		}
		if same {
			continue
		}
		var exp, got []string
		for i := 0; i < ex.NInv; i++ {
			if e := ex.Invs[i]; e.Timer == ti {
				exp = append(exp, invString(timers, e.Timer, e.Kind, e.Sub, e.Epoch, e.Out))
			}
		}
		for _, g := range res.Log {
			if g.Timer == ti {
				got = append(got, invString(timers, g.Timer, g.Kind, g.Sub, g.Epoch, g.Out))
			}
		}
		fail("signals", "timer %s: signals delivered in this block = [%s], reference = [%s]", timers[ti].ID, strings.Join(got, " "), strings.Join(exp, " "))
	}
	for _, g := range res.Log {
		if g.Timer < 0 {
			fail("signals", "signal for an unknown timer")
		}
	}

	// --- what subscribers saw ----------------------------------------------------------------
	if len(res.Log) == ex.NInv {
		for i, g := range res.Log {
			e := ex.Invs[i]
			if g.Timer != e.Timer || g.Kind != e.Kind || g.Sub != e.Sub || g.Epoch != e.Epoch {
				continue // already reported (or timers served in another order, which the statement allows)
			}
			tc := timers[g.Timer]
			if !g.ViewStarted || g.ViewEpoch != g.Epoch || !g.ViewStart.Equal(at(grid(tc, g.Epoch))) {
				fail("signal_view", "during %s the epoch info query showed started=%v epoch=%d start=%s; the signalled epoch is %d starting %s",
					invString(timers, g.Timer, g.Kind, g.Sub, g.Epoch, g.Out), g.ViewStarted, g.ViewEpoch, viewString(g.ViewStart), g.Epoch, offString(grid(tc, g.Epoch)))
			}
			if g.SeenOther != e.SeenOther || g.SeenOwnCnt != e.SeenOwnCnt {
				fail("containment", "during %s the subscriber saw other-subscriber marker %+v / own counter %d; surviving writes so far are %+v / %d (a discarded write was visible, or a surviving one was not)",
					invString(timers, g.Timer, g.Kind, g.Sub, g.Epoch, g.Out), g.SeenOther, g.SeenOwnCnt, e.SeenOther, e.SeenOwnCnt)
			}
		}
	}

	if res.Panicked {
		// the block is dropped; nothing further to observe
		return fails
	}
	ctx := res.Ctx

	// --- events ------------------------------------------------------------------------------
	{
		same := len(res.Events) == ex.NEv
		for i := 0; i < ex.NEv && same; i++ {
			e, g := ex.Events[i], res.Events[i]
			same = g.Type == e.Type && len(g.Attributes) == e.N
			for a := 0; a < e.N && same; a++ {
				same = g.Attributes[a].Key == e.Attrs[a][0] && g.Attributes[a].Value == e.Attrs[a][1]
			}
		}
		if !same {
			var exp, got []string
			for i := 0; i < ex.NEv; i++ {
				e := ex.Events[i]
				s := e.Type
				for a := 0; a < e.N; a++ {
					s += " " + e.Attrs[a][0] + "=" + e.Attrs[a][1]
				}
				exp = append(exp, s)
			}
			for _, e := range res.Events {
				s := e.Type
				for _, a := range e.Attributes {
					s += " " + a.Key + "=" + a.Value
				}
				got = append(got, s)
			}
			fail("events", "events emitted = [%s], reference = [%s]", strings.Join(got, " | "), strings.Join(exp, " | "))
		}
	}

	// --- containment: the subscribers' store holds exactly the surviving writes -----------------
	want := ex.marksDump(len(timers))
	var have []byte
	if full {
		have = storeDump(ctx, w.markKey)
	} else {
		have = pointDump(ctx, w.markKey, len(timers))
	}
	if !bytes.Equal(want, have) {
		fail("containment", "subscriber store after the block = %s, surviving writes per reference = %s", prettyDump(have), prettyDump(want))
	}
	return fails
}

func offString(off int64) string {
	s, ns := off/sec, off%sec
	if ns == 0 {
		return fmt.Sprintf("g+%ds", s)
	}
	return fmt.Sprintf("g+%ds+%dns", s, ns)
}

func viewString(t time.Time) string {
	if t.Year() < 2000 {
		return "(zero)"
	}
	return offString(int64(t.Sub(genesisTime)))
}

func timeString(e types.EpochInfo) string {
	if e.CurrentEpochStartTime.Year() < 2000 {
		return "(zero)"
	}
	return offString(int64(e.CurrentEpochStartTime.Sub(genesisTime)))
}

func infoString(e types.EpochInfo) string {
	return fmt.Sprintf("{id %s start %s dur %s started %v epoch %d curstart %s height %d}", e.Identifier,
		offString(int64(e.StartTime.Sub(genesisTime))), e.Duration, e.EpochCountingStarted, e.CurrentEpoch, timeString(e), e.CurrentEpochStartHeight)
}
