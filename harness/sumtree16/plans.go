package main

// Plans: each plan is one closed state space = (fan-out m, seed op list, key alphabet, op alphabet,
// value bounds). A plan is explored breadth-first to its FIXPOINT (MaxDepth = 0) unless a depth
// bound is stated. Plans are the independent work items dealt to shards.

import (
	"encoding/hex"
	"fmt"
	"strings"
	"time"

	core "github.com/osmosis-labs/osmosis/osmoutils/zzverif/res"
)

type Plan struct {
	Name     string
	M        uint8
	SeedName string
	Seed     []Op // executed on NewTree(store,m) before the search; every seed step is checked too
	Keys     [][]byte
	SetVals  []int64
	PerKey   bool  // Set(k, w_k) with one fixed weight per key (2^i) instead of SetVals
	Inc, Dec bool  // Increase(k,2) / Decrease(k,1)
	IncCap   int64 // Increase disabled once value >= IncCap
	Floor    int64 // Decrease disabled once value <= Floor
	Rem      bool
	NilEmpty bool // hand the empty key to the tree as nil instead of []byte{}
	MaxDepth int  // 0 = to fixpoint
	Probes   [][]byte

	Ops       []Op
	Queries   [][]byte
	seedImg   []byte
	seedModel Model
	// set when the seed itself violates the structural oracle or panics
	seedFail   *Finding
	seedFailAt int
}

func hk(b []byte) string { return hex.EncodeToString(b) }

func (p *Plan) Describe() string {
	ks := make([]string, len(p.Keys))
	for i, k := range p.Keys {
		ks[i] = fmt.Sprintf("%q", string(k))
	}
	var ops []string
	if p.PerKey {
		ops = append(ops, "Set(k,2^rank(k))")
	} else {
		ops = append(ops, fmt.Sprintf("Set(k,v) v in %v", p.SetVals))
	}
	if p.Inc {
		ops = append(ops, fmt.Sprintf("Increase(k,2) while value<%d", p.IncCap))
	}
	if p.Dec {
		ops = append(ops, fmt.Sprintf("Decrease(k,1) while value>%d", p.Floor))
	}
	if p.Rem {
		ops = append(ops, "Remove(k)")
	}
	d := "fixpoint"
	if p.MaxDepth > 0 {
		d = fmt.Sprintf("depth<=%d", p.MaxDepth)
	}
	return fmt.Sprintf("m=%d seed=%s(%d ops) keys={%s} ops={%s} %s", p.M, p.SeedName, len(p.Seed), strings.Join(ks, ","), strings.Join(ops, "; "), d)
}

// prepare builds the op alphabet, the query set and the seed image (by running the seed on the
// real tree, checking every step).
func (p *Plan) prepare() {
	if p.Ops != nil {
		return
	}
	for i, k := range p.Keys {
		if p.PerKey {
			p.Ops = append(p.Ops, Op{K: "set", Key: hk(k), V: 1 << uint(i)})
		} else {
			for _, v := range p.SetVals {
				p.Ops = append(p.Ops, Op{K: "set", Key: hk(k), V: v})
			}
		}
		if p.Inc {
			p.Ops = append(p.Ops, Op{K: "inc", Key: hk(k), V: 2})
		}
		if p.Dec {
			p.Ops = append(p.Ops, Op{K: "dec", Key: hk(k), V: 1})
		}
		if p.Rem {
			p.Ops = append(p.Ops, Op{K: "rem", Key: hk(k)})
		}
	}
	if p.NilEmpty {
		for i := range p.Ops {
			p.Ops[i].Nil = p.Ops[i].Key == ""
		}
	}
	p.Queries = append(append([][]byte{}, p.Keys...), p.Probes...)
	// seed: built with real calls from NewTree; every 16th step and the last one are checked
	// structurally. A seed that cannot be built soundly is itself a counterexample (the seed ops are
	// ordinary operations), reported by the explorer instead of being explored from.
	w := freshWorld(p.M)
	model := Model{{"", 0}} // NewTree inserts the empty key with value zero
	for i, o := range p.Seed {
		if msg := try(func() { applyImpl(w.tree, o) }); msg != "" {
			p.seedFail = &Finding{Assertion: "op.panic", Class: o.K + " " + msg, Detail: fmt.Sprintf("seed step %d %s: %s", i+1, o.String(), msg), Corrupt: true}
			p.seedFailAt = i + 1
			return
		}
		model = applyModel(model, o)
		if i%16 == 15 || i == len(p.Seed)-1 {
			fs, _ := checkStructure(w.tree, w.tree.VerifDump(), model, p.M)
			if len(fs) > 0 {
				f := fs[0]
				f.Detail = fmt.Sprintf("after seed step %d: %s", i+1, f.Detail)
				p.seedFail = &f
				p.seedFailAt = i + 1
				return
			}
		}
	}
	p.seedImg = image(w.tree.VerifDump())
	p.seedModel = model
}

func sinceStart(f *core.Flags) float64 { return time.Since(f.Start).Seconds() }

func finish(f *core.Flags, r *core.Result) {
	r.WallS = time.Since(f.Start).Seconds()
	r.Emit()
}

var (
	keys8 = [][]byte{{}, []byte("00"), []byte("a"), []byte("a\x00"), []byte("ab"), []byte("b"), {0xff}, {0xff, 0xff}}
	// thorough adds four more: deeper shared prefixes and byte extremes next to existing keys
	keys12 = append(append([][]byte{}, keys8...), []byte("aa"), []byte{0xfe}, []byte("b\x00"), []byte("a\x00\x00"))
	probes = [][]byte{[]byte("0"), []byte("c")} // never inserted by any alphabet
)

func sub(ks [][]byte, idx ...int) [][]byte {
	out := make([][]byte, len(idx))
	for i, j := range idx {
		out[i] = ks[j]
	}
	return out
}

// threeNodeSeed builds, with real Set/Remove calls, a level-1 layout  A | B | C  under one root in
// which B holds exactly the alphabet keys `mid` (all between "a" and "b") and len(A)+len(C) < m, so
// that the search can empty B and reach the sibling-merge path for fan-outs where the 8-key alphabet
// alone cannot build three siblings (m >= 5). Fillers: "1%03d" (between "00" and "a") and "c%03d"
// (between "b" and 0xff); the search never touches them.
func threeNodeSeed(m int, mid [][]byte) (ops []Op, fillers [][]byte) {
	split := m/2 + 1
	if split+len(mid) > m+1 {
		panic("threeNodeSeed: fan-out too small for this middle node")
	}
	lo := func(i int) []byte { return []byte(fmt.Sprintf("1%03d", i)) }
	hi := func(i int) []byte { return []byte(fmt.Sprintf("c%03d", i)) }
	set := func(k []byte) { ops = append(ops, Op{K: "set", Key: hk(k), V: 3}) }
	rem := func(k []byte) { ops = append(ops, Op{K: "rem", Key: hk(k)}) }
	// A' = "" + (split-1) low fillers
	for i := 1; i <= split-1; i++ {
		set(lo(i))
	}
	for _, k := range mid {
		set(k)
	}
	// fill to m+1 children -> first split: A = first `split`, B' = [mid..., c001..]
	nh := 0
	for n := split + len(mid); n < m+1; n++ {
		nh++
		set(hi(nh))
	}
	// B' has m+1-split children; add high fillers until B' overflows: B = first `split`, C = rest
	for n := m + 1 - split; n < m+1; n++ {
		nh++
		set(hi(nh))
	}
	// B = [mid..., c001 .. c(split-len(mid))] : drop its fillers
	for i := 1; i <= split-len(mid); i++ {
		rem(hi(i))
	}
	// make room for a merge: drop two fillers from A and two from C
	rem(lo(1))
	rem(lo(2))
	rem(hi(nh))
	rem(hi(nh - 1))
	// probes among the fillers: one that was removed again, one that stays in A, one that stays in C
	fillers = [][]byte{lo(1), lo(split - 1), hi(nh - 2)}
	return
}

func plansFor(tier string) []*Plan {
	var ps []*Plan
	add := func(p *Plan) {
		if p.SeedName == "" {
			p.SeedName = "new"
		}
		if p.IncCap == 0 {
			p.IncCap = 9
		}
		if p.Floor == 0 {
			p.Floor = -2
		}
		if p.Probes == nil {
			p.Probes = probes
		}
		ps = append(ps, p)
	}
	vals := []int64{1, 5}
	mid4 := sub(keys8, 2, 3, 4, 5) // a, a\0, ab, b
	mid3 := sub(keys8, 2, 3, 4)    // a, a\0, ab
	seeded := func(name string, m uint8, mid, keys [][]byte) {
		seed, fill := threeNodeSeed(int(m), mid)
		add(&Plan{Name: fmt.Sprintf("m%d/%s", m, name), M: m, SeedName: fmt.Sprintf("three_nodes(%d)", len(mid)), Seed: seed, Keys: keys, PerKey: true, Rem: true,
			Probes: append(append([][]byte{}, probes...), fill...)})
	}
	{
		// ---- quick (also the first 16 plans of thorough: they guarantee the vacuity events early)
		// m=2 trees over 8 keys reach 7 levels and > 10^5 stored shapes; quick uses 6 keys
		add(&Plan{Name: "m2/shapes6", M: 2, Keys: sub(keys8, 0, 1, 2, 3, 5, 6), PerKey: true, Rem: true})
		add(&Plan{Name: "m2/values3", M: 2, Keys: sub(keys8, 0, 3, 5), SetVals: vals, Inc: true, Dec: true, Rem: true})
		for _, m := range []uint8{3, 4, 5, 10, 255} {
			add(&Plan{Name: fmt.Sprintf("m%d/shapes8", m), M: m, Keys: keys8, PerKey: true, Rem: true})
			add(&Plan{Name: fmt.Sprintf("m%d/values3", m), M: m, Keys: sub(keys8, 0, 3, 5), SetVals: vals, Inc: true, Dec: true, Rem: true})
		}
		seeded("three_nodes", 10, mid4, sub(keys8, 1, 2, 3, 4, 5, 6))
		seeded("three_nodes", 255, mid4, sub(keys8, 2, 3, 4, 5, 6))
		seeded("three_nodes", 5, mid3, sub(keys8, 1, 2, 3, 4, 5, 6))
		// the empty key handed over as nil (what NewTree itself does) instead of []byte{}
		add(&Plan{Name: "m3/shapes6nil", M: 3, Keys: sub(keys8, 0, 1, 2, 3, 5, 6), PerKey: true, Rem: true, NilEmpty: true})
	}
	if tier != "thorough" {
		return ps
	}
	// ---- thorough: per fan-out the largest key set whose reachable set still closes within the tier budget
	keysN := func(n int) [][]byte { return keys12[:n] }
	shapes := func(m uint8, n int) {
		add(&Plan{Name: fmt.Sprintf("m%d/shapes%d", m, n), M: m, Keys: keysN(n), PerKey: true, Rem: true})
	}
	values4 := func(m uint8) {
		add(&Plan{Name: fmt.Sprintf("m%d/values4", m), M: m, Keys: sub(keys8, 0, 2, 3, 6), SetVals: vals, Inc: true, Dec: true, Rem: true})
	}
	// (order = shard assignment: the three light plans first, they share a shard with the last three)
	shapes(255, 12)
	values4(255)
	values4(10)
	shapes(2, 7) // m=2 over 8 keys does not close within the budget (> 10^6 stored shapes, 7 levels)
	shapes(3, 10)
	shapes(4, 10)
	shapes(5, 11)
	shapes(10, 12)
	for _, m := range []uint8{3, 4, 5} {
		add(&Plan{Name: fmt.Sprintf("m%d/shapes8v", m), M: m, Keys: keys8, SetVals: vals, Rem: true})
	}
	for _, m := range []uint8{2, 3, 4, 5} {
		values4(m)
	}
	seeded("three_nodes_k8", 10, mid4, keys8)
	seeded("three_nodes_k6", 255, mid4, sub(keys8, 1, 2, 3, 4, 5, 6))
	seeded("three_nodes_k8", 5, mid3, keys8)
	add(&Plan{Name: "m3/shapes8nil", M: 3, Keys: keys8, PerKey: true, Rem: true, NilEmpty: true})
	return ps
}
