package main

// Reference model: a plain sorted list of (key, value) pairs — "what a sorted map would answer".
// It is driven by the requested operations only, never by anything read from the tree.

import (
	"bytes"
	"sort"
)

type kv struct {
	K string
	V int64
}

// Model is kept sorted by key (bytewise).
type Model []kv

func (m Model) find(k string) (int, bool) {
	i := sort.Search(len(m), func(i int) bool { return m[i].K >= k })
	return i, i < len(m) && m[i].K == k
}

func (m Model) Has(k string) bool { _, ok := m.find(k); return ok }

func (m Model) Get(k string) int64 {
	if i, ok := m.find(k); ok {
		return m[i].V
	}
	return 0
}

// With returns a copy with k set to v.
func (m Model) With(k string, v int64) Model {
	i, ok := m.find(k)
	if ok {
		out := append(Model(nil), m...)
		out[i].V = v
		return out
	}
	out := make(Model, 0, len(m)+1)
	out = append(out, m[:i]...)
	out = append(out, kv{k, v})
	out = append(out, m[i:]...)
	return out
}

// Without returns a copy with k removed.
func (m Model) Without(k string) Model {
	i, ok := m.find(k)
	if !ok {
		return m
	}
	out := make(Model, 0, len(m)-1)
	out = append(out, m[:i]...)
	out = append(out, m[i+1:]...)
	return out
}

func (m Model) Total() (s int64) {
	for _, e := range m {
		s += e.V
	}
	return
}

// Subset: sum of values with a <= key <= b; a==nil open start, b==nil open end.
func (m Model) Subset(a, b []byte) (s int64) {
	for _, e := range m {
		if a != nil && bytes.Compare([]byte(e.K), a) < 0 {
			continue
		}
		if b != nil && bytes.Compare([]byte(e.K), b) > 0 {
			continue
		}
		s += e.V
	}
	return
}

// Split: (sum key<k, value at k, sum key>k).
func (m Model) Split(k []byte) (l, x, r int64) {
	for _, e := range m {
		switch c := bytes.Compare([]byte(e.K), k); {
		case c < 0:
			l += e.V
		case c == 0:
			x += e.V
		default:
			r += e.V
		}
	}
	return
}

// Range: entries with begin <= key < end in ascending order (nil = unbounded).
func (m Model) Range(begin, end []byte, reverse bool) []kv {
	var out []kv
	for _, e := range m {
		if begin != nil && bytes.Compare([]byte(e.K), begin) < 0 {
			continue
		}
		if end != nil && bytes.Compare([]byte(e.K), end) >= 0 {
			continue
		}
		out = append(out, e)
	}
	if reverse {
		for i, j := 0, len(out)-1; i < j; i, j = i+1, j-1 {
			out[i], out[j] = out[j], out[i]
		}
	}
	return out
}
