package main

// Oracles of C16. Two families:
//   structural  — evaluated on the decoded raw store (read-only accessor in package sumtree):
//                 leaves == model, every internal entry's accumulation == sum of the node it
//                 points to, child pointers resolve, keys ordered / ranges disjoint, every node
//                 referenced exactly once, exactly one root and it is what Tree.root() returns.
//                 A structural failure means the stored tree is corrupted: the state is pruned.
//   query       — every exported read of the API against the sorted-map model.

import (
	"bytes"
	"fmt"
	"regexp"
	"strings"

	"github.com/cosmos/gogoproto/proto"

	storetypes "cosmossdk.io/store/types"

	"github.com/osmosis-labs/osmosis/osmomath"
	"github.com/osmosis-labs/osmosis/osmoutils/sumtree"
)

type Finding struct {
	Assertion string // stable oracle id
	Class     string // stable sub-class (no numbers that vary between equivalent cases)
	Detail    string
	Corrupt   bool // stored state is inconsistent -> prune
}

func hx(b []byte) string {
	if b == nil {
		return "nil"
	}
	return fmt.Sprintf("%q", string(b))
}

var reNum = regexp.MustCompile(`[0-9]+`)

func panicClass(p interface{}) string {
	s := fmt.Sprint(p)
	s = reNum.ReplaceAllString(s, "N")
	if len(s) > 120 {
		s = s[:120]
	}
	return s
}

func i64(x osmomath.Int) int64 {
	if x.IsNil() {
		return -1 << 62
	}
	if !x.IsInt64() {
		return 1<<62 + 1
	}
	return x.Int64()
}

// ---------------------------------------------------------------- structure

type nodeInfo struct {
	key      string
	children []sumtree.VerifChild
	sum      int64
	refs     int
}

// Shape is a cheap structural summary used for the vacuity events.
type Shape struct {
	Nodes    map[uint16]int // nodes per level
	Fanout   map[string]int // "level/key" -> number of children (level>=1)
	TopLevel int            // -1 when the store is empty
}

func shapeOf(dump []sumtree.VerifEntry) Shape {
	s := Shape{Nodes: map[uint16]int{}, Fanout: map[string]int{}, TopLevel: -1}
	for _, e := range dump {
		if e.BadKey {
			continue
		}
		s.Nodes[e.Level]++
		if int(e.Level) > s.TopLevel {
			s.TopLevel = int(e.Level)
		}
		if e.Level >= 1 {
			s.Fanout[fmt.Sprintf("%d/%s", e.Level, e.Key)] = len(e.Children)
		}
	}
	return s
}

func checkStructure(t sumtree.Tree, dump []sumtree.VerifEntry, model Model, m uint8) (out []Finding, maxFan int) {
	bad := func(a, class, detail string) {
		out = append(out, Finding{Assertion: a, Class: class, Detail: detail, Corrupt: true})
	}
	levels := map[uint16][]*nodeInfo{}
	top := -1
	for _, e := range dump {
		if e.BadKey {
			bad("struct.foreign_key", "", fmt.Sprintf("store entry %q is not a tree node", e.RawKey))
			continue
		}
		ni := &nodeInfo{key: string(e.Key), children: e.Children}
		for _, c := range e.Children {
			if c.Nil {
				bad("struct.nil_child", fmt.Sprintf("L%d", e.Level), fmt.Sprintf("node L%d/%s has a nil child record", e.Level, hx(e.Key)))
				continue
			}
			ni.sum += i64(c.Acc)
		}
		levels[e.Level] = append(levels[e.Level], ni)
		if int(e.Level) > top {
			top = int(e.Level)
		}
	}
	// leaves == model
	leaves := levels[0]
	if len(leaves) != len(model) {
		bad("struct.leaves", "count", fmt.Sprintf("%d leaves stored, sorted map has %d entries", len(leaves), len(model)))
	}
	for i, l := range leaves {
		if len(l.children) != 1 || l.children[0].Nil || string(l.children[0].Index) != l.key {
			bad("struct.leaves", "record", fmt.Sprintf("leaf %s does not carry its own key", hx([]byte(l.key))))
			continue
		}
		if i < len(model) && (model[i].K != l.key || model[i].V != l.sum) {
			bad("struct.leaves", "content", fmt.Sprintf("leaf #%d is (%s,%d), sorted map has (%s,%d)", i, hx([]byte(l.key)), l.sum, hx([]byte(model[i].K)), model[i].V))
		}
	}
	if top < 0 {
		return
	}
	for L := 1; L <= top; L++ {
		nodes := levels[uint16(L)]
		if len(nodes) == 0 {
			bad("struct.level_gap", fmt.Sprintf("L%d", L), fmt.Sprintf("level %d has no node although level %d exists", L, top))
			continue
		}
		below := map[string]*nodeInfo{}
		for _, b := range levels[uint16(L-1)] {
			below[b.key] = b
		}
		for ni, n := range nodes {
			if len(n.children) > maxFan {
				maxFan = len(n.children)
			}
			// (a stored node without children, or with more than m children, is not contradicted by the
			// property statement; neither is asserted)
			for ci, c := range n.children {
				if c.Nil {
					continue
				}
				if ci > 0 && !n.children[ci-1].Nil && bytes.Compare(n.children[ci-1].Index, c.Index) >= 0 {
					bad("struct.order", fmt.Sprintf("L%d", L), fmt.Sprintf("node L%d/%s children not strictly ascending at %d: %s then %s", L, hx([]byte(n.key)), ci, hx(n.children[ci-1].Index), hx(c.Index)))
				}
				if string(c.Index) < n.key {
					bad("struct.range", fmt.Sprintf("L%d low", L), fmt.Sprintf("node L%d/%s holds child %s below its own key", L, hx([]byte(n.key)), hx(c.Index)))
				}
				if ni+1 < len(nodes) && string(c.Index) >= nodes[ni+1].key {
					bad("struct.range", fmt.Sprintf("L%d high", L), fmt.Sprintf("node L%d/%s holds child %s not below next node %s", L, hx([]byte(n.key)), hx(c.Index), hx([]byte(nodes[ni+1].key))))
				}
				b, ok := below[string(c.Index)]
				if !ok {
					bad("struct.dangling", fmt.Sprintf("L%d", L), fmt.Sprintf("node L%d/%s points to L%d/%s which does not exist", L, hx([]byte(n.key)), L-1, hx(c.Index)))
					continue
				}
				b.refs++
				if got := i64(c.Acc); got != b.sum {
					bad("struct.sum", fmt.Sprintf("L%d", L), fmt.Sprintf("node L%d/%s records accumulation %d for child %s whose own content sums to %d", L, hx([]byte(n.key)), got, hx(c.Index), b.sum))
				}
			}
		}
		for _, b := range levels[uint16(L-1)] {
			if b.refs != 1 {
				bad("struct.unreferenced", fmt.Sprintf("L%d refs=%d", L-1, b.refs), fmt.Sprintf("node L%d/%s is referenced %d times from level %d", L-1, hx([]byte(b.key)), b.refs, L))
			}
		}
	}
	if n := len(levels[uint16(top)]); n != 1 {
		bad("struct.root", "several", fmt.Sprintf("top level %d holds %d nodes", top, n))
	} else {
		var lvl uint16
		var key []byte
		var ok bool
		if p := try(func() { lvl, key, ok = t.VerifRoot() }); p != "" {
			bad("struct.root", "panic", "root(): "+p)
		} else if !ok || int(lvl) != top || string(key) != levels[uint16(top)][0].key {
			bad("struct.root", "mismatch", fmt.Sprintf("root() = (L%d,%s,%v), store top node is L%d/%s", lvl, hx(key), ok, top, hx([]byte(levels[uint16(top)][0].key))))
		}
	}
	return
}

// ---------------------------------------------------------------- queries

func try(f func()) (msg string) {
	defer func() {
		if p := recover(); p != nil {
			msg = "panic: " + panicClass(p)
		}
	}()
	f()
	return ""
}

// checkQueries compares every read of the API with the model. Q = the query key set (alphabet keys,
// absent probes, a few seed keys); nil is added for the open ends where the API defines it.
func checkQueries(t sumtree.Tree, model Model, Q [][]byte) (out []Finding) {
	add := func(a, class, detail string) {
		// one finding per (assertion,class) per state is enough
		for _, f := range out {
			if f.Assertion == a && f.Class == class {
				return
			}
		}
		out = append(out, Finding{Assertion: a, Class: class, Detail: detail})
	}
	emptyVal := model.Get("")
	classify := func(got, want int64) string {
		// diagnosis-bearing class: does the wrong answer equal the value stored at the empty key?
		if got == emptyVal {
			return "returns_value_at_empty_key"
		}
		return "mismatch"
	}
	var got osmomath.Int
	// Get
	for _, k := range Q {
		if p := try(func() { got = t.Get(k) }); p != "" {
			add("Get", p, fmt.Sprintf("Get(%s): %s", hx(k), p))
		} else if g, w := i64(got), model.Get(string(k)); g != w {
			add("Get", "mismatch", fmt.Sprintf("Get(%s) = %d, sorted map: %d", hx(k), g, w))
		}
	}
	// TotalAccumulatedValue
	if p := try(func() { got = t.TotalAccumulatedValue() }); p != "" {
		add("TotalAccumulatedValue", p, "TotalAccumulatedValue(): "+p)
	} else if g, w := i64(got), model.Total(); g != w {
		add("TotalAccumulatedValue", classify(g, w), fmt.Sprintf("TotalAccumulatedValue() = %d, sum of all values in the sorted map: %d (value at the empty key: %d)", g, w, emptyVal))
	}
	// PrefixSum
	for _, k := range Q {
		if p := try(func() { got = t.PrefixSum(k) }); p != "" {
			add("PrefixSum", p, fmt.Sprintf("PrefixSum(%s): %s", hx(k), p))
		} else if g, w := i64(got), model.Subset(nil, k); g != w {
			add("PrefixSum", "mismatch", fmt.Sprintf("PrefixSum(%s) = %d, sorted map: %d", hx(k), g, w))
		}
	}
	// SubsetAccumulation, all a <= b including nil ends
	ends := append([][]byte{nil}, Q...)
	for _, a := range ends {
		for _, b := range ends {
			if a != nil && b != nil && bytes.Compare(a, b) > 0 {
				continue
			}
			name := "SubsetAccumulation"
			if a == nil && b == nil {
				name = "SubsetAccumulation(nil,nil)"
			}
			if p := try(func() { got = t.SubsetAccumulation(a, b) }); p != "" {
				add(name, p, fmt.Sprintf("SubsetAccumulation(%s,%s): %s", hx(a), hx(b), p))
			} else if g, w := i64(got), model.Subset(a, b); g != w {
				cl := "mismatch"
				if a == nil && b == nil {
					cl = classify(g, w)
				}
				add(name, cl, fmt.Sprintf("SubsetAccumulation(%s,%s) = %d, sorted map: %d", hx(a), hx(b), g, w))
			}
		}
	}
	// SplitAcc
	for _, k := range Q {
		var l, x, r osmomath.Int
		if p := try(func() { l, x, r = t.SplitAcc(k) }); p != "" {
			add("SplitAcc", p, fmt.Sprintf("SplitAcc(%s): %s", hx(k), p))
		} else {
			wl, wx, wr := model.Split(k)
			if gl, gx, gr := i64(l), i64(x), i64(r); gl != wl || gx != wx || gr != wr {
				add("SplitAcc", "mismatch", fmt.Sprintf("SplitAcc(%s) = (%d,%d,%d), sorted map: (%d,%d,%d)", hx(k), gl, gx, gr, wl, wx, wr))
			}
		}
	}
	// Iterators, every (begin,end) pair incl. nil and begin > end, both directions
	for _, rev := range []bool{false, true} {
		name := "Iterator"
		if rev {
			name = "ReverseIterator"
		}
		for _, a := range ends {
			for _, b := range ends {
				var seq []kv
				p := try(func() { seq = drain(t, a, b, rev) })
				if p != "" {
					add(name, p, fmt.Sprintf("%s(%s,%s): %s", name, hx(a), hx(b), p))
					continue
				}
				want := model.Range(a, b, rev)
				if !sameSeq(seq, want) {
					add(name, "mismatch", fmt.Sprintf("%s(%s,%s) yields %s, sorted map: %s", name, hx(a), hx(b), fmtSeq(seq), fmtSeq(want)))
				}
			}
		}
	}
	return out
}

func drain(t sumtree.Tree, a, b []byte, rev bool) (seq []kv) {
	var it storetypes.Iterator
	if rev {
		it = t.ReverseIterator(a, b)
	} else {
		it = t.Iterator(a, b)
	}
	defer it.Close()
	for ; it.Valid(); it.Next() {
		k := it.Key()
		var leaf sumtree.Leaf
		if err := proto.Unmarshal(it.Value(), &leaf); err != nil {
			panic(err)
		}
		if len(k) < 7 {
			panic("iterator key shorter than the node prefix")
		}
		v := int64(-1 << 62)
		if leaf.Leaf != nil {
			v = i64(leaf.Leaf.Accumulation)
		}
		seq = append(seq, kv{string(k[7:]), v})
	}
	return
}

func sameSeq(a, b []kv) bool {
	if len(a) != len(b) {
		return false
	}
	for i := range a {
		if a[i] != b[i] {
			return false
		}
	}
	return true
}

func fmtSeq(s []kv) string {
	var sb strings.Builder
	sb.WriteString("[")
	for i, e := range s {
		if i > 0 {
			sb.WriteString(" ")
		}
		fmt.Fprintf(&sb, "%q:%d", e.K, e.V)
	}
	sb.WriteString("]")
	return sb.String()
}
