// Command sumtree16 is the engine-B explorer for property C16: breadth-first search to a FIXPOINT
// over all reachable states of a real osmoutils/sumtree.Tree on a real in-memory KV store
// (cosmossdk.io/store dbadapter over cosmos-db MemDB), compared after every transition with a
// plain sorted map. See DESIGN.md §5 C16 and plans.go for the alphabets.
package main

import (
	"crypto/sha256"
	"encoding/binary"
	"encoding/hex"
	"flag"
	"fmt"
	"os"
	"regexp"
	"runtime/debug"
	"runtime/pprof"
	"sort"
	"strings"

	dbm "github.com/cosmos/cosmos-db"

	"cosmossdk.io/store/dbadapter"

	"github.com/osmosis-labs/osmosis/osmomath"
	"github.com/osmosis-labs/osmosis/osmoutils/sumtree"
	core "github.com/osmosis-labs/osmosis/osmoutils/zzverif/res"
)

// ---------------------------------------------------------------- operations

type Op struct {
	K   string `json:"k"`   // set | inc | dec | rem
	Key string `json:"key"` // hex of the key bytes ("" = the empty key)
	V   int64  `json:"v,omitempty"`
	Nil bool   `json:"nil,omitempty"` // pass the empty key as nil rather than []byte{}
}

func (o Op) key() []byte {
	b, err := hex.DecodeString(o.Key)
	if err != nil {
		panic(err)
	}
	if o.Nil && len(b) == 0 {
		return nil
	}
	if b == nil {
		b = []byte{}
	}
	return b
}

func (o Op) String() string {
	k := fmt.Sprintf("%q", string(o.key()))
	if o.Nil {
		k = "nil"
	}
	switch o.K {
	case "set":
		return fmt.Sprintf("Set(%s,%d)", k, o.V)
	case "inc":
		return fmt.Sprintf("Increase(%s,%d)", k, o.V)
	case "dec":
		return fmt.Sprintf("Decrease(%s,%d)", k, o.V)
	}
	return fmt.Sprintf("Remove(%s)", k)
}

func opsString(ops []Op) string {
	s := make([]string, len(ops))
	for i, o := range ops {
		s[i] = o.String()
	}
	return strings.Join(s, "; ")
}

func applyImpl(t sumtree.Tree, o Op) {
	switch o.K {
	case "set":
		t.Set(o.key(), osmomath.NewInt(o.V))
	case "inc":
		t.Increase(o.key(), osmomath.NewInt(o.V))
	case "dec":
		t.Decrease(o.key(), osmomath.NewInt(o.V))
	case "rem":
		t.Remove(o.key())
	default:
		panic("unknown op " + o.K)
	}
}

func applyModel(m Model, o Op) Model {
	k := string(o.key())
	switch o.K {
	case "set":
		return m.With(k, o.V)
	case "inc":
		return m.With(k, m.Get(k)+o.V) // an absent key counts as 0 and comes into existence
	case "dec":
		return m.With(k, m.Get(k)-o.V)
	case "rem":
		return m.Without(k)
	}
	panic("unknown op " + o.K)
}

// ---------------------------------------------------------------- store handling

type world struct {
	db   *dbm.MemDB
	tree sumtree.Tree
}

func freshWorld(m uint8) world {
	db := dbm.NewMemDB()
	return world{db: db, tree: sumtree.NewTree(dbadapter.Store{DB: db}, m)}
}

// restore builds a new MemDB from a serialized store image and attaches a handle WITHOUT NewTree's
// implicit write.
func restore(img []byte, m uint8) world {
	db := dbm.NewMemDB()
	for p := 0; p < len(img); {
		kl := int(binary.BigEndian.Uint32(img[p:]))
		k := img[p+4 : p+4+kl]
		p += 4 + kl
		vl := int(binary.BigEndian.Uint32(img[p:]))
		v := img[p+4 : p+4+vl]
		p += 4 + vl
		if err := db.Set(k, v); err != nil {
			panic(err)
		}
	}
	return world{db: db, tree: sumtree.VerifAttach(dbadapter.Store{DB: db}, m)}
}

func image(dump []sumtree.VerifEntry) []byte {
	n := 0
	for _, e := range dump {
		n += 8 + len(e.RawKey) + len(e.RawValue)
	}
	out := make([]byte, 0, n)
	var l [4]byte
	for _, e := range dump {
		binary.BigEndian.PutUint32(l[:], uint32(len(e.RawKey)))
		out = append(out, l[:]...)
		out = append(out, e.RawKey...)
		binary.BigEndian.PutUint32(l[:], uint32(len(e.RawValue)))
		out = append(out, l[:]...)
		out = append(out, e.RawValue...)
	}
	return out
}

// stateHash identifies a state of one plan: plan name (the fan-out is not part of the store), raw
// store content, reference-model content.
func stateHash(plan string, img []byte, model Model) [32]byte {
	h := sha256.New()
	h.Write([]byte(plan))
	h.Write([]byte{0})
	h.Write(img)
	h.Write([]byte{0xff, 0x00, 0xff})
	var b [8]byte
	for _, e := range model {
		binary.BigEndian.PutUint32(b[:4], uint32(len(e.K)))
		h.Write(b[:4])
		h.Write([]byte(e.K))
		binary.BigEndian.PutUint64(b[:], uint64(e.V))
		h.Write(b[:])
	}
	var out [32]byte
	copy(out[:], h.Sum(nil))
	return out
}

// ---------------------------------------------------------------- evaluation of one state

// evalState runs the structural oracle and (unless structOnly) every query against the model.
var debugStructOnly, debugProgress bool

func evalState(w world, dump []sumtree.VerifEntry, model Model, pl *Plan, structOnly bool) (fs []Finding, maxFan int) {
	structOnly = structOnly || debugStructOnly
	fs, maxFan = checkStructure(w.tree, dump, model, pl.M)
	if !structOnly {
		fs = append(fs, checkQueries(w.tree, model, pl.Queries)...)
	}
	return
}

// run executes ops from the plan's seed image on a fresh store; returns the world, the model, the
// dump, and a non-empty panic message if the LAST executed op panicked (index in bad).
func run(pl *Plan, ops []Op) (w world, model Model, dump []sumtree.VerifEntry, panicAt int, panicMsg string) {
	w = restore(pl.seedImg, pl.M)
	model = pl.seedModel
	panicAt = -1
	for i, o := range ops {
		if p := try(func() { applyImpl(w.tree, o) }); p != "" {
			return w, applyModel(model, o), nil, i, p
		}
		model = applyModel(model, o)
	}
	dump = w.tree.VerifDump()
	return
}

// failsWith reports whether the state reached by ops violates assertion a (any class).
func failsWith(pl *Plan, ops []Op, a string) (bool, Finding) {
	w, model, dump, pAt, pMsg := run(pl, ops)
	if pAt >= 0 {
		if pAt == len(ops)-1 && a == "op.panic" {
			return true, Finding{Assertion: "op.panic", Class: ops[pAt].K + " " + pMsg, Detail: ops[pAt].String() + ": " + pMsg, Corrupt: true}
		}
		return false, Finding{}
	}
	fs, _ := evalState(w, dump, model, pl, strings.HasPrefix(a, "struct."))
	for _, f := range fs {
		if f.Assertion == a {
			return true, f
		}
	}
	return false, Finding{}
}

// shrink greedily deletes operations while the final state still violates the same assertion.
func shrink(pl *Plan, ops []Op, a string) []Op {
	cur := append([]Op(nil), ops...)
	for changed := true; changed; {
		changed = false
		for i := 0; i < len(cur); i++ {
			cand := append(append([]Op(nil), cur[:i]...), cur[i+1:]...)
			if ok, _ := failsWith(pl, cand, a); ok {
				cur = cand
				changed = true
				i--
			}
		}
		// simplest operand: every write becomes Set(k,1) where the failure does not depend on it
		for i := range cur {
			if cur[i].K == "rem" || (cur[i].K == "set" && cur[i].V == 1) {
				continue
			}
			cand := append([]Op(nil), cur...)
			cand[i] = Op{K: "set", Key: cur[i].Key, V: 1, Nil: cur[i].Nil}
			if ok, _ := failsWith(pl, cand, a); ok {
				cur = cand
				changed = true
			}
		}
	}
	return cur
}

// normalise renames the keys of an op list by their rank among the keys used (order-preserving, so
// the tree behaves identically up to the concrete bytes); the empty key stays distinguished ("E")
// because every tree is created holding it.
func normalise(ops []Op) string {
	used := map[string]bool{}
	for _, o := range ops {
		used[string(o.key())] = true
	}
	var ks []string
	for k := range used {
		if k != "" {
			ks = append(ks, k)
		}
	}
	sort.Strings(ks)
	name := map[string]string{"": "E"}
	for i, k := range ks {
		name[k] = fmt.Sprintf("k%d", i+1)
	}
	parts := make([]string, len(ops))
	for i, o := range ops {
		kn := name[string(o.key())]
		if o.Nil {
			kn = "Enil"
		}
		switch o.K {
		case "rem":
			parts[i] = "rem(" + kn + ")"
		default:
			parts[i] = fmt.Sprintf("%s(%s,%d)", o.K, kn, o.V)
		}
	}
	return strings.Join(parts, ";")
}

type ReplayDoc struct {
	Plan      string `json:"plan"`
	Tier      string `json:"tier"`
	M         int    `json:"m"`
	Seed      string `json:"seed"`
	Ops       []Op   `json:"ops"`
	Assertion string `json:"assertion"`
	Text      string `json:"text"`
}

func signature(pl *Plan, f Finding, ops []Op) string {
	if f.Class == "returns_value_at_empty_key" {
		// state class of defect F-16b: independent of fan-out and history
		return f.Assertion + "|" + f.Class
	}
	return fmt.Sprintf("m=%d|seed=%s|%s|%s", pl.M, pl.SeedName, f.Assertion, normalise(ops))
}

// ---------------------------------------------------------------- BFS

type rec struct {
	parent int32
	op     int16
}

type fstate struct {
	idx   int32
	img   []byte
	model Model
}

type explorer struct {
	f  *core.Flags
	r  *core.Result
	pl *Plan

	recs     []rec
	seen     *core.Seen
	shrunk   map[string]int
	pruned   int64
	unshrunk int64
	maxFan   int
}

func (e *explorer) path(idx int32, last int) []Op {
	var rev []Op
	if last >= 0 {
		rev = append(rev, e.pl.Ops[last])
	}
	for i := idx; i > 0; i = e.recs[i].parent {
		rev = append(rev, e.pl.Ops[e.recs[i].op])
	}
	for i, j := 0, len(rev)-1; i < j; i, j = i+1, j-1 {
		rev[i], rev[j] = rev[j], rev[i]
	}
	return rev
}

const shrinkPerAssertion = 40

// report turns a finding at the end of ops into a violation (shrunk + normalised signature).
func (e *explorer) report(f Finding, ops []Op) {
	pl := e.pl
	min := ops
	if f.Class != "returns_value_at_empty_key" {
		key := f.Assertion
		if e.shrunk[key] >= shrinkPerAssertion {
			e.unshrunk++
			return
		}
		e.shrunk[key]++
		min = shrink(pl, ops, f.Assertion)
		// the minimal form must fail identically on repeated fresh executions
		ok1, f1 := failsWith(pl, min, f.Assertion)
		ok2, f2 := failsWith(pl, min, f.Assertion)
		ok3, f3 := failsWith(pl, min, f.Assertion)
		if !ok1 || !ok2 || !ok3 || f1.Detail != f2.Detail || f2.Detail != f3.Detail {
			fmt.Fprintf(os.Stderr, "harness: replay of %s diverged (%v %v %v)\n", opsString(min), ok1, ok2, ok3)
			os.Exit(2)
		}
		f = f1
	}
	e.r.AddViolation(core.Violation{
		Property:  e.r.Property,
		Assertion: f.Assertion,
		Signature: signature(pl, f, min),
		Detail:    fmt.Sprintf("m=%d seed=%s after [%s]: %s", pl.M, pl.SeedName, opsString(min), f.Detail),
		Replay:    ReplayDoc{Plan: pl.Name, Tier: e.f.Tier, M: int(pl.M), Seed: pl.SeedName, Ops: min, Assertion: f.Assertion, Text: opsString(min)},
	})
}

// reportSeed reports a seed that could not be built soundly: the failing prefix of the seed op list
// is the counterexample (no shrinking: seeds are long scripted constructions).
func (e *explorer) reportSeed() {
	pl := e.pl
	f := *pl.seedFail
	ops := pl.Seed[:pl.seedFailAt]
	e.r.Transitions += int64(pl.seedFailAt)
	e.r.AddViolation(core.Violation{
		Property:  e.r.Property,
		Assertion: f.Assertion,
		Signature: fmt.Sprintf("m=%d|seed=%s|%s|seed-prefix(%d)", pl.M, pl.SeedName, f.Assertion, pl.seedFailAt),
		Detail:    fmt.Sprintf("m=%d, building seed %s from a new tree: %s", pl.M, pl.SeedName, f.Detail),
		Replay:    ReplayDoc{Plan: pl.Name, Tier: e.f.Tier, M: int(pl.M), Seed: pl.SeedName, Ops: nil, Assertion: f.Assertion, Text: "seed prefix: " + opsString(ops)},
	})
	e.r.Extra["plan:"+pl.Name] = map[string]interface{}{"m": pl.M, "seed": pl.SeedName, "seed_failed_at_step": pl.seedFailAt, "states": 0, "fixpoint": false}
	e.r.Exhaustive = false
}

func (e *explorer) vac(name string) { e.r.Vacuity[fmt.Sprintf("m%d_%s", e.pl.M, name)]++ }

func (e *explorer) events(pre, post Shape, o Op) {
	if o.K == "rem" {
		removed := false
		for L, n := range pre.Nodes {
			if L >= 1 && post.Nodes[L] < n {
				removed = true
			}
		}
		if removed {
			e.vac("empty_node_removed")
		}
		for k, n := range post.Fanout {
			if pn, ok := pre.Fanout[k]; ok && n > pn {
				e.vac("sibling_merge")
				break
			}
		}
		if post.TopLevel < pre.TopLevel {
			e.vac("top_level_vanished")
		}
		return
	}
	for L, n := range post.Nodes {
		if L >= 1 && pre.Nodes[L] >= 1 && n > pre.Nodes[L] {
			e.vac(fmt.Sprintf("split_L%d", L))
		}
	}
	if post.TopLevel > pre.TopLevel && pre.TopLevel >= 1 {
		e.vac("root_grown")
	}
}

func enabled(pl *Plan, o Op, model Model) bool {
	switch o.K {
	case "inc":
		return model.Get(string(o.key())) < pl.IncCap
	case "dec":
		return model.Get(string(o.key())) > pl.Floor
	}
	return true
}

func (e *explorer) explore() {
	pl := e.pl
	r := e.r
	if pl.seedFail != nil {
		e.reportSeed()
		return
	}
	// seed
	w, model, dump, pAt, pMsg := run(pl, nil)
	if pAt >= 0 {
		panic("seed panicked: " + pMsg)
	}
	img := image(dump)
	e.seen.Add(stateHash(pl.Name, img, model))
	e.recs = append(e.recs, rec{-1, -1})
	r.States++
	fs, fan := evalState(w, dump, model, pl, false)
	e.maxFan = fan
	for _, f := range fs {
		e.report(f, nil)
	}
	frontier := []fstate{{0, img, model}}
	depth := 0
	fix := false
	maxTop := 0
	for len(frontier) > 0 {
		if pl.MaxDepth > 0 && depth >= pl.MaxDepth {
			break
		}
		var next []fstate
		for _, s := range frontier {
			if e.f.Expired() {
				r.Exhaustive = false
				goto done
			}
			pw := restore(s.img, pl.M)
			pre := shapeOf(pw.tree.VerifDump())
			for oi, o := range pl.Ops {
				if !enabled(pl, o, s.model) {
					continue
				}
				w := restore(s.img, pl.M)
				r.Transitions++
				nm := applyModel(s.model, o)
				if p := try(func() { applyImpl(w.tree, o) }); p != "" {
					e.pruned++
					e.report(Finding{Assertion: "op.panic", Class: o.K + " " + p, Detail: o.String() + ": " + p, Corrupt: true}, e.path(s.idx, oi))
					continue
				}
				dump := w.tree.VerifDump()
				post := shapeOf(dump)
				e.events(pre, post, o)
				if post.TopLevel > maxTop {
					maxTop = post.TopLevel
				}
				nimg := image(dump)
				if !e.seen.Add(stateHash(pl.Name, nimg, nm)) {
					continue
				}
				r.States++
				idx := int32(len(e.recs))
				e.recs = append(e.recs, rec{s.idx, int16(oi)})
				fs, fan := evalState(w, dump, nm, pl, false)
				if fan > e.maxFan {
					e.maxFan = fan
				}
				corrupt := false
				for _, f := range fs {
					corrupt = corrupt || f.Corrupt
				}
				if len(fs) > 0 {
					ops := e.path(idx, -1)
					for _, f := range fs {
						if corrupt && !f.Corrupt {
							continue // queries on a corrupted tree add nothing
						}
						e.report(f, ops)
					}
				}
				if corrupt {
					e.pruned++ // futures of a corrupted tree prove nothing
					continue
				}
				if len(r.Samples) < 2 && depth >= 3 {
					r.AddSample(fmt.Sprintf("m=%d %s: %s", pl.M, pl.Name, opsString(e.path(idx, -1))))
				}
				next = append(next, fstate{idx, nimg, nm})
			}
		}
		depth++
		frontier = next
		if debugProgress {
			fmt.Fprintf(os.Stderr, "  %s depth %d: frontier %d, states %d, transitions %d, pruned %d, %.1fs\n", pl.Name, depth, len(next), len(e.recs), r.Transitions, e.pruned, sinceStart(e.f))
		}
		if len(next) == 0 {
			fix = true
		}
	}
done:
	if !fix && pl.MaxDepth == 0 {
		r.Exhaustive = false
	}
	if r.DepthCompleted == 0 || depth < r.DepthCompleted {
		r.DepthCompleted = depth
	}
	r.Traces = r.States
	r.Extra["plan:"+pl.Name] = map[string]interface{}{
		"m": pl.M, "seed": pl.SeedName, "keys": len(pl.Keys), "ops": len(pl.Ops), "states": len(e.recs), "bfs_depth_at_closure": depth,
		"fixpoint": fix, "depth_bound": pl.MaxDepth, "pruned_corrupt_states": e.pruned, "violations_not_shrunk": e.unshrunk,
		"max_fanout_seen": e.maxFan, "levels_reached": maxTop, "alphabet": pl.Describe(),
	}
	r.Extra["sum_pruned_corrupt_states"] = asInt(r.Extra["sum_pruned_corrupt_states"]) + e.pruned
	r.Extra["sum_violations_not_shrunk"] = asInt(r.Extra["sum_violations_not_shrunk"]) + e.unshrunk
	if e.maxFan > int(pl.M) {
		r.Extra[fmt.Sprintf("max_fanout_over_m_m%d", pl.M)] = e.maxFan - int(pl.M)
	}
}

func asInt(v interface{}) int64 {
	if x, ok := v.(int64); ok {
		return x
	}
	return 0
}

// ---------------------------------------------------------------- replay

func replay(f *core.Flags, r *core.Result) {
	var doc ReplayDoc
	core.ReadReplay(f.Replay, &doc)
	var pl *Plan
	for _, p := range plansFor(doc.Tier) {
		if p.Name == doc.Plan {
			pl = p
		}
	}
	if pl == nil {
		fmt.Fprintln(os.Stderr, "harness: unknown plan in replay:", doc.Plan)
		os.Exit(2)
	}
	pl.prepare()
	if pl.seedFail != nil {
		f := *pl.seedFail
		fmt.Printf("seed %s cannot be built: %s\n", pl.SeedName, f.Detail)
		r.AddViolation(core.Violation{Property: r.Property, Assertion: f.Assertion,
			Signature: fmt.Sprintf("m=%d|seed=%s|%s|seed-prefix(%d)", pl.M, pl.SeedName, f.Assertion, pl.seedFailAt), Detail: f.Detail, Replay: doc})
		r.Traces = 1
		return
	}
	fmt.Printf("replaying on a fresh m=%d tree (seed %s): %s\n", pl.M, pl.SeedName, opsString(doc.Ops))
	for i := 0; i <= len(doc.Ops); i++ {
		ops := doc.Ops[:i]
		w, model, dump, pAt, pMsg := run(pl, ops)
		r.Transitions++
		if pAt >= 0 {
			fd := Finding{Assertion: "op.panic", Class: ops[pAt].K + " " + pMsg, Detail: ops[pAt].String() + ": " + pMsg, Corrupt: true}
			r.AddViolation(core.Violation{Property: r.Property, Assertion: fd.Assertion, Signature: signature(pl, fd, ops), Detail: fd.Detail, Replay: doc})
			break
		}
		r.States++
		fs, _ := evalState(w, dump, model, pl, false)
		for _, fd := range fs {
			fmt.Printf("  after %d ops: %s: %s\n", i, fd.Assertion, fd.Detail)
			r.AddViolation(core.Violation{Property: r.Property, Assertion: fd.Assertion, Signature: signature(pl, fd, ops),
				Detail: fmt.Sprintf("after [%s]: %s", opsString(ops), fd.Detail), Replay: doc})
		}
	}
	r.Traces = 1
}

// ---------------------------------------------------------------- main

func main() {
	only := flag.String("plans", "", "regexp selecting plans by name (debugging)")
	list := flag.Bool("list", false, "list plans and exit")
	prof := flag.String("cpuprofile", "", "write a CPU profile (debugging)")
	maxDepth := flag.Int("maxdepth", 0, "override every plan's depth bound (debugging)")
	flag.BoolVar(&debugProgress, "progress", false, "log every BFS level to stderr (debugging)")
	flag.BoolVar(&debugStructOnly, "structonly", false, "skip the query oracle (debugging: state counting only)")
	f := core.ParseFlags()
	debug.SetGCPercent(800)
	if *prof != "" {
		pf, err := os.Create(*prof)
		if err != nil {
			panic(err)
		}
		_ = pprof.StartCPUProfile(pf)
		defer pprof.StopCPUProfile()
	}
	if f.Prop == "" {
		f.Prop = "C16"
	}
	r := core.NewResult(f.Prop)
	if f.Replay != "" {
		replay(f, r)
		finish(f, r)
		return
	}
	plans := plansFor(f.Tier)
	var re *regexp.Regexp
	if *only != "" {
		re = regexp.MustCompile(*only)
	}
	seen := core.NewSeen()
	for i, pl := range plans {
		if *list {
			fmt.Printf("%2d %s  %s\n", i, pl.Name, pl.Describe())
			continue
		}
		if !f.Mine(i) || (re != nil && !re.MatchString(pl.Name)) {
			continue
		}
		pl.prepare()
		if *maxDepth > 0 {
			pl.MaxDepth = *maxDepth
		}
		e := &explorer{f: f, r: r, pl: pl, seen: seen, shrunk: map[string]int{}}
		before := r.States
		e.explore()
		fmt.Fprintf(os.Stderr, "plan %-28s states=%d (total transitions=%d) %.1fs\n", pl.Name, r.States-before, r.Transitions, sinceStart(f))
	}
	if *list {
		return
	}
	seen.Dump(f.HashOut)
	finish(f, r)
}
