package main

// Per-tick evaluation of the real code (x/concentrated-liquidity/math) against oracle.go.

import (
	"fmt"
	"math/big"

	"github.com/osmosis-labs/osmosis/osmomath"
	clmath "github.com/osmosis-labs/osmosis/v31/x/concentrated-liquidity/math"
	core "github.com/osmosis-labs/osmosis/v31/zzverif/res14"
)

// tierCfg selects which queries are made per tick (the assertions are the same in both tiers).
type tierCfg struct {
	Above    bool // also query S(t)+1e-36
	LowRange bool // also query CalculateSqrtPriceToTick(S(t)) for t below the swap-reachable range
}

type runner struct {
	f   *core.Flags
	r   *core.Result
	cfg tierCfg

	// what real function is executing, for panic attribution
	inReal bool
	curFn  string
	curArg string
	curT   int64

	stopped   bool // deadline hit
	violTotal int64
	violBy    map[string]int64
}

var spacings = []int64{1, 10, 100, 1000}

// ---- wrappers around the code under test -------------------------------------------------------

func (x *runner) enter(fn string) { x.inReal, x.curFn = true, fn; x.r.Transitions++ }
func (x *runner) leave()          { x.inReal = false }

func (x *runner) tickToPrice(t int64) (*big.Int, error) {
	x.enter("TickToPrice")
	v, err := clmath.TickToPrice(t)
	x.leave()
	if err != nil {
		return nil, err
	}
	return v.BigInt(), nil
}

func (x *runner) tickToSqrt(t int64) (*big.Int, error) {
	x.enter("TickToSqrtPrice")
	v, err := clmath.TickToSqrtPrice(t)
	x.leave()
	if err != nil {
		return nil, err
	}
	return v.BigInt(), nil
}

func (x *runner) sqrtToTick(s *big.Int) (int64, error) {
	x.enter("CalculateSqrtPriceToTick")
	t, err := clmath.CalculateSqrtPriceToTick(osmomath.NewBigDecFromBigIntWithPrec(s, 36))
	x.leave()
	return t, err
}

func (x *runner) priceToTick(p *big.Int) (int64, error) {
	x.enter("CalculatePriceToTick")
	// a fresh copy: CalculatePriceToTick chops its argument's shared big.Int in place
	t, err := clmath.CalculatePriceToTick(osmomath.NewBigDecFromBigIntWithPrec(p, 36))
	x.leave()
	return t, err
}

// ---- violations --------------------------------------------------------------------------------

type replayCase struct {
	Tick  *int64 `json:"tick,omitempty"`
	Probe string `json:"probe,omitempty"`
}

func (x *runner) viol(assertion, fn, arg string, t int64, probe string, detail func() string) {
	x.violTotal++
	x.violBy[assertion]++
	if len(x.r.Violations) >= 50 {
		return
	}
	rc := replayCase{}
	if probe != "" {
		rc.Probe = probe
	} else {
		tt := t
		rc.Tick = &tt
	}
	x.r.AddViolation(core.Violation{Property: x.f.Prop, Assertion: assertion, Signature: fn + "|" + arg,
		Detail: detail(), Replay: rc})
}

func (x *runner) violTick(assertion, fn string, t int64, detail func() string) {
	x.viol(assertion, fn, fmt.Sprint(t), t, "", detail)
}

func (x *runner) violVal(assertion, fn string, v *big.Int, t int64, detail func() string) {
	x.viol(assertion, fn, dec36(v), t, "", detail)
}

// ---- one contiguous run ------------------------------------------------------------------------

// run evaluates every tick of [lo, hi] (domLo <= lo <= hi <= domHi) and returns the first tick NOT
// evaluated (hi+1 when complete). A panic inside the code under test is a violation; the run
// resumes after the offending tick.
func (x *runner) run(lo, hi int64) int64 {
	t := lo
	for t <= hi && !x.stopped {
		t = x.segment(t, hi)
	}
	return t
}

func (x *runner) segment(lo, hi int64) (next int64) {
	defer func() {
		if e := recover(); e != nil {
			if !x.inReal {
				panic(e) // a bug of the harness itself: never disguise it as a finding
			}
			x.inReal = false
			fn, t := x.curFn, x.curT
			x.viol("no_panic", fn, fmt.Sprint(t), t, "", func() string {
				return fmt.Sprintf("%s panicked while evaluating tick %d (argument %s): %v", fn, t, x.curArg, e)
			})
			next = t + 1
		}
	}()

	// window state: impl values for lo-1 (verified here) and lo
	var pPrevImpl, sPrev, sCur *big.Int
	x.curT = lo
	if lo > domLo {
		x.curArg = fmt.Sprint(lo - 1)
		if p, err := x.tickToPrice(lo - 1); err == nil {
			pPrevImpl = p
		}
		if s, err := x.tickToSqrt(lo - 1); err == nil && sqrtCheck(lo-1, refPrice36(lo-1), s) == "" {
			sPrev = s // only a verified neighbour is used as a bucket edge; else the checks needing it are skipped at lo (lo-1 itself is judged when it is enumerated)
		}
	}
	x.curArg = fmt.Sprint(lo)
	sCur, errCur := x.tickToSqrt(lo)

	pRef := refPrice36(lo)
	var pRefPrev *big.Int
	if lo > domLo {
		pRefPrev = refPrice36(lo - 1)
	}
	inc := refInc36(lo)

	for t := lo; t <= hi; t++ {
		if (t-lo)&1023 == 1023 && x.f.Expired() {
			x.stopped = true
			return t
		}
		x.curT = t
		delta, n := decadeOf(t)
		if n == 0 && t != lo {
			// entering a new decade: re-anchor the incremental reference on the closed form
			inc = pow10[30+delta]
			if cf := refPrice36(t); cf.Cmp(pRef) != 0 {
				panic(fmt.Sprintf("harness: incremental reference diverged from closed form at %d", t))
			}
		}
		var sNext *big.Int
		var errNext error
		if t < domHi {
			x.curArg = fmt.Sprint(t + 1)
			sNext, errNext = x.tickToSqrt(t + 1)
		}
		x.curArg = fmt.Sprint(t)
		pImpl := x.evalTick(t, n, pRef, pRefPrev, inc, pPrevImpl, sPrev, sCur, errCur, sNext, errNext)

		if t == hi && t < domHi && sNext != nil {
			// the upper neighbour was used as a bucket edge but is not enumerated in this run: verify it
			// and probe the top of bucket t
			pN := refPrice36(t + 1)
			if sqrtCheck(t+1, pN, sNext) == "" && sCur != nil && t >= reachLo && sNext.Cmp(sCur) > 0 {
				q := new(big.Int).Sub(sNext, one)
				x.expectTick("bucket_interior", q, t, t, "just below S(t+1)")
			}
		}

		// slide
		pPrevImpl = pImpl
		if errCur == nil {
			sPrev = sCur
		} else {
			sPrev = nil
		}
		sCur, errCur = sNext, errNext
		if pRefPrev == nil {
			pRefPrev = new(big.Int)
		}
		pRefPrev.Set(pRef)
		if t < domHi {
			// also right on the last tick of a decade: (10^6 + (D-1) + 1) * 10^e = 10^7 * 10^e = 10^6 * 10^(e+1)
			pRef.Add(pRef, inc)
		}
	}
	return hi + 1
}

// evalTick applies every oracle at tick t. Returns the implementation's price (nil on error).
func (x *runner) evalTick(t, n int64, pRef, pRefPrev, inc, pPrevImpl, sPrev, sCur *big.Int, errCur error, sNext *big.Int, errNext error) *big.Int {
	r := x.r
	r.States++
	if t < 0 {
		r.Vacuity["negative_ticks"]++
	}
	if n == 0 && pRefPrev != nil {
		r.Vacuity["decade_boundaries_crossed"]++
	}
	if t == switchTick && pRefPrev != nil {
		r.Vacuity["precision_switch_crossed"]++
	}

	// --- TickToPrice: closed form, strictly increasing, in bounds
	pImpl, err := x.tickToPrice(t)
	if err != nil {
		x.violTick("price_closed_form", "TickToPrice", t, func() string {
			return fmt.Sprintf("TickToPrice(%d) returned error %q for a tick of the supported range; expected %s", t, err, dec36(pRef))
		})
		pImpl = nil
	} else {
		if pImpl.Cmp(pRef) != 0 {
			x.violTick("price_closed_form", "TickToPrice", t, func() string {
				return fmt.Sprintf("TickToPrice(%d) = %s, documented formula gives %s", t, dec36(pImpl), dec36(pRef))
			})
		}
		if pPrevImpl != nil && pImpl.Cmp(pPrevImpl) <= 0 {
			x.violTick("price_strictly_increasing", "TickToPrice", t, func() string {
				return fmt.Sprintf("TickToPrice(%d) = %s is not above TickToPrice(%d) = %s", t, dec36(pImpl), t-1, dec36(pPrevImpl))
			})
		}
		if pImpl.Cmp(minPrice) < 0 || pImpl.Cmp(maxPrice) > 0 {
			x.violTick("price_in_bounds", "TickToPrice", t, func() string {
				return fmt.Sprintf("TickToPrice(%d) = %s outside [1e-30, 1e38]", t, dec36(pImpl))
			})
		}
	}
	if pRefPrev != nil && pRef.Cmp(pRefPrev) <= 0 {
		panic("harness: reference price not increasing")
	}

	// --- TickToAdditiveGeometricIndices: (additive, geometric) reconstruct the tick
	x.enter("TickToAdditiveGeometricIndices")
	a, g, errI := clmath.TickToAdditiveGeometricIndices(t)
	x.leave()
	if errI != nil || g*decade+a != t || a <= -decade || a >= decade {
		x.violTick("indices_consistent", "TickToAdditiveGeometricIndices", t, func() string {
			return fmt.Sprintf("TickToAdditiveGeometricIndices(%d) = (%d, %d, %v): does not reconstruct the tick", t, a, g, errI)
		})
	}

	// --- TickToSqrtPrice: documented rounding, monotone, in bounds
	sOK := false
	if errCur != nil || sCur == nil {
		x.violTick("sqrt_least_root", "TickToSqrtPrice", t, func() string {
			return fmt.Sprintf("TickToSqrtPrice(%d) returned error %v for a tick of the supported range", t, errCur)
		})
	} else {
		sOK = true
		if why := sqrtCheck(t, pRef, sCur); why != "" {
			sOK = false
			x.violTick("sqrt_least_root", "TickToSqrtPrice", t, func() string {
				return fmt.Sprintf("TickToSqrtPrice(%d) = %s: %s; price %s, expected %s (least value on the %s grid whose square >= price)",
					t, dec36(sCur), why, dec36(pRef), dec36(refSqrt36(t)), map[bool]string{true: "1e-18", false: "1e-36"}[t >= switchTick])
			})
		}
		if sPrev != nil && sCur.Cmp(sPrev) < 0 {
			x.violTick("sqrt_non_decreasing", "TickToSqrtPrice", t, func() string {
				return fmt.Sprintf("TickToSqrtPrice(%d) = %s < TickToSqrtPrice(%d) = %s", t, dec36(sCur), t-1, dec36(sPrev))
			})
		}
		if sCur.Cmp(minSqrt) < 0 || sCur.Cmp(maxSqrt) > 0 {
			x.violTick("sqrt_in_bounds", "TickToSqrtPrice", t, func() string {
				return fmt.Sprintf("TickToSqrtPrice(%d) = %s outside [1e-15, 1e19]", t, dec36(sCur))
			})
		}
		if sPrev != nil && sCur.Cmp(sPrev) == 0 {
			r.Vacuity["plateau_ticks"]++
		}
	}
	if errNext != nil {
		sNext = nil
	}

	// --- RoundDownTickToSpacing
	for _, sp := range spacings {
		x.enter("RoundDownTickToSpacing")
		v, errR := clmath.RoundDownTickToSpacing(t, sp)
		x.leave()
		if errR != nil || v > t || v%sp != 0 || v <= t-sp || v < domLo || v > domHi {
			sp := sp
			x.viol("round_down_to_spacing", "RoundDownTickToSpacing", fmt.Sprintf("%d/%d", t, sp), t, "", func() string {
				return fmt.Sprintf("RoundDownTickToSpacing(%d, %d) = (%d, %v); expected %d", t, sp, v, errR, floorDiv(t, sp)*sp)
			})
		}
	}

	// --- CalculatePriceToTick: inverse of TickToPrice on exact prices; interior of the price bucket
	if got, errP := x.priceToTick(pRef); errP != nil || got != t {
		x.violVal("price_to_tick_inverse", "CalculatePriceToTick", pRef, t, func() string {
			return fmt.Sprintf("CalculatePriceToTick(%s) = (%d, %v); this is exactly the price of tick %d", dec36(pRef), got, errP, t)
		})
	}
	if t < domHi {
		if inc.Cmp(one) > 0 {
			mid := new(big.Int).Rsh(inc, 1) // inc = 10^e, e >= 1: inc/2 exact
			mid.Add(mid, pRef)
			if got, errP := x.priceToTick(mid); errP != nil || got != t {
				x.violVal("price_to_tick_bucket", "CalculatePriceToTick", mid, t, func() string {
					return fmt.Sprintf("CalculatePriceToTick(%s) = (%d, %v); the price is the midpoint of bucket %d = [%s, %s)", dec36(mid), got, errP, t, dec36(pRef), dec36(new(big.Int).Add(pRef, inc)))
				})
			}
		} else {
			r.Vacuity["midprice_not_representable"]++
		}
	}

	// --- CalculateSqrtPriceToTick
	if !sOK {
		return pImpl
	}
	if t < reachLo {
		if x.cfg.LowRange {
			// below the swap-reachable range nothing is promised except "never a wrong value"
			got, errS := x.sqrtToTick(sCur)
			if errS != nil {
				r.Vacuity["low_range_sqrt_price_rejected"]++
			} else if got == t {
				r.Vacuity["low_range_sqrt_price_mapped"]++
			} else {
				x.violVal("low_range_never_wrong", "CalculateSqrtPriceToTick", sCur, t, func() string {
					return fmt.Sprintf("CalculateSqrtPriceToTick(%s) = %d, but this is TickToSqrtPrice(%d) (below the swap-reachable range: an error or %d were acceptable)", dec36(sCur), got, t, t)
				})
			}
		}
		return pImpl
	}

	r.Traces++
	plateauUp := sNext != nil && sNext.Cmp(sCur) == 0
	// (1) exactly on the lower edge
	want := t
	if plateauUp {
		want, _ = expectedBucket(sCur, t)
	}
	x.expectTick("roundtrip_sqrt_to_tick", sCur, want, t, "S(t)")

	// (2) one ulp below the lower edge: the previous non-empty bucket
	if t >= switchTick && sPrev != nil {
		q := new(big.Int).Sub(sCur, one)
		w := t - 1
		if sPrev.Cmp(q) > 0 { // plateau below: S(t-1) == S(t)
			var ok bool
			w, ok = expectedBucket(q, t-1)
			if !ok {
				w = reachLo - 1 // nothing to demand
			}
		}
		if w >= reachLo {
			x.expectTick("just_below_edge_is_previous_bucket", q, w, t, "S(t) - 1e-36")
		}
	}

	if t == domHi {
		// one ulp above the maximum: rejected
		q := new(big.Int).Add(sCur, one)
		if got, errS := x.sqrtToTick(q); errS == nil {
			x.violVal("reject_out_of_range_sqrt_price", "CalculateSqrtPriceToTick", q, t, func() string {
				return fmt.Sprintf("CalculateSqrtPriceToTick(%s) = %d, no error, for a value above the maximum square-root price", dec36(q), got)
			})
		} else {
			r.Vacuity["rejected_out_of_range_sqrt_prices"]++
		}
		return pImpl
	}
	if sNext == nil || plateauUp {
		return pImpl
	}
	// (3) interior: one ulp above the edge and the midpoint
	if x.cfg.Above {
		q := new(big.Int).Add(sCur, one)
		if q.Cmp(sNext) < 0 {
			x.expectTick("bucket_interior", q, t, t, "S(t) + 1e-36")
		}
	}
	mid := new(big.Int).Add(sCur, sNext)
	mid.Rsh(mid, 1)
	x.expectTick("bucket_interior", mid, t, t, "midpoint of S(t), S(t+1)")
	return pImpl
}

func (x *runner) expectTick(assertion string, s *big.Int, want, t int64, what string) {
	x.curArg = what
	got, err := x.sqrtToTick(s)
	if err != nil || got != want {
		x.violVal(assertion, "CalculateSqrtPriceToTick", s, t, func() string {
			return fmt.Sprintf("CalculateSqrtPriceToTick(%s) = (%d, %v), expected %d; input is %s for t = %d (S(t) = TickToSqrtPrice(t); bucket t = [S(t), S(t+1)))", dec36(s), got, err, want, what, t)
		})
	}
}
