package main

// Independent reference for property C14. Everything here is exact integer arithmetic on values
// scaled by 10^36 (one unit = 1e-36 = one BigDec ulp). Nothing in this file calls the code under test.
//
// Documented formula (x/concentrated-liquidity/README.md, "Formulas", exponentAtPriceOne = -6):
//
//	D     = 9 * 10^6                                  (geometricExponentIncrementDistanceInTicks)
//	delta = floor(tick / D)                           (true floor, also for negative ticks)
//	n     = tick - delta*D              in [0, D)     (numAdditiveTicks)
//	price = 10^delta + n * 10^(delta-6) = (10^6 + n) * 10^(delta-6)
//
// hence price*10^36 = (10^6 + n) * 10^(30+delta): an integer for every delta >= -30, i.e. for every
// tick of [-270 000 000, 342 000 000]. README examples reproduced by this form: tick 36650010 ->
// 16500.10, tick -100 -> 0.99999, tick -500100 -> 0.94999, tick -9000100 -> 0.099999.
// The code documents one alias: tick -270 000 001 (MinCurrentTickV2) has the price of -270 000 000.
//
// Square-root price (osmomath.MonotonicSqrt / MonotonicSqrtBigDec doc: "the returned root r will be
// such that r^2 >= d", computed as integer sqrt + 1 when not exact): TickToSqrtPrice(t) is the LEAST
// value on the regime's grid whose square is >= price(t); the grid is 1e-18 for t >= -108 000 000
// (launch range, 18-digit Dec) and 1e-36 below (extended range, BigDec).

import (
	"math/big"
)

const (
	domLo      int64 = -270_000_000 // MinInitializedTickV2
	domHi      int64 = 342_000_000  // MaxTick
	decade     int64 = 9_000_000
	switchTick int64 = -108_000_000 // MinInitializedTick: 18-digit sqrt at and above, 36-digit below
	reachLo    int64 = switchTick - 1
	aliasTick  int64 = domLo - 1
)

var (
	pow10    [120]*big.Int
	ten36    *big.Int
	ten18    *big.Int
	one      = big.NewInt(1)
	minSqrt  *big.Int // sqrt(1e-30) = 1e-15 -> 10^21
	maxSqrt  *big.Int // sqrt(1e38)  = 1e19  -> 10^55
	minPrice *big.Int // 1e-30 -> 10^6
	maxPrice *big.Int // 1e38  -> 10^74
)

func init() {
	pow10[0] = big.NewInt(1)
	for i := 1; i < len(pow10); i++ {
		pow10[i] = new(big.Int).Mul(pow10[i-1], big.NewInt(10))
	}
	ten36, ten18 = pow10[36], pow10[18]
	minSqrt, maxSqrt = pow10[21], pow10[55]
	minPrice, maxPrice = pow10[6], pow10[74]
}

func floorDiv(a, b int64) int64 {
	q := a / b
	if (a%b != 0) && ((a < 0) != (b < 0)) {
		q--
	}
	return q
}

// decadeOf returns (delta, n) of the documented formula.
func decadeOf(t int64) (delta, n int64) {
	delta = floorDiv(t, decade)
	return delta, t - delta*decade
}

// refPrice36 is the closed form, scaled by 10^36. Defined for domLo <= t <= domHi and for the alias.
func refPrice36(t int64) *big.Int {
	if t == aliasTick {
		return new(big.Int).Set(minPrice)
	}
	if t < domLo || t > domHi {
		panic("refPrice36: tick outside the supported range")
	}
	delta, n := decadeOf(t)
	v := big.NewInt(1_000_000 + n)
	return v.Mul(v, pow10[30+delta])
}

// refInc36 is the additive increment per tick in t's decade, scaled by 10^36.
func refInc36(t int64) *big.Int {
	delta, _ := decadeOf(t)
	return pow10[30+delta]
}

// sqrtUlp is the grid of the square-root price at tick t, in units of 1e-36.
func sqrtUlp(t int64) *big.Int {
	if t >= switchTick {
		return ten18
	}
	return one
}

// refSqrt36 computes the documented rounding directly (used for random access: plateau scans, edge
// probes). The per-tick oracle does not use it; it verifies the defining inequalities instead.
func refSqrt36(t int64) *big.Int {
	p := refPrice36(t)
	if t >= switchTick {
		// least r (18-digit integer) with r^2 >= p18*10^18, p18 = p/10^18 (exact in this regime)
		v := new(big.Int).Quo(p, ten18)
		v.Mul(v, ten18)
		r := new(big.Int).Sqrt(v)
		if new(big.Int).Mul(r, r).Cmp(v) < 0 {
			r.Add(r, one)
		}
		return r.Mul(r, ten18)
	}
	v := new(big.Int).Mul(p, ten36)
	r := new(big.Int).Sqrt(v)
	if new(big.Int).Mul(r, r).Cmp(v) < 0 {
		r.Add(r, one)
	}
	return r
}

// sqrtCheck verifies that s (scaled 10^36) is the least value on t's grid with s^2 >= price.
// Returns "" if it is, else a description. tmp values are allocated per call (cheap next to the
// code under test).
func sqrtCheck(t int64, p36, s *big.Int) string {
	u := sqrtUlp(t)
	if u != one {
		if new(big.Int).Rem(s, u).Sign() != 0 {
			return "not on the 1e-18 grid"
		}
	}
	target := new(big.Int).Mul(p36, ten36)
	sq := new(big.Int).Mul(s, s)
	if sq.Cmp(target) < 0 {
		return "square is below the price (root rounded down)"
	}
	if s.Cmp(u) >= 0 {
		lower := new(big.Int).Sub(s, u)
		if lower.Mul(lower, lower).Cmp(target) >= 0 {
			return "not the least root: one grid step lower still squares to >= price"
		}
	}
	return ""
}

// expectedBucket returns max{ t' in [reachLo, domHi] : refSqrt36(t') <= s }, or (0,false) if
// s < refSqrt36(reachLo). Only used on plateaus and in edge probes (random access, slow path).
// "Bucket t contains s" is defined as S(t) <= s < S(t+1) with S the square-root prices the
// implementation assigns (verified equal to refSqrt36 at every enumerated tick); ticks whose bucket
// is empty because S(t) == S(t+1) (a plateau) own nothing: the last tick of a plateau owns S(t).
func expectedBucket(s *big.Int, hint int64) (int64, bool) {
	t := hint
	if t < reachLo {
		t = reachLo
	}
	if t > domHi {
		t = domHi
	}
	for t >= reachLo && refSqrt36(t).Cmp(s) > 0 {
		t--
	}
	if t < reachLo {
		return 0, false
	}
	for t < domHi && refSqrt36(t+1).Cmp(s) <= 0 {
		t++
	}
	return t, true
}

// dec36 renders a 10^36-scaled integer as a decimal string (stable signature / replay form).
func dec36(v *big.Int) string {
	neg := v.Sign() < 0
	a := new(big.Int).Abs(v)
	q, r := new(big.Int).QuoRem(a, ten36, new(big.Int))
	fr := r.String()
	for len(fr) < 36 {
		fr = "0" + fr
	}
	// trim trailing zeros but keep at least one digit
	i := len(fr)
	for i > 1 && fr[i-1] == '0' {
		i--
	}
	out := q.String() + "." + fr[:i]
	if neg {
		out = "-" + out
	}
	return out
}
