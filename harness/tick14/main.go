// Command tick14 checks property C14 (tick <-> price <-> sqrt-price conversions of concentrated
// liquidity) with engine C where the lattice IS the domain: the thorough tier enumerates every tick of
// [-270 000 000, 342 000 000]; the quick tier a stated sub-lattice of it. See oracle.go for the
// reference, check.go for the assertions made at every tick, and edgeProbes below for the finite set
// of out-of-range inputs.
package main

import (
	"flag"
	"fmt"
	"math"
	"math/big"
	"os"
	"runtime/debug"
	"runtime/pprof"
	"sort"
	"time"

	clmath "github.com/osmosis-labs/osmosis/v31/x/concentrated-liquidity/math"
	"github.com/osmosis-labs/osmosis/v31/x/concentrated-liquidity/types"
	core "github.com/osmosis-labs/osmosis/v31/zzverif/res14"
)

const chunk int64 = 1_000_000 // work item of the thorough tier: a contiguous sub-range of this many ticks

type item struct {
	kind   int // 0 edge probes, 1 contiguous run, 2 strided ticks inside [lo,hi]
	lo, hi int64
}

var (
	flagWindow = flag.Int64("window", 20_000, "quick tier: half-width N of the window around every decade boundary / range limit")
	flagStride = flag.Int64("stride", 251, "quick tier: k of 'every k-th tick'")
)

var flagProf = flag.String("cpuprofile", "", "write a CPU profile (diagnostics only)")

func main() {
	f := core.ParseFlags()
	if os.Getenv("GOGC") == "" {
		// the code under test allocates ~100 small big.Int per tick and the live heap is tiny: a larger
		// GC trigger saves ~15 % wall (measured) for ~200 MB RSS per shard
		debug.SetGCPercent(400)
	}
	if *flagProf != "" {
		fh, err := os.Create(*flagProf)
		if err != nil {
			panic(err)
		}
		_ = pprof.StartCPUProfile(fh)
		defer pprof.StopCPUProfile()
	}
	if f.Prop == "" {
		f.Prop = "C14"
	}
	r := core.NewResult(f.Prop)
	x := &runner{f: f, r: r, violBy: map[string]int64{}}

	if f.Replay != "" {
		var rc replayCase
		core.ReadReplay(f.Replay, &rc)
		x.cfg = tierCfg{Above: true, LowRange: true}
		if rc.Probe != "" || rc.Tick == nil {
			x.edgeProbes()
		} else {
			t := *rc.Tick
			if t < domLo || t > domHi {
				x.edgeProbes()
			} else {
				x.run(t, t)
			}
		}
		r.WallS = time.Since(f.Start).Seconds()
		r.Emit()
		return
	}

	var items []item
	N, K := *flagWindow, *flagStride
	phase := ((f.Seed % K) + K) % K
	switch f.Tier {
	case "thorough":
		x.cfg = tierCfg{Above: false, LowRange: true}
		items = append(items, item{kind: 0})
		for lo := domLo; lo <= domHi; lo += chunk {
			hi := lo + chunk - 1
			if hi >= domHi-1 {
				hi = domHi
			}
			items = append(items, item{1, lo, hi})
			if hi == domHi {
				break
			}
		}
	default:
		x.cfg = tierCfg{Above: true, LowRange: true}
		items = append(items, item{kind: 0})
		// windows: every multiple of 9 000 000 in the domain (69 of them; -270e6, -108e6, 0 and 342e6 are
		// among them, and -108 000 001 / -270 000 001 lie inside their windows), split in two halves
		for b := domLo; b <= domHi; b += decade {
			if lo, hi := max64(b-N, domLo), b-1; lo <= hi {
				items = append(items, item{1, lo, hi})
			}
			items = append(items, item{1, b, min64(b+N, domHi)})
		}
		for lo := domLo; lo <= domHi; lo += chunk {
			items = append(items, item{2, lo, min64(lo+chunk-1, domHi)})
		}
	}

	var done [][2]int64 // completed contiguous sub-ranges of this shard
	complete := true
	for i, it := range items {
		if !f.Mine(i) {
			continue
		}
		if x.stopped || f.Expired() {
			x.stopped = true
			complete = false
			continue
		}
		switch it.kind {
		case 0:
			x.edgeProbes()
		case 1:
			next := x.run(it.lo, it.hi)
			if f.Tier == "thorough" {
				fmt.Fprintf(os.Stderr, "shard %d: sub-range [%d, %d] evaluated up to %d, %.0fs, violations so far %d\n", f.Shard, it.lo, it.hi, next-1, time.Since(f.Start).Seconds(), x.violTotal)
			}
			if next > it.lo {
				done = append(done, [2]int64{it.lo, next - 1})
			}
			if next <= it.hi {
				complete = false
			}
		case 2:
			// first tick >= it.lo congruent to domLo+phase modulo K
			first := it.lo + (((domLo+phase-it.lo)%K)+K)%K
			cnt := 0
			for t := first; t <= it.hi; t += K {
				if inWindow(t, N) {
					continue
				}
				if cnt&255 == 255 && f.Expired() {
					x.stopped = true
					complete = false
					break
				}
				cnt++
				x.run(t, t)
				r.Vacuity["strided_ticks"]++
			}
		}
	}
	if !complete {
		r.Exhaustive = false
	}

	r.Extra["domain"] = fmt.Sprintf("every tick of [%d, %d] (%d ticks) + the documented alias %d + the finite out-of-range probe set", domLo, domHi, domHi-domLo+1, aliasTick)
	if f.Tier == "thorough" {
		r.Extra["lattice"] = "the whole domain, in 612 contiguous sub-ranges of 1 000 000 ticks (the last one 1 000 001): sub-range i = [-270000000 + i*1000000, ...] belongs to shard (i + 1 + VERIF_SEED) mod nshards, each shard takes its sub-ranges in ascending order"
		key := fmt.Sprintf("completed_shard_%02d", f.Shard)
		if complete {
			r.Extra[key] = fmt.Sprintf("all %d of its sub-ranges", len(done))
		} else {
			r.Extra[key] = mergeRanges(done)
		}
	} else {
		r.Extra["lattice"] = fmt.Sprintf("quick sub-lattice: every tick within +-%d of each of the 69 multiples of 9 000 000 in the domain (these include both range limits, 0 and the 18/36-digit switch tick -108 000 000), plus every %d-th tick (t = %d + %d mod %d) outside those windows", N, K, domLo, phase, K)
		r.Extra["exhaustive_wrt_domain"] = false
		if !complete {
			r.Extra[fmt.Sprintf("completed_shard_%02d", f.Shard)] = mergeRanges(done)
		}
	}
	r.Extra["sum_violations_total"] = x.violTotal
	for k, v := range x.violBy {
		r.Extra["sum_violations_"+k] = v
	}
	var ticksDone int64
	for _, d := range done {
		ticksDone += d[1] - d[0] + 1
	}
	r.Extra["sum_ticks_in_completed_contiguous_sub_ranges"] = ticksDone
	r.WallS = time.Since(f.Start).Seconds()
	r.Emit()
}

func min64(a, b int64) int64 {
	if a < b {
		return a
	}
	return b
}

func max64(a, b int64) int64 {
	if a > b {
		return a
	}
	return b
}

// inWindow: is t within N of a multiple of 9 000 000 (and hence already enumerated by a window)?
func inWindow(t, n int64) bool {
	_, r := decadeOf(t)
	return r <= n || decade-r <= n
}

func mergeRanges(rs [][2]int64) [][2]int64 {
	sort.Slice(rs, func(i, j int) bool { return rs[i][0] < rs[j][0] })
	var out [][2]int64
	for _, q := range rs {
		if len(out) > 0 && out[len(out)-1][1]+1 == q[0] {
			out[len(out)-1][1] = q[1]
		} else {
			out = append(out, q)
		}
	}
	if out == nil {
		out = [][2]int64{}
	}
	return out
}

// ---- finite probe set: limits, the alias, everything outside the range ----------------------------

func (x *runner) edgeProbes() {
	r := x.r
	defer func() {
		if e := recover(); e != nil {
			if !x.inReal {
				panic(e)
			}
			x.inReal = false
			fn := x.curFn
			x.viol("no_panic", fn, x.curArg, 0, "edges", func() string {
				return fmt.Sprintf("%s(%s) panicked: %v", fn, x.curArg, e)
			})
		}
	}()
	for _, t := range []int64{domLo, switchTick, -1, 36650010, domHi} {
		r.AddSample(map[string]string{"tick": fmt.Sprint(t), "reference_price": dec36(refPrice36(t)), "reference_sqrt_price": dec36(refSqrt36(t))})
	}
	bad := func(assertion, fn, arg, detail string) {
		x.viol(assertion, fn, arg, 0, "edges", func() string { return detail })
	}

	// the limits the statement is about
	eq := func(name string, got, want *big.Int) {
		if got.Cmp(want) != 0 {
			bad("documented_limits", "constants", name, fmt.Sprintf("%s = %s, documented %s", name, dec36(got), dec36(want)))
		}
	}
	eqi := func(name string, got, want int64) {
		if got != want {
			bad("documented_limits", "constants", name, fmt.Sprintf("%s = %d, documented %d", name, got, want))
		}
	}
	eqi("MinInitializedTickV2", types.MinInitializedTickV2, domLo)
	eqi("MaxTick", types.MaxTick, domHi)
	eqi("MinInitializedTick", types.MinInitializedTick, switchTick)
	eqi("MinCurrentTick", types.MinCurrentTick, reachLo)
	eqi("MinCurrentTickV2", types.MinCurrentTickV2, aliasTick)
	eqi("ExponentAtPriceOne", types.ExponentAtPriceOne, -6)
	eq("MaxSpotPrice", types.MaxSpotPriceBigDec.BigInt(), maxPrice)
	eq("MinSpotPriceV2", types.MinSpotPriceV2.BigInt(), minPrice)
	eq("MinSpotPrice", types.MinSpotPriceBigDec.BigInt(), pow10[24])
	eq("MaxSqrtPrice", types.MaxSqrtPriceBigDec.BigInt(), maxSqrt)
	eq("MinSqrtPrice", types.MinSqrtPriceBigDec.BigInt(), pow10[30])
	r.States++

	// the documented alias: MinCurrentTickV2 has the price of MinInitializedTickV2
	x.curArg = fmt.Sprint(aliasTick)
	if p, err := x.tickToPrice(aliasTick); err != nil || p.Cmp(minPrice) != 0 {
		bad("price_closed_form", "TickToPrice", fmt.Sprint(aliasTick), fmt.Sprintf("TickToPrice(%d) = (%v, %v); documented alias of the minimum price 1e-30", aliasTick, p, err))
	}
	if s, err := x.tickToSqrt(aliasTick); err != nil || s.Cmp(minSqrt) != 0 {
		bad("sqrt_least_root", "TickToSqrtPrice", fmt.Sprint(aliasTick), fmt.Sprintf("TickToSqrtPrice(%d) = (%v, %v); expected 1e-15", aliasTick, s, err))
	}
	for _, sp := range spacings {
		x.enter("RoundDownTickToSpacing")
		v, err := clmath.RoundDownTickToSpacing(aliasTick, sp)
		x.leave()
		if err == nil {
			bad("round_down_to_spacing", "RoundDownTickToSpacing", fmt.Sprintf("%d/%d", aliasTick, sp), fmt.Sprintf("RoundDownTickToSpacing(%d, %d) = %d without error: the rounded tick is below the minimum initialisable tick", aliasTick, sp, v))
		} else {
			r.Vacuity["rejected_out_of_range_ticks"]++
		}
	}
	r.States++

	// ticks outside the range: rejected by all three tick-indexed conversions
	var outs []int64
	for j := int64(1); j <= 5000; j++ {
		outs = append(outs, domHi+j, aliasTick-j)
	}
	outs = append(outs, domHi+decade, aliasTick-decade, 1<<62, -(1 << 62), math.MaxInt64, math.MinInt64, math.MinInt64+1)
	for _, t := range outs {
		x.curArg = fmt.Sprint(t)
		r.States++
		if p, err := x.tickToPrice(t); err == nil {
			bad("reject_out_of_range_tick", "TickToPrice", fmt.Sprint(t), fmt.Sprintf("TickToPrice(%d) = %s without error", t, dec36(p)))
		} else {
			r.Vacuity["rejected_out_of_range_ticks"]++
		}
		if s, err := x.tickToSqrt(t); err == nil {
			bad("reject_out_of_range_tick", "TickToSqrtPrice", fmt.Sprint(t), fmt.Sprintf("TickToSqrtPrice(%d) = %s without error", t, dec36(s)))
		} else {
			r.Vacuity["rejected_out_of_range_ticks"]++
		}
		x.enter("TickToAdditiveGeometricIndices")
		a, g, err := clmath.TickToAdditiveGeometricIndices(t)
		x.leave()
		if err == nil {
			bad("reject_out_of_range_tick", "TickToAdditiveGeometricIndices", fmt.Sprint(t), fmt.Sprintf("TickToAdditiveGeometricIndices(%d) = (%d, %d) without error", t, a, g))
		} else {
			r.Vacuity["rejected_out_of_range_ticks"]++
		}
	}

	// prices outside [1e-30, 1e38]
	neg := func(v *big.Int) *big.Int { return new(big.Int).Neg(v) }
	add := func(v *big.Int, d int64) *big.Int { return new(big.Int).Add(v, big.NewInt(d)) }
	mul := func(v *big.Int, d int64) *big.Int { return new(big.Int).Mul(v, big.NewInt(d)) }
	prices := []*big.Int{big.NewInt(0), big.NewInt(1), add(minPrice, -1), new(big.Int).Rsh(minPrice, 1),
		add(maxPrice, 1), new(big.Int).Add(maxPrice, ten18), new(big.Int).Add(maxPrice, ten36), mul(maxPrice, 2), mul(maxPrice, 10),
		big.NewInt(-1), neg(minPrice), neg(ten36), neg(maxPrice)}
	for _, p := range prices {
		x.curArg = dec36(p)
		r.States++
		if t, err := x.priceToTick(p); err == nil {
			bad("reject_out_of_range_price", "CalculatePriceToTick", dec36(p), fmt.Sprintf("CalculatePriceToTick(%s) = %d without error", dec36(p), t))
		} else {
			r.Vacuity["rejected_out_of_range_prices"]++
		}
	}

	// square-root prices outside [1e-15, 1e19], and every negative one
	sqrts := []*big.Int{big.NewInt(0), big.NewInt(1), add(minSqrt, -1), new(big.Int).Rsh(minSqrt, 1),
		add(maxSqrt, 1), new(big.Int).Add(maxSqrt, ten18), new(big.Int).Add(maxSqrt, ten36), mul(maxSqrt, 2), mul(maxSqrt, 10),
		big.NewInt(-1), neg(minSqrt), neg(pow10[30]), neg(ten36), neg(maxSqrt)}
	for _, s := range sqrts {
		x.curArg = dec36(s)
		r.States++
		if t, err := x.sqrtToTick(s); err == nil {
			bad("reject_out_of_range_sqrt_price", "CalculateSqrtPriceToTick", dec36(s), fmt.Sprintf("CalculateSqrtPriceToTick(%s) = %d without error", dec36(s), t))
		} else {
			r.Vacuity["rejected_out_of_range_sqrt_prices"]++
		}
	}

	// square-root prices of the extended range below the swap-reachable one: the function is
	// documented to refuse them; the statement only forbids a WRONG tick
	type lowCase struct {
		s    *big.Int
		want int64
	}
	var lows []lowCase
	for _, t := range []int64{domLo, domLo + 1, -200_000_000, reachLo - 2, reachLo - 1} {
		lows = append(lows, lowCase{refSqrt36(t), t})
	}
	lows = append(lows, lowCase{add(refSqrt36(reachLo), -1), reachLo - 1})
	for _, c := range lows {
		x.curArg = dec36(c.s)
		r.States++
		t, err := x.sqrtToTick(c.s)
		switch {
		case err != nil:
			r.Vacuity["low_range_sqrt_price_rejected"]++
		case t == c.want:
			r.Vacuity["low_range_sqrt_price_mapped"]++
			r.Extra["note_low_range_value_"+dec36(c.s)] = fmt.Sprintf("CalculateSqrtPriceToTick returned %d (the correct bucket, below MinCurrentTick) instead of an error", t)
		default:
			bad("low_range_never_wrong", "CalculateSqrtPriceToTick", dec36(c.s), fmt.Sprintf("CalculateSqrtPriceToTick(%s) = %d; an error or %d were acceptable", dec36(c.s), t, c.want))
		}
	}
}
