package main

import (
	"encoding/json"
	"sort"
	"strconv"
	"strings"

	sdk "github.com/cosmos/cosmos-sdk/types"
	"github.com/cosmos/cosmos-sdk/x/authz"
	govv1 "github.com/cosmos/cosmos-sdk/x/gov/types/v1"

	"github.com/osmosis-labs/osmosis/v31/app"
	"github.com/osmosis-labs/osmosis/v31/zzverif/core"
)

// Coverage report: C19 is workload-bounded, so the evidence says what the workloads reach.
//   - which Msg type URLs registered with the application's MsgServiceRouter were delivered
//     successfully (committed) at least once by a script, directly or as the payload of an authz
//     MsgExec / of a governance proposal that passed in an EndBlocker;
//   - which modules' exported genesis differs, at some export point, from the module's default
//     genesis and from the export of the common base state (i.e. the module's state is populated /
//     was changed by a script when export/import is tested).
type coverage struct {
	registered []string
	direct     map[string]bool
	indirect   map[string]bool
	byScript   map[string]map[string]bool
	defaultGen map[string][]byte
	baseGen    map[string][]byte
	populated  map[string]bool // differs from the default genesis at some export point
	changed    map[string]bool // differs from the export of the base state at some export point
	changedBy  map[string]map[string]bool
	modules    []string
	points     int
}

func newCoverage() *coverage {
	return &coverage{direct: map[string]bool{}, indirect: map[string]bool{}, byScript: map[string]map[string]bool{},
		populated: map[string]bool{}, changed: map[string]bool{}, changedBy: map[string]map[string]bool{}}
}

// registeredMsgURLs lists every type URL for which the MsgServiceRouter has a handler.
func registeredMsgURLs(a *app.OsmosisApp) []string {
	var out []string
	for _, u := range a.InterfaceRegistry().ListImplementations(sdk.MsgInterfaceProtoName) {
		if a.GetBaseApp().MsgServiceRouter().HandlerByTypeURL(u) != nil {
			out = append(out, u)
		}
	}
	sort.Strings(out)
	return out
}

// normGenesis: canonical JSON with empty values (null, [], {}) removed so that a nil and an empty
// list are the same module state.
func normGenesis(r json.RawMessage) []byte {
	var v interface{}
	if err := json.Unmarshal(r, &v); err != nil {
		return r
	}
	bz, _ := json.Marshal(dropEmpty(v))
	return bz
}

func dropEmpty(v interface{}) interface{} {
	switch x := v.(type) {
	case map[string]interface{}:
		out := map[string]interface{}{}
		for k, e := range x {
			e = dropEmpty(e)
			if e == nil {
				continue
			}
			out[k] = e
		}
		if len(out) == 0 {
			return nil
		}
		return out
	case []interface{}:
		if len(x) == 0 {
			return nil
		}
		out := make([]interface{}, len(x))
		for i, e := range x {
			out[i] = dropEmpty(e)
		}
		return out
	}
	return v
}

// base records the module list, the default genesis and the export of the common base state.
func (c *coverage) base(n *Node) {
	c.registered = registeredMsgURLs(n.Env.App)
	c.defaultGen = map[string][]byte{}
	for m, raw := range app.NewDefaultGenesisState() {
		c.defaultGen[m] = normGenesis(raw)
	}
	c.baseGen = map[string][]byte{}
	for m, raw := range n.Export() {
		c.baseGen[m] = normGenesis(raw)
		c.modules = append(c.modules, m)
	}
	sort.Strings(c.modules)
}

func (c *coverage) exportPoint(script string, g map[string]json.RawMessage) {
	c.points++
	for m, raw := range g {
		nb := normGenesis(raw)
		if d, ok := c.defaultGen[m]; !ok || string(d) != string(nb) {
			c.populated[m] = true
		}
		if b, ok := c.baseGen[m]; !ok || string(b) != string(nb) {
			c.changed[m] = true
			if c.changedBy[m] == nil {
				c.changedBy[m] = map[string]bool{}
			}
			c.changedBy[m][script] = true
		}
	}
}

func (c *coverage) mark(script, url string, direct bool) {
	if direct {
		c.direct[url] = true
	} else {
		c.indirect[url] = true
	}
	if c.byScript[script] == nil {
		c.byScript[script] = map[string]bool{}
	}
	c.byScript[script][url] = true
}

// txs marks the messages of every committed transaction of the reference execution.
func (c *coverage) txs(sc Script, refSteps [][]Step) {
	for bi, b := range sc.Blocks {
		for ti, tx := range b.Txs {
			st := refSteps[bi][1+ti]
			if !strings.HasPrefix(st.What, "tx ") {
				panic("harness: step layout changed")
			}
			if st.Result != "ok" {
				continue
			}
			for _, m := range tx {
				c.mark(sc.Name, sdk.MsgTypeURL(m), true)
				if ex, ok := m.(*authz.MsgExec); ok {
					inner, err := ex.GetMessages()
					if err == nil {
						for _, im := range inner {
							c.mark(sc.Name, sdk.MsgTypeURL(im), false)
						}
					}
				}
			}
		}
	}
}

// passedProposals marks the messages of governance proposals that were executed successfully.
func (c *coverage) passedProposals(sc Script, n *Node) int {
	passed := 0
	_ = n.Env.App.GovKeeper.Proposals.Walk(n.Ctx, nil, func(_ uint64, p govv1.Proposal) (bool, error) {
		if p.Status != govv1.StatusPassed {
			return false, nil
		}
		passed++
		msgs, err := p.GetMsgs()
		if err != nil {
			return false, nil
		}
		for _, m := range msgs {
			u := sdk.MsgTypeURL(m)
			if lc, ok := m.(*govv1.MsgExecLegacyContent); ok && lc.Content != nil {
				u = "legacy-content:" + lc.Content.TypeUrl
			}
			c.mark(sc.Name, u, false)
		}
		return false, nil
	})
	return passed
}

func keys(m map[string]bool) []string {
	out := make([]string, 0, len(m))
	for k := range m {
		out = append(out, k)
	}
	sort.Strings(out)
	return out
}

// modOf: "/osmosis.gamm.v1beta1.MsgJoinPool" -> "osmosis.gamm"
func modOf(url string) string {
	p := strings.Split(strings.TrimPrefix(url, "/"), ".")
	if len(p) >= 2 {
		return p[0] + "." + p[1]
	}
	return url
}

func (c *coverage) report(r *core.Result) {
	var covered, coveredIndirectOnly, missing []string
	perMod := map[string][2]int{}
	for _, u := range c.registered {
		pm := perMod[modOf(u)]
		pm[1]++
		switch {
		case c.direct[u]:
			covered = append(covered, u)
			pm[0]++
		case c.indirect[u]:
			coveredIndirectOnly = append(coveredIndirectOnly, u)
			pm[0]++
		default:
			missing = append(missing, u)
		}
		perMod[modOf(u)] = pm
	}
	var legacy []string
	for u := range c.indirect {
		if strings.HasPrefix(u, "legacy-content:") {
			legacy = append(legacy, u)
		}
	}
	sort.Strings(legacy)
	pm := map[string]string{}
	for m, v := range perMod {
		pm[m] = strconv.Itoa(v[0]) + "/" + strconv.Itoa(v[1])
	}
	var populated, unpopulated, changed, unchanged []string
	for _, m := range c.modules {
		if c.populated[m] {
			populated = append(populated, m)
		} else {
			unpopulated = append(unpopulated, m)
		}
		if c.changed[m] {
			changed = append(changed, m)
		} else {
			unchanged = append(unchanged, m)
		}
	}
	by := map[string]interface{}{}
	for s, m := range c.byScript {
		by[s] = len(m)
	}
	r.Extra["coverage_msg_types"] = map[string]interface{}{
		"registered_with_msg_service_router":                         len(c.registered),
		"delivered_ok_directly":                                      covered,
		"delivered_ok_only_inside_authz_exec_or_passed_gov_proposal": coveredIndirectOnly,
		"legacy_gov_content_executed":                                legacy,
		"never_delivered_ok":                                         missing,
		"covered_of_registered_per_proto_package":                    pm,
		"distinct_msg_types_per_script":                              by,
	}
	r.Extra["coverage_module_genesis"] = map[string]interface{}{
		"modules":                 len(c.modules),
		"export_points_inspected": c.points,
		"differs_from_default_genesis_at_some_export":   populated,
		"equals_default_genesis_at_every_export":        unpopulated,
		"differs_from_base_state_export_at_some_export": changed,
		"equals_base_state_export_at_every_export":      unchanged,
	}
}
