//go:build verifrt

package main

import (
	_ "unsafe"
)

// Linked against the patched runtime (bin/run goroot_patch "mapiter").
//
//go:linkname runtimeMapIterHook runtime.verifMapIterHook
var runtimeMapIterHook func(count, B, r, goid uintptr) uintptr

const haveMapHook = true

func setRuntimeHook(f func(count, B, r, goid uintptr) uintptr) { runtimeMapIterHook = f }
