//go:build verifrt

package main

import (
	"time"
	_ "unsafe"
)

// Linked against the patched runtime (bin/run goroot_patch "mapiter").
//
//go:linkname runtimeMapIterHook runtime.verifMapIterHook
var runtimeMapIterHook func(count, B, r, goid uintptr) uintptr

const haveMapHook = true

func setRuntimeHook(f func(count, B, r, goid uintptr) uintptr) { runtimeMapIterHook = f }

//go:linkname timeNowHook time.verifNowHook
var timeNowHook func() (time.Time, bool)

func setNowHook(f func() (time.Time, bool)) { timeNowHook = f }
