package main

import (
	"fmt"
	"go/ast"
	"go/parser"
	"go/token"
	"os"
	"path/filepath"
	"sort"
	"strings"

	"github.com/osmosis-labs/osmosis/v31/zzverif/core"
)

// Goroutine schedules: the state machine is claimed to be sequential. That is a closure argument,
// not an exploration: every `go` statement and `select` in non-test, non-generated sources of the
// state-machine packages is listed; any site other than the known ones (whose effects are confined
// outside consensus state) is reported.
var knownSpawnSites = map[string]string{
	"x/txfees/keeper/mempool-1559/code.go": "EIP-1559 mempool state backup writer (file outside the state)",
}

func repoRoot() string {
	if r := os.Getenv("VERIF_REPO"); r != "" {
		return r
	}
	return "/repo"
}

func scanGoroutines(f *core.Flags, r *core.Result) {
	if f.Shard != 0 && f.Replay == "" {
		return
	}
	root := repoRoot()
	var sites []string
	for _, dir := range []string{"x", "app", "osmoutils", "osmomath", "ante", "wasmbinding"} {
		filepath.Walk(filepath.Join(root, dir), func(p string, info os.FileInfo, err error) error {
			if err != nil || info.IsDir() {
				if info != nil && info.IsDir() {
					b := info.Name()
					if b == "simulation" || b == "testutil" || b == "client" || b == "testcontracts" || b == "apptesting" || b == "bytecode" {
						return filepath.SkipDir
					}
				}
				return nil
			}
			if !strings.HasSuffix(p, ".go") || strings.HasSuffix(p, "_test.go") || strings.HasSuffix(p, ".pb.go") || strings.HasSuffix(p, ".pb.gw.go") {
				return nil
			}
			fs := token.NewFileSet()
			af, err := parser.ParseFile(fs, p, nil, 0)
			if err != nil {
				return nil
			}
			rel, _ := filepath.Rel(root, p)
			ast.Inspect(af, func(n ast.Node) bool {
				switch n.(type) {
				case *ast.GoStmt:
					sites = append(sites, fmt.Sprintf("%s:%d go", rel, fs.Position(n.Pos()).Line))
				case *ast.SelectStmt:
					sites = append(sites, fmt.Sprintf("%s:%d select", rel, fs.Position(n.Pos()).Line))
				}
				return true
			})
			r.Vacuity["source_files_scanned"]++
			return nil
		})
	}
	sort.Strings(sites)
	var listed []string
	for _, s := range sites {
		file := strings.SplitN(s, ":", 2)[0]
		if why, ok := knownSpawnSites[file]; ok {
			listed = append(listed, s+" ("+why+")")
			continue
		}
		if strings.HasPrefix(file, "x/") && (strings.Contains(file, "/client/") || strings.Contains(file, "/simulation/")) {
			continue
		}
		r.AddViolation(core.Violation{Property: f.Prop, Assertion: "c19.no-goroutines-in-state-machine", Signature: file + "|" + strings.Fields(s)[1],
			Detail: "concurrency construct in state-machine source: " + s, Replay: replayCfg{Axis: "goscan"}})
	}
	r.Extra["known_spawn_sites"] = listed
}
