package main

import (
	"encoding/json"
	"fmt"
	"os"
	"sort"
	"time"

	"github.com/osmosis-labs/osmosis/v31/zzverif/core"
)

// Engine D, map-iteration axis. The patched runtime asks mapHook where every `range` over a map
// starts. While a workload runs, every iteration over a map with >= 2 entries executed by the
// workload's goroutine is a choice point: default answer 0 (first bucket, first slot); the explorer
// re-executes the workload once per (choice point, alternative start), once per whole-schedule
// rotation (every choice point deviating at once) and, for the shortest scripts in the thorough
// tier, once per nearby pair of choice points, and requires identical results and identical store
// content after every block.

type choicePoint struct {
	Count uintptr
	B     uintptr
}

type mapOwner struct {
	enabled bool
	goid    uintptr
	capture bool
	idx     int
	devAt   int
	devR    uintptr
	devAt2  int
	devR2   uintptr
	sched   int // 0 = none; 1..7 every choice point starts at rotation s; 8 = every odd choice point at rotation 1
	log     []choicePoint
	inHook  bool
}

var mo = mapOwner{devAt: -1, devAt2: -1, log: make([]choicePoint, 0, 1<<20)}

// rotation is the start position of whole-schedule rotation s for a map with 2^B buckets: slot offset s
// and a start bucket that varies with s.
func rotation(s int, B uintptr) uintptr {
	mask := (uintptr(1) << B) - 1
	return uintptr(s)<<B | (uintptr(s)*0x9E3779B1)&mask
}

func mapHook(count, B, r, goid uintptr) uintptr {
	if mo.capture {
		mo.goid = goid
		mo.capture = false
		return r
	}
	if !mo.enabled || mo.inHook || goid != mo.goid {
		return r // outside the workload the runtime keeps its own randomness
	}
	if count < 2 {
		return 0
	}
	mo.inHook = true
	i := mo.idx
	mo.idx++
	if i < cap(mo.log) {
		mo.log = append(mo.log, choicePoint{count, B})
	}
	ret := uintptr(0)
	switch {
	case i == mo.devAt:
		ret = mo.devR
	case i == mo.devAt2:
		ret = mo.devR2
	case mo.sched >= 1 && mo.sched <= 7:
		ret = rotation(mo.sched, B)
	case mo.sched == 8 && i%2 == 1:
		ret = rotation(1, B)
	}
	mo.inHook = false
	return ret
}

func installMapHook() {
	setRuntimeHook(mapHook)
	// learn the workload goroutine's id: one iteration over a map with the capture flag set
	mo.capture = true
	for range map[int]int{1: 1, 2: 2} {
		break
	}
	if mo.capture {
		fmt.Fprintln(os.Stderr, "harness: the runtime map-iteration hook is not active in this binary")
		os.Exit(2)
	}
}

// Alternative starts for one choice point, most different first. level 0: one alternative (another slot
// offset; for maps with several buckets also another start bucket); level 1: two (the quick tier of the
// first-generation scripts); level 2: three or four; level 3: every slot offset and three other start buckets.
func alternatives(cp choicePoint, level int) []uintptr {
	last := (uintptr(1) << cp.B) - 1
	switch level {
	case 0:
		if cp.B > 0 {
			return []uintptr{last | (3 << cp.B)}
		}
		return []uintptr{1}
	case 1:
		out := []uintptr{1 << cp.B}
		if cp.B > 0 {
			out = append(out, last|(3<<cp.B))
		}
		return out
	case 2:
		if cp.B > 0 {
			return []uintptr{last | (3 << cp.B), 1 << cp.B, 1, 5 << cp.B}
		}
		return []uintptr{1, 3, 5}
	}
	var out []uintptr
	for _, o := range []uintptr{1, 2, 3, 4, 5, 6, 7} {
		out = append(out, o<<cp.B)
	}
	if cp.B > 0 {
		out = append(out, 1, last, last|(3<<cp.B))
	}
	return out
}

type deviation struct {
	At, At2 int
	R, R2   uintptr
	Sched   int
}

var noDeviation = deviation{At: -1, At2: -1}

// runWithDeviation executes a script on a fresh node with the hook active during block execution.
func runWithDeviation(sc Script, d deviation) ([][]Step, []choicePoint) {
	n := newNode(sc)
	defer n.Env.Close()
	mo.idx, mo.devAt, mo.devR, mo.devAt2, mo.devR2, mo.sched = 0, d.At, d.R, d.At2, d.R2, d.Sched
	mo.log = mo.log[:0]
	var out [][]Step
	for _, b := range sc.Blocks {
		mo.enabled = true
		st := n.RunBlock(b)
		mo.enabled = false
		out = append(out, st)
	}
	mo.sched = 0
	lg := append([]choicePoint{}, mo.log...)
	return out, lg
}

// firstGeneration scripts keep the enumeration they had before the workloads were extended.
var firstGeneration = map[string]bool{"dex": true, "skim": true, "sf": true}

// pairScripts: the shortest scripts get bound-2 deviations (pairs of choice points at most pairWindow apart) in the thorough tier.
var pairScripts = map[string]bool{"valset": true, "unpool": true, "clsame": true}

const pairWindow = 8

// mapOrderPlan: which single deviations a script gets in a tier (alternative level, stride over the choice points; level -1 = none).
func mapOrderPlan(sc Script, tier string) (level, stride int) {
	thorough := tier == "thorough"
	switch {
	case firstGeneration[sc.Name]:
		if thorough {
			return 3, 1
		}
		return 1, 1
	case sc.Heavy:
		if thorough {
			return 0, 1
		}
		return -1, 1
	default:
		if thorough {
			return 2, 1
		}
		return 0, 8
	}
}

type moItem struct {
	sc   int
	rank int
	d    deviation
}

func (it moItem) replayDev() []int {
	switch {
	case it.d.Sched != 0:
		return []int{-1, it.d.Sched}
	case it.d.At2 >= 0:
		return []int{it.d.At, int(it.d.R), it.d.At2, int(it.d.R2)}
	}
	return []int{it.d.At, int(it.d.R)}
}

func sameDev(a, b []int) bool {
	if len(a) != len(b) {
		return false
	}
	for i := range a {
		if a[i] != b[i] {
			return false
		}
	}
	return true
}

// mapOrderAxis: for every script, the reference schedule twice (it must reproduce itself), then the work
// items of all scripts ordered by alternative rank, so that a run cut short by the deadline has deviated
// every choice point of every script once before any gets its second alternative.
func mapOrderAxis(f *core.Flags, r *core.Result, scripts []Script, only *replayCfg, item *int) {
	if !haveMapHook {
		return
	}
	refs := make([][][]Step, len(scripts))
	logs := make([][]choicePoint, len(scripts))
	failed := make([]bool, len(scripts))
	// reference computes (once per process) the reference schedule of a script; the shard that owns the
	// script executes it twice: the same schedule must reproduce itself before anything is believed.
	reference := func(si int) bool {
		if refs[si] != nil || failed[si] {
			return !failed[si]
		}
		sc := scripts[si]
		ref, log0 := runWithDeviation(sc, noDeviation)
		if f.Replay != "" || f.Mine(si) {
			ref2, log1 := runWithDeviation(sc, noDeviation)
			a, _ := json.Marshal(ref)
			b, _ := json.Marshal(ref2)
			if string(a) != string(b) || len(log0) != len(log1) {
				r.AddViolation(core.Violation{Property: f.Prop, Assertion: "c19.same-schedule-same-result", Signature: sc.Name,
					Detail: fmt.Sprintf("two executions with every map iteration starting at the default position differ (choice points %d vs %d)", len(log0), len(log1)),
					Replay: replayCfg{Script: sc.Name, Axis: "maporder-ref"}})
				failed[si] = true
				return false
			}
		}
		refs[si], logs[si] = ref, log0
		r.Extra["max_choice_points_"+sc.Name] = float64(len(log0))
		multi := 0
		for _, cp := range log0 {
			if cp.B > 0 {
				multi++
			}
		}
		r.Extra["max_multibucket_choice_points_"+sc.Name] = float64(multi)
		return true
	}
	var items []moItem
	for si, sc := range scripts {
		if f.Replay != "" && sc.Name != only.Script {
			continue
		}
		level, stride := mapOrderPlan(sc, f.Tier)
		if f.Replay != "" {
			level, stride = 3, 1 // a replay names its deviation; accept any
		}
		pairs := (f.Tier == "thorough" || f.Replay != "") && pairScripts[sc.Name]
		// whole-schedule rotations: every choice point deviates at once
		for s := 1; s <= 8; s++ {
			items = append(items, moItem{sc: si, rank: 0, d: deviation{At: -1, At2: -1, Sched: s}})
		}
		r.Extra["sum_map_order_items_"+sc.Name] = float64(0)
		if level < 0 && !pairs {
			continue // only rotations: the reference is computed by the shards that execute one
		}
		if !reference(si) {
			continue
		}
		log0 := logs[si]
		if level >= 0 {
			for i, cp := range log0 {
				if i%stride != 0 {
					continue
				}
				for rank, alt := range alternatives(cp, level) {
					items = append(items, moItem{sc: si, rank: 1 + rank, d: deviation{At: i, R: alt, At2: -1}})
				}
			}
		}
		if pairs {
			for i := range log0 {
				for j := i + 1; j <= i+pairWindow && j < len(log0); j++ {
					items = append(items, moItem{sc: si, rank: 20, d: deviation{At: i, R: alternatives(log0[i], 0)[0], At2: j, R2: alternatives(log0[j], 0)[0]}})
				}
			}
		}
	}
	sort.SliceStable(items, func(a, b int) bool { return items[a].rank < items[b].rank })
	done := map[string]bool{}
	for _, it := range items {
		sc := scripts[it.sc]
		mine := f.Replay == "" && f.Mine(*item)
		*item++
		if f.Replay != "" {
			key := fmt.Sprint(it.replayDev())
			mine = only.Axis == "maporder" && sameDev(only.Dev, it.replayDev()) && !done[key]
			if mine {
				done[key] = true
			}
		}
		if !mine {
			continue
		}
		r.Extra["sum_map_order_items_"+sc.Name] = r.Extra["sum_map_order_items_"+sc.Name].(float64) + 1
		if f.Expired() {
			r.Exhaustive = false
			continue
		}
		if !reference(it.sc) {
			continue
		}
		got, _ := runWithDeviation(sc, it.d)
		r.Transitions += int64(len(got) * 3)
		r.Traces++
		what := ""
		switch {
		case it.d.Sched != 0:
			r.Vacuity["map_order_schedules_executed"]++
			what = fmt.Sprintf("whole-schedule rotation %d (every map iteration of the workload started elsewhere)", it.d.Sched)
		case it.d.At2 >= 0:
			r.Vacuity["map_order_pair_deviations_executed"]++
			what = fmt.Sprintf("choice points %d and %d started at %d and %d instead of 0", it.d.At, it.d.At2, it.d.R, it.d.R2)
		default:
			r.Vacuity["map_order_deviations_executed"]++
			cp := logs[it.sc][it.d.At]
			what = fmt.Sprintf("choice point %d (map with %d entries, %d bucket bits) started at %d instead of 0", it.d.At, cp.Count, cp.B, it.d.R)
		}
		ref := refs[it.sc]
		for bi := range got {
			if bi >= len(ref) {
				break
			}
			if d := diffSteps(ref[bi], got[bi], false); d != "" {
				r.AddViolation(core.Violation{Property: f.Prop, Assertion: "c19.map-iteration-order-independent",
					Signature: fmt.Sprintf("%s|block %d|%s", sc.Name, bi, firstDiffStep(ref[bi], got[bi])),
					Detail:    what + ": " + d,
					Replay:    replayCfg{Script: sc.Name, Axis: "maporder", Dev: it.replayDev()}})
				break
			}
		}
	}
}

// ---------------------------------------------------------------------------------------------
// wall-clock axis: while a workload runs, time.Now answers what the harness says
// ---------------------------------------------------------------------------------------------

type clockOwner struct {
	on    bool
	mode  int // 0 fixed 2024, 1 fixed 1970, 2 fixed 2100, 3 advancing one hour per call
	calls int
}

var ck clockOwner

func nowHook() (time.Time, bool) {
	if !ck.on {
		return time.Time{}, false
	}
	ck.calls++
	switch ck.mode {
	case 1:
		return time.Date(1970, 1, 1, 0, 0, 1, 0, time.UTC), true
	case 2:
		return time.Date(2100, 6, 15, 12, 0, 0, 0, time.UTC), true
	case 3:
		return time.Date(2024, 1, 1, 0, 0, 0, 0, time.UTC).Add(time.Duration(ck.calls) * time.Hour), true
	}
	return time.Date(2024, 1, 1, 0, 0, 0, 0, time.UTC), true
}

func runWithClock(sc Script, mode int) ([][]Step, int) {
	n := newNode(sc)
	defer n.Env.Close()
	ck.mode, ck.calls = mode, 0
	var out [][]Step
	for _, b := range sc.Blocks {
		ck.on = true
		st := n.RunBlock(b)
		ck.on = false
		out = append(out, st)
	}
	return out, ck.calls
}

func clockAxis(f *core.Flags, r *core.Result, sc Script, only *replayCfg, item *int) {
	if !haveMapHook {
		return
	}
	mine := (f.Replay == "" && f.Mine(*item)) || only.Axis == "clock"
	*item++
	if !mine {
		return
	}
	setNowHook(nowHook)
	ref, calls := runWithClock(sc, 0)
	r.Extra["max_time_now_calls_"+sc.Name] = float64(calls)
	for mode := 1; mode <= 3; mode++ {
		got, _ := runWithClock(sc, mode)
		r.Traces++
		r.Vacuity["wall_clock_variants_executed"]++
		for bi := range got {
			if d := diffSteps(ref[bi], got[bi], false); d != "" {
				r.AddViolation(core.Violation{Property: f.Prop, Assertion: "c19.wall-clock-independent", Signature: fmt.Sprintf("%s|mode %d|block %d|%s", sc.Name, mode, bi, firstDiffStep(ref[bi], got[bi])),
					Detail: fmt.Sprintf("time.Now answering variant %d instead of a fixed 2024-01-01: %s", mode, d), Replay: replayCfg{Script: sc.Name, Axis: "clock"}})
				break
			}
		}
	}
}
