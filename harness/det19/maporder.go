package main

import (
	"encoding/json"
	"fmt"
	"os"
	"time"

	"github.com/osmosis-labs/osmosis/v31/zzverif/core"
)

// Engine D, map-iteration axis. The patched runtime asks mapHook where every `range` over a map
// starts. While a workload runs, every iteration over a map with >= 2 entries executed by the
// workload's goroutine is a choice point: default answer 0 (first bucket, first slot); the explorer
// re-executes the workload once per (choice point, alternative start) and requires identical
// results and identical store content after every block.

type choicePoint struct {
	Count uintptr
	B     uintptr
}

type mapOwner struct {
	enabled bool
	goid    uintptr
	capture bool
	idx     int
	devAt   int
	devR    uintptr
	log     []choicePoint
	inHook  bool
}

var mo = mapOwner{devAt: -1, log: make([]choicePoint, 0, 1<<20)}

func mapHook(count, B, r, goid uintptr) uintptr {
	if mo.capture {
		mo.goid = goid
		mo.capture = false
		return r
	}
	if !mo.enabled || mo.inHook || goid != mo.goid {
		return r // outside the workload the runtime keeps its own randomness
	}
	if count < 2 {
		return 0
	}
	mo.inHook = true
	i := mo.idx
	mo.idx++
	if i < cap(mo.log) {
		mo.log = append(mo.log, choicePoint{count, B})
	}
	ret := uintptr(0)
	if i == mo.devAt {
		ret = mo.devR
	}
	mo.inHook = false
	return ret
}

func installMapHook() {
	setRuntimeHook(mapHook)
	// learn the workload goroutine's id: one iteration over a map with the capture flag set
	mo.capture = true
	for range map[int]int{1: 1, 2: 2} {
		break
	}
	if mo.capture {
		fmt.Fprintln(os.Stderr, "harness: the runtime map-iteration hook is not active in this binary")
		os.Exit(2)
	}
}

// alternatives for one choice point: every other slot offset of the start bucket, and for maps with
// several buckets also other start buckets.
func alternatives(cp choicePoint, all bool) []uintptr {
	var out []uintptr
	offs := []uintptr{1}
	if all {
		offs = []uintptr{1, 2, 3, 4, 5, 6, 7}
	}
	for _, o := range offs {
		out = append(out, o<<cp.B)
	}
	if cp.B > 0 {
		last := (uintptr(1) << cp.B) - 1
		if all {
			out = append(out, 1, last, last|(3<<cp.B))
		} else {
			out = append(out, last|(3<<cp.B))
		}
	}
	return out
}

// runWithDeviation executes a script on a fresh node with the hook active during block execution.
func runWithDeviation(sc Script, devAt int, devR uintptr) ([][]Step, []choicePoint) {
	n := genesisNode()
	defer n.Env.Close()
	mo.idx, mo.devAt, mo.devR = 0, devAt, devR
	mo.log = mo.log[:0]
	var out [][]Step
	for _, b := range sc.Blocks {
		mo.enabled = true
		st := n.RunBlock(b)
		mo.enabled = false
		out = append(out, st)
	}
	lg := append([]choicePoint{}, mo.log...)
	return out, lg
}

func mapOrderAxis(f *core.Flags, r *core.Result, sc Script, only *replayCfg, item *int) {
	if !haveMapHook {
		return
	}
	ref, log0 := runWithDeviation(sc, -1, 0)
	ref2, log1 := runWithDeviation(sc, -1, 0)
	a, _ := json.Marshal(ref)
	b, _ := json.Marshal(ref2)
	if string(a) != string(b) || len(log0) != len(log1) {
		// the same schedule replayed twice must give identical observations before anything is believed
		r.AddViolation(core.Violation{Property: f.Prop, Assertion: "c19.same-schedule-same-result", Signature: sc.Name,
			Detail: fmt.Sprintf("two executions with every map iteration starting at the default position differ (choice points %d vs %d)", len(log0), len(log1)),
			Replay: replayCfg{Script: sc.Name, Axis: "maporder-ref"}})
		return
	}
	r.Extra["max_choice_points_"+sc.Name] = float64(len(log0))
	multi := 0
	for _, cp := range log0 {
		if cp.B > 0 {
			multi++
		}
	}
	r.Extra["max_multibucket_choice_points_"+sc.Name] = float64(multi)
	all := f.Tier == "thorough"
	// work items: alternative rank outermost so that a run cut short by the deadline has still
	// deviated every choice point once before any gets its second alternative
	type itemT struct {
		i   int
		alt uintptr
	}
	var items []itemT
	for rank := 0; rank < 12; rank++ {
		for i, cp := range log0 {
			alts := alternatives(cp, all)
			if rank < len(alts) {
				items = append(items, itemT{i, alts[rank]})
			}
		}
	}
	r.Extra["sum_map_order_items_"+sc.Name] = float64(0)
	for _, it := range items {
		i, alt, cp := it.i, it.alt, log0[it.i]
		mine := f.Replay == "" && f.Mine(*item)
		*item++
		if f.Replay != "" {
			mine = only.Axis == "maporder" && len(only.Dev) == 2 && only.Dev[0] == i && uintptr(only.Dev[1]) == alt
		}
		if !mine {
			continue
		}
		r.Extra["sum_map_order_items_"+sc.Name] = r.Extra["sum_map_order_items_"+sc.Name].(float64) + 1
		if f.Expired() {
			r.Exhaustive = false
			continue
		}
		got, _ := runWithDeviation(sc, i, alt)
		r.Transitions += int64(len(got) * 3)
		r.Traces++
		r.Vacuity["map_order_deviations_executed"]++
		for bi := range got {
			if bi >= len(ref) {
				break
			}
			if d := diffSteps(ref[bi], got[bi], false); d != "" {
				r.AddViolation(core.Violation{Property: f.Prop, Assertion: "c19.map-iteration-order-independent",
					Signature: fmt.Sprintf("%s|block %d|%s", sc.Name, bi, firstDiffStep(ref[bi], got[bi])),
					Detail: fmt.Sprintf("choice point %d (map with %d entries, %d bucket bits) started at %d instead of 0: %s", i, cp.Count, cp.B, alt, d),
					Replay: replayCfg{Script: sc.Name, Axis: "maporder", Dev: []int{i, int(alt)}}})
				break
			}
		}
	}
}

// ---------------------------------------------------------------------------------------------
// wall-clock axis: while a workload runs, time.Now answers what the harness says
// ---------------------------------------------------------------------------------------------

type clockOwner struct {
	on    bool
	mode  int // 0 fixed 2024, 1 fixed 1970, 2 fixed 2100, 3 advancing one hour per call
	calls int
}

var ck clockOwner

func nowHook() (time.Time, bool) {
	if !ck.on {
		return time.Time{}, false
	}
	ck.calls++
	switch ck.mode {
	case 1:
		return time.Date(1970, 1, 1, 0, 0, 1, 0, time.UTC), true
	case 2:
		return time.Date(2100, 6, 15, 12, 0, 0, 0, time.UTC), true
	case 3:
		return time.Date(2024, 1, 1, 0, 0, 0, 0, time.UTC).Add(time.Duration(ck.calls) * time.Hour), true
	}
	return time.Date(2024, 1, 1, 0, 0, 0, 0, time.UTC), true
}

func runWithClock(sc Script, mode int) ([][]Step, int) {
	n := genesisNode()
	defer n.Env.Close()
	ck.mode, ck.calls = mode, 0
	var out [][]Step
	for _, b := range sc.Blocks {
		ck.on = true
		st := n.RunBlock(b)
		ck.on = false
		out = append(out, st)
	}
	return out, ck.calls
}

func clockAxis(f *core.Flags, r *core.Result, sc Script, only *replayCfg, item *int) {
	if !haveMapHook {
		return
	}
	mine := (f.Replay == "" && f.Mine(*item)) || only.Axis == "clock"
	*item++
	if !mine {
		return
	}
	setNowHook(nowHook)
	ref, calls := runWithClock(sc, 0)
	r.Extra["max_time_now_calls_"+sc.Name] = float64(calls)
	for mode := 1; mode <= 3; mode++ {
		got, _ := runWithClock(sc, mode)
		r.Traces++
		r.Vacuity["wall_clock_variants_executed"]++
		for bi := range got {
			if d := diffSteps(ref[bi], got[bi], false); d != "" {
				r.AddViolation(core.Violation{Property: f.Prop, Assertion: "c19.wall-clock-independent", Signature: fmt.Sprintf("%s|mode %d|block %d|%s", sc.Name, mode, bi, firstDiffStep(ref[bi], got[bi])),
					Detail: fmt.Sprintf("time.Now answering variant %d instead of a fixed 2024-01-01: %s", mode, d), Replay: replayCfg{Script: sc.Name, Axis: "clock"}})
				break
			}
		}
	}
}
