package main

import (
	"time"

	sdkmath "cosmossdk.io/math"
	sdk "github.com/cosmos/cosmos-sdk/types"

	"github.com/osmosis-labs/osmosis/osmomath"
	clmodel "github.com/osmosis-labs/osmosis/v31/x/concentrated-liquidity/model"
	cltypes "github.com/osmosis-labs/osmosis/v31/x/concentrated-liquidity/types"
	"github.com/osmosis-labs/osmosis/v31/x/gamm/pool-models/stableswap"
	gammtypes "github.com/osmosis-labs/osmosis/v31/x/gamm/types"
	incentivestypes "github.com/osmosis-labs/osmosis/v31/x/incentives/types"
	lockuptypes "github.com/osmosis-labs/osmosis/v31/x/lockup/types"
	pitypes "github.com/osmosis-labs/osmosis/v31/x/pool-incentives/types"
	pmtypes "github.com/osmosis-labs/osmosis/v31/x/poolmanager/types"
	sftypes "github.com/osmosis-labs/osmosis/v31/x/superfluid/types"
	valsettypes "github.com/osmosis-labs/osmosis/v31/x/valset-pref/types"

	"github.com/osmosis-labs/osmosis/v31/zzverif/core"
)

// The second generation of workloads: messages and module state the first three scripts do not reach.
// Every script crosses at least one epoch boundary and ends with activity after its last import point.

func must(err error) {
	if err != nil {
		panic(err)
	}
}

func i18(n int64) sdkmath.Int { return sdkmath.NewIntWithDecimal(n, 18) }

func hopOut(pool uint64, in string) pmtypes.SwapAmountOutRoute {
	return pmtypes.SwapAmountOutRoute{PoolId: pool, TokenInDenom: in}
}

func dec(s string) osmomath.Dec { return osmomath.MustNewDecFromStr(s) }

func clPos(pool uint64, s string, lo, hi int64, a0, a1 sdk.Coin) sdk.Msg {
	return &cltypes.MsgCreatePosition{PoolId: pool, Sender: s, LowerTick: lo, UpperTick: hi, TokensProvided: sdk.NewCoins(a0, a1),
		TokenMinAmount0: sdkmath.ZeroInt(), TokenMinAmount1: sdkmath.ZeroInt()}
}

// ------------------------------------------------------------------------------------------------
// gamm2: the remaining gamm messages (single-asset joins/exits by share amount, the module's own swap
// messages, stableswap scaling-factor adjustment), split-route exact-out, and the remaining lockup
// messages (extend, reward receiver, force unlock).
// Pool ids: 1 balancer foo/bar, 2 balancer bar/uosmo, 3 stableswap foo/baz (controller B), 4 balancer foo/uosmo.
// Lock ids: 1 B gamm/pool/1 1d, 2 A foo 1d, 3 C gamm/pool/1 1d.
// ------------------------------------------------------------------------------------------------
func scriptGamm2() Script {
	A, B, C, T := acc("A"), acc("B"), acc("C"), acc("T")
	day := 24*time.Hour + time.Minute
	week := 8 * 24 * time.Hour
	share1 := "gamm/pool/1"
	sh := func(n sdkmath.Int) sdk.Coins { return sdk.NewCoins(sdk.NewCoin(share1, n)) }
	return Script{Name: "gamm2", Blocks: []Block{
		{Dt: 5 * time.Second, Txs: one(
			balancerPool(A, c("foo", 5_000_000), c("bar", 10_000_000), 1, 1, "0.003"),
			balancerPool(A, c("bar", 8_000_000), c("uosmo", 4_000_000), 1, 4, "0.002"),
			&stableswap.MsgCreateStableswapPool{Sender: B, PoolParams: &stableswap.PoolParams{SwapFee: dec("0.001"), ExitFee: osmomath.ZeroDec()},
				InitialPoolLiquidity: sdk.NewCoins(c("foo", 3_000_000), c("baz", 3_000_000)), ScalingFactors: []uint64{1, 1}, ScalingFactorController: B},
			balancerPool(B, c("foo", 6_000_000), c("uosmo", 3_000_000), 2, 1, "0.001"),
		)},
		{Dt: 5 * time.Second,
			Pre: func(n *Node) {
				p := n.Env.App.LockupKeeper.GetParams(n.Ctx)
				p.ForceUnlockAllowedAddresses = []string{A}
				n.Env.App.LockupKeeper.SetParams(n.Ctx, p)
			},
			Txs: one(
				&gammtypes.MsgJoinSwapShareAmountOut{Sender: C, PoolId: 1, TokenInDenom: "foo", ShareOutAmount: i18(3), TokenInMaxAmount: sdkmath.NewInt(1 << 40)},
				&gammtypes.MsgJoinSwapShareAmountOut{Sender: B, PoolId: 1, TokenInDenom: "bar", ShareOutAmount: i18(6), TokenInMaxAmount: sdkmath.NewInt(1 << 40)},
				&gammtypes.MsgExitSwapShareAmountIn{Sender: C, PoolId: 1, TokenOutDenom: "bar", ShareInAmount: sdkmath.NewIntWithDecimal(5, 17), TokenOutMinAmount: sdkmath.OneInt()},
				&gammtypes.MsgExitSwapExternAmountOut{Sender: C, PoolId: 1, TokenOut: c("foo", 12_345), ShareInMaxAmount: i18(1)},
				&gammtypes.MsgSwapExactAmountIn{Sender: T, Routes: []pmtypes.SwapAmountInRoute{hop(1, "bar"), hop(2, "uosmo")}, TokenIn: c("foo", 77_000), TokenOutMinAmount: sdkmath.OneInt()},
				&gammtypes.MsgSwapExactAmountOut{Sender: T, Routes: []pmtypes.SwapAmountOutRoute{hopOut(2, "uosmo"), hopOut(1, "bar")}, TokenInMaxAmount: sdkmath.NewInt(1 << 40), TokenOut: c("foo", 5_000)},
				&pmtypes.MsgSplitRouteSwapExactAmountOut{Sender: T, TokenOutDenom: "foo", TokenInMaxAmount: sdkmath.NewInt(1 << 40), Routes: []pmtypes.SwapAmountOutSplitRoute{
					{Pools: []pmtypes.SwapAmountOutRoute{hopOut(4, "uosmo")}, TokenOutAmount: sdkmath.NewInt(30_000)},
					{Pools: []pmtypes.SwapAmountOutRoute{hopOut(2, "uosmo"), hopOut(1, "bar")}, TokenOutAmount: sdkmath.NewInt(20_000)}}},
				&gammtypes.MsgJoinPool{Sender: C, PoolId: 3, ShareOutAmount: i18(10), TokenInMaxs: []sdk.Coin{c("baz", 2_000_000), c("foo", 2_000_000)}},
				&gammtypes.MsgJoinSwapExternAmountIn{Sender: C, PoolId: 3, TokenIn: c("baz", 150_000), ShareOutMinAmount: sdkmath.OneInt()},
				&stableswap.MsgStableSwapAdjustScalingFactors{Sender: B, PoolID: 3, ScalingFactors: []uint64{2, 3}},
				swapIn(T, c("baz", 40_000), hop(3, "foo")),
				&gammtypes.MsgExitSwapShareAmountIn{Sender: C, PoolId: 3, TokenOutDenom: "foo", ShareInAmount: i18(1), TokenOutMinAmount: sdkmath.OneInt()},
				&lockuptypes.MsgLockTokens{Owner: B, Duration: 24 * time.Hour, Coins: sh(i18(4))},
				&lockuptypes.MsgLockTokens{Owner: A, Duration: 24 * time.Hour, Coins: sdk.NewCoins(c("foo", 9_999))},
				&lockuptypes.MsgLockTokens{Owner: C, Duration: 24 * time.Hour, Coins: sh(i18(2))},
				&lockuptypes.MsgExtendLockup{Owner: B, ID: 1, Duration: 7 * 24 * time.Hour},
				&lockuptypes.MsgSetRewardReceiverAddress{Owner: B, LockID: 1, RewardReceiver: C},
				&lockuptypes.MsgForceUnlock{Owner: A, ID: 2, Coins: sdk.NewCoins(c("foo", 999))},
				&incentivestypes.MsgCreateGauge{IsPerpetual: false, Owner: A, DistributeTo: lockuptypes.QueryCondition{LockQueryType: lockuptypes.ByDuration, Denom: share1, Duration: time.Hour},
					Coins: sdk.NewCoins(c("uosmo", 2_000_000), c("bar", 100_000)), StartTime: core.GenesisTime, NumEpochsPaidOver: 2},
			)},
		// week epoch: the gauge pays lock 1's share to its reward receiver C
		{Dt: week, Txs: one(
			&lockuptypes.MsgBeginUnlocking{Owner: B, ID: 1, Coins: sh(i18(1))},
			&lockuptypes.MsgSetRewardReceiverAddress{Owner: C, LockID: 3, RewardReceiver: A},
			&lockuptypes.MsgForceUnlock{Owner: A, ID: 2},
			swapIn(T, c("foo", 33_333), hop(3, "baz")),
			&gammtypes.MsgExitPool{Sender: C, PoolId: 3, ShareInAmount: i18(2), TokenOutMins: []sdk.Coin{}},
		)},
		{Dt: week, Txs: one(
			&gammtypes.MsgSwapExactAmountIn{Sender: T, Routes: []pmtypes.SwapAmountInRoute{hop(3, "foo"), hop(1, "bar")}, TokenIn: c("baz", 10_000), TokenOutMinAmount: sdkmath.OneInt()},
			&lockuptypes.MsgExtendLockup{Owner: C, ID: 3, Duration: 14 * 24 * time.Hour},
		)},
		{Dt: day, Txs: one(
			swapIn(T, c("bar", 4_000), hop(1, "foo")),
			&gammtypes.MsgJoinSwapShareAmountOut{Sender: T, PoolId: 1, TokenInDenom: "foo", ShareOutAmount: i18(1), TokenInMaxAmount: sdkmath.NewInt(1 << 40)},
		)},
	}}
}

// ------------------------------------------------------------------------------------------------
// cl2: the remaining concentrated-liquidity messages (add to position, transfer positions),
// a volume-splitting group, and pool-incentives distribution
// records (minted rewards reach pool gauges at the epoch).
// Pool ids: 1 balancer stake/foo, 2 concentrated stake/usdc, 3 concentrated eth/usdc, 4 balancer uosmo/foo, 5 balancer uosmo/bar.
// Gauge ids: 1-3 pool 1, 4 pool 2, 5 pool 3, 6-8 pool 4, 9-11 pool 5, 12 the group.
// (External NoLock gauges live in the script "nolock".)
// ------------------------------------------------------------------------------------------------
func scriptCl2() Script {
	A, B, C, T := acc("A"), acc("B"), acc("C"), acc("T")
	day := 24*time.Hour + time.Minute
	week := 8 * 24 * time.Hour
	cm2 := clmodel.NewMsgCreateConcentratedPool(core.Acc("A"), "stake", "usdc", 100, dec("0.002"))
	cm3 := clmodel.NewMsgCreateConcentratedPool(core.Acc("A"), "eth", "usdc", 100, dec("0.003"))
	return Script{Name: "cl2", Blocks: []Block{
		{Dt: 5 * time.Second, Txs: one(
			balancerPool(A, c("stake", 20_000_000), c("foo", 50_000_000), 1, 1, "0.003"),
			&cm2, &cm3,
			balancerPool(B, c("uosmo", 30_000_000), c("foo", 30_000_000), 1, 1, "0.002"),
			balancerPool(B, c("uosmo", 30_000_000), c("bar", 60_000_000), 1, 1, "0.002"),
		)},
		// day epoch: protorev links foo and bar to uosmo through pools 4 and 5, which makes them admissible reward denoms
		{Dt: day,
			Pre: func(n *Node) {
				// what an UpdatePoolIncentivesProposal does: minted pool incentives go to the internal gauges of pools 1..3
				k := n.Env.App.PoolIncentivesKeeper
				var recs []pitypes.DistrRecord
				g1, err := k.GetPoolGaugeId(n.Ctx, 1, time.Hour)
				must(err)
				recs = append(recs, pitypes.DistrRecord{GaugeId: g1, Weight: sdkmath.NewInt(100)})
				for _, p := range []uint64{2, 3} {
					g, err := k.GetInternalGaugeIDForPool(n.Ctx, p)
					must(err)
					recs = append(recs, pitypes.DistrRecord{GaugeId: g, Weight: sdkmath.NewInt(int64(100 * p))})
				}
				must(k.ReplaceDistrRecords(n.Ctx, recs...))
				// A creates groups without the creation fee (the fee path has its own script, "groupfee")
				ip := n.Env.App.IncentivesKeeper.GetParams(n.Ctx)
				ip.UnrestrictedCreatorWhitelist = []string{acc("A")}
				n.Env.App.IncentivesKeeper.SetParams(n.Ctx, ip)
			},
			Txs: one(
				clPos(2, A, cltypes.MinInitializedTick, cltypes.MaxTick, c("stake", 4_000_000), c("usdc", 8_000_000)),
				clPos(3, A, cltypes.MinInitializedTick, cltypes.MaxTick, c("eth", 1_000_000), c("usdc", 5_000_000_000)),
				clPos(3, B, 30_900_000, 31_100_000, c("eth", 2_000_000), c("usdc", 10_000_000_000)),
				clPos(3, B, 30_000_000, 31_500_000, c("eth", 500_000), c("usdc", 2_000_000_000)),
				clPos(2, C, -2_000_000, 3_000_000, c("stake", 1_000_000), c("usdc", 2_000_000)),
				swapIn(T, c("stake", 150_000), hop(1, "foo")),
				swapIn(T, c("stake", 90_000), hop(2, "usdc")),
				swapIn(T, c("eth", 30_000), hop(3, "usdc")),
				&incentivestypes.MsgCreateGroup{Coins: sdk.NewCoins(c("uosmo", 5_000_000)), NumEpochsPaidOver: 0, Owner: A, PoolIds: []uint64{1, 2}},
				&cltypes.MsgAddToPosition{PositionId: 3, Sender: B, Amount0: sdkmath.NewInt(300_000), Amount1: sdkmath.NewInt(1_500_000_000),
					TokenMinAmount0: sdkmath.ZeroInt(), TokenMinAmount1: sdkmath.ZeroInt()},
				&cltypes.MsgTransferPositions{PositionIds: []uint64{4}, Sender: B, NewOwner: C},
			)},
		// week epoch: gauges create incentive records on the pools, the group splits by volume, mint feeds the distr records
		{Dt: week, Txs: one(
			swapIn(T, c("usdc", 900_000_000), hop(3, "eth")),
			swapIn(T, c("stake", 50_000), hop(2, "usdc")),
			swapIn(T, c("foo", 70_000), hop(1, "stake")),
			&cltypes.MsgCollectIncentives{PositionIds: []uint64{4}, Sender: C},
			&cltypes.MsgCollectSpreadRewards{PositionIds: []uint64{2}, Sender: A},
			&incentivestypes.MsgAddToGauge{Owner: T, GaugeId: 12, Rewards: sdk.NewCoins(c("uosmo", 777_000))},
		)},
		{Dt: week, Txs: one(
			&cltypes.MsgCollectIncentives{PositionIds: []uint64{1, 2}, Sender: A},
			&cltypes.MsgAddToPosition{PositionId: 5, Sender: C, Amount0: sdkmath.NewInt(100_000), Amount1: sdkmath.NewInt(200_000),
				TokenMinAmount0: sdkmath.ZeroInt(), TokenMinAmount1: sdkmath.ZeroInt()},
			&cltypes.MsgTransferPositions{PositionIds: []uint64{1}, Sender: A, NewOwner: B},
			swapIn(T, c("stake", 40_000), hop(1, "foo")),
		)},
		{Dt: day, Txs: one(
			&cltypes.MsgWithdrawPosition{PositionId: 4, Sender: C, LiquidityAmount: dec("1000000")},
			swapIn(T, c("eth", 10_000), hop(3, "usdc")),
		)},
		{Dt: 5 * time.Second, Txs: one(
			&cltypes.MsgCollectIncentives{PositionIds: []uint64{1}, Sender: B},
			swapIn(T, c("usdc", 1_000_000), hop(2, "stake")),
		)},
	}}
}

// ------------------------------------------------------------------------------------------------
// sf2: the remaining superfluid messages (concentrated full-range superfluid positions, undelegate-and-
// unbond, unbond-convert-and-stake) and the remaining validator-set-preference messages.
// Pool ids: 1 balancer foo/stake, 2 concentrated stake/foo.
// ------------------------------------------------------------------------------------------------
func scriptSf2() Script {
	A, B, C, T := acc("A"), acc("B"), acc("C"), acc("T")
	val0, val1, val2 := core.ValAddr(0).String(), core.ValAddr(1).String(), core.ValAddr(2).String()
	week := 8 * 24 * time.Hour
	shares := func(n int64) sdk.Coins { return sdk.NewCoins(sdk.NewCoin("gamm/pool/1", i18(n))) }
	cm2 := clmodel.NewMsgCreateConcentratedPool(core.Acc("B"), "stake", "foo", 100, dec("0.001"))
	pref := func(w0, w1 string) []valsettypes.ValidatorPreference {
		return []valsettypes.ValidatorPreference{{ValOperAddress: val0, Weight: dec(w0)}, {ValOperAddress: val1, Weight: dec(w1)}}
	}
	return Script{Name: "sf2", Validators: 3, Blocks: []Block{
		{Dt: 5 * time.Second, Txs: one(
			balancerPool(A, c("foo", 50_000_000), c("stake", 20_000_000), 1, 1, "0.003"),
			&gammtypes.MsgJoinPool{Sender: B, PoolId: 1, ShareOutAmount: i18(30), TokenInMaxs: []sdk.Coin{c("foo", 50_000_000), c("stake", 50_000_000)}},
			&cm2,
		)},
		{Dt: 5 * time.Second, Txs: one(
			clPos(2, C, cltypes.MinInitializedTick, cltypes.MaxTick, c("stake", 2_000_000), c("foo", 5_000_000)),
		)},
		{Dt: 5 * time.Second,
			Pre: func(n *Node) {
				k := n.Env.App.SuperfluidKeeper
				must(k.AddNewSuperfluidAsset(n.Ctx, sftypes.SuperfluidAsset{Denom: "gamm/pool/1", AssetType: sftypes.SuperfluidAssetTypeLPShare}))
				must(k.AddNewSuperfluidAsset(n.Ctx, sftypes.SuperfluidAsset{Denom: cltypes.GetConcentratedLockupDenomFromPoolId(2), AssetType: sftypes.SuperfluidAssetTypeConcentratedShare}))
			},
			Txs: one(
				&sftypes.MsgLockAndSuperfluidDelegate{Sender: A, Coins: shares(10), ValAddr: val0},
				&sftypes.MsgCreateFullRangePositionAndSuperfluidDelegate{Sender: B, Coins: sdk.NewCoins(c("stake", 4_000_000), c("foo", 10_000_000)), ValAddr: val1, PoolId: 2},
				&sftypes.MsgLockAndSuperfluidDelegate{Sender: B, Coins: shares(8), ValAddr: val1},
				&valsettypes.MsgSetValidatorSetPreference{Delegator: C, Preferences: pref("0.5", "0.5")},
				&valsettypes.MsgDelegateToValidatorSet{Delegator: C, Coin: c("stake", 2_000_000)},
			)},
		{Dt: week, Txs: one(
			swapIn(T, c("foo", 5_000_000), hop(1, "stake")),
			swapIn(T, c("foo", 300_000), hop(2, "stake")),
			&sftypes.MsgSuperfluidUndelegateAndUnbondLock{Sender: A, LockId: 1, Coin: sdk.NewCoin("gamm/pool/1", i18(4))},
			&valsettypes.MsgWithdrawDelegationRewards{Delegator: C},
			&valsettypes.MsgRedelegateValidatorSet{Delegator: C, Preferences: []valsettypes.ValidatorPreference{{ValOperAddress: val2, Weight: dec("1")}}},
		)},
		{Dt: week, Txs: one(
			&sftypes.MsgUnbondConvertAndStake{LockId: 1, Sender: A, ValAddr: val1, MinAmtToStake: sdkmath.ZeroInt(), SharesToConvert: sdk.NewCoin("gamm/pool/1", sdkmath.ZeroInt())},
			&sftypes.MsgUnbondConvertAndStake{LockId: 0, Sender: B, ValAddr: val0, MinAmtToStake: sdkmath.ZeroInt(), SharesToConvert: sdk.NewCoin("gamm/pool/1", i18(2))},
			&valsettypes.MsgUndelegateFromRebalancedValidatorSet{Delegator: C, Coin: c("stake", 500_000)},
			&sftypes.MsgSuperfluidUndelegate{Sender: B, LockId: 3},
		)},
		{Dt: 22 * 24 * time.Hour, Txs: one(
			swapIn(T, c("stake", 100_000), hop(1, "foo")),
			&valsettypes.MsgWithdrawDelegationRewards{Delegator: C},
		)},
		{Dt: 5 * time.Second, Txs: one(
			swapIn(T, c("foo", 1_000), hop(2, "stake")),
			&valsettypes.MsgDelegateToValidatorSet{Delegator: C, Coin: c("stake", 1_000_003)},
		)},
	}}
}

// ------------------------------------------------------------------------------------------------
// Small scripts that isolate one step each. The step makes an export unusable or an imported node
// diverge (see the findings in the evidence); keeping it apart leaves the larger workloads able to
// observe everything else.
// ------------------------------------------------------------------------------------------------

// groupfee: MsgCreateGroup by a sender that pays the group creation fee.
func scriptGroupFee() Script {
	A, B, T := acc("A"), acc("B"), acc("T")
	week := 8 * 24 * time.Hour
	return Script{Name: "groupfee", Blocks: []Block{
		{Dt: 5 * time.Second, Txs: one(
			balancerPool(A, c("stake", 20_000_000), c("foo", 50_000_000), 1, 1, "0.003"),
			balancerPool(A, c("stake", 10_000_000), c("bar", 30_000_000), 1, 1, "0.003"),
		)},
		{Dt: 5 * time.Second, Txs: one(
			swapIn(T, c("stake", 150_000), hop(1, "foo")),
			swapIn(T, c("stake", 50_000), hop(2, "bar")),
			&incentivestypes.MsgCreateGroup{Coins: sdk.NewCoins(c("uosmo", 5_000_000)), NumEpochsPaidOver: 0, Owner: B, PoolIds: []uint64{1, 2}},
		)},
		{Dt: week, Txs: one(swapIn(T, c("stake", 70_000), hop(2, "bar")))},
		{Dt: 5 * time.Second, Txs: one(swapIn(T, c("foo", 10_000), hop(1, "stake")))},
	}}
}

// clsame: a concentrated pool that receives its first position in the block that creates it.
func scriptClSame() Script {
	A, T := acc("A"), acc("T")
	day := 24*time.Hour + time.Minute
	cm1 := clmodel.NewMsgCreateConcentratedPool(core.Acc("A"), "eth", "usdc", 100, dec("0.003"))
	return Script{Name: "clsame", Blocks: []Block{
		{Dt: 5 * time.Second, Txs: one(
			&cm1,
			clPos(1, A, cltypes.MinInitializedTick, cltypes.MaxTick, c("eth", 1_000_000), c("usdc", 5_000_000_000)),
		)},
		{Dt: 5 * time.Second, Txs: one(swapIn(T, c("eth", 30_000), hop(1, "usdc")))},
		{Dt: day, Txs: one(swapIn(T, c("usdc", 90_000_000), hop(1, "eth")))},
		{Dt: 5 * time.Second, Txs: one(swapIn(T, c("eth", 1_000), hop(1, "usdc")))},
	}}
}

// tenpools: ten concentrated pools, so that the ids 1 and 10 are prefixes of one another (every per-pool key of the
// concentrated-liquidity and pool-incentives modules is a byte-prefix range over the decimal pool id; each concentrated pool
// gets its own NoLock gauges at creation). Positions in pools 1 and 10 only; no swaps, no full-range positions.
func scriptTenPools() Script {
	A, B := acc("A"), acc("B")
	var create []sdk.Msg
	for i := 0; i < 10; i++ {
		cm := clmodel.NewMsgCreateConcentratedPool(core.Acc("A"), "eth", "usdc", 100, dec("0.003"))
		create = append(create, &cm)
	}
	return Script{Name: "tenpools", Blocks: []Block{
		{Dt: 5 * time.Second, Txs: one(create...)},
		{Dt: 5 * time.Second, Txs: one(
			clPos(1, A, -1000, 1000, c("eth", 1_000_000), c("usdc", 1_000_000)),
			clPos(10, B, -2000, 3000, c("eth", 2_000_000), c("usdc", 2_000_000)),
		)},
		{Dt: 24*time.Hour + time.Minute, Txs: one(clPos(10, A, -1000, 1000, c("eth", 1_000_000), c("usdc", 1_000_000)))},
	}}
}

// poolcache: a pool creation that fails AFTER the pool was initialised (the creator cannot pay the creation fee;
// by then the creation hooks have asked the pool manager for the pool's module, which memoises the answer in
// process memory during block execution) frees the pool id again; the next block creates a pool of a DIFFERENT
// type, which receives that id. A node that has been running since the failed transaction and a node started from
// the state in between (every export point is one) must route the id alike.
func scriptPoolCache() Script { return poolCacheScript("poolcache", false) }

// poolcache2: the same history with a swap addressed to the freed pool id while no pool has it: the long-running node
// answers from the memoised module (gamm: "pool does not exist"), a restarted node from the store ("failed to find
// route"). Kept apart because it is a recorded finding on the unchanged tree.
func scriptPoolCache2() Script { return poolCacheScript("poolcache2", true) }

func poolCacheScript(name string, askFreedID bool) Script {
	A, T, P := acc("A"), acc("T"), acc("P") // P holds nothing
	day := 24*time.Hour + time.Minute
	cm1 := clmodel.NewMsgCreateConcentratedPool(core.Acc("A"), "eth", "usdc", 100, dec("0.003"))
	b0 := one(balancerPool(P, c("foo", 1_000_000), c("bar", 1_000_000), 1, 1, "0.003"))
	var b1 [][]sdk.Msg
	if askFreedID {
		b1 = one(swapIn(T, c("foo", 1_000), hop(1, "bar")))
	}
	b1 = append(b1, one(
		&cm1,
		clPos(1, A, cltypes.MinInitializedTick, cltypes.MaxTick, c("eth", 1_000_000), c("usdc", 5_000_000_000)),
		swapIn(T, c("eth", 30_000), hop(1, "usdc")),
	)...)
	return Script{Name: name, Blocks: []Block{
		{Dt: 5 * time.Second, Txs: b0},
		{Dt: 5 * time.Second, Txs: b1},
		{Dt: day, Txs: one(swapIn(T, c("usdc", 90_000_000), hop(1, "eth")))},
		{Dt: 5 * time.Second, Txs: one(swapIn(T, c("eth", 1_000), hop(1, "usdc")))},
	}}
}

// sfcl: adding to a superfluid-staked full-range concentrated position.
func scriptSfCl() Script {
	B, C, T := acc("B"), acc("C"), acc("T")
	val1 := core.ValAddr(1).String()
	week := 8 * 24 * time.Hour
	cm1 := clmodel.NewMsgCreateConcentratedPool(core.Acc("B"), "stake", "foo", 100, dec("0.001"))
	return Script{Name: "sfcl", Blocks: []Block{
		{Dt: 5 * time.Second, Txs: one(&cm1)},
		{Dt: 5 * time.Second, Txs: one(
			clPos(1, C, cltypes.MinInitializedTick, cltypes.MaxTick, c("stake", 2_000_000), c("foo", 5_000_000)),
		)},
		{Dt: 5 * time.Second,
			Pre: func(n *Node) {
				must(n.Env.App.SuperfluidKeeper.AddNewSuperfluidAsset(n.Ctx, sftypes.SuperfluidAsset{Denom: cltypes.GetConcentratedLockupDenomFromPoolId(1), AssetType: sftypes.SuperfluidAssetTypeConcentratedShare}))
			},
			Txs: one(
				&sftypes.MsgCreateFullRangePositionAndSuperfluidDelegate{Sender: B, Coins: sdk.NewCoins(c("stake", 4_000_000), c("foo", 10_000_000)), ValAddr: val1, PoolId: 1},
			)},
		{Dt: week, Txs: one(
			swapIn(T, c("foo", 300_000), hop(1, "stake")),
			&sftypes.MsgAddToConcentratedLiquiditySuperfluidPosition{PositionId: 2, Sender: B, TokenDesired0: c("stake", 1_000_000), TokenDesired1: c("foo", 2_500_000)},
		)},
		{Dt: week, Txs: one(swapIn(T, c("stake", 10_000), hop(1, "foo")))},
		{Dt: 5 * time.Second, Txs: one(swapIn(T, c("foo", 1_000), hop(1, "stake")))},
	}}
}

// nolock: external NoLock gauges on concentrated pools (uptimes 1ns and 1min).
// Pool ids: 1 concentrated eth/usdc, 2 balancer uosmo/foo. Gauge ids: 1 pool 1, 2-4 pool 2, 5 and 6 external.
func scriptNoLock() Script {
	A, B, T := acc("A"), acc("B"), acc("T")
	day := 24*time.Hour + time.Minute
	week := 8 * 24 * time.Hour
	cm1 := clmodel.NewMsgCreateConcentratedPool(core.Acc("A"), "eth", "usdc", 100, dec("0.003"))
	noLock := func(uptime time.Duration) lockuptypes.QueryCondition {
		return lockuptypes.QueryCondition{LockQueryType: lockuptypes.NoLock, Duration: uptime}
	}
	return Script{Name: "nolock", Blocks: []Block{
		{Dt: 5 * time.Second, Txs: one(
			&cm1,
			balancerPool(B, c("uosmo", 30_000_000), c("foo", 30_000_000), 1, 1, "0.002"),
		)},
		// day epoch: protorev links foo to uosmo through pool 2, which makes it an admissible reward denom
		{Dt: day, Txs: one(
			clPos(1, A, cltypes.MinInitializedTick, cltypes.MaxTick, c("eth", 1_000_000), c("usdc", 5_000_000_000)),
			clPos(1, B, 30_900_000, 31_100_000, c("eth", 2_000_000), c("usdc", 10_000_000_000)),
			&incentivestypes.MsgCreateGauge{IsPerpetual: false, Owner: A, DistributeTo: noLock(time.Nanosecond), PoolId: 1,
				Coins: sdk.NewCoins(c("uosmo", 6_000_000), c("foo", 300_000)), StartTime: core.GenesisTime, NumEpochsPaidOver: 3},
			&incentivestypes.MsgCreateGauge{IsPerpetual: true, Owner: B, DistributeTo: noLock(time.Minute), PoolId: 1,
				Coins: sdk.NewCoins(c("uosmo", 700_000)), StartTime: core.GenesisTime, NumEpochsPaidOver: 1},
		)},
		{Dt: week, Txs: one(
			swapIn(T, c("eth", 30_000), hop(1, "usdc")),
			&incentivestypes.MsgAddToGauge{Owner: T, GaugeId: 5, Rewards: sdk.NewCoins(c("uosmo", 12_345))},
		)},
		{Dt: week, Txs: one(
			&cltypes.MsgCollectIncentives{PositionIds: []uint64{1}, Sender: A},
			&cltypes.MsgWithdrawPosition{PositionId: 2, Sender: B, LiquidityAmount: dec("1000000")},
		)},
		{Dt: 5 * time.Second, Txs: one(&cltypes.MsgCollectIncentives{PositionIds: []uint64{2}, Sender: B})},
	}}
}

// unpool: MsgUnPoolWhitelistedPool on a pool an upgrade handler put on the unpool whitelist.
func scriptUnpool() Script {
	A, C, T := acc("A"), acc("C"), acc("T")
	day := 24*time.Hour + time.Minute
	return Script{Name: "unpool", Blocks: []Block{
		{Dt: 5 * time.Second,
			Pre: func(n *Node) { n.Env.App.SuperfluidKeeper.SetUnpoolAllowedPools(n.Ctx, []uint64{1}) }, // what the v8 upgrade handler did for its pools
			Txs: one(
				balancerPool(A, c("foo", 5_000_000), c("bar", 10_000_000), 1, 1, "0.003"),
				&gammtypes.MsgJoinSwapShareAmountOut{Sender: C, PoolId: 1, TokenInDenom: "foo", ShareOutAmount: i18(3), TokenInMaxAmount: sdkmath.NewInt(1 << 40)},
				&lockuptypes.MsgLockTokens{Owner: C, Duration: 24 * time.Hour, Coins: sdk.NewCoins(sdk.NewCoin("gamm/pool/1", i18(2)))},
			)},
		{Dt: day, Txs: one(&sftypes.MsgUnPoolWhitelistedPool{Sender: C, PoolId: 1})},
		{Dt: 5 * time.Second, Txs: one(swapIn(T, c("foo", 1_000), hop(1, "bar")))},
	}}
}

// valset: a validator-set preference that differs from the delegator's existing delegations.
func scriptValset() Script {
	C := acc("C")
	val0, val1 := core.ValAddr(0).String(), core.ValAddr(1).String()
	day := 24*time.Hour + time.Minute
	return Script{Name: "valset", Blocks: []Block{
		{Dt: 5 * time.Second, Txs: one(
			&valsettypes.MsgSetValidatorSetPreference{Delegator: C, Preferences: []valsettypes.ValidatorPreference{
				{ValOperAddress: val0, Weight: dec("0.3")}, {ValOperAddress: val1, Weight: dec("0.7")}}},
		)},
		{Dt: day, Txs: one(&valsettypes.MsgDelegateToValidatorSet{Delegator: C, Coin: c("stake", 1_000_000)})},
		{Dt: 5 * time.Second, Txs: one(&valsettypes.MsgDelegateToValidatorSet{Delegator: C, Coin: c("stake", 500_001)})},
	}}
}

func moreScripts() []Script {
	return []Script{scriptGamm2(), scriptCl2(), scriptSf2(), scriptGroupFee(), scriptClSame(), scriptPoolCache(), scriptPoolCache2(), scriptSfCl(), scriptNoLock(), scriptUnpool(), scriptValset(), scriptTenPools()}
}
