package main

import (
	"time"

	sdkmath "cosmossdk.io/math"
	sdk "github.com/cosmos/cosmos-sdk/types"
	authtypes "github.com/cosmos/cosmos-sdk/x/auth/types"
	banktypes "github.com/cosmos/cosmos-sdk/x/bank/types"
	distrtypes "github.com/cosmos/cosmos-sdk/x/distribution/types"
	govtypes "github.com/cosmos/cosmos-sdk/x/gov/types"
	stakingtypes "github.com/cosmos/cosmos-sdk/x/staking/types"

	"github.com/osmosis-labs/osmosis/osmomath"
	clmodel "github.com/osmosis-labs/osmosis/v31/x/concentrated-liquidity/model"
	cltypes "github.com/osmosis-labs/osmosis/v31/x/concentrated-liquidity/types"
	"github.com/osmosis-labs/osmosis/v31/x/gamm/pool-models/balancer"
	"github.com/osmosis-labs/osmosis/v31/x/gamm/pool-models/stableswap"
	gammtypes "github.com/osmosis-labs/osmosis/v31/x/gamm/types"
	incentivestypes "github.com/osmosis-labs/osmosis/v31/x/incentives/types"
	lockuptypes "github.com/osmosis-labs/osmosis/v31/x/lockup/types"
	pmtypes "github.com/osmosis-labs/osmosis/v31/x/poolmanager/types"
	sftypes "github.com/osmosis-labs/osmosis/v31/x/superfluid/types"
	tftypes "github.com/osmosis-labs/osmosis/v31/x/tokenfactory/types"
	valsettypes "github.com/osmosis-labs/osmosis/v31/x/valset-pref/types"

	"github.com/osmosis-labs/osmosis/v31/zzverif/core"
)

// A Block is a list of transactions (each a list of messages delivered atomically) preceded by a
// block-time step.
type Block struct {
	Dt  time.Duration
	Txs [][]sdk.Msg
	// Pre is a keeper-level step executed at the start of the block on every node alike (what a passed
	// governance proposal would do); part of the history.
	Pre func(n *Node)
	// Post makes the harness run the application's protorev post-handler after every transaction of the
	// block (messages are delivered through the MsgServiceRouter, which bypasses the ante/post chain);
	// its events are appended to the transaction's.
	Post bool
}

type Script struct {
	Name   string
	Blocks []Block
	// Validators is the number of genesis validators (0 = the default, 2).
	Validators int
	// Heavy marks a workload whose single execution is expensive (it compiles CosmWasm code): the
	// map-order axis deviates it with whole-schedule rotations only.
	Heavy bool
}

func acc(n string) string { return core.Acc(n).String() }

func c(denom string, amt int64) sdk.Coin { return sdk.NewCoin(denom, sdkmath.NewInt(amt)) }

func one(m ...sdk.Msg) [][]sdk.Msg {
	var out [][]sdk.Msg
	for _, x := range m {
		out = append(out, []sdk.Msg{x})
	}
	return out
}

func govAddr() string { return authtypes.NewModuleAddress(govtypes.ModuleName).String() }

func balancerPool(owner string, a, b sdk.Coin, wa, wb int64, fee string) sdk.Msg {
	return &balancer.MsgCreateBalancerPool{Sender: owner,
		PoolParams: &balancer.PoolParams{SwapFee: osmomath.MustNewDecFromStr(fee), ExitFee: osmomath.ZeroDec()},
		PoolAssets: []balancer.PoolAsset{{Token: a, Weight: sdkmath.NewInt(wa)}, {Token: b, Weight: sdkmath.NewInt(wb)}}}
}

func swapIn(sender string, in sdk.Coin, routes ...pmtypes.SwapAmountInRoute) sdk.Msg {
	return &pmtypes.MsgSwapExactAmountIn{Sender: sender, Routes: routes, TokenIn: in, TokenOutMinAmount: sdkmath.OneInt()}
}

func hop(pool uint64, out string) pmtypes.SwapAmountInRoute {
	return pmtypes.SwapAmountInRoute{PoolId: pool, TokenOutDenom: out}
}

func tfDenom(creator, sub string) string { return "factory/" + creator + "/" + sub }

// Scripts returns the fixed workloads. Pool ids: 1 balancer foo/bar, 2 balancer bar/uosmo,
// 3 stableswap foo/baz, 4 concentrated eth/usdc, 5 concentrated foo/uosmo.
func Scripts() []Script {
	A, B, C, T := acc("A"), acc("B"), acc("C"), acc("T")
	day := 24*time.Hour + time.Minute
	cm4 := clmodel.NewMsgCreateConcentratedPool(core.Acc("A"), "eth", "usdc", 100, osmomath.MustNewDecFromStr("0.003"))
	cm5 := clmodel.NewMsgCreateConcentratedPool(core.Acc("B"), "foo", "uosmo", 10, osmomath.MustNewDecFromStr("0.0005"))
	share1 := "gamm/pool/1"
	fd := tfDenom(A, "gold")
	fd2 := tfDenom(B, "silver")
	pos := func(pool uint64, s string, lo, hi int64, a0, a1 sdk.Coin) sdk.Msg {
		return &cltypes.MsgCreatePosition{PoolId: pool, Sender: s, LowerTick: lo, UpperTick: hi, TokensProvided: sdk.NewCoins(a0, a1),
			TokenMinAmount0: sdkmath.ZeroInt(), TokenMinAmount1: sdkmath.ZeroInt()}
	}
	dex := Script{Name: "dex", Blocks: []Block{
		{Dt: 5 * time.Second, Txs: one(
			balancerPool(A, c("foo", 5_000_000), c("bar", 10_000_000), 1, 1, "0.003"),
			balancerPool(A, c("bar", 8_000_000), c("uosmo", 4_000_000), 1, 4, "0"),
			&stableswap.MsgCreateStableswapPool{Sender: B, PoolParams: &stableswap.PoolParams{SwapFee: osmomath.MustNewDecFromStr("0.001"), ExitFee: osmomath.ZeroDec()},
				InitialPoolLiquidity: sdk.NewCoins(c("foo", 3_000_000), c("baz", 3_000_000)), ScalingFactors: []uint64{1, 1}},
			&cm4, &cm5,
		)},
		{Dt: 5 * time.Second, Txs: one(
			pos(4, A, cltypes.MinInitializedTick, cltypes.MaxTick, c("eth", 1_000_000), c("usdc", 5_000_000_000)),
			pos(4, B, 30_900_000, 31_100_000, c("eth", 2_000_000), c("usdc", 10_000_000_000)),
			pos(5, B, -200, 200, c("foo", 50_000_000), c("uosmo", 50_000_000)),
			pos(5, C, cltypes.MinInitializedTick, cltypes.MaxTick, c("foo", 7_000_000), c("uosmo", 7_000_000)),
			swapIn(T, c("foo", 100_000), hop(1, "bar")),
			swapIn(T, c("foo", 250_000), hop(1, "bar"), hop(2, "uosmo")),
			swapIn(T, c("eth", 30_000), hop(4, "usdc")),
			swapIn(T, c("baz", 90_000), hop(3, "foo"), hop(5, "uosmo")),
			&pmtypes.MsgSwapExactAmountOut{Sender: T, Routes: []pmtypes.SwapAmountOutRoute{{PoolId: 4, TokenInDenom: "usdc"}}, TokenOut: c("eth", 1_000), TokenInMaxAmount: sdkmath.NewInt(1 << 40)},
		)},
		{Dt: 6 * time.Second, Txs: append(one(
			&gammtypes.MsgJoinPool{Sender: B, PoolId: 1, ShareOutAmount: sdkmath.NewIntWithDecimal(10, 18), TokenInMaxs: []sdk.Coin{c("bar", 2_000_000), c("foo", 1_000_000)}},
			&gammtypes.MsgJoinSwapExternAmountIn{Sender: C, PoolId: 1, TokenIn: c("foo", 400_000), ShareOutMinAmount: sdkmath.OneInt()},
			&gammtypes.MsgExitPool{Sender: B, PoolId: 1, ShareInAmount: sdkmath.NewIntWithDecimal(2, 18), TokenOutMins: []sdk.Coin{}},
			&lockuptypes.MsgLockTokens{Owner: B, Duration: 24 * time.Hour, Coins: sdk.NewCoins(sdk.NewCoin(share1, sdkmath.NewIntWithDecimal(5, 18)))},
			&lockuptypes.MsgLockTokens{Owner: C, Duration: 7 * 24 * time.Hour, Coins: sdk.NewCoins(sdk.NewCoin(share1, sdkmath.NewIntWithDecimal(1, 18)))},
			&lockuptypes.MsgLockTokens{Owner: A, Duration: 24 * time.Hour, Coins: sdk.NewCoins(c("foo", 1234))},
			&incentivestypes.MsgCreateGauge{IsPerpetual: false, Owner: A, DistributeTo: lockuptypes.QueryCondition{LockQueryType: lockuptypes.ByDuration, Denom: share1, Duration: time.Hour},
				Coins: sdk.NewCoins(c("uosmo", 3_000_000)), StartTime: core.GenesisTime, NumEpochsPaidOver: 3},
			&incentivestypes.MsgCreateGauge{IsPerpetual: true, Owner: B, DistributeTo: lockuptypes.QueryCondition{LockQueryType: lockuptypes.ByDuration, Denom: "foo", Duration: time.Hour},
				Coins: sdk.NewCoins(c("uosmo", 1_000_000), c("bar", 500_000)), StartTime: core.GenesisTime, NumEpochsPaidOver: 1},
			&tftypes.MsgCreateDenom{Sender: A, Subdenom: "gold"},
			&tftypes.MsgCreateDenom{Sender: B, Subdenom: "silver"},
			&tftypes.MsgMint{Sender: A, Amount: c(fd, 1_000_000), MintToAddress: A},
			&tftypes.MsgMint{Sender: A, Amount: c(fd, 500), MintToAddress: C},
			&tftypes.MsgBurn{Sender: A, Amount: c(fd, 100), BurnFromAddress: A},
			&tftypes.MsgSetDenomMetadata{Sender: A, Metadata: banktypes.Metadata{Description: "gold", Base: fd, Display: fd, Name: "gold", Symbol: "GLD",
				DenomUnits: []*banktypes.DenomUnit{{Denom: fd, Exponent: 0}}}},
			&tftypes.MsgForceTransfer{Sender: A, Amount: c(fd, 10), TransferFromAddress: C, TransferToAddress: B},
			&tftypes.MsgChangeAdmin{Sender: B, Denom: fd2, NewAdmin: C},
			&banktypes.MsgSend{FromAddress: A, ToAddress: C, Amount: sdk.NewCoins(c(fd, 77), c("foo", 5))},
			&pmtypes.MsgSetDenomPairTakerFee{Sender: A, DenomPairTakerFee: []pmtypes.DenomPairTakerFee{{TokenInDenom: "foo", TokenOutDenom: "bar", TakerFee: osmomath.MustNewDecFromStr("0.01")}}},
		),
			// an atomic bundle whose second message fails: everything in it must leave no trace
			[]sdk.Msg{
				&tftypes.MsgMint{Sender: A, Amount: c(fd, 31337), MintToAddress: B},
				&banktypes.MsgSend{FromAddress: C, ToAddress: A, Amount: sdk.NewCoins(c("nonexistent", 1))},
			},
		)},
		{Dt: 5 * time.Second, Txs: one(
			swapIn(T, c("foo", 300_000), hop(1, "bar")),
			swapIn(T, c("baz", 50_000), hop(3, "foo"), hop(1, "bar"), hop(2, "uosmo")),
			swapIn(T, c("bar", 70_000), hop(1, "foo"), hop(5, "uosmo")),
			&pmtypes.MsgSplitRouteSwapExactAmountIn{Sender: T, TokenInDenom: "foo", TokenOutMinAmount: sdkmath.OneInt(), Routes: []pmtypes.SwapAmountInSplitRoute{
				{Pools: []pmtypes.SwapAmountInRoute{hop(5, "uosmo")}, TokenInAmount: sdkmath.NewInt(40_000)},
				{Pools: []pmtypes.SwapAmountInRoute{hop(1, "bar"), hop(2, "uosmo")}, TokenInAmount: sdkmath.NewInt(60_000)}}},
			swapIn(T, c("usdc", 900_000_000), hop(4, "eth")),
			&cltypes.MsgCollectSpreadRewards{PositionIds: []uint64{1}, Sender: A},
		)},
		// epoch boundary: mint, incentives distribution, txfees/taker-fee processing, superfluid, twap pruning
		{Dt: day, Txs: one(
			&cltypes.MsgCollectSpreadRewards{PositionIds: []uint64{2}, Sender: B},
			&cltypes.MsgCollectIncentives{PositionIds: []uint64{1}, Sender: A},
			&lockuptypes.MsgBeginUnlocking{Owner: B, ID: 1, Coins: sdk.NewCoins(sdk.NewCoin(share1, sdkmath.NewIntWithDecimal(2, 18)))},
			&incentivestypes.MsgAddToGauge{Owner: A, GaugeId: 1, Rewards: sdk.NewCoins(c("uosmo", 999))},
			swapIn(T, c("foo", 123_456), hop(1, "bar")),
		)},
		{Dt: day, Txs: one(
			&cltypes.MsgWithdrawPosition{PositionId: 2, Sender: B, LiquidityAmount: osmomath.MustNewDecFromStr("1000000")},
			&lockuptypes.MsgBeginUnlockingAll{Owner: C},
			swapIn(T, c("uosmo", 5_000), hop(2, "bar")),
			&gammtypes.MsgExitPool{Sender: C, PoolId: 1, ShareInAmount: sdkmath.NewIntWithDecimal(1, 17), TokenOutMins: []sdk.Coin{}},
		)},
		{Dt: 8 * 24 * time.Hour, Txs: one(
			swapIn(T, c("foo", 1_000), hop(1, "bar")),
		)},
	}}
	// taker-fee share agreements: kept apart from "dex" because the poolmanager genesis does not carry
	// them (known finding), which makes every later block of an imported node diverge
	skim := Script{Name: "skim", Blocks: []Block{
		{Dt: 5 * time.Second, Txs: one(
			balancerPool(A, c("foo", 5_000_000), c("bar", 10_000_000), 1, 1, "0.003"),
			balancerPool(A, c("bar", 8_000_000), c("uosmo", 4_000_000), 1, 4, "0"),
			&pmtypes.MsgSetTakerFeeShareAgreementForDenom{Sender: govAddr(), Denom: "bar", SkimPercent: osmomath.MustNewDecFromStr("0.1"), SkimAddress: C},
			&pmtypes.MsgSetTakerFeeShareAgreementForDenom{Sender: govAddr(), Denom: "foo", SkimPercent: osmomath.MustNewDecFromStr("0.05"), SkimAddress: B},
		)},
		{Dt: 5 * time.Second, Txs: append(one(
			swapIn(T, c("foo", 300_000), hop(1, "bar")),
			swapIn(T, c("foo", 200_000), hop(1, "bar"), hop(2, "uosmo")),
		),
			// a governance bundle that is reverted as a whole
			[]sdk.Msg{
				&pmtypes.MsgSetTakerFeeShareAgreementForDenom{Sender: govAddr(), Denom: "baz", SkimPercent: osmomath.MustNewDecFromStr("0.2"), SkimAddress: A},
				&banktypes.MsgSend{FromAddress: C, ToAddress: A, Amount: sdk.NewCoins(c("nonexistent", 1))},
			},
		)},
		{Dt: day, Txs: one(swapIn(T, c("bar", 100_000), hop(1, "foo")))},
		{Dt: 5 * time.Second, Txs: one(swapIn(T, c("foo", 100_000), hop(1, "bar")))},
	}}
	// superfluid staking, validator-set preferences, plain staking and distribution
	val0, val1 := core.ValAddr(0).String(), core.ValAddr(1).String()
	unbond := 3 * time.Hour
	week := 8 * 24 * time.Hour
	shares := func(n int64) sdk.Coins { return sdk.NewCoins(sdk.NewCoin("gamm/pool/1", sdkmath.NewIntWithDecimal(n, 18))) }
	sf := Script{Name: "sf", Blocks: []Block{
		{Dt: 5 * time.Second, Txs: one(
			balancerPool(A, c("foo", 50_000_000), c("stake", 20_000_000), 1, 1, "0.003"),
			&gammtypes.MsgJoinPool{Sender: B, PoolId: 1, ShareOutAmount: sdkmath.NewIntWithDecimal(30, 18), TokenInMaxs: []sdk.Coin{c("foo", 50_000_000), c("stake", 50_000_000)}},
		)},
		{Dt: 5 * time.Second,
			Pre: func(n *Node) {
				if err := n.Env.App.SuperfluidKeeper.AddNewSuperfluidAsset(n.Ctx, sftypes.SuperfluidAsset{Denom: "gamm/pool/1", AssetType: sftypes.SuperfluidAssetTypeLPShare}); err != nil {
					panic(err)
				}
			},
			Txs: one(
				&sftypes.MsgLockAndSuperfluidDelegate{Sender: A, Coins: shares(10), ValAddr: val0},
				&lockuptypes.MsgLockTokens{Owner: B, Duration: unbond, Coins: shares(7)},
				&sftypes.MsgSuperfluidDelegate{Sender: B, LockId: 2, ValAddr: val1},
				&lockuptypes.MsgLockTokens{Owner: B, Duration: unbond, Coins: shares(3)},
				&stakingtypes.MsgDelegate{DelegatorAddress: C, ValidatorAddress: val0, Amount: c("stake", 1_000_000)},
				&valsettypes.MsgSetValidatorSetPreference{Delegator: C, Preferences: []valsettypes.ValidatorPreference{
					{ValOperAddress: val0, Weight: osmomath.MustNewDecFromStr("0.3")}, {ValOperAddress: val1, Weight: osmomath.MustNewDecFromStr("0.7")}}},
				&valsettypes.MsgDelegateToValidatorSet{Delegator: C, Coin: c("stake", 2_000_001)},
			)},
		{Dt: week, Txs: one(
			swapIn(T, c("foo", 5_000_000), hop(1, "stake")),
			&sftypes.MsgSuperfluidUndelegate{Sender: A, LockId: 1},
			&distrtypes.MsgWithdrawDelegatorReward{DelegatorAddress: C, ValidatorAddress: val0},
		)},
		{Dt: week, Txs: one(
			&sftypes.MsgSuperfluidUnbondLock{Sender: A, LockId: 1},
			&lockuptypes.MsgLockTokens{Owner: B, Duration: unbond, Coins: shares(1)},
			&valsettypes.MsgUndelegateFromRebalancedValidatorSet{Delegator: C, Coin: c("stake", 500_000)},
			&stakingtypes.MsgUndelegate{DelegatorAddress: C, ValidatorAddress: val0, Amount: c("stake", 250_000)},
		)},
		{Dt: 22 * 24 * time.Hour, Txs: one(
			&sftypes.MsgSuperfluidUndelegate{Sender: B, LockId: 2},
			swapIn(T, c("stake", 100_000), hop(1, "foo")),
		)},
		{Dt: 5 * time.Second, Txs: one(swapIn(T, c("foo", 1_000), hop(1, "stake")))},
	}}
	return []Script{dex, skim, sf}
}
