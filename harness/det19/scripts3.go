package main

import (
	"time"

	sdkmath "cosmossdk.io/math"
	"github.com/cosmos/cosmos-sdk/crypto/keys/ed25519"
	"github.com/cosmos/cosmos-sdk/crypto/keys/secp256k1"
	sdk "github.com/cosmos/cosmos-sdk/types"
	"github.com/cosmos/cosmos-sdk/x/authz"
	banktypes "github.com/cosmos/cosmos-sdk/x/bank/types"
	distrtypes "github.com/cosmos/cosmos-sdk/x/distribution/types"
	govv1 "github.com/cosmos/cosmos-sdk/x/gov/types/v1"
	govv1beta1 "github.com/cosmos/cosmos-sdk/x/gov/types/v1beta1"
	stakingtypes "github.com/cosmos/cosmos-sdk/x/staking/types"

	gammtypes "github.com/osmosis-labs/osmosis/v31/x/gamm/types"
	pitypes "github.com/osmosis-labs/osmosis/v31/x/pool-incentives/types"
	pmtypes "github.com/osmosis-labs/osmosis/v31/x/poolmanager/types"
	protorevtypes "github.com/osmosis-labs/osmosis/v31/x/protorev/types"
	smartaccounttypes "github.com/osmosis-labs/osmosis/v31/x/smart-account/types"
	txfeestypes "github.com/osmosis-labs/osmosis/v31/x/txfees/types"

	"github.com/osmosis-labs/osmosis/v31/zzverif/core"
)

// ------------------------------------------------------------------------------------------------
// prot: protorev administration messages, swaps that the protorev post-handler backruns with a cyclic
// arbitrage, profit distribution at the epoch, txfees fee tokens and the epoch conversion of fees paid
// in a non-native denom.
// Pool ids: 1 balancer uosmo/foo, 2 balancer foo/bar, 3 balancer bar/uosmo, 4 balancer stake/foo.
// ------------------------------------------------------------------------------------------------
func scriptProt() Script {
	A, B, T := acc("A"), acc("B"), acc("T")
	day := 24*time.Hour + time.Minute
	big := int64(1_000_000_000)
	trade := func(pool uint64, in, out string) protorevtypes.Trade {
		return protorevtypes.Trade{Pool: pool, TokenIn: in, TokenOut: out}
	}
	hot := func(step int64) []protorevtypes.TokenPairArbRoutes {
		return []protorevtypes.TokenPairArbRoutes{
			{TokenIn: "foo", TokenOut: "bar", ArbRoutes: []protorevtypes.Route{{StepSize: sdkmath.NewInt(step),
				Trades: []protorevtypes.Trade{trade(3, "uosmo", "bar"), trade(0, "bar", "foo"), trade(1, "foo", "uosmo")}}}},
			{TokenIn: "bar", TokenOut: "foo", ArbRoutes: []protorevtypes.Route{{StepSize: sdkmath.NewInt(step),
				Trades: []protorevtypes.Trade{trade(1, "uosmo", "foo"), trade(0, "foo", "bar"), trade(3, "bar", "uosmo")}}}},
		}
	}
	info := protorevtypes.DefaultPoolTypeInfo
	info.Balancer.Weight = 3
	info.Stable.Weight = 6
	return Script{Name: "prot", Blocks: []Block{
		{Dt: 5 * time.Second, Post: true,
			Pre: func(n *Node) {
				n.Env.App.ProtoRevKeeper.SetAdminAccount(n.Ctx, core.Acc("A"))
				// profit accounting "since height 1" starts from a non-empty snapshot, as on a chain where an upgrade
				// started it (an empty snapshot does not survive export/import: script "arbtrack")
				n.Env.App.ProtoRevKeeper.SetCyclicArbProfitTrackerValue(n.Ctx, sdk.NewCoins(c("uosmo", 1)))
				p := n.Env.App.TxFeesKeeper.GetParams(n.Ctx)
				p.WhitelistedFeeTokenSetters = []string{acc("A")}
				n.Env.App.TxFeesKeeper.SetParams(n.Ctx, p)
			},
			Txs: one(
				balancerPool(A, c("uosmo", big), c("foo", big), 1, 1, "0.002"),
				balancerPool(A, c("foo", big), c("bar", big), 1, 1, "0.002"),
				balancerPool(A, c("bar", big), c("uosmo", big), 1, 1, "0.002"),
				balancerPool(A, c("stake", big), c("foo", big), 1, 1, "0.002"),
				&protorevtypes.MsgSetDeveloperAccount{Admin: A, DeveloperAccount: B},
				&protorevtypes.MsgSetMaxPoolPointsPerTx{Admin: A, MaxPoolPointsPerTx: 20},
				&protorevtypes.MsgSetMaxPoolPointsPerBlock{Admin: A, MaxPoolPointsPerBlock: 120},
				&protorevtypes.MsgSetInfoByPoolType{Admin: A, InfoByPoolType: info},
				&protorevtypes.MsgSetBaseDenoms{Admin: A, BaseDenoms: []protorevtypes.BaseDenom{
					{Denom: "uosmo", StepSize: sdkmath.NewInt(1_000_000)}, {Denom: "stake", StepSize: sdkmath.NewInt(500_000)}}},
				&protorevtypes.MsgSetHotRoutes{Admin: A, HotRoutes: hot(1_000_000)},
				&txfeestypes.MsgSetFeeTokens{Sender: A, FeeTokens: []txfeestypes.FeeToken{{Denom: "foo", PoolID: 4}}},
				swapIn(T, c("foo", 40_000_000), hop(2, "bar")),
			)},
		// day epoch: protorev refreshes its highest-liquidity pools for the base denoms
		{Dt: day, Post: true,
			Pre: func(n *Node) {
				// a transaction fee paid in the fee token foo (the ante handler sends it to this collector)
				must(n.Env.App.BankKeeper.SendCoinsFromAccountToModule(n.Ctx, core.Acc("T"), txfeestypes.NonNativeTxFeeCollectorName, sdk.NewCoins(c("foo", 250_000))))
			},
			Txs: one(
				swapIn(T, c("foo", 30_000_000), hop(2, "bar")),
				swapIn(T, c("bar", 90_000_000), hop(2, "foo")),
				swapIn(T, c("uosmo", 20_000_000), hop(1, "foo")),
			)},
		// day epoch: protorev profits are distributed, the non-native fees are swapped to the base denom
		{Dt: day, Post: true, Txs: one(
			swapIn(T, c("foo", 25_000_000), hop(1, "uosmo"), hop(3, "bar")),
			&protorevtypes.MsgSetHotRoutes{Admin: A, HotRoutes: hot(2_000_000)[:1]},
			&protorevtypes.MsgSetMaxPoolPointsPerTx{Admin: A, MaxPoolPointsPerTx: 18},
		)},
		{Dt: day, Post: true, Txs: one(
			swapIn(T, c("foo", 35_000_000), hop(2, "bar")),
			swapIn(T, c("stake", 15_000_000), hop(4, "foo")),
		)},
		{Dt: 5 * time.Second, Post: true, Txs: one(
			swapIn(T, c("bar", 20_000_000), hop(2, "foo")),
		)},
	}}
}

// ------------------------------------------------------------------------------------------------
// gov: governance (v1 and v1beta1 messages; one proposal with messages and two with legacy content
// pass in an EndBlocker, one is rejected, one is cancelled), authz (grant / exec / revoke), bank
// multi-send, distribution, the remaining staking messages (redelegate, cancel unbonding, create and
// edit validator) and smart-account authenticators.
// Pool id 1: balancer stake/foo (gauges 1-3).
// ------------------------------------------------------------------------------------------------
func scriptGov() Script {
	A, B, C, T := acc("A"), acc("B"), acc("C"), acc("T")
	val0, val1 := core.ValAddr(0).String(), core.ValAddr(1).String()
	valT := sdk.ValAddress(core.Acc("T")).String()
	gov := govAddr()
	twoDays := 48*time.Hour + time.Minute
	exp := core.GenesisTime.Add(400 * 24 * time.Hour)
	grantSend, err := authz.NewMsgGrant(core.Acc("A"), core.Acc("B"), authz.NewGenericAuthorization(sdk.MsgTypeURL(&banktypes.MsgSend{})), &exp)
	must(err)
	grantLimited, err := authz.NewMsgGrant(core.Acc("C"), core.Acc("B"), banktypes.NewSendAuthorization(sdk.NewCoins(c("foo", 1_000)), nil), &exp)
	must(err)
	grantSwap, err := authz.NewMsgGrant(core.Acc("A"), core.Acc("T"), authz.NewGenericAuthorization(sdk.MsgTypeURL(&pmtypes.MsgSwapExactAmountIn{})), nil)
	must(err)
	exec1 := authz.NewMsgExec(core.Acc("B"), []sdk.Msg{&banktypes.MsgSend{FromAddress: A, ToAddress: T, Amount: sdk.NewCoins(c("bar", 4_321))}})
	exec2 := authz.NewMsgExec(core.Acc("B"), []sdk.Msg{&banktypes.MsgSend{FromAddress: C, ToAddress: T, Amount: sdk.NewCoins(c("foo", 600))}})
	exec3 := authz.NewMsgExec(core.Acc("T"), []sdk.Msg{swapIn(A, c("foo", 50_000), hop(1, "stake"))})
	exec5 := authz.NewMsgExec(core.Acc("B"), []sdk.Msg{&banktypes.MsgSend{FromAddress: C, ToAddress: T, Amount: sdk.NewCoins(c("foo", 300))}})
	revoke := authz.NewMsgRevoke(core.Acc("A"), core.Acc("B"), sdk.MsgTypeURL(&banktypes.MsgSend{}))
	exec4 := authz.NewMsgExec(core.Acc("B"), []sdk.Msg{&banktypes.MsgSend{FromAddress: A, ToAddress: T, Amount: sdk.NewCoins(c("bar", 1))}})

	// proposal 1 (v1): community pool spend + re-activating smart accounts + a distribution parameter change
	dp := distrtypes.DefaultParams()
	dp.CommunityTax = dec("0.03")
	p1, err := govv1.NewMsgSubmitProposal([]sdk.Msg{
		&distrtypes.MsgCommunityPoolSpend{Authority: gov, Recipient: B, Amount: sdk.NewCoins(c("uosmo", 123_456))},
		&smartaccounttypes.MsgSetActiveState{Sender: gov, Active: true},
		&distrtypes.MsgUpdateParams{Authority: gov, Params: dp},
	}, sdk.NewCoins(c("stake", 4_000_000)), A, "meta", "spend", "spend from the community pool", false)
	must(err)
	// proposals 2 and 3 (v1beta1, legacy content): pool-incentives distribution records, txfees fee token
	p2, err := govv1beta1.NewMsgSubmitProposal(&pitypes.UpdatePoolIncentivesProposal{Title: "incentives", Description: "pool 1 gets minted incentives",
		Records: []pitypes.DistrRecord{{GaugeId: 1, Weight: sdkmath.NewInt(70)}, {GaugeId: 3, Weight: sdkmath.NewInt(30)}}},
		sdk.NewCoins(c("stake", 10_000_000)), core.Acc("B"))
	must(err)
	p3, err := govv1beta1.NewMsgSubmitProposal(&txfeestypes.UpdateFeeTokenProposal{Title: "fee token", Description: "foo pays fees",
		Feetokens: []txfeestypes.FeeToken{{Denom: "foo", PoolID: 1}}}, sdk.NewCoins(c("stake", 10_000_000)), core.Acc("B"))
	must(err)
	// proposal 4 (v1, text only): rejected; proposal 5: cancelled by its proposer
	p4, err := govv1.NewMsgSubmitProposal(nil, sdk.NewCoins(c("stake", 10_000_000)), A, "text", "text", "a text proposal that is voted down", false)
	must(err)
	p5, err := govv1.NewMsgSubmitProposal(nil, sdk.NewCoins(c("stake", 2_000_000)), T, "text", "cancel me", "cancelled before voting", false)
	must(err)

	pkT := ed25519.GenPrivKeyFromSecret([]byte("verif-validator-of-T")).PubKey()
	createVal, err := stakingtypes.NewMsgCreateValidator(valT, pkT, c("stake", 3_000_000), stakingtypes.Description{Moniker: "t"},
		stakingtypes.NewCommissionRates(dec("0.1"), dec("0.2"), dec("0.01")), sdkmath.OneInt())
	must(err)
	newRate := dec("0.105")
	sk1 := secp256k1.GenPrivKeyFromSecret([]byte("verif-auth-1")).PubKey().Bytes()
	sk2 := secp256k1.GenPrivKeyFromSecret([]byte("verif-auth-2")).PubKey().Bytes()

	return Script{Name: "gov", Blocks: []Block{
		{Dt: 5 * time.Second,
			Pre: func(n *Node) {
				p := n.Env.App.SmartAccountKeeper.GetParams(n.Ctx)
				p.CircuitBreakerControllers = []string{acc("A")}
				n.Env.App.SmartAccountKeeper.SetParams(n.Ctx, p)
			},
			Txs: one(
				balancerPool(A, c("stake", 20_000_000), c("foo", 50_000_000), 1, 1, "0.003"),
				&stakingtypes.MsgDelegate{DelegatorAddress: C, ValidatorAddress: val0, Amount: c("stake", 9_000_000)},
				&stakingtypes.MsgDelegate{DelegatorAddress: A, ValidatorAddress: val1, Amount: c("stake", 1_000_000)},
				createVal,
				banktypes.NewMsgMultiSend(banktypes.NewInput(core.Acc("A"), sdk.NewCoins(c("foo", 300), c("bar", 50))),
					[]banktypes.Output{banktypes.NewOutput(core.Acc("B"), sdk.NewCoins(c("foo", 100), c("bar", 50))), banktypes.NewOutput(core.Acc("C"), sdk.NewCoins(c("foo", 200)))}),
				grantSend, grantLimited, grantSwap,
				&exec1, &exec2, &exec3,
				&distrtypes.MsgSetWithdrawAddress{DelegatorAddress: C, WithdrawAddress: B},
				&distrtypes.MsgFundCommunityPool{Amount: sdk.NewCoins(c("uosmo", 5_000_000)), Depositor: A},
				&smartaccounttypes.MsgAddAuthenticator{Sender: A, AuthenticatorType: "SignatureVerification", Data: sk1},
				&smartaccounttypes.MsgAddAuthenticator{Sender: A, AuthenticatorType: "SignatureVerification", Data: sk2},
				&smartaccounttypes.MsgAddAuthenticator{Sender: B, AuthenticatorType: "SignatureVerification", Data: sk1},
				&smartaccounttypes.MsgRemoveAuthenticator{Sender: A, Id: 1},
			)},
		{Dt: 5 * time.Second, Txs: one(
			p1, p2, p3, p4, p5,
			govv1.NewMsgDeposit(core.Acc("B"), 1, sdk.NewCoins(c("stake", 6_000_000))),
			govv1beta1.NewMsgDeposit(core.Acc("T"), 1, sdk.NewCoins(c("stake", 100_000))),
			govv1.NewMsgVote(core.Acc("C"), 1, govv1.OptionYes, ""),
			govv1beta1.NewMsgVote(core.Acc("C"), 2, govv1beta1.OptionYes),
			govv1.NewMsgVote(core.Acc("C"), 3, govv1.OptionYes, "m"),
			govv1.NewMsgVote(core.Acc("C"), 4, govv1.OptionNo, ""),
			govv1.NewMsgVoteWeighted(core.Acc("A"), 1, govv1.WeightedVoteOptions{
				{Option: govv1.OptionYes, Weight: "0.6"}, {Option: govv1.OptionAbstain, Weight: "0.4"}}, ""),
			govv1beta1.NewMsgVoteWeighted(core.Acc("A"), 4, govv1beta1.WeightedVoteOptions{
				{Option: govv1beta1.OptionNo, Weight: dec("0.5")}, {Option: govv1beta1.OptionNoWithVeto, Weight: dec("0.5")}}),
			govv1.NewMsgCancelProposal(5, T),
			&smartaccounttypes.MsgSetActiveState{Sender: A, Active: false},
			&stakingtypes.MsgBeginRedelegate{DelegatorAddress: C, ValidatorSrcAddress: val0, ValidatorDstAddress: val1, Amount: c("stake", 1_500_000)},
			&stakingtypes.MsgUndelegate{DelegatorAddress: C, ValidatorAddress: val0, Amount: c("stake", 700_000)},
			stakingtypes.NewMsgCancelUnbondingDelegation(C, val0, 3, c("stake", 300_000)),
			&distrtypes.MsgDepositValidatorRewardsPool{Depositor: A, ValidatorAddress: valT, Amount: sdk.NewCoins(c("stake", 900_000))},
			stakingtypes.NewMsgEditValidator(valT, stakingtypes.Description{Moniker: "tee", Details: "d"}, nil, nil),
		)},
		// the voting period ends: proposals 1-3 pass and are executed in the EndBlocker, proposal 4 is rejected
		{Dt: twoDays, Txs: one(
			&distrtypes.MsgWithdrawValidatorCommission{ValidatorAddress: valT},
			&distrtypes.MsgWithdrawDelegatorReward{DelegatorAddress: C, ValidatorAddress: val0},
			&revoke,
			&exec4, // fails: the grant was revoked
			stakingtypes.NewMsgEditValidator(valT, stakingtypes.Description{Moniker: "tee", Details: "dd"}, &newRate, nil),
		)},
		// the proposals' effects are visible: smart accounts are active again, the fee token exists
		{Dt: 8 * 24 * time.Hour, Txs: one(
			&smartaccounttypes.MsgAddAuthenticator{Sender: C, AuthenticatorType: "SignatureVerification", Data: sk2},
			swapIn(T, c("stake", 40_000), hop(1, "foo")),
			&gammtypes.MsgJoinSwapExternAmountIn{Sender: C, PoolId: 1, TokenIn: c("foo", 400_000), ShareOutMinAmount: sdkmath.OneInt()},
			&exec5, // within the remaining spend limit
		)},
		{Dt: 5 * time.Second, Txs: one(
			&banktypes.MsgSend{FromAddress: B, ToAddress: C, Amount: sdk.NewCoins(c("uosmo", 5))},
			&distrtypes.MsgWithdrawDelegatorReward{DelegatorAddress: C, ValidatorAddress: val1},
		)},
	}}
}

// arbtrack: protorev makes its first profits on a chain whose profit snapshot ("cyclic arb tracker") is empty.
func scriptArbTrack() Script {
	A, T := acc("A"), acc("T")
	day := 24*time.Hour + time.Minute
	big := int64(1_000_000_000)
	return Script{Name: "arbtrack", Blocks: []Block{
		{Dt: 5 * time.Second, Post: true, Txs: one(
			balancerPool(A, c("uosmo", big), c("foo", big), 1, 1, "0.002"),
			balancerPool(A, c("foo", big), c("bar", big), 1, 1, "0.002"),
			balancerPool(A, c("bar", big), c("uosmo", big), 1, 1, "0.002"),
		)},
		{Dt: day, Post: true, Txs: one(swapIn(T, c("foo", 40_000_000), hop(2, "bar")))},
		{Dt: 5 * time.Second, Post: true, Txs: one(swapIn(T, c("bar", 1_000_000), hop(2, "foo")))},
	}}
}

func moreScripts3() []Script {
	return []Script{scriptProt(), scriptGov(), scriptArbTrack()}
}
