// Command det19 decides C19: state is a deterministic function of history and survives
// export/import. See DESIGN.md §5 C19.
package main

import (
	"bytes"
	"crypto/sha256"
	"encoding/hex"
	"encoding/json"
	"fmt"
	"os"
	"sort"
	"strings"
	"time"

	abci "github.com/cometbft/cometbft/abci/types"
	sdk "github.com/cosmos/cosmos-sdk/types"

	"github.com/osmosis-labs/osmosis/osmomath"

	stakingtypes "github.com/cosmos/cosmos-sdk/x/staking/types"

	"github.com/osmosis-labs/osmosis/v31/app"
	cltypes "github.com/osmosis-labs/osmosis/v31/x/concentrated-liquidity/types"
	pmtypes "github.com/osmosis-labs/osmosis/v31/x/poolmanager/types"
	protorevkeeper "github.com/osmosis-labs/osmosis/v31/x/protorev/keeper"

	"github.com/osmosis-labs/osmosis/v31/zzverif/core"
)

type Node struct {
	Env *core.Env
	Ctx sdk.Context
	// AfterBegin, when set, runs once in the next block, after its BeginBlock and before its first transaction
	AfterBegin func(n *Node)
}

func genesisNode() *Node { return newNode(Script{}) }

// newNode builds the base state a script starts from.
func newNode(sc Script) *Node {
	nv := sc.Validators
	if nv == 0 {
		nv = 2
	}
	big := "1000000000000000000000"
	fund := core.Coins("foo", big, "bar", big, "baz", big, "uosmo", big, "eth", big, "usdc", big, "stake", big)
	env := core.NewEnv(core.GenesisOpts{Balances: map[string]sdk.Coins{"A": fund, "B": fund, "C": fund, "T": fund}, NumValidators: nv,
		Mutate: func(a *app.OsmosisApp, gs app.GenesisState) {
			// superfluid locks must last the staking unbonding time, which must be one of the lockable durations
			var sg stakingtypes.GenesisState
			a.AppCodec().MustUnmarshalJSON(gs[stakingtypes.ModuleName], &sg)
			sg.Params.UnbondingTime = 3 * time.Hour
			gs[stakingtypes.ModuleName] = a.AppCodec().MustMarshalJSON(&sg)
		}})
	a, ctx := env.App, env.Ctx
	p := cltypes.DefaultParams()
	p.IsPermissionlessPoolCreationEnabled = true
	p.AuthorizedUptimes = []time.Duration{time.Nanosecond, time.Minute}
	a.ConcentratedLiquidityKeeper.SetParams(ctx, p)
	qd := append(pmtypes.DefaultParams().AuthorizedQuoteDenoms, "usdc", "eth", "foo")
	a.PoolManagerKeeper.SetParam(ctx, pmtypes.KeyAuthorizedQuoteDenoms, qd)
	pp := a.PoolManagerKeeper.GetParams(ctx)
	pp.TakerFeeParams.DefaultTakerFee = osmomath.MustNewDecFromStr("0.001")
	pp.TakerFeeParams.AdminAddresses = []string{core.Acc("A").String()}
	a.PoolManagerKeeper.SetParams(ctx, pp)
	// the genesis block runs InitGenesis at height 0, which protorev reads as "tracker start height unset";
	// give it a definite value so that the base state is one a running chain could be in
	a.ProtoRevKeeper.SetCyclicArbProfitTrackerStartHeight(ctx, 1)
	c, _ := ctx.CacheContext()
	return &Node{Env: env, Ctx: c.WithExecMode(sdk.ExecModeFinalize)}
}

func h(b []byte) string {
	s := sha256.Sum256(b)
	return hex.EncodeToString(s[:8])
}

func eventsDigest(evs []abci.Event) string {
	var sb strings.Builder
	for _, e := range evs {
		sb.WriteString(e.Type)
		sb.WriteByte('{')
		for _, a := range e.Attributes {
			sb.WriteString(a.Key)
			sb.WriteByte('=')
			sb.WriteString(a.Value)
			sb.WriteByte(';')
		}
		sb.WriteByte('}')
	}
	return sb.String()
}

// Step records are compared verbatim between nodes.
type Step struct {
	What   string `json:"what"`
	Result string `json:"result"`
	Events string `json:"events"`
}

func stripNums(s string) string {
	return s
}

// errClass is the stable class of an error text: digits and quoted/bech32 payloads removed, clipped.
func errClass(s string) string {
	var sb strings.Builder
	prevDigit := false
	for _, r := range s {
		if r >= '0' && r <= '9' {
			if !prevDigit {
				sb.WriteByte('#')
			}
			prevDigit = true
			continue
		}
		prevDigit = false
		sb.WriteRune(r)
	}
	out := sb.String()
	if i := strings.Index(out, ":"); i > 0 && i < 120 {
		// "panic in InitChain: <first clause>" - keep two clauses
		if j := strings.Index(out[i+1:], ":"); j > 0 {
			out = out[:i+1+j]
		}
	}
	if len(out) > 140 {
		out = out[:140]
	}
	return out
}

func (n *Node) deliverTx(msgs []sdk.Msg) Step {
	a := n.Env.App
	child, write := n.Ctx.CacheContext()
	child = child.WithEventManager(sdk.NewEventManager())
	var names []string
	var datas []string
	failed := ""
	for _, m := range msgs {
		names = append(names, sdk.MsgTypeURL(m))
		r := core.Deliver(a, child, m)
		if !r.OK() {
			failed = r.Err.Error()
			break
		}
		datas = append(datas, h(r.Res.Data)+":"+eventsDigest(r.Res.Events))
	}
	st := Step{What: "tx " + strings.Join(names, "+")}
	if failed != "" {
		st.Result = "FAILED: " + failed
		return st
	}
	write()
	st.Result = "ok"
	st.Events = strings.Join(datas, "|")
	return st
}

// postHandle runs the protorev post-handler (cyclic-arbitrage backrun of the swaps the transaction made)
// exactly as the application's post-handler chain does after a delivered transaction.
func (n *Node) postHandle(success bool) (out string) {
	defer func() {
		if r := recover(); r != nil {
			out = fmt.Sprintf("panic: %v", r)
		}
	}()
	ctx := n.Ctx.WithEventManager(sdk.NewEventManager())
	dec := protorevkeeper.NewProtoRevDecorator(*n.Env.App.ProtoRevKeeper)
	_, err := dec.PostHandle(ctx, nil, false, success, func(c sdk.Context, _ sdk.Tx, _, _ bool) (sdk.Context, error) { return c, nil })
	return errStr(err) + ":" + eventsDigest(ctx.EventManager().ABCIEvents())
}

// RunBlock: BeginBlock(dt), transactions, EndBlock. Returns the steps and the full-store hash after the block.
func (n *Node) RunBlock(b Block) []Step {
	a := n.Env.App
	var steps []Step
	ctx, bb, err := safeBegin(n, b.Dt)
	n.Ctx = ctx
	steps = append(steps, Step{What: "begin", Result: errStr(err), Events: eventsDigest(bb)})
	if b.Pre != nil {
		b.Pre(n)
	}
	if n.AfterBegin != nil {
		// one-shot: something that happens in the process between this block's BeginBlock and its first transaction
		f := n.AfterBegin
		n.AfterBegin = nil
		f(n)
	}
	for _, tx := range b.Txs {
		st := n.deliverTx(tx)
		if b.Post {
			st.Events += "|post:" + n.postHandle(st.Result == "ok")
		}
		steps = append(steps, st)
	}
	ctx2, eb, err := safeEnd(n)
	n.Ctx = ctx2
	steps = append(steps, Step{What: "end", Result: errStr(err), Events: eventsDigest(eb)})
	hash := core.StateHash(a, n.Ctx, nil)
	steps = append(steps, Step{What: "state", Result: hex.EncodeToString(hash[:8])})
	return steps
}

// eventTypes summarises an events digest as "type×count" (debug output only).
func eventTypes(d string) string {
	cnt := map[string]int{}
	var order []string
	for _, part := range strings.Split(d, "}") {
		i := strings.Index(part, "{")
		if i < 0 {
			continue
		}
		t := part[:i]
		if j := strings.LastIndexAny(t, "|:"); j >= 0 {
			t = t[j+1:]
		}
		if cnt[t] == 0 {
			order = append(order, t)
		}
		cnt[t]++
	}
	var sb strings.Builder
	for _, t := range order {
		fmt.Fprintf(&sb, "%s×%d ", t, cnt[t])
	}
	return sb.String()
}

func asFloat(v interface{}) float64 {
	if f, ok := v.(float64); ok {
		return f
	}
	return 0
}

func errStr(err error) string {
	if err == nil {
		return "ok"
	}
	return "ERR: " + err.Error()
}

func safeBegin(n *Node, dt time.Duration) (ctx sdk.Context, evs []abci.Event, err error) {
	defer func() {
		if r := recover(); r != nil {
			err = fmt.Errorf("panic: %v", r)
			ctx = n.Ctx
		}
	}()
	c, bb, e := core.BeginBlock(n.Env.App, n.Ctx, dt)
	return c, bb.Events, e
}

func safeEnd(n *Node) (ctx sdk.Context, evs []abci.Event, err error) {
	defer func() {
		if r := recover(); r != nil {
			err = fmt.Errorf("panic: %v", r)
			ctx = n.Ctx
		}
	}()
	c, eb, e := core.EndBlock(n.Env.App, n.Ctx)
	return c, eb.Events, e
}

func (n *Node) Export() map[string]json.RawMessage {
	c, _ := n.Ctx.CacheContext()
	return n.Env.App.ExportState(c)
}

// tryExport is Export with a panic turned into an error (an export that panics is a finding, not a harness failure).
func (n *Node) tryExport() (g map[string]json.RawMessage, err error) {
	defer func() {
		if r := recover(); r != nil {
			err = fmt.Errorf("panic in ExportState: %v", r)
		}
	}()
	return n.Export(), nil
}

func runAll(n *Node, blocks []Block) [][]Step {
	var out [][]Step
	for _, b := range blocks {
		out = append(out, n.RunBlock(b))
	}
	return out
}

// diffSteps compares two executions of a block. For the determinism axes everything must be identical.
// For the export/import axis (imported=true) the statement demands the same transaction results and the
// same module state; the raw store bytes and the begin/end-block event lists (whose granularity depends
// on queue layouts that an import legitimately rebuilds, e.g. merged unbonding entries) are not compared
// there: their effects are compared through the final exports.
func diffSteps(a, b []Step, imported bool) string {
	if len(a) != len(b) {
		return fmt.Sprintf("different number of steps %d vs %d", len(a), len(b))
	}
	for i := range a {
		if imported && a[i].What == "state" {
			continue
		}
		if imported && (a[i].What == "begin" || a[i].What == "end") {
			if a[i].Result != b[i].Result {
				return fmt.Sprintf("step %d (%s): result %q vs %q", i, a[i].What, clip(a[i].Result), clip(b[i].Result))
			}
			continue
		}
		if a[i] != b[i] {
			return fmt.Sprintf("step %d (%s): result %q vs %q; events %s vs %s", i, a[i].What, clip(a[i].Result), clip(b[i].Result), clipDiff(a[i].Events, b[i].Events), "")
		}
	}
	return ""
}

func clip(s string) string {
	if len(s) > 300 {
		return s[:300] + "…"
	}
	return s
}

func clipDiff(a, b string) string {
	i := 0
	for i < len(a) && i < len(b) && a[i] == b[i] {
		i++
	}
	lo := i - 80
	if lo < 0 {
		lo = 0
	}
	ea, eb := i+160, i+160
	if ea > len(a) {
		ea = len(a)
	}
	if eb > len(b) {
		eb = len(b)
	}
	return fmt.Sprintf("first difference at byte %d: …%s… vs …%s…", i, a[lo:ea], b[lo:eb])
}

// diffExports compares two genesis exports module by module; returns the differing module names with a hint.
func diffExports(a, b map[string]json.RawMessage) []string {
	var names []string
	for k := range a {
		names = append(names, k)
	}
	for k := range b {
		if _, ok := a[k]; !ok {
			names = append(names, k)
		}
	}
	sort.Strings(names)
	var out []string
	for _, k := range names {
		if !bytes.Equal(canonJSON(a[k]), canonJSON(b[k])) {
			out = append(out, k+": "+clipDiff(string(canonJSON(a[k])), string(canonJSON(b[k]))))
		}
	}
	return out
}

func canonJSON(r json.RawMessage) []byte {
	var v interface{}
	if err := json.Unmarshal(r, &v); err != nil {
		return r
	}
	bz, _ := json.Marshal(v)
	return bz
}

type replayCfg struct {
	Script string `json:"script"`
	Axis   string `json:"axis"`
	K      int    `json:"k"`
	Dev    []int  `json:"deviation,omitempty"`
}

func main() {
	f := core.ParseFlags()
	r := core.NewResult(f.Prop)
	scripts := append(append(append(Scripts(), moreScripts()...), moreScripts3()...), moreScripts4()...)
	if haveMapHook {
		installMapHook()
	}
	only := replayCfg{K: -1}
	if f.Replay != "" {
		core.ReadReplay(f.Replay, &only)
	}
	// development aids (never set by bin/run): restrict the scripts / axes that are executed
	if v := os.Getenv("VERIF_DEV_SCRIPTS"); v != "" && f.Replay == "" {
		var keep []Script
		for _, sc := range scripts {
			if strings.Contains(","+v+",", ","+sc.Name+",") {
				keep = append(keep, sc)
			}
		}
		scripts = keep
	}
	axisOn := func(name string) bool {
		v := os.Getenv("VERIF_DEV_AXES")
		return v == "" || f.Replay != "" || strings.Contains(","+v+",", ","+name+",")
	}
	// coverage report (shard 0): what the workloads reach
	cov := newCoverage()
	doCov := f.Replay == "" && f.Shard == 0
	if doCov {
		b := genesisNode()
		cov.base(b)
		b.Env.Close()
	}
	item := 0
	for _, sc := range scripts {
		if f.Replay != "" && sc.Name != only.Script {
			continue
		}
		// Every shard executes every script's reference first (unhooked): separate processes must agree on its
		// digest, and the hooked executions of the map-order axis then start from the same warmed-up process
		// state in every shard (lazily initialised package-level tables iterate maps on first use), so that
		// all shards number the choice points identically.
		// reference execution
		ref := newNode(sc)
		var refSteps [][]Step
		for _, b := range sc.Blocks {
			refSteps = append(refSteps, ref.RunBlock(b))
			if doCov {
				cov.exportPoint(sc.Name, ref.Export())
			}
		}
		if os.Getenv("VERIF_DEBUG") == "2" {
			for bi, bs := range refSteps {
				for _, st := range bs {
					fmt.Printf("DBG %s block %d %s -> %s | %s\n", sc.Name, bi+1, st.What, clip(st.Result), eventTypes(st.Events))
				}
			}
		}
		if doCov {
			// events that must have happened for the new workloads to mean what they claim
			for _, bs := range refSteps {
				for _, st := range bs {
					r.Vacuity["epoch_ends"] += int64(strings.Count(st.Events, "epoch_end{"))
					r.Vacuity["protorev_backruns"] += int64(strings.Count(st.Events, "protorev_backrun{"))
					r.Vacuity["cl_incentives_collected"] += int64(strings.Count(st.Events, "collect_incentives{"))
					r.Vacuity["wasm_contract_executions"] += int64(strings.Count(st.Events, "execute{"))
					if strings.Contains(st.Result, "before send hook") {
						r.Vacuity["before_send_hook_refusals"]++
					}
				}
			}
			cov.txs(sc, refSteps)
			r.Vacuity["gov_proposals_passed"] += int64(cov.passedProposals(sc, ref))
		}
		okTx, failTx := 0, 0
		for _, bs := range refSteps {
			for _, s := range bs {
				if strings.HasPrefix(s.What, "tx ") {
					if s.Result == "ok" {
						okTx++
					} else {
						failTx++
						if os.Getenv("VERIF_DEBUG") != "" {
							fmt.Println("failed tx:", s.What, s.Result)
						}
					}
				}
			}
		}
		r.Vacuity["reference_txs_ok"] += int64(okTx)
		r.Vacuity["reference_txs_failed"] += int64(failTx)
		flat, _ := json.Marshal(refSteps)
		r.Extra["eq_reference_digest_"+sc.Name] = h(flat)
		if f.Shard == 0 {
			r.States += int64(len(sc.Blocks))
			r.Transitions += int64(okTx + failTx + 2*len(sc.Blocks))
			r.Traces++
			r.AddSample(map[string]interface{}{"script": sc.Name, "blocks": len(sc.Blocks), "first_block": refSteps[0][:3]})
		}
		ref.Env.Close()

		// axis "instance": a second application instance in the same process
		if (f.Replay == "" && f.Mine(item) && axisOn("instance")) || only.Axis == "instance" {
			n2 := newNode(sc)
			s2 := runAll(n2, sc.Blocks)
			for bi := range s2 {
				if d := diffSteps(refSteps[bi], s2[bi], false); d != "" {
					r.AddViolation(core.Violation{Property: f.Prop, Assertion: "c19.second-instance-identical", Signature: fmt.Sprintf("%s|block %d", sc.Name, bi),
						Detail: d, Replay: replayCfg{Script: sc.Name, Axis: "instance"}})
					break
				}
			}
			n2.Env.Close()
			r.Transitions += int64(okTx + failTx + 2*len(sc.Blocks))
			r.Traces++
			r.Vacuity["second_instance_runs"]++
		}
		item++

		// axis "prochist": the same committed history on a node whose PROCESS history differs - restarted at a block
		// boundary (keeper-level in-memory caches dropped, as a new process would start with), or having served
		// gas-estimation simulations of the next block's transactions (executed on a discarded branch)
		for k := 0; k+1 < len(sc.Blocks); k++ {
			for _, variant := range []string{"restart", "simulate", "simulate-mid"} {
				mine := (f.Replay == "" && f.Mine(item) && axisOn("prochist")) || (only.Axis == "prochist:"+variant && only.K == k)
				item++
				if !mine {
					continue
				}
				processHistoryAt(f, r, sc, refSteps, k, variant)
			}
		}

		// axis "export": export/import after every block
		for k := 0; k < len(sc.Blocks); k++ {
			mine := (f.Replay == "" && f.Mine(item) && axisOn("export")) || (only.Axis == "export" && only.K == k)
			item++
			if !mine {
				continue
			}
			exportImportAt(f, r, sc, refSteps, k)
		}
	}
	for _, sc := range scripts {
		if f.Replay != "" && sc.Name != only.Script {
			continue
		}
		if (f.Replay == "" && axisOn("clock")) || only.Axis == "clock" {
			clockAxis(f, r, sc, &only, &item)
		}
	}
	if (f.Replay == "" && axisOn("maporder")) || only.Axis == "maporder" || only.Axis == "maporder-ref" {
		mapOrderAxis(f, r, scripts, &only, &item)
	}
	if doCov {
		cov.report(r)
	}
	scanGoroutines(f, r)
	r.DepthCompleted = 0
	core.Finish(f, r)
}

// processHistoryAt replays blocks 0..k on a fresh node, then makes the node's process history differ from the
// reference node's without touching the store, and requires identical results and state for the remaining blocks.
func processHistoryAt(f *core.Flags, r *core.Result, sc Script, refSteps [][]Step, k int, variant string) {
	rp := replayCfg{Script: sc.Name, Axis: "prochist:" + variant, K: k}
	n := newNode(sc)
	defer n.Env.Close()
	for i := 0; i <= k; i++ {
		n.RunBlock(sc.Blocks[i])
	}
	switch variant {
	case "restart":
		// what constructing the keepers anew does to their in-memory state (the store is what a restarted node reloads)
		n.Env.App.PoolManagerKeeper.VerifDropCaches()
		r.Vacuity["process_history_restarts"]++
	case "simulate", "simulate-mid":
		sim := func(n *Node) {
			a := n.Env.App
			for _, tx := range sc.Blocks[k+1].Txs {
				func() {
					defer func() { _ = recover() }()
					child, _ := n.Ctx.CacheContext() // never written back
					child = child.WithExecMode(sdk.ExecModeSimulate).WithEventManager(sdk.NewEventManager())
					for _, m := range tx {
						if res := core.Deliver(a, child, m); !res.OK() {
							break
						}
					}
				}()
				r.Vacuity["process_history_discarded_simulations"]++
			}
		}
		if variant == "simulate" {
			sim(n) // between the blocks
		} else {
			n.AfterBegin = sim // while the next block is being executed: after its BeginBlock, before its transactions
		}
	}
	for i := k + 1; i < len(sc.Blocks); i++ {
		sb := n.RunBlock(sc.Blocks[i])
		sa := refSteps[i]
		r.Transitions += int64(len(sb))
		if d := diffSteps(sa, sb, false); d != "" {
			r.AddViolation(core.Violation{Property: f.Prop, Assertion: "c19.process-history-independent", Signature: sc.Name + "|" + variant + "|" + divergenceClass(sa, sb),
				Detail: fmt.Sprintf("%s after block %d (same store, different process memory), first divergence in block %d %s: %s", variant, k, i, firstDiffStep(sa, sb), d), Replay: rp})
			return
		}
	}
	r.Traces++
}

func exportImportAt(f *core.Flags, r *core.Result, sc Script, refSteps [][]Step, k int) {
	rp := replayCfg{Script: sc.Name, Axis: "export", K: k}
	// NOTE on ordering: the IBC 08-wasm light-client module keeps its store service in a package-level
	// global that is overwritten whenever an application is constructed, so only the most recently
	// constructed application in a process can export. Node A therefore runs to the end (and exports)
	// before node B is constructed.
	a := newNode(sc)
	for i := 0; i <= k; i++ {
		a.RunBlock(sc.Blocks[i])
	}
	g := a.Export()
	height, btime := a.Ctx.BlockHeight(), a.Ctx.BlockTime()
	aAtExport := snapshotStores(a)
	r.Vacuity["export_points"]++
	var stepsA [][]Step
	for i := k + 1; i < len(sc.Blocks); i++ {
		sa := a.RunBlock(sc.Blocks[i])
		stepsA = append(stepsA, sa)
		if d := diffSteps(refSteps[i], sa, false); d != "" {
			r.AddViolation(core.Violation{Property: f.Prop, Assertion: "c19.replay-identical", Signature: fmt.Sprintf("%s|block %d", sc.Name, i), Detail: d, Replay: rp})
		}
	}
	ga := a.Export()
	a.Env.Close()

	// Import as an operator would (genesis invariant assertion skipped) and run the registered invariants
	// as a separate, named oracle: a broken invariant is reported by its name and does not hide the
	// differential comparison that follows.
	// The import itself runs under a whole-schedule rotation of the map-iteration order (a different one
	// per export point): InitGenesis code that depends on it shows up as a difference from the exporting node.
	if haveMapHook {
		mo.idx, mo.devAt, mo.devAt2, mo.sched = 0, -1, -1, 1+k%8
		mo.log = mo.log[:0]
		mo.enabled = true
	}
	b, err := core.ImportNodeOpts(g, height, btime, true)
	if haveMapHook {
		mo.enabled = false
		mo.sched = 0
		r.Vacuity["imports_under_rotated_map_order"]++
		if float64(mo.idx) > asFloat(r.Extra["max_choice_points_during_import"]) {
			r.Extra["max_choice_points_during_import"] = float64(mo.idx)
		}
	}
	if err != nil {
		r.AddViolation(core.Violation{Property: f.Prop, Assertion: "c19.import-succeeds", Signature: sc.Name + "|" + errClass(err.Error()),
			Detail: fmt.Sprintf("export after block %d cannot be imported: %s", k, err.Error()), Replay: rp})
		return
	}
	defer b.Close()
	if msg := assertInvariants(b); msg != "" {
		name := msg
		if i := strings.Index(msg, " invariant"); i > 0 {
			name = msg[:i]
		}
		r.AddViolation(core.Violation{Property: f.Prop, Assertion: "c19.invariants-hold-after-import", Signature: sc.Name + "|" + strings.TrimSpace(name),
			Detail: fmt.Sprintf("export after block %d: %s", k, clip(msg)), Replay: rp})
	}
	bc, _ := b.Ctx.CacheContext()
	bn := &Node{Env: b, Ctx: bc.WithExecMode(sdk.ExecModeFinalize)}
	g2, err := bn.tryExport()
	if err != nil {
		r.AddViolation(core.Violation{Property: f.Prop, Assertion: "c19.imported-node-exports", Signature: sc.Name + "|" + errClass(err.Error()),
			Detail: fmt.Sprintf("the node imported from the export after block %d cannot export: %s", k, err.Error()), Replay: rp})
		return
	}
	sd := storeDiff(aAtExport, bn)
	if os.Getenv("VERIF_DEBUG") != "" {
		fmt.Printf("k=%d store differences after import: %v\n", k, sd)
	}
	for _, d := range diffExports(g, g2) {
		mod := strings.SplitN(d, ":", 2)[0]
		r.AddViolation(core.Violation{Property: f.Prop, Assertion: "c19.import-reports-same-module-state", Signature: sc.Name + "|" + mod,
			Detail: fmt.Sprintf("export after block %d, re-export after import differs in module %s", k, d), Replay: rp})
	}
	r.States++
	// same subsequent history on the imported node
	for i := k + 1; i < len(sc.Blocks); i++ {
		sb := bn.RunBlock(sc.Blocks[i])
		sa := stepsA[i-k-1]
		r.Transitions += int64(2 * len(sa))
		if d := diffSteps(sa, sb, true); d != "" {
			r.AddViolation(core.Violation{Property: f.Prop, Assertion: "c19.imported-node-same-results", Signature: sc.Name + "|" + divergenceClass(sa, sb),
				Detail: fmt.Sprintf("export point after block %d, first divergence in block %d %s: %s", k, i, firstDiffStepImported(sa, sb), d), Replay: rp})
			return
		}
	}
	if k+1 < len(sc.Blocks) {
		gb, err := bn.tryExport()
		if err != nil {
			r.AddViolation(core.Violation{Property: f.Prop, Assertion: "c19.imported-node-exports", Signature: sc.Name + "|" + errClass(err.Error()),
				Detail: fmt.Sprintf("the node imported from the export after block %d cannot export at the end of the script: %s", k, err.Error()), Replay: rp})
			return
		}
		if m := os.Getenv("VERIF_DEBUG_MODULE"); m != "" {
			fmt.Printf("DBG final export of %s on the exporting node: %s\nDBG final export of %s on the imported node: %s\n", m, canonJSON(ga[m]), m, canonJSON(gb[m]))
		}
		for _, d := range diffExports(ga, gb) {
			mod := strings.SplitN(d, ":", 2)[0]
			r.AddViolation(core.Violation{Property: f.Prop, Assertion: "c19.imported-node-same-final-state", Signature: sc.Name + "|" + mod,
				Detail: fmt.Sprintf("export point after block %d, final exports differ in module %s", k, d), Replay: rp})
		}
		r.Vacuity["continued_after_import"]++
	}
	r.Traces++
}

// snapshotStores copies the complete KV content of every persistent store.
func snapshotStores(n *Node) map[string]map[string]string {
	out := map[string]map[string]string{}
	keys := n.Env.App.GetKVStoreKey()
	for name, k := range keys {
		m := map[string]string{}
		it := n.Ctx.KVStore(k).Iterator(nil, nil)
		for ; it.Valid(); it.Next() {
			m[string(it.Key())] = string(it.Value())
		}
		it.Close()
		out[name] = m
	}
	return out
}

// storeDiff lists "store|first key byte (hex)|kind" for every key whose presence or value differs.
func storeDiff(a map[string]map[string]string, bn *Node) []string {
	b := snapshotStores(bn)
	set := map[string]int{}
	for name, am := range a {
		bm := b[name]
		for k, v := range am {
			bv, ok := bm[k]
			if !ok {
				set[fmt.Sprintf("%s|%x|missing-after-import", name, prefixOf(k))]++
			} else if bv != v {
				set[fmt.Sprintf("%s|%x|value-differs", name, prefixOf(k))]++
			}
		}
		for k := range bm {
			if _, ok := am[k]; !ok {
				set[fmt.Sprintf("%s|%x|extra-after-import", name, prefixOf(k))]++
			}
		}
	}
	var out []string
	for k, c := range set {
		out = append(out, fmt.Sprintf("%s(%d)", k, c))
	}
	sort.Strings(out)
	return out
}

func prefixOf(k string) string {
	if len(k) == 0 {
		return ""
	}
	// printable prefixes (most osmosis stores use ascii prefixes ending with a separator): up to the first separator
	for i := 0; i < len(k) && i < 24; i++ {
		if k[i] == '|' || k[i] == '/' {
			return k[:i+1]
		}
		if k[i] < 0x20 || k[i] > 0x7e {
			if i == 0 {
				return k[:1]
			}
			return k[:i]
		}
	}
	if len(k) > 24 {
		return k[:24]
	}
	return k
}

func firstDiffStepImported(a, b []Step) string {
	for i := range a {
		if i < len(b) && a[i].What != "state" && a[i].What != "begin" && a[i].What != "end" && a[i] != b[i] {
			return fmt.Sprintf("step %d (%s)", i, strings.Fields(a[i].What)[0])
		}
		if i < len(b) && (a[i].What == "begin" || a[i].What == "end") && a[i].Result != b[i].Result {
			return fmt.Sprintf("step %d (%s)", i, a[i].What)
		}
	}
	return "length"
}

// divergenceClass is the stable part of a divergence between the exporting and the imported node: the
// first step that differs (message types) and how (result classes, or events only).
func divergenceClass(a, b []Step) string {
	for i := range a {
		if i >= len(b) {
			break
		}
		isBlock := a[i].What == "begin" || a[i].What == "end"
		if a[i].What == "state" || (isBlock && a[i].Result == b[i].Result) || (!isBlock && a[i] == b[i]) {
			continue
		}
		cls := func(r string) string {
			if r == "ok" {
				return "ok"
			}
			return errClass(r)
		}
		if a[i].Result == b[i].Result {
			return a[i].What + "|same result, different events"
		}
		return a[i].What + "|" + cls(a[i].Result) + " vs " + cls(b[i].Result)
	}
	return "length"
}

func firstDiffStep(a, b []Step) string {
	for i := range a {
		if i < len(b) && a[i].What != "state" && a[i] != b[i] {
			return fmt.Sprintf("step %d (%s)", i, strings.Fields(a[i].What)[0])
		}
	}
	for i := range a {
		if i < len(b) && a[i] != b[i] {
			return "store content only"
		}
	}
	return "length"
}

// assertInvariants runs every registered crisis invariant on the imported node.
func assertInvariants(e *core.Env) (msg string) {
	defer func() {
		if r := recover(); r != nil {
			msg = strings.TrimSpace(strings.TrimPrefix(fmt.Sprint(r), "invariant broken:"))
		}
	}()
	c, _ := e.Ctx.CacheContext()
	e.App.CrisisKeeper.AssertInvariants(c)
	return ""
}
