package main

import (
	"fmt"
	"os"
	"path/filepath"
	"time"

	wasmkeeper "github.com/CosmWasm/wasmd/x/wasm/keeper"
	wasmtypes "github.com/CosmWasm/wasmd/x/wasm/types"
	sdk "github.com/cosmos/cosmos-sdk/types"
	banktypes "github.com/cosmos/cosmos-sdk/x/bank/types"

	cwmodel "github.com/osmosis-labs/osmosis/v31/x/cosmwasmpool/model"
	pmtypes "github.com/osmosis-labs/osmosis/v31/x/poolmanager/types"
	tftypes "github.com/osmosis-labs/osmosis/v31/x/tokenfactory/types"
)

func repoFile(rel string) []byte {
	bz, err := os.ReadFile(filepath.Join(repoRoot(), rel))
	if err != nil {
		panic(fmt.Sprintf("harness: cannot read %s: %v", rel, err))
	}
	return bz
}

// ------------------------------------------------------------------------------------------------
// wasm: CosmWasm code upload / instantiate / execute / admin messages, a cosmwasmpool (transmuter)
// created, joined, swapped through the pool manager and exited, and an alloyed transmuter pool (the
// contract mints its alloyed denom through the tokenfactory bindings) registered with the pool manager.
// Code ids: 1 transmuter, 2 no100, 3 transmuter v3. Contract instances: 1 pool 1, 2 a no100 instance,
// 3 pool 2 (alloyed).
// ------------------------------------------------------------------------------------------------
func scriptWasm() Script {
	A, B, T := acc("A"), acc("B"), acc("T")
	day := 24*time.Hour + time.Minute
	poolAddr := wasmkeeper.BuildContractAddressClassic(1, 1).String()
	instAddr := wasmkeeper.BuildContractAddressClassic(2, 2).String()
	alloyAddr := wasmkeeper.BuildContractAddressClassic(3, 3).String()
	alloyed := "factory/" + alloyAddr + "/alloyed/allfoo"
	exec := func(sender, contract, msg string, funds ...sdk.Coin) sdk.Msg {
		return &wasmtypes.MsgExecuteContract{Sender: sender, Contract: contract, Msg: wasmtypes.RawContractMessage(msg), Funds: sdk.NewCoins(funds...)}
	}
	alloyInit := `{"pool_asset_configs":[{"denom":"foo","normalization_factor":"1"},{"denom":"baz","normalization_factor":"1"}],` +
		`"alloyed_asset_subdenom":"allfoo","alloyed_asset_normalization_factor":"1","admin":"` + A + `","moderator":"` + A + `"}`
	return Script{Name: "wasm", Heavy: true, Blocks: []Block{
		{Dt: 5 * time.Second,
			Pre: func(n *Node) { // what parameter-change proposals do: anybody may upload code, creating a denom is free
				must(n.Env.App.WasmKeeper.SetParams(n.Ctx, wasmtypes.Params{CodeUploadAccess: wasmtypes.AllowEverybody, InstantiateDefaultPermission: wasmtypes.AccessTypeEverybody}))
				tp := n.Env.App.TokenFactoryKeeper.GetParams(n.Ctx)
				tp.DenomCreationFee = nil
				n.Env.App.TokenFactoryKeeper.SetParams(n.Ctx, tp)
			},
			Txs: one(
				&wasmtypes.MsgStoreCode{Sender: A, WASMByteCode: repoFile("x/cosmwasmpool/bytecode/transmuter.wasm")},
				&wasmtypes.MsgStoreCode{Sender: B, WASMByteCode: repoFile("x/tokenfactory/keeper/testdata/no100.wasm")},
				&wasmtypes.MsgStoreCode{Sender: A, WASMByteCode: repoFile("x/cosmwasmpool/bytecode/transmuter_v3.wasm")},
			)},
		{Dt: 5 * time.Second,
			Pre: func(n *Node) { // what an upload/whitelist proposal does
				n.Env.App.CosmwasmPoolKeeper.WhitelistCodeId(n.Ctx, 1)
				n.Env.App.CosmwasmPoolKeeper.WhitelistCodeId(n.Ctx, 3)
			},
			Txs: one(
				&cwmodel.MsgCreateCosmWasmPool{CodeId: 1, InstantiateMsg: []byte(`{"pool_asset_denoms":["foo","bar"]}`), Sender: A},
				&wasmtypes.MsgInstantiateContract{Sender: B, Admin: B, CodeID: 2, Label: "no100", Msg: wasmtypes.RawContractMessage(`{}`)},
				&cwmodel.MsgCreateCosmWasmPool{CodeId: 3, InstantiateMsg: []byte(alloyInit), Sender: A},
				exec(A, poolAddr, `{"join_pool":{}}`, c("foo", 5_000_000), c("bar", 3_000_000)),
				exec(B, poolAddr, `{"join_pool":{}}`, c("bar", 1_000_000)),
				exec(A, alloyAddr, `{"join_pool":{}}`, c("foo", 2_000_000), c("baz", 2_000_000)),
				swapIn(T, c("foo", 250_000), hop(1, "bar")),
				swapIn(T, c("baz", 50_000), hop(2, "foo")),
				swapIn(T, c("foo", 70_000), hop(2, alloyed)),
				&pmtypes.MsgSetRegisteredAlloyedPool{Sender: govAddr(), PoolId: 2},
			)},
		{Dt: day, Txs: one(
			swapIn(T, c("bar", 100_000), hop(1, "foo")),
			swapIn(T, c(alloyed, 30_000), hop(2, "baz")),
			exec(B, poolAddr, `{"exit_pool":{"tokens_out":[{"denom":"foo","amount":"400000"}]}}`),
			&wasmtypes.MsgUpdateAdmin{Sender: B, NewAdmin: A, Contract: instAddr},
		)},
		{Dt: 5 * time.Second, Txs: one(
			swapIn(T, c("foo", 1_000), hop(1, "bar")),
			swapIn(T, c("foo", 1_000), hop(2, "baz")),
			&wasmtypes.MsgClearAdmin{Sender: A, Contract: instAddr},
		)},
	}}
}

// tfhook: a tokenfactory denom with a before-send hook contract (sends of exactly 100 units are refused).
// Code id 1 and contract instance 1: no100.
func scriptTfHook() Script {
	A, B, T := acc("A"), acc("B"), acc("T")
	day := 24*time.Hour + time.Minute
	hookAddr := wasmkeeper.BuildContractAddressClassic(1, 1).String()
	hooked := tfDenom(A, "hooked")
	return Script{Name: "tfhook", Heavy: true, Blocks: []Block{
		{Dt: 5 * time.Second,
			Pre: func(n *Node) {
				must(n.Env.App.WasmKeeper.SetParams(n.Ctx, wasmtypes.Params{CodeUploadAccess: wasmtypes.AllowEverybody, InstantiateDefaultPermission: wasmtypes.AccessTypeEverybody}))
			},
			Txs: one(
				&wasmtypes.MsgStoreCode{Sender: B, WASMByteCode: repoFile("x/tokenfactory/keeper/testdata/no100.wasm")},
				&wasmtypes.MsgInstantiateContract{Sender: B, Admin: B, CodeID: 1, Label: "no100", Msg: wasmtypes.RawContractMessage(`{}`)},
				&tftypes.MsgCreateDenom{Sender: A, Subdenom: "hooked"},
				&tftypes.MsgMint{Sender: A, Amount: c(hooked, 1_000_000), MintToAddress: A},
				&tftypes.MsgSetBeforeSendHook{Sender: A, Denom: hooked, CosmwasmAddress: hookAddr},
				&banktypes.MsgSend{FromAddress: A, ToAddress: B, Amount: sdk.NewCoins(c(hooked, 100))}, // refused by the hook
				&banktypes.MsgSend{FromAddress: A, ToAddress: B, Amount: sdk.NewCoins(c(hooked, 101))},
			)},
		{Dt: day, Txs: one(
			&banktypes.MsgSend{FromAddress: B, ToAddress: T, Amount: sdk.NewCoins(c(hooked, 100))}, // refused by the hook
			&banktypes.MsgSend{FromAddress: B, ToAddress: T, Amount: sdk.NewCoins(c(hooked, 7))},
		)},
		{Dt: 5 * time.Second, Txs: one(
			&banktypes.MsgSend{FromAddress: A, ToAddress: T, Amount: sdk.NewCoins(c(hooked, 100))}, // refused by the hook
		)},
	}}
}

func moreScripts4() []Script {
	return []Script{scriptWasm(), scriptTfHook()}
}
