//go:build !verifrt

package main

const haveMapHook = false

func setRuntimeHook(f func(count, B, r, goid uintptr) uintptr) {}
