//go:build !verifrt

package main

import "time"

const haveMapHook = false

func setRuntimeHook(f func(count, B, r, goid uintptr) uintptr) {}

func setNowHook(f func() (time.Time, bool)) {}
