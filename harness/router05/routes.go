package main

import (
	"fmt"
	"sort"
	"strings"

	pmtypes "github.com/osmosis-labs/osmosis/v31/x/poolmanager/types"
)

// Hop is one pool traversal in trade direction.
type Hop struct {
	Pool uint64 `json:"pool"`
	In   string `json:"in"`
	Out  string `json:"out"`
}

// Route is a trail in the pool graph: each pool at most once, consecutive hops chained by denom.
type Route []Hop

func (r Route) Start() string { return r[0].In }
func (r Route) End() string   { return r[len(r)-1].Out }
func (r Route) Closed() bool  { return r.Start() == r.End() }

// String is the normalised form used in signatures: "<start>/<pool>:<out>,<pool>:<out>…".
func (r Route) String() string {
	s := make([]string, len(r))
	for i, h := range r {
		s[i] = fmt.Sprintf("%d:%s", h.Pool, alias(h.Out))
	}
	return alias(r.Start()) + "/" + strings.Join(s, ",")
}

func (r Route) InRoutes() []pmtypes.SwapAmountInRoute {
	out := make([]pmtypes.SwapAmountInRoute, len(r))
	for i, h := range r {
		out[i] = pmtypes.SwapAmountInRoute{PoolId: h.Pool, TokenOutDenom: h.Out}
	}
	return out
}

func (r Route) OutRoutes() []pmtypes.SwapAmountOutRoute {
	out := make([]pmtypes.SwapAmountOutRoute, len(r))
	for i, h := range r {
		out[i] = pmtypes.SwapAmountOutRoute{PoolId: h.Pool, TokenInDenom: h.In}
	}
	return out
}

func (r Route) pools() map[uint64]bool {
	m := map[uint64]bool{}
	for _, h := range r {
		m[h.Pool] = true
	}
	return m
}

func (r Route) disjoint(o Route) bool {
	m := r.pools()
	for _, h := range o {
		if m[h.Pool] {
			return false
		}
	}
	return true
}

// allRoutes enumerates every trail of 1..maxHops hops (each pool at most once, every ordered pair of a
// pool's denoms is an edge), ordered by (length, string) so that the order is the same everywhere.
func allRoutes(pools []PoolInfo, denoms []string, maxHops int) []Route {
	var out []Route
	var rec func(cur Route, at string, used map[uint64]bool)
	rec = func(cur Route, at string, used map[uint64]bool) {
		if len(cur) > 0 {
			out = append(out, append(Route{}, cur...))
		}
		if len(cur) == maxHops {
			return
		}
		for _, p := range pools {
			if used[p.ID] {
				continue
			}
			if !p.has(at) {
				continue
			}
			for _, next := range p.Denoms {
				if next == at {
					continue
				}
				used[p.ID] = true
				rec(append(cur, Hop{p.ID, at, next}), next, used)
				used[p.ID] = false
			}
		}
	}
	for _, d := range denoms {
		rec(nil, d, map[uint64]bool{})
	}
	sort.SliceStable(out, func(i, j int) bool {
		if len(out[i]) != len(out[j]) {
			return len(out[i]) < len(out[j])
		}
		return out[i].String() < out[j].String()
	})
	return out
}

// Split is a pair of pool-disjoint routes with the same endpoints.
type Split [2]Route

func (s Split) String() string { return s[0].String() + " + " + s[1].String() }

// allSplits returns every unordered pair of pool-disjoint routes with equal start and equal end.
func allSplits(routes []Route) []Split {
	var out []Split
	for i := range routes {
		for j := i + 1; j < len(routes); j++ {
			a, b := routes[i], routes[j]
			if a.Start() == b.Start() && a.End() == b.End() && !a.Closed() && a.disjoint(b) {
				out = append(out, Split{a, b})
			}
		}
	}
	return out
}

// subRoutes returns the contiguous sub-routes of r with the given length, in route order.
func subRoutes(r Route, n int) []Route {
	var out []Route
	for i := 0; i+n <= len(r); i++ {
		out = append(out, append(Route{}, r[i:i+n]...))
	}
	return out
}
