// Command router05 is the differential exhaustive check of the swap router (property C05):
// multi-hop == composition, split == sum of legs, estimate == execution, limits hold.
// States come from a bounded exploration of a small prior-activity alphabet (core.Explorer); in
// every distinct state the complete set of routes x amounts x {exact-in, exact-out} x senders is
// evaluated on sibling branches (oracle.go).
package main

import (
	"fmt"
	"os"
	"path/filepath"
	"runtime/debug"
	"runtime/pprof"
	"sort"
	"strings"
	"syscall"

	sdkmath "cosmossdk.io/math"
	sdk "github.com/cosmos/cosmos-sdk/types"

	"github.com/osmosis-labs/osmosis/v31/zzverif/core"
)

var scratchDir string

var tags = []string{"1", "1000", "1000000", "30%"}

// split legs get different amounts: (leg0, leg1) tag indices
var splitTags = [][2]int{{0, 1}, {1, 2}, {2, 3}, {3, 3}}

type replay struct {
	Config Config `json:"config"`
	Ops    []Op   `json:"ops"`
	Case   Case   `json:"case"`
}

type checker struct {
	w            *World
	f            *core.Flags
	r            *core.Result
	st           *Stats
	routes       []Route
	splits       []Split
	modes        []string        // probe set by number of prior ops: "full", "affected" (only routes through a pool the prior ops touched), "none"
	item         int             // running index of work items (state x sender x route), the sharding unit
	done         map[string]bool // signatures already confirmed and reported
	raw          map[string][]string
	states       map[string]int64 // states by probe-set mode
	perAssertion map[string]int
}

const maxSignaturesPerAssertion = 6

// plan gives, per tier and world, the probe set by number of prior operations (the last entry is the
// exploration depth).
func plan(tier, fee string) []string {
	if tier == "thorough" {
		if fee == FeeShare {
			return []string{"full", "full", "affected"}
		}
		return []string{"full", "full"}
	}
	if fee == FeeShare {
		return []string{"full", "affected"}
	}
	return []string{"full"}
}

func touches(rt Route, pools map[uint64]bool) bool {
	for _, h := range rt {
		if pools[h.Pool] {
			return true
		}
	}
	return false
}

// amount returns the literal amount for a tag on a route in a state.
func (ck *checker) amount(ctx sdk.Context, rt Route, tag int) string {
	if tag < 3 {
		return tags[tag]
	}
	var min sdkmath.Int
	for _, h := range rt {
		res := ck.w.reserves(ctx, h.Pool)
		for _, d := range []string{h.In, h.Out} {
			// (the alloyed asset is minted and burnt by its pool: it has no reserve)
			if x := res.AmountOf(d); x.IsPositive() && (min.IsNil() || x.LT(min)) {
				min = x
			}
		}
	}
	return min.MulRaw(3).QuoRaw(10).String()
}

func (ck *checker) mkCase(ctx sdk.Context, rt Route, kind string, tag int) Case {
	return Case{Kind: kind, Route: rt, Amounts: []string{ck.amount(ctx, rt, tag)}, Tag: tags[tag]}
}

func (ck *checker) mkSplit(ctx sdk.Context, sp Split, kind string, ti int) Case {
	t := splitTags[ti]
	return Case{Kind: kind, Legs: []Route{sp[0], sp[1]}, Amounts: []string{ck.amount(ctx, sp[0], t[0]), ck.amount(ctx, sp[1], t[1])}, Tag: tags[t[0]] + "+" + tags[t[1]]}
}

// Check is the per-state oracle: the complete probe set, dealt to the shards by work item.
func (ck *checker) Check(ctx sdk.Context, l *Ledger, _ func(a, s, d string)) {
	mode := "none"
	if len(l.Ops) < len(ck.modes) {
		mode = ck.modes[len(l.Ops)]
	}
	ck.states[mode]++
	if mode == "none" {
		return
	}
	touched := map[uint64]bool{}
	for _, op := range l.Ops {
		touched[op.P] = true
	}
	h0 := core.StateHash(ck.w.App, ctx, nil)
	for _, sender := range senders {
		cfg := Config{Fee: ck.w.Fee, Sender: sender}
		for _, rt := range ck.routes {
			if mode == "affected" && !touches(rt, touched) {
				continue
			}
			idx := ck.item
			ck.item++
			if !ck.f.Mine(idx) {
				continue
			}
			if ck.f.Expired() {
				ck.r.Exhaustive = false
				return
			}
			for _, kind := range []string{"in", "out"} {
				for ti := range tags {
					c := ck.mkCase(ctx, rt, kind, ti)
					for _, fd := range ck.w.Evaluate(ck.st, ctx, h0, sender, c) {
						ck.report(cfg, l.Ops, c, fd)
					}
				}
			}
			if len(ck.r.Samples) < 5 && len(rt) >= 3 {
				ck.r.AddSample(replay{Config: cfg, Ops: l.Ops, Case: ck.mkCase(ctx, rt, "out", 3)})
			}
		}
		for _, sp := range ck.splits {
			if mode == "affected" && !touches(sp[0], touched) && !touches(sp[1], touched) {
				continue
			}
			idx := ck.item
			ck.item++
			if !ck.f.Mine(idx) {
				continue
			}
			if ck.f.Expired() {
				ck.r.Exhaustive = false
				return
			}
			for _, kind := range []string{"in", "out"} {
				for ti := range splitTags {
					c := ck.mkSplit(ctx, sp, kind, ti)
					for _, fd := range ck.w.Evaluate(ck.st, ctx, h0, sender, c) {
						ck.report(cfg, l.Ops, c, fd)
					}
				}
			}
		}
	}
}

func sig(assertion string, cfg Config, c Case, ops []Op) string {
	return fmt.Sprintf("%s|%s|%s|%s|%s|%s", assertion, cfg, c.routeString(), c.Kind, c.Tag, opsString(ops))
}

func has(fs []Finding, assertion string) (Finding, bool) {
	for _, f := range fs {
		if f.Assertion == assertion {
			return f, true
		}
	}
	return Finding{}, false
}

// lattice is the initial state of one world with memoised evaluations: the space of shrink candidates.
type lattice struct {
	w      *World
	init   sdk.Context
	initH  [32]byte
	memo   map[string][]Finding
	routes []Route
	splits []Split
}

// valid: every hop of the route exists in this world (pool 9 exists in one world only).
func (l *lattice) valid(rt Route) bool {
	for _, h := range rt {
		if h.Pool > uint64(len(l.w.Pools)) {
			return false
		}
		pi := l.w.pool(h.Pool)
		if !pi.has(h.In) || !pi.has(h.Out) {
			return false
		}
	}
	return true
}

var lattices = map[string]*lattice{}

func latticeFor(fee string) *lattice {
	if l, ok := lattices[fee]; ok {
		return l
	}
	w := NewWorld(fee)
	init, _ := w.Env.Ctx.CacheContext()
	l := &lattice{w: w, init: init, initH: core.StateHash(w.App, init, nil), memo: map[string][]Finding{}}
	l.routes = allRoutes(w.Pools, w.Denoms, 4)
	l.splits = allSplits(l.routes)
	lattices[fee] = l
	return l
}

// findings evaluates (route, kind, amount tag) for a sender in the initial state (memoised).
func (l *lattice) findings(sender string, c Case) []Finding {
	k := sender + "|" + c.Kind + "|" + c.routeString() + "|" + c.Tag
	if fs, ok := l.memo[k]; ok {
		return fs
	}
	fs := l.w.Evaluate(newStats(), l.init, l.initH, sender, c)
	l.memo[k] = fs
	return fs
}

func (l *lattice) single(rt Route, kind string, ti int) Case {
	return (&checker{w: l.w}).mkCase(l.init, rt, kind, ti)
}

func (l *lattice) splitCase(sp Split, kind string, ti int) Case {
	return (&checker{w: l.w}).mkSplit(l.init, sp, kind, ti)
}

func tagIndex(c Case) int {
	if c.split() {
		for ti, t := range splitTags {
			if tags[t[0]]+"+"+tags[t[1]] == c.Tag {
				return ti
			}
		}
	} else {
		for ti := range tags {
			if tags[ti] == c.Tag {
				return ti
			}
		}
	}
	panic("unknown amount tag " + c.Tag)
}

// shrink reduces a failing case to a simpler one failing the same assertion, always in the initial
// state (no prior activity). (1) n = length of the shortest contiguous sub-route (1 hop, then 2 hops)
// that fails with some amount of the alphabet in the case's own configuration. (2) The result is the
// first failing case in the fixed global order (configuration, route of length n, amount), searched up
// to the case's own configuration. Routes that do not reduce below 3 hops are only moved to the initial
// state and to the first configuration in which they fail too; a split route is replaced by the first
// failing (split pair, amount pair) of the first configuration in which any fails. Every candidate
// is re-executed on the real code; the result does not depend on which shard found the original.
// If nothing simpler fails, the original case is kept.
func (ck *checker) shrink(cfg Config, ops []Op, c Case, fd Finding) (Config, []Op, Case, Finding) {
	own := latticeFor(cfg.Fee)
	n := 0
	if !c.split() {
		for _, k := range []int{1, 2} {
			if k > len(c.Route) || n != 0 {
				continue
			}
			for _, sub := range subRoutes(c.Route, k) {
				for ti := range tags {
					if _, ok := has(own.findings(cfg.Sender, own.single(sub, c.Kind, ti)), fd.Assertion); ok {
						n = k
					}
				}
			}
		}
	}
	for _, fee := range feeSettings {
		for _, s := range senders {
			o := latticeFor(fee)
			if n > 0 {
				for _, rt := range o.routes {
					if len(rt) != n {
						continue
					}
					for ti := range tags {
						x := o.single(rt, c.Kind, ti)
						if f, ok := has(o.findings(s, x), fd.Assertion); ok {
							return Config{Fee: fee, Sender: s}, nil, x, f
						}
					}
				}
			} else if c.split() {
				// split routes: the first failing (split pair, amount pair) of the world, in the fixed order
				for _, sp := range o.splits {
					for ti := range splitTags {
						x := o.splitCase(sp, c.Kind, ti)
						if f, ok := has(o.findings(s, x), fd.Assertion); ok {
							return Config{Fee: fee, Sender: s}, nil, x, f
						}
					}
				}
			} else {
				var x Case
				ok := false
				if ok = o.valid(c.Route); ok {
					x = o.single(c.Route, c.Kind, tagIndex(c))
				}
				if ok {
					if f, ok := has(o.findings(s, x), fd.Assertion); ok {
						return Config{Fee: fee, Sender: s}, nil, x, f
					}
				}
			}
			if fee == cfg.Fee && s == cfg.Sender {
				return cfg, ops, c, fd
			}
		}
	}
	return cfg, ops, c, fd
}

func (ck *checker) report(cfg Config, ops []Op, c Case, fd Finding) {
	ck.st.Extra["sum_raw_failing:"+fd.Assertion]++
	if rs := ck.raw[fd.Assertion]; len(rs) < 3 {
		ck.raw[fd.Assertion] = append(rs, sig(fd.Assertion, cfg, c, ops))
	}
	if ck.perAssertion[fd.Assertion] >= maxSignaturesPerAssertion {
		return // counted above; a shard reports at most this many distinct minimal cases per assertion
	}
	mcfg, mops, mc, mf := ck.shrink(cfg, ops, c, fd)
	s := sig(mf.Assertion, mcfg, mc, mops)
	if ck.done[s] {
		return
	}
	ck.done[s] = true
	ck.perAssertion[fd.Assertion]++
	rp := replay{Config: mcfg, Ops: append([]Op{}, mops...), Case: mc}
	// before believing it: the case must fail identically on a fresh application
	d, ok := confirm(rp, mf.Assertion)
	if ok && d != mf.Detail {
		// same assertion, different wording: error texts of the code under test may carry addresses or amounts that
		// depend on what ran before; the failure itself reproduces
		mf.Detail += " || a fresh application replaying the same operations fails the same assertion with: " + d
	}
	if !ok {
		// The exploring process saw the oracle fail, a fresh application replaying the same operations does not (or
		// fails differently). The harness keeps no state of its own between cases (on the tree it was written against
		// nothing ever fails, so there is nothing to reproduce); what differs between the two runs is the memory of the
		// APPLICATION: the code under test carries something from earlier transactions outside the store. That is
		// reported, as a violation of the assertion that failed, with the note that it depends on process history.
		fmt.Fprintf(os.Stderr, "harness: violation %s did not reproduce on a fresh application (first: %q, fresh: %q)\n", s, mf.Detail, d)
		ck.r.AddViolation(core.Violation{Property: ck.r.Property, Assertion: mf.Assertion + "[depends-on-process-history]", Signature: s + "|process-history",
			Detail: mf.Detail + " || observed in the exploring process only: a fresh application replaying the same operations answers: " + d, Replay: rp})
		return
	}
	ck.r.AddViolation(core.Violation{Property: ck.r.Property, Assertion: mf.Assertion, Signature: s, Detail: mf.Detail, Replay: rp})
}

// confirm re-executes a replay artefact on a fresh application.
func confirm(rp replay, assertion string) (string, bool) {
	w := NewWorld(rp.Config.Fee)
	defer w.Env.Close()
	ctx, _, _ := w.runOps(rp.Ops)
	fs := w.Evaluate(newStats(), ctx, core.StateHash(w.App, ctx, nil), rp.Config.Sender, rp.Case)
	f, ok := has(fs, assertion)
	return f.Detail, ok
}

func (w *World) runOps(ops []Op) (sdk.Context, *Ledger, []string) {
	ctx, _ := w.Env.Ctx.CacheContext()
	l := w.Init.Clone()
	var outs []string
	for _, op := range ops {
		var o string
		ctx, o = w.Apply(ctx, l, op, nil)
		outs = append(outs, o)
	}
	return ctx, l, outs
}

func runReplay(f *core.Flags, r *core.Result) {
	var rp replay
	core.ReadReplay(f.Replay, &rp)
	w := NewWorld(rp.Config.Fee)
	defer w.Env.Close()
	ctx, _, outs := w.runOps(rp.Ops)
	for i, op := range rp.Ops {
		fmt.Printf("prior op %d %s -> %s\n", i, op, outs[i])
	}
	for _, p := range w.Pools {
		fmt.Printf("pool %d %s reserves %s\n", p.ID, p.Type, w.reserves(ctx, p.ID))
	}
	st := newStats()
	st.Verbose = true
	fs := w.Evaluate(st, ctx, core.StateHash(w.App, ctx, nil), rp.Config.Sender, rp.Case)
	fmt.Printf("case: config=%s route=%s kind=%s amounts=%s -> %d failed assertion(s)\n", rp.Config, rp.Case.routeString(), rp.Case.Kind, strings.Join(rp.Case.Amounts, "+"), len(fs))
	for _, fd := range fs {
		fmt.Printf("   %s: %s\n", fd.Assertion, fd.Detail)
		r.AddViolation(core.Violation{Property: f.Prop, Assertion: fd.Assertion, Signature: sig(fd.Assertion, rp.Config, rp.Case, rp.Ops), Detail: fd.Detail, Replay: rp})
	}
	r.States, r.Transitions, r.Traces = 1, st.Transitions, st.Traces
	for k, v := range st.Vac {
		r.Vacuity[k] = v
	}
}

func main() {
	f := core.ParseFlags()
	r := core.NewResult(f.Prop)
	debug.SetGCPercent(400) // short-lived garbage of the message handlers dominates; a shard's live heap is small
	if f.Prop != "C05" {
		fmt.Fprintln(os.Stderr, "router05: unknown property", f.Prop)
		os.Exit(2)
	}
	// Every application instance gets its home directory (which holds the wasm VM's module cache) from
	// os.MkdirTemp: point that at a scratch directory of this process and remove it at the end. Shards run
	// with the work directory bin/run deletes afterwards as cwd, so nothing survives a crash either; a replay
	// may be started from anywhere and uses the system's temporary directory.
	base := "."
	if f.Replay != "" {
		base = os.TempDir()
	}
	scratch, err := os.MkdirTemp(base, "router05-home-")
	if err != nil {
		fmt.Fprintln(os.Stderr, "router05: scratch directory:", err)
		os.Exit(2)
	}
	if scratch, err = filepath.Abs(scratch); err != nil {
		fmt.Fprintln(os.Stderr, "router05: scratch directory:", err)
		os.Exit(2)
	}
	os.Setenv("TMPDIR", scratch)
	scratchDir = scratch
	defer os.RemoveAll(scratch)
	if pf := os.Getenv("VERIF_CPUPROFILE"); pf != "" && f.Shard == 0 {
		if fh, err := os.Create(pf); err == nil {
			pprof.StartCPUProfile(fh)
			defer pprof.StopCPUProfile()
		}
	}
	if f.Replay != "" {
		runReplay(f, r)
		core.Finish(f, r)
		return
	}
	st := newStats()
	allSeen := core.NewSeen()
	raw := map[string][]string{}
	done := map[string]bool{}
	states := map[string]int64{}
	perAssertion := map[string]int{}
	routeInfo := map[string]interface{}{}
	planInfo := map[string]interface{}{}
	maxDepth := 0
	for wi, fee := range feeSettings {
		lt := latticeFor(fee)
		w := lt.w
		modes := plan(f.Tier, fee)
		depth := len(modes) - 1
		if depth > maxDepth {
			maxDepth = depth
		}
		byLen := map[int]int{}
		for _, rt := range lt.routes {
			byLen[len(rt)]++
		}
		routeInfo[fee] = fmt.Sprintf("%d pools, %d routes (by hops: %v), %d split pairs", len(w.Pools), len(lt.routes), byLen, len(lt.splits))
		planInfo[fee] = fmt.Sprintf("probe set by number of prior operations: %v; prior-activity alphabet of %d operations", modes, len(w.alphabet(w.Init)))
		ck := &checker{w: w, f: f, r: r, st: st, routes: lt.routes, splits: lt.splits, modes: modes, done: done, raw: raw, states: states, perAssertion: perAssertion}
		sc := &core.Scenario[Op, *Ledger]{App: w.App, Stores: nil, Config: fee, Enabled: w.Enabled, Apply: w.Apply, Check: ck.Check}
		// Every shard walks the (small) state space itself; the probe set of each state is what is
		// dealt to the shards. The explorer therefore runs unsharded; its own counters are kept by shard 0.
		ff := *f
		ff.Shard, ff.NShards, ff.Seed = 0, 1, 0
		t0, tr0 := r.Transitions, r.Traces
		ex := core.NewExplorer(sc, &ff, r)
		ex.Run("init", w.Env.Ctx, w.Init.Clone(), depth)
		if f.Shard != 0 {
			r.Transitions, r.Traces = t0, tr0
		}
		for k := range ex.Seen {
			var h [32]byte
			copy(h[:], k[:])
			h[7] ^= byte(wi + 1) // worlds never share states (only 8-byte prefixes are dumped)
			allSeen.Add(h)
		}
		// the root state is not in ex.Seen
		var h [32]byte
		h[0], h[1] = 0xff, byte(wi+1)
		allSeen.Add(h)
	}
	r.Extra["eq_cosmwasm_probe_digest"] = cosmwasmProbe(st)
	if r.Exhaustive {
		r.DepthCompleted = maxDepth // per world: see coverage.plan
	}
	for _, l := range lattices {
		l.w.Env.Close()
	}
	allSeen.Dump(f.HashOut)
	r.Transitions += st.Transitions
	r.Traces = st.Traces // histories compared with the reference: one per evaluated case
	for k, v := range st.Vac {
		r.Vacuity[k] += v
	}
	for k, v := range st.Rejected {
		r.Rejected[k] += v
	}
	for k, v := range st.Extra {
		r.Extra[k] = v
	}
	if len(st.Notes) > 0 && f.Shard == 0 { // a few literal samples are enough: shard 0's
		n := map[string]interface{}{}
		for k, v := range st.Notes {
			n[k] = v
		}
		r.Extra["full_state_difference_samples"] = n
	}
	if len(raw) > 0 {
		n := map[string]interface{}{}
		ks := make([]string, 0, len(raw))
		for k := range raw {
			ks = append(ks, k)
		}
		sort.Strings(ks)
		for _, k := range ks {
			n[k] = raw[k]
		}
		r.Extra["raw_failing_case_samples"] = n
	}
	r.Extra["configurations"] = fmt.Sprintf("taker fee %v x sender %v", feeSettings, senders)
	r.Extra["routes"] = routeInfo
	r.Extra["plan"] = planInfo
	r.Extra["amounts"] = fmt.Sprintf("%v; exact-in and exact-out", tags)
	r.Extra["prior_activity_depth"] = maxDepth
	if f.Shard == 0 {
		for k, v := range states {
			r.Extra["sum_states_with_probe_set_"+k] = float64(v)
		}
	}
	r.Outcomes = int64(len(r.Rejected) + 1)
	var ru syscall.Rusage
	if syscall.Getrusage(syscall.RUSAGE_SELF, &ru) == nil {
		// the machine may be shared: CPU seconds are the honest cost figure
		r.Extra["sum_cpu_seconds"] = float64(ru.Utime.Sec+ru.Stime.Sec) + float64(ru.Utime.Usec+ru.Stime.Usec)/1e6
	}
	core.Finish(f, r)
}
