package main

import (
	"crypto/sha256"
	"fmt"
	"sort"
	"strings"

	sdkmath "cosmossdk.io/math"
	sdk "github.com/cosmos/cosmos-sdk/types"
	authtypes "github.com/cosmos/cosmos-sdk/x/auth/types"

	"github.com/osmosis-labs/osmosis/osmomath"
	pmclient "github.com/osmosis-labs/osmosis/v31/x/poolmanager/client"
	"github.com/osmosis-labs/osmosis/v31/x/poolmanager/client/queryproto"
	pmtypes "github.com/osmosis-labs/osmosis/v31/x/poolmanager/types"
	txfeestypes "github.com/osmosis-labs/osmosis/v31/x/txfees/types"

	"github.com/osmosis-labs/osmosis/v31/zzverif/core"
)

// ---------------------------------------------------------------------------------------------
// C05 oracles. Every case is evaluated on sibling branches (ctx.CacheContext()) of ONE state:
//
//	R  the routed message (multi-hop route / split route), limits wide open
//	C  the reference: the hops sent one message at a time / the legs sent one after another
//	Q  the estimate query
//	L1 the routed message with the limit exactly at the observed amount   -> must succeed, same result
//	L2 the routed message with the limit one unit beyond it               -> must fail, nothing moved
// ---------------------------------------------------------------------------------------------

// Case is one routed swap under test; it is the unit of replay.
type Case struct {
	Kind    string   `json:"kind"`            // "in" exact-in, "out" exact-out
	Route   Route    `json:"route,omitempty"` // single route
	Legs    []Route  `json:"legs,omitempty"`  // split route (two pool-disjoint legs)
	Amounts []string `json:"amounts"`         // literal amounts, one per leg
	Tag     string   `json:"amount_tag"`      // normalised amount for the signature: 1, 1000, 1000000, 30%
}

func (c Case) split() bool { return len(c.Legs) > 0 }

func (c Case) routeString() string {
	if c.split() {
		return c.Legs[0].String() + "+" + c.Legs[1].String()
	}
	return c.Route.String()
}

func (c Case) start() string {
	if c.split() {
		return c.Legs[0].Start()
	}
	return c.Route.Start()
}

func (c Case) end() string {
	if c.split() {
		return c.Legs[0].End()
	}
	return c.Route.End()
}

func (c Case) closed() bool { return !c.split() && c.Route.Closed() }

func (c Case) amt(i int) sdkmath.Int {
	x, ok := sdkmath.NewIntFromString(c.Amounts[i])
	if !ok {
		panic("bad amount " + c.Amounts[i])
	}
	return x
}

// Finding is one failed assertion of one case.
type Finding struct {
	Assertion string
	Detail    string
}

// "Limits wide open" for exact-out is the sender's whole balance of the input denom, not an
// astronomically large number: a CosmWasm pool is handed the caller's maximum up front and returns the
// excess (x/cosmwasmpool SwapExactAmountOut), so a maximum the sender does not own fails for lack of
// funds - which is a refusal the statement allows, not a case of interest.

// Stats are the per-shard counters of the probe evaluation.
type Stats struct {
	Vac         map[string]int64
	Rejected    map[string]int64
	Transitions int64
	Traces      int64
	Extra       map[string]float64
	Verbose     bool
	Notes       map[string]string
	SkimNotes   int
}

func newStats() *Stats {
	return &Stats{Vac: map[string]int64{}, Rejected: map[string]int64{}, Extra: map[string]float64{}, Notes: map[string]string{}}
}

func (w *World) deliver(st *Stats, ctx sdk.Context, msg sdk.Msg) core.MsgResult {
	st.Transitions++
	return core.Deliver(w.App, ctx, msg)
}

// sendRouted delivers the message under test (multi-hop or split) with the given limit and returns
// the amount in the response.
func (w *World) sendRouted(st *Stats, ctx sdk.Context, sender sdk.AccAddress, c Case, limit sdkmath.Int) (sdkmath.Int, error) {
	switch {
	case !c.split() && c.Kind == "in":
		r := w.deliver(st, ctx, &pmtypes.MsgSwapExactAmountIn{Sender: sender.String(), Routes: c.Route.InRoutes(),
			TokenIn: sdk.NewCoin(c.start(), c.amt(0)), TokenOutMinAmount: limit})
		if !r.OK() {
			return sdkmath.Int{}, r.Err
		}
		var resp pmtypes.MsgSwapExactAmountInResponse
		mustUnmarshal(r.Res, &resp)
		return resp.TokenOutAmount, nil
	case !c.split() && c.Kind == "out":
		r := w.deliver(st, ctx, &pmtypes.MsgSwapExactAmountOut{Sender: sender.String(), Routes: c.Route.OutRoutes(),
			TokenOut: sdk.NewCoin(c.end(), c.amt(0)), TokenInMaxAmount: limit})
		if !r.OK() {
			return sdkmath.Int{}, r.Err
		}
		var resp pmtypes.MsgSwapExactAmountOutResponse
		mustUnmarshal(r.Res, &resp)
		return resp.TokenInAmount, nil
	case c.Kind == "in":
		var rs []pmtypes.SwapAmountInSplitRoute
		for i, l := range c.Legs {
			rs = append(rs, pmtypes.SwapAmountInSplitRoute{Pools: l.InRoutes(), TokenInAmount: c.amt(i)})
		}
		r := w.deliver(st, ctx, &pmtypes.MsgSplitRouteSwapExactAmountIn{Sender: sender.String(), Routes: rs, TokenInDenom: c.start(), TokenOutMinAmount: limit})
		if !r.OK() {
			return sdkmath.Int{}, r.Err
		}
		var resp pmtypes.MsgSplitRouteSwapExactAmountInResponse
		mustUnmarshal(r.Res, &resp)
		return resp.TokenOutAmount, nil
	default:
		var rs []pmtypes.SwapAmountOutSplitRoute
		for i, l := range c.Legs {
			rs = append(rs, pmtypes.SwapAmountOutSplitRoute{Pools: l.OutRoutes(), TokenOutAmount: c.amt(i)})
		}
		r := w.deliver(st, ctx, &pmtypes.MsgSplitRouteSwapExactAmountOut{Sender: sender.String(), Routes: rs, TokenOutDenom: c.end(), TokenInMaxAmount: limit})
		if !r.OK() {
			return sdkmath.Int{}, r.Err
		}
		var resp pmtypes.MsgSplitRouteSwapExactAmountOutResponse
		mustUnmarshal(r.Res, &resp)
		return resp.TokenInAmount, nil
	}
}

func (w *World) balOf(ctx sdk.Context, addr sdk.AccAddress, denom string) sdkmath.Int {
	return w.App.BankKeeper.GetBalance(ctx, addr, denom).Amount
}

// compose executes the reference on ctx: for a single route the hops one message at a time, for a
// split route the legs one routed message after another. It returns the final amount and a
// human-readable log of the per-hop amounts.
func (w *World) compose(st *Stats, state, ctx sdk.Context, sender sdk.AccAddress, c Case) (sdkmath.Int, string, error) {
	var log []string
	if c.split() {
		total := sdkmath.ZeroInt()
		for i, l := range c.Legs {
			leg := Case{Kind: c.Kind, Route: l, Amounts: []string{c.Amounts[i]}}
			lim := sdkmath.OneInt()
			if c.Kind == "out" {
				lim = w.balOf(ctx, sender, l.Start()) // wide open, but affordable (see wideOut)
			}
			x, err := w.sendRouted(st, ctx, sender, leg, lim)
			if err != nil {
				return sdkmath.Int{}, strings.Join(log, " "), fmt.Errorf("leg %d: %w", i, err)
			}
			log = append(log, fmt.Sprintf("leg%d=%s", i, x))
			total = total.Add(x)
		}
		return total, strings.Join(log, " "), nil
	}
	rt := c.Route
	if c.Kind == "in" {
		// hop i's output is hop i+1's input
		x := c.amt(0)
		for i, h := range rt {
			r := w.deliver(st, ctx, &pmtypes.MsgSwapExactAmountIn{Sender: sender.String(), Routes: []pmtypes.SwapAmountInRoute{{PoolId: h.Pool, TokenOutDenom: h.Out}},
				TokenIn: sdk.NewCoin(h.In, x), TokenOutMinAmount: sdkmath.OneInt()})
			if !r.OK() {
				return sdkmath.Int{}, strings.Join(log, " "), fmt.Errorf("hop %d: %w", i, r.Err)
			}
			var resp pmtypes.MsgSwapExactAmountInResponse
			mustUnmarshal(r.Res, &resp)
			log = append(log, fmt.Sprintf("hop%d:%s%s->%s%s", i, x, h.In, resp.TokenOutAmount, h.Out))
			x = resp.TokenOutAmount
		}
		return x, strings.Join(log, " "), nil
	}
	// exact-out. What hop i must deliver is what hop i+1 charges the sender in total (pool input plus
	// taker fee) when asked for its own required output; these amounts are obtained back to front by
	// executing each hop as a 1-hop exact-out message on a scratch branch of the same state (each pool
	// occurs once in the route, so a hop's price does not depend on the other hops). Then the hops are
	// sent front to back, every one a 1-hop exact-out message.
	n := len(rt)
	req := make([]sdkmath.Int, n)
	need := c.amt(0)
	for i := n - 1; i >= 0; i-- {
		h := rt[i]
		s, _ := state.CacheContext()
		before := w.balOf(s, sender, h.In)
		r := w.deliver(st, s, &pmtypes.MsgSwapExactAmountOut{Sender: sender.String(), Routes: []pmtypes.SwapAmountOutRoute{{PoolId: h.Pool, TokenInDenom: h.In}},
			TokenOut: sdk.NewCoin(h.Out, need), TokenInMaxAmount: before})
		if !r.OK() {
			return sdkmath.Int{}, strings.Join(log, " "), fmt.Errorf("pricing hop %d: %w", i, r.Err)
		}
		req[i] = need
		need = before.Sub(w.balOf(s, sender, h.In))
	}
	var first sdkmath.Int
	for i, h := range rt {
		r := w.deliver(st, ctx, &pmtypes.MsgSwapExactAmountOut{Sender: sender.String(), Routes: []pmtypes.SwapAmountOutRoute{{PoolId: h.Pool, TokenInDenom: h.In}},
			TokenOut: sdk.NewCoin(h.Out, req[i]), TokenInMaxAmount: w.balOf(ctx, sender, h.In)})
		if !r.OK() {
			return sdkmath.Int{}, strings.Join(log, " "), fmt.Errorf("hop %d: %w", i, r.Err)
		}
		var resp pmtypes.MsgSwapExactAmountOutResponse
		mustUnmarshal(r.Res, &resp)
		log = append(log, fmt.Sprintf("hop%d:%s%s->%s%s", i, resp.TokenInAmount, h.In, req[i], h.Out))
		if i == 0 {
			first = resp.TokenInAmount
		}
	}
	return first, strings.Join(log, " "), nil
}

// estimate runs the estimate query that corresponds to the case for this sender, when there is one.
func (w *World) estimate(ctx sdk.Context, whitelisted bool, c Case) (est sdkmath.Int, have bool, err error) {
	q := pmclient.Querier{K: w.App.PoolManagerKeeper}
	w.plainCorresponds = !whitelisted
	if c.Kind == "in" {
		tokenIn := sdk.NewCoin(c.start(), c.amt(0))
		if whitelisted {
			// the query that corresponds to what a whitelisted sender executes
			est, err = w.App.PoolManagerKeeper.MultihopEstimateOutGivenExactAmountInNoTakerFee(ctx, c.Route.InRoutes(), tokenIn)
			return est, true, err
		}
		var resp *queryproto.EstimateSwapExactAmountInResponse
		err = core.Try(func() error {
			var e error
			resp, e = q.EstimateSwapExactAmountIn(ctx, queryproto.EstimateSwapExactAmountInRequest{TokenIn: tokenIn.String(), Routes: c.Route.InRoutes()})
			return e
		})
		if err != nil {
			return sdkmath.Int{}, true, err
		}
		return resp.TokenOutAmount, true, nil
	}
	if whitelisted {
		// there is no fee-less exact-out estimate; the plain one corresponds only when no hop of the
		// route carries a taker fee
		for _, h := range c.Route {
			f, e := w.App.PoolManagerKeeper.GetTradingPairTakerFee(ctx, h.In, h.Out)
			if e != nil || !f.IsZero() {
				return sdkmath.Int{}, false, nil
			}
		}
		w.plainCorresponds = true
	}
	var resp *queryproto.EstimateSwapExactAmountOutResponse
	err = core.Try(func() error {
		var e error
		resp, e = q.EstimateSwapExactAmountOut(ctx, queryproto.EstimateSwapExactAmountOutRequest{TokenOut: sdk.NewCoin(c.end(), c.amt(0)).String(), Routes: c.Route.OutRoutes()})
		return e
	})
	if err != nil {
		return sdkmath.Int{}, true, err
	}
	return resp.TokenInAmount, true, nil
}

type variant struct {
	name string
	amt  sdkmath.Int
	err  error
}

// estimateVariants calls the remaining estimate handlers of the query service that describe the same
// swap: the ...WithPrimitiveTypes forms (grpc-gateway) and, for 1-hop routes, the single-pool forms.
// They all include the taker fee, so they are only called when the plain estimate corresponds.
func (w *World) estimateVariants(ctx sdk.Context, c Case) []variant {
	q := pmclient.Querier{K: w.App.PoolManagerKeeper}
	var out []variant
	try := func(name string, f func() (sdkmath.Int, error)) {
		v := variant{name: name}
		v.err = core.Try(func() error {
			var e error
			v.amt, e = f()
			return e
		})
		out = append(out, v)
	}
	var ids []uint64
	var ins, outs []string
	for _, h := range c.Route {
		ids = append(ids, h.Pool)
		ins = append(ins, h.In)
		outs = append(outs, h.Out)
	}
	if c.Kind == "in" {
		tokenIn := sdk.NewCoin(c.start(), c.amt(0)).String()
		try("EstimateSwapExactAmountInWithPrimitiveTypes", func() (sdkmath.Int, error) {
			r, e := q.EstimateSwapExactAmountInWithPrimitiveTypes(ctx, queryproto.EstimateSwapExactAmountInWithPrimitiveTypesRequest{TokenIn: tokenIn, RoutesPoolId: ids, RoutesTokenOutDenom: outs})
			if e != nil {
				return sdkmath.Int{}, e
			}
			return r.TokenOutAmount, nil
		})
		if len(c.Route) == 1 {
			try("EstimateSinglePoolSwapExactAmountIn", func() (sdkmath.Int, error) {
				r, e := q.EstimateSinglePoolSwapExactAmountIn(ctx, queryproto.EstimateSinglePoolSwapExactAmountInRequest{PoolId: ids[0], TokenIn: tokenIn, TokenOutDenom: outs[0]})
				if e != nil {
					return sdkmath.Int{}, e
				}
				return r.TokenOutAmount, nil
			})
		}
		return out
	}
	tokenOut := sdk.NewCoin(c.end(), c.amt(0)).String()
	try("EstimateSwapExactAmountOutWithPrimitiveTypes", func() (sdkmath.Int, error) {
		r, e := q.EstimateSwapExactAmountOutWithPrimitiveTypes(ctx, queryproto.EstimateSwapExactAmountOutWithPrimitiveTypesRequest{TokenOut: tokenOut, RoutesPoolId: ids, RoutesTokenInDenom: ins})
		if e != nil {
			return sdkmath.Int{}, e
		}
		return r.TokenInAmount, nil
	})
	if len(c.Route) == 1 {
		try("EstimateSinglePoolSwapExactAmountOut", func() (sdkmath.Int, error) {
			r, e := q.EstimateSinglePoolSwapExactAmountOut(ctx, queryproto.EstimateSinglePoolSwapExactAmountOutRequest{PoolId: ids[0], TokenInDenom: ins[0], TokenOut: tokenOut})
			if e != nil {
				return sdkmath.Int{}, e
			}
			return r.TokenInAmount, nil
		})
	}
	return out
}

// diffAccounts lists the named accounts whose balances differ between two branches.
func (w *World) diffAccounts(x, y sdk.Context, xn, yn string) string {
	var out []string
	for _, na := range w.Named {
		bx := w.App.BankKeeper.GetAllBalances(x, na.Addr)
		by := w.App.BankKeeper.GetAllBalances(y, na.Addr)
		if !bx.Equal(by) {
			var ds []string
			for _, d := range w.Denoms {
				if !bx.AmountOf(d).Equal(by.AmountOf(d)) {
					ds = append(ds, fmt.Sprintf("%s: %s=%s %s=%s (diff %s)", alias(d), xn, bx.AmountOf(d), yn, by.AmountOf(d), bx.AmountOf(d).Sub(by.AmountOf(d))))
				}
			}
			out = append(out, na.Name+"{"+strings.Join(ds, "; ")+"}")
		}
	}
	if len(out) == 0 {
		if core.StateHash(w.App, x, bankOnly) == core.StateHash(w.App, y, bankOnly) {
			return "(all balances equal)"
		}
		return "(an account outside the named set differs)"
	}
	return strings.Join(out, " ")
}

var bankOnly = []string{"bank"}

// Evaluate runs all oracles for one case and one sender on sibling branches of state.
// h0 is the full store hash of state.
func (w *World) Evaluate(st *Stats, state sdk.Context, h0 [32]byte, senderName string, c Case) []Finding {
	a := w.App
	sender := core.Acc(senderName)
	whitelisted := senderName == "W"
	var fs []Finding
	add := func(as, format string, args ...interface{}) {
		fs = append(fs, Finding{as, fmt.Sprintf(format, args...)})
	}
	desc := fmt.Sprintf("%s %s exact-%s amount=%s sender=%s", w.Fee, c.routeString(), c.Kind, strings.Join(c.Amounts, "+"), senderName)
	o1, eq := "1", "1.routed-equals-composition"
	if c.split() {
		o1, eq = "2", "2.split-equals-sum-of-legs"
	}
	wide := sdkmath.OneInt()
	if c.Kind == "out" {
		wide = w.balOf(state, sender, c.start())
	}
	collector := authtypes.NewModuleAddress(txfeestypes.TakerFeeCollectorName)

	// ---- R: the routed message, limits wide open ------------------------------------------------
	R, _ := state.CacheContext()
	s0, e0 := w.balOf(state, sender, c.start()), w.balOf(state, sender, c.end())
	colBefore := a.BankKeeper.GetAllBalances(state, collector)
	amtR, errR := w.sendRouted(st, R, sender, c, wide)
	st.Traces++

	// ---- C: the reference composition -------------------------------------------------------------
	C, _ := state.CacheContext()
	amtC, logC, errC := w.compose(st, state, C, sender, c)

	if errR != nil {
		st.Vac["routed_rejected"]++
		st.Rejected["probe:"+errClass(errR)]++
		if errC == nil {
			// its own assertion id per refusal class, so that one cause cannot hide another behind the shrinker
			as := "1.routed-rejected-composition-succeeds"
			if c.split() {
				as = "2.split-rejected-legs-succeed"
			}
			add(as+"["+strings.TrimPrefix(errClass(errR), "rejected:")+"]", "%s: routed message failed (%v) but the one-at-a-time composition succeeded with %s [%s]", desc, errR, amtC, logC)
		}
		if !c.split() {
			Q, _ := state.CacheContext()
			_, have, errQ := w.estimate(Q, whitelisted, c)
			if have && errQ == nil {
				st.Vac["estimate_ok_execution_rejected"]++
				st.Rejected["probe-with-successful-estimate:"+errClass(errR)]++
			}
			if core.StateHash(a, Q, nil) != h0 {
				add("3.estimate-changes-state", "%s: the estimate query changed the store content", desc)
			}
		}
		return fs
	}
	st.Vac["routed_executed"]++
	if whitelisted {
		st.Vac["whitelisted_sender_swaps_executed"]++
	}
	if c.split() {
		st.Vac["split_routes_executed"]++
		for _, l := range c.Legs {
			for _, h := range l {
				if w.pool(h.Pool).Type == "cosmwasm" {
					st.Vac["split_routes_with_cosmwasm_leg_executed"]++
				}
			}
		}
	} else {
		if len(c.Route) == 4 {
			st.Vac["four_hop_routes_executed"]++
		}
		if len(c.Route) > 1 && c.Kind == "out" {
			st.Vac["exact_out_multihop_executed"]++
		}
		types := map[string]bool{}
		for i, h := range c.Route {
			pi := w.pool(h.Pool)
			types[pi.Type] = true
			if pi.Type == "cosmwasm" {
				st.Vac["cosmwasm_hops_executed"]++
				if len(c.Route) > 1 {
					st.Vac["cosmwasm_hops_in_multihop_executed"]++
					if c.Kind == "out" && i == 0 {
						st.Vac["cosmwasm_first_hop_exact_out_multihop_executed"]++
					}
					if c.Kind == "out" && i > 0 {
						st.Vac["cosmwasm_later_hop_exact_out_multihop_executed"]++
					}
				}
			}
			if len(pi.Denoms) > 2 {
				st.Vac[fmt.Sprintf("multi_asset_hop_%d_%s_%s_executed", h.Pool, alias(h.In), alias(h.Out))]++
				if len(c.Route) > 1 {
					st.Vac["multi_asset_hops_in_multihop_executed"]++
				}
			}
		}
		if len(types) >= 3 {
			st.Vac["routes_mixing_three_pool_types_executed"]++
		}
		if len(types) == 4 {
			st.Vac["routes_mixing_four_pool_types_executed"]++
		}
	}
	feeCharged := !a.BankKeeper.GetAllBalances(R, collector).Equal(colBefore)
	if feeCharged {
		st.Vac["swaps_with_taker_fee_charged"]++
		if len(c.Route) > 1 || c.split() {
			st.Vac["multihop_or_split_with_taker_fee_charged"]++
		}
	}

	// amounts by the sender's balance (open routes); closed routes net in and out in one denom, the
	// response is used there
	spent := s0.Sub(w.balOf(R, sender, c.start()))
	got := w.balOf(R, sender, c.end()).Sub(e0)
	measured := func(ctx sdk.Context, resp sdkmath.Int) sdkmath.Int {
		if c.closed() {
			return resp
		}
		if c.Kind == "in" {
			return w.balOf(ctx, sender, c.end()).Sub(e0)
		}
		return s0.Sub(w.balOf(ctx, sender, c.start()))
	}
	obs := measured(R, amtR) // exact-in: delivered output; exact-out: input actually charged
	if !c.closed() {
		if !obs.Equal(amtR) {
			add(o1+".response-equals-balance-delta", "%s: response amount %s, sender's balance moved by %s", desc, amtR, obs)
		}
		if c.Kind == "in" && spent.LT(c.amt(0)) && !c.split() || c.Kind == "out" && got.LT(c.amt(0)) && !c.split() {
			st.Vac["partial_fills"]++
		}
	}

	// ---- oracle 1 / 2: routed == composition ------------------------------------------------------
	if errC != nil {
		add(eq, "%s: routed message succeeded with %s but the one-at-a-time composition failed: %v [%s]", desc, amtR, errC, logC)
	} else {
		st.Vac["compositions_compared"]++
		if !amtC.Equal(amtR) {
			add(eq, "%s: routed amount %s, composition %s [%s]; %s", desc, amtR, amtC, logC, w.diffAccounts(R, C, "routed", "composed"))
		} else if core.StateHash(a, R, bankOnly) != core.StateHash(a, C, bankOnly) {
			add(eq, "%s: same final amount %s but balances differ [%s]: %s", desc, amtR, logC, w.diffAccounts(R, C, "routed", "composed"))
		} else if c.Tag == "30%" {
			// informational: the rest of the store (volume, twap, pool records …)
			if core.StateHash(a, R, nil) != core.StateHash(a, C, nil) {
				st.Extra["sum_full_state_differs_with_equal_balances"]++
				if len(st.Notes) < 4 {
					var ds []string
					for _, n := range core.StoreNames(a) {
						if core.StateHash(a, R, []string{n}) != core.StateHash(a, C, []string{n}) {
							ds = append(ds, n)
						}
					}
					st.Notes[desc] = strings.Join(ds, ",")
				}
			} else {
				st.Extra["sum_full_state_equal"]++
			}
		}
	}

	// ---- oracle 1s / 2s: the taker-fee share accrual of the routed message ---------------------------
	if len(w.Agreements) > 0 {
		w.checkSkim(st, add, desc, o1, state, R, C, errC == nil, c, a.BankKeeper.GetAllBalances(R, collector).Sub(colBefore...))
	}

	// ---- oracle 3: estimate == execution, estimate leaves the state untouched ----------------------
	if !c.split() {
		Q, _ := state.CacheContext()
		est, have, errQ := w.estimate(Q, whitelisted, c)
		switch {
		case !have:
			st.Vac["estimate_skipped_no_corresponding_query"]++
		case errQ != nil:
			add("3.estimate-fails-execution-succeeds", "%s: executed amount %s but the estimate failed: %v", desc, amtR, errQ)
		default:
			st.Vac["estimates_compared"]++
			if !est.Equal(amtR) {
				add("3.estimate-equals-execution", "%s: estimate %s, executed %s", desc, est, amtR)
			}
		}
		if have && w.plainCorresponds && c.Tag == "1000" {
			// the other estimate entry points of the query service for the same swap
			for _, v := range w.estimateVariants(Q, c) {
				st.Vac["estimate_variants_compared"]++
				if v.err != nil {
					add("3.estimate-variant-fails."+v.name, "%s: executed amount %s but query %s failed: %v", desc, amtR, v.name, v.err)
				} else if !v.amt.Equal(amtR) {
					add("3.estimate-variant-equals-execution."+v.name, "%s: query %s returned %s, executed %s", desc, v.name, v.amt, amtR)
				}
			}
		}
		if core.StateHash(a, Q, nil) != h0 {
			add("3.estimate-changes-state", "%s: the estimate query changed the store content", desc)
		}
	}

	// ---- oracle 4: limits ---------------------------------------------------------------------------
	// exact limit: must succeed with the same result
	lim := obs
	L1, _ := state.CacheContext()
	amt1, err1 := w.sendRouted(st, L1, sender, c, lim)
	if err1 != nil {
		add("4.exact-limit-succeeds", "%s: observed %s with open limits, but with limit=%s the message fails: %v", desc, obs, lim, err1)
	} else {
		o := measured(L1, amt1)
		if !amt1.Equal(amtR) || !o.Equal(obs) {
			add("4.limit-run-differs", "%s: with limit=%s result %s/%s, with open limits %s/%s", desc, lim, amt1, o, amtR, obs)
		}
		st.Vac["limit_exact_succeeded"]++
	}
	// one unit beyond: must fail as a whole; a success must still respect the caller's limit
	var lim2 sdkmath.Int
	if c.Kind == "in" {
		lim2 = obs.AddRaw(1)
	} else {
		lim2 = obs.SubRaw(1)
	}
	L2, _ := state.CacheContext()
	amt2, err2 := w.sendRouted(st, L2, sender, c, lim2)
	if err2 == nil {
		o := measured(L2, amt2)
		if c.Kind == "in" {
			if o.LT(lim2) {
				add("4.delivered-ge-min-out", "%s: succeeded with token_out_min_amount=%s but delivered %s (response %s)", desc, lim2, o, amt2)
			} else {
				add("4.limit-run-differs", "%s: with min=%s delivered %s, with open limits %s", desc, lim2, o, obs)
			}
		} else {
			if o.GT(lim2) {
				add("4.charged-le-max-in", "%s: succeeded with token_in_max_amount=%s but the sender was charged %s %s (response %s; taker fee collector received %s)",
					desc, lim2, o, c.start(), amt2, a.BankKeeper.GetAllBalances(L2, collector).Sub(colBefore...))
			} else {
				add("4.limit-run-differs", "%s: with max=%s charged %s, with open limits %s", desc, lim2, o, obs)
			}
		}
		if st.Verbose && c.Kind == "out" {
			// diagnosis only (replay): the smallest maximum the message accepts
			lo, hi := sdkmath.OneInt(), obs
			for lo.LT(hi) {
				mid := lo.Add(hi).QuoRaw(2)
				b, _ := state.CacheContext()
				if _, e := w.sendRouted(st, b, sender, c, mid); e == nil {
					hi = mid
				} else {
					lo = mid.AddRaw(1)
				}
			}
			fmt.Printf("   diagnosis: smallest token_in_max_amount accepted = %s, sender charged %s -> up to %s %s above the caller's maximum\n", lo, obs, obs.Sub(lo), c.start())
		}
	} else {
		st.Vac["limit_violations_rejected"]++
		if core.StateHash(a, L2, nil) != h0 {
			add("4.failed-swap-moved-state", "%s: message with limit=%s failed (%v) but the store content changed", desc, lim2, err2)
		} else {
			st.Vac["limit_fail_state_unchanged"]++
		}
	}
	return fs
}

// ---------------------------------------------------------------------------------------------
// Taker-fee share agreements ("skim"). A routed swap does not move the skimmed coins: it adds them to
// an accumulator in the poolmanager store (share-agreement denom x fee denom), which the txfees epoch
// hook later pays out of the taker-fee collector to the agreement's skim address. The bank store is
// therefore compared as before; on top of it
//
//	split routes:  the accumulators after the routed message == after the legs sent one after another
//	single routes: the accumulators grew by exactly what the documented rule gives for the taker fees
//	               the message charged (collector's balance increase, per denom): every agreement whose
//	               denom occurs anywhere in the route - or, when there is none, the scaled agreements of
//	               every registered alloyed asset in the route - takes trunc(fee x percent) of every fee coin
//	settlement:    after the txfees epoch hook on the routed branch every skim address holds exactly what
//	               had accrued for it and the accumulators are empty
//
// The one-hop-at-a-time composition skims each hop's fee only for the agreements of that hop's own two
// denoms; the routed message skims every hop's fee for every agreement of the route. The two differ by
// design (the agreement text: "any trade route that includes the denom"), so their (dis)agreement is
// counted, not asserted: sum_skim_routed_equals_per_hop / sum_skim_routed_differs_from_per_hop.
// ---------------------------------------------------------------------------------------------

// accrued reads every accumulator: share-agreement denom -> skimmed coins (zero entries dropped).
func (w *World) accrued(ctx sdk.Context) map[string]sdk.Coins {
	accs, err := w.App.PoolManagerKeeper.GetAllTakerFeeShareAccumulators(ctx)
	if err != nil {
		panic(err)
	}
	out := map[string]sdk.Coins{}
	for _, a := range accs {
		cs := sdk.NewCoins()
		for _, c := range a.SkimmedTakerFees {
			if c.Amount.IsPositive() {
				cs = cs.Add(c)
			}
		}
		if !cs.IsZero() {
			out[a.Denom] = cs
		}
	}
	return out
}

func accruedString(m map[string]sdk.Coins) string {
	ks := make([]string, 0, len(m))
	for k := range m {
		ks = append(ks, k)
	}
	sort.Strings(ks)
	var s []string
	for _, k := range ks {
		var cs []string
		for _, c := range m[k] {
			cs = append(cs, c.Amount.String()+alias(c.Denom))
		}
		s = append(s, alias(k)+":"+strings.Join(cs, ","))
	}
	if len(s) == 0 {
		return "{}"
	}
	return "{" + strings.Join(s, " ") + "}"
}

func coinsString(cs sdk.Coins) string {
	var s []string
	for _, c := range cs {
		s = append(s, c.Amount.String()+alias(c.Denom))
	}
	return strings.Join(s, ",")
}

func accruedEqual(x, y map[string]sdk.Coins) bool { return accruedString(x) == accruedString(y) }

// expectedSkim is the documented rule applied to the fees of one routed message.
func (w *World) expectedSkim(before map[string]sdk.Coins, rt Route, fees sdk.Coins) (map[string]sdk.Coins, bool) {
	in := map[string]bool{rt.Start(): true}
	for _, h := range rt {
		in[h.Out] = true
	}
	var ags []Agreement
	for _, ag := range w.agreementList() {
		if in[ag.Denom] {
			ags = append(ags, ag)
		}
	}
	if len(ags) == 0 {
		var al []string
		for d := range w.Alloyed {
			if in[d] {
				al = append(al, d)
			}
		}
		sort.Strings(al)
		for _, d := range al {
			ags = append(ags, w.Alloyed[d]...)
		}
	}
	out := map[string]sdk.Coins{}
	for k, v := range before {
		out[k] = v
	}
	total := osmomath.ZeroDec()
	for _, ag := range ags {
		total = total.Add(ag.Pct)
	}
	if total.GT(osmomath.OneDec()) {
		return out, false // the message must have been refused
	}
	for _, f := range fees {
		for _, ag := range ags {
			amt := osmomath.NewDecFromInt(f.Amount).Mul(ag.Pct).TruncateInt()
			if amt.IsPositive() {
				out[ag.Denom] = out[ag.Denom].Add(sdk.NewCoin(f.Denom, amt))
			}
		}
	}
	return out, true
}

func (w *World) checkSkim(st *Stats, add func(as, format string, args ...interface{}), desc, o1 string, state, R, C sdk.Context, haveC bool, c Case, fees sdk.Coins) {
	a := w.App
	accR := w.accrued(R)
	if c.split() {
		if haveC {
			if accC := w.accrued(C); !accruedEqual(accR, accC) {
				add("2.skim-accrual-equals-sum-of-legs", "%s: taker-fee share accumulators after the split message %s, after the legs one after another %s", desc, accruedString(accR), accruedString(accC))
			} else {
				st.Vac["skim_accruals_compared"]++
			}
		}
	} else {
		acc0 := w.accrued(state)
		want, ok := w.expectedSkim(acc0, c.Route, fees)
		if !ok {
			add("1.skim-accrual-equals-route-rule", "%s: the share percentages of the route exceed 1 but the message succeeded", desc)
		} else if !accruedEqual(accR, want) {
			add("1.skim-accrual-equals-route-rule", "%s: taker fees charged %s; accumulators before %s, after the routed message %s, by the rule of the agreements %s", desc, coinsString(fees), accruedString(acc0), accruedString(accR), accruedString(want))
		} else {
			st.Vac["skim_accruals_compared"]++
			if !accruedEqual(accR, acc0) {
				st.Vac["skim_accrued_by_routed_swap"]++
				if len(c.Route) > 1 {
					st.Vac["skim_accrued_by_multihop_swap"]++
				}
				for d := range w.Alloyed {
					if c.Route.Start() == d || c.Route.End() == d {
						st.Vac["skim_accrued_through_alloyed_asset"]++
					}
				}
			}
		}
		if haveC {
			if accC := w.accrued(C); accruedEqual(accR, accC) {
				st.Extra["sum_skim_routed_equals_per_hop"]++
			} else {
				st.Extra["sum_skim_routed_differs_from_per_hop"]++
				if st.SkimNotes < 3 && c.Tag == "1000000" {
					st.SkimNotes++
					st.Notes["skim: "+desc] = fmt.Sprintf("routed %s, one hop at a time %s", accruedString(accR), accruedString(accC))
				}
			}
		}
	}
	// settlement on a scratch branch of the routed branch
	if len(accR) == 0 {
		return
	}
	S, _ := R.CacheContext()
	before := map[string]sdk.Coins{}
	for _, ag := range w.agreementList() {
		before[ag.Denom] = a.BankKeeper.GetAllBalances(S, ag.Addr)
	}
	st.Transitions++
	if err := core.Try(func() error { return a.TxFeesKeeper.AfterEpochEnd(S, "day", 1) }); err != nil {
		add(o1+".skim-settlement", "%s: the txfees epoch hook failed after the routed message: %v", desc, err)
		return
	}
	for _, ag := range w.agreementList() {
		got := a.BankKeeper.GetAllBalances(S, ag.Addr).Sub(before[ag.Denom]...)
		if !got.Equal(accR[ag.Denom]) {
			add(o1+".skim-settlement", "%s: accrued for %s before the epoch hook %s, skim address %s received {%s}", desc, ag.Denom, accruedString(map[string]sdk.Coins{ag.Denom: accR[ag.Denom]}), ag.Name, coinsString(got))
			return
		}
	}
	if left := w.accrued(S); len(left) != 0 {
		add(o1+".skim-settlement", "%s: accumulators left after the epoch hook: %s", desc, accruedString(left))
		return
	}
	st.Vac["skim_settlements_checked"]++
}

// cosmwasmProbe executes every 1- and 2-hop route through a CosmWasm pool of the world "alloy" (both
// contracts) in the initial state, exact-in and exact-out of 1000000, and digests the response amounts
// (or refusal classes) and the hash of all stores after each. Every shard is a separate process with its
// own wasm VM and module cache: bin/run demands the same digest from all of them (extra key eq_...).
// Repeatability inside one process is what oracle 4 (L1 re-executes every routed message on a sibling
// branch) and oracle 1 already assert for every case.
func cosmwasmProbe(st *Stats) string {
	lt := latticeFor(FeeAlloy)
	w := lt.w
	h := sha256.New()
	n := 0
	for _, rt := range lt.routes {
		if len(rt) > 2 {
			continue
		}
		cw := false
		for _, hp := range rt {
			cw = cw || w.pool(hp.Pool).Type == "cosmwasm"
		}
		if !cw {
			continue
		}
		for _, kind := range []string{"in", "out"} {
			c := Case{Kind: kind, Route: rt, Amounts: []string{"1000000"}, Tag: "1000000"}
			b, _ := lt.init.CacheContext()
			lim := sdkmath.OneInt()
			if kind == "out" {
				lim = w.balOf(b, core.Acc("T"), c.start())
			}
			amt, err := w.sendRouted(st, b, core.Acc("T"), c, lim)
			sh := core.StateHash(w.App, b, nil)
			res := errClass(err)
			if err == nil {
				res = amt.String()
			}
			fmt.Fprintf(h, "%s|%s|%s|%x\n", rt.String(), kind, res, sh)
			n++
		}
	}
	st.Vac["cosmwasm_determinism_probe_cases"] += int64(n)
	return fmt.Sprintf("%d cases %x", n, h.Sum(nil)[:12])
}
