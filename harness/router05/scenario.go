package main

import (
	"fmt"
	"strings"

	sdkmath "cosmossdk.io/math"
	sdk "github.com/cosmos/cosmos-sdk/types"
	authtypes "github.com/cosmos/cosmos-sdk/x/auth/types"
	"github.com/cosmos/gogoproto/proto"

	"github.com/osmosis-labs/osmosis/osmomath"
	"github.com/osmosis-labs/osmosis/v31/app"
	clmodel "github.com/osmosis-labs/osmosis/v31/x/concentrated-liquidity/model"
	cltypes "github.com/osmosis-labs/osmosis/v31/x/concentrated-liquidity/types"
	"github.com/osmosis-labs/osmosis/v31/x/gamm/pool-models/balancer"
	"github.com/osmosis-labs/osmosis/v31/x/gamm/pool-models/stableswap"
	gammtypes "github.com/osmosis-labs/osmosis/v31/x/gamm/types"
	pmtypes "github.com/osmosis-labs/osmosis/v31/x/poolmanager/types"
	txfeestypes "github.com/osmosis-labs/osmosis/v31/x/txfees/types"

	"github.com/osmosis-labs/osmosis/v31/zzverif/core"
)

// ---------------------------------------------------------------------------------------------
// The C05 scenario: five pools over a,b,c,d,uosmo created through the real messages.
//
//	pool 1 balancer   (a,b)     spread 0.003
//	pool 2 stableswap (b,c)     spread 0.001
//	pool 3 concentrated (c,d)   spread 0.002, tick spacing 100, full-range + narrow position
//	pool 4 balancer   (d,a)     spread 0
//	pool 5 concentrated (a,uosmo) spread 0.0005, tick spacing 100, full-range + narrow position
//
// The pool graph is the 4-cycle a-b-c-d-a with uosmo hanging off a.
// ---------------------------------------------------------------------------------------------

// Fee settings (one world each). The reduced-fee whitelist always contains W, so the second
// configuration axis (sender T ordinary / W whitelisted) is a choice of sender in the same world.
const (
	FeeZero    = "zero"    // every taker fee 0 (module default)
	FeeDefault = "default" // TakerFeeParams.DefaultTakerFee = 0.001
	FeePair    = "pair"    // default 0, pair a->b = 0.01 through the keeper's setter (directional)
)

var feeSettings = []string{FeeZero, FeeDefault, FeePair}
var senders = []string{"T", "W"}

// Config is one point of the configuration space; it is part of every replay artefact.
type Config struct {
	Fee    string `json:"taker_fee"`
	Sender string `json:"sender"`
}

func (c Config) String() string { return c.Fee + "/" + c.Sender }

// Op is one symbol of the prior-activity alphabet.
type Op struct {
	K string `json:"k"`           // swap join exit clcreate clwithdraw
	P uint64 `json:"p"`           // pool id
	D int    `json:"d,omitempty"` // swap direction: 0 = first denom in, 1 = second denom in
}

func (o Op) String() string {
	if o.K == "swap" {
		return fmt.Sprintf("swap%d.%d", o.P, o.D)
	}
	return fmt.Sprintf("%s%d", o.K, o.P)
}

func opsString(ops []Op) string {
	if len(ops) == 0 {
		return "-"
	}
	s := make([]string, len(ops))
	for i, o := range ops {
		s[i] = o.String()
	}
	return strings.Join(s, ";")
}

// Ledger is the harness's record of the prior activity (requests/responses only).
type Ledger struct {
	Ops       []Op
	Narrow    map[uint64]uint64 // CL pool -> id of A's narrow position created at setup (0 once withdrawn)
	Extra     map[uint64]bool   // CL pool -> an extra position has been created
	ExtraLiq  map[uint64]osmomath.Dec
	NarrowLiq map[uint64]osmomath.Dec
}

func (l *Ledger) Clone() *Ledger {
	n := &Ledger{Ops: append([]Op{}, l.Ops...), Narrow: map[uint64]uint64{}, Extra: map[uint64]bool{}, ExtraLiq: map[uint64]osmomath.Dec{}, NarrowLiq: map[uint64]osmomath.Dec{}}
	for k, v := range l.Narrow {
		n.Narrow[k] = v
	}
	for k, v := range l.Extra {
		n.Extra[k] = v
	}
	for k, v := range l.ExtraLiq {
		n.ExtraLiq[k] = v
	}
	for k, v := range l.NarrowLiq {
		n.NarrowLiq[k] = v
	}
	return n
}

// PoolInfo describes one edge of the pool graph.
type PoolInfo struct {
	ID   uint64
	Type string // balancer stableswap concentrated
	X, Y string
}

// World is one configured application instance (one taker-fee setting).
type World struct {
	Env   *core.Env
	App   *app.OsmosisApp
	Fee   string
	Pools []PoolInfo
	Init  *Ledger
	// named accounts whose balances are listed when two branches differ
	Named []namedAcc
	// set by estimate(): the fee-including estimate queries describe what this sender executes
	plainCorresponds bool
}

type namedAcc struct {
	Name string
	Addr sdk.AccAddress
}

var denoms = []string{"tka", "tkb", "tkc", "tkd", "uosmo"}

func sdkInt(n int64) sdkmath.Int { return sdkmath.NewInt(n) }

func mustUnmarshal(res *sdk.Result, m proto.Message) {
	if len(res.MsgResponses) > 0 {
		if err := proto.Unmarshal(res.MsgResponses[0].Value, m); err != nil {
			panic(err)
		}
		return
	}
	if err := proto.Unmarshal(res.Data, m); err != nil {
		panic(err)
	}
}

func must(r core.MsgResult, what string) *sdk.Result {
	if !r.OK() {
		panic(fmt.Sprintf("harness: setup step %q failed: %v", what, r.Err))
	}
	return r.Res
}

// clRanges: narrow range created at setup and the extra range of the clcreate op, per CL pool.
var clNarrow = map[uint64][2]int64{3: {-1000, 1000}, 5: {-5100000, -4900000}}
var clExtra = map[uint64][2]int64{3: {-20000, 30000}, 5: {-5500000, -4500000}}

// NewWorld builds the application, sets the configuration and creates the five pools.
func NewWorld(fee string) *World {
	big := "1000000000000000"
	fund := core.Coins("tka", big, "tkb", big, "tkc", big, "tkd", big, "uosmo", big)
	env := core.NewEnv(core.GenesisOpts{Balances: map[string]sdk.Coins{"A": fund, "B": fund, "S": fund, "T": fund, "W": fund}})
	a, ctx := env.App, env.Ctx
	w := &World{Env: env, App: a, Fee: fee}

	// concentrated-liquidity parameters: permissionless creation, quote denoms d and uosmo
	p := cltypes.DefaultParams()
	p.IsPermissionlessPoolCreationEnabled = true
	a.ConcentratedLiquidityKeeper.SetParams(ctx, p)
	qd := append(pmtypes.DefaultParams().AuthorizedQuoteDenoms, "tkd")
	a.PoolManagerKeeper.SetParam(ctx, pmtypes.KeyAuthorizedQuoteDenoms, qd)

	// taker-fee configuration
	a.PoolManagerKeeper.SetParam(ctx, pmtypes.KeyReducedTakerFeeByWhitelist, []string{core.Acc("W").String()})
	switch fee {
	case FeeZero:
	case FeeDefault:
		a.PoolManagerKeeper.SetParam(ctx, pmtypes.KeyDefaultTakerFee, osmomath.MustNewDecFromStr("0.001"))
	case FeePair:
		a.PoolManagerKeeper.SetDenomPairTakerFee(ctx, "tka", "tkb", osmomath.MustNewDecFromStr("0.01"))
	default:
		panic("unknown fee setting " + fee)
	}

	A := core.Acc("A")
	// pool 1: balancer (a,b)
	m1 := balancer.NewMsgCreateBalancerPool(A, balancer.PoolParams{SwapFee: osmomath.MustNewDecFromStr("0.003"), ExitFee: osmomath.ZeroDec()},
		[]balancer.PoolAsset{{Token: sdk.NewCoin("tka", sdkInt(2_000_000_000)), Weight: sdkInt(1)}, {Token: sdk.NewCoin("tkb", sdkInt(1_000_000_000)), Weight: sdkInt(1)}}, "")
	var r1 balancer.MsgCreateBalancerPoolResponse
	mustUnmarshal(must(core.Deliver(a, ctx, &m1), "create balancer(a,b)"), &r1)
	// pool 2: stableswap (b,c)
	m2 := stableswap.NewMsgCreateStableswapPool(A, stableswap.PoolParams{SwapFee: osmomath.MustNewDecFromStr("0.001"), ExitFee: osmomath.ZeroDec()},
		core.Coins("tkb", 1_000_000_000, "tkc", 1_100_000_000), []uint64{1, 1}, "")
	var r2 stableswap.MsgCreateStableswapPoolResponse
	mustUnmarshal(must(core.Deliver(a, ctx, &m2), "create stableswap(b,c)"), &r2)
	// pool 3: concentrated (c,d)
	m3 := clmodel.NewMsgCreateConcentratedPool(A, "tkc", "tkd", 100, osmomath.MustNewDecFromStr("0.002"))
	var r3 clmodel.MsgCreateConcentratedPoolResponse
	mustUnmarshal(must(core.Deliver(a, ctx, &m3), "create concentrated(c,d)"), &r3)
	// pool 4: balancer (d,a) spread 0
	m4 := balancer.NewMsgCreateBalancerPool(A, balancer.PoolParams{SwapFee: osmomath.ZeroDec(), ExitFee: osmomath.ZeroDec()},
		[]balancer.PoolAsset{{Token: sdk.NewCoin("tkd", sdkInt(1_000_000_000)), Weight: sdkInt(2)}, {Token: sdk.NewCoin("tka", sdkInt(3_000_000_000)), Weight: sdkInt(1)}}, "")
	var r4 balancer.MsgCreateBalancerPoolResponse
	mustUnmarshal(must(core.Deliver(a, ctx, &m4), "create balancer(d,a)"), &r4)
	// pool 5: concentrated (a,uosmo)
	m5 := clmodel.NewMsgCreateConcentratedPool(A, "tka", "uosmo", 100, osmomath.MustNewDecFromStr("0.0005"))
	var r5 clmodel.MsgCreateConcentratedPoolResponse
	mustUnmarshal(must(core.Deliver(a, ctx, &m5), "create concentrated(a,uosmo)"), &r5)

	w.Pools = []PoolInfo{
		{r1.PoolID, "balancer", "tka", "tkb"}, {r2.PoolID, "stableswap", "tkb", "tkc"}, {r3.PoolID, "concentrated", "tkc", "tkd"},
		{r4.PoolID, "balancer", "tkd", "tka"}, {r5.PoolID, "concentrated", "tka", "uosmo"},
	}
	for i, pi := range w.Pools {
		if pi.ID != uint64(i+1) {
			panic(fmt.Sprintf("harness: pool ids not 1..5: %+v", w.Pools))
		}
	}

	// positions: full range first (sets the price), then a narrow one; all by A
	l := &Ledger{Narrow: map[uint64]uint64{}, Extra: map[uint64]bool{}, ExtraLiq: map[uint64]osmomath.Dec{}, NarrowLiq: map[uint64]osmomath.Dec{}}
	mk := func(pool uint64, lo, hi int64, coins sdk.Coins) cltypes.MsgCreatePositionResponse {
		msg := &cltypes.MsgCreatePosition{PoolId: pool, Sender: A.String(), LowerTick: lo, UpperTick: hi, TokensProvided: coins,
			TokenMinAmount0: sdkmath.ZeroInt(), TokenMinAmount1: sdkmath.ZeroInt()}
		var resp cltypes.MsgCreatePositionResponse
		mustUnmarshal(must(core.Deliver(a, ctx, msg), fmt.Sprintf("create position pool %d [%d,%d]", pool, lo, hi)), &resp)
		return resp
	}
	mk(3, cltypes.MinInitializedTick, cltypes.MaxTick, core.Coins("tkc", 1_000_000_000, "tkd", 1_000_000_000))
	n3 := mk(3, clNarrow[3][0], clNarrow[3][1], core.Coins("tkc", 100_000_000, "tkd", 100_000_000))
	mk(5, cltypes.MinInitializedTick, cltypes.MaxTick, core.Coins("tka", 1_000_000_000, "uosmo", 500_000_000))
	n5 := mk(5, clNarrow[5][0], clNarrow[5][1], core.Coins("tka", 100_000_000, "uosmo", 50_000_000))
	l.Narrow[3], l.NarrowLiq[3] = n3.PositionId, n3.LiquidityCreated
	l.Narrow[5], l.NarrowLiq[5] = n5.PositionId, n5.LiquidityCreated
	w.Init = l

	// accounts listed in difference reports
	for _, n := range []string{"T", "W"} {
		w.Named = append(w.Named, namedAcc{n, core.Acc(n)})
	}
	for _, pi := range w.Pools {
		pl, err := a.PoolManagerKeeper.GetPool(ctx, pi.ID)
		if err != nil {
			panic(err)
		}
		w.Named = append(w.Named, namedAcc{fmt.Sprintf("pool%d", pi.ID), pl.GetAddress()})
		if pi.Type == "concentrated" {
			cp, err := a.ConcentratedLiquidityKeeper.GetConcentratedPoolById(ctx, pi.ID)
			if err != nil {
				panic(err)
			}
			w.Named = append(w.Named, namedAcc{fmt.Sprintf("pool%d.spread-rewards", pi.ID), cp.GetSpreadRewardsAddress()})
		}
	}
	for _, m := range []string{txfeestypes.TakerFeeCollectorName, txfeestypes.TakerFeeCommunityPoolName, txfeestypes.TakerFeeStakersName, txfeestypes.TakerFeeBurnName, "distribution"} {
		w.Named = append(w.Named, namedAcc{m, authtypes.NewModuleAddress(m)})
	}
	return w
}

func (w *World) pool(id uint64) PoolInfo { return w.Pools[id-1] }

// errClass maps an error to a short stable class (numbers stripped).
func errClass(err error) string {
	if err == nil {
		return "ok"
	}
	m := []rune(err.Error())
	out := make([]rune, 0, 60)
	for _, c := range m {
		if c >= '0' && c <= '9' || c == '(' || c == '{' {
			break
		}
		out = append(out, c)
		if len(out) >= 60 {
			break
		}
	}
	s := strings.TrimSpace(string(out))
	if s == "" {
		s = fmt.Sprintf("%T", err)
	}
	return "rejected:" + s
}

const priorSwapAmount = 50_000_000

// Apply executes one prior-activity op (never by the traders T/W).
func (w *World) Apply(ctx sdk.Context, l *Ledger, op Op, _ func(a, s, d string)) (sdk.Context, string) {
	a := w.App
	l.Ops = append(l.Ops, op)
	switch op.K {
	case "swap":
		pi := w.pool(op.P)
		in, out := pi.X, pi.Y
		if op.D == 1 {
			in, out = pi.Y, pi.X
		}
		r := core.Deliver(a, ctx, &pmtypes.MsgSwapExactAmountIn{Sender: core.Acc("S").String(), Routes: []pmtypes.SwapAmountInRoute{{PoolId: op.P, TokenOutDenom: out}},
			TokenIn: sdk.NewCoin(in, sdkInt(priorSwapAmount)), TokenOutMinAmount: sdkmath.OneInt()})
		if !r.OK() {
			return ctx, errClass(r.Err)
		}
	case "join":
		r := core.Deliver(a, ctx, &gammtypes.MsgJoinPool{Sender: core.Acc("B").String(), PoolId: op.P, ShareOutAmount: gammtypes.OneShare.MulRaw(10), TokenInMaxs: sdk.Coins{}})
		if !r.OK() {
			return ctx, errClass(r.Err)
		}
	case "exit":
		r := core.Deliver(a, ctx, &gammtypes.MsgExitPool{Sender: core.Acc("A").String(), PoolId: op.P, ShareInAmount: gammtypes.OneShare.MulRaw(20), TokenOutMins: sdk.Coins{}})
		if !r.OK() {
			return ctx, errClass(r.Err)
		}
	case "clcreate":
		pi := w.pool(op.P)
		rg := clExtra[op.P]
		amt0, amt1 := int64(50_000_000), int64(50_000_000)
		if op.P == 5 {
			amt1 = 25_000_000
		}
		msg := &cltypes.MsgCreatePosition{PoolId: op.P, Sender: core.Acc("B").String(), LowerTick: rg[0], UpperTick: rg[1],
			TokensProvided: core.Coins(pi.X, amt0, pi.Y, amt1), TokenMinAmount0: sdkmath.ZeroInt(), TokenMinAmount1: sdkmath.ZeroInt()}
		r := core.Deliver(a, ctx, msg)
		if !r.OK() {
			return ctx, errClass(r.Err)
		}
		l.Extra[op.P] = true
	case "clwithdraw":
		id := l.Narrow[op.P]
		if id == 0 {
			return ctx, "rejected:no-such-position"
		}
		r := core.Deliver(a, ctx, &cltypes.MsgWithdrawPosition{PositionId: id, Sender: core.Acc("A").String(), LiquidityAmount: l.NarrowLiq[op.P]})
		if !r.OK() {
			return ctx, errClass(r.Err)
		}
		l.Narrow[op.P] = 0
	default:
		panic("unknown op " + op.K)
	}
	return ctx, "ok"
}

// Enabled lists the prior-activity alphabet (simplest first).
func (w *World) Enabled(ctx sdk.Context, l *Ledger, depth int) []Op {
	var ops []Op
	for _, pi := range w.Pools {
		ops = append(ops, Op{K: "swap", P: pi.ID, D: 0}, Op{K: "swap", P: pi.ID, D: 1})
	}
	ops = append(ops, Op{K: "join", P: 1}, Op{K: "exit", P: 1}, Op{K: "join", P: 2}, Op{K: "exit", P: 2})
	for _, p := range []uint64{3, 5} {
		if !l.Extra[p] {
			ops = append(ops, Op{K: "clcreate", P: p})
		}
		if l.Narrow[p] != 0 {
			ops = append(ops, Op{K: "clwithdraw", P: p})
		}
	}
	return ops
}

// reserves returns the pool's total liquidity.
func (w *World) reserves(ctx sdk.Context, id uint64) sdk.Coins {
	c, err := w.App.PoolManagerKeeper.GetTotalPoolLiquidity(ctx, id)
	if err != nil {
		panic(err)
	}
	return c
}
