package main

import (
	"encoding/json"
	"fmt"
	"os"
	"path/filepath"
	"sort"
	"strings"

	sdkmath "cosmossdk.io/math"
	wasmtypes "github.com/CosmWasm/wasmd/x/wasm/types"
	sdk "github.com/cosmos/cosmos-sdk/types"
	authtypes "github.com/cosmos/cosmos-sdk/x/auth/types"
	banktypes "github.com/cosmos/cosmos-sdk/x/bank/types"
	govtypes "github.com/cosmos/cosmos-sdk/x/gov/types"
	"github.com/cosmos/gogoproto/proto"

	"github.com/osmosis-labs/osmosis/osmomath"
	"github.com/osmosis-labs/osmosis/v31/app"
	clmodel "github.com/osmosis-labs/osmosis/v31/x/concentrated-liquidity/model"
	cltypes "github.com/osmosis-labs/osmosis/v31/x/concentrated-liquidity/types"
	cwmsg "github.com/osmosis-labs/osmosis/v31/x/cosmwasmpool/cosmwasm/msg"
	cwmodel "github.com/osmosis-labs/osmosis/v31/x/cosmwasmpool/model"
	cwtypes "github.com/osmosis-labs/osmosis/v31/x/cosmwasmpool/types"
	"github.com/osmosis-labs/osmosis/v31/x/gamm/pool-models/balancer"
	"github.com/osmosis-labs/osmosis/v31/x/gamm/pool-models/stableswap"
	gammtypes "github.com/osmosis-labs/osmosis/v31/x/gamm/types"
	pmtypes "github.com/osmosis-labs/osmosis/v31/x/poolmanager/types"
	txfeestypes "github.com/osmosis-labs/osmosis/v31/x/txfees/types"

	"github.com/osmosis-labs/osmosis/v31/zzverif/core"
)

// ---------------------------------------------------------------------------------------------
// The C05 scenario: pools of every type the router can dispatch to, created through the real
// messages (the contract code of the CosmWasm pools is uploaded and whitelisted the way the
// repository's own helper does; everything after that is a message).
//
//	pool 1 balancer     (a,b)          spread 0.003
//	pool 2 stableswap   (b,c)          spread 0.001
//	pool 3 concentrated (c,d)          spread 0.002, tick spacing 100, full-range + narrow position
//	pool 4 balancer     (d,a)          spread 0, weights 2:1
//	pool 5 concentrated (a,uosmo)      spread 0.0005, tick spacing 100, full-range + narrow position
//	pool 6 cosmwasm     (b,c)          the transmuter contract (1:1, no spread), parallel to pool 2
//	pool 7 balancer     (uosmo,e,f)    spread 0.0025, weights 1:2:3
//	pool 8 stableswap   (e,f,g)        spread 0.0004, scaling factors 1:4:10
//	pool 9 cosmwasm     (d,h,alloy)    the transmuter v3 ("alloyed") contract — only in the world "alloy"
//
// The pool graph is the 4-cycle a-b-c-d-a with a parallel edge b=c, uosmo hanging off a, the
// triangle uosmo-e-f hanging off uosmo and the triangle e-f-g sharing the edge e-f with it; in the
// world "alloy" the triangle d-h-alloy hangs off d (h and the alloyed asset occur in pool 9 only).
// ---------------------------------------------------------------------------------------------

// Fee settings (one world each). The reduced-fee whitelist always contains W, so the second
// configuration axis (sender T ordinary / W whitelisted) is a choice of sender in the same world.
const (
	FeeZero    = "zero"    // every taker fee 0 (module default)
	FeeDefault = "default" // TakerFeeParams.DefaultTakerFee = 0.001
	FeePair    = "pair"    // default 0, pair a->b = 0.01 through the keeper's setter (directional)
	FeeShare   = "share"   // default 0.001 + taker-fee share agreements on tkb (25 % -> K1) and tkf (10 % -> K2), set by the gov-only message
	FeeAlloy   = "alloy"   // default 0.001 + pool 9 (transmuter v3) registered as alloyed pool + share agreement on tkh (20 % -> K3), both by the gov-only messages
)

var feeSettings = []string{FeeZero, FeeDefault, FeePair, FeeShare, FeeAlloy}
var senders = []string{"T", "W"}

// Config is one point of the configuration space; it is part of every replay artefact.
type Config struct {
	Fee    string `json:"taker_fee"`
	Sender string `json:"sender"`
}

func (c Config) String() string { return c.Fee + "/" + c.Sender }

// Op is one symbol of the prior-activity alphabet.
type Op struct {
	K string `json:"k"`           // swap join exit clcreate clwithdraw cwjoin cwexit
	P uint64 `json:"p"`           // pool id
	D int    `json:"d,omitempty"` // swap direction. Two-denom pools: 0 = first denom in, 1 = second denom in; n-denom pools: denom[d] in, denom[d+1 mod n] out
}

func (o Op) String() string {
	if o.K == "swap" {
		return fmt.Sprintf("swap%d.%d", o.P, o.D)
	}
	return fmt.Sprintf("%s%d", o.K, o.P)
}

func opsString(ops []Op) string {
	if len(ops) == 0 {
		return "-"
	}
	s := make([]string, len(ops))
	for i, o := range ops {
		s[i] = o.String()
	}
	return strings.Join(s, ";")
}

// Ledger is the harness's record of the prior activity (requests/responses only).
type Ledger struct {
	Ops       []Op
	Narrow    map[uint64]uint64 // CL pool -> id of A's narrow position created at setup (0 once withdrawn)
	Extra     map[uint64]bool   // CL pool -> an extra position has been created
	ExtraLiq  map[uint64]osmomath.Dec
	NarrowLiq map[uint64]osmomath.Dec
}

func (l *Ledger) Clone() *Ledger {
	n := &Ledger{Ops: append([]Op{}, l.Ops...), Narrow: map[uint64]uint64{}, Extra: map[uint64]bool{}, ExtraLiq: map[uint64]osmomath.Dec{}, NarrowLiq: map[uint64]osmomath.Dec{}}
	for k, v := range l.Narrow {
		n.Narrow[k] = v
	}
	for k, v := range l.Extra {
		n.Extra[k] = v
	}
	for k, v := range l.ExtraLiq {
		n.ExtraLiq[k] = v
	}
	for k, v := range l.NarrowLiq {
		n.NarrowLiq[k] = v
	}
	return n
}

// PoolInfo describes one pool of the graph: every ordered pair of its denoms is an edge.
type PoolInfo struct {
	ID       uint64
	Type     string // balancer stableswap concentrated cosmwasm
	Denoms   []string
	Contract string // cosmwasm pools: the contract address
}

func (p PoolInfo) has(d string) bool {
	for _, x := range p.Denoms {
		if x == d {
			return true
		}
	}
	return false
}

// swapPair returns the (in, out) denoms of swap direction d.
func (p PoolInfo) swapPair(d int) (string, string) {
	n := len(p.Denoms)
	if n == 2 {
		if d == 1 {
			return p.Denoms[1], p.Denoms[0]
		}
		return p.Denoms[0], p.Denoms[1]
	}
	return p.Denoms[d%n], p.Denoms[(d+1)%n]
}

// Agreement is a taker-fee share agreement as requested by the harness (the reference of the skim oracle).
type Agreement struct {
	Denom string
	Pct   osmomath.Dec
	Addr  sdk.AccAddress
	Name  string
}

// World is one configured application instance (one taker-fee setting).
type World struct {
	Env    *core.Env
	App    *app.OsmosisApp
	Fee    string
	Pools  []PoolInfo
	Denoms []string // every denom of the pool graph, in order of first appearance
	Init   *Ledger
	// named accounts whose balances are listed when two branches differ
	Named []namedAcc
	// share agreements set through MsgSetTakerFeeShareAgreementForDenom, by denom
	Agreements map[string]Agreement
	// registered alloyed pools: alloyed denom -> the scaled agreements the registration must have produced
	Alloyed map[string][]Agreement
	// set by estimate(): the fee-including estimate queries describe what this sender executes
	plainCorresponds bool
}

type namedAcc struct {
	Name string
	Addr sdk.AccAddress
}

// denomAlias shortens the (deterministic, but long) token-factory denom of the alloyed asset in
// signatures and reports.
var denomAlias = map[string]string{}

func alias(d string) string {
	if a, ok := denomAlias[d]; ok {
		return a
	}
	return d
}

func sdkInt(n int64) sdkmath.Int { return sdkmath.NewInt(n) }

func dec(s string) osmomath.Dec { return osmomath.MustNewDecFromStr(s) }

func mustUnmarshal(res *sdk.Result, m proto.Message) {
	if len(res.MsgResponses) > 0 {
		if err := proto.Unmarshal(res.MsgResponses[0].Value, m); err != nil {
			panic(err)
		}
		return
	}
	if err := proto.Unmarshal(res.Data, m); err != nil {
		panic(err)
	}
}

func must(r core.MsgResult, what string) *sdk.Result {
	if !r.OK() {
		panic(fmt.Sprintf("harness: setup step %q failed: %v", what, r.Err))
	}
	return r.Res
}

// clRanges: narrow range created at setup and the extra range of the clcreate op, per CL pool.
var clNarrow = map[uint64][2]int64{3: {-1000, 1000}, 5: {-5100000, -4900000}}
var clExtra = map[uint64][2]int64{3: {-20000, 30000}, 5: {-5500000, -4500000}}

func repoRoot() string {
	if r := os.Getenv("VERIF_REPO"); r != "" {
		return r
	}
	return "/repo"
}

// storeContract uploads a contract of the repository's bytecode directory the way the repository's
// own helper does (code upload restricted to the cosmwasmpool module account, then whitelisted).
func storeContract(a *app.OsmosisApp, ctx sdk.Context, name string) uint64 {
	code, err := os.ReadFile(filepath.Join(repoRoot(), "x/cosmwasmpool/bytecode", name+".wasm"))
	if err != nil {
		panic(fmt.Sprintf("harness: contract bytecode: %v", err))
	}
	mod := a.AccountKeeper.GetModuleAddress(cwtypes.ModuleName)
	params := a.WasmKeeper.GetParams(ctx)
	if err := a.WasmKeeper.SetParams(ctx, wasmtypes.Params{
		CodeUploadAccess:             wasmtypes.AccessConfig{Permission: wasmtypes.AccessTypeAnyOfAddresses, Addresses: []string{mod.String()}},
		InstantiateDefaultPermission: params.InstantiateDefaultPermission,
	}); err != nil {
		panic(err)
	}
	cfg := wasmtypes.AccessConfig{Permission: wasmtypes.AccessTypeAnyOfAddresses, Addresses: []string{mod.String()}}
	id, _, err := a.ContractKeeper.Create(ctx, mod, code, &cfg)
	if err != nil {
		panic(fmt.Sprintf("harness: storing contract %s: %v", name, err))
	}
	a.CosmwasmPoolKeeper.WhitelistCodeId(ctx, id)
	return id
}

// createCWPool sends MsgCreateCosmWasmPool and returns (pool id, contract address).
func createCWPool(a *app.OsmosisApp, ctx sdk.Context, codeID uint64, creator sdk.AccAddress, instantiate interface{}) (uint64, string) {
	bz, err := json.Marshal(instantiate)
	if err != nil {
		panic(err)
	}
	m := cwmodel.NewMsgCreateCosmWasmPool(codeID, creator, bz)
	var r cwmodel.MsgCreateCosmWasmPoolResponse
	mustUnmarshal(must(core.Deliver(a, ctx, &m), "create cosmwasm pool"), &r)
	p, err := a.CosmwasmPoolKeeper.GetPoolById(ctx, r.PoolID)
	if err != nil {
		panic(err)
	}
	return r.PoolID, p.GetContractAddress()
}

func cwExecute(a *app.OsmosisApp, ctx sdk.Context, sender sdk.AccAddress, contract string, msg string, funds sdk.Coins) core.MsgResult {
	return core.Deliver(a, ctx, &wasmtypes.MsgExecuteContract{Sender: sender.String(), Contract: contract, Msg: wasmtypes.RawContractMessage(msg), Funds: funds})
}

type v3AssetConfig struct {
	Denom               string `json:"denom"`
	NormalizationFactor string `json:"normalization_factor"`
}

type v3Instantiate struct {
	PoolAssetConfigs                []v3AssetConfig `json:"pool_asset_configs"`
	AlloyedAssetSubdenom            string          `json:"alloyed_asset_subdenom"`
	AlloyedAssetNormalizationFactor string          `json:"alloyed_asset_normalization_factor"`
	Admin                           string          `json:"admin"`
	Moderator                       string          `json:"moderator"`
}

// NewWorld builds the application, sets the configuration and creates the pools.
func NewWorld(fee string) *World {
	big := "1000000000000000"
	fund := core.Coins("tka", big, "tkb", big, "tkc", big, "tkd", big, "uosmo", big, "tke", big, "tkf", big, "tkg", big, "tkh", big)
	env := core.NewEnv(core.GenesisOpts{Balances: map[string]sdk.Coins{"A": fund, "B": fund, "S": fund, "T": fund, "W": fund}})
	a, ctx := env.App, env.Ctx
	w := &World{Env: env, App: a, Fee: fee, Agreements: map[string]Agreement{}, Alloyed: map[string][]Agreement{}}

	// concentrated-liquidity parameters: permissionless creation, quote denoms d and uosmo
	p := cltypes.DefaultParams()
	p.IsPermissionlessPoolCreationEnabled = true
	a.ConcentratedLiquidityKeeper.SetParams(ctx, p)
	// both accumulator generations: pool 3 (id <= threshold) keeps the unscaled spread-reward / incentive
	// accumulators of pools created before the v25 migration, pool 5 uses the scaled ones
	a.ConcentratedLiquidityKeeper.SetIncentivePoolIDMigrationThreshold(ctx, 3)
	a.ConcentratedLiquidityKeeper.SetSpreadFactorPoolIDMigrationThreshold(ctx, 3)
	qd := append(pmtypes.DefaultParams().AuthorizedQuoteDenoms, "tkd")
	a.PoolManagerKeeper.SetParam(ctx, pmtypes.KeyAuthorizedQuoteDenoms, qd)

	// taker-fee configuration
	a.PoolManagerKeeper.SetParam(ctx, pmtypes.KeyReducedTakerFeeByWhitelist, []string{core.Acc("W").String()})
	switch fee {
	case FeeZero:
	case FeeDefault, FeeShare, FeeAlloy:
		a.PoolManagerKeeper.SetParam(ctx, pmtypes.KeyDefaultTakerFee, dec("0.001"))
	case FeePair:
		a.PoolManagerKeeper.SetDenomPairTakerFee(ctx, "tka", "tkb", dec("0.01"))
	default:
		panic("unknown fee setting " + fee)
	}

	A := core.Acc("A")
	// pool 1: balancer (a,b)
	m1 := balancer.NewMsgCreateBalancerPool(A, balancer.PoolParams{SwapFee: dec("0.003"), ExitFee: osmomath.ZeroDec()},
		[]balancer.PoolAsset{{Token: sdk.NewCoin("tka", sdkInt(2_000_000_000)), Weight: sdkInt(1)}, {Token: sdk.NewCoin("tkb", sdkInt(1_000_000_000)), Weight: sdkInt(1)}}, "")
	var r1 balancer.MsgCreateBalancerPoolResponse
	mustUnmarshal(must(core.Deliver(a, ctx, &m1), "create balancer(a,b)"), &r1)
	// pool 2: stableswap (b,c)
	m2 := stableswap.NewMsgCreateStableswapPool(A, stableswap.PoolParams{SwapFee: dec("0.001"), ExitFee: osmomath.ZeroDec()},
		core.Coins("tkb", 1_000_000_000, "tkc", 1_100_000_000), []uint64{1, 1}, "")
	var r2 stableswap.MsgCreateStableswapPoolResponse
	mustUnmarshal(must(core.Deliver(a, ctx, &m2), "create stableswap(b,c)"), &r2)
	// pool 3: concentrated (c,d)
	m3 := clmodel.NewMsgCreateConcentratedPool(A, "tkc", "tkd", 100, dec("0.002"))
	var r3 clmodel.MsgCreateConcentratedPoolResponse
	mustUnmarshal(must(core.Deliver(a, ctx, &m3), "create concentrated(c,d)"), &r3)
	// pool 4: balancer (d,a) spread 0
	m4 := balancer.NewMsgCreateBalancerPool(A, balancer.PoolParams{SwapFee: osmomath.ZeroDec(), ExitFee: osmomath.ZeroDec()},
		[]balancer.PoolAsset{{Token: sdk.NewCoin("tkd", sdkInt(1_000_000_000)), Weight: sdkInt(2)}, {Token: sdk.NewCoin("tka", sdkInt(3_000_000_000)), Weight: sdkInt(1)}}, "")
	var r4 balancer.MsgCreateBalancerPoolResponse
	mustUnmarshal(must(core.Deliver(a, ctx, &m4), "create balancer(d,a)"), &r4)
	// pool 5: concentrated (a,uosmo)
	m5 := clmodel.NewMsgCreateConcentratedPool(A, "tka", "uosmo", 100, dec("0.0005"))
	var r5 clmodel.MsgCreateConcentratedPoolResponse
	mustUnmarshal(must(core.Deliver(a, ctx, &m5), "create concentrated(a,uosmo)"), &r5)
	// pool 6: cosmwasm transmuter (b,c), funded by A through the contract's join_pool
	code1 := storeContract(a, ctx, "transmuter")
	id6, c6 := createCWPool(a, ctx, code1, A, cwmsg.InstantiateMsg{PoolAssetDenoms: []string{"tkb", "tkc"}})
	must(cwExecute(a, ctx, A, c6, `{"join_pool":{}}`, core.Coins("tkb", 1_000_000_000, "tkc", 800_000_000)), "join transmuter(b,c)")
	// pool 7: balancer (uosmo,e,f), three assets
	m7 := balancer.NewMsgCreateBalancerPool(A, balancer.PoolParams{SwapFee: dec("0.0025"), ExitFee: osmomath.ZeroDec()},
		[]balancer.PoolAsset{{Token: sdk.NewCoin("uosmo", sdkInt(600_000_000)), Weight: sdkInt(1)}, {Token: sdk.NewCoin("tke", sdkInt(1_200_000_000)), Weight: sdkInt(2)},
			{Token: sdk.NewCoin("tkf", sdkInt(2_000_000_000)), Weight: sdkInt(3)}}, "")
	var r7 balancer.MsgCreateBalancerPoolResponse
	mustUnmarshal(must(core.Deliver(a, ctx, &m7), "create balancer(uosmo,e,f)"), &r7)
	// pool 8: stableswap (e,f,g), three assets, non-unit scaling factors (in the order of the sorted denoms)
	m8 := stableswap.NewMsgCreateStableswapPool(A, stableswap.PoolParams{SwapFee: dec("0.0004"), ExitFee: osmomath.ZeroDec()},
		core.Coins("tke", 1_000_000_000, "tkf", 4_200_000_000, "tkg", 9_500_000_000), []uint64{1, 4, 10}, "")
	var r8 stableswap.MsgCreateStableswapPoolResponse
	mustUnmarshal(must(core.Deliver(a, ctx, &m8), "create stableswap(e,f,g)"), &r8)

	w.Pools = []PoolInfo{
		{ID: r1.PoolID, Type: "balancer", Denoms: []string{"tka", "tkb"}}, {ID: r2.PoolID, Type: "stableswap", Denoms: []string{"tkb", "tkc"}},
		{ID: r3.PoolID, Type: "concentrated", Denoms: []string{"tkc", "tkd"}}, {ID: r4.PoolID, Type: "balancer", Denoms: []string{"tkd", "tka"}},
		{ID: r5.PoolID, Type: "concentrated", Denoms: []string{"tka", "uosmo"}}, {ID: id6, Type: "cosmwasm", Denoms: []string{"tkb", "tkc"}, Contract: c6},
		{ID: r7.PoolID, Type: "balancer", Denoms: []string{"uosmo", "tke", "tkf"}}, {ID: r8.PoolID, Type: "stableswap", Denoms: []string{"tke", "tkf", "tkg"}},
	}

	gov := authtypes.NewModuleAddress(govtypes.ModuleName).String()
	setAgreement := func(denom, pct, name string) {
		ag := Agreement{Denom: denom, Pct: dec(pct), Addr: core.Acc(name), Name: name}
		must(core.Deliver(a, ctx, &pmtypes.MsgSetTakerFeeShareAgreementForDenom{Sender: gov, Denom: denom, SkimPercent: ag.Pct, SkimAddress: ag.Addr.String()}),
			"share agreement for "+denom)
		w.Agreements[denom] = ag
	}
	switch fee {
	case FeeShare:
		setAgreement("tkb", "0.25", "K1")
		setAgreement("tkf", "0.1", "K2")
	case FeeAlloy:
		// pool 9: transmuter v3 over (d,h) with the alloyed asset alldh; A joins with equal amounts, hands some of the
		// alloyed asset to the other accounts, then the share agreement on h and the registration of the pool
		code3 := storeContract(a, ctx, "transmuter_v3")
		id9, c9 := createCWPool(a, ctx, code3, A, v3Instantiate{
			PoolAssetConfigs:     []v3AssetConfig{{Denom: "tkd", NormalizationFactor: "1"}, {Denom: "tkh", NormalizationFactor: "1"}},
			AlloyedAssetSubdenom: "alldh", AlloyedAssetNormalizationFactor: "1", Admin: A.String(), Moderator: A.String()})
		must(cwExecute(a, ctx, A, c9, `{"join_pool":{}}`, core.Coins("tkd", 1_500_000_000, "tkh", 1_500_000_000)), "join transmuter v3(d,h)")
		alloy := "factory/" + c9 + "/alloyed/alldh"
		denomAlias[alloy] = "alldh"
		if got := a.BankKeeper.GetBalance(ctx, A, alloy).Amount; !got.Equal(sdkInt(3_000_000_000)) {
			panic(fmt.Sprintf("harness: joining the alloyed pool minted %s %s", got, alloy))
		}
		for _, n := range []string{"T", "W", "S", "B"} {
			must(core.Deliver(a, ctx, &banktypes.MsgSend{FromAddress: A.String(), ToAddress: core.Acc(n).String(), Amount: core.Coins(alloy, 500_000_000)}), "hand out the alloyed asset")
		}
		setAgreement("tkh", "0.2", "K3")
		must(core.Deliver(a, ctx, &pmtypes.MsgSetRegisteredAlloyedPool{Sender: gov, PoolId: id9}), "register alloyed pool")
		// the registration snapshots the composition: tkh is half of the pool, so the scaled share is 0.1
		st, found := a.PoolManagerKeeper.GetRegisteredAlloyedPoolFromDenomUNSAFE(alloy)
		if !found || len(st.TakerFeeShareAgreements) != 1 || st.TakerFeeShareAgreements[0].Denom != "tkh" || !st.TakerFeeShareAgreements[0].SkimPercent.Equal(dec("0.1")) {
			panic(fmt.Sprintf("harness: unexpected registered alloyed pool state %+v (found=%v)", st, found))
		}
		w.Alloyed[alloy] = []Agreement{{Denom: "tkh", Pct: dec("0.1"), Addr: core.Acc("K3"), Name: "K3"}}
		w.Pools = append(w.Pools, PoolInfo{ID: id9, Type: "cosmwasm", Denoms: []string{"tkd", "tkh", alloy}, Contract: c9})
	}
	for i, pi := range w.Pools {
		if pi.ID != uint64(i+1) {
			panic(fmt.Sprintf("harness: pool ids not 1..%d: %+v", len(w.Pools), w.Pools))
		}
		for _, d := range pi.Denoms {
			seen := false
			for _, x := range w.Denoms {
				seen = seen || x == d
			}
			if !seen {
				w.Denoms = append(w.Denoms, d)
			}
		}
	}

	// positions: full range first (sets the price), then a narrow one; all by A
	l := &Ledger{Narrow: map[uint64]uint64{}, Extra: map[uint64]bool{}, ExtraLiq: map[uint64]osmomath.Dec{}, NarrowLiq: map[uint64]osmomath.Dec{}}
	mk := func(pool uint64, lo, hi int64, coins sdk.Coins) cltypes.MsgCreatePositionResponse {
		msg := &cltypes.MsgCreatePosition{PoolId: pool, Sender: A.String(), LowerTick: lo, UpperTick: hi, TokensProvided: coins,
			TokenMinAmount0: sdkmath.ZeroInt(), TokenMinAmount1: sdkmath.ZeroInt()}
		var resp cltypes.MsgCreatePositionResponse
		mustUnmarshal(must(core.Deliver(a, ctx, msg), fmt.Sprintf("create position pool %d [%d,%d]", pool, lo, hi)), &resp)
		return resp
	}
	mk(3, cltypes.MinInitializedTick, cltypes.MaxTick, core.Coins("tkc", 1_000_000_000, "tkd", 1_000_000_000))
	n3 := mk(3, clNarrow[3][0], clNarrow[3][1], core.Coins("tkc", 100_000_000, "tkd", 100_000_000))
	mk(5, cltypes.MinInitializedTick, cltypes.MaxTick, core.Coins("tka", 1_000_000_000, "uosmo", 500_000_000))
	n5 := mk(5, clNarrow[5][0], clNarrow[5][1], core.Coins("tka", 100_000_000, "uosmo", 50_000_000))
	l.Narrow[3], l.NarrowLiq[3] = n3.PositionId, n3.LiquidityCreated
	l.Narrow[5], l.NarrowLiq[5] = n5.PositionId, n5.LiquidityCreated
	w.Init = l

	// accounts listed in difference reports
	for _, n := range []string{"T", "W"} {
		w.Named = append(w.Named, namedAcc{n, core.Acc(n)})
	}
	for _, pi := range w.Pools {
		pl, err := a.PoolManagerKeeper.GetPool(ctx, pi.ID)
		if err != nil {
			panic(err)
		}
		w.Named = append(w.Named, namedAcc{fmt.Sprintf("pool%d", pi.ID), pl.GetAddress()})
		if pi.Type == "concentrated" {
			cp, err := a.ConcentratedLiquidityKeeper.GetConcentratedPoolById(ctx, pi.ID)
			if err != nil {
				panic(err)
			}
			w.Named = append(w.Named, namedAcc{fmt.Sprintf("pool%d.spread-rewards", pi.ID), cp.GetSpreadRewardsAddress()})
		}
	}
	for _, m := range []string{txfeestypes.TakerFeeCollectorName, txfeestypes.TakerFeeCommunityPoolName, txfeestypes.TakerFeeStakersName, txfeestypes.TakerFeeBurnName, "distribution"} {
		w.Named = append(w.Named, namedAcc{m, authtypes.NewModuleAddress(m)})
	}
	for _, n := range []string{"K1", "K2", "K3"} {
		w.Named = append(w.Named, namedAcc{"skim-" + n, core.Acc(n)})
	}
	return w
}

func (w *World) pool(id uint64) PoolInfo { return w.Pools[id-1] }

// agreementList returns the harness's agreements in the order of their denoms.
func (w *World) agreementList() []Agreement {
	var ks []string
	for k := range w.Agreements {
		ks = append(ks, k)
	}
	sort.Strings(ks)
	out := make([]Agreement, len(ks))
	for i, k := range ks {
		out[i] = w.Agreements[k]
	}
	return out
}

// errClass maps an error to a short stable class (numbers stripped).
func errClass(err error) string {
	if err == nil {
		return "ok"
	}
	m := []rune(err.Error())
	out := make([]rune, 0, 60)
	for _, c := range m {
		if c >= '0' && c <= '9' || c == '(' || c == '{' {
			break
		}
		out = append(out, c)
		if len(out) >= 60 {
			break
		}
	}
	s := strings.TrimSpace(string(out))
	if s == "" {
		s = fmt.Sprintf("%T", err)
	}
	return "rejected:" + s
}

const priorSwapAmount = 50_000_000

// Apply executes one prior-activity op (never by the traders T/W).
func (w *World) Apply(ctx sdk.Context, l *Ledger, op Op, _ func(a, s, d string)) (sdk.Context, string) {
	a := w.App
	l.Ops = append(l.Ops, op)
	switch op.K {
	case "swap":
		in, out := w.pool(op.P).swapPair(op.D)
		r := core.Deliver(a, ctx, &pmtypes.MsgSwapExactAmountIn{Sender: core.Acc("S").String(), Routes: []pmtypes.SwapAmountInRoute{{PoolId: op.P, TokenOutDenom: out}},
			TokenIn: sdk.NewCoin(in, sdkInt(priorSwapAmount)), TokenOutMinAmount: sdkmath.OneInt()})
		if !r.OK() {
			return ctx, errClass(r.Err)
		}
	case "join":
		r := core.Deliver(a, ctx, &gammtypes.MsgJoinPool{Sender: core.Acc("B").String(), PoolId: op.P, ShareOutAmount: gammtypes.OneShare.MulRaw(10), TokenInMaxs: sdk.Coins{}})
		if !r.OK() {
			return ctx, errClass(r.Err)
		}
	case "exit":
		r := core.Deliver(a, ctx, &gammtypes.MsgExitPool{Sender: core.Acc("A").String(), PoolId: op.P, ShareInAmount: gammtypes.OneShare.MulRaw(20), TokenOutMins: sdk.Coins{}})
		if !r.OK() {
			return ctx, errClass(r.Err)
		}
	case "cwjoin":
		pi := w.pool(op.P)
		r := cwExecute(a, ctx, core.Acc("B"), pi.Contract, `{"join_pool":{}}`, core.Coins(pi.Denoms[0], 150_000_000))
		if !r.OK() {
			return ctx, errClass(r.Err)
		}
	case "cwexit":
		pi := w.pool(op.P)
		r := cwExecute(a, ctx, core.Acc("A"), pi.Contract, fmt.Sprintf(`{"exit_pool":{"tokens_out":[{"denom":%q,"amount":"300000000"}]}}`, pi.Denoms[1]), nil)
		if !r.OK() {
			return ctx, errClass(r.Err)
		}
	case "clcreate":
		pi := w.pool(op.P)
		rg := clExtra[op.P]
		amt0, amt1 := int64(50_000_000), int64(50_000_000)
		if op.P == 5 {
			amt1 = 25_000_000
		}
		msg := &cltypes.MsgCreatePosition{PoolId: op.P, Sender: core.Acc("B").String(), LowerTick: rg[0], UpperTick: rg[1],
			TokensProvided: core.Coins(pi.Denoms[0], amt0, pi.Denoms[1], amt1), TokenMinAmount0: sdkmath.ZeroInt(), TokenMinAmount1: sdkmath.ZeroInt()}
		r := core.Deliver(a, ctx, msg)
		if !r.OK() {
			return ctx, errClass(r.Err)
		}
		l.Extra[op.P] = true
	case "clwithdraw":
		id := l.Narrow[op.P]
		if id == 0 {
			return ctx, "rejected:no-such-position"
		}
		r := core.Deliver(a, ctx, &cltypes.MsgWithdrawPosition{PositionId: id, Sender: core.Acc("A").String(), LiquidityAmount: l.NarrowLiq[op.P]})
		if !r.OK() {
			return ctx, errClass(r.Err)
		}
		l.Narrow[op.P] = 0
	default:
		panic("unknown op " + op.K)
	}
	return ctx, "ok"
}

// alphabet lists the prior-activity ops of a world (simplest first): a swap on every pool in each
// direction (multi-asset pools: the three directions of one orientation of the triangle), join / exit of
// every gamm pool (the three-asset ones: one of the two), the transmuter's join and exit, CL
// create-position / withdraw-the-narrow-position.
func (w *World) alphabet(l *Ledger) []Op {
	var ops []Op
	for _, pi := range w.Pools {
		n := len(pi.Denoms)
		if n == 2 {
			ops = append(ops, Op{K: "swap", P: pi.ID, D: 0}, Op{K: "swap", P: pi.ID, D: 1})
		} else {
			for d := 0; d < n; d++ {
				ops = append(ops, Op{K: "swap", P: pi.ID, D: d})
			}
		}
	}
	ops = append(ops, Op{K: "join", P: 1}, Op{K: "exit", P: 1}, Op{K: "join", P: 2}, Op{K: "exit", P: 2}, Op{K: "join", P: 7}, Op{K: "exit", P: 8},
		Op{K: "cwjoin", P: 6}, Op{K: "cwexit", P: 6})
	for _, p := range []uint64{3, 5} {
		if !l.Extra[p] {
			ops = append(ops, Op{K: "clcreate", P: p})
		}
		if l.Narrow[p] != 0 {
			ops = append(ops, Op{K: "clwithdraw", P: p})
		}
	}
	return ops
}

// Enabled lists the prior-activity alphabet.
func (w *World) Enabled(ctx sdk.Context, l *Ledger, depth int) []Op { return w.alphabet(l) }

// reserves returns the pool's total liquidity.
func (w *World) reserves(ctx sdk.Context, id uint64) sdk.Coins {
	c, err := w.App.PoolManagerKeeper.GetTotalPoolLiquidity(ctx, id)
	if err != nil {
		panic(err)
	}
	return c
}
