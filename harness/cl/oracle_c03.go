package main

import (
	"fmt"
	"os"
	"math/big"

	sdkmath "cosmossdk.io/math"
	sdk "github.com/cosmos/cosmos-sdk/types"

	pmtypes "github.com/osmosis-labs/osmosis/v31/x/poolmanager/types"

	"github.com/osmosis-labs/osmosis/v31/zzverif/core"
)

// ---------------------------------------------------------------------------------------------
// C03: swaps follow the exact curve, round in the pool's favour, match the quote, never profit
// on a round trip. Evaluated in every distinct state for a probe set of swaps on sibling branches.
// ---------------------------------------------------------------------------------------------

type probe struct {
	dir  int // 0: token0 in
	in   bool
	amt  *big.Int
	kind string
}

func (w *World) probes(ctx sdk.Context, l *Ledger, c *curve, s0 *big.Rat) []probe {
	var ps []probe
	sf := ratDec(w.SF)
	p := w.pool(ctx)
	pb := bal(w, ctx, p.GetAddress())
	for dir := 0; dir < 2; dir++ {
		for _, a := range []int64{1, 999, 400000, 30000000} {
			ps = append(ps, probe{dir, true, big.NewInt(a), "fixed"})
		}
		for _, a := range []int64{1, 250000} {
			ps = append(ps, probe{dir, false, big.NewInt(a), "fixed"})
		}
		if in, out, ok := c.toNextTick(s0, dir == 0, sf); ok {
			ci := ceilRat(in)
			fo := floorRat(out)
			for _, d := range []int64{-1, 0, 1} {
				if x := new(big.Int).Add(ci, big.NewInt(d)); x.Sign() > 0 && x.BitLen() < 100 {
					ps = append(ps, probe{dir, true, x, "to-next-tick"})
				}
				if x := new(big.Int).Add(fo, big.NewInt(d)); x.Sign() > 0 && x.BitLen() < 100 {
					ps = append(ps, probe{dir, false, x, "to-next-tick"})
				}
			}
		}
		outDenom := Denom1
		if dir == 1 {
			outDenom = Denom0
		}
		have := pb.AmountOf(outDenom).BigInt()
		for _, d := range []int64{-1, 0, 1} {
			if x := new(big.Int).Add(have, big.NewInt(d)); x.Sign() > 0 && x.BitLen() < 100 {
				ps = append(ps, probe{dir, false, x, "drain"})
			}
		}
	}
	return ps
}

func (w *World) CheckC03(ctx sdk.Context, l *Ledger, fail func(a, s, d string), res *core.Result) {
	if len(l.Pos) == 0 {
		return
	}
	vac := res.Vacuity
	a := w.App
	p := w.pool(ctx)
	s0 := ratBigDec(p.GetCurrentSqrtPrice())
	if s0.Sign() == 0 {
		return
	}
	c := newCurve(l)
	sf := ratDec(w.SF)
	t := core.Acc("T")
	hashed := map[string]bool{}

	for _, pr := range w.probes(ctx, l, c, s0) {
		in, out := Denom0, Denom1
		if pr.dir == 1 {
			in, out = Denom1, Denom0
		}
		amt := sdkmath.NewIntFromBigInt(pr.amt)
		tag := fmt.Sprintf("dir=%d exactIn=%v amt=%s (%s)", pr.dir, pr.in, amt, pr.kind)

		// --- estimate (query) -----------------------------------------------------------------
		var est sdkmath.Int
		var estErr error
		qctx, _ := ctx.CacheContext()
		hk := fmt.Sprintf("%d%v", pr.dir, pr.in)
		var h0 [32]byte
		checkHash := !hashed[hk]
		if checkHash {
			hashed[hk] = true
			h0 = core.StateHash(a, qctx, stores)
		}
		if pr.in {
			est, estErr = a.PoolManagerKeeper.MultihopEstimateOutGivenExactAmountIn(qctx, []pmtypes.SwapAmountInRoute{{PoolId: w.PoolID, TokenOutDenom: out}}, sdk.NewCoin(in, amt))
		} else {
			est, estErr = a.PoolManagerKeeper.MultihopEstimateInGivenExactAmountOut(qctx, []pmtypes.SwapAmountOutRoute{{PoolId: w.PoolID, TokenInDenom: in}}, sdk.NewCoin(out, amt))
		}
		if checkHash {
			if h1 := core.StateHash(a, qctx, stores); h1 != h0 {
				fail("c03.estimate-leaves-state-untouched", "", tag)
			}
		}

		// --- execution on a sibling branch ----------------------------------------------------
		b, _ := ctx.CacheContext()
		before := bal(w, b, t)
		var r core.MsgResult
		if pr.in {
			r = core.Deliver(a, b, &pmtypes.MsgSwapExactAmountIn{Sender: t.String(), Routes: []pmtypes.SwapAmountInRoute{{PoolId: w.PoolID, TokenOutDenom: out}},
				TokenIn: sdk.NewCoin(in, amt), TokenOutMinAmount: sdkmath.OneInt()})
		} else {
			r = core.Deliver(a, b, &pmtypes.MsgSwapExactAmountOut{Sender: t.String(), Routes: []pmtypes.SwapAmountOutRoute{{PoolId: w.PoolID, TokenInDenom: in}},
				TokenOut: sdk.NewCoin(out, amt), TokenInMaxAmount: sdkmath.NewIntFromUint64(1 << 62)})
		}
		res.Transitions++
		if !r.OK() {
			vac["probe_swaps_rejected"]++
			continue
		}
		vac["probe_swaps_executed"]++
		after := bal(w, b, t)
		inImpl := before.AmountOf(in).Sub(after.AmountOf(in))
		outImpl := after.AmountOf(out).Sub(before.AmountOf(out))
		if !inImpl.IsPositive() || !outImpl.IsPositive() {
			fail("c03.no-zero-sided-success", "", fmt.Sprintf("%s: in=%s out=%s", tag, inImpl, outImpl))
			continue
		}
		partial := (pr.in && inImpl.LT(amt)) || (!pr.in && outImpl.LT(amt))
		if partial {
			vac["probe_partial_fills"]++
		}

		// --- estimate == execution ------------------------------------------------------------
		if estErr != nil {
			fail("c03.estimate-equals-execution", "", fmt.Sprintf("%s: executed (in=%s out=%s) but the estimate failed: %v", tag, inImpl, outImpl, estErr))
		} else if pr.in && !est.Equal(outImpl) {
			fail("c03.estimate-equals-execution", "", fmt.Sprintf("%s: estimate out=%s, executed out=%s", tag, est, outImpl))
		} else if !pr.in && !est.Equal(inImpl) {
			fail("c03.estimate-equals-execution", "", fmt.Sprintf("%s: estimate in=%s, executed in=%s", tag, est, inImpl))
		}

		// --- the exact curve ------------------------------------------------------------------
		var wr walkResult
		if pr.in {
			wr = c.walk(s0, pr.dir == 0, true, new(big.Rat).SetInt(inImpl.BigInt()), sf)
		} else {
			wr = c.walk(s0, pr.dir == 0, false, new(big.Rat).SetInt(outImpl.BigInt()), sf)
		}
		if os.Getenv("VERIF_DEBUG") != "" {
			fmt.Printf("   probe %s: impl in=%s out=%s | ideal in=%s out=%s steps=%d exhausted=%v s0=%s end=%s liqDown=%s liqUp=%s\n", tag, inImpl, outImpl,
				wr.In.FloatString(4), wr.Out.FloatString(4), wr.Steps, wr.Exhausted, s0.FloatString(20), wr.End.FloatString(20), c.liq(s0, true).FloatString(4), c.liq(s0, false).FloatString(4))
			for _, bd := range c.bounds {
				fmt.Printf("      boundary tick %d s=%s\n", bd.tick, bd.s.FloatString(20))
			}
		}
		// Tolerance. Every swap step rounds the input up to the next whole unit and truncates the output,
		// the fee is rounded up once per step, and the totals are rounded once more at the end; an exact-out
		// swap may additionally deliver one unit less than it charged for. "Bounded rounding" is therefore
		// stated as a sandwich in *both* tokens: with k = 2*steps + 2 units,
		//   exact-in : out_impl >= floor(curve_out(in_impl - k)) - k
		//   exact-out: in_impl  <= ceil(curve_in(out_impl + k)) + k
		// The smallest j <= k that already satisfies the bound is recorded so the margin can be seen.
		k := int64(2*wr.Steps + 2)
		if wr.Steps >= 2 {
			vac["probe_swaps_crossing_ticks"]++
		}
		if wr.Exhausted {
			vac["probe_ideal_exhausted"]++
		}
		if pr.in {
			idealOut := floorRat(wr.Out)
			if outImpl.BigInt().Cmp(idealOut) > 0 {
				fail("c03.out-never-exceeds-curve", "", fmt.Sprintf("%s: paid out %s, exact curve gives %s (floor %s) for input %s", tag, outImpl, wr.Out.FloatString(6), idealOut, inImpl))
			}
			okAt := int64(-1)
			for j := int64(0); j <= k; j++ {
				inJ := new(big.Int).Sub(inImpl.BigInt(), big.NewInt(j))
				if inJ.Sign() <= 0 {
					okAt = j
					break
				}
				wj := c.walk(s0, pr.dir == 0, true, new(big.Rat).SetInt(inJ), sf)
				lb := new(big.Int).Sub(floorRat(wj.Out), big.NewInt(j))
				if outImpl.BigInt().Cmp(lb) >= 0 {
					okAt = j
					break
				}
			}
			noteSlack(res, okAt, k)
			if okAt < 0 {
				fail("c03.out-close-to-curve", "", fmt.Sprintf("%s: charged %s paid out %s; exact curve gives %s for that input and still more than out+%d for input-%d (%d steps)", tag, inImpl, outImpl, wr.Out.FloatString(6), k, k, wr.Steps))
			}
		} else {
			idealIn := ceilRat(wr.In)
			if !wr.Exhausted && inImpl.BigInt().Cmp(idealIn) < 0 {
				fail("c03.in-never-below-curve", "", fmt.Sprintf("%s: charged %s, exact curve requires %s (ceil %s) for output %s", tag, inImpl, wr.In.FloatString(6), idealIn, outImpl))
			}
			okAt := int64(-1)
			for j := int64(0); j <= k; j++ {
				outJ := new(big.Int).Add(outImpl.BigInt(), big.NewInt(j))
				wj := c.walk(s0, pr.dir == 0, false, new(big.Rat).SetInt(outJ), sf)
				if wj.Exhausted {
					// the curve cannot deliver that much more: no upper bound can be derived, accept
					okAt = j
					break
				}
				ub := new(big.Int).Add(ceilRat(wj.In), big.NewInt(j))
				if inImpl.BigInt().Cmp(ub) <= 0 {
					okAt = j
					break
				}
			}
			noteSlack(res, okAt, k)
			if okAt < 0 {
				fail("c03.in-close-to-curve", "", fmt.Sprintf("%s: paid out %s charged %s; exact curve requires %s for that output and still less than in-%d for output+%d (%d steps)", tag, outImpl, inImpl, wr.In.FloatString(6), k, k, wr.Steps))
			}
		}
		// landing exactly on an initialised tick
		np := ratBigDec(w.pool(b).GetCurrentSqrtPrice())
		for _, bd := range c.bounds {
			if bd.s.Cmp(np) == 0 {
				vac["probe_swaps_landing_exactly_on_tick"]++
				break
			}
		}

		// --- round trip: swap the whole proceeds straight back ---------------------------------
		if !partial {
			mid := bal(w, b, t)
			r2 := core.Deliver(a, b, &pmtypes.MsgSwapExactAmountIn{Sender: t.String(), Routes: []pmtypes.SwapAmountInRoute{{PoolId: w.PoolID, TokenOutDenom: in}},
				TokenIn: sdk.NewCoin(out, outImpl), TokenOutMinAmount: sdkmath.OneInt()})
			res.Transitions++
			if r2.OK() {
				end := bal(w, b, t)
				spentBack := mid.AmountOf(out).Sub(end.AmountOf(out))
				gotBack := end.AmountOf(in).Sub(mid.AmountOf(in))
				vac["round_trips_executed"]++
				if spentBack.Equal(outImpl) && gotBack.GT(inImpl) {
					fail("c03.round-trip-never-profits", "", fmt.Sprintf("%s: put in %s %s, got %s %s, swapped it back and received %s %s", tag, inImpl, in, outImpl, out, gotBack, in))
				}
			}
		}
	}
}

func noteSlack(res *core.Result, j, k int64) {
	if j < 0 {
		j = k + 1
	}
	if cur, _ := res.Extra["max_units_of_slack_needed"].(float64); float64(j) > cur {
		res.Extra["max_units_of_slack_needed"] = float64(j)
	}
	ratio := float64(j) / float64(k)
	if cur, _ := res.Extra["max_slack_over_tolerance"].(float64); ratio > cur {
		res.Extra["max_slack_over_tolerance"] = ratio
	}
}
