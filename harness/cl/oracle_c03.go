package main

import (
	"fmt"
	"os"
	"math/big"

	sdkmath "cosmossdk.io/math"
	sdk "github.com/cosmos/cosmos-sdk/types"

	pmtypes "github.com/osmosis-labs/osmosis/v31/x/poolmanager/types"

	"github.com/osmosis-labs/osmosis/v31/zzverif/core"
)

// ---------------------------------------------------------------------------------------------
// C03: swaps follow the exact curve, round in the pool's favour, match the quote, never profit
// on a round trip. Evaluated in every distinct state for a probe set of swaps on sibling branches.
// ---------------------------------------------------------------------------------------------

type probe struct {
	dir  int // 0: token0 in
	in   bool
	amt  *big.Int
	kind string
}

func (w *World) probes(ctx sdk.Context, l *Ledger, c *curve, s0 *big.Rat) []probe {
	var ps []probe
	sf := ratDec(w.SF)
	p := w.pool(ctx)
	pb := bal(w, ctx, p.GetAddress())
	// synthesised amounts are real base units; the size cap grows with the scenario's amount scale
	maxBits := 100 + w.scale.BitLen() - 1
	for dir := 0; dir < 2; dir++ {
		for _, a := range []int64{1, 999, 400000, 30000000} {
			ps = append(ps, probe{dir, true, w.amtBig(a), "fixed"})
		}
		for _, a := range []int64{1, 250000} {
			ps = append(ps, probe{dir, false, w.amtBig(a), "fixed"})
		}
		// far more than any curve of the scenario absorbs with a position anchored at the extreme tick (1e20 units): the
		// swap ends on the extreme price with most of the offer unused
		ps = append(ps, probe{dir, true, new(big.Int).Mul(new(big.Int).Exp(big.NewInt(10), big.NewInt(20), nil), w.scale), "overfill"})
		if in, out, ok := c.toNextTick(s0, dir == 0, sf); ok {
			ci := ceilRat(in)
			fo := floorRat(out)
			// exact-in: one unit either side of the ideal amount. With an amount scale the spread charge of the step is
			// rounded up by as much as amountIn*1e-18 (>> 1 unit), so the ideal amount +-1 no longer reaches the tick (the
			// swap is refused as over-charged or ends just short of it); the neighbours are then the ideal amount
			// -+ (that rounding + 2 units): the smallest inputs that end just before / carry a remainder across the tick
			m := big.NewInt(1)
			if w.Cfg.Exp10 != 0 {
				m = new(big.Int).Add(new(big.Int).Quo(ci, ten18), big.NewInt(2))
			}
			for _, d := range []int64{-1, 0, 1} {
				if x := new(big.Int).Add(ci, new(big.Int).Mul(m, big.NewInt(d))); x.Sign() > 0 && x.BitLen() < maxBits {
					ps = append(ps, probe{dir, true, x, "to-next-tick"})
				}
				if x := new(big.Int).Add(fo, big.NewInt(d)); x.Sign() > 0 && x.BitLen() < maxBits {
					ps = append(ps, probe{dir, false, x, "to-next-tick"})
				}
			}
		}
		outDenom := Denom1
		if dir == 1 {
			outDenom = Denom0
		}
		have := pb.AmountOf(outDenom).BigInt()
		for _, d := range []int64{-1, 0, 1} {
			if x := new(big.Int).Add(have, big.NewInt(d)); x.Sign() > 0 && x.BitLen() < maxBits {
				ps = append(ps, probe{dir, false, x, "drain"})
			}
		}
	}
	return ps
}

func (w *World) CheckC03(ctx sdk.Context, l *Ledger, fail func(a, s, d string), res *core.Result) {
	if len(l.Pos) == 0 {
		return
	}
	vac := res.Vacuity
	a := w.App
	p := w.pool(ctx)
	s0 := ratBigDec(p.GetCurrentSqrtPrice())
	if s0.Sign() == 0 {
		return
	}
	c := newCurve(l)
	sf := ratDec(w.SF)
	t := core.Acc("T")
	hashed := map[string]bool{}

	for _, pr := range w.probes(ctx, l, c, s0) {
		in, out := Denom0, Denom1
		if pr.dir == 1 {
			in, out = Denom1, Denom0
		}
		amt := sdkmath.NewIntFromBigInt(pr.amt)
		tag := fmt.Sprintf("dir=%d exactIn=%v amt=%s (%s)", pr.dir, pr.in, amt, pr.kind)

		// --- estimate (query) -----------------------------------------------------------------
		var est sdkmath.Int
		var estErr error
		qctx, _ := ctx.CacheContext()
		hk := fmt.Sprintf("%d%v", pr.dir, pr.in)
		var h0 [32]byte
		checkHash := !hashed[hk]
		if checkHash {
			hashed[hk] = true
			h0 = core.StateHash(a, qctx, stores)
		}
		if pr.in {
			est, estErr = a.PoolManagerKeeper.MultihopEstimateOutGivenExactAmountIn(qctx, []pmtypes.SwapAmountInRoute{{PoolId: w.PoolID, TokenOutDenom: out}}, sdk.NewCoin(in, amt))
		} else {
			est, estErr = a.PoolManagerKeeper.MultihopEstimateInGivenExactAmountOut(qctx, []pmtypes.SwapAmountOutRoute{{PoolId: w.PoolID, TokenInDenom: in}}, sdk.NewCoin(out, amt))
		}
		if checkHash {
			if h1 := core.StateHash(a, qctx, stores); h1 != h0 {
				fail("c03.estimate-leaves-state-untouched", "", tag)
			}
		}

		// --- execution on a sibling branch ----------------------------------------------------
		b, _ := ctx.CacheContext()
		before := bal(w, b, t)
		var r core.MsgResult
		if pr.in {
			r = core.Deliver(a, b, &pmtypes.MsgSwapExactAmountIn{Sender: t.String(), Routes: []pmtypes.SwapAmountInRoute{{PoolId: w.PoolID, TokenOutDenom: out}},
				TokenIn: sdk.NewCoin(in, amt), TokenOutMinAmount: sdkmath.OneInt()})
		} else {
			r = core.Deliver(a, b, &pmtypes.MsgSwapExactAmountOut{Sender: t.String(), Routes: []pmtypes.SwapAmountOutRoute{{PoolId: w.PoolID, TokenInDenom: in}},
				TokenOut: sdk.NewCoin(out, amt), TokenInMaxAmount: w.maxIn()})
		}
		res.Transitions++
		if !r.OK() {
			vac["probe_swaps_rejected"]++
			if w.Cfg.Exp10 != 0 {
				vac[fmt.Sprintf("at_scale_rejected:%s:exactIn=%v:%s", pr.kind, pr.in, errClass(r.Err))]++
			}
			continue
		}
		vac["probe_swaps_executed"]++
		if w.Cfg.Exp10 != 0 {
			vac[fmt.Sprintf("at_scale_executed:%s:exactIn=%v", pr.kind, pr.in)]++
		}
		after := bal(w, b, t)
		inImpl := before.AmountOf(in).Sub(after.AmountOf(in))
		outImpl := after.AmountOf(out).Sub(before.AmountOf(out))
		if !inImpl.IsPositive() || !outImpl.IsPositive() {
			fail("c03.no-zero-sided-success", "", fmt.Sprintf("%s: in=%s out=%s", tag, inImpl, outImpl))
			continue
		}
		partial := (pr.in && inImpl.LT(amt)) || (!pr.in && outImpl.LT(amt))
		if partial {
			vac["probe_partial_fills"]++
		}

		// --- estimate == execution ------------------------------------------------------------
		if estErr != nil {
			fail("c03.estimate-equals-execution", "", fmt.Sprintf("%s: executed (in=%s out=%s) but the estimate failed: %v", tag, inImpl, outImpl, estErr))
		} else if pr.in && !est.Equal(outImpl) {
			fail("c03.estimate-equals-execution", "", fmt.Sprintf("%s: estimate out=%s, executed out=%s", tag, est, outImpl))
		} else if !pr.in && !est.Equal(inImpl) {
			fail("c03.estimate-equals-execution", "", fmt.Sprintf("%s: estimate in=%s, executed in=%s", tag, est, inImpl))
		}

		// --- the exact curve ------------------------------------------------------------------
		var wr walkResult
		if pr.in {
			wr = c.walk(s0, pr.dir == 0, true, new(big.Rat).SetInt(inImpl.BigInt()), sf)
		} else {
			wr = c.walk(s0, pr.dir == 0, false, new(big.Rat).SetInt(outImpl.BigInt()), sf)
		}
		if os.Getenv("VERIF_DEBUG") != "" {
			fmt.Printf("   probe %s: impl in=%s out=%s | ideal in=%s out=%s steps=%d exhausted=%v s0=%s end=%s liqDown=%s liqUp=%s\n", tag, inImpl, outImpl,
				wr.In.FloatString(4), wr.Out.FloatString(4), wr.Steps, wr.Exhausted, s0.FloatString(20), wr.End.FloatString(20), c.liq(s0, true).FloatString(4), c.liq(s0, false).FloatString(4))
			for _, bd := range c.bounds {
				fmt.Printf("      boundary tick %d s=%s\n", bd.tick, bd.s.FloatString(20))
			}
		}
		// Tolerance. Every swap step rounds the input up to the next whole unit and truncates the output,
		// the fee is rounded up once per step, and the totals are rounded once more at the end; an exact-out
		// swap may additionally deliver one unit less than it charged for. "Bounded rounding" is therefore
		// stated as a sandwich in *both* tokens: with k = 2*steps + 2 units,
		//   exact-in : out_impl >= floor(curve_out(in_impl - k)) - k
		//   exact-out: in_impl  <= ceil(curve_in(out_impl + k)) + k
		// The smallest j <= k that already satisfies the bound is recorded so the margin can be seen.
		//
		// Amount scale. The whole-unit count above is complete as long as every 18-decimal Dec rounding is worth less
		// than a unit, i.e. for amounts below 1e18 (Exp10 = 0: k is exactly 2*steps+2, as it always was). With Exp10 != 0
		// the documented fixed-point roundings are no longer sub-unit and are added, per rounding event of the code:
		//   - per step that charges a spread: the factor sf/(1-sf) is a Dec rounded UP at the 18th decimal (QuoRoundUp)
		//     and multiplied with the step's amountIn (MulRoundUp): worth <= amountIn_step * 1e-18 + 1e-18; the steps'
		//     amountIn sum to at most in_impl, so the sum over the swap is <= in_impl * 1e-18 + steps * 1e-18;
		//   - per step: the next sqrt price / the tick sqrt prices are BigDecs rounded at the 36th decimal (two roundings
		//     toward the pool); an error of 1e-36 in sqrtP is worth L*1e-36 of token1 and L*1e-36/(sqrtPa*sqrtPb) of token0:
		//     <= L_step * 2e-36 * max(1, 1/(sqrtPa*sqrtPb)) (negligible, counted);
		//   k = 2*steps + 2 + ceil( in_impl*1e-18 + sum_steps( 1e-18 + L_step*2e-36*max(1, 1/(sqrtPa*sqrtPb)) ) )
		// (the first term is dropped when the spread factor is zero: no charge is computed). One-sidedness stays exact.
		k := int64(2*wr.Steps + 2)
		if wr.Steps >= 2 {
			vac["probe_swaps_crossing_ticks"]++
		}
		if wr.Exhausted {
			vac["probe_ideal_exhausted"]++
		}
		scaled := w.Cfg.Exp10 != 0
		debugTag = fmt.Sprintf("%s | %s | in=%s out=%s steps=%d", w.Cfg, tag, inImpl, outImpl, wr.Steps)
		var kBig *big.Int
		if scaled {
			kBig = new(big.Int).Add(big.NewInt(k), decRoundingAllowance(&wr, inImpl.BigInt(), sf))
			vac["probe_swaps_at_18_decimal_scale"]++
			if new(big.Int).Quo(inImpl.BigInt(), ten18).Cmp(big.NewInt(10)) >= 0 {
				// a Dec rounding of this swap's spread charge is worth at least 10 units
				vac["probes_where_a_dec_rounding_exceeds_10_units"]++
			}
		}
		if pr.in {
			// the curve ran out of liquidity before the charged input was used up: nothing beyond what the curve absorbs
			// (plus the rounding budget) may be charged - the rest of the offer must stay with the sender
			if wr.Exhausted {
				ub := new(big.Int).Add(ceilRat(wr.In), big.NewInt(k))
				// amounts of 1e18 and more: the 18-decimal Dec roundings of the spread charge are worth more than a unit
				if scaled || inImpl.BigInt().Cmp(ten18) >= 0 {
					ub = new(big.Int).Add(ceilRat(wr.In), new(big.Int).Add(big.NewInt(k), decRoundingAllowance(&wr, inImpl.BigInt(), sf)))
				}
				vac["exact_in_probes_larger_than_the_curve_absorbs"]++
				if inImpl.BigInt().Cmp(ub) > 0 {
					fail("c03.charged-at-most-what-the-curve-absorbs", "", fmt.Sprintf("%s: offered %s, charged %s, paid out %s; the exact curve runs out of liquidity after absorbing %s (budget %s)", tag, amt, inImpl, outImpl, wr.In.FloatString(6), new(big.Int).Sub(ub, ceilRat(wr.In))))
				}
			}
			idealOut := floorRat(wr.Out)
			if outImpl.BigInt().Cmp(idealOut) > 0 {
				fail("c03.out-never-exceeds-curve", "", fmt.Sprintf("%s: paid out %s, exact curve gives %s (floor %s) for input %s", tag, outImpl, wr.Out.FloatString(6), idealOut, inImpl))
			}
			// holds(j): out_impl >= floor(curve_out(in_impl - j)) - j ; monotone in j
			holds := func(j *big.Int) bool {
				inJ := new(big.Int).Sub(inImpl.BigInt(), j)
				if inJ.Sign() <= 0 {
					return true
				}
				wj := c.walk(s0, pr.dir == 0, true, new(big.Rat).SetInt(inJ), sf)
				lb := new(big.Int).Sub(floorRat(wj.Out), j)
				return outImpl.BigInt().Cmp(lb) >= 0
			}
			if scaled {
				if !noteSlackScaled(res, holds, kBig) {
					fail("c03.out-close-to-curve", "", fmt.Sprintf("%s: charged %s paid out %s; exact curve gives %s for that input and still more than out+%s for input-%s (%d steps)", tag, inImpl, outImpl, wr.Out.FloatString(6), kBig, kBig, wr.Steps))
				}
			} else {
				okAt := int64(-1)
				for j := int64(0); j <= k; j++ {
					if holds(big.NewInt(j)) {
						okAt = j
						break
					}
				}
				noteSlack(res, okAt, k)
				if okAt < 0 {
					fail("c03.out-close-to-curve", "", fmt.Sprintf("%s: charged %s paid out %s; exact curve gives %s for that input and still more than out+%d for input-%d (%d steps)", tag, inImpl, outImpl, wr.Out.FloatString(6), k, k, wr.Steps))
				}
			}
		} else {
			idealIn := ceilRat(wr.In)
			if !wr.Exhausted && inImpl.BigInt().Cmp(idealIn) < 0 {
				fail("c03.in-never-below-curve", "", fmt.Sprintf("%s: charged %s, exact curve requires %s (ceil %s) for output %s", tag, inImpl, wr.In.FloatString(6), idealIn, outImpl))
			}
			// holds(j): in_impl <= ceil(curve_in(out_impl + j)) + j ; monotone in j
			holds := func(j *big.Int) bool {
				outJ := new(big.Int).Add(outImpl.BigInt(), j)
				wj := c.walk(s0, pr.dir == 0, false, new(big.Rat).SetInt(outJ), sf)
				if wj.Exhausted {
					// the curve cannot deliver that much more: no upper bound can be derived, accept
					return true
				}
				ub := new(big.Int).Add(ceilRat(wj.In), j)
				return inImpl.BigInt().Cmp(ub) <= 0
			}
			if scaled {
				if !noteSlackScaled(res, holds, kBig) {
					fail("c03.in-close-to-curve", "", fmt.Sprintf("%s: paid out %s charged %s; exact curve requires %s for that output and still less than in-%s for output+%s (%d steps)", tag, outImpl, inImpl, wr.In.FloatString(6), kBig, kBig, wr.Steps))
				}
			} else {
				okAt := int64(-1)
				for j := int64(0); j <= k; j++ {
					if holds(big.NewInt(j)) {
						okAt = j
						break
					}
				}
				noteSlack(res, okAt, k)
				if okAt < 0 {
					fail("c03.in-close-to-curve", "", fmt.Sprintf("%s: paid out %s charged %s; exact curve requires %s for that output and still less than in-%d for output+%d (%d steps)", tag, outImpl, inImpl, wr.In.FloatString(6), k, k, wr.Steps))
				}
			}
		}
		// landing exactly on an initialised tick
		np := ratBigDec(w.pool(b).GetCurrentSqrtPrice())
		for _, bd := range c.bounds {
			if bd.s.Cmp(np) == 0 {
				vac["probe_swaps_landing_exactly_on_tick"]++
				break
			}
		}

		// --- round trip: swap the whole proceeds straight back ---------------------------------
		if !partial {
			mid := bal(w, b, t)
			r2 := core.Deliver(a, b, &pmtypes.MsgSwapExactAmountIn{Sender: t.String(), Routes: []pmtypes.SwapAmountInRoute{{PoolId: w.PoolID, TokenOutDenom: in}},
				TokenIn: sdk.NewCoin(out, outImpl), TokenOutMinAmount: sdkmath.OneInt()})
			res.Transitions++
			if r2.OK() {
				end := bal(w, b, t)
				spentBack := mid.AmountOf(out).Sub(end.AmountOf(out))
				gotBack := end.AmountOf(in).Sub(mid.AmountOf(in))
				vac["round_trips_executed"]++
				if spentBack.Equal(outImpl) && gotBack.GT(inImpl) {
					fail("c03.round-trip-never-profits", "", fmt.Sprintf("%s: put in %s %s, got %s %s, swapped it back and received %s %s", tag, inImpl, in, outImpl, out, gotBack, in))
				}
			}
		}
	}
}

func noteSlack(res *core.Result, j, k int64) {
	if j < 0 {
		j = k + 1
	}
	if cur, _ := res.Extra["max_units_of_slack_needed"].(float64); float64(j) > cur {
		res.Extra["max_units_of_slack_needed"] = float64(j)
	}
	ratio := float64(j) / float64(k)
	if cur, _ := res.Extra["max_slack_over_tolerance"].(float64); ratio > cur {
		res.Extra["max_slack_over_tolerance"] = ratio
	}
}

// decRoundingAllowance is the part of the closeness tolerance that accounts for the code's fixed-point roundings
// at amounts where they exceed a base unit (see the rule in CheckC03):
//
//	ceil( in_impl*1e-18 [only if sf > 0] + sum over steps ( 1e-18 + L*2e-36*max(1, 1/(sqrtPa*sqrtPb)) ) )
func decRoundingAllowance(wr *walkResult, inImpl *big.Int, sf *big.Rat) *big.Int {
	e := new(big.Rat)
	e18 := new(big.Rat).SetFrac(big.NewInt(1), ten18)
	if sf.Sign() > 0 {
		e.Mul(new(big.Rat).SetInt(inImpl), e18)
	}
	two36 := new(big.Rat).SetFrac(big.NewInt(2), ten36)
	one := ratInt(1)
	for i := range wr.StepLiq {
		e.Add(e, e18)
		amp := new(big.Rat).Inv(new(big.Rat).Mul(wr.StepFrom[i], wr.StepTo[i]))
		if amp.Cmp(one) < 0 {
			amp = one
		}
		t := new(big.Rat).Mul(wr.StepLiq[i], two36)
		e.Add(e, t.Mul(t, amp))
	}
	return ceilRat(e)
}

// Largest slack seen so far at 18-decimal scale, kept exactly (the evidence carries the float64 images).
var debugTag string

var (
	scaledMaxUnits = new(big.Int)
	scaledMaxRatio = new(big.Rat)
)

// noteSlackScaled is noteSlack for tolerances too large to try one unit at a time. The closeness bound is monotone
// in j, so the smallest j in [0,k] that satisfies it is found by bisection - but only for the probes that raise one of
// the two recorded maxima (largest j needed, largest j/k): with j* = min(max units so far, floor(max ratio so far * k)),
// a probe whose bound holds at j* changes neither and costs one walk. The maxima are therefore exact and do not
// depend on the order in which probes are evaluated. Reported under separate keys so that the figures of the
// unit-scale configurations stay what they were. Returns whether the bound holds at k.
func noteSlackScaled(res *core.Result, holds func(j *big.Int) bool, k *big.Int) bool {
	kf, _ := new(big.Float).SetInt(k).Float64()
	if cur, _ := res.Extra["max_tolerance_units_at_scale"].(float64); kf > cur {
		res.Extra["max_tolerance_units_at_scale"] = kf
	}
	jstar := floorRat(new(big.Rat).Mul(scaledMaxRatio, new(big.Rat).SetInt(k)))
	if scaledMaxUnits.Cmp(jstar) < 0 {
		jstar.Set(scaledMaxUnits)
	}
	if jstar.Cmp(k) > 0 {
		jstar.Set(k)
	}
	if holds(jstar) {
		return true
	}
	ok := holds(k)
	need := new(big.Int).Add(k, big.NewInt(1))
	if ok {
		// invariant: lo fails, hi holds
		lo, hi := jstar, new(big.Int).Set(k)
		for new(big.Int).Sub(hi, lo).Cmp(big.NewInt(1)) > 0 {
			mid := new(big.Int).Add(lo, hi)
			mid.Rsh(mid, 1)
			if holds(mid) {
				hi = mid
			} else {
				lo = mid
			}
		}
		need = hi
	}
	if need.Cmp(scaledMaxUnits) > 0 {
		scaledMaxUnits.Set(need)
		res.Extra["max_units_of_slack_needed_at_scale"], _ = new(big.Float).SetInt(need).Float64()
	}
	if ratio := new(big.Rat).SetFrac(need, k); ratio.Cmp(scaledMaxRatio) > 0 {
		if os.Getenv("VERIF_DEBUG_SLACK") != "" {
			fmt.Fprintf(os.Stderr, "slack: need=%s k=%s %s\n", need, k, debugTag)
		}
		scaledMaxRatio.Set(ratio)
		res.Extra["max_slack_over_tolerance_at_scale"], _ = ratio.Float64()
	}
	return ok
}
