package main

import (
	"fmt"
	"sort"
	"time"

	sdkmath "cosmossdk.io/math"
	sdk "github.com/cosmos/cosmos-sdk/types"

	"github.com/osmosis-labs/osmosis/osmomath"
	clmath "github.com/osmosis-labs/osmosis/v31/x/concentrated-liquidity/math"
	cltypes "github.com/osmosis-labs/osmosis/v31/x/concentrated-liquidity/types"

	"github.com/osmosis-labs/osmosis/v31/zzverif/core"
)

// ---------------------------------------------------------------------------------------------
// C07: pool bookkeeping agrees with the positions (evaluated after every transition)
// ---------------------------------------------------------------------------------------------

func (w *World) CheckC07(ctx sdk.Context, l *Ledger, fail func(a, s, d string), vac map[string]int64) {
	k := w.App.ConcentratedLiquidityKeeper
	p := w.pool(ctx)
	cur := p.GetCurrentTick()
	sp := p.GetCurrentSqrtPrice()

	// stored positions == ledger positions
	ids, err := k.GetPositionIDsByPoolID(ctx, w.PoolID)
	if err != nil {
		fail("c07.position-index-readable", "", err.Error())
		return
	}
	sort.Slice(ids, func(i, j int) bool { return ids[i] < ids[j] })
	want := sortedIDs(l)
	if fmt.Sprint(ids) != fmt.Sprint(want) {
		fail("c07.position-set", "", fmt.Sprintf("stored ids %v, ledger ids %v", ids, want))
	}
	for _, lp := range l.Pos {
		sp, err := k.GetPosition(ctx, lp.ID)
		if err != nil {
			fail("c07.position-exists", "", fmt.Sprintf("id %d: %v", lp.ID, err))
			continue
		}
		if sp.Address != core.Acc(lp.Owner).String() || sp.PoolId != w.PoolID || sp.LowerTick != lp.Lower || sp.UpperTick != lp.Upper ||
			!sp.JoinTime.Equal(lp.Join) || !sp.Liquidity.Equal(lp.Liq) {
			fail("c07.position-record-unchanged", "", fmt.Sprintf("id %d stored {%s %d [%d,%d] %s %s} ledger {%s [%d,%d] %s %s}", lp.ID,
				sp.Address, sp.PoolId, sp.LowerTick, sp.UpperTick, sp.JoinTime, sp.Liquidity, core.Acc(lp.Owner), lp.Lower, lp.Upper, lp.Join, lp.Liq))
		}
		// by-owner index
		ups, err := k.GetUserPositions(ctx, core.Acc(lp.Owner), w.PoolID)
		found := false
		for _, up := range ups {
			if up.PositionId == lp.ID {
				found = true
			}
		}
		if err != nil || !found {
			fail("c07.owner-index", "", fmt.Sprintf("position %d not listed for owner %s (err=%v)", lp.ID, lp.Owner, err))
		}
	}

	if len(l.Pos) == 0 {
		vac["empty_pool_states"]++
		if !sp.IsZero() || cur != 0 || !p.GetLiquidity().IsZero() {
			fail("c07.empty-pool-has-no-price", "", fmt.Sprintf("sqrtP=%s tick=%d liq=%s", sp, cur, p.GetLiquidity()))
		}
	} else if sp.IsZero() {
		fail("c07.pool-with-positions-has-price", "", "sqrt price is zero with live positions")
	}

	// active liquidity
	active := osmomath.ZeroDec()
	gross := map[int64]osmomath.Dec{}
	net := map[int64]osmomath.Dec{}
	add := func(m map[int64]osmomath.Dec, t int64, v osmomath.Dec) {
		if o, ok := m[t]; ok {
			m[t] = o.Add(v)
		} else {
			m[t] = v
		}
	}
	for _, lp := range l.Pos {
		if lp.Lower <= cur && cur < lp.Upper {
			active = active.Add(lp.Liq)
		}
		add(gross, lp.Lower, lp.Liq)
		add(gross, lp.Upper, lp.Liq)
		add(net, lp.Lower, lp.Liq)
		add(net, lp.Upper, lp.Liq.Neg())
	}
	if !p.GetLiquidity().Equal(active) {
		fail("c07.active-liquidity", "", fmt.Sprintf("pool reports %s, positions containing tick %d sum to %s", p.GetLiquidity(), cur, active))
	}
	if active.IsZero() && len(l.Pos) > 0 {
		vac["price_in_empty_gap"]++
	}
	ticks, err := k.GetAllInitializedTicksForPool(ctx, w.PoolID)
	if err != nil {
		fail("c07.ticks-readable", "", err.Error())
		return
	}
	seen := map[int64]bool{}
	for _, t := range ticks {
		seen[t.TickIndex] = true
		g, ok := gross[t.TickIndex]
		if !ok {
			fail("c07.no-stray-ticks", "", fmt.Sprintf("tick %d stored (gross %s net %s) but no position uses it", t.TickIndex, t.Info.LiquidityGross, t.Info.LiquidityNet))
			continue
		}
		if g.IsPositive() && net[t.TickIndex].IsZero() {
			vac["states_with_a_tick_in_use_whose_net_liquidity_is_zero"]++
		}
		if !t.Info.LiquidityGross.Equal(g) || !t.Info.LiquidityNet.Equal(net[t.TickIndex]) {
			fail("c07.tick-liquidity", "", fmt.Sprintf("tick %d stored gross %s net %s, positions give gross %s net %s", t.TickIndex, t.Info.LiquidityGross, t.Info.LiquidityNet, g, net[t.TickIndex]))
		}
		if sp.IsPositive() {
			tsp, _ := clmath.TickToSqrtPrice(t.TickIndex)
			if tsp.Equal(sp) {
				vac["price_exactly_on_initialized_tick"]++
			}
		}
	}
	for t := range gross {
		if !seen[t] {
			fail("c07.boundary-ticks-stored", "", fmt.Sprintf("tick %d is a boundary of a live position but is not stored", t))
		}
	}

	// the current price lies inside the current tick's bucket. Closed on both sides: a zero-for-one swap that ends exactly
	// on a tick leaves tick-1 with the tick's price; as wide as one tick spacing: the first position stores the price's tick
	// rounded down to the spacing. A tick left over from before the last swap step is outside this bucket.
	if sp.IsPositive() {
		ts := int64(w.Cfg.TickSpacing)
		if bl, err := clmath.TickToSqrtPrice(cur); err == nil && sp.LT(bl) {
			fail("c07.price-inside-current-tick-bucket", "", fmt.Sprintf("current tick %d has sqrt price %s, the pool's sqrt price %s is below it", cur, bl, sp))
		}
		if cur+ts <= cltypes.MaxTick {
			if bu, err := clmath.TickToSqrtPrice(cur + ts); err == nil && sp.GT(bu) {
				fail("c07.price-inside-current-tick-bucket", "", fmt.Sprintf("current tick %d (spacing %d): tick %d has sqrt price %s, the pool's sqrt price %s is above it", cur, ts, cur+ts, bu, sp))
			}
		}
	}

	// price / tick agreement, per position, closed inequalities
	if sp.IsPositive() {
		for _, lp := range l.Pos {
			lo, hi, err := clmath.TicksToSqrtPrice(lp.Lower, lp.Upper)
			if err != nil {
				continue
			}
			switch {
			case cur < lp.Lower:
				if sp.GT(lo) {
					fail("c07.price-tick-agree", "", fmt.Sprintf("tick %d below position %d [%d,%d) but sqrtP %s > sqrtP(lower) %s", cur, lp.ID, lp.Lower, lp.Upper, sp, lo))
				}
			case cur >= lp.Upper:
				if sp.LT(hi) {
					fail("c07.price-tick-agree", "", fmt.Sprintf("tick %d above position %d [%d,%d) but sqrtP %s < sqrtP(upper) %s", cur, lp.ID, lp.Lower, lp.Upper, sp, hi))
				}
			default:
				if sp.LT(lo) || sp.GT(hi) {
					fail("c07.price-tick-agree", "", fmt.Sprintf("tick %d inside position %d [%d,%d) but sqrtP %s outside [%s,%s]", cur, lp.ID, lp.Lower, lp.Upper, sp, lo, hi))
				}
			}
		}
	}
}

// ---------------------------------------------------------------------------------------------
// C01: solvency — everybody can leave, in every order, and the reward accounts cover the claims
// ---------------------------------------------------------------------------------------------

func perms(n int) [][]int {
	if n <= 3 {
		var out [][]int
		var rec func(cur []int, used int)
		rec = func(cur []int, used int) {
			if len(cur) == n {
				out = append(out, append([]int{}, cur...))
				return
			}
			for i := 0; i < n; i++ {
				if used&(1<<i) == 0 {
					rec(append(cur, i), used|1<<i)
				}
			}
		}
		rec(nil, 0)
		return out
	}
	var out [][]int
	for r := 0; r < n; r++ {
		p := make([]int, n)
		for i := range p {
			p[i] = (i + r) % n
		}
		out = append(out, p)
	}
	rev := make([]int, n)
	for i := range rev {
		rev[i] = n - 1 - i
	}
	return append(out, rev)
}

func (w *World) CheckC01(ctx sdk.Context, l *Ledger, fail func(a, s, d string), vac map[string]int64, res *core.Result) {
	if len(l.Pos) == 0 {
		return
	}
	k := w.App.ConcentratedLiquidityKeeper
	p := w.pool(ctx)

	coverage := func(c sdk.Context, tag string) {
		qc, _ := c.CacheContext()
		sumSpread, sumInc := sdk.NewCoins(), sdk.NewCoins()
		for _, lp := range l.Pos {
			var cs, ci sdk.Coins
			err := core.Try(func() (e error) { cs, e = k.GetClaimableSpreadRewards(qc, lp.ID); return })
			if err != nil {
				fail("c01.claimable-spread-query", "", fmt.Sprintf("%s position %d: %v", tag, lp.ID, err))
				continue
			}
			sumSpread = sumSpread.Add(cs...)
			err = core.Try(func() (e error) { ci, _, e = k.GetClaimableIncentives(qc, lp.ID); return })
			if err != nil {
				fail("c01.claimable-incentives-query", "", fmt.Sprintf("%s position %d: %v", tag, lp.ID, err))
				continue
			}
			sumInc = sumInc.Add(ci...)
		}
		sb := bal(w, c, p.GetSpreadRewardsAddress())
		ib := bal(w, c, p.GetIncentivesAddress())
		if !sb.IsAllGTE(sumSpread) && !sumSpread.IsZero() {
			fail("c01.spread-balance-covers-claimable", "", fmt.Sprintf("%s claimable %s > spread-reward balance %s", tag, sumSpread, sb))
		}
		if !ib.IsAllGTE(sumInc) && !sumInc.IsZero() {
			fail("c01.incentive-balance-covers-claimable", "", fmt.Sprintf("%s claimable %s > incentive balance %s", tag, sumInc, ib))
		}
		if !sumSpread.IsZero() {
			vac["states_with_claimable_spread"]++
		}
		if !sumInc.IsZero() {
			vac["states_with_claimable_incentives"]++
		}
	}

	exitAll := func(base sdk.Context, order []int, tag string) {
		c, _ := base.CacheContext()
		for _, i := range order {
			lp := l.Pos[i]
			if lp.Locked {
				continue
			}
			owner := core.Acc(lp.Owner).String()
			if r := core.Deliver(w.App, c, &cltypes.MsgCollectSpreadRewards{PositionIds: []uint64{lp.ID}, Sender: owner}); !r.OK() {
				fail("c01.collect-spread-succeeds", "", fmt.Sprintf("%s order %v position %d: %v", tag, order, lp.ID, r.Err))
			}
			if r := core.Deliver(w.App, c, &cltypes.MsgCollectIncentives{PositionIds: []uint64{lp.ID}, Sender: owner}); !r.OK() {
				fail("c01.collect-incentives-succeeds", "", fmt.Sprintf("%s order %v position %d: %v", tag, order, lp.ID, r.Err))
			}
			if r := core.Deliver(w.App, c, &cltypes.MsgWithdrawPosition{PositionId: lp.ID, Sender: owner, LiquidityAmount: lp.Liq}); !r.OK() {
				fail("c01.full-withdraw-succeeds", "", fmt.Sprintf("%s order %v position %d liq %s: %v", tag, order, lp.ID, lp.Liq, r.Err))
			}
		}
		res.Transitions += int64(3 * len(order))
		// everybody left
		anyLocked := false
		for _, lp := range l.Pos {
			anyLocked = anyLocked || lp.Locked
		}
		if !anyLocked {
			pp := w.pool(c)
			if !pp.GetCurrentSqrtPrice().IsZero() || !pp.GetLiquidity().IsZero() {
				fail("c01.pool-empty-after-everybody-left", "", fmt.Sprintf("%s order %v: sqrtP=%s liq=%s", tag, order, pp.GetCurrentSqrtPrice(), pp.GetLiquidity()))
			}
			d := bal(w, c, pp.GetAddress())
			for _, coin := range d {
				if x := coin.Amount.Int64(); float64(x) > res.Extra["max_dust_pool"].(float64) {
					res.Extra["max_dust_pool"] = float64(x)
				}
			}
		}
		vac["exit_orders_executed"]++
	}

	coverage(ctx, "now")
	orders := perms(len(l.Pos))
	for _, o := range orders {
		exitAll(ctx, o, "now")
	}
	// again after the largest authorised uptime has elapsed (incentives mature, nothing is forfeited)
	later, _ := ctx.CacheContext()
	later2, err := core.NextBlock(w.App, later, w.Uptime[len(w.Uptime)-1]+time.Second)
	if err != nil {
		fail("block.boundary-succeeds", "", err.Error())
		return
	}
	coverage(later2, "after-uptime")
	exitAll(later2, orders[0], "after-uptime")
	if len(orders) > 1 {
		exitAll(later2, orders[len(orders)-1], "after-uptime")
	}
}

var _ = sdkmath.ZeroInt
