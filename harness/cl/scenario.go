package main

import (
	"fmt"
	"math/big"
	"os"
	"sort"
	"strings"
	"time"

	sdkmath "cosmossdk.io/math"
	sdk "github.com/cosmos/cosmos-sdk/types"
	"github.com/cosmos/gogoproto/proto"

	"github.com/osmosis-labs/osmosis/osmomath"
	"github.com/osmosis-labs/osmosis/v31/app"
	clmath "github.com/osmosis-labs/osmosis/v31/x/concentrated-liquidity/math"
	clmodel "github.com/osmosis-labs/osmosis/v31/x/concentrated-liquidity/model"
	cltypes "github.com/osmosis-labs/osmosis/v31/x/concentrated-liquidity/types"
	pmtypes "github.com/osmosis-labs/osmosis/v31/x/poolmanager/types"

	"github.com/osmosis-labs/osmosis/v31/zzverif/core"
)

const (
	Denom0 = "eth"
	Denom1 = "usdc"
	IncDen = "inc"
)

// Config is one point of the configuration space (outer loop of every CL check).
type Config struct {
	TickSpacing  uint64 `json:"tick_spacing"`
	SpreadFactor string `json:"spread_factor"`
	Scaled       bool   `json:"scaled_accumulators"` // pool id above the migration thresholds
	First0       int64  `json:"first_amount0"`       // the first position sets the price
	First1       int64  `json:"first_amount1"`
	RangeUnit    int64  `json:"range_unit"` // in ticks; multiple of the spacing
	// Exp10 is the amount scale of the scenario: every pool-token amount written as an int64 in a configuration, an
	// operation, a seed or the probe set stands for that many times 10^Exp10 base units (0: the 6-decimal-scale
	// scenario as it always was; 18: 18-decimal tokens, reserves of 1e24..1e30 base units). Amounts synthesised by
	// the exact walker, the +-1 variations and balances read back from the chain are real base units and not scaled.
	Exp10 int `json:"exp10,omitempty"`
}

func (c Config) String() string {
	s := fmt.Sprintf("ts=%d sf=%s scaled=%v first=(%d,%d) unit=%d", c.TickSpacing, c.SpreadFactor, c.Scaled, c.First0, c.First1, c.RangeUnit)
	if c.Exp10 != 0 {
		s += fmt.Sprintf(" x1e%d", c.Exp10)
	}
	return s
}

// Op is one symbol of the CL alphabet.
type Op struct {
	K string `json:"k"`           // create add withdraw swapin swapout cspread cinc transfer incentive tick
	A string `json:"a,omitempty"` // account
	P int    `json:"p,omitempty"` // index into the ledger's live positions (creation order)
	R int    `json:"r,omitempty"` // range index
	X int64  `json:"x,omitempty"` // amount0 / amount / numerator (pool-token amounts: times 10^Config.Exp10)
	Y int64  `json:"y,omitempty"` // amount1 / denominator
	D int    `json:"d,omitempty"` // direction 0: token0 in, 1: token1 in ; dt index ; uptime index
	// Raw, when set, is a swap amount in real base units (decimal) and replaces X: walker-synthesised amounts of
	// configurations with Exp10 != 0 do not fit an int64 and must not be scaled
	Raw string `json:"raw,omitempty"`
	// Q, on a withdraw, is 1 + the index of a neighbouring position (one that shares a boundary tick as the other kind
	// of bound): the amount withdrawn is then liq(P) - liq(Q), which leaves the shared tick with net liquidity ZERO and
	// gross liquidity 2*liq(Q) - a tick that is still in use although its net is zero
	Q int `json:"q,omitempty"`
}

func (o Op) String() string {
	if o.Raw != "" {
		return fmt.Sprintf("%s{a=%s p=%d r=%d raw=%s y=%d d=%d}", o.K, o.A, o.P, o.R, o.Raw, o.Y, o.D)
	}
	if o.Q > 0 {
		return fmt.Sprintf("%s{p=%d down-to-the-liquidity-of q=%d}", o.K, o.P, o.Q-1)
	}
	return fmt.Sprintf("%s{a=%s p=%d r=%d x=%d y=%d d=%d}", o.K, o.A, o.P, o.R, o.X, o.Y, o.D)
}

// Pos is the harness's own record of a position, built from requests and responses.
type Pos struct {
	ID     uint64
	Owner  string
	Lower  int64
	Upper  int64
	Liq    osmomath.Dec
	Join   time.Time
	Locked bool
	// EverInRange is maintained by the ledger from observed pool ticks after every transition.
	EverInRange bool
	R           PosR // reward reference (C08)
}

type IncRec struct {
	ID     uint64
	Denom  string
	Amount sdkmath.Int
	Uptime time.Duration
	Start  time.Time
}

// Ledger is the reference state of the shared CL scenario.
type Ledger struct {
	Pos        []Pos
	Incentives []IncRec
	NextPosID  uint64
	// totals paid into the reward accounts and claimed from them, per denom
	SpreadPaidIn  sdk.Coins // upper bound: sum of swap inputs * sf rounded up
	SpreadClaimed sdk.Coins
	IncPaidIn     sdk.Coins
	IncClaimed    sdk.Coins
	Swaps         int
	LiqChanges    int
	Claims        int
	PartialFills  int
	Overcharged   int
	R             Rewards // reward reference (C08)
}

func (l *Ledger) Clone() *Ledger {
	n := *l
	n.Pos = append([]Pos{}, l.Pos...)
	n.Incentives = append([]IncRec{}, l.Incentives...)
	n.SpreadPaidIn = append(sdk.Coins{}, l.SpreadPaidIn...)
	n.SpreadClaimed = append(sdk.Coins{}, l.SpreadClaimed...)
	n.IncPaidIn = append(sdk.Coins{}, l.IncPaidIn...)
	n.IncClaimed = append(sdk.Coins{}, l.IncClaimed...)
	n.R.Recs = append([]IncR{}, l.R.Recs...)
	return &n
}

func (l *Ledger) find(id uint64) int {
	for i := range l.Pos {
		if l.Pos[i].ID == id {
			return i
		}
	}
	return -1
}

// World is one configured application instance.
type World struct {
	Env    *core.Env
	App    *app.OsmosisApp
	Cfg    Config
	PoolID uint64
	SF     osmomath.Dec
	Ranges [][2]int64
	Uptime []time.Duration
	scale  *big.Int // 10^Cfg.Exp10
}

// amt converts a scenario amount (int64, in units of 10^Exp10 base units) to base units.
func (w *World) amt(n int64) sdkmath.Int {
	if w.Cfg.Exp10 == 0 {
		return sdkmath.NewInt(n)
	}
	return sdkmath.NewIntFromBigInt(new(big.Int).Mul(big.NewInt(n), w.scale))
}

// amtBig is amt as a *big.Int.
func (w *World) amtBig(n int64) *big.Int { return new(big.Int).Mul(big.NewInt(n), w.scale) }

// swapAmt is the specified amount of a swap op in base units.
func (w *World) swapAmt(op Op) sdkmath.Int {
	if op.Raw != "" {
		v, ok := new(big.Int).SetString(op.Raw, 10)
		if !ok {
			panic("bad raw amount " + op.Raw)
		}
		return sdkmath.NewIntFromBigInt(v)
	}
	return w.amt(op.X)
}

// maxIn is the "no limit" TokenInMaxAmount of exact-out swaps: 2^62 scenario units.
func (w *World) maxIn() sdkmath.Int {
	return sdkmath.NewIntFromBigInt(new(big.Int).Mul(new(big.Int).SetUint64(1<<62), w.scale))
}

// the middle step carries a fractional second (and one odd nanosecond): emission is rate x elapsed time with nanosecond resolution
var dts = []time.Duration{time.Second, 61*time.Second + 500*time.Millisecond + time.Nanosecond, 3601 * time.Second}

var stores = []string{"concentratedliquidity", "bank", "acc", "poolmanager", "lockup", "incentives", "twap", "protorev", "txfees", "poolincentives", "epochs", "mint", "distribution", "gamm", "superfluid"}

func sdkInt(n int64) sdkmath.Int { return sdkmath.NewInt(n) }

// NewWorld builds the app, the pool and the range table for a configuration.
func NewWorld(cfg Config) *World {
	if cfg.Exp10 < 0 || cfg.Exp10 > 18 {
		panic("Exp10 out of range")
	}
	zeros := strings.Repeat("0", cfg.Exp10) // the pool tokens are funded at the scenario's amount scale
	fund := core.Coins(Denom0, "1000000000000000000000"+zeros, Denom1, "1000000000000000000000"+zeros, "uosmo", "100000000000", IncDen, "1000000000000000", incDenoms[0], "1000000000000000", incDenoms[1], "1000000000000000", incDenoms[2], "1000000000000000")
	env := core.NewEnv(core.GenesisOpts{Balances: map[string]sdk.Coins{"A": fund, "B": fund, "C": fund, "T": fund, "I": fund, "N": fund}})
	a, ctx := env.App, env.Ctx
	w := &World{Env: env, App: a, Cfg: cfg, SF: osmomath.MustNewDecFromStr(cfg.SpreadFactor), scale: new(big.Int).Exp(big.NewInt(10), big.NewInt(int64(cfg.Exp10)), nil)}

	p := cltypes.DefaultParams()
	p.IsPermissionlessPoolCreationEnabled = true
	w.Uptime = []time.Duration{time.Nanosecond, time.Minute, time.Hour}
	p.AuthorizedUptimes = w.Uptime
	a.ConcentratedLiquidityKeeper.SetParams(ctx, p)
	qd := append(pmtypes.DefaultParams().AuthorizedQuoteDenoms, Denom0, Denom1)
	a.PoolManagerKeeper.SetParam(ctx, pmtypes.KeyAuthorizedQuoteDenoms, qd)

	// Which side of the accumulator-scaling migration the pool is on is decided by comparing the
	// pool id with the stored thresholds; set them with the keeper's own setters.
	if cfg.Scaled {
		a.ConcentratedLiquidityKeeper.SetIncentivePoolIDMigrationThreshold(ctx, 0)
		a.ConcentratedLiquidityKeeper.SetSpreadFactorPoolIDMigrationThreshold(ctx, 0)
	} else {
		a.ConcentratedLiquidityKeeper.SetIncentivePoolIDMigrationThreshold(ctx, 1000)
		a.ConcentratedLiquidityKeeper.SetSpreadFactorPoolIDMigrationThreshold(ctx, 1000)
	}

	cm := clmodel.NewMsgCreateConcentratedPool(core.Acc("A"), Denom0, Denom1, cfg.TickSpacing, w.SF)
	r := core.Deliver(a, ctx, &cm)
	if !r.OK() {
		panic(fmt.Sprintf("harness: pool creation failed: %v", r.Err))
	}
	var resp clmodel.MsgCreateConcentratedPoolResponse
	mustUnmarshal(r.Res, &resp)
	w.PoolID = resp.PoolID

	// Range table: absolute ticks around the tick the first position's price lands on.
	price := osmomath.NewBigDec(cfg.First1).Quo(osmomath.NewBigDec(cfg.First0))
	c0raw, err := clmath.CalculatePriceToTick(price)
	if err != nil {
		panic(err)
	}
	ts := int64(cfg.TickSpacing)
	// floor to the spacing, computed here and not with the repository's RoundDownTickToSpacing: the range table must
	// not follow a wrong rounding of the code under test
	c0 := c0raw / ts * ts
	if c0raw%ts != 0 && c0raw < 0 {
		c0 -= ts
	}
	u := cfg.RangeUnit
	if u%ts != 0 || u <= 0 {
		panic("range unit must be a positive multiple of the spacing")
	}
	w.Ranges = [][2]int64{
		{c0 - 2*u, c0 + 2*u},                     // 0 straddling
		{c0, c0 + u},                             // 1 one bucket starting exactly at the initial tick
		{c0 + u, c0 + 3*u},                       // 2 entirely above, shares a boundary with 1
		{c0 - 3*u, c0 - u},                       // 3 entirely below
		{cltypes.MinInitializedTick, cltypes.MaxTick}, // 4 full range
		{c0 - 2*u, c0},                           // 5 ends exactly at the initial tick, shares lower with 0
	}
	w.neighbours(ctx)
	return w
}

// neighbours puts nine more concentrated pools of the same denom pair into the world, owned and funded by account N, which the
// scenario never uses otherwise. The last one has the id "<pool under test>0" (1 -> 10): every per-pool key of the module is
// a byte-prefix range over the decimal pool id, so pool 10's positions, ticks and incentive records are what a missing key
// separator would sweep into pool 1. Pool 10 holds a full-range position and one running incentive record per uptime, in
// the reward denoms the scenario's own records use. Nothing of this may ever show in pool 1's books.
func (w *World) neighbours(ctx sdk.Context) {
	a := w.App
	var last uint64
	for i := 0; i < 9; i++ {
		cm := clmodel.NewMsgCreateConcentratedPool(core.Acc("N"), Denom0, Denom1, 100, osmomath.MustNewDecFromStr("0.003"))
		r := core.Deliver(a, ctx, &cm)
		if !r.OK() {
			panic(fmt.Sprintf("harness: neighbour pool creation failed: %v", r.Err))
		}
		var resp clmodel.MsgCreateConcentratedPoolResponse
		mustUnmarshal(r.Res, &resp)
		last = resp.PoolID
	}
	if fmt.Sprint(last) != fmt.Sprint(w.PoolID)+"0" {
		panic(fmt.Sprintf("harness: neighbour pool id %d is not the pool under test (%d) followed by a zero", last, w.PoolID))
	}
	amt := new(big.Int).Mul(big.NewInt(1000000), w.scale)
	r := core.Deliver(a, ctx, &cltypes.MsgCreatePosition{PoolId: last, Sender: core.Acc("N").String(),
		LowerTick: cltypes.MinInitializedTick, UpperTick: cltypes.MaxTick,
		TokensProvided:  sdk.NewCoins(sdk.NewCoin(Denom0, sdkmath.NewIntFromBigInt(amt)), sdk.NewCoin(Denom1, sdkmath.NewIntFromBigInt(amt))),
		TokenMinAmount0: sdkmath.ZeroInt(), TokenMinAmount1: sdkmath.ZeroInt()})
	if !r.OK() {
		panic(fmt.Sprintf("harness: neighbour position failed: %v", r.Err))
	}
	for i, up := range w.Uptime {
		if _, err := a.ConcentratedLiquidityKeeper.CreateIncentive(ctx, last, core.Acc("N"), sdk.NewCoin(incDenoms[i], sdkmath.NewInt(500000000)), osmomath.NewDec(1000), ctx.BlockTime(), up); err != nil {
			panic(fmt.Sprintf("harness: neighbour incentive failed: %v", err))
		}
	}
}

func mustUnmarshal(res *sdk.Result, m proto.Message) {
	if len(res.MsgResponses) > 0 {
		if err := proto.Unmarshal(res.MsgResponses[0].Value, m); err != nil {
			panic(err)
		}
		return
	}
	if err := proto.Unmarshal(res.Data, m); err != nil {
		panic(err)
	}
}

// errClass maps an error to a short stable class for the rejected-transition table.
func errClass(err error) string {
	if err == nil {
		return "ok"
	}
	s := fmt.Sprintf("%T", err)
	if s == "*errors.errorString" || s == "*fmt.wrapError" || s == "*errors.wrappedError" || s == "*fmt.wrapErrors" || s == "*errors.joinError" {
		// free-text errors: keep the leading words, drop everything numeric (some messages format
		// pointers, which would make the class differ between runs)
		m := []rune(err.Error())
		out := make([]rune, 0, 48)
		for _, c := range m {
			if c >= '0' && c <= '9' || c == '(' || c == '{' {
				break
			}
			out = append(out, c)
			if len(out) >= 48 {
				break
			}
		}
		return "rejected:" + strings.TrimSpace(string(out))
	}
	return "rejected:" + s
}

func (w *World) pool(ctx sdk.Context) cltypes.ConcentratedPoolExtension {
	p, err := w.App.ConcentratedLiquidityKeeper.GetConcentratedPoolById(ctx, w.PoolID)
	if err != nil {
		panic(err)
	}
	return p
}

func (w *World) coinsOf(a0, a1 int64) sdk.Coins {
	c := sdk.NewCoins()
	if a0 > 0 {
		c = c.Add(sdk.NewCoin(Denom0, w.amt(a0)))
	}
	if a1 > 0 {
		c = c.Add(sdk.NewCoin(Denom1, w.amt(a1)))
	}
	return c
}

func bal(w *World, ctx sdk.Context, addr sdk.AccAddress) sdk.Coins {
	return w.App.BankKeeper.GetAllBalances(ctx, addr)
}

// markInRange updates EverInRange from the pool's current tick.
func (w *World) markInRange(ctx sdk.Context, l *Ledger) {
	if len(l.Pos) == 0 {
		return
	}
	p := w.pool(ctx)
	if p.GetCurrentSqrtPrice().IsZero() {
		return
	}
	t := p.GetCurrentTick()
	for i := range l.Pos {
		// conservative: a position counts as "entered" when the tick is inside or on either boundary
		// (a price parked exactly on the upper tick after an upward swap has consumed the whole range).
		if t >= l.Pos[i].Lower-1 && t <= l.Pos[i].Upper {
			l.Pos[i].EverInRange = true
		}
	}
}

// Apply executes one op against the real application and updates the ledger from the response.
func (w *World) Apply(ctx sdk.Context, l *Ledger, op Op, fail func(a, s, d string)) (sdk.Context, string) {
	a := w.App
	switch op.K {
	case "create":
		rg := w.Ranges[op.R]
		msg := &cltypes.MsgCreatePosition{PoolId: w.PoolID, Sender: core.Acc(op.A).String(), LowerTick: rg[0], UpperTick: rg[1],
			TokensProvided: w.coinsOf(op.X, op.Y), TokenMinAmount0: sdkmath.ZeroInt(), TokenMinAmount1: sdkmath.ZeroInt()}
		before := bal(w, ctx, core.Acc(op.A))
		r := core.Deliver(a, ctx, msg)
		if !r.OK() {
			return ctx, errClass(r.Err)
		}
		var resp cltypes.MsgCreatePositionResponse
		mustUnmarshal(r.Res, &resp)
		l.Pos = append(l.Pos, Pos{ID: resp.PositionId, Owner: op.A, Lower: resp.LowerTick, Upper: resp.UpperTick, Liq: resp.LiquidityCreated, Join: ctx.BlockTime(), R: newPosR()})
		l.Pos[len(l.Pos)-1].R.BornSeq = l.R.Redeposits
		l.Pos[len(l.Pos)-1].R.BornSwaps = l.Swaps
		l.LiqChanges++
		after := bal(w, ctx, core.Acc(op.A))
		paid := before.Sub(after...)
		if !paid.AmountOf(Denom0).Equal(resp.Amount0) || !paid.AmountOf(Denom1).Equal(resp.Amount1) {
			fail("create.response-matches-balance", "", fmt.Sprintf("response (%s,%s) but balance moved %s", resp.Amount0, resp.Amount1, paid))
		}
		if resp.Amount0.GT(w.amt(op.X)) || resp.Amount1.GT(w.amt(op.Y)) {
			// observed on the unchanged tree: liquidity is derived from the provided amounts with truncation and
			// the charged amounts are re-derived rounding up, which can exceed the provided amount by one unit.
			// No listed property forbids it; counted, not asserted.
			l.Overcharged++
		}
	case "add":
		if op.P >= len(l.Pos) {
			return ctx, "rejected:no-such-position"
		}
		p := l.Pos[op.P]
		msg := &cltypes.MsgAddToPosition{PositionId: p.ID, Sender: core.Acc(p.Owner).String(), Amount0: w.amt(op.X), Amount1: w.amt(op.Y),
			TokenMinAmount0: sdkmath.ZeroInt(), TokenMinAmount1: sdkmath.ZeroInt()}
		inc0 := bal(w, ctx, core.Acc(p.Owner))
		var csBefore sdk.Coins
		if l.R.On {
			csBefore, _ = a.ConcentratedLiquidityKeeper.GetClaimableSpreadRewards(ctx, p.ID)
		}
		r := core.Deliver(a, ctx, msg)
		if !r.OK() {
			return ctx, errClass(r.Err)
		}
		var resp cltypes.MsgAddToPositionResponse
		mustUnmarshal(r.Res, &resp)
		np, err := a.ConcentratedLiquidityKeeper.GetPosition(ctx, resp.PositionId)
		if err != nil {
			fail("add.new-position-exists", "", err.Error())
			return ctx, "ok"
		}
		// AddToPosition retires the id and issues a new one (documented); rewards of the old id are
		// paid out during the implied full withdrawal.
		inc1 := bal(w, ctx, core.Acc(p.Owner))
		l.noteClaimsFromBalance(inc0, inc1)
		old := l.Pos[op.P] // copy
		l.Pos = append(l.Pos[:op.P:op.P], l.Pos[op.P+1:]...)
		if l.R.On {
			// the implied full withdrawal settles the old id: incentives by the uptime rule, spread rewards in full
			forfeit, ent := settleIncentives(w, &old, ctx.BlockTime())
			other := w.activeLiq(ctx, l).Cmp(ratInt(1)) >= 0
			w.redeposit(ctx, l, forfeit, &old.R)
			for u, d := range incDenoms {
				got := inc1.AmountOf(d).Sub(inc0.AmountOf(d))
				old.R.CumInc[u] = old.R.CumInc[u].Add(got)
				if !ent[u] && got.IsPositive() && other {
					fail("c08.uptime-not-met-not-paid", "", fmt.Sprintf("add: position %d age %s < uptime %s was paid %s %s while other liquidity is active", old.ID, ctx.BlockTime().Sub(old.Join), w.Uptime[u], got, d))
				}
			}
			for i, d := range []string{Denom0, Denom1} {
				old.R.CumSpread[i] = old.R.CumSpread[i].Add(csBefore.AmountOf(d))
			}
			w.retire(l, &old, fail)
		}
		l.Pos = append(l.Pos, Pos{ID: resp.PositionId, Owner: p.Owner, Lower: p.Lower, Upper: p.Upper, Liq: np.Liquidity, Join: ctx.BlockTime(), EverInRange: false, R: newPosR()})
		l.Pos[len(l.Pos)-1].R.BornSeq = l.R.Redeposits
		l.Pos[len(l.Pos)-1].R.BornSwaps = l.Swaps
		l.LiqChanges += 2
		if np.Liquidity.LT(p.Liq) {
			fail("add.liquidity-not-decreased", "", fmt.Sprintf("old %s new %s", p.Liq, np.Liquidity))
		}
	case "equalize":
		// seed helper: the partial withdrawal that makes positions P and Q hold equal liquidity, from whichever holds more
		if op.P >= len(l.Pos) || op.Q >= len(l.Pos) {
			return ctx, "rejected:no-such-position"
		}
		if l.Pos[op.P].Liq.GT(l.Pos[op.Q].Liq) {
			return w.Apply(ctx, l, Op{K: "withdraw", P: op.P, Q: op.Q + 1}, fail)
		}
		return w.Apply(ctx, l, Op{K: "withdraw", P: op.Q, Q: op.P + 1}, fail)
	case "withdraw":
		if op.P >= len(l.Pos) {
			return ctx, "rejected:no-such-position"
		}
		p := l.Pos[op.P]
		amt := p.Liq
		if op.Y > 1 {
			amt = p.Liq.MulInt64(op.X).QuoInt64(op.Y)
		}
		if op.Q > 0 {
			if op.Q-1 >= len(l.Pos) {
				return ctx, "rejected:no-such-position"
			}
			amt = p.Liq.Sub(l.Pos[op.Q-1].Liq)
		}
		if !amt.IsPositive() {
			return ctx, "rejected:zero"
		}
		msg := &cltypes.MsgWithdrawPosition{PositionId: p.ID, Sender: core.Acc(p.Owner).String(), LiquidityAmount: amt}
		before := bal(w, ctx, core.Acc(p.Owner))
		r := core.Deliver(a, ctx, msg)
		if !r.OK() {
			return ctx, errClass(r.Err)
		}
		var resp cltypes.MsgWithdrawPositionResponse
		mustUnmarshal(r.Res, &resp)
		after := bal(w, ctx, core.Acc(p.Owner))
		got := after.Sub(before...)
		// the balance moves by principal plus (on full withdrawal) claimed rewards; principal must be covered
		if got.AmountOf(Denom0).LT(resp.Amount0) || got.AmountOf(Denom1).LT(resp.Amount1) {
			fail("withdraw.response-covered-by-balance", "", fmt.Sprintf("response (%s,%s) balance delta %s", resp.Amount0, resp.Amount1, got))
		}
		l.noteClaims(got, resp.Amount0, resp.Amount1)
		l.LiqChanges++
		full := amt.Equal(p.Liq)
		cur := l.Pos[op.P] // copy
		if full {
			l.Pos = append(l.Pos[:op.P:op.P], l.Pos[op.P+1:]...)
		} else {
			l.Pos[op.P].Liq = p.Liq.Sub(amt)
			l.Pos[op.P].R.Touched = true
			l.Pos[op.P].R.LiqCh++
		}
		if l.R.On {
			tgt := &cur
			if !full {
				tgt = &l.Pos[op.P]
			}
			forfeit, ent := settleIncentives(w, tgt, ctx.BlockTime())
			// "other liquidity": active liquidity not counting this position
			otherL := w.activeLiq(ctx, l)
			if !full && inRangeTick(tgt, w.pool(ctx).GetCurrentTick()) {
				otherL = new(big.Rat).Sub(otherL, ratDec(tgt.Liq))
			}
			w.redeposit(ctx, l, forfeit, &tgt.R)
			notePaid(&tgt.R, got, resp.Amount0, resp.Amount1)
			for u, d := range incDenoms {
				if !ent[u] && got.AmountOf(d).IsPositive() && otherL.Cmp(ratInt(1)) >= 0 {
					fail("c08.uptime-not-met-not-paid", "", fmt.Sprintf("withdraw: position %d age %s < uptime %s was paid %s %s while other liquidity is active", tgt.ID, ctx.BlockTime().Sub(tgt.Join), w.Uptime[u], got.AmountOf(d), d))
				}
			}
			if full {
				w.retire(l, tgt, fail)
			}
		}
	case "swapin", "swapout":
		in, out := Denom0, Denom1
		if op.D == 1 {
			in, out = Denom1, Denom0
		}
		t := core.Acc("T")
		before := bal(w, ctx, t)
		sc := w.beforeSwap(ctx, l)
		feeAcct := w.pool(ctx).GetSpreadRewardsAddress()
		feeBefore := w.App.BankKeeper.GetBalance(ctx, feeAcct, in).Amount
		var r core.MsgResult
		spec := w.swapAmt(op)
		if op.K == "swapin" {
			r = core.Deliver(a, ctx, &pmtypes.MsgSwapExactAmountIn{Sender: t.String(), Routes: []pmtypes.SwapAmountInRoute{{PoolId: w.PoolID, TokenOutDenom: out}},
				TokenIn: sdk.NewCoin(in, spec), TokenOutMinAmount: sdkmath.OneInt()})
		} else {
			r = core.Deliver(a, ctx, &pmtypes.MsgSwapExactAmountOut{Sender: t.String(), Routes: []pmtypes.SwapAmountOutRoute{{PoolId: w.PoolID, TokenInDenom: in}},
				TokenOut: sdk.NewCoin(out, spec), TokenInMaxAmount: w.maxIn()})
		}
		if !r.OK() {
			if os.Getenv("VERIF_DEBUG") != "" {
				fmt.Println("   swap error:", r.Err)
			}
			return ctx, errClass(r.Err)
		}
		after := bal(w, ctx, t)
		paid := before.AmountOf(in).Sub(after.AmountOf(in))
		recv := after.AmountOf(out).Sub(before.AmountOf(out))
		// The response only carries the computed side; the specified side can be filled partially when
		// the swap runs out of liquidity before the price limit (observed, counted, not asserted: no
		// listed property speaks about it). Amounts are therefore taken from the balances.
		amtIn, amtOut := paid, recv
		if op.K == "swapin" {
			var resp pmtypes.MsgSwapExactAmountInResponse
			mustUnmarshal(r.Res, &resp)
			if !resp.TokenOutAmount.Equal(recv) {
				fail("swap.response-matches-balance", "", fmt.Sprintf("response out=%s, balance moved out=%s", resp.TokenOutAmount, recv))
			}
			if paid.GT(spec) {
				fail("swap.charged-at-most-specified-input", "", fmt.Sprintf("specified in=%s, charged %s", spec, paid))
			}
			if paid.LT(spec) {
				l.PartialFills++
			}
		} else {
			var resp pmtypes.MsgSwapExactAmountOutResponse
			mustUnmarshal(r.Res, &resp)
			if !resp.TokenInAmount.Equal(paid) {
				fail("swap.response-matches-balance", "", fmt.Sprintf("response in=%s, balance moved in=%s", resp.TokenInAmount, paid))
			}
			if recv.GT(spec) {
				fail("swap.paid-out-at-most-specified-output", "", fmt.Sprintf("specified out=%s, paid out %s", spec, recv))
			}
			if recv.LT(spec) {
				l.PartialFills++
			}
		}
		if !amtIn.IsPositive() || !amtOut.IsPositive() {
			fail("swap.no-zero-sided-success", "", fmt.Sprintf("in=%s out=%s", amtIn, amtOut))
		}
		w.afterSwap(l, sc, op.D == 0, amtIn, w.App.BankKeeper.GetBalance(ctx, feeAcct, in).Amount.Sub(feeBefore), in)
		// upper bound on the spread reward this swap can have produced
		fee := amtIn.ToLegacyDec().Mul(w.SF).Ceil().TruncateInt()
		l.SpreadPaidIn = l.SpreadPaidIn.Add(sdk.NewCoin(in, fee))
		l.Swaps++
	case "cspread":
		if op.P >= len(l.Pos) {
			return ctx, "rejected:no-such-position"
		}
		p := l.Pos[op.P]
		before := bal(w, ctx, core.Acc(p.Owner))
		r := core.Deliver(a, ctx, &cltypes.MsgCollectSpreadRewards{PositionIds: []uint64{p.ID}, Sender: core.Acc(p.Owner).String()})
		if !r.OK() {
			return ctx, errClass(r.Err)
		}
		var resp cltypes.MsgCollectSpreadRewardsResponse
		mustUnmarshal(r.Res, &resp)
		got := bal(w, ctx, core.Acc(p.Owner)).Sub(before...)
		if !got.Equal(resp.CollectedSpreadRewards) {
			fail("cspread.response-matches-balance", "", fmt.Sprintf("response %s balance %s", resp.CollectedSpreadRewards, got))
		}
		l.SpreadClaimed = l.SpreadClaimed.Add(resp.CollectedSpreadRewards...)
		l.Claims++
		if l.R.On {
			for i, d := range []string{Denom0, Denom1} {
				l.Pos[op.P].R.CumSpread[i] = l.Pos[op.P].R.CumSpread[i].Add(resp.CollectedSpreadRewards.AmountOf(d))
			}
			l.Pos[op.P].R.Claims++
		}
	case "cinc":
		if op.P >= len(l.Pos) {
			return ctx, "rejected:no-such-position"
		}
		p := l.Pos[op.P]
		before := bal(w, ctx, core.Acc(p.Owner))
		r := core.Deliver(a, ctx, &cltypes.MsgCollectIncentives{PositionIds: []uint64{p.ID}, Sender: core.Acc(p.Owner).String()})
		if !r.OK() {
			return ctx, errClass(r.Err)
		}
		var resp cltypes.MsgCollectIncentivesResponse
		mustUnmarshal(r.Res, &resp)
		got := bal(w, ctx, core.Acc(p.Owner)).Sub(before...)
		// the sender receives what the response reports as collected; when no liquidity is active the
		// forfeited part is returned to the sender as well (documented in redepositForfeitedIncentives)
		if !got.Equal(resp.CollectedIncentives) && !got.Equal(resp.CollectedIncentives.Add(resp.ForfeitedIncentives...)) {
			fail("cinc.response-matches-balance", "", fmt.Sprintf("response collected %s forfeited %s, balance moved %s", resp.CollectedIncentives, resp.ForfeitedIncentives, got))
		}
		l.IncClaimed = l.IncClaimed.Add(resp.CollectedIncentives...)
		l.Claims++
		if l.R.On {
			tgt := &l.Pos[op.P]
			forfeit, ent := settleIncentives(w, tgt, ctx.BlockTime())
			otherL := w.activeLiq(ctx, l)
			if inRangeTick(tgt, w.pool(ctx).GetCurrentTick()) {
				otherL = new(big.Rat).Sub(otherL, ratDec(tgt.Liq))
			}
			// reference: what a position forfeits goes to the active liquidity (statement: nothing is lost)
			w.redeposit(ctx, l, forfeit, &tgt.R)
			for u, d := range incDenoms {
				// book what actually reached the owner (forfeits are returned to the sender when no liquidity is active)
				tgt.R.CumInc[u] = tgt.R.CumInc[u].Add(got.AmountOf(d))
				if !ent[u] && got.AmountOf(d).IsPositive() && otherL.Cmp(ratInt(1)) >= 0 {
					fail("c08.uptime-not-met-not-paid", "", fmt.Sprintf("collect: position %d age %s < uptime %s was paid %s %s while other liquidity is active", tgt.ID, ctx.BlockTime().Sub(tgt.Join), w.Uptime[u], got.AmountOf(d), d))
				}
			}
		}
	case "transfer":
		if op.P >= len(l.Pos) {
			return ctx, "rejected:no-such-position"
		}
		p := l.Pos[op.P]
		if p.Owner == op.A {
			return ctx, "rejected:self"
		}
		r := core.Deliver(a, ctx, &cltypes.MsgTransferPositions{PositionIds: []uint64{p.ID}, Sender: core.Acc(p.Owner).String(), NewOwner: core.Acc(op.A).String()})
		if !r.OK() {
			return ctx, errClass(r.Err)
		}
		l.Pos[op.P].Owner = op.A
	case "incentive":
		den := IncDen
		if l.R.On {
			den = incDenoms[op.D]
		}
		coin := sdk.NewCoin(den, sdkInt(op.X))
		rate := osmomath.NewDec(op.Y)
		start := ctx.BlockTime()
		rec, err := w.createIncentive(ctx, coin, rate, start, w.Uptime[op.D])
		if err != nil {
			return ctx, errClass(err)
		}
		l.Incentives = append(l.Incentives, IncRec{ID: rec.IncentiveId, Denom: den, Amount: coin.Amount, Uptime: w.Uptime[op.D], Start: start})
		l.IncPaidIn = l.IncPaidIn.Add(coin)
		if l.R.On {
			l.R.Recs = append(l.R.Recs, IncR{U: op.D, Rate: ratInt(op.Y), Remaining: ratInt(op.X), Initial: coin.Amount})
		}
	case "tick":
		w.emit(ctx, l, dts[op.D])
		next, err := core.NextBlock(a, ctx, dts[op.D])
		if err != nil {
			fail("block.boundary-succeeds", "", err.Error())
			return ctx, "rejected:block"
		}
		ctx = next
	default:
		panic("unknown op " + op.K)
	}
	w.markInRange(ctx, l)
	return ctx, "ok"
}

func (w *World) createIncentive(ctx sdk.Context, coin sdk.Coin, rate osmomath.Dec, start time.Time, up time.Duration) (rec cltypes.IncentiveRecord, err error) {
	child, write := ctx.CacheContext()
	defer func() {
		if r := recover(); r != nil {
			err = fmt.Errorf("panic: %v", r)
		}
	}()
	rec, err = w.App.ConcentratedLiquidityKeeper.CreateIncentive(child, w.PoolID, core.Acc("I"), coin, rate, start, up)
	if err == nil {
		write()
	}
	return rec, err
}

// noteClaims attributes the part of a balance delta beyond the principal to reward claims.
func (l *Ledger) noteClaims(got sdk.Coins, p0, p1 sdkmath.Int) {
	for _, c := range got {
		amt := c.Amount
		switch c.Denom {
		case Denom0:
			amt = amt.Sub(p0)
		case Denom1:
			amt = amt.Sub(p1)
		}
		if !amt.IsPositive() {
			continue
		}
		if c.Denom == IncDen {
			l.IncClaimed = l.IncClaimed.Add(sdk.NewCoin(c.Denom, amt))
		} else {
			l.SpreadClaimed = l.SpreadClaimed.Add(sdk.NewCoin(c.Denom, amt))
		}
	}
	l.Claims++
}

// noteClaimsFromBalance records incentive-denom income during an add-to-position (the pool-token
// part cannot be separated from principal there and is left out: it only makes the ledger's
// "claimed" total an under-estimate, which is the safe side for the conservation bound).
func (l *Ledger) noteClaimsFromBalance(before, after sdk.Coins) {
	d := after.AmountOf(IncDen).Sub(before.AmountOf(IncDen))
	if d.IsPositive() {
		l.IncClaimed = l.IncClaimed.Add(sdk.NewCoin(IncDen, d))
	}
	l.Claims++
}

// Alphabet returns the operations enabled in a state, simplest first.
type Alphabet struct {
	Creates   []Op
	Adds      [][2]int64
	Withdraws [][2]int64 // fraction num/den ; {1,1} = all
	SwapIn    []int64
	SwapOut   []int64
	Claims    bool
	Transfer  bool
	Incentive bool
	Ticks     []int
	// CrossSwaps adds, per direction, swaps whose input is synthesised by the exact walker from the current
	// state: the amount that lands exactly on the next initialised tick, and one and a half times that
	// (crosses the tick and continues into the next bucket)
	CrossSwaps bool
	// Match adds, for every pair of positions that meet at a tick (one's upper bound is the other's lower bound) with
	// different liquidity, the partial withdrawal that makes their liquidity EQUAL (net liquidity of the shared tick 0)
	Match bool
}

func (w *World) Enabled(al *Alphabet) func(ctx sdk.Context, l *Ledger, depth int) []Op {
	return func(ctx sdk.Context, l *Ledger, depth int) []Op {
		var ops []Op
		for _, x := range al.SwapIn {
			ops = append(ops, Op{K: "swapin", D: 0, X: x}, Op{K: "swapin", D: 1, X: x})
		}
		for _, x := range al.SwapOut {
			ops = append(ops, Op{K: "swapout", D: 0, X: x}, Op{K: "swapout", D: 1, X: x})
		}
		if al.CrossSwaps && len(l.Pos) > 0 {
			if sp := w.pool(ctx).GetCurrentSqrtPrice(); !sp.IsZero() {
				c := newCurve(l)
				s0 := ratBigDec(sp)
				for dir := 0; dir < 2; dir++ {
					if in, _, ok := c.toNextTick(s0, dir == 0, ratDec(w.SF)); ok {
						ci := ceilRat(in)
						if w.Cfg.Exp10 != 0 {
							// real base units: carried as Raw, never scaled
							if ci.Sign() > 0 && ci.BitLen() < 60+w.scale.BitLen() {
								x2 := new(big.Int).Add(ci, new(big.Int).Rsh(ci, 1))
								x2.Add(x2, w.amtBig(1000))
								ops = append(ops, Op{K: "swapin", D: dir, Raw: ci.String()}, Op{K: "swapin", D: dir, Raw: x2.String()})
							}
							continue
						}
						if ci.Sign() > 0 && ci.BitLen() < 60 {
							x := ci.Int64()
							ops = append(ops, Op{K: "swapin", D: dir, X: x}, Op{K: "swapin", D: dir, X: x + x/2 + 1000})
						}
					}
				}
			}
		}
		if len(l.Pos) < 4 {
			ops = append(ops, al.Creates...)
		}
		for i := range l.Pos {
			for _, f := range al.Withdraws {
				ops = append(ops, Op{K: "withdraw", P: i, X: f[0], Y: f[1]})
			}
			if al.Match {
				for j := range l.Pos {
					if (l.Pos[i].Lower == l.Pos[j].Upper || l.Pos[i].Upper == l.Pos[j].Lower) && l.Pos[i].Liq.GT(l.Pos[j].Liq) {
						ops = append(ops, Op{K: "withdraw", P: i, Q: j + 1})
					}
				}
			}
			for _, ad := range al.Adds {
				ops = append(ops, Op{K: "add", P: i, X: ad[0], Y: ad[1]})
			}
			if al.Claims {
				ops = append(ops, Op{K: "cspread", P: i}, Op{K: "cinc", P: i})
			}
			if al.Transfer {
				to := "B"
				if l.Pos[i].Owner == "B" {
					to = "A"
				}
				ops = append(ops, Op{K: "transfer", P: i, A: to})
			}
		}
		if al.Incentive && len(l.Incentives) < 2 {
			ops = append(ops, Op{K: "incentive", X: 1000000, Y: 10, D: 0}, Op{K: "incentive", X: 3700, Y: 1, D: 1})
			if l.R.On {
				ops = append(ops, Op{K: "incentive", X: 500000, Y: 3, D: 2})
			}
		}
		for _, t := range al.Ticks {
			ops = append(ops, Op{K: "tick", D: t})
		}
		return ops
	}
}

func sortedIDs(l *Ledger) []uint64 {
	ids := make([]uint64, 0, len(l.Pos))
	for _, p := range l.Pos {
		ids = append(ids, p.ID)
	}
	sort.Slice(ids, func(i, j int) bool { return ids[i] < ids[j] })
	return ids
}
