package main

import (
	"fmt"
	"math/big"
	"time"

	sdkmath "cosmossdk.io/math"
	sdk "github.com/cosmos/cosmos-sdk/types"

	cltypes "github.com/osmosis-labs/osmosis/v31/x/concentrated-liquidity/types"
	"github.com/osmosis-labs/osmosis/v31/zzverif/core"
)

// Reward reference ledger for C08. All big.Rat values are treated as immutable (every update
// allocates a new value), so copying a PosR by value is a deep-enough clone.

var incDenoms = []string{"inc1ns", "inc1min", "inc1h"} // one incentive denom per authorised uptime

type PosR struct {
	ExpSpread  [2]*big.Rat    // expected cumulative spread reward (token0, token1)
	CumSpread  [2]sdkmath.Int // actually paid so far
	ExpIncAcc  [3]*big.Rat    // accrued, not yet settled, per uptime index
	ExpIncPaid [3]*big.Rat    // expected cumulative payout
	CumInc     [3]sdkmath.Int // actually paid so far
	Steps      int            // swap steps during which the position was in range
	Claims     int
	LiqCh      int
	Emissions  int
	Inherit    int64 // rounding budget inherited through forfeits: a forfeiter hands on what it really accrued, which already
	// differs from the exact pro-rata figure by up to its own budget; each recipient inherits its share of that budget
	Touched    bool // liquidity changed after creation (twins relation no longer applies)
	BornSeq    int  // number of forfeit redistributions that had happened when the position was created
	BornSwaps  int  // number of swaps that had happened when the position was created
	Forfeited  bool // has claimed before meeting an uptime and thereby forfeited accrued incentives (by design)
}

func newPosR() PosR {
	z := new(big.Rat)
	zi := sdkmath.ZeroInt()
	return PosR{ExpSpread: [2]*big.Rat{z, z}, CumSpread: [2]sdkmath.Int{zi, zi}, ExpIncAcc: [3]*big.Rat{z, z, z}, ExpIncPaid: [3]*big.Rat{z, z, z}, CumInc: [3]sdkmath.Int{zi, zi, zi}}
}

type IncR struct {
	U         int
	Rate      *big.Rat
	Remaining *big.Rat
	Initial   sdkmath.Int
}

type Rewards struct {
	On         bool
	Recs       []IncR
	SpreadIn   [2]sdkmath.Int // observed income of the spread-reward account
	GoneSpread [2]sdkmath.Int // totals paid to positions that no longer exist
	GoneInc    [3]sdkmath.Int
	TotalStep  int
	EmitEvents int
	Redeposits int
}

func newRewards() Rewards {
	z := sdkmath.ZeroInt()
	return Rewards{On: true, SpreadIn: [2]sdkmath.Int{z, z}, GoneSpread: [2]sdkmath.Int{z, z}, GoneInc: [3]sdkmath.Int{z, z, z}}
}

// activeLiq is the liquidity of the ledger's positions containing the pool's current tick.
func (w *World) activeLiq(ctx sdk.Context, l *Ledger) *big.Rat {
	L := new(big.Rat)
	p := w.pool(ctx)
	if p.GetCurrentSqrtPrice().IsZero() {
		return L
	}
	t := p.GetCurrentTick()
	for i := range l.Pos {
		if inRangeTick(&l.Pos[i], t) {
			L = radd(L, ratDec(l.Pos[i].Liq))
		}
	}
	return L
}

// retire checks a position that ceases to exist against its expectation one last time and moves
// its totals into the ledger's "gone" sums.
func (w *World) retire(l *Ledger, p *Pos, fail func(a, s, d string)) {
	tolS := int64(2*p.R.Steps + p.R.Claims + p.R.LiqCh + 3)
	for d := 0; d < 2; d++ {
		diff := new(big.Rat).Sub(new(big.Rat).SetInt(p.R.CumSpread[d].BigInt()), p.R.ExpSpread[d])
		if diff.Cmp(ratInt(tolS)) > 0 || diff.Cmp(ratInt(-tolS)) < 0 {
			fail("c08.spread-final-equals-earned", "", fmt.Sprintf("position %d [%d,%d) left having received %s of token%d, earned pro rata %s (tolerance %d)", p.ID, p.Lower, p.Upper, p.R.CumSpread[d], d, p.R.ExpSpread[d].FloatString(6), tolS))
		}
		l.R.GoneSpread[d] = l.R.GoneSpread[d].Add(p.R.CumSpread[d])
	}
	tolI := int64(p.R.Emissions+p.R.Claims+p.R.LiqCh+3) + p.R.Inherit
	for u := range incDenoms {
		diff := new(big.Rat).Sub(new(big.Rat).SetInt(p.R.CumInc[u].BigInt()), p.R.ExpIncPaid[u])
		if diff.Cmp(ratInt(tolI)) > 0 || diff.Cmp(ratInt(-tolI)) < 0 {
			fail("c08.incentive-final-equals-earned", "", fmt.Sprintf("position %d left having received %s %s, entitled to %s (tolerance %d)", p.ID, p.R.CumInc[u], incDenoms[u], p.R.ExpIncPaid[u].FloatString(6), tolI))
		}
		l.R.GoneInc[u] = l.R.GoneInc[u].Add(p.R.CumInc[u])
	}
}

func radd(a, b *big.Rat) *big.Rat { return new(big.Rat).Add(a, b) }

func denomIdx(d string) int {
	switch d {
	case Denom0:
		return 0
	case Denom1:
		return 1
	}
	return -1
}

func incIdx(d string) int {
	for i, x := range incDenoms {
		if x == d {
			return i
		}
	}
	return -1
}

// inRange by tick, exactly as the pool defines active liquidity.
func inRangeTick(p *Pos, tick int64) bool { return p.Lower <= tick && tick < p.Upper }

// beforeSwap/afterSwap attribute the exact per-step spread fee to the positions covering each step.
type swapCtx struct {
	c  *curve
	s0 *big.Rat
}

func (w *World) beforeSwap(ctx sdk.Context, l *Ledger) *swapCtx {
	if !l.R.On || len(l.Pos) == 0 {
		return nil
	}
	s := w.pool(ctx).GetCurrentSqrtPrice()
	if s.IsZero() {
		return nil
	}
	return &swapCtx{c: newCurve(l), s0: ratBigDec(s)}
}

func (w *World) afterSwap(l *Ledger, sc *swapCtx, zeroForOne bool, paidIn sdkmath.Int, feeObserved sdkmath.Int, denomIn string) {
	if sc == nil {
		return
	}
	wr := sc.c.walk(sc.s0, zeroForOne, true, new(big.Rat).SetInt(paidIn.BigInt()), ratDec(w.SF))
	di := denomIdx(denomIn)
	l.R.SpreadIn[di] = l.R.SpreadIn[di].Add(feeObserved)
	l.R.TotalStep += len(wr.StepFee)
	for i := range wr.StepFee {
		lo, hi := wr.StepFrom[i], wr.StepTo[i]
		if lo.Cmp(hi) > 0 {
			lo, hi = hi, lo
		}
		for j := range l.Pos {
			p := &l.Pos[j]
			plo, phi := tickSqrt(p.Lower), tickSqrt(p.Upper)
			if plo.Cmp(lo) <= 0 && hi.Cmp(phi) <= 0 {
				share := new(big.Rat).Quo(new(big.Rat).Mul(wr.StepFee[i], ratDec(p.Liq)), wr.StepLiq[i])
				p.R.ExpSpread[di] = radd(p.R.ExpSpread[di], share)
				p.R.Steps++
				p.EverInRange = true
			}
		}
	}
	// anything the price swept over counts as entered
	a, b := sc.s0, wr.End
	if a.Cmp(b) > 0 {
		a, b = b, a
	}
	for j := range l.Pos {
		p := &l.Pos[j]
		plo, phi := tickSqrt(p.Lower), tickSqrt(p.Upper)
		if plo.Cmp(b) <= 0 && a.Cmp(phi) <= 0 {
			p.EverInRange = true
		}
	}
}

// emit models the passage of dt with the pool's current tick / active liquidity.
func (w *World) emit(ctx sdk.Context, l *Ledger, dt time.Duration) {
	if !l.R.On || len(l.R.Recs) == 0 || len(l.Pos) == 0 {
		return
	}
	p := w.pool(ctx)
	if p.GetCurrentSqrtPrice().IsZero() {
		return
	}
	tick := p.GetCurrentTick()
	L := new(big.Rat)
	for i := range l.Pos {
		if inRangeTick(&l.Pos[i], tick) {
			L = radd(L, ratDec(l.Pos[i].Liq))
		}
	}
	if L.Cmp(ratInt(1)) < 0 {
		return
	}
	secs := new(big.Rat).SetFrac(big.NewInt(int64(dt)), big.NewInt(1e9))
	l.R.EmitEvents++
	for ri := range l.R.Recs {
		r := &l.R.Recs[ri]
		if r.Remaining.Sign() == 0 {
			continue
		}
		em := new(big.Rat).Mul(r.Rate, secs)
		if em.Cmp(r.Remaining) > 0 {
			em = r.Remaining
		}
		r.Remaining = new(big.Rat).Sub(r.Remaining, em)
		for i := range l.Pos {
			q := &l.Pos[i]
			if inRangeTick(q, tick) {
				share := new(big.Rat).Quo(new(big.Rat).Mul(em, ratDec(q.Liq)), L)
				q.R.ExpIncAcc[r.U] = radd(q.R.ExpIncAcc[r.U], share)
				q.R.Emissions++
				q.EverInRange = true
			}
		}
	}
}

// settleIncentives models a claim of position pi at time now. Forfeited amounts are handed to the
// liquidity that is active after the operation (redeposit), or to the claimer when there is none.
// It returns, per uptime index, whether the claimer was entitled to be paid in that denom.
func settleIncentives(w *World, p *Pos, now time.Time) (forfeit [3]*big.Rat, entitled [3]bool) {
	age := now.Sub(p.Join)
	for u := range w.Uptime {
		acc := p.R.ExpIncAcc[u]
		p.R.ExpIncAcc[u] = new(big.Rat)
		if age >= w.Uptime[u] {
			entitled[u] = true
			p.R.ExpIncPaid[u] = radd(p.R.ExpIncPaid[u], acc)
			forfeit[u] = new(big.Rat)
		} else {
			forfeit[u] = acc
			if acc.Sign() > 0 {
				p.R.Forfeited = true
			}
		}
	}
	p.R.Claims++
	return
}

// redeposit distributes forfeits over the liquidity active at tick (positions as in l now);
// with no active liquidity the claimer (by id) receives them.
func (w *World) redeposit(ctx sdk.Context, l *Ledger, forfeit [3]*big.Rat, claimer *PosR) {
	p := w.pool(ctx)
	tick := p.GetCurrentTick()
	L := new(big.Rat)
	if !p.GetCurrentSqrtPrice().IsZero() {
		for i := range l.Pos {
			if inRangeTick(&l.Pos[i], tick) {
				L = radd(L, ratDec(l.Pos[i].Liq))
			}
		}
	}
	for u := range forfeit {
		if forfeit[u] == nil || forfeit[u].Sign() == 0 {
			continue
		}
		l.R.Redeposits++
		if L.Cmp(ratInt(1)) < 0 {
			claimer.ExpIncPaid[u] = radd(claimer.ExpIncPaid[u], forfeit[u])
			continue
		}
		budget := ratInt(int64(claimer.Emissions+claimer.Claims+claimer.LiqCh+2) + claimer.Inherit)
		for i := range l.Pos {
			q := &l.Pos[i]
			if inRangeTick(q, tick) {
				q.R.ExpIncAcc[u] = radd(q.R.ExpIncAcc[u], new(big.Rat).Quo(new(big.Rat).Mul(forfeit[u], ratDec(q.Liq)), L))
				q.R.Emissions++
				// ceil(budget * Lq / L)
				sh := new(big.Rat).Quo(new(big.Rat).Mul(budget, ratDec(q.Liq)), L)
				c := new(big.Int).Quo(sh.Num(), sh.Denom())
				if !sh.IsInt() {
					c.Add(c, big.NewInt(1))
				}
				q.R.Inherit += c.Int64()
			}
		}
	}
}

// notePaid books an owner's balance delta of one operation on the position it concerned.
func notePaid(r *PosR, delta sdk.Coins, principal0, principal1 sdkmath.Int) {
	for _, c := range delta {
		if i := denomIdx(c.Denom); i >= 0 {
			amt := c.Amount
			if i == 0 {
				amt = amt.Sub(principal0)
			} else {
				amt = amt.Sub(principal1)
			}
			r.CumSpread[i] = r.CumSpread[i].Add(amt)
		} else if u := incIdx(c.Denom); u >= 0 {
			r.CumInc[u] = r.CumInc[u].Add(c.Amount)
		}
	}
}

// ---------------------------------------------------------------------------------------------
// C08 state oracle
// ---------------------------------------------------------------------------------------------

func (w *World) CheckC08(ctx sdk.Context, l *Ledger, fail func(a, s, d string), res *core.Result) {
	if !l.R.On {
		return
	}
	vac := res.Vacuity
	k := w.App.ConcentratedLiquidityKeeper
	w.probeMultiCollect(ctx, l, fail, vac)
	qc, _ := ctx.CacheContext()
	now := ctx.BlockTime()
	sumSpread := [2]sdkmath.Int{sdkmath.ZeroInt(), sdkmath.ZeroInt()}
	type seenT struct {
		cum [2]sdkmath.Int
		inc [3]sdkmath.Int
	}
	obs := make([]seenT, len(l.Pos))
	for i := range obs {
		z := sdkmath.ZeroInt()
		obs[i] = seenT{cum: [2]sdkmath.Int{z, z}, inc: [3]sdkmath.Int{z, z, z}}
	}
	for i := range l.Pos {
		p := &l.Pos[i]
		var cs, ci, fi sdk.Coins
		err := core.Try(func() (e error) { cs, e = k.GetClaimableSpreadRewards(qc, p.ID); return })
		if err != nil {
			fail("c08.claimable-spread-query", "", fmt.Sprintf("position %d: %v", p.ID, err))
			continue
		}
		err = core.Try(func() (e error) { ci, fi, e = k.GetClaimableIncentives(qc, p.ID); return })
		if err != nil {
			fail("c08.claimable-incentives-query", "", fmt.Sprintf("position %d: %v", p.ID, err))
			continue
		}
		tolS := int64(2*p.R.Steps + p.R.Claims + p.R.LiqCh + 2)
		for d := 0; d < 2; d++ {
			den := Denom0
			if d == 1 {
				den = Denom1
			}
			tot := p.R.CumSpread[d].Add(cs.AmountOf(den))
			obs[i].cum[d] = tot
			sumSpread[d] = sumSpread[d].Add(tot)
			exp := p.R.ExpSpread[d]
			diff := new(big.Rat).Sub(new(big.Rat).SetInt(tot.BigInt()), exp)
			if diff.Cmp(ratInt(tolS)) > 0 {
				fail("c08.spread-not-more-than-earned", "", fmt.Sprintf("position %d [%d,%d) liq %s: received+claimable %s %s, earned pro rata %s (tolerance %d)", p.ID, p.Lower, p.Upper, p.Liq, tot, den, exp.FloatString(6), tolS))
			}
			if diff.Cmp(ratInt(-tolS)) < 0 {
				fail("c08.spread-not-less-than-earned", "", fmt.Sprintf("position %d [%d,%d) liq %s: received+claimable %s %s, earned pro rata %s (tolerance %d)", p.ID, p.Lower, p.Upper, p.Liq, tot, den, exp.FloatString(6), tolS))
			}
			if exp.Sign() > 0 {
				vac["positions_with_earned_spread"]++
			}
		}
		tolI := int64(p.R.Emissions+p.R.Claims+p.R.LiqCh+2) + p.R.Inherit
		age := now.Sub(p.Join)
		for u := range w.Uptime {
			den := incDenoms[u]
			pending := ci.AmountOf(den).Add(fi.AmountOf(den))
			tot := p.R.CumInc[u].Add(pending)
			obs[i].inc[u] = tot
			exp := radd(p.R.ExpIncPaid[u], p.R.ExpIncAcc[u])
			diff := new(big.Rat).Sub(new(big.Rat).SetInt(tot.BigInt()), exp)
			if diff.Cmp(ratInt(tolI)) > 0 {
				fail("c08.incentive-not-more-than-earned", "", fmt.Sprintf("position %d age %s uptime %s: received+pending %s %s, earned pro rata %s (tolerance %d)", p.ID, age, w.Uptime[u], tot, den, exp.FloatString(6), tolI))
			}
			if diff.Cmp(ratInt(-tolI)) < 0 {
				fail("c08.incentive-not-less-than-earned", "", fmt.Sprintf("position %d age %s uptime %s: received+pending %s %s, earned pro rata %s (tolerance %d)", p.ID, age, w.Uptime[u], tot, den, exp.FloatString(6), tolI))
			}
			// the query must classify pending rewards by the uptime rule
			if age < w.Uptime[u] && ci.AmountOf(den).IsPositive() {
				fail("c08.uptime-not-met-not-claimable", "", fmt.Sprintf("position %d age %s < uptime %s but %s %s is reported claimable", p.ID, age, w.Uptime[u], ci.AmountOf(den), den))
			}
			if age < w.Uptime[u] && fi.AmountOf(den).IsPositive() {
				vac["pending_forfeits_seen"]++
			}
			if exp.Sign() > 0 {
				vac["positions_with_earned_incentives"]++
			}
		}
		if !p.EverInRange {
			vac["never_in_range_positions"]++
			for d := 0; d < 2; d++ {
				if obs[i].cum[d].IsPositive() {
					fail("c08.never-in-range-earns-nothing", "", fmt.Sprintf("position %d [%d,%d) was never in range but has spread rewards %s", p.ID, p.Lower, p.Upper, obs[i].cum[d]))
				}
			}
			for u := range w.Uptime {
				if obs[i].inc[u].IsPositive() {
					fail("c08.never-in-range-earns-nothing", "", fmt.Sprintf("position %d [%d,%d) was never in range but has incentives %s %s", p.ID, p.Lower, p.Upper, obs[i].inc[u], incDenoms[u]))
				}
			}
		}
	}
	// twins: identical range, liquidity and birth, untouched since
	for i := range l.Pos {
		for j := i + 1; j < len(l.Pos); j++ {
			a, b := &l.Pos[i], &l.Pos[j]
			// identical lifetime includes the order of events inside the birth block: a forfeit redistributed or a
			// swap executed between the two creations reaches only the older one
			if a.Lower != b.Lower || a.Upper != b.Upper || !a.Join.Equal(b.Join) || !a.Liq.Equal(b.Liq) || a.R.Touched || b.R.Touched || a.R.BornSeq != b.R.BornSeq || a.R.BornSwaps != b.R.BornSwaps {
				continue
			}
			vac["twin_pairs_compared"]++
			tol := sdkmath.NewInt(int64(a.R.Claims + b.R.Claims + 1))
			for d := 0; d < 2; d++ {
				if obs[i].cum[d].Sub(obs[j].cum[d]).Abs().GT(tol) {
					fail("c08.twins-earn-equal", "", fmt.Sprintf("positions %d and %d are twins but earned %s vs %s of token%d", a.ID, b.ID, obs[i].cum[d], obs[j].cum[d], d))
				}
			}
			for u := range w.Uptime {
				// a twin that claimed before meeting an uptime forfeited by design; the relation is about
				// positions treated alike
				if a.R.Forfeited || b.R.Forfeited {
					break
				}
				if obs[i].inc[u].Sub(obs[j].inc[u]).Abs().GT(tol.AddRaw(int64(a.R.Emissions))) {
					fail("c08.twins-earn-equal", "", fmt.Sprintf("positions %d and %d are twins but earned %s vs %s %s", a.ID, b.ID, obs[i].inc[u], obs[j].inc[u], incDenoms[u]))
				}
			}
		}
	}
	// conservation: ever claimable <= paid in, short only by dust
	for d := 0; d < 2; d++ {
		tot := sumSpread[d].Add(l.R.GoneSpread[d])
		if tot.GT(l.R.SpreadIn[d]) {
			fail("c08.spread-total-not-above-paid-in", "", fmt.Sprintf("token%d: claimed+claimable %s > paid into the spread-reward account %s", d, tot, l.R.SpreadIn[d]))
		}
		dust := sdkmath.NewInt(int64(2*l.R.TotalStep + l.Claims + l.LiqChanges + 2))
		if l.R.SpreadIn[d].Sub(tot).GT(dust) {
			fail("c08.spread-total-short-only-by-dust", "", fmt.Sprintf("token%d: paid in %s, claimed+claimable %s, missing more than the dust bound %s", d, l.R.SpreadIn[d], tot, dust))
		}
	}
	if len(l.R.Recs) > 0 {
		for u := range w.Uptime {
			emitted := new(big.Rat)
			any := false
			for _, r := range l.R.Recs {
				if r.U == u {
					any = true
					emitted = radd(emitted, new(big.Rat).Sub(new(big.Rat).SetInt(r.Initial.BigInt()), r.Remaining))
				}
			}
			if !any {
				continue
			}
			tot := l.R.GoneInc[u]
			for i := range l.Pos {
				tot = tot.Add(obs[i].inc[u])
			}
			totR := new(big.Rat).SetInt(tot.BigInt())
			if totR.Cmp(radd(emitted, ratInt(1))) > 0 {
				fail("c08.incentive-total-not-above-emitted", "", fmt.Sprintf("%s: paid+pending %s > emitted %s", incDenoms[u], tot, emitted.FloatString(6)))
			}
			dust := ratInt(int64(l.R.EmitEvents*(len(l.Pos)+1) + l.Claims + l.LiqChanges + 2))
			if new(big.Rat).Sub(emitted, totR).Cmp(dust) > 0 {
				fail("c08.incentive-total-short-only-by-dust", "", fmt.Sprintf("%s: emitted %s, paid+pending %s, missing more than the dust bound %s", incDenoms[u], emitted.FloatString(6), tot, dust.FloatString(0)))
			}
		}
	}
}


// probeMultiCollect: one MsgCollectIncentives / MsgCollectSpreadRewards naming ALL positions of an owner must leave exactly what
// the same positions collected one message at a time (in the same order) leave: the owner's balance, the pool's two reward
// accounts and every position's claimable amounts. Both variants run on throw-away branches of the state.
func (w *World) probeMultiCollect(ctx sdk.Context, l *Ledger, fail func(a, s, d string), vac map[string]int64) {
	byOwner := map[string][]uint64{}
	var owners []string
	for _, p := range l.Pos {
		if _, ok := byOwner[p.Owner]; !ok {
			owners = append(owners, p.Owner)
		}
		byOwner[p.Owner] = append(byOwner[p.Owner], p.ID)
	}
	k := w.App.ConcentratedLiquidityKeeper
	render := func(c sdk.Context, owner string) string {
		pp := w.pool(c)
		s := fmt.Sprintf("owner=%s incentives-account=%s spread-account=%s", bal(w, c, core.Acc(owner)), bal(w, c, pp.GetIncentivesAddress()), bal(w, c, pp.GetSpreadRewardsAddress()))
		for _, p := range l.Pos {
			q, _ := c.CacheContext()
			var cs, ci, fi sdk.Coins
			e1 := core.Try(func() (e error) { cs, e = k.GetClaimableSpreadRewards(q, p.ID); return })
			e2 := core.Try(func() (e error) { ci, fi, e = k.GetClaimableIncentives(q, p.ID); return })
			s += fmt.Sprintf(" | pos %d: spread %s (%v) incentives %s forfeit %s (%v)", p.ID, cs, e1, ci, fi, e2)
		}
		return s
	}
	for _, o := range owners {
		ids := byOwner[o]
		if len(ids) < 2 {
			continue
		}
		for _, kind := range []string{"incentives", "spread"} {
			mk := func(ids []uint64) sdk.Msg {
				if kind == "incentives" {
					return &cltypes.MsgCollectIncentives{PositionIds: ids, Sender: core.Acc(o).String()}
				}
				return &cltypes.MsgCollectSpreadRewards{PositionIds: ids, Sender: core.Acc(o).String()}
			}
			one, _ := ctx.CacheContext()
			rOne := core.Deliver(w.App, one, mk(ids))
			each, _ := ctx.CacheContext()
			allOK := true
			for _, id := range ids {
				if r := core.Deliver(w.App, each, mk([]uint64{id})); !r.OK() {
					allOK = false
					break
				}
			}
			if !allOK {
				continue // a position that cannot be collected alone: nothing to compare
			}
			vac["multi_position_collect_compared_with_single_collects"]++
			if !rOne.OK() {
				fail("c08.collect-of-several-positions-equals-single-collects", kind, fmt.Sprintf("%s: one message for positions %v of %s failed (%v) although each position collects alone", kind, ids, o, rOne.Err))
				continue
			}
			if a, b := render(one, o), render(each, o); a != b {
				fail("c08.collect-of-several-positions-equals-single-collects", kind, fmt.Sprintf("%s, positions %v of %s: after ONE message: %s ;; after one message per position: %s", kind, ids, o, a, b))
			}
		}
	}
}
